(** C18 — abstract specification: the Merkle tree as a recursive definition.

    [mroot k l] is the root of the tree of height [k] over the non-empty leaf
    list [l] (at most 2^k leaves): a short right part is completed by hashing
    the node with itself (Bitcoin's duplicate-the-last rule seen top-down).
    [mbranch k l i] is the list of siblings from leaf [i] up to the root. *)
From Coq Require Import List Arith NArith Bool Relations.
From C33 Require Import C18.Model.
Import ListNotations.
Open Scope nat_scope.

Section Spec.
  Variable T : Type.
  Variable nilT : T.
  Variable hash2 : T -> T -> T.

  Fixpoint mroot (k : nat) (l : list T) : T :=
    match k with
    | O => hd nilT l
    | S k' =>
        let half := 2 ^ k' in
        if length l <=? half then let x := mroot k' l in hash2 x x
        else hash2 (mroot k' (firstn half l)) (mroot k' (skipn half l))
    end.

  Fixpoint mbranch (k : nat) (l : list T) (i : nat) : list T :=
    match k with
    | O => []
    | S k' =>
        let half := 2 ^ k' in
        if length l <=? half then mbranch k' l i ++ [mroot k' l]
        else if i <? half then mbranch k' (firstn half l) i ++ [mroot k' (skipn half l)]
        else mbranch k' (skipn half l) (i - half) ++ [mroot k' (firstn half l)]
    end.

  Definition spec_root (l : list T) : T :=
    match l with
    | [] => nilT
    | _ => mroot (Nat.log2_up (length l)) l
    end.

  Definition spec_branch (l : list T) (i : nat) : list T :=
    mbranch (Nat.log2_up (length l)) l i.

  (** proof verification: at level [j] the bit [j] of the position says
      whether the running hash is the right child. *)
  Fixpoint spec_verify (branch : list T) (x : T) (pos : N) (level : N) : T :=
    match branch with
    | [] => x
    | b :: tl =>
        spec_verify tl (if N.testbit pos level then hash2 b x else hash2 x b) pos (N.succ level)
    end.

  (** the fully padded leaf list of the tree of height k *)
  Fixpoint expand (k : nat) (l : list T) : list T :=
    match k with
    | O => firstn 1 l
    | S k' =>
        let half := 2 ^ k' in
        if length l <=? half then expand k' l ++ expand k' l
        else firstn half l ++ expand k' (skipn half l)
    end.

  (** duplicated-tail pattern (CVE-2012-2459): an aligned block of 2^j leaves
      at the end of the list is repeated. *)
  Inductive dup_step : list T -> list T -> Prop :=
  | dup_step_intro : forall p t j,
      p <> [] -> length t = 2 ^ j -> Nat.divide (2 ^ S j) (length p) ->
      dup_step (p ++ t) (p ++ t ++ t).

  Definition dup_tail_related : list T -> list T -> Prop :=
    clos_refl_sym_trans _ dup_step.

  (** somewhere in [l]: two equal aligned sibling blocks of 2^j elements
      (an aligned duplicated tail is the special case at the end of the list) *)
  Definition haspair (l : list T) : Prop :=
    exists a j, Nat.divide (2 ^ S j) a /\ a + 2 ^ S j <= length l /\
      firstn (2 ^ j) (skipn a l) = firstn (2 ^ j) (skipn (a + 2 ^ j) l).

  (** multi-layer: the child chains partition the transaction list in order and
      every child hash is the tree root of the full hashes of its slice *)
  Fixpoint chains_cover (txs : list (mtx T)) (next : nat) (cs : list (childchain T)) : Prop :=
    match cs with
    | [] => next = length txs
    | c :: tl =>
        cc_start c = next /\ 0 < cc_count c /\
        cc_hash c = spec_root (map snd (firstn (cc_count c) (skipn (cc_start c) txs))) /\
        chains_cover txs (next + cc_count c) tl
    end.
End Spec.

(** executable: does the list end in an aligned repeated block? *)
Section SpecBool.
  Variable T : Type.
  Variable eqT : T -> T -> bool.

  Fixpoint list_eqb_T (a b : list T) : bool :=
    match a, b with
    | [], [] => true
    | x :: a', y :: b' => eqT x y && list_eqb_T a' b'
    | _, _ => false
    end.

  (* try block sizes 2^j for j = 0 .. fuel-1 *)
  Fixpoint has_dup_tail_from (fuel : nat) (bs : nat) (l : list T) : bool :=
    match fuel with
    | O => false
    | S f =>
        let n := length l in
        if n <? 3 * bs then false   (* p non-empty and aligned needs |p| >= 2*bs *)
        else
          ((n mod (2 * bs) =? 0) &&
           list_eqb_T (skipn (n - bs) l) (firstn bs (skipn (n - 2 * bs) l)))
          || has_dup_tail_from f (2 * bs) l
    end.
  Definition has_dup_tail (l : list T) : bool := has_dup_tail_from (length l) 1 l.
End SpecBool.
