(** C18 — assembly of the statements used in Properties.v. *)
From Coq Require Import List Arith ZArith NArith Bool Lia.
From C33 Require Import C18.Model C18.Spec C18.ProofsSeq C18.ProofsPar C18.ProofsBranch
  C18.ProofsComp1 C18.ProofsComp2 C18.ProofsBind C18.ProofsMulti C18.ProofsMut C18.ProofsBind2
  C18.ModelServe C18.ProofsServe1 C18.ProofsServe2 C18.ProofsServe3 C18.ProofsServe4.
Import ListNotations.
Open Scope nat_scope.

Definition parallel_eq_sequential_thm := parallel_eq_sequential.
Definition root_is_tree_root_thm := root_is_spec_root.
Definition related_same_root_thm := related_same_root.
Definition binding_thm := binding_mutated.
Definition pair_flagged_thm := pair_flagged.
Definition child_roots_verify_thm := child_roots_verify.
Definition computation_root_thm := computation_root.
Definition branch_is_tree_branch_thm := branch_is_tree_branch.
Definition branch_verifies_thm := branch_verifies.
Lemma transaction_sort_sorted_thm : forall (T : Type) (l : list (btx T)),
  tsorted (map bt_title (transaction_sort T l)) = true /\
  (tsorted (map bt_title l) = true -> transaction_sort T l = l).
Proof. intros T l. split; [apply sort_is_sorted|apply sorted_sort_id]. Qed.
Definition served_verify_partial_thm := served_verify_partial.
Definition produced_verify_thm := produced_verify.
Definition served_binding_thm := served_binding.
Definition served_block_binding_thm := served_block_binding.
Definition served_verify_full_claim := served_verify_full.
Definition served_verify_refuted_thm := served_verify_refuted.
Definition example_served_thm := example_served.
Definition h_eqb_ok_thm := h_eqb_ok.
Definition served_verify_para_partial_thm := served_verify_para_partial.
Definition served_verify_para_full_claim := served_verify_para_full.
Definition served_verify_para_refuted_thm := served_verify_para_refuted.
Definition example_para_thm := example_para.

Lemma example_duptail :
  let l1 := map Leaf [1; 2; 3; 4; 5; 6]%N in
  let l2 := map Leaf [1; 2; 3; 4; 5; 6; 5; 6]%N in
  all_leaves l1 /\ all_leaves l2 /\ l1 <> l2 /\
  get_merkle_root h HNil sym_hash2 l1 = get_merkle_root h HNil sym_hash2 l2 /\
  dup_step h l1 l2 /\
  comp_mutated h HNil sym_hash2 h_eqb l1 = false /\
  comp_mutated h HNil sym_hash2 h_eqb l2 = true.
Proof.
  cbv zeta. split; [reflexivity|]. split; [reflexivity|]. split; [discriminate|].
  split; [vm_compute; reflexivity|]. split; [|split; vm_compute; reflexivity].
  apply (dup_step_intro h (map Leaf [1; 2; 3; 4]%N) (map Leaf [5; 6]%N) 1).
  - discriminate.
  - reflexivity.
  - exists 1. reflexivity.
Qed.

Lemma example_parallel_and_branch :
  let ls := map Leaf (map N.of_nat (seq 1 300)) in
  get_merkle_root_par h HNil sym_hash2 4 ls = get_merkle_root h HNil sym_hash2 ls /\
  get_merkle_root_par h HNil sym_hash2 4 ls <> HNil /\
  length (get_merkle_branch h HNil sym_hash2 h_eqb ls 298) = 9 /\
  root_from_branch h sym_hash2 (get_merkle_branch h HNil sym_hash2 h_eqb ls 298) (Leaf 299) 298
    = get_merkle_root h HNil sym_hash2 ls.
Proof.
  cbv zeta. split; [vm_compute; reflexivity|]. split; [vm_compute; discriminate|].
  split; vm_compute; reflexivity.
Qed.
