(** C18 — executable model of the proof-serving path, as coded:

    - types/tx.go TransactionSort (grouping of a block's transactions by chain
      title, groups in title order, "main" first, original order inside a group);
    - util/util.go ExecBlock / CreateNewBlock / solo: the block's TxHash is the
      multi-layer root of the *sorted* list after ForkRootHash (the stored list is
      whatever the block carries), the plain root of tx.Hash() before the fork;
    - blockchain/blocktable.go saveParaTxTable: one row per child chain of the
      *stored* list, table keyed by (height, title): a second chain with the same
      title replaces the first row; LoadParaTxByHeight lists the rows in key
      (= title) order;
    - blockchain/query_tx.go ProcQueryTxMsg / getTxHashProofs /
      getTxFullHashProofs / getMultiLayerProofs: the reply fields Proofs,
      TxProofs (Proofs, Index, RootHash), FullHash, Index;
    - the client-side verification of such a reply against the block header's
      TxHash (the procedure of blockchain/chain_test.go testProcQueryTxMsg and of
      the paracross plugin; chain33 itself has no verifier function).

    A transaction is (title, tx.Hash(), tx.FullHash()); a title is [None] for a
    main-chain transaction ("main") or [Some k] where the numbers k are
    order-isomorphic to the title strings (sort.Strings / key order of the table
    is byte order, and "main" < "user.p...."). *)
From Coq Require Import List ZArith NArith Bool.
From C33 Require Import C18.Model.
Import ListNotations.
Local Open Scope nat_scope.

Definition title_eqb (a b : option N) : bool :=
  match a, b with
  | None, None => true
  | Some x, Some y => N.eqb x y
  | _, _ => false
  end.

Definition title_ltb (a b : option N) : bool :=
  match a, b with
  | None, Some _ => true
  | Some x, Some y => N.ltb x y
  | _, _ => false
  end.

Definition title_leb (a b : option N) : bool := negb (title_ltb b a).

(** non-decreasing list of titles *)
Fixpoint tsorted (l : list (option N)) : bool :=
  match l with
  | [] => true
  | a :: tl => match tl with
               | [] => true
               | b :: _ => title_leb a b && tsorted tl
               end
  end.

(** sorted set of titles (the keys of TransactionSort's map after sort.Strings) *)
Fixpoint tinsert (t : option N) (l : list (option N)) : list (option N) :=
  match l with
  | [] => [t]
  | x :: tl => if title_eqb t x then l
               else if title_ltb t x then t :: l
               else x :: tinsert t tl
  end.

Section Serve.
  Variable T : Type.
  Variable nilT : T.
  Variable hash2 : T -> T -> T.
  Variable eqT : T -> T -> bool.

  Record btx := mk_btx { bt_title : option N; bt_hash : T; bt_full : T }.

  Definition to_mtx (x : btx) : mtx T := (bt_title x, bt_full x).

  (** ** types.TransactionSort *)
  Definition title_set (txs : list btx) : list (option N) :=
    fold_right tinsert [] (map bt_title txs).

  Definition transaction_sort (txs : list btx) : list btx :=
    flat_map (fun t => filter (fun x => title_eqb t (bt_title x)) txs) (title_set txs).

  Fixpoint list_eqb_T (a b : list T) : bool :=
    match a, b with
    | [], [] => true
    | x :: a', y :: b' => eqT x y && list_eqb_T a' b'
    | _, _ => false
    end.

  Definition btx_eqb (a b : btx) : bool :=
    title_eqb (bt_title a) (bt_title b) && eqT (bt_hash a) (bt_hash b) && eqT (bt_full a) (bt_full b).

  Fixpoint btxs_eqb (a b : list btx) : bool :=
    match a, b with
    | [], [] => true
    | x :: a', y :: b' => btx_eqb x y && btxs_eqb a' b'
    | _, _ => false
    end.

  (** the block carries its transactions in TransactionSort order *)
  Definition in_sort_order (txs : list btx) : bool := btxs_eqb (transaction_sort txs) txs.

  (** ** the block's TxHash (util.ExecBlock: what a stored block's header holds,
      for a produced block and — after the comparison — for a received one).
      [None] = the 32-byte zero hash of a block without transactions. *)
  Definition block_txhash (fork : bool) (ncpu : Z) (txs : list btx) : option T :=
    if fork then
      match multi_layer_info T nilT hash2 ncpu (map to_mtx (transaction_sort txs)) with
      | Some (r, _) => Some r
      | None => None
      end
    else
      match txs with
      | [] => None
      | _ => Some (get_merkle_root_par T nilT hash2 ncpu (map bt_hash txs))
      end.

  (** ** the para-tx table of one height (after ForkRootHash) *)
  Record prow := mk_prow {
    pr_title : option N; pr_hash : T; pr_start : nat; pr_index : nat; pr_count : nat }.

  Fixpoint rows_of (chains : list (childchain T)) (i : nat) : list prow :=
    match chains with
    | [] => []
    | c :: tl => mk_prow (cc_title c) (cc_hash c) (cc_start c) i (cc_count c) :: rows_of tl (S i)
    end.

  (* table.Replace on the primary key (height, title); rows are kept in key order *)
  Fixpoint table_replace (r : prow) (tb : list prow) : list prow :=
    match tb with
    | [] => [r]
    | x :: tl =>
        if title_eqb (pr_title r) (pr_title x) then r :: tl
        else if title_ltb (pr_title r) (pr_title x) then r :: tb
        else x :: table_replace r tl
    end.

  (* saveParaTxTable on the stored list; LoadParaTxByHeight(height, "", 0, 1) returns this list *)
  Definition save_para_rows (ncpu : Z) (m : list (mtx T)) : list prow :=
    match multi_layer_info T nilT hash2 ncpu m with
    | None => []
    | Some (_, chains) => fold_left (fun tb r => table_replace r tb) (rows_of chains 0) []
    end.

  (** ** getMultiLayerProofs *)
  Record txproof := mk_txproof { tp_proofs : list T; tp_index : N; tp_root : option T }.

  (* for _, paratx := range Items { if title == paratx.Title {...} }: the last match wins *)
  Fixpoint find_row (t : option N) (rows : list prow) (acc : option prow) : option prow :=
    match rows with
    | [] => acc
    | r :: tl => find_row t tl (if title_eqb t (pr_title r) then Some r else acc)
    end.

  Definition get_multi_layer_proofs (is_para : bool) (rows : list prow)
             (m : list (mtx T)) (index : nat) : list txproof :=
    let fulls := map snd m in
    let single := [mk_txproof (get_merkle_branch T nilT hash2 eqT fulls (N.of_nat index))
                              (N.of_nat index) None] in
    if is_para then single else
    match nth_error m index with
    | None => []      (* not reachable: the index comes from the tx index of this block *)
    | Some (title, _) =>
        match rows with
        | [] => []
        | _ =>
            let found := find_row title rows None in
            let start := match found with Some r => pr_start r | None => 0 end in
            let cidx := match found with Some r => pr_index r | None => 0 end in
            let cnt := match found with Some r => pr_count r | None => 0 end in
            if Nat.eqb (length rows) 1 && Nat.eqb start 0 && Nat.eqb cidx 0 then single else
            match found with
            | None => []
            | Some r =>
                if Nat.ltb index start || Nat.ltb (length m) (start + cnt)
                   || Nat.leb (length rows) cidx then []
                else
                  let child := map snd (firstn cnt (skipn start m)) in
                  [mk_txproof (get_merkle_branch T nilT hash2 eqT child (N.of_nat (index - start)))
                              (N.of_nat (index - start)) (Some (pr_hash r));
                   mk_txproof (get_merkle_branch T nilT hash2 eqT (map pr_hash rows) (N.of_nat cidx))
                              (N.of_nat cidx) None]
            end
        end
    end.

  (** ** ProcQueryTxMsg: the proof part of the reply *)
  Record reply := mk_reply {
    rp_proofs : list T; rp_txproofs : list txproof; rp_full : T; rp_index : N }.

  Definition proc_query_tx (fork is_para : bool) (ncpu : Z) (txs : list btx) (index : nat)
    : option reply :=
    match nth_error txs index with
    | None => None
    | Some x =>
        if fork then
          let m := map to_mtx txs in
          Some (mk_reply [] (get_multi_layer_proofs is_para (save_para_rows ncpu m) m index)
                         (bt_full x) (N.of_nat index))
        else
          Some (mk_reply (get_merkle_branch T nilT hash2 eqT (map bt_hash txs) (N.of_nat index))
                         [] nilT (N.of_nat index))
    end.

  (** ** the client: checks a reply for a transaction (its hash [hh], full hash
      [ff]) against the TxHash [root] of the block header *)
  Definition verify_reply (fork : bool) (root hh ff : T) (r : reply) : bool :=
    if fork then
      match rp_txproofs r with
      | [p] =>
          match tp_root p with
          | None => N.eqb (tp_index p) (rp_index r)
                    && eqT (root_from_branch T hash2 (tp_proofs p) ff (tp_index p)) root
          | Some _ => false
          end
      | [p; q] =>
          match tp_root p with
          | Some c => eqT (root_from_branch T hash2 (tp_proofs p) ff (tp_index p)) c
                      && eqT (root_from_branch T hash2 (tp_proofs q) c (tp_index q)) root
          | None => false
          end
      | _ => false
      end
    else
      match rp_txproofs r with
      | [] => eqT (root_from_branch T hash2 (rp_proofs r) hh (rp_index r)) root
      | _ => false
      end.
End Serve.

Arguments mk_btx {T}. Arguments bt_title {T}. Arguments bt_hash {T}. Arguments bt_full {T}.
Arguments mk_prow {T}. Arguments pr_title {T}. Arguments pr_hash {T}. Arguments pr_start {T}.
Arguments pr_index {T}. Arguments pr_count {T}.
Arguments mk_txproof {T}. Arguments tp_proofs {T}. Arguments tp_index {T}. Arguments tp_root {T}.
Arguments mk_reply {T}. Arguments rp_proofs {T}. Arguments rp_txproofs {T}. Arguments rp_full {T}.
Arguments rp_index {T}.
