(** C18 — property theorems only.

    All theorems except [C18_binding] hold for an arbitrary hash type [T], nil
    value, two-hash function and equality test (in particular for the real
    double SHA-256); [C18_binding] is stated in the symbolic hash algebra [h]. *)
From Coq Require Import List ZArith NArith Bool.
From C33 Require Import C18.Model C18.Spec C18.Proofs.
Import ListNotations.

Theorem C18_parallel_eq_sequential :
  forall (T : Type) (nilT : T) (hash2 : T -> T -> T) (ncpu : Z) (ls : list T),
    get_merkle_root_par T nilT hash2 ncpu ls = get_merkle_root T nilT hash2 ls.
Proof. exact parallel_eq_sequential_thm. Qed.
Print Assumptions C18_parallel_eq_sequential.

Theorem C18_root_is_tree_root :
  forall (T : Type) (nilT : T) (hash2 : T -> T -> T) (ls : list T),
    get_merkle_root T nilT hash2 ls = spec_root T nilT hash2 ls.
Proof. exact root_is_tree_root_thm. Qed.
Print Assumptions C18_root_is_tree_root.

Theorem C18_computation_root :
  forall (T : Type) (nilT : T) (hash2 : T -> T -> T) (eqT : T -> T -> bool)
         (ls : list T) (flage : Z) (pos : N),
    ls <> [] -> (1 <= flage <= 3)%Z ->
    fst (fst (computation T nilT hash2 eqT ls flage pos)) = get_merkle_root T nilT hash2 ls.
Proof. exact computation_root_thm. Qed.
Print Assumptions C18_computation_root.

Theorem C18_branch_is_tree_branch :
  forall (T : Type) (nilT : T) (hash2 : T -> T -> T) (eqT : T -> T -> bool)
         (ls : list T) (i : nat),
    (i < length ls)%nat ->
    get_merkle_branch T nilT hash2 eqT ls (N.of_nat i) = spec_branch T nilT hash2 ls i /\
    get_merkle_root_and_branch T nilT hash2 eqT ls (N.of_nat i) =
      (get_merkle_root T nilT hash2 ls, spec_branch T nilT hash2 ls i).
Proof. exact branch_is_tree_branch_thm. Qed.
Print Assumptions C18_branch_is_tree_branch.

Theorem C18_branch_verifies :
  forall (T : Type) (nilT : T) (hash2 : T -> T -> T) (eqT : T -> T -> bool)
         (ls : list T) (i : nat) (x : T),
    nth_error ls i = Some x ->
    root_from_branch T hash2 (get_merkle_branch T nilT hash2 eqT ls (N.of_nat i)) x (N.of_nat i)
      = get_merkle_root T nilT hash2 ls /\
    (let '(r, b) := get_merkle_root_and_branch T nilT hash2 eqT ls (N.of_nat i) in
     root_from_branch T hash2 b x (N.of_nat i) = r /\ r = get_merkle_root_par T nilT hash2 16 ls).
Proof. exact branch_verifies_thm. Qed.
Print Assumptions C18_branch_verifies.

Theorem C18_dup_tail_same_root :
  forall (T : Type) (nilT : T) (hash2 : T -> T -> T) (l1 l2 : list T),
    dup_tail_related T l1 l2 ->
    get_merkle_root T nilT hash2 l1 = get_merkle_root T nilT hash2 l2.
Proof. exact related_same_root_thm. Qed.
Print Assumptions C18_dup_tail_same_root.

Theorem C18_binding :
  forall l1 l2 : list h, all_leaves l1 -> all_leaves l2 -> l1 <> [] -> l2 <> [] ->
    get_merkle_root h HNil sym_hash2 l1 = get_merkle_root h HNil sym_hash2 l2 ->
    l1 = l2 \/
    (l1 <> l2 /\ dup_tail_related h l1 l2 /\
     (* the longer of the two is reported as mutated *)
     (if (length l1 <? length l2)%nat
      then comp_mutated h HNil sym_hash2 h_eqb l2 = true
      else comp_mutated h HNil sym_hash2 h_eqb l1 = true)).
Proof. exact binding_thm. Qed.
Print Assumptions C18_binding.

(** any two equal aligned sibling blocks (in particular an aligned duplicated tail)
    make Computation report mutated = true; needs only that the comparison is reflexive *)
Theorem C18_equal_siblings_flagged :
  forall (T : Type) (nilT : T) (hash2 : T -> T -> T) (eqT : T -> T -> bool),
    (forall x, eqT x x = true) ->
    forall l : list T, haspair T l -> comp_mutated T nilT hash2 eqT l = true.
Proof. exact pair_flagged_thm. Qed.
Print Assumptions C18_equal_siblings_flagged.

Theorem C18_child_roots_verify :
  forall (T : Type) (nilT : T) (hash2 : T -> T -> T) (eqT : T -> T -> bool)
         (ncpu : Z) (txs : list (mtx T)) (root : T) (chains : list (childchain T)),
    multi_layer_info T nilT hash2 ncpu txs = Some (root, chains) ->
    (* the child chains partition the list in order, each child hash is the root of its slice *)
    chains_cover T nilT hash2 txs 0 chains /\
    (* every transaction: its branch inside its chain verifies to the chain's hash, and the
       chain's branch among the chain hashes verifies to the block root (for a single chain
       the chain hash is the block root) *)
    forall (ci : nat) (c : childchain T) (j : nat) (x : T),
      nth_error chains ci = Some c ->
      nth_error (map snd (firstn (cc_count c) (skipn (cc_start c) txs))) j = Some x ->
      root_from_branch T hash2
        (get_merkle_branch T nilT hash2 eqT
           (map snd (firstn (cc_count c) (skipn (cc_start c) txs))) (N.of_nat j)) x (N.of_nat j)
        = cc_hash c /\
      (match chains with
       | [_] => cc_hash c = root
       | _ => root_from_branch T hash2
                (get_merkle_branch T nilT hash2 eqT (map cc_hash chains) (N.of_nat ci))
                (cc_hash c) (N.of_nat ci) = root
       end).
Proof. exact child_roots_verify_thm. Qed.
Print Assumptions C18_child_roots_verify.

(** non-vacuity: concrete instances in the symbolic algebra *)
Example C18_example_duptail :
  let l1 := map Leaf [1; 2; 3; 4; 5; 6]%N in
  let l2 := map Leaf [1; 2; 3; 4; 5; 6; 5; 6]%N in
  all_leaves l1 /\ all_leaves l2 /\ l1 <> l2 /\
  get_merkle_root h HNil sym_hash2 l1 = get_merkle_root h HNil sym_hash2 l2 /\
  dup_step h l1 l2 /\
  comp_mutated h HNil sym_hash2 h_eqb l1 = false /\
  comp_mutated h HNil sym_hash2 h_eqb l2 = true.
Proof. exact example_duptail. Qed.
Print Assumptions C18_example_duptail.

Example C18_example_parallel_and_branch :
  let ls := map Leaf (map N.of_nat (seq 1 300)) in
  get_merkle_root_par h HNil sym_hash2 4 ls = get_merkle_root h HNil sym_hash2 ls /\
  get_merkle_root_par h HNil sym_hash2 4 ls <> HNil /\
  length (get_merkle_branch h HNil sym_hash2 h_eqb ls 298) = 9%nat /\
  root_from_branch h sym_hash2 (get_merkle_branch h HNil sym_hash2 h_eqb ls 298) (Leaf 299) 298
    = get_merkle_root h HNil sym_hash2 ls.
Proof. exact example_parallel_and_branch. Qed.
Print Assumptions C18_example_parallel_and_branch.
