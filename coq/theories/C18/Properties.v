(** C18 — property theorems only. *)
From Coq Require Import List ZArith NArith.
From C33 Require Import C18.Model C18.Spec.
