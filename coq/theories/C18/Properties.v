(** C18 — property theorems only.

    All theorems except [C18_binding] hold for an arbitrary hash type [T], nil
    value, two-hash function and equality test (in particular for the real
    double SHA-256); [C18_binding] is stated in the symbolic hash algebra [h]. *)
From Coq Require Import List ZArith NArith Bool.
From C33 Require Import C18.Model C18.Spec C18.ModelServe C18.ProofsServe3 C18.ProofsServe4 C18.Proofs.
Import ListNotations.

Theorem C18_parallel_eq_sequential :
  forall (T : Type) (nilT : T) (hash2 : T -> T -> T) (ncpu : Z) (ls : list T),
    get_merkle_root_par T nilT hash2 ncpu ls = get_merkle_root T nilT hash2 ls.
Proof. exact parallel_eq_sequential_thm. Qed.
Print Assumptions C18_parallel_eq_sequential.

Theorem C18_root_is_tree_root :
  forall (T : Type) (nilT : T) (hash2 : T -> T -> T) (ls : list T),
    get_merkle_root T nilT hash2 ls = spec_root T nilT hash2 ls.
Proof. exact root_is_tree_root_thm. Qed.
Print Assumptions C18_root_is_tree_root.

Theorem C18_computation_root :
  forall (T : Type) (nilT : T) (hash2 : T -> T -> T) (eqT : T -> T -> bool)
         (ls : list T) (flage : Z) (pos : N),
    ls <> [] -> (1 <= flage <= 3)%Z ->
    fst (fst (computation T nilT hash2 eqT ls flage pos)) = get_merkle_root T nilT hash2 ls.
Proof. exact computation_root_thm. Qed.
Print Assumptions C18_computation_root.

Theorem C18_branch_is_tree_branch :
  forall (T : Type) (nilT : T) (hash2 : T -> T -> T) (eqT : T -> T -> bool)
         (ls : list T) (i : nat),
    (i < length ls)%nat ->
    get_merkle_branch T nilT hash2 eqT ls (N.of_nat i) = spec_branch T nilT hash2 ls i /\
    get_merkle_root_and_branch T nilT hash2 eqT ls (N.of_nat i) =
      (get_merkle_root T nilT hash2 ls, spec_branch T nilT hash2 ls i).
Proof. exact branch_is_tree_branch_thm. Qed.
Print Assumptions C18_branch_is_tree_branch.

Theorem C18_branch_verifies :
  forall (T : Type) (nilT : T) (hash2 : T -> T -> T) (eqT : T -> T -> bool)
         (ls : list T) (i : nat) (x : T),
    nth_error ls i = Some x ->
    root_from_branch T hash2 (get_merkle_branch T nilT hash2 eqT ls (N.of_nat i)) x (N.of_nat i)
      = get_merkle_root T nilT hash2 ls /\
    (let '(r, b) := get_merkle_root_and_branch T nilT hash2 eqT ls (N.of_nat i) in
     root_from_branch T hash2 b x (N.of_nat i) = r /\ r = get_merkle_root_par T nilT hash2 16 ls).
Proof. exact branch_verifies_thm. Qed.
Print Assumptions C18_branch_verifies.

Theorem C18_dup_tail_same_root :
  forall (T : Type) (nilT : T) (hash2 : T -> T -> T) (l1 l2 : list T),
    dup_tail_related T l1 l2 ->
    get_merkle_root T nilT hash2 l1 = get_merkle_root T nilT hash2 l2.
Proof. exact related_same_root_thm. Qed.
Print Assumptions C18_dup_tail_same_root.

Theorem C18_binding :
  forall l1 l2 : list h, all_leaves l1 -> all_leaves l2 -> l1 <> [] -> l2 <> [] ->
    get_merkle_root h HNil sym_hash2 l1 = get_merkle_root h HNil sym_hash2 l2 ->
    l1 = l2 \/
    (l1 <> l2 /\ dup_tail_related h l1 l2 /\
     (* the longer of the two is reported as mutated *)
     (if (length l1 <? length l2)%nat
      then comp_mutated h HNil sym_hash2 h_eqb l2 = true
      else comp_mutated h HNil sym_hash2 h_eqb l1 = true)).
Proof. exact binding_thm. Qed.
Print Assumptions C18_binding.

(** any two equal aligned sibling blocks (in particular an aligned duplicated tail)
    make Computation report mutated = true; needs only that the comparison is reflexive *)
Theorem C18_equal_siblings_flagged :
  forall (T : Type) (nilT : T) (hash2 : T -> T -> T) (eqT : T -> T -> bool),
    (forall x, eqT x x = true) ->
    forall l : list T, haspair T l -> comp_mutated T nilT hash2 eqT l = true.
Proof. exact pair_flagged_thm. Qed.
Print Assumptions C18_equal_siblings_flagged.

Theorem C18_child_roots_verify :
  forall (T : Type) (nilT : T) (hash2 : T -> T -> T) (eqT : T -> T -> bool)
         (ncpu : Z) (txs : list (mtx T)) (root : T) (chains : list (childchain T)),
    multi_layer_info T nilT hash2 ncpu txs = Some (root, chains) ->
    (* the child chains partition the list in order, each child hash is the root of its slice *)
    chains_cover T nilT hash2 txs 0 chains /\
    (* every transaction: its branch inside its chain verifies to the chain's hash, and the
       chain's branch among the chain hashes verifies to the block root (for a single chain
       the chain hash is the block root) *)
    forall (ci : nat) (c : childchain T) (j : nat) (x : T),
      nth_error chains ci = Some c ->
      nth_error (map snd (firstn (cc_count c) (skipn (cc_start c) txs))) j = Some x ->
      root_from_branch T hash2
        (get_merkle_branch T nilT hash2 eqT
           (map snd (firstn (cc_count c) (skipn (cc_start c) txs))) (N.of_nat j)) x (N.of_nat j)
        = cc_hash c /\
      (match chains with
       | [_] => cc_hash c = root
       | _ => root_from_branch T hash2
                (get_merkle_branch T nilT hash2 eqT (map cc_hash chains) (N.of_nat ci))
                (cc_hash c) (N.of_nat ci) = root
       end).
Proof. exact child_roots_verify_thm. Qed.
Print Assumptions C18_child_roots_verify.

(** ** the proof-serving path (ModelServe.v): TransactionSort, the block's TxHash, the
    para-tx table, ProcQueryTxMsg / getMultiLayerProofs and the client's check *)

(** TransactionSort yields a title-sorted list and leaves a title-sorted list unchanged *)
Theorem C18_transaction_sort_sorted :
  forall (T : Type) (l : list (btx T)),
    tsorted (map bt_title (transaction_sort T l)) = true /\
    (tsorted (map bt_title l) = true -> transaction_sort T l = l).
Proof. exact transaction_sort_sorted_thm. Qed.
Print Assumptions C18_transaction_sort_sorted.

(** full claim: every transaction of every stored block gets a reply that checks against the
    block's TxHash.  The code accepts received blocks whose list is not in TransactionSort order
    (util.ExecBlock compares TxHash with the root of the *sorted* list and keeps the list as
    received), so the claim fails after the fork: finding 1. *)
Definition C18_served_proofs_verify_full : Prop := served_verify_full_claim.

Theorem C18_served_proofs_verify_refuted : ~ C18_served_proofs_verify_full.
Proof. exact served_verify_refuted_thm. Qed.
Print Assumptions C18_served_proofs_verify_refuted.

(** guard [served_guard fork txs] = before the fork, or the stored list is title-sorted:
    for every hash function with a correct equality test, every block and every index the
    served reply (single-layer Proofs before the fork; after it the proof inside the child
    chain with its RootHash + the proof of the child-chain root, or the one single-layer
    TxProof of a one-chain block) checks against the block's TxHash *)
Theorem C18_served_proofs_verify_partial :
  forall (T : Type) (nilT : T) (hash2 : T -> T -> T) (eqT : T -> T -> bool),
    (forall x y, eqT x y = true <-> x = y) ->
    forall (fork : bool) (ncpu : Z) (txs : list (btx T)) (i : nat) (x : btx T),
      served_guard fork txs = true -> nth_error txs i = Some x ->
      exists root reply,
        block_txhash T nilT hash2 fork ncpu txs = Some root /\
        proc_query_tx T nilT hash2 eqT fork false ncpu txs i = Some reply /\
        verify_reply T hash2 eqT fork root (bt_hash x) (bt_full x) reply = true.
Proof. exact served_verify_partial_thm. Qed.
Print Assumptions C18_served_proofs_verify_partial.

(** unguarded for the blocks the producers build (util.CreateNewBlock, solo): any mix of
    main-chain and para-chain transactions in any order, put into TransactionSort order after the fork *)
Theorem C18_served_proofs_verify :
  forall (T : Type) (nilT : T) (hash2 : T -> T -> T) (eqT : T -> T -> bool),
    (forall x y, eqT x y = true <-> x = y) ->
    forall (fork : bool) (ncpu : Z) (raw : list (btx T)) (i : nat) (x : btx T),
      let txs := if fork then transaction_sort T raw else raw in
      nth_error txs i = Some x ->
      exists root reply,
        block_txhash T nilT hash2 fork ncpu txs = Some root /\
        proc_query_tx T nilT hash2 eqT fork false ncpu txs i = Some reply /\
        verify_reply T hash2 eqT fork root (bt_hash x) (bt_full x) reply = true.
Proof. exact produced_verify_thm. Qed.
Print Assumptions C18_served_proofs_verify.

(** para-chain node (blockchain.isParaChain): ProcQueryTxMsg always serves the single-layer
    proof over the full hashes.  Full claim: it checks for every title-sorted block.  Refuted:
    a block with main-chain and para-chain transactions has the multi-layer TxHash (finding 2). *)
Definition C18_served_proofs_verify_para_full : Prop := served_verify_para_full_claim.

Theorem C18_served_proofs_verify_para_refuted : ~ C18_served_proofs_verify_para_full.
Proof. exact served_verify_para_refuted_thm. Qed.
Print Assumptions C18_served_proofs_verify_para_refuted.

(** guard [para_guard fork txs] = before the fork, or all transactions of the block carry the same title *)
Theorem C18_served_proofs_verify_para_partial :
  forall (T : Type) (nilT : T) (hash2 : T -> T -> T) (eqT : T -> T -> bool),
    (forall x y, eqT x y = true <-> x = y) ->
    forall (fork : bool) (ncpu : Z) (txs : list (btx T)) (i : nat) (x : btx T),
      para_guard fork txs = true -> nth_error txs i = Some x ->
      exists root reply,
        block_txhash T nilT hash2 fork ncpu txs = Some root /\
        proc_query_tx T nilT hash2 eqT fork true ncpu txs i = Some reply /\
        verify_reply T hash2 eqT fork root (bt_hash x) (bt_full x) reply = true.
Proof. exact served_verify_para_partial_thm. Qed.
Print Assumptions C18_served_proofs_verify_para_partial.

(** binding (symbolic algebra): whatever reply checks for two transactions against the same
    non-nil TxHash is about the same (full) hash; in particular the reply served for
    transaction i of a block checks for no other hash *)
Theorem C18_served_proof_binding :
  forall (fork : bool) (root h1 f1 h2 f2 : h) (r : reply h),
    root <> HNil ->
    verify_reply h sym_hash2 h_eqb fork root h1 f1 r = true ->
    verify_reply h sym_hash2 h_eqb fork root h2 f2 r = true ->
    if fork then f1 = f2 else h1 = h2.
Proof. exact served_binding_thm. Qed.
Print Assumptions C18_served_proof_binding.

Theorem C18_served_block_binding :
  forall (fork : bool) (ncpu : Z) (txs : list (btx h)) (i : nat) (x : btx h) (root : h)
         (r : reply h) (h' f' : h),
    served_guard fork txs = true -> forallb leaf_tx txs = true ->
    nth_error txs i = Some x ->
    block_txhash h HNil sym_hash2 fork ncpu txs = Some root ->
    proc_query_tx h HNil sym_hash2 h_eqb fork false ncpu txs i = Some r ->
    verify_reply h sym_hash2 h_eqb fork root h' f' r = true ->
    if fork then f' = bt_full x else h' = bt_hash x.
Proof. exact served_block_binding_thm. Qed.
Print Assumptions C18_served_block_binding.

(** the equality test of the symbolic algebra is correct (hypothesis of the theorems above) *)
Theorem C18_h_eqb_correct : forall a b : h, h_eqb a b = true <-> a = b.
Proof. exact h_eqb_ok_thm. Qed.
Print Assumptions C18_h_eqb_correct.

(** non-vacuity: concrete instances in the symbolic algebra *)
Example C18_example_duptail :
  let l1 := map Leaf [1; 2; 3; 4; 5; 6]%N in
  let l2 := map Leaf [1; 2; 3; 4; 5; 6; 5; 6]%N in
  all_leaves l1 /\ all_leaves l2 /\ l1 <> l2 /\
  get_merkle_root h HNil sym_hash2 l1 = get_merkle_root h HNil sym_hash2 l2 /\
  dup_step h l1 l2 /\
  comp_mutated h HNil sym_hash2 h_eqb l1 = false /\
  comp_mutated h HNil sym_hash2 h_eqb l2 = true.
Proof. exact example_duptail. Qed.
Print Assumptions C18_example_duptail.

Example C18_example_parallel_and_branch :
  let ls := map Leaf (map N.of_nat (seq 1 300)) in
  get_merkle_root_par h HNil sym_hash2 4 ls = get_merkle_root h HNil sym_hash2 ls /\
  get_merkle_root_par h HNil sym_hash2 4 ls <> HNil /\
  length (get_merkle_branch h HNil sym_hash2 h_eqb ls 298) = 9%nat /\
  root_from_branch h sym_hash2 (get_merkle_branch h HNil sym_hash2 h_eqb ls 298) (Leaf 299) 298
    = get_merkle_root h HNil sym_hash2 ls.
Proof. exact example_parallel_and_branch. Qed.
Print Assumptions C18_example_parallel_and_branch.

(** main + two para chains, grouped: guard holds, the served reply for index 4 is the proof in
    its chain plus the proof of the chain root; the same transactions stored in reverse order
    fail the guard and the served reply does not check *)
Example C18_example_served :
  served_guard true ex_txs = true /\ forallb leaf_tx ex_txs = true /\
  transaction_sort h (rev ex_txs) <> rev ex_txs /\
  block_txhash h HNil sym_hash2 true 4 ex_txs =
    Some (H2 (H2 (H2 (H2 (Leaf 11) (Leaf 12)) (H2 (Leaf 13) (Leaf 13))) (H2 (Leaf 14) (Leaf 15)))
             (H2 (Leaf 16) (Leaf 16))) /\
  proc_query_tx h HNil sym_hash2 h_eqb true false 4 ex_txs 4 =
    Some (mk_reply [] [mk_txproof [Leaf 14] 1%N (Some (H2 (Leaf 14) (Leaf 15)));
                       mk_txproof [H2 (H2 (Leaf 11) (Leaf 12)) (H2 (Leaf 13) (Leaf 13)); H2 (Leaf 16) (Leaf 16)]
                                  1%N None] (Leaf 15) 4%N) /\
  served_guard true (rev ex_txs) = false /\
  proc_query_tx h HNil sym_hash2 h_eqb true false 4 (rev ex_txs) 0 =
    Some (mk_reply [] [mk_txproof [] 0%N (Some (Leaf 16)); mk_txproof [Leaf 16] 0%N None] (Leaf 16) 0%N) /\
  (forall root r, block_txhash h HNil sym_hash2 true 4 (rev ex_txs) = Some root ->
     proc_query_tx h HNil sym_hash2 h_eqb true false 4 (rev ex_txs) 0 = Some r ->
     verify_reply h sym_hash2 h_eqb true root (Leaf 6) (Leaf 16) r = false).
Proof. exact example_served_thm. Qed.
Print Assumptions C18_example_served.

Example C18_example_para :
  let txs := [mk_btx (Some 4%N) (Leaf 1) (Leaf 11); mk_btx (Some 4%N) (Leaf 2) (Leaf 12);
              mk_btx (Some 4%N) (Leaf 3) (Leaf 13)] in
  para_guard true txs = true /\ para_guard true para_witness_txs = false /\
  served_guard true para_witness_txs = true /\
  block_txhash h HNil sym_hash2 true 1 txs = Some (H2 (H2 (Leaf 11) (Leaf 12)) (H2 (Leaf 13) (Leaf 13))) /\
  proc_query_tx h HNil sym_hash2 h_eqb true true 1 txs 2 =
    Some (mk_reply [] [mk_txproof [Leaf 13; H2 (Leaf 11) (Leaf 12)] 2%N None] (Leaf 13) 2%N).
Proof. exact example_para_thm. Qed.
Print Assumptions C18_example_para.
