(** C18 — proofs, part 10: the served proofs verify (title-sorted stored list,
    or any list before the fork), blocks built by the producers are title-sorted,
    binding of a served proof in the symbolic hash algebra, and the refutation
    of the unguarded statement. *)
From Coq Require Import List Arith ZArith NArith Bool Lia Sorted.
From C33 Require Import C18.Model C18.Spec C18.ModelServe C18.ProofsSeq C18.ProofsPar
  C18.ProofsMulti C18.ProofsBind C18.ProofsBind2 C18.ProofsServe1 C18.ProofsServe2.
Import ListNotations.
Open Scope nat_scope.

(** the guard: before the fork nothing is asked; after it the stored list is title-sorted *)
Definition served_guard {T} (fork : bool) (txs : list (btx T)) : bool :=
  negb fork || tsorted (map bt_title txs).

Section Main.
  Variable T : Type.
  Variable nilT : T.
  Variable hash2 : T -> T -> T.
  Variable eqT : T -> T -> bool.
  Hypothesis eqT_ok : forall x y, eqT x y = true <-> x = y.

  Notation gmb := (get_merkle_branch T nilT hash2 eqT).
  Notation rfb := (root_from_branch T hash2).
  Notation gmlp := (get_multi_layer_proofs T nilT hash2 eqT).

  Lemma eqT_refl : forall x, eqT x x = true.
  Proof. intro x. apply eqT_ok. reflexivity. Qed.

  Lemma gmlp_found : forall rows (m : list (mtx T)) i title hh r,
    nth_error m i = Some (title, hh) -> rows <> [] -> find_row T title rows None = Some r ->
    gmlp false rows m i =
      if Nat.eqb (length rows) 1 && Nat.eqb (pr_start r) 0 && Nat.eqb (pr_index r) 0
      then [mk_txproof (gmb (map snd m) (N.of_nat i)) (N.of_nat i) None]
      else if Nat.ltb i (pr_start r) || Nat.ltb (length m) (pr_start r + pr_count r)
              || Nat.leb (length rows) (pr_index r) then []
      else [mk_txproof (gmb (map snd (firstn (pr_count r) (skipn (pr_start r) m))) (N.of_nat (i - pr_start r)))
                       (N.of_nat (i - pr_start r)) (Some (pr_hash r));
            mk_txproof (gmb (map pr_hash rows) (N.of_nat (pr_index r))) (N.of_nat (pr_index r)) None].
  Proof.
    intros rows m i title hh r Hn Hne Hf. unfold get_multi_layer_proofs. rewrite Hn.
    destruct rows as [|r0 rs]; [contradiction|]. rewrite Hf. reflexivity.
  Qed.

  Lemma multi_some : forall ncpu (m : list (mtx T)), m <> [] ->
    exists root chains, multi_layer_info T nilT hash2 ncpu m = Some (root, chains).
  Proof.
    intros ncpu [|x m] H; [contradiction|]. unfold multi_layer_info.
    destruct (Nat.leb _ 1); eexists; eexists; reflexivity.
  Qed.

  Lemma map_fst_to_mtx : forall txs : list (btx T), map fst (map (to_mtx T) txs) = map bt_title txs.
  Proof. intro txs. rewrite map_map. apply map_ext. intro x. reflexivity. Qed.

  (* the post-fork case on a title-sorted list of (title, full hash) *)
  Lemma sorted_served_verifies : forall ncpu (m : list (mtx T)) i t ff root chains,
    tsorted (map fst m) = true ->
    multi_layer_info T nilT hash2 ncpu m = Some (root, chains) ->
    nth_error m i = Some (t, ff) ->
    forall hh' rf,
    verify_reply T hash2 eqT true root hh' ff
      (mk_reply [] (gmlp false (save_para_rows T nilT hash2 ncpu m) m i) rf (N.of_nat i)) = true.
  Proof.
    intros ncpu m i t ff root chains Hs H Hi hh' rf.
    destruct (sorted_rows T nilT hash2 eqT ncpu m root chains Hs H) as [Erows Hss].
    destruct (sorted_covering_chain T nilT hash2 eqT ncpu m root chains i t ff Hs H Hi)
      as (ci & c & Hci & Hin & Ht).
    destruct (child_roots_verify T nilT hash2 eqT ncpu m root chains H) as [Hcov Hver].
    pose proof (rows_of_nth T nilT hash2 eqT chains 0 ci c Hci) as Hrow. cbn [plus] in Hrow.
    set (r := mk_prow (cc_title c) (cc_hash c) (cc_start c) ci (cc_count c)) in *.
    assert (Hfind : find_row T t (rows_of T chains 0) None = Some r).
    { rewrite <- Ht. change (cc_title c) with (pr_title r). eapply find_row_nth; eassumption. }
    assert (Hne : rows_of T chains 0 <> []).
    { intro E. rewrite E in Hrow. destruct ci; discriminate. }
    rewrite Erows, (gmlp_found _ m i t ff r Hi Hne Hfind).
    rewrite rows_of_length, rows_of_hashes. cbn [pr_start pr_index pr_count pr_hash r].
    assert (Hend : cc_start c + cc_count c <= length m) by (eapply cover_end_le; eassumption).
    assert (Hcl : ci < length chains) by (apply nth_error_Some; congruence).
    assert (Hslice : nth_error (map snd (firstn (cc_count c) (skipn (cc_start c) m))) (i - cc_start c)
                     = Some ff).
    { change ff with (snd (t, ff)). apply map_nth_error. apply nth_error_slice; assumption. }
    destruct (Hver ci c (i - cc_start c) ff Hci Hslice) as [V1 V2].
    destruct chains as [|c1 [|c2 rest]].
    - destruct ci; discriminate.
    - (* one chain: the single-layer proof *)
      destruct ci as [|ci]; [|destruct ci; discriminate]. injection Hci as Hc1. subst c1.
      cbn in Hcov. destruct Hcov as (Hst & Hcnt & _ & Hall).
      cbn [length Nat.eqb andb]. rewrite Hst. cbn [Nat.eqb andb].
      unfold verify_reply. cbn [rp_txproofs tp_root tp_index rp_index tp_proofs].
      rewrite N.eqb_refl. cbn [andb]. apply eqT_ok.
      rewrite <- V2, <- V1. rewrite Hst, Nat.sub_0_r. cbn [skipn].
      replace (cc_count c) with (length m) by lia. rewrite firstn_all. reflexivity.
    - (* several chains: proof inside the chain + proof of the chain's root *)
      cbn [length Nat.eqb andb].
      destruct (Nat.ltb_spec i (cc_start c)); [lia|].
      destruct (Nat.ltb_spec (length m) (cc_start c + cc_count c)); [lia|].
      cbn [length] in Hcl. destruct (Nat.leb_spec (S (S (length rest))) ci); [lia|]. cbn [orb].
      unfold verify_reply. cbn [rp_txproofs tp_root tp_index rp_index tp_proofs].
      rewrite V1, V2, !eqT_refl. reflexivity.
  Qed.

  Theorem served_verify_partial : forall (fork : bool) (ncpu : Z) (txs : list (btx T)) (i : nat) (x : btx T),
    served_guard fork txs = true -> nth_error txs i = Some x ->
    exists root reply,
      block_txhash T nilT hash2 fork ncpu txs = Some root /\
      proc_query_tx T nilT hash2 eqT fork false ncpu txs i = Some reply /\
      verify_reply T hash2 eqT fork root (bt_hash x) (bt_full x) reply = true.
  Proof.
    intros fork ncpu txs i x Hg Hi. unfold served_guard in Hg.
    assert (Hne : txs <> []) by (intro E; subst; destruct i; discriminate).
    unfold proc_query_tx, block_txhash. rewrite Hi. destruct fork; cbn [negb orb] in Hg.
    - rewrite (sorted_sort_id T txs Hg).
      assert (Hmne : map (to_mtx T) txs <> []) by (destruct txs; [contradiction|discriminate]).
      destruct (multi_some ncpu _ Hmne) as (root & chains & H). rewrite H.
      eexists; eexists. split; [reflexivity|]. split; [reflexivity|].
      apply (sorted_served_verifies ncpu (map (to_mtx T) txs) i (bt_title x) (bt_full x) root chains).
      + rewrite map_fst_to_mtx. exact Hg.
      + exact H.
      + change (bt_title x, bt_full x) with (to_mtx T x). apply map_nth_error. exact Hi.
    - destruct txs as [|x0 txs']; [contradiction|].
      eexists; eexists. split; [reflexivity|]. split; [reflexivity|].
      unfold verify_reply. cbn [rp_txproofs rp_proofs rp_index]. apply eqT_ok.
      rewrite parallel_eq_sequential.
      apply (branch_verifies T nilT hash2 eqT). apply map_nth_error. exact Hi.
  Qed.

  (** blocks as the producers build them (util.CreateNewBlock, solo): the list is put
      into TransactionSort order after the fork and kept as it is before *)
  Theorem produced_verify : forall (fork : bool) (ncpu : Z) (raw : list (btx T)) (i : nat) (x : btx T),
    let txs := if fork then transaction_sort T raw else raw in
    nth_error txs i = Some x ->
    exists root reply,
      block_txhash T nilT hash2 fork ncpu txs = Some root /\
      proc_query_tx T nilT hash2 eqT fork false ncpu txs i = Some reply /\
      verify_reply T hash2 eqT fork root (bt_hash x) (bt_full x) reply = true.
  Proof.
    intros fork ncpu raw i x txs Hi. apply served_verify_partial; [|exact Hi].
    unfold served_guard, txs. destruct fork; [|reflexivity]. cbn [negb orb]. apply sort_is_sorted.
  Qed.
End Main.

(** ** binding in the symbolic algebra *)
Lemma h_eqb_true : forall a b, h_eqb a b = true -> a = b.
Proof.
  induction a as [|n|l IHl r IHr]; intros [|m|l' r'] H; simpl in H; try discriminate; try reflexivity.
  - apply N.eqb_eq in H. subst. reflexivity.
  - apply andb_true_iff in H. destruct H as [H1 H2]. f_equal; auto.
Qed.

Lemma h_eqb_ok : forall a b, h_eqb a b = true <-> a = b.
Proof. intros a b. split; [apply h_eqb_true|intros ->; apply h_eqb_refl]. Qed.

Notation srfb := (root_from_branch h sym_hash2).

Lemma sym_hash2_nil_r : forall a, sym_hash2 a HNil = HNil.
Proof. destruct a; reflexivity. Qed.

Lemma sym_hash2_parts : forall a b, sym_hash2 a b <> HNil -> a <> HNil /\ b <> HNil.
Proof. intros a b H. destruct a, b; simpl in H; split; congruence. Qed.

Lemma sym_hash2_nonnil : forall a b, a <> HNil -> b <> HNil -> sym_hash2 a b <> HNil.
Proof. intros a b Ha Hb. destruct a, b; simpl; congruence. Qed.

Lemma srfb_nil : forall b i, srfb b HNil i = HNil.
Proof.
  induction b as [|s b IH]; intro i; [reflexivity|]. cbn [root_from_branch].
  destruct (N.odd i); [rewrite sym_hash2_nil_r|cbn [sym_hash2]]; apply IH.
Qed.

Lemma srfb_inj : forall b x y i, srfb b x i = srfb b y i -> srfb b x i <> HNil -> x = y.
Proof.
  induction b as [|s b IH]; intros x y i E Hn; [exact E|]. cbn [root_from_branch] in *.
  assert (Hstep : forall u v, srfb b u (N.div2 i) = srfb b v (N.div2 i) ->
                    srfb b u (N.div2 i) <> HNil -> u = v /\ u <> HNil /\ v <> HNil).
  { intros u v E' Hn'. pose proof (IH _ _ _ E' Hn') as Euv. subst v. split; [reflexivity|].
    assert (u <> HNil) by (intro Z; subst u; rewrite srfb_nil in Hn'; congruence). tauto. }
  destruct (N.odd i).
  - destruct (Hstep _ _ E Hn) as (E1 & N1 & N2).
    destruct (sym_hash2_parts _ _ N1) as [Hs Hx]. destruct (sym_hash2_parts _ _ N2) as [_ Hy].
    apply (sym_hash2_inj s x s y Hs Hx Hs Hy E1).
  - destruct (Hstep _ _ E Hn) as (E1 & N1 & N2).
    destruct (sym_hash2_parts _ _ N1) as [Hx Hs]. destruct (sym_hash2_parts _ _ N2) as [Hy _].
    apply (sym_hash2_inj x s y s Hx Hs Hy Hs E1).
Qed.

(** any reply (honest or not) that checks for two transactions against the same
    non-nil TxHash is about the same hash *)
Theorem served_binding : forall (fork : bool) (root h1 f1 h2 f2 : h) (r : reply h),
  root <> HNil ->
  verify_reply h sym_hash2 h_eqb fork root h1 f1 r = true ->
  verify_reply h sym_hash2 h_eqb fork root h2 f2 r = true ->
  if fork then f1 = f2 else h1 = h2.
Proof.
  intros fork root h1 f1 h2 f2 r Hr V1 V2. unfold verify_reply in *. destruct fork.
  - destruct (rp_txproofs r) as [|p [|q [|z rest]]]; try discriminate.
    + destruct (tp_root p); [discriminate|].
      apply andb_true_iff in V1, V2. destruct V1 as [_ V1], V2 as [_ V2].
      apply h_eqb_true in V1, V2. eapply srfb_inj; [rewrite V1, V2; reflexivity|congruence].
    + destruct (tp_root p) as [c|]; [|discriminate].
      apply andb_true_iff in V1, V2. destruct V1 as [V1 W1], V2 as [V2 _].
      apply h_eqb_true in V1, V2, W1.
      assert (c <> HNil) by (intro Ec; rewrite Ec, srfb_nil in W1; congruence).
      eapply srfb_inj; [rewrite V1, V2; reflexivity|congruence].
  - destruct (rp_txproofs r); [|discriminate].
    apply h_eqb_true in V1, V2. eapply srfb_inj; [rewrite V1, V2; reflexivity|congruence].
Qed.

(** the roots of lists of non-nil values are not nil *)
Definition nonnil (x : h) : Prop := x <> HNil.

Lemma mroot_nonnil : forall k (l : list h), l <> [] -> Forall nonnil l ->
  mroot h HNil sym_hash2 k l <> HNil.
Proof.
  induction k as [|k IH]; intros l Hne Hf; cbn [mroot].
  - destruct l as [|y l]; [contradiction|]. inversion Hf; assumption.
  - destruct (Nat.leb_spec (length l) (2 ^ k)) as [L|L].
    + apply sym_hash2_nonnil; apply IH; assumption.
    + rewrite <- (firstn_skipn (2 ^ k) l) in Hf. apply Forall_app in Hf. destruct Hf as [F1 F2].
      apply sym_hash2_nonnil; apply IH; try assumption.
      * intro E. apply (f_equal (@length h)) in E. rewrite firstn_length in E. cbn in E.
        pose proof (pow2_pos k). lia.
      * intro E. apply (f_equal (@length h)) in E. rewrite skipn_length in E. cbn in E. lia.
Qed.

Lemma root_nonnil : forall l : list h, l <> [] -> Forall nonnil l ->
  get_merkle_root h HNil sym_hash2 l <> HNil.
Proof.
  intros l Hne Hf. rewrite root_is_spec_root. unfold spec_root.
  destruct l as [|y l']; [contradiction|]. apply mroot_nonnil; assumption.
Qed.

Lemma cover_hashes_nonnil : forall (m : list (mtx h)) chains next,
  Forall nonnil (map snd m) -> chains_cover h HNil sym_hash2 m next chains ->
  Forall nonnil (map cc_hash chains).
Proof.
  intros m chains. induction chains as [|c tl IH]; intros next Hf H; [constructor|].
  pose proof (cover_end_le h HNil sym_hash2 h_eqb m (c :: tl) next 0 c H eq_refl) as Hend.
  cbn in H. destruct H as (Hs & Hc & Hh & Hr). cbn [map]. constructor; [|eapply IH; eassumption].
  unfold nonnil. rewrite Hh, <- root_is_spec_root. apply root_nonnil.
  - intro E. apply (f_equal (@length h)) in E. rewrite map_length, firstn_length, skipn_length in E.
    cbn in E. lia.
  - rewrite <- (firstn_skipn (cc_start c) m), map_app in Hf. apply Forall_app in Hf. destruct Hf as [_ Hf].
    rewrite <- (firstn_skipn (cc_count c) (skipn (cc_start c) m)), map_app in Hf.
    apply Forall_app in Hf. tauto.
Qed.

Lemma multi_root_nonnil : forall ncpu (m : list (mtx h)) root chains,
  Forall nonnil (map snd m) ->
  multi_layer_info h HNil sym_hash2 ncpu m = Some (root, chains) -> root <> HNil.
Proof.
  intros ncpu m root chains Hf H.
  destruct (multi_cover h HNil sym_hash2 h_eqb ncpu m root chains H) as [Hc Hr].
  pose proof (cover_hashes_nonnil m chains 0 Hf Hc) as Hn.
  destruct chains as [|c1 [|c2 rest]].
  - destruct m; [cbn in H; discriminate H|cbn in Hc; discriminate Hc].
  - subst root. inversion Hn; assumption.
  - subst root. apply root_nonnil; [discriminate|exact Hn].
Qed.

Definition leaf_tx (x : btx h) : bool := is_leaf (bt_hash x) && is_leaf (bt_full x).

Lemma leaf_nonnil : forall x : h, is_leaf x = true -> nonnil x.
Proof. intros [| |] H; discriminate. Qed.

Lemma block_root_nonnil : forall fork ncpu (txs : list (btx h)) root,
  forallb leaf_tx txs = true ->
  block_txhash h HNil sym_hash2 fork ncpu txs = Some root -> root <> HNil.
Proof.
  intros fork ncpu txs root Hl H. unfold block_txhash in H.
  rewrite forallb_forall in Hl. destruct fork.
  - destruct (multi_layer_info _ _ _ _ _) as [[r chains]|] eqn:E; [|discriminate].
    injection H as <-. eapply multi_root_nonnil; [|exact E].
    apply Forall_forall. intros y Hy. apply in_map_iff in Hy. destruct Hy as ([t f] & <- & Hy).
    apply in_map_iff in Hy. destruct Hy as (x & Ex & Hx). injection Ex as _ <-.
    unfold transaction_sort in Hx. apply in_flat_map in Hx. destruct Hx as (t' & _ & Hx).
    apply filter_In in Hx. destruct Hx as [Hx _]. specialize (Hl x Hx).
    apply andb_true_iff in Hl. apply leaf_nonnil. tauto.
  - destruct txs as [|x0 txs']; [discriminate|]. injection H as <-.
    rewrite parallel_eq_sequential. apply root_nonnil; [discriminate|].
    apply Forall_forall. intros y Hy. apply (in_map_iff bt_hash (x0 :: txs')) in Hy. destruct Hy as (x & <- & Hx).
    specialize (Hl x Hx). apply andb_true_iff in Hl. apply leaf_nonnil. tauto.
Qed.

(** the reply served for transaction i of a block checks for no other hash *)
Theorem served_block_binding : forall (fork : bool) (ncpu : Z) (txs : list (btx h)) (i : nat)
    (x : btx h) (root : h) (r : reply h) (h' f' : h),
  served_guard fork txs = true -> forallb leaf_tx txs = true ->
  nth_error txs i = Some x ->
  block_txhash h HNil sym_hash2 fork ncpu txs = Some root ->
  proc_query_tx h HNil sym_hash2 h_eqb fork false ncpu txs i = Some r ->
  verify_reply h sym_hash2 h_eqb fork root h' f' r = true ->
  if fork then f' = bt_full x else h' = bt_hash x.
Proof.
  intros fork ncpu txs i x root r h' f' Hg Hl Hi Hroot Hr Hv.
  destruct (served_verify_partial h HNil sym_hash2 h_eqb h_eqb_ok fork ncpu txs i x Hg Hi)
    as (root0 & r0 & E1 & E2 & V).
  rewrite Hroot in E1. injection E1 as <-. rewrite Hr in E2. injection E2 as <-.
  apply (served_binding fork root h' f' (bt_hash x) (bt_full x) r); try assumption.
  eapply block_root_nonnil; eassumption.
Qed.

(** ** the unguarded statement and its refutation *)
Definition served_verify_full : Prop :=
  forall (fork : bool) (ncpu : Z) (txs : list (btx h)) (i : nat) (x : btx h),
    nth_error txs i = Some x ->
    exists root reply,
      block_txhash h HNil sym_hash2 fork ncpu txs = Some root /\
      proc_query_tx h HNil sym_hash2 h_eqb fork false ncpu txs i = Some reply /\
      verify_reply h sym_hash2 h_eqb fork root (bt_hash x) (bt_full x) reply = true.

(* a block carrying [para tx; main tx] with TxHash = root of the sorted list *)
Definition witness_txs : list (btx h) :=
  [mk_btx (Some 1%N) (Leaf 1) (Leaf 11); mk_btx None (Leaf 2) (Leaf 12)].

Theorem served_verify_refuted : ~ served_verify_full.
Proof.
  intro H. destruct (H true 1%Z witness_txs 0 _ eq_refl) as (root & reply & Ha & Hb & Hc).
  assert (E1 : block_txhash h HNil sym_hash2 true 1 witness_txs = Some (H2 (Leaf 12) (Leaf 11)))
    by (vm_compute; reflexivity).
  assert (E2 : proc_query_tx h HNil sym_hash2 h_eqb true false 1 witness_txs 0 =
               Some (mk_reply [] [mk_txproof [Leaf 12] 0%N None] (Leaf 11) 0%N))
    by (vm_compute; reflexivity).
  rewrite E1 in Ha. injection Ha as <-. rewrite E2 in Hb. injection Hb as <-.
  vm_compute in Hc. discriminate Hc.
Qed.

(** ** non-vacuity *)
Definition ex_txs : list (btx h) :=
  [mk_btx None (Leaf 1) (Leaf 11); mk_btx None (Leaf 2) (Leaf 12); mk_btx None (Leaf 3) (Leaf 13);
   mk_btx (Some 1%N) (Leaf 4) (Leaf 14); mk_btx (Some 1%N) (Leaf 5) (Leaf 15);
   mk_btx (Some 3%N) (Leaf 6) (Leaf 16)].

Lemma example_served :
  served_guard true ex_txs = true /\ forallb leaf_tx ex_txs = true /\
  transaction_sort h (rev ex_txs) <> rev ex_txs /\
  block_txhash h HNil sym_hash2 true 4 ex_txs =
    Some (H2 (H2 (H2 (H2 (Leaf 11) (Leaf 12)) (H2 (Leaf 13) (Leaf 13))) (H2 (Leaf 14) (Leaf 15)))
             (H2 (Leaf 16) (Leaf 16))) /\
  proc_query_tx h HNil sym_hash2 h_eqb true false 4 ex_txs 4 =
    Some (mk_reply [] [mk_txproof [Leaf 14] 1%N (Some (H2 (Leaf 14) (Leaf 15)));
                       mk_txproof [H2 (H2 (Leaf 11) (Leaf 12)) (H2 (Leaf 13) (Leaf 13)); H2 (Leaf 16) (Leaf 16)]
                                  1%N None] (Leaf 15) 4%N) /\
  served_guard true (rev ex_txs) = false /\
  (* the same transactions stored in reverse order: the table lists the rows by title, the
     served chain proof pairs the chain hash with itself and does not check *)
  proc_query_tx h HNil sym_hash2 h_eqb true false 4 (rev ex_txs) 0 =
    Some (mk_reply [] [mk_txproof [] 0%N (Some (Leaf 16)); mk_txproof [Leaf 16] 0%N None] (Leaf 16) 0%N) /\
  (forall root r, block_txhash h HNil sym_hash2 true 4 (rev ex_txs) = Some root ->
     proc_query_tx h HNil sym_hash2 h_eqb true false 4 (rev ex_txs) 0 = Some r ->
     verify_reply h sym_hash2 h_eqb true root (Leaf 6) (Leaf 16) r = false).
Proof.
  repeat split; try (vm_compute; reflexivity).
  - vm_compute. discriminate.
  - intros root r Ha Hb. vm_compute in Ha, Hb. injection Ha as <-. injection Hb as <-.
    vm_compute. reflexivity.
Qed.
