(** C18 — proofs, part 9: on a title-sorted list the scan of
    calcMultiLayerMerkleInfo finds exactly the title groups, the para-tx table
    holds the child chains in order, and getMultiLayerProofs finds the chain
    that covers the queried index. *)
From Coq Require Import List Arith ZArith NArith Bool Lia Sorted.
From C33 Require Import C18.Model C18.Spec C18.ModelServe C18.ProofsMulti C18.ProofsServe1.
Import ListNotations.
Open Scope nat_scope.

Lemma SS_map : forall (A B : Type) (f : A -> B) (R : B -> B -> Prop) l,
  StronglySorted R (map f l) <-> StronglySorted (fun a b => R (f a) (f b)) l.
Proof.
  intros A B f R l. induction l as [|x l IH]; cbn [map]; split; intro H; try constructor;
    inversion H as [|? ? Hl Hx]; subst.
  - apply IH. exact Hl.
  - rewrite Forall_map in Hx. exact Hx.
  - apply IH. exact Hl.
  - rewrite Forall_map. exact Hx.
Qed.

Lemma SS_app_left : forall (A : Type) (R : A -> A -> Prop) a x b,
  StronglySorted R (a ++ x :: b) -> Forall (fun y => R y x) a.
Proof.
  intros A R a x b. induction a as [|y a IH]; cbn [app]; intro H; [constructor|].
  inversion H as [|? ? Hl Hy]; subst. constructor; [|apply IH; exact Hl].
  rewrite Forall_forall in Hy. apply Hy. apply in_or_app. right. left. reflexivity.
Qed.

Lemma nth_error_skipn_add : forall (A : Type) s (l : list A) j, nth_error (skipn s l) j = nth_error l (s + j).
Proof.
  intros A s. induction s as [|s IH]; intros l j; [reflexivity|].
  destruct l as [|x l]; [destruct j; reflexivity|]. cbn [skipn plus nth_error]. apply IH.
Qed.

Lemma nth_error_firstn_lt : forall (A : Type) n (l : list A) j, j < n -> nth_error (firstn n l) j = nth_error l j.
Proof.
  intros A n. induction n as [|n IH]; intros l j Hj; [lia|].
  destruct l as [|x l]; [destruct j; reflexivity|]. destruct j as [|j]; [reflexivity|].
  cbn [firstn nth_error]. apply IH. lia.
Qed.

Lemma nth_error_slice : forall (A : Type) (l : list A) s n i x,
  s <= i < s + n -> nth_error l i = Some x -> nth_error (firstn n (skipn s l)) (i - s) = Some x.
Proof.
  intros A l s n i x Hi Hx. rewrite nth_error_firstn_lt by lia.
  rewrite nth_error_skipn_add. replace (s + (i - s)) with i by lia. exact Hx.
Qed.

Lemma tsorted_none : forall l, tsorted l = true -> tsorted (None :: l) = true.
Proof.
  intros l H. apply tsorted_cons. split; [|exact H]. destruct l as [|[b|] l]; reflexivity.
Qed.

Section Scan.
  Variable T : Type.
  Variable nilT : T.
  Variable hash2 : T -> T -> T.
  Variable eqT : T -> T -> bool.

  Notation scan := (scan_chains T).
  Notation chains_cover := (chains_cover T nilT hash2).

  (** the title of the last entry that starts at or before [p] *)
  Fixpoint title_at (sc : list (option N * nat)) (p : nat) (dflt : option N) : option N :=
    match sc with
    | [] => dflt
    | (t, s) :: tl => if s <=? p then title_at tl p t else dflt
    end.

  Lemma title_at_above : forall (m : list (mtx T)) i first p d, p <= i ->
    title_at (scan m (S i) first) p d = d.
  Proof.
    intros m i first p d Hp.
    destruct (scan_bounds T hash2 eqT m (S i) first) as [Hb _].
    destruct (scan m (S i) first) as [|[t s] tl]; [reflexivity|].
    inversion Hb as [|? ? Hs _]; subst. cbn [snd] in Hs. cbn [title_at].
    destruct (Nat.leb_spec s p); [lia|reflexivity].
  Qed.

  Lemma scan_title_at : forall (m : list (mtx T)) i first,
    tsorted (first :: map fst m) = true ->
    forall k t hh, nth_error m k = Some (t, hh) ->
      title_at (scan m i first) (i + k) first = t.
  Proof.
    induction m as [|[title h0] m IH]; intros i first Hs k t hh Hk.
    - destruct k; discriminate.
    - cbn [map fst] in Hs. apply tsorted_cons in Hs. destruct Hs as [Hft Hs].
      unfold tle in Hft. rewrite title_leb_tz in Hft.
      assert (Hfresh : forall tt, title = Some tt ->
                title_at ((Some tt, i) :: scan m (S i) (Some tt)) (i + k) first = t).
      { intros tt ->. cbn [title_at]. destruct (Nat.leb_spec i (i + k)); [|lia].
        destruct k as [|k].
        - injection Hk as <- _. apply title_at_above. lia.
        - replace (i + S k) with (S i + k) by lia. eapply IH; [exact Hs|exact Hk]. }
      cbn [scan_chains]. destruct title as [tt|].
      + destruct first as [f|]; [|apply Hfresh; reflexivity].
        destruct (N.eqb tt f) eqn:E; cbn [negb]; [|apply Hfresh; reflexivity].
        apply N.eqb_eq in E. subst f. destruct k as [|k].
        * injection Hk as <- _. apply title_at_above. lia.
        * replace (i + S k) with (S i + k) by lia. eapply IH; [exact Hs|exact Hk].
      + assert (first = None) by (destruct first; simpl in Hft; [lia|reflexivity]). subst first.
        destruct (Nat.eqb_spec i 0) as [Ei|Ei].
        * subst i. cbn [title_at]. cbn [Nat.leb plus]. destruct k as [|k].
          -- injection Hk as <- _. apply title_at_above. lia.
          -- apply (IH 1 None Hs k t hh Hk).
        * destruct k as [|k].
          -- injection Hk as <- _. apply title_at_above. lia.
          -- replace (i + S k) with (S i + k) by lia. eapply IH; [exact Hs|exact Hk].
  Qed.

  Lemma scan_titles_incr : forall (m : list (mtx T)) i first,
    tsorted (first :: map fst m) = true -> i <> 0 ->
    Forall (tlt first) (map fst (scan m i first)) /\ StronglySorted tlt (map fst (scan m i first)).
  Proof.
    induction m as [|[title h0] m IH]; intros i first Hs Hi.
    - split; constructor.
    - cbn [map fst] in Hs. apply tsorted_cons in Hs. destruct Hs as [Hft Hs].
      unfold tle in Hft. rewrite title_leb_tz in Hft.
      assert (Hfresh : forall tt, title = Some tt -> tlt first (Some tt) ->
                Forall (tlt first) (map fst ((Some tt, i) :: scan m (S i) (Some tt))) /\
                StronglySorted tlt (map fst ((Some tt, i) :: scan m (S i) (Some tt)))).
      { intros tt -> Hlt. destruct (IH (S i) (Some tt) Hs ltac:(lia)) as [Hf Hss]. cbn [map fst]. split.
        - constructor; [exact Hlt|]. eapply Forall_impl; [|exact Hf].
          intros y Hy. unfold tlt in *. rewrite title_ltb_tz in *. lia.
        - constructor; assumption. }
      cbn [scan_chains]. destruct title as [tt|].
      + destruct first as [f|].
        * destruct (N.eqb tt f) eqn:E; cbn [negb].
          -- apply N.eqb_eq in E. subst f. apply IH; [exact Hs|lia].
          -- apply Hfresh; [reflexivity|]. unfold tlt. apply title_ltb_tz.
             apply N.eqb_neq in E. simpl in *. lia.
        * apply Hfresh; [reflexivity|]. reflexivity.
      + assert (first = None) by (destruct first; simpl in Hft; [lia|reflexivity]). subst first.
        destruct (Nat.eqb_spec i 0) as [Ei|Ei]; [contradiction|]. apply IH; [exact Hs|lia].
  Qed.

  Lemma scan_top_incr : forall (m : list (mtx T)),
    tsorted (map fst m) = true -> StronglySorted tlt (map fst (scan m 0 None)).
  Proof.
    intros [|[title h0] m] Hs; [constructor|]. cbn [map fst] in Hs.
    cbn [scan_chains]. destruct title as [tt|]; cbn [Nat.eqb map fst].
    - destruct (scan_titles_incr m 1 (Some tt) Hs ltac:(lia)) as [Hf Hss]. constructor; assumption.
    - destruct (scan_titles_incr m 1 None Hs ltac:(lia)) as [Hf Hss]. constructor; assumption.
  Qed.

  (** the child chains carry the scan's titles and starts *)
  Definition entry_of (c : childchain T) : option N * nat := (cc_title c, cc_start c).

  Lemma fill_entries : forall ncpu (m : list (mtx T)) total cs,
    map entry_of (fill_chains T nilT hash2 ncpu m total cs) = cs.
  Proof.
    intros ncpu m total cs. induction cs as [|[t s] rest IH]; [reflexivity|].
    cbn [fill_chains map]. rewrite IH. reflexivity.
  Qed.

  Lemma single_entries : forall (cs : list (option N * nat)) total (r : T),
    map entry_of (map (fun '(t, s) => mk_child t s total r) cs) = cs.
  Proof. induction cs as [|[t s] cs IH]; intros total r; [reflexivity|]. cbn. rewrite IH. reflexivity. Qed.

  Lemma multi_entries : forall ncpu (m : list (mtx T)) root chains,
    multi_layer_info T nilT hash2 ncpu m = Some (root, chains) ->
    map entry_of chains = scan m 0 None.
  Proof.
    intros ncpu m root chains H. unfold multi_layer_info in H. destruct m as [|x m']; [discriminate|].
    destruct (Nat.leb _ 1).
    - injection H as _ <-. apply single_entries.
    - injection H as _ <-. apply fill_entries.
  Qed.

  (** ** facts from the partition *)
  Lemma cover_next_le : forall (m : list (mtx T)) chains next,
    chains_cover m next chains -> next <= length m.
  Proof.
    intros m chains. induction chains as [|c tl IH]; intros next H; cbn in H; [lia|].
    destruct H as (Hs & Hc & _ & Hr). specialize (IH _ Hr). lia.
  Qed.

  Lemma cover_starts_ge : forall (m : list (mtx T)) chains next,
    chains_cover m next chains -> Forall (fun c => next <= cc_start c) chains.
  Proof.
    intros m chains. induction chains as [|c tl IH]; intros next H; [constructor|].
    cbn in H. destruct H as (Hs & Hc & _ & Hr). constructor; [lia|].
    eapply Forall_impl; [|apply (IH _ Hr)]. intros c' Hc'. cbn in Hc'. lia.
  Qed.

  Lemma cover_exists : forall (m : list (mtx T)) chains next p,
    chains_cover m next chains -> next <= p < length m ->
    exists ci c, nth_error chains ci = Some c /\ cc_start c <= p < cc_start c + cc_count c.
  Proof.
    intros m chains. induction chains as [|c tl IH]; intros next p H Hp; cbn in H; [lia|].
    destruct H as (Hs & Hc & _ & Hr).
    destruct (Nat.lt_ge_cases p (next + cc_count c)) as [L|L].
    - exists 0, c. split; [reflexivity|lia].
    - destruct (IH _ p Hr ltac:(lia)) as (ci & c' & Hn & Hin). exists (S ci), c'. split; assumption.
  Qed.

  Lemma cover_end_le : forall (m : list (mtx T)) chains next ci c,
    chains_cover m next chains -> nth_error chains ci = Some c ->
    cc_start c + cc_count c <= length m.
  Proof.
    intros m chains. induction chains as [|c0 tl IH]; intros next ci c H Hn; [destruct ci; discriminate|].
    cbn in H. destruct H as (Hs & Hc & _ & Hr). destruct ci as [|ci].
    - injection Hn as <-. pose proof (cover_next_le _ _ _ Hr). lia.
    - eapply IH; eassumption.
  Qed.

  Lemma cover_title_at : forall (m : list (mtx T)) chains next ci c p dflt,
    chains_cover m next chains -> nth_error chains ci = Some c ->
    cc_start c <= p < cc_start c + cc_count c ->
    title_at (map entry_of chains) p dflt = cc_title c.
  Proof.
    intros m chains. induction chains as [|c0 tl IH]; intros next ci c p dflt H Hn Hp;
      [destruct ci; discriminate|].
    cbn in H. destruct H as (Hs & Hc & _ & Hr). cbn [map entry_of title_at]. destruct ci as [|ci].
    - injection Hn as <-. destruct (Nat.leb_spec (cc_start c0) p); [|lia].
      pose proof (cover_starts_ge _ _ _ Hr) as Hge.
      destruct tl as [|c1 tl']; [reflexivity|]. cbn [map entry_of title_at].
      inversion Hge as [|? ? H1 _]; subst. destruct (Nat.leb_spec (cc_start c1) p); [lia|reflexivity].
    - pose proof (cover_starts_ge _ _ _ Hr) as Hge. rewrite Forall_forall in Hge.
      cbn [nth_error] in Hn. specialize (Hge c (nth_error_In _ _ Hn)).
      destruct (Nat.leb_spec (cc_start c0) p); [|lia].
      eapply IH; eassumption.
  Qed.

  (** ** the table *)
  Notation prow := (prow T).
  Definition ltrow (a b : prow) : Prop := tlt (pr_title a) (pr_title b).

  Lemma table_append : forall (r : prow) tb, Forall (fun x => ltrow x r) tb ->
    table_replace T r tb = tb ++ [r].
  Proof.
    intros r tb H. induction H as [|x tb Hx Htb IH]; [reflexivity|]. cbn [table_replace app].
    unfold ltrow, tlt in Hx. rewrite title_ltb_tz in Hx.
    assert (E : title_eqb (pr_title r) (pr_title x) = false) by (apply title_eqb_false; lia).
    assert (L : title_ltb (pr_title r) (pr_title x) = false) by (apply title_ltb_false; lia).
    rewrite E, L, IH. reflexivity.
  Qed.

  Lemma table_fold_sorted : forall rows tb, StronglySorted ltrow (tb ++ rows) ->
    fold_left (fun t r => table_replace T r t) rows tb = tb ++ rows.
  Proof.
    induction rows as [|r rows IH]; intros tb H; cbn [fold_left]; [rewrite app_nil_r; reflexivity|].
    rewrite table_append by (eapply SS_app_left; exact H).
    rewrite IH; rewrite <- app_assoc; [reflexivity|exact H].
  Qed.

  Lemma rows_of_titles : forall chains i, map pr_title (rows_of T chains i) = map fst (map entry_of chains).
  Proof. induction chains as [|c tl IH]; intro i; [reflexivity|]. cbn. rewrite IH. reflexivity. Qed.

  Lemma rows_of_hashes : forall chains i, map pr_hash (rows_of T chains i) = map cc_hash chains.
  Proof. induction chains as [|c tl IH]; intro i; [reflexivity|]. cbn. rewrite IH. reflexivity. Qed.

  Lemma rows_of_length : forall chains i, length (rows_of T chains i) = length chains.
  Proof. induction chains as [|c tl IH]; intro i; [reflexivity|]. cbn. rewrite IH. reflexivity. Qed.

  Lemma rows_of_nth : forall chains i ci c, nth_error chains ci = Some c ->
    nth_error (rows_of T chains i) ci =
      Some (mk_prow (cc_title c) (cc_hash c) (cc_start c) (i + ci) (cc_count c)).
  Proof.
    induction chains as [|c0 tl IH]; intros i ci c H; [destruct ci; discriminate|].
    destruct ci as [|ci]; cbn [rows_of nth_error].
    - injection H as <-. rewrite Nat.add_0_r. reflexivity.
    - rewrite (IH (S i) ci c H). replace (S i + ci) with (i + S ci) by lia. reflexivity.
  Qed.

  Lemma find_row_nomatch : forall t (rows : list prow) acc,
    Forall (fun y => title_eqb t (pr_title y) = false) rows -> find_row T t rows acc = acc.
  Proof.
    intros t rows. induction rows as [|x tl IH]; intros acc H; [reflexivity|].
    inversion H as [|? ? Hx Htl]; subst. cbn [find_row]. rewrite Hx. apply IH. exact Htl.
  Qed.

  Lemma find_row_nth : forall (rows : list prow) ci r acc,
    StronglySorted ltrow rows -> nth_error rows ci = Some r ->
    find_row T (pr_title r) rows acc = Some r.
  Proof.
    induction rows as [|x tl IH]; intros ci r acc Hs Hn; [destruct ci; discriminate|].
    inversion Hs as [|? ? Htl Hx]; subst. cbn [find_row]. destruct ci as [|ci].
    - injection Hn as ->. rewrite title_eqb_refl. apply find_row_nomatch.
      eapply Forall_impl; [|exact Hx]. intros y Hy. unfold ltrow, tlt in Hy.
      rewrite title_ltb_tz in Hy. apply title_eqb_false. lia.
    - cbn [nth_error] in Hn. rewrite Forall_forall in Hx. specialize (Hx r (nth_error_In _ _ Hn)).
      unfold ltrow, tlt in Hx. rewrite title_ltb_tz in Hx.
      assert (E : title_eqb (pr_title r) (pr_title x) = false) by (apply title_eqb_false; lia).
      rewrite E. eapply IH; eassumption.
  Qed.

  (** ** everything together for a title-sorted stored list *)
  Lemma sorted_rows : forall ncpu (m : list (mtx T)) root chains,
    tsorted (map fst m) = true ->
    multi_layer_info T nilT hash2 ncpu m = Some (root, chains) ->
    save_para_rows T nilT hash2 ncpu m = rows_of T chains 0 /\
    StronglySorted ltrow (rows_of T chains 0).
  Proof.
    intros ncpu m root chains Hs H.
    assert (Hss : StronglySorted ltrow (rows_of T chains 0)).
    { unfold ltrow. apply (SS_map _ _ pr_title tlt). rewrite rows_of_titles.
      rewrite (multi_entries _ _ _ _ H). apply scan_top_incr. exact Hs. }
    split; [|exact Hss]. unfold save_para_rows. rewrite H.
    apply (table_fold_sorted (rows_of T chains 0) []). exact Hss.
  Qed.

  Lemma sorted_covering_chain : forall ncpu (m : list (mtx T)) root chains i t hh,
    tsorted (map fst m) = true ->
    multi_layer_info T nilT hash2 ncpu m = Some (root, chains) ->
    nth_error m i = Some (t, hh) ->
    exists ci c, nth_error chains ci = Some c /\
      cc_start c <= i < cc_start c + cc_count c /\ cc_title c = t.
  Proof.
    intros ncpu m root chains i t hh Hs H Hi.
    destruct (multi_cover T nilT hash2 eqT ncpu m root chains H) as [Hc _].
    assert (Hlt : i < length m) by (apply nth_error_Some; congruence).
    destruct (cover_exists m chains 0 i Hc ltac:(lia)) as (ci & c & Hn & Hin).
    exists ci, c. split; [exact Hn|]. split; [exact Hin|].
    rewrite <- (cover_title_at m chains 0 ci c i None Hc Hn Hin).
    rewrite (multi_entries _ _ _ _ H).
    apply (scan_title_at m 0 None (tsorted_none _ Hs) i t hh Hi).
  Qed.
End Scan.
