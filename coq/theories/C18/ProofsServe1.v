(** C18 — proofs, part 8: the title order and types.TransactionSort.
    (A) the result of TransactionSort is title-sorted; (B) a title-sorted list is
    left unchanged. *)
From Coq Require Import List Arith ZArith NArith Bool Lia Sorted.
From C33 Require Import C18.Model C18.ModelServe.
Import ListNotations.
Open Scope nat_scope.

(** titles as integers: "main" below every para title *)
Definition tz (t : option N) : Z := match t with None => (-1)%Z | Some x => Z.of_N x end.

Lemma tz_inj : forall a b, tz a = tz b -> a = b.
Proof. intros [a|] [b|]; simpl; intros; try lia; try reflexivity. f_equal. lia. Qed.

Lemma title_eqb_tz : forall a b, title_eqb a b = true <-> tz a = tz b.
Proof.
  intros [a|] [b|]; simpl; split; intro H; try discriminate; try lia; try reflexivity.
  - apply N.eqb_eq in H. subst. reflexivity.
  - apply N.eqb_eq. lia.
Qed.

Lemma title_eqb_eq : forall a b, title_eqb a b = true <-> a = b.
Proof.
  intros a b. rewrite title_eqb_tz. split; [apply tz_inj|intros; subst; reflexivity].
Qed.

Lemma title_eqb_refl : forall a, title_eqb a a = true.
Proof. intro a. apply title_eqb_eq. reflexivity. Qed.

Lemma title_eqb_false : forall a b, title_eqb a b = false <-> tz a <> tz b.
Proof.
  intros a b. split.
  - intros H E. apply title_eqb_tz in E. congruence.
  - intro H. destruct (title_eqb a b) eqn:E; [|reflexivity]. apply title_eqb_tz in E. contradiction.
Qed.

Lemma title_ltb_tz : forall a b, title_ltb a b = true <-> (tz a < tz b)%Z.
Proof.
  intros [a|] [b|]; simpl; split; intro H; try discriminate; try lia; try reflexivity.
  - apply N.ltb_lt in H. lia.
  - apply N.ltb_lt. lia.
Qed.

Lemma title_ltb_false : forall a b, title_ltb a b = false <-> (tz b <= tz a)%Z.
Proof.
  intros a b. split.
  - intro H. destruct (Z.lt_ge_cases (tz a) (tz b)) as [L|L]; [|exact L].
    apply title_ltb_tz in L. congruence.
  - intro H. destruct (title_ltb a b) eqn:E; [|reflexivity]. apply title_ltb_tz in E. lia.
Qed.

Lemma title_leb_tz : forall a b, title_leb a b = true <-> (tz a <= tz b)%Z.
Proof.
  intros a b. unfold title_leb. rewrite negb_true_iff. apply title_ltb_false.
Qed.

Lemma title_eq_dec : forall a b : option N, {a = b} + {a <> b}.
Proof. decide equality. apply N.eq_dec. Qed.

Definition tlt (a b : option N) : Prop := title_ltb a b = true.
Definition tle (a b : option N) : Prop := title_leb a b = true.

(** [tsorted] as a pair of facts *)
Lemma tsorted_cons : forall a l, tsorted (a :: l) = true <->
  (match l with [] => True | b :: _ => tle a b end) /\ tsorted l = true.
Proof.
  intros a [|b l]; cbn [tsorted].
  - tauto.
  - rewrite andb_true_iff. unfold tle. tauto.
Qed.

Lemma tsorted_all_ge : forall l a, tsorted (a :: l) = true -> Forall (tle a) l.
Proof.
  induction l as [|b l IH]; intros a H; [constructor|].
  apply tsorted_cons in H. destruct H as [Hab Hl]. constructor; [exact Hab|].
  specialize (IH b Hl). eapply Forall_impl; [|exact IH].
  intros c Hc. unfold tle in *. rewrite title_leb_tz in *. lia.
Qed.

Lemma tsorted_cons_ge : forall l a, Forall (tle a) l -> tsorted l = true -> tsorted (a :: l) = true.
Proof.
  intros [|b l] a Hf Hs; [reflexivity|]. apply tsorted_cons. split; [|exact Hs].
  inversion Hf; assumption.
Qed.

(** ** the sorted title set *)
Lemma tinsert_in : forall t l y, In y (tinsert t l) <-> y = t \/ In y l.
Proof.
  intros t l. induction l as [|x l IH]; intro y; cbn [tinsert].
  - simpl. intuition.
  - destruct (title_eqb t x) eqn:E.
    + apply title_eqb_eq in E. subst x. simpl. intuition.
    + destruct (title_ltb t x); simpl; [intuition|]. rewrite IH. intuition.
Qed.

Lemma tinsert_sorted : forall t l, StronglySorted tlt l -> StronglySorted tlt (tinsert t l).
Proof.
  intros t l. induction l as [|x l IH]; intro H; cbn [tinsert].
  - repeat constructor.
  - inversion H as [|? ? Hl Hx]; subst.
    destruct (title_eqb t x) eqn:E; [exact H|].
    destruct (title_ltb t x) eqn:L.
    + constructor; [exact H|]. constructor; [exact L|].
      eapply Forall_impl; [|exact Hx]. intros c Hc. unfold tlt in *. rewrite title_ltb_tz in *. lia.
    + constructor; [apply IH; exact Hl|].
      apply Forall_forall. intros y Hy. apply tinsert_in in Hy. destruct Hy as [->|Hy].
      * unfold tlt. apply title_ltb_tz. apply title_eqb_false in E. apply title_ltb_false in L. lia.
      * rewrite Forall_forall in Hx. apply Hx. exact Hy.
Qed.

Section Sort.
  Variable T : Type.
  Notation btx := (btx T).
  Notation title_set := (title_set T).
  Notation transaction_sort := (transaction_sort T).

  Definition has (t : option N) (x : btx) : bool := title_eqb t (bt_title x).

  Lemma title_set_sorted : forall l : list btx, StronglySorted tlt (title_set l).
  Proof.
    induction l as [|x l IH]; cbn; [constructor|]. apply tinsert_sorted. exact IH.
  Qed.

  Lemma title_set_in : forall (l : list btx) y, In y (title_set l) <-> In y (map bt_title l).
  Proof.
    induction l as [|x l IH]; intro y; cbn; [tauto|].
    change (fold_right tinsert [] (map bt_title l)) with (title_set l).
    rewrite tinsert_in, IH. intuition.
  Qed.

  Lemma filter_none : forall t (l : list btx),
    Forall (fun x => bt_title x <> t) l -> filter (has t) l = [].
  Proof.
    intros t l H. induction H as [|x l Hx Hl IH]; [reflexivity|]. cbn [filter]. unfold has at 1.
    destruct (title_eqb t (bt_title x)) eqn:E; [|exact IH].
    apply title_eqb_eq in E. congruence.
  Qed.

  Lemma filter_titles : forall t (l : list btx), Forall (fun y => y = t) (map bt_title (filter (has t) l)).
  Proof.
    intros t l. induction l as [|x l IH]; cbn [filter map]; [constructor|].
    unfold has at 1. destruct (title_eqb t (bt_title x)) eqn:E; [|exact IH].
    cbn [map]. constructor; [|exact IH]. apply title_eqb_eq in E. congruence.
  Qed.

  (** (A) *)
  Lemma const_block_sorted : forall t a b, Forall (fun y => y = t) a -> Forall (tle t) b ->
    tsorted b = true -> tsorted (a ++ b) = true.
  Proof.
    intros t a b Ha Hb Hs. induction Ha as [|y a Hy Ha IH]; [exact Hs|].
    subst y. cbn [app]. apply tsorted_cons_ge; [|exact IH].
    apply Forall_app. split; [|exact Hb].
    eapply Forall_impl; [|exact Ha]. intros c ->. unfold tle. apply title_leb_tz. lia.
  Qed.

  Lemma blocks_sorted : forall (l : list btx) ts, StronglySorted tlt ts ->
    tsorted (map bt_title (flat_map (fun t => filter (has t) l) ts)) = true /\
    Forall (fun y => In y ts) (map bt_title (flat_map (fun t => filter (has t) l) ts)).
  Proof.
    intros l ts H. induction H as [|t ts Hts IH Ht]; cbn [flat_map]; [split; [reflexivity|constructor]|].
    destruct IH as [IH1 IH2]. rewrite map_app. split.
    - apply (const_block_sorted t); [apply filter_titles| |exact IH1].
      eapply Forall_impl; [|exact IH2]. intros y Hy. rewrite Forall_forall in Ht.
      specialize (Ht y Hy). unfold tle, tlt in *. rewrite title_leb_tz. rewrite title_ltb_tz in Ht. lia.
    - apply Forall_app. split.
      + eapply Forall_impl; [|apply filter_titles]. intros y ->. left. reflexivity.
      + eapply Forall_impl; [|exact IH2]. intros y Hy. right. exact Hy.
  Qed.

  Theorem sort_is_sorted : forall l : list btx, tsorted (map bt_title (transaction_sort l)) = true.
  Proof. intro l. apply (blocks_sorted l (title_set l)). apply title_set_sorted. Qed.

  (** (B) *)
  Lemma flat_map_skip : forall (x : btx) l ts, ~ In (bt_title x) ts ->
    flat_map (fun t => filter (has t) (x :: l)) ts = flat_map (fun t => filter (has t) l) ts.
  Proof.
    intros x l ts. induction ts as [|t ts IH]; intro H; [reflexivity|]. cbn [flat_map].
    rewrite IH; [|intro K; apply H; right; exact K]. f_equal.
    cbn [filter]. unfold has at 1. destruct (title_eqb t (bt_title x)) eqn:E; [|reflexivity].
    apply title_eqb_eq in E. exfalso. apply H. left. exact E.
  Qed.

  Lemma sorted_head_min : forall t ts, StronglySorted tlt ts -> In t ts -> Forall (tle t) ts ->
    exists ts', ts = t :: ts'.
  Proof.
    intros t ts Hs Hin Hge. destruct ts as [|u ts]; [contradiction|].
    destruct Hin as [->|Hin]; [eexists; reflexivity|]. exfalso.
    inversion Hs as [|? ? _ Hu]; subst. rewrite Forall_forall in Hu. specialize (Hu t Hin).
    inversion Hge as [|? ? Htu _]; subst. unfold tle, tlt in *.
    rewrite title_leb_tz in Htu. rewrite title_ltb_tz in Hu. lia.
  Qed.

  Lemma head_not_in_tail : forall t ts, StronglySorted tlt (t :: ts) -> ~ In t ts.
  Proof.
    intros t ts H Hin. inversion H as [|? ? _ Ht]; subst. rewrite Forall_forall in Ht.
    specialize (Ht t Hin). unfold tlt in Ht. rewrite title_ltb_tz in Ht. lia.
  Qed.

  Lemma filter_cons_has : forall t (x : btx) l,
    filter (has t) (x :: l) = if title_eqb t (bt_title x) then x :: filter (has t) l else filter (has t) l.
  Proof. reflexivity. Qed.

  Lemma sort_unfold : forall l : list btx,
    transaction_sort l = flat_map (fun t => filter (has t) l) (title_set l).
  Proof. reflexivity. Qed.

  Theorem sorted_sort_id : forall l : list btx,
    tsorted (map bt_title l) = true -> transaction_sort l = l.
  Proof.
    induction l as [|x l IH]; intro Hs; [reflexivity|].
    cbn [map] in Hs. pose proof (tsorted_all_ge _ _ Hs) as Hge.
    apply tsorted_cons in Hs. destruct Hs as [_ Hs]. specialize (IH Hs).
    rewrite sort_unfold in *. cbn [ModelServe.title_set map fold_right].
    change (fold_right tinsert [] (map bt_title l)) with (title_set l).
    assert (Hge' : Forall (tle (bt_title x)) (title_set l)).
    { apply Forall_forall. intros y Hy. apply title_set_in in Hy.
      rewrite Forall_forall in Hge. apply Hge. exact Hy. }
    pose proof (title_set_sorted l) as Hss.
    destruct (in_dec title_eq_dec (bt_title x) (title_set l)) as [Hin|Hnin].
    - (* the title is already among the titles of l: it is the first of them *)
      destruct (sorted_head_min _ (title_set l) Hss Hin Hge') as [ts' Ets].
      rewrite Ets in *. cbn [tinsert]. rewrite title_eqb_refl.
      cbn [flat_map] in *. rewrite filter_cons_has, title_eqb_refl.
      cbn [app]. f_equal.
      rewrite flat_map_skip; [exact IH|]. apply head_not_in_tail. exact Hss.
    - (* the title is new and below all titles of l *)
      assert (Hins : tinsert (bt_title x) (title_set l) = bt_title x :: title_set l).
      { destruct (title_set l) as [|u ts] eqn:Ets; [reflexivity|]. cbn [tinsert].
        destruct (title_eqb (bt_title x) u) eqn:E.
        - apply title_eqb_eq in E. subst u. exfalso. apply Hnin. left. reflexivity.
        - inversion Hge' as [|? ? Htu _]; subst. unfold tle in Htu. rewrite title_leb_tz in Htu.
          apply title_eqb_false in E.
          assert (L : title_ltb (bt_title x) u = true) by (apply title_ltb_tz; lia). rewrite L. reflexivity. }
      rewrite Hins. cbn [flat_map]. rewrite filter_cons_has, title_eqb_refl.
      rewrite filter_none.
      + cbn [app]. f_equal. rewrite flat_map_skip; [exact IH|exact Hnin].
      + apply Forall_forall. intros y Hy E. apply Hnin. apply title_set_in. rewrite <- E.
        apply in_map. exact Hy.
  Qed.
End Sort.
