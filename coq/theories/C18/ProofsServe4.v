(** C18 — proofs, part 11: the para-chain node (blockchain.isParaChain): ProcQueryTxMsg
    always serves the single-layer proof over the full hashes.  It checks against the
    block's TxHash when all transactions of the block carry the same title; the
    unguarded statement is refuted by a title-sorted block with main-chain and
    para-chain transactions. *)
From Coq Require Import List Arith ZArith NArith Bool Lia Sorted.
From C33 Require Import C18.Model C18.Spec C18.ModelServe C18.ProofsSeq C18.ProofsPar
  C18.ProofsMulti C18.ProofsBind C18.ProofsBind2 C18.ProofsServe1 C18.ProofsServe2 C18.ProofsServe3.
Import ListNotations.
Open Scope nat_scope.

(** all transactions of the block have the title of the first one *)
Definition same_title {T} (txs : list (btx T)) : bool :=
  match txs with
  | [] => true
  | x :: tl => forallb (fun y => title_eqb (bt_title x) (bt_title y)) tl
  end.

Definition para_guard {T} (fork : bool) (txs : list (btx T)) : bool := negb fork || same_title txs.

Section ParaNode.
  Variable T : Type.
  Variable nilT : T.
  Variable hash2 : T -> T -> T.
  Variable eqT : T -> T -> bool.
  Hypothesis eqT_ok : forall x y, eqT x y = true <-> x = y.

  Lemma scan_same_rest : forall (m : list (mtx T)) i t, i <> 0 ->
    Forall (fun e => fst e = t) m -> scan_chains T m i t = [].
  Proof.
    induction m as [|[title hh] m IH]; intros i t Hi Hf; [reflexivity|].
    inversion Hf as [|? ? Ht Hm]; subst. cbn [fst] in *. cbn [scan_chains].
    destruct title as [x|].
    - rewrite N.eqb_refl. cbn [negb]. apply IH; [lia|exact Hm].
    - destruct (Nat.eqb_spec i 0); [contradiction|]. apply IH; [lia|exact Hm].
  Qed.

  Lemma scan_same_top : forall t hh (m : list (mtx T)),
    Forall (fun e => fst e = t) m -> scan_chains T ((t, hh) :: m) 0 None = [(t, 0)].
  Proof.
    intros t hh m Hf. cbn [scan_chains]. destruct t as [x|].
    - rewrite (scan_same_rest m 1 (Some x)); [reflexivity|lia|exact Hf].
    - cbn [Nat.eqb]. rewrite (scan_same_rest m 1 None); [reflexivity|lia|exact Hf].
  Qed.

  Lemma same_title_forall : forall (x : btx T) tl,
    forallb (fun y => title_eqb (bt_title x) (bt_title y)) tl = true ->
    Forall (fun e : mtx T => fst e = bt_title x) (map (to_mtx T) tl).
  Proof.
    intros x tl H. rewrite forallb_forall in H. apply Forall_forall. intros e He.
    apply in_map_iff in He. destruct He as (y & <- & Hy). specialize (H y Hy).
    apply title_eqb_eq in H. symmetry. exact H.
  Qed.

  Lemma same_title_sorted : forall txs : list (btx T), same_title txs = true ->
    tsorted (map bt_title txs) = true.
  Proof.
    intros [|x tl] H; [reflexivity|]. cbn [same_title] in H. rewrite forallb_forall in H.
    cbn [map]. apply tsorted_cons_ge.
    - apply Forall_forall. intros t Ht. apply in_map_iff in Ht. destruct Ht as (y & <- & Hy).
      specialize (H y Hy). apply title_eqb_eq in H. rewrite <- H. unfold tle. apply title_leb_tz. lia.
    - induction tl as [|y tl IH]; [reflexivity|]. cbn [map]. apply tsorted_cons_ge.
      + apply Forall_forall. intros t Ht. apply in_map_iff in Ht. destruct Ht as (z & <- & Hz).
        pose proof (H y (or_introl eq_refl)) as Hy. pose proof (H z (or_intror Hz)) as Hz'.
        apply title_eqb_eq in Hy, Hz'. rewrite <- Hy, <- Hz'. unfold tle. apply title_leb_tz. lia.
      + apply IH. intros z Hz. apply H. right. exact Hz.
  Qed.

  Theorem served_verify_para_partial : forall (fork : bool) (ncpu : Z) (txs : list (btx T)) (i : nat) (x : btx T),
    para_guard fork txs = true -> nth_error txs i = Some x ->
    exists root reply,
      block_txhash T nilT hash2 fork ncpu txs = Some root /\
      proc_query_tx T nilT hash2 eqT fork true ncpu txs i = Some reply /\
      verify_reply T hash2 eqT fork root (bt_hash x) (bt_full x) reply = true.
  Proof.
    intros fork ncpu txs i x Hg Hi. unfold para_guard in Hg.
    unfold proc_query_tx, block_txhash. rewrite Hi. destruct fork; cbn [negb orb] in Hg.
    - rewrite (sorted_sort_id T txs (same_title_sorted txs Hg)).
      destruct txs as [|x0 tl]; [destruct i; discriminate|]. cbn [same_title] in Hg.
      assert (Esc : scan_chains T (to_mtx T x0 :: map (to_mtx T) tl) 0 None = [(bt_title x0, 0)])
        by exact (scan_same_top (bt_title x0) (bt_full x0) _ (same_title_forall x0 tl Hg)).
      unfold multi_layer_info. cbn [map]. rewrite Esc. cbn [length Nat.leb].
      eexists; eexists. split; [reflexivity|]. split; [reflexivity|].
      unfold verify_reply, get_multi_layer_proofs.
      cbn [rp_txproofs tp_root tp_index rp_index tp_proofs]. rewrite N.eqb_refl. cbn [andb].
      apply eqT_ok. unfold single_layer_root. rewrite parallel_eq_sequential.
      apply (branch_verifies T nilT hash2 eqT).
      change (nth_error (map snd (map (to_mtx T) (x0 :: tl))) i = Some (bt_full x)).
      rewrite map_map. exact (map_nth_error (fun y => snd (to_mtx T y)) i (x0 :: tl) Hi).
    - destruct txs as [|x0 txs']; [destruct i; discriminate|].
      eexists; eexists. split; [reflexivity|]. split; [reflexivity|].
      unfold verify_reply. cbn [rp_txproofs rp_proofs rp_index]. apply eqT_ok.
      rewrite parallel_eq_sequential.
      apply (branch_verifies T nilT hash2 eqT). apply map_nth_error. exact Hi.
  Qed.
End ParaNode.

(** the claim for every title-sorted block on a para-chain node, and its refutation *)
Definition served_verify_para_full : Prop :=
  forall (fork : bool) (ncpu : Z) (txs : list (btx h)) (i : nat) (x : btx h),
    tsorted (map bt_title txs) = true -> nth_error txs i = Some x ->
    exists root reply,
      block_txhash h HNil sym_hash2 fork ncpu txs = Some root /\
      proc_query_tx h HNil sym_hash2 h_eqb fork true ncpu txs i = Some reply /\
      verify_reply h sym_hash2 h_eqb fork root (bt_hash x) (bt_full x) reply = true.

(* main, main, para: TxHash = H(H(f1,f2), f3); the served single-layer proof gives H(H(f1,f2), H(f3,f3)) *)
Definition para_witness_txs : list (btx h) :=
  [mk_btx None (Leaf 1) (Leaf 11); mk_btx None (Leaf 2) (Leaf 12); mk_btx (Some 4%N) (Leaf 3) (Leaf 13)].

Theorem served_verify_para_refuted : ~ served_verify_para_full.
Proof.
  intro H. destruct (H true 1%Z para_witness_txs 2 _ eq_refl eq_refl) as (root & reply & Ha & Hb & Hc).
  assert (E1 : block_txhash h HNil sym_hash2 true 1 para_witness_txs =
               Some (H2 (H2 (Leaf 11) (Leaf 12)) (Leaf 13))) by (vm_compute; reflexivity).
  assert (E2 : proc_query_tx h HNil sym_hash2 h_eqb true true 1 para_witness_txs 2 =
               Some (mk_reply [] [mk_txproof [Leaf 13; H2 (Leaf 11) (Leaf 12)] 2%N None] (Leaf 13) 2%N))
    by (vm_compute; reflexivity).
  rewrite E1 in Ha. injection Ha as <-. rewrite E2 in Hb. injection Hb as <-.
  vm_compute in Hc. discriminate Hc.
Qed.

Lemma example_para :
  let txs := [mk_btx (Some 4%N) (Leaf 1) (Leaf 11); mk_btx (Some 4%N) (Leaf 2) (Leaf 12);
              mk_btx (Some 4%N) (Leaf 3) (Leaf 13)] in
  para_guard true txs = true /\ para_guard true para_witness_txs = false /\
  served_guard true para_witness_txs = true /\
  block_txhash h HNil sym_hash2 true 1 txs = Some (H2 (H2 (Leaf 11) (Leaf 12)) (H2 (Leaf 13) (Leaf 13))) /\
  proc_query_tx h HNil sym_hash2 h_eqb true true 1 txs 2 =
    Some (mk_reply [] [mk_txproof [Leaf 13; H2 (Leaf 11) (Leaf 12)] 2%N None] (Leaf 13) 2%N).
Proof. repeat split; vm_compute; reflexivity. Qed.
