(** C18 — proofs, part 7: corollaries for the API functions and the
    multi-layer (child chain) root. *)
From Coq Require Import List Arith ZArith NArith Bool Lia Sorted.
From C33 Require Import C18.Model C18.Spec C18.ProofsSeq C18.ProofsPar C18.ProofsBranch
  C18.ProofsComp1 C18.ProofsComp2.
Import ListNotations.
Open Scope nat_scope.

Section Api.
  Variable T : Type.
  Variable nilT : T.
  Variable hash2 : T -> T -> T.
  Variable eqT : T -> T -> bool.

  Notation get_merkle_root := (get_merkle_root T nilT hash2).
  Notation computation := (computation T nilT hash2 eqT).
  Notation get_merkle_branch := (get_merkle_branch T nilT hash2 eqT).
  Notation get_merkle_root_and_branch := (get_merkle_root_and_branch T nilT hash2 eqT).
  Notation spec_root := (spec_root T nilT hash2).
  Notation spec_branch := (spec_branch T nilT hash2).
  Notation rfb := (root_from_branch T hash2).

  Theorem computation_root : forall (ls : list T) (flage : Z) (pos : N),
    ls <> [] -> (1 <= flage <= 3)%Z ->
    fst (fst (computation ls flage pos)) = get_merkle_root ls.
  Proof.
    intros ls flage pos Hne Hfl.
    destruct (computation_spec T nilT hash2 eqT ls flage pos Hne Hfl) as [mut E].
    rewrite E. cbn [fst]. symmetry. apply root_is_spec_root.
  Qed.

  Theorem branch_is_tree_branch : forall (ls : list T) (i : nat),
    i < length ls ->
    get_merkle_branch ls (N.of_nat i) = spec_branch ls i /\
    get_merkle_root_and_branch ls (N.of_nat i) = (get_merkle_root ls, spec_branch ls i).
  Proof.
    intros ls i Hi.
    assert (Hne : ls <> []) by (intro E; subst; simpl in Hi; lia).
    assert (Hlt : (N.of_nat i <? N.of_nat (length ls))%N = true) by (apply N.ltb_lt; lia).
    split.
    - unfold Model.get_merkle_branch.
      destruct (computation_spec T nilT hash2 eqT ls 2 (N.of_nat i) Hne ltac:(lia)) as [mut E].
      rewrite E. cbn [snd]. change (Z.testbit 2 1) with true. rewrite Hlt, Nat2N.id. reflexivity.
    - unfold Model.get_merkle_root_and_branch.
      destruct (computation_spec T nilT hash2 eqT ls 3 (N.of_nat i) Hne ltac:(lia)) as [mut E].
      rewrite E. change (Z.testbit 3 1) with true. rewrite Hlt, Nat2N.id.
      rewrite <- root_is_spec_root. reflexivity.
  Qed.

  Lemma log2_up_bound : forall n, 1 <= n -> n <= 2 ^ Nat.log2_up n.
  Proof.
    intros n Hn. destruct (Nat.eq_dec n 1) as [E|E]; [subst; simpl; lia|].
    apply Nat.log2_up_spec. lia.
  Qed.

  Lemma tree_branch_verifies : forall (ls : list T) (i : nat) (x : T),
    nth_error ls i = Some x ->
    rfb (spec_branch ls i) x (N.of_nat i) = get_merkle_root ls.
  Proof.
    intros ls i x Hx.
    assert (Hi : i < length ls) by (apply nth_error_Some; congruence).
    assert (Hne : ls <> []) by (intro E; subst; simpl in Hi; lia).
    rewrite root_is_spec_root. unfold Spec.spec_root, Spec.spec_branch.
    destruct ls as [|y t] eqn:El; [congruence|]. rewrite <- El in *.
    rewrite <- (nth_error_nth ls i nilT Hx).
    apply branch_verifies_tree; [exact Hi|]. apply log2_up_bound. lia.
  Qed.

  Theorem branch_verifies : forall (ls : list T) (i : nat) (x : T),
    nth_error ls i = Some x ->
    rfb (get_merkle_branch ls (N.of_nat i)) x (N.of_nat i) = get_merkle_root ls /\
    (let '(r, b) := get_merkle_root_and_branch ls (N.of_nat i) in
     rfb b x (N.of_nat i) = r /\ r = get_merkle_root_par T nilT hash2 16 ls).
  Proof.
    intros ls i x Hx.
    assert (Hi : i < length ls) by (apply nth_error_Some; congruence).
    destruct (branch_is_tree_branch ls i Hi) as [E1 E2].
    rewrite E1, E2. split; [apply tree_branch_verifies; exact Hx|].
    split; [apply tree_branch_verifies; exact Hx|].
    symmetry. apply parallel_eq_sequential.
  Qed.
End Api.

Section Multi.
  Variable T : Type.
  Variable nilT : T.
  Variable hash2 : T -> T -> T.
  Variable eqT : T -> T -> bool.

  Notation get_merkle_root := (get_merkle_root T nilT hash2).
  Notation get_merkle_branch := (get_merkle_branch T nilT hash2 eqT).
  Notation rfb := (root_from_branch T hash2).
  Notation chains_cover := (chains_cover T nilT hash2).
  Notation spec_root := (spec_root T nilT hash2).

  Definition slice_hashes (txs : list (mtx T)) (c : childchain T) : list T :=
    map snd (firstn (cc_count c) (skipn (cc_start c) txs)).

  (* starts found by the scan are strictly increasing and inside the list *)
  Lemma scan_bounds : forall (txs : list (mtx T)) i first,
    Forall (fun ts => i <= snd ts < i + length txs) (scan_chains T txs i first) /\
    StronglySorted (fun a b => snd a < snd b) (scan_chains T txs i first).
  Proof.
    induction txs as [|[title hh] txs IH]; intros i first; cbn [scan_chains].
    - split; constructor.
    - assert (Hw : forall f, Forall (fun ts => i <= snd ts < i + length ((title, hh) :: txs))
                                (scan_chains T txs (S i) f)).
      { intro f. destruct (IH (S i) f) as [H _]. eapply Forall_impl; [|exact H].
        intros [ta sa] Ha. unfold mtx in *. simpl in *. lia. }
      assert (Hc : forall f t, Forall (fun ts => i <= snd ts < i + length ((title, hh) :: txs))
                                ((t, i) :: scan_chains T txs (S i) f) /\
                         StronglySorted (fun a b => snd a < snd b) ((t, i) :: scan_chains T txs (S i) f)).
      { intros f t. split.
        - constructor; [simpl; lia|apply Hw].
        - constructor; [apply (IH (S i) f)|].
          destruct (IH (S i) f) as [H _]. eapply Forall_impl; [|exact H]. intros [ta sa] Ha. unfold mtx in *. simpl in *. lia. }
      destruct title as [t|].
      + destruct (match first with Some f => negb (t =? f)%N | None => true end).
        * apply Hc.
        * split; [apply Hw|apply (IH (S i) first)].
      + destruct (Nat.eqb_spec i 0) as [E|E].
        * subst i. apply (Hc first None).
        * split; [apply Hw|apply (IH (S i) first)].
  Qed.

  Lemma scan_head : forall (tx : mtx T) txs,
    exists t rest, scan_chains T (tx :: txs) 0 None = (t, 0) :: rest.
  Proof.
    intros [title hh] txs. cbn [scan_chains]. destruct title as [t|].
    - eexists; eexists; reflexivity.
    - cbn [Nat.eqb]. eexists; eexists; reflexivity.
  Qed.

  Lemma fill_cover : forall ncpu (txs : list (mtx T)) cs next,
    (match cs with [] => next = length txs | (_, s) :: _ => s = next end) ->
    Forall (fun ts => snd ts < length txs) cs ->
    StronglySorted (fun a b : option N * nat => snd a < snd b) cs ->
    chains_cover txs next (fill_chains T nilT hash2 ncpu txs (length txs) cs).
  Proof.
    intros ncpu txs cs. induction cs as [|[t s] rest IH]; intros next Hh Hb Hs.
    - exact Hh.
    - subst s. cbn [fill_chains Spec.chains_cover cc_start cc_count cc_hash].
      inversion Hb as [|? ? Hb1 Hb2]; subst. inversion Hs as [|? ? Hs1 Hs2]; subst.
      simpl in Hb1.
      set (e := match rest with [] => length txs | (_, s2) :: _ => s2 end).
      assert (He : next < e <= length txs).
      { unfold e. destruct rest as [|[t2 s2] r2]; [lia|].
        inversion Hs2 as [|? ? Hx _]; subst. inversion Hb2 as [|? ? Hy _]; subst. simpl in *. lia. }
      split; [reflexivity|]. split; [lia|]. split.
      + unfold single_layer_root. rewrite parallel_eq_sequential. apply root_is_spec_root.
      + apply IH; [|exact Hb2|exact Hs1].
        unfold e. destruct rest as [|[t2 s2] r2]; lia.
  Qed.

  Lemma fill_length : forall ncpu (txs : list (mtx T)) total cs,
    length (fill_chains T nilT hash2 ncpu txs total cs) = length cs.
  Proof. intros ncpu txs total cs. induction cs as [|[t s] rest IH]; simpl; auto. Qed.

  Lemma slice_all : forall (l : list (mtx T)), firstn (length l) (skipn 0 l) = l.
  Proof. intro l. rewrite skipn_O. apply firstn_all. Qed.

  Lemma multi_cover : forall ncpu (txs : list (mtx T)) root chains,
    multi_layer_info T nilT hash2 ncpu txs = Some (root, chains) ->
    chains_cover txs 0 chains /\
    (match chains with
     | [c] => cc_hash c = root
     | _ => root = get_merkle_root (map cc_hash chains)
     end).
  Proof.
    intros ncpu txs root chains H. unfold multi_layer_info in H.
    destruct txs as [|tx txs']; [discriminate|].
    set (txs := tx :: txs') in *.
    destruct (scan_head tx txs') as (t0 & rest & Esc). fold txs in Esc.
    destruct (scan_bounds txs 0 None) as [Hb Hs]. rewrite Esc in *.
    assert (Hb' : Forall (fun ts : option N * nat => snd ts < length txs) ((t0, 0) :: rest)).
    { eapply Forall_impl; [|exact Hb]. intros [ta sa] Ha. unfold mtx in *. simpl in *. lia. }
    destruct (Nat.leb_spec (length ((t0, 0) :: rest)) 1) as [H1|H1].
    - destruct rest; [|simpl in H1; lia].
      inversion H; subst root chains. clear H. cbn [map Spec.chains_cover cc_start cc_count cc_hash].
      split; [|reflexivity].
      split; [reflexivity|]. split; [unfold txs; simpl; lia|]. split; [|simpl; lia].
      unfold single_layer_root. rewrite parallel_eq_sequential, root_is_spec_root.
      f_equal. f_equal. symmetry. exact (slice_all txs).
    - set (fc := fill_chains _ _ _ _ _ _ _) in H.
      assert (Hl : length fc = length ((t0, 0) :: rest)) by apply fill_length.
      assert (Hcov : chains_cover txs 0 fc).
      { exact (fill_cover ncpu txs ((t0, 0) :: rest) 0 eq_refl Hb' Hs). }
      clearbody fc. injection H as Hroot Hchains. subst root chains.
      split; [exact Hcov|].
      destruct fc as [|c1 [|c2 r]].
      + simpl in Hl. lia.
      + simpl in Hl, H1. lia.
      + apply parallel_eq_sequential.
  Qed.

  Lemma cover_nth : forall (txs : list (mtx T)) chains next ci c,
    chains_cover txs next chains -> nth_error chains ci = Some c ->
    cc_hash c = spec_root (slice_hashes txs c).
  Proof.
    intros txs chains. induction chains as [|c0 tl IH]; intros next ci c Hc Hn.
    - destruct ci; discriminate.
    - destruct Hc as (_ & _ & Hh & Hrest). destruct ci as [|ci].
      + inversion Hn; subst. exact Hh.
      + eapply IH; eassumption.
  Qed.

  Theorem child_roots_verify : forall (ncpu : Z) (txs : list (mtx T)) (root : T) (chains : list (childchain T)),
    multi_layer_info T nilT hash2 ncpu txs = Some (root, chains) ->
    chains_cover txs 0 chains /\
    forall (ci : nat) (c : childchain T) (j : nat) (x : T),
      nth_error chains ci = Some c ->
      nth_error (map snd (firstn (cc_count c) (skipn (cc_start c) txs))) j = Some x ->
      rfb (get_merkle_branch (map snd (firstn (cc_count c) (skipn (cc_start c) txs))) (N.of_nat j))
          x (N.of_nat j) = cc_hash c /\
      (match chains with
       | [_] => cc_hash c = root
       | _ => rfb (get_merkle_branch (map cc_hash chains) (N.of_nat ci)) (cc_hash c) (N.of_nat ci) = root
       end).
  Proof.
    intros ncpu txs root chains H.
    destruct (multi_cover ncpu txs root chains H) as [Hc Hr].
    split; [exact Hc|]. intros ci c j x Hci Hj. split.
    - rewrite (cover_nth txs chains 0 ci c Hc Hci). unfold slice_hashes.
      rewrite <- root_is_spec_root.
      apply (branch_verifies T nilT hash2 eqT). exact Hj.
    - destruct chains as [|c1 [|c2 r]].
      + destruct ci; discriminate.
      + destruct ci as [|ci]; [|destruct ci; discriminate]. injection Hci as Hci. subst c1. exact Hr.
      + rewrite Hr. apply (branch_verifies T nilT hash2 eqT).
        apply map_nth_error. exact Hci.
  Qed.
End Multi.
