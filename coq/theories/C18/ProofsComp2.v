(** C18 — proofs, part 5: the closing loops of Computation and the final
    characterisation: root = tree root, branch = tree branch. *)
From Coq Require Import List Arith ZArith NArith Bool Lia.
From C33 Require Import C18.Model C18.Spec C18.ProofsSeq C18.ProofsBranch C18.ProofsComp1.
Import ListNotations.
Open Scope nat_scope.

Section Close.
  Variable T : Type.
  Variable nilT : T.
  Variable hash2 : T -> T -> T.
  Variable eqT : T -> T -> bool.
  Variable wantb : bool.
  Variable posN : N.

  Notation mroot := (mroot T nilT hash2).
  Notation mbranch := (mbranch T nilT hash2).
  Notation get_slot := (get_slot T nilT).
  Notation close_inner := (close_inner T nilT hash2).
  Notation close_outer := (close_outer T nilT hash2).
  Notation lowbit_loop := (lowbit_loop).
  Notation dec := (dec T nilT hash2 wantb posN).
  Notation blk := (blk T nilT hash2 wantb posN).
  Notation inr := (inr wantb posN).
  Notation outside := (outside wantb posN).
  Notation pos := (pos posN).

  Lemma lowbit_exit : forall fuel count lv,
    N.testbit count (N.of_nat lv) = true -> lowbit_loop fuel count lv = lv.
  Proof. intros [|f] count lv H; cbn [Model.lowbit_loop]; rewrite H; reflexivity. Qed.

  Lemma lowbit_spec : forall q lv fuel p inner ml br,
    q <> 0%N -> N.size_nat q <= fuel -> dec q lv p inner ml br ->
    exists L n, lowbit_loop fuel (q * 2 ^ N.of_nat lv) lv = L /\
      (q * 2 ^ N.of_nat lv = N.succ_double n * 2 ^ N.of_nat L)%N /\
      dec (N.succ_double n) L p inner ml br /\ N.size_nat (N.succ_double n) <= fuel.
  Proof.
    induction q as [|n IH|n IH] using N.binary_ind; intros lv fuel p inner ml br Hq Hf Hd.
    - congruence.
    - assert (Hn : n <> 0%N) by (intro E; subst; apply Hq; reflexivity).
      rewrite size_nat_double in Hf by assumption.
      destruct fuel as [|f]; [lia|].
      cbn [Model.lowbit_loop]. rewrite testbit_mul_pow2, odd_double.
      apply dec_d in Hd. destruct Hd as [_ Hd].
      assert (E : (N.double n * 2 ^ N.of_nat lv = n * 2 ^ N.of_nat (S lv))%N).
      { rewrite pow2_S_N, N.double_spec. lia. }
      rewrite E.
      destruct (IH (S lv) f p inner ml br Hn ltac:(lia) Hd) as (L & n' & E1 & E2 & E3 & E4).
      exists L, n'. split; [exact E1|]. split; [exact E2|]. split; [exact E3|lia].
    - exists lv, n. split; [|split; [reflexivity|split; [exact Hd|exact Hf]]].
      apply lowbit_exit. rewrite testbit_mul_pow2. apply odd_succ_double.
  Qed.

  Lemma close_inner_exit : forall fuel count lv inner ml h matchh br,
    N.testbit count (N.of_nat lv) = true ->
    close_inner fuel count lv wantb inner ml h matchh br = (lv, h, matchh, br).
  Proof. intros [|f] count lv inner ml h matchh br H; cbn [Model.close_inner]; rewrite H; reflexivity. Qed.

  Lemma close_inner_step : forall f count lv inner ml h matchh br,
    N.testbit count (N.of_nat lv) = false ->
    close_inner (S f) count lv wantb inner ml h matchh br =
    (let il := get_slot inner lv in
     let '(br', matchh') := branch_step T wantb matchh ml lv il h br in
     close_inner f count (S lv) wantb inner ml (hash2 il h) matchh' br').
  Proof. intros f count lv inner ml h matchh br H. cbn [Model.close_inner]. rewrite H. reflexivity. Qed.

  (** the result we want from the closing phase, for the whole list [all] *)
  Definition closed (all : list T) (br0 : list T) (res : T * list T) : Prop :=
    exists K, length all <= 2 ^ K /\ (K = 0 \/ 2 ^ (K - 1) < length all) /\
      fst res = mroot K all /\
      (inr 0 (length all) -> snd res = mbranch K all pos) /\
      (outside (length all) -> snd res = br0).

  (** statement about the state at the head of the inner closing loop *)
  Definition inner_ok (n : N) : Prop :=
    forall Lc fi fo p' B inner ml h matchh br,
      dec n Lc p' inner ml br ->
      B <> [] -> length B <= 2 ^ Lc -> h = mroot Lc B ->
      (n = 0%N -> Lc = 0 \/ 2 ^ (Lc - 1) < length B) ->
      (matchh = true <-> inr (length p') (length B)) ->
      (matchh = true -> br = mbranch Lc B (pos - length p')) ->
      N.size_nat n <= fi -> N.size_nat n <= fo ->
      closed (p' ++ B) br
        (let '(L2, h2, m2, b2) :=
           close_inner fi ((n + 1) * 2 ^ N.of_nat Lc) Lc wantb inner ml h matchh br in
         close_outer fo ((n + 1) * 2 ^ N.of_nat Lc) L2 wantb inner ml h2 m2 b2).

  (** ... and at the head of the outer closing loop *)
  Definition outer_ok (n : N) : Prop :=
    forall L fo p' B inner ml h matchh br,
      dec n (S L) p' inner ml br ->
      B <> [] -> length B <= 2 ^ L -> h = mroot L B ->
      (n = 0%N -> L = 0 \/ 2 ^ (L - 1) < length B) ->
      (matchh = true <-> inr (length p') (length B)) ->
      (matchh = true -> br = mbranch L B (pos - length p')) ->
      N.size_nat (N.succ_double n) <= fo ->
      closed (p' ++ B) br
        (close_outer fo (N.succ_double n * 2 ^ N.of_nat L) L wantb inner ml h matchh br).

  Lemma pow_eq_N : forall L, (1 * 2 ^ N.of_nat L = 2 ^ N.of_nat L)%N.
  Proof. intro L. apply N.mul_1_l. Qed.

  Lemma closed_base : forall L B h matchh br,
    B <> [] -> length B <= 2 ^ L -> h = mroot L B ->
    (L = 0 \/ 2 ^ (L - 1) < length B) ->
    (matchh = true <-> inr 0 (length B)) ->
    (matchh = true -> br = mbranch L B (pos - 0)) ->
    closed ([] ++ B) br (h, br).
  Proof.
    intros L B h matchh br HBne HBle Hh Hlow Hm Hmb.
    exists L. cbn [app fst snd]. split; [exact HBle|]. split; [exact Hlow|]. split; [exact Hh|].
    split; [|reflexivity].
    intro Hi. apply Hm in Hi. rewrite (Hmb Hi). rewrite Nat.sub_0_r. reflexivity.
  Qed.

  Lemma outer_from_inner : forall n, inner_ok n -> outer_ok n.
  Proof.
    intros n Hin L fo p' B inner ml h matchh br Hd HBne HBle Hh Hlow Hm Hmb Hf.
    destruct (N.eq_dec n 0) as [E0|E0].
    - subst n. destruct Hd as [Hp _]. subst p'.
      change (N.succ_double 0) with 1%N. rewrite pow_eq_N.
      destruct fo as [|f]; cbn [Model.close_outer]; rewrite N.eqb_refl;
        eapply closed_base; eauto.
    - rewrite size_nat_sd in Hf. destruct fo as [|f]; [lia|].
      cbn [Model.close_outer].
      assert (Hne : (N.succ_double n * 2 ^ N.of_nat L =? 2 ^ N.of_nat L)%N = false).
      { apply N.eqb_neq. rewrite N.succ_double_spec.
        assert (0 < 2 ^ N.of_nat L)%N by (apply N.neq_0_lt_0, N.pow_nonzero; lia). nia. }
      rewrite Hne.
      assert (Hcnt : (N.succ_double n * 2 ^ N.of_nat L + 2 ^ N.of_nat L = (n + 1) * 2 ^ N.of_nat (S L))%N).
      { rewrite pow2_S_N, N.succ_double_spec. lia. }
      rewrite Hcnt.
      set (br1 := if wantb && matchh then br ++ [h] else br).
      assert (Hbr1 : matchh = true -> br1 = mbranch (S L) B (pos - length p')).
      { intro E. unfold br1. destruct (proj1 Hm E) as [Hw _]. rewrite Hw, E. cbn [andb].
        rewrite mbranch_self by assumption. rewrite (Hmb E), Hh. reflexivity. }
      assert (Hbr1' : matchh = false -> br1 = br).
      { intro E. unfold br1. rewrite E, andb_false_r. reflexivity. }
      assert (Hd1 : dec n (S L) p' inner ml br1).
      { destruct matchh.
        - eapply dec_rebranch; [exact Hd|]. destruct (proj1 Hm eq_refl) as [_ Hr]. right. lia.
        - rewrite Hbr1' by reflexivity. exact Hd. }
      pose proof (Hin (S L) (N.size_nat ((n + 1) * 2 ^ N.of_nat (S L))) f p' B inner ml
                      (hash2 h h) matchh br1 Hd1 HBne) as Hres.
      assert (Hc : closed (p' ++ B) br1
         (let '(L2, h2, m2, b2) :=
            close_inner (N.size_nat ((n + 1) * 2 ^ N.of_nat (S L))) ((n + 1) * 2 ^ N.of_nat (S L))
                        (S L) wantb inner ml (hash2 h h) matchh br1 in
          close_outer f ((n + 1) * 2 ^ N.of_nat (S L)) L2 wantb inner ml h2 m2 b2)).
      { apply Hres.
        - simpl. lia.
        - rewrite Hh. symmetry. apply mroot_self. exact HBle.
        - intro; congruence.
        - exact Hm.
        - exact Hbr1.
        - apply size_nat_mono.
          assert (0 < 2 ^ N.of_nat (S L))%N by (apply N.neq_0_lt_0, N.pow_nonzero; lia). nia.
        - lia. }
      destruct (close_inner _ _ _ _ _ _ _ _ _) as [[[L2 h2] m2] b2].
      destruct Hc as (K & K1 & K2 & K3 & K4 & K5). exists K.
      split; [exact K1|]. split; [exact K2|]. split; [exact K3|]. split; [exact K4|].
      intro Ho. rewrite (K5 Ho). apply Hbr1'.
      destruct matchh; [|reflexivity]. exfalso.
      destruct (proj1 Hm eq_refl) as [Hw Hr]. rewrite app_length in Ho.
      destruct Ho as [Ho|Ho]; [congruence|lia].
  Qed.

  Lemma inner_all : forall n, inner_ok n.
  Proof.
    induction n as [|n IH|n IH] using N.binary_ind.
    - (* n = 0 *)
      intros Lc fi fo p' B inner ml h matchh br Hd HBne HBle Hh Hlow Hm Hmb _ _.
      destruct Hd as [Hp _]. subst p'.
      change (0 + 1)%N with 1%N. rewrite pow_eq_N.
      rewrite close_inner_exit.
      2:{ rewrite <- pow_eq_N, testbit_mul_pow2. reflexivity. }
      destruct fo as [|f]; cbn [Model.close_outer]; rewrite N.eqb_refl;
        eapply closed_base; eauto.
    - (* n = double n': bit Lc is set, back to the outer loop *)
      destruct (N.eq_dec n 0) as [E0|E0]; [subst n; exact IH|].
      intros Lc fi fo p' B inner ml h matchh br Hd HBne HBle Hh _ Hm Hmb Hfi Hfo.
      rewrite close_inner_exit.
      2:{ rewrite testbit_mul_pow2, double_plus1. apply odd_succ_double. }
      rewrite double_plus1.
      apply dec_d in Hd. destruct Hd as [_ Hd].
      apply (outer_from_inner n IH); try assumption.
      + intro; congruence.
      + rewrite size_nat_sd. rewrite size_nat_double in Hfo by assumption. exact Hfo.
    - (* n = succ_double n': merge with the stored block at level Lc *)
      intros Lc fi fo p' B inner ml h matchh br Hd HBne HBle Hh _ Hm Hmb Hfi Hfo.
      rewrite size_nat_sd in Hfi, Hfo.
      destruct fi as [|f]; [lia|].
      rewrite close_inner_step.
      2:{ rewrite testbit_mul_pow2, sd_plus1. apply odd_double. }
      apply dec_sd in Hd. destruct Hd as (p'' & B0 & Hp & Hblk & Hd). subst p'.
      assert (HB0 : length B0 = 2 ^ Lc) by (destruct Hblk as [H _]; exact H).
      assert (Hsl : get_slot inner Lc = mroot Lc B0) by (destruct Hblk as (_ & H & _); exact H).
      rewrite app_length, HB0 in Hm, Hmb.
      cbv zeta.
      destruct (branch_step T wantb matchh ml Lc (get_slot inner Lc) h br) as [br2 matchh2] eqn:Ebs.
      rewrite Hh in Ebs.
      destruct (branch_step_spec T nilT hash2 wantb posN Lc p'' B0 B inner ml br matchh br2 matchh2
                  Hblk HBne HBle Hm Hmb Ebs) as (C1 & C2 & C3 & C4).
      assert (Hcnt : ((N.succ_double n + 1) * 2 ^ N.of_nat Lc = (n + 1) * 2 ^ N.of_nat (S Lc))%N).
      { rewrite pow2_S_N, N.succ_double_spec. lia. }
      rewrite Hcnt.
      assert (Hh2 : hash2 (get_slot inner Lc) h = mroot (S Lc) (B0 ++ B)).
      { rewrite Hsl, Hh. symmetry. apply mroot_join; assumption. }
      rewrite Hh2.
      assert (Hd2 : dec n (S Lc) p'' inner ml br2).
      { destruct matchh2.
        - eapply dec_rebranch; [exact Hd|]. destruct (proj1 C1 eq_refl) as [_ Hr]. right. lia.
        - destruct (C4 eq_refl) as [E _]. subst br2. exact Hd. }
      assert (Hc : closed (p'' ++ (B0 ++ B)) br2
         (let '(L2, h2, m2, b2) :=
            close_inner f ((n + 1) * 2 ^ N.of_nat (S Lc)) (S Lc) wantb inner ml
                        (mroot (S Lc) (B0 ++ B)) matchh2 br2 in
          close_outer fo ((n + 1) * 2 ^ N.of_nat (S Lc)) L2 wantb inner ml h2 m2 b2)).
      { apply IH; try assumption.
        - destruct B0; [simpl in HB0; pose proof (pow2_pos' Lc); lia|discriminate].
        - rewrite app_length, HB0. simpl. lia.
        - reflexivity.
        - intros _. right. rewrite app_length, HB0. simpl. rewrite Nat.sub_0_r.
          destruct B; [congruence|simpl; lia].
        - rewrite app_length, HB0. exact C1.
        - lia.
        - lia. }
      destruct (close_inner _ _ _ _ _ _ _ _ _) as [[[L2 h2] m2] b2].
      rewrite <- app_assoc.
      destruct Hc as (K & K1 & K2 & K3 & K4 & K5). exists K.
      split; [exact K1|]. split; [exact K2|]. split; [exact K3|]. split; [exact K4|].
      intro Ho. rewrite (K5 Ho).
      destruct matchh2; [|apply C4; reflexivity]. exfalso.
      destruct (proj1 C1 eq_refl) as [Hw Hr]. rewrite !app_length in Ho.
      destruct Ho as [Ho|Ho]; [congruence|lia].
  Qed.

  (** ** the whole Computation *)
  Notation leaf_step := (leaf_step T nilT hash2 eqT wantb posN).

  Theorem closing_spec : forall leaves st,
    leaves <> [] -> Inv T nilT hash2 wantb posN st leaves ->
    let count := cs_count st in
    let level := lowbit_loop (N.size_nat count) count 0 in
    closed leaves []
      (close_outer (N.size_nat count) count level wantb (cs_inner st) (cs_matchlevel st)
         (get_slot (cs_inner st) level) (opt_nat_eqb (cs_matchlevel st) level) (cs_branch st)).
  Proof.
    intros leaves st Hne (Hc & Hd & Hb). cbv zeta.
    assert (Hq : cs_count st <> 0%N).
    { rewrite Hc. destruct leaves; [congruence|simpl; lia]. }
    destruct (lowbit_spec (cs_count st) 0 (N.size_nat (cs_count st)) leaves (cs_inner st)
                (cs_matchlevel st) (cs_branch st) Hq (le_n _) Hd) as (L & n & E1 & E2 & E3 & E4).
    change (2 ^ N.of_nat 0)%N with 1%N in E1, E2. rewrite N.mul_1_r in E1, E2.
    rewrite E1. rewrite E2 at 2.
    apply dec_sd in E3. destruct E3 as (p' & B & Hp & Hblk & Hd').
    destruct Hblk as (HB & Hsl & Hml & Hbr).
    assert (HBne : B <> []) by (eapply nonempty_of_len; exact HB).
    assert (Hres : closed (p' ++ B) (cs_branch st)
      (close_outer (N.size_nat (cs_count st)) (N.succ_double n * 2 ^ N.of_nat L) L wantb
         (cs_inner st) (cs_matchlevel st) (get_slot (cs_inner st) L)
         (opt_nat_eqb (cs_matchlevel st) L) (cs_branch st))).
    { apply (outer_from_inner n (inner_all n)); try assumption.
      - lia.
      - intros _. rewrite HB. destruct L as [|L']; [left; reflexivity|right].
        simpl. rewrite Nat.sub_0_r. pose proof (pow2_pos' L'). lia.
      - rewrite opt_nat_eqb_iff, HB. exact Hml.
      - rewrite opt_nat_eqb_iff. exact Hbr. }
    rewrite <- Hp in Hres.
    destruct Hres as (K & K1 & K2 & K3 & K4 & K5). exists K.
    split; [exact K1|]. split; [exact K2|]. split; [exact K3|]. split; [exact K4|].
    intro Ho. rewrite (K5 Ho). apply Hb. exact Ho.
  Qed.
End Close.

Section Final.
  Variable T : Type.
  Variable nilT : T.
  Variable hash2 : T -> T -> T.
  Variable eqT : T -> T -> bool.

  Notation computation := (computation T nilT hash2 eqT).
  Notation get_merkle_root := (get_merkle_root T nilT hash2).

  Lemma closed_K : forall (all : list T) K, all <> [] ->
    length all <= 2 ^ K -> (K = 0 \/ 2 ^ (K - 1) < length all) -> K = Nat.log2_up (length all).
  Proof.
    intros all K Hne H1 H2.
    destruct K as [|K].
    - simpl in H1. assert (length all = 1) by (destruct all; [congruence|simpl in *; lia]).
      rewrite H. reflexivity.
    - destruct H2 as [H2|H2]; [discriminate|].
      symmetry. apply Nat.log2_up_unique; [lia|].
      replace (S K - 1) with K in H2 by lia. simpl. split; [exact H2|exact H1].
  Qed.

  Theorem computation_spec : forall leaves flage posN,
    leaves <> [] -> (1 <= flage <= 3)%Z ->
    let wantb := Z.testbit flage 1 in
    exists mut,
      computation leaves flage posN =
      (spec_root T nilT hash2 leaves, mut,
       if wantb && (posN <? N.of_nat (length leaves))%N
       then spec_branch T nilT hash2 leaves (N.to_nat posN) else []).
  Proof.
    intros leaves flage posN Hne Hfl wantb.
    unfold Model.computation.
    destruct leaves as [|x0 l0] eqn:El; [congruence|]. rewrite <- El in *.
    destruct ((flage <? 1)%Z || (3 <? flage)%Z) eqn:Efl.
    { apply orb_true_iff in Efl. destruct Efl as [E|E]; [apply Z.ltb_lt in E|apply Z.ltb_lt in E]; lia. }
    fold wantb.
    set (st := fold_left (leaf_step T nilT hash2 eqT wantb posN) leaves (mk_cstate T [] 0%N None [] false)).
    assert (Hinv : Inv T nilT hash2 wantb posN st leaves).
    { unfold st. apply (fold_inv T nilT hash2 eqT wantb posN leaves _ []). apply init_inv. }
    pose proof (closing_spec T nilT hash2 wantb posN leaves st Hne Hinv) as Hc.
    cbv zeta in Hc.
    destruct (close_outer T nilT hash2 _ _ _ _ _ _ _ _ _) as [root branch].
    exists (cs_mutated st).
    destruct Hc as (K & K1 & K2 & K3 & K4 & K5). cbn [fst snd] in *.
    assert (HK : K = Nat.log2_up (length leaves)) by (apply closed_K; assumption).
    f_equal; [f_equal|].
    - rewrite K3, HK. unfold spec_root. rewrite El. rewrite <- El. reflexivity.
    - destruct wantb eqn:Ew; cbn [andb].
      + destruct (N.ltb_spec posN (N.of_nat (length leaves))) as [Hlt|Hge].
        * rewrite K4; [rewrite HK; reflexivity|].
          split; [reflexivity|]. unfold pos. lia.
        * apply K5. right. unfold pos. lia.
      + apply K5. left. reflexivity.
  Qed.
End Final.
