(** Ordered maps with byte-string keys: association lists strictly sorted by
    [bcmp].  The spec of every key/value backend and the state of higher
    models.  Stdlib only, axiom-free.  [V] is implicit everywhere. *)
From Coq Require Import List NArith Bool Lia.
From C33 Require Import Lib.Bytes.
Import ListNotations.

Definition omap (V : Type) : Type := list (list N * V).

Section OMap.
Context {V : Type}.
Notation key := (list N).
Notation omap := (list (key * V)).

(** [lb_all k m]: [k] is strictly below every key of [m]. *)
Definition lb_all (k : key) (m : omap) : Prop :=
  Forall (fun e => bcmp k (fst e) = Lt) m.

Fixpoint sorted (m : omap) : Prop :=
  match m with
  | [] => True
  | e :: tl => lb_all (fst e) tl /\ sorted tl
  end.

(** Boolean version (adjacent keys strictly increasing). *)
Fixpoint sortedb (m : omap) : bool :=
  match m with
  | [] => true
  | e :: tl =>
      match tl with
      | [] => true
      | e' :: _ => bltb (fst e) (fst e') && sortedb tl
      end
  end.

Definition empty : omap := [].
Definition elements (m : omap) : list (key * V) := m.
Definition keys (m : omap) : list key := map fst m.

Fixpoint get (k : key) (m : omap) : option V :=
  match m with
  | [] => None
  | (k', v) :: tl => if beqb k k' then Some v else get k tl
  end.

Definition mem (k : key) (m : omap) : bool :=
  match get k m with Some _ => true | None => false end.

Fixpoint put (k : key) (v : V) (m : omap) : omap :=
  match m with
  | [] => [(k, v)]
  | (k', v') :: tl =>
      match bcmp k k' with
      | Eq => (k, v) :: tl
      | Lt => (k, v) :: (k', v') :: tl
      | Gt => (k', v') :: put k v tl
      end
  end.

Fixpoint del (k : key) (m : omap) : omap :=
  match m with
  | [] => []
  | (k', v') :: tl =>
      match bcmp k k' with
      | Eq => tl
      | Lt => (k', v') :: tl
      | Gt => (k', v') :: del k tl
      end
  end.

Definition of_list (l : list (key * V)) : omap :=
  fold_left (fun m e => put (fst e) (snd e) m) l [].

Definition filter_keys (f : key -> bool) (m : omap) : omap :=
  filter (fun e => f (fst e)) m.

(** [lo <= k < hi]; [None] = unbounded on that side. *)
Definition in_range (lo hi : option key) (k : key) : bool :=
  (match lo with None => true | Some l => bleb l k end) &&
  (match hi with None => true | Some h => bltb k h end).

Definition range_filter (lo hi : option key) (m : omap) : omap :=
  filter_keys (in_range lo hi) m.

Definition first (m : omap) : option (key * V) := hd_error m.

Fixpoint last (m : omap) : option (key * V) :=
  match m with
  | [] => None
  | [e] => Some e
  | _ :: tl => last tl
  end.

(** first entry with key >= k / > k; last entry with key <= k / < k *)
Definition seek_ge (k : key) (m : omap) : option (key * V) := first (filter_keys (fun k' => bleb k k') m).
Definition seek_gt (k : key) (m : omap) : option (key * V) := first (filter_keys (fun k' => bltb k k') m).
Definition seek_le (k : key) (m : omap) : option (key * V) := last (filter_keys (fun k' => bleb k' k) m).
Definition seek_lt (k : key) (m : omap) : option (key * V) := last (filter_keys (fun k' => bltb k' k) m).
Definition last_le := seek_le.

(** * sortedness *)
Lemma lb_all_In k m e : lb_all k m -> In e m -> bcmp k (fst e) = Lt.
Proof. unfold lb_all. rewrite Forall_forall. auto. Qed.

Lemma lb_all_trans k k' m : bcmp k k' = Lt -> lb_all k' m -> lb_all k m.
Proof.
  unfold lb_all. rewrite !Forall_forall. intros H F e He.
  eapply bcmp_lt_trans; eauto.
Qed.

Lemma lb_all_le_trans k k' m : bcmp k k' <> Gt -> lb_all k' m -> lb_all k m.
Proof.
  unfold lb_all. rewrite !Forall_forall. intros H F e He.
  eapply bcmp_le_lt_trans; eauto.
Qed.

Lemma sorted_cons e m : sorted (e :: m) <-> lb_all (fst e) m /\ sorted m.
Proof. reflexivity. Qed.

Lemma sorted_tail e m : sorted (e :: m) -> sorted m.
Proof. intros [_ H]. exact H. Qed.

Lemma sortedb_iff m : sortedb m = true <-> sorted m.
Proof.
  induction m as [|e tl IH]; [simpl; tauto|].
  destruct tl as [|e' tl'].
  - simpl. split; auto. intros _. split; [constructor|exact I].
  - change (sortedb (e :: e' :: tl')) with (bltb (fst e) (fst e') && sortedb (e' :: tl')).
    rewrite andb_true_iff, IH, bltb_lt. rewrite (sorted_cons e).
    split.
    + intros [H1 H2]. split; [|exact H2]. constructor; [exact H1|].
      destruct H2 as [H2 _]. eapply lb_all_trans; eauto.
    + intros [H1 H2]. split; [|exact H2]. inversion H1; auto.
Qed.

Lemma sorted_filter (f : key * V -> bool) m : sorted m -> sorted (filter f m).
Proof.
  induction m as [|e tl IH]; [auto|]. intros [H1 H2]. simpl.
  destruct (f e); [|auto]. split; [|auto].
  unfold lb_all in *. rewrite Forall_forall in *. intros x Hx.
  apply filter_In in Hx as [Hx _]. auto.
Qed.

Lemma sorted_app a b :
  sorted (a ++ b) <->
  sorted a /\ sorted b /\ (forall x y, In x a -> In y b -> bcmp (fst x) (fst y) = Lt).
Proof.
  induction a as [|e a IH]; simpl.
  - split; [intro H; repeat split; auto; intros x y []| tauto].
  - unfold lb_all. rewrite Forall_app, IH, !Forall_forall. split.
    + intros [[H1 H2] [H3 [H4 H5]]]. repeat split; auto.
      intros x y [<-|Hx] Hy; auto.
    + intros [[H1 H2] [H3 H4]]. repeat split; auto.
Qed.

Lemma sorted_NoDup_keys m : sorted m -> NoDup (keys m).
Proof.
  induction m as [|e tl IH]; simpl; [constructor|]. intros [H1 H2].
  constructor; [|auto]. intro Hin. apply in_map_iff in Hin as [e' [E He']].
  pose proof (lb_all_In _ _ _ H1 He') as L. rewrite E, bcmp_refl in L. discriminate.
Qed.

Lemma sorted_NoDup m : sorted m -> NoDup m.
Proof. intro H. apply sorted_NoDup_keys in H. eapply NoDup_map_inv; eauto. Qed.

(** * get *)
Lemma get_lb_none k m : lb_all k m -> get k m = None.
Proof.
  induction m as [|[k' v] tl IH]; [reflexivity|]. intro H. inversion H; subst. simpl in *.
  unfold beqb. rewrite H2. auto.
Qed.

Lemma get_In k v m : sorted m -> (get k m = Some v <-> In (k, v) m).
Proof.
  induction m as [|[k' v'] tl IH]; simpl; [split; [discriminate|tauto]|].
  intros [H1 H2]. simpl in H1. destruct (beqb k k') eqn:E.
  - apply beqb_eq in E. subst k'. split.
    + intro H. inversion H. auto.
    + intros [H|H]; [inversion H; auto|].
      pose proof (lb_all_In _ _ _ H1 H) as L. simpl in L. rewrite bcmp_refl in L. discriminate.
  - rewrite (IH H2). split; [auto|]. intros [H|H]; [|exact H].
    inversion H; subst. rewrite beqb_refl in E. discriminate.
Qed.

Lemma get_Some_In k v m : get k m = Some v -> In (k, v) m.
Proof.
  induction m as [|[k' v'] tl IH]; simpl; [discriminate|].
  destruct (beqb k k') eqn:E; [|auto].
  apply beqb_eq in E. subst. intro H. inversion H. auto.
Qed.

Lemma get_None_notin k m : get k m = None <-> ~ In k (keys m).
Proof.
  induction m as [|[k' v'] tl IH]; simpl; [tauto|].
  destruct (beqb k k') eqn:E.
  - apply beqb_eq in E. subst. split; [discriminate|]. intro H. exfalso. auto.
  - apply beqb_neq in E. rewrite IH. split; [intros H [H1|H1]; auto | tauto].
Qed.

Lemma mem_In k m : mem k m = true <-> In k (keys m).
Proof.
  unfold mem. destruct (get k m) eqn:E.
  - split; auto. intros _. apply get_Some_In in E. apply in_map_iff. exists (k, v). auto.
  - apply get_None_notin in E. split; [discriminate|tauto].
Qed.

(** * put *)
Lemma In_put e k v m : In e (put k v m) -> e = (k, v) \/ In e m.
Proof.
  induction m as [|[k' v'] tl IH]; simpl; [intuition auto|].
  destruct (bcmp k k'); simpl; intuition auto.
Qed.

Lemma lb_all_put x k v m : bcmp x k = Lt -> lb_all x m -> lb_all x (put k v m).
Proof.
  unfold lb_all. rewrite !Forall_forall. intros H F e He.
  apply In_put in He as [->|He]; auto.
Qed.

Lemma put_sorted k v m : sorted m -> sorted (put k v m).
Proof.
  induction m as [|[k' v'] tl IH]; simpl; [intros _; split; [constructor|exact I]|].
  intros [H1 H2]. simpl in H1. destruct (bcmp k k') eqn:E; simpl.
  - apply bcmp_eq in E. subst. auto.
  - split; [|auto]. constructor; [exact E|]. eapply lb_all_trans; eauto.
  - split; [|auto]. apply lb_all_put; [|exact H1]. apply bcmp_gt_lt. exact E.
Qed.

Lemma get_put_same k v m : get k (put k v m) = Some v.
Proof.
  induction m as [|[k' v'] tl IH]; simpl; [rewrite beqb_refl; reflexivity|].
  destruct (bcmp k k') eqn:E; simpl; try (rewrite beqb_refl; reflexivity).
  unfold beqb at 1. rewrite E. exact IH.
Qed.

Lemma get_put_other k k2 v m : k2 <> k -> get k2 (put k v m) = get k2 m.
Proof.
  intro N. apply beqb_neq in N.
  induction m as [|[k' v'] tl IH]; simpl; [rewrite N; reflexivity|].
  destruct (bcmp k k') eqn:E; simpl.
  - apply bcmp_eq in E. subst. rewrite N. reflexivity.
  - rewrite N. reflexivity.
  - rewrite IH. reflexivity.
Qed.

Lemma get_put k k2 v m : get k2 (put k v m) = if beqb k2 k then Some v else get k2 m.
Proof.
  destruct (beqb k2 k) eqn:E.
  - apply beqb_eq in E. subst. apply get_put_same.
  - apply beqb_neq in E. apply get_put_other. exact E.
Qed.

(** * del *)
Lemma In_del e k m : In e (del k m) -> In e m.
Proof.
  induction m as [|[k' v'] tl IH]; simpl; [tauto|].
  destruct (bcmp k k'); simpl; intuition.
Qed.

Lemma del_sorted k m : sorted m -> sorted (del k m).
Proof.
  induction m as [|[k' v'] tl IH]; simpl; [auto|].
  intros [H1 H2]. simpl in H1. destruct (bcmp k k') eqn:E; simpl; auto.
  split; [|auto]. unfold lb_all in *. rewrite Forall_forall in *.
  intros e He. apply In_del in He. auto.
Qed.

Lemma get_del_same k m : sorted m -> get k (del k m) = None.
Proof.
  induction m as [|[k' v'] tl IH]; simpl; [auto|].
  intros [H1 H2]. simpl in H1. destruct (bcmp k k') eqn:E; simpl.
  - apply bcmp_eq in E. subst. apply get_lb_none. exact H1.
  - unfold beqb at 1. rewrite E. apply get_lb_none. eapply lb_all_trans; eauto.
  - unfold beqb at 1. rewrite E. auto.
Qed.

Lemma get_del_other k k2 m : k2 <> k -> get k2 (del k m) = get k2 m.
Proof.
  intro N. apply beqb_neq in N.
  induction m as [|[k' v'] tl IH]; simpl; [reflexivity|].
  destruct (bcmp k k') eqn:E; simpl; auto.
  - apply bcmp_eq in E. subst. rewrite N. reflexivity.
  - rewrite IH. reflexivity.
Qed.

Lemma get_del k k2 m : sorted m -> get k2 (del k m) = if beqb k2 k then None else get k2 m.
Proof.
  intro S. destruct (beqb k2 k) eqn:E.
  - apply beqb_eq in E. subst. apply get_del_same. exact S.
  - apply beqb_neq in E. apply get_del_other. exact E.
Qed.

Lemma of_list_sorted l : sorted (of_list l).
Proof.
  unfold of_list. assert (G : forall m, sorted m ->
    sorted (fold_left (fun m e => put (fst e) (snd e) m) l m)).
  { induction l as [|e l IH]; simpl; auto. intros m S. apply IH, put_sorted, S. }
  apply G. exact I.
Qed.

(** * extensionality *)
Lemma sorted_ext m1 m2 :
  sorted m1 -> sorted m2 -> (forall k, get k m1 = get k m2) -> m1 = m2.
Proof.
  revert m2; induction m1 as [|[k1 v1] t1 IH]; intros [|[k2 v2] t2] S1 S2 H; auto.
  - specialize (H k2). simpl in H. rewrite beqb_refl in H. discriminate.
  - specialize (H k1). simpl in H. rewrite beqb_refl in H. discriminate.
  - destruct S1 as [L1 S1], S2 as [L2 S2]. simpl in L1, L2.
    destruct (bcmp k1 k2) eqn:E.
    + apply bcmp_eq in E. subst k2.
      pose proof (H k1) as Hk. simpl in Hk. rewrite beqb_refl in Hk. inversion Hk; subst v2.
      f_equal. apply IH; auto. intro k. destruct (beqb k k1) eqn:Ek.
      * apply beqb_eq in Ek. subst. rewrite !get_lb_none; auto.
      * specialize (H k). simpl in H. rewrite Ek in H. exact H.
    + exfalso. specialize (H k1). simpl in H. rewrite beqb_refl in H.
      unfold beqb in H. rewrite E in H.
      rewrite get_lb_none in H; [discriminate|]. eapply lb_all_trans; eauto.
    + exfalso. apply bcmp_gt_lt in E. specialize (H k2). simpl in H. rewrite beqb_refl in H.
      unfold beqb in H. rewrite E in H.
      rewrite get_lb_none in H; [discriminate|]. eapply lb_all_trans; eauto.
Qed.

Lemma sorted_ext_In m1 m2 :
  sorted m1 -> sorted m2 -> (forall e, In e m1 <-> In e m2) -> m1 = m2.
Proof.
  intros S1 S2 H. apply sorted_ext; auto. intro k.
  destruct (get k m1) as [v|] eqn:E1.
  - apply (get_In k v m1 S1), H, (get_In k v m2 S2) in E1. auto.
  - destruct (get k m2) as [v|] eqn:E2; [|reflexivity].
    apply (get_In k v m2 S2), H, (get_In k v m1 S1) in E2. congruence.
Qed.

(** * first / last / seek *)
Lemma first_In m e : first m = Some e -> In e m.
Proof. destruct m; simpl; [discriminate|]. intro H. inversion H. auto. Qed.

Lemma first_least m e : sorted m -> first m = Some e ->
  forall e', In e' m -> bleb (fst e) (fst e') = true.
Proof.
  destruct m as [|e0 tl]; simpl; [discriminate|]. intros [H1 _] H. inversion H; subst.
  intros e' [<-|Hin]; [apply bleb_refl|].
  apply bltb_bleb, bltb_lt. eapply lb_all_In; eauto.
Qed.

Lemma first_None m : first m = None <-> m = [].
Proof. destruct m; simpl; split; congruence. Qed.

Lemma last_app_one m e : last (m ++ [e]) = Some e.
Proof.
  induction m as [|x m IH]; [reflexivity|]. simpl app.
  destruct (m ++ [e]) eqn:E; [destruct m; discriminate|]. exact IH.
Qed.

Lemma last_cons x y m : last (x :: y :: m) = last (y :: m).
Proof. reflexivity. Qed.

Lemma last_In m e : last m = Some e -> In e m.
Proof.
  induction m as [|x m IH]; [discriminate|]. destruct m as [|y m].
  - simpl. intro H. inversion H. auto.
  - rewrite last_cons. intro H. right. auto.
Qed.

Lemma last_None m : last m = None <-> m = [].
Proof.
  induction m as [|x m IH]; [tauto|]. destruct m as [|y m].
  - simpl. split; discriminate.
  - rewrite last_cons, IH. split; discriminate.
Qed.

Lemma last_greatest m e : sorted m -> last m = Some e ->
  forall e', In e' m -> bleb (fst e') (fst e) = true.
Proof.
  induction m as [|x m IH]; [discriminate|]. destruct m as [|y m].
  - simpl. intros _ H. inversion H; subst. intros e' [<-|[]]. apply bleb_refl.
  - rewrite last_cons. intros [H1 H2] H e' [<-|Hin]; [|auto].
    apply bltb_bleb, bltb_lt. eapply lb_all_In; [exact H1|]. apply last_In. exact H.
Qed.

Lemma last_rev m : last m = hd_error (rev m).
Proof.
  destruct (rev m) as [|e r] eqn:E.
  - apply (f_equal (@rev _)) in E. rewrite rev_involutive in E. subst. reflexivity.
  - apply (f_equal (@rev _)) in E. rewrite rev_involutive in E. subst. simpl.
    apply last_app_one.
Qed.

Lemma filter_keys_In f m e : In e (filter_keys f m) <-> In e m /\ f (fst e) = true.
Proof. unfold filter_keys. apply filter_In. Qed.

Lemma filter_keys_sorted f m : sorted m -> sorted (filter_keys f m).
Proof. apply sorted_filter. Qed.

Lemma range_filter_In lo hi m e :
  In e (range_filter lo hi m) <-> In e m /\ in_range lo hi (fst e) = true.
Proof. apply filter_keys_In. Qed.

Lemma range_filter_sorted lo hi m : sorted m -> sorted (range_filter lo hi m).
Proof. apply filter_keys_sorted. Qed.

(** [seek_ge] returns the least key >= k *)
Lemma seek_ge_spec k m e : sorted m -> seek_ge k m = Some e ->
  In e m /\ bleb k (fst e) = true /\
  (forall e', In e' m -> bleb k (fst e') = true -> bleb (fst e) (fst e') = true).
Proof.
  unfold seek_ge. intros S H.
  pose proof (first_In _ _ H) as Hin. apply filter_keys_In in Hin as [Hin Hge].
  repeat split; auto. intros e' Hin' Hge'.
  eapply first_least; [apply filter_keys_sorted; exact S | exact H |].
  apply filter_keys_In. auto.
Qed.

Lemma seek_ge_none k m : seek_ge k m = None ->
  forall e, In e m -> bltb (fst e) k = true.
Proof.
  unfold seek_ge. rewrite first_None. intros H e Hin.
  rewrite bltb_nbleb. destruct (bleb k (fst e)) eqn:E; [|reflexivity].
  assert (In e (filter_keys (fun k' => bleb k k') m)) by (apply filter_keys_In; auto).
  rewrite H in H0. destruct H0.
Qed.

Lemma seek_gt_spec k m e : sorted m -> seek_gt k m = Some e ->
  In e m /\ bltb k (fst e) = true /\
  (forall e', In e' m -> bltb k (fst e') = true -> bleb (fst e) (fst e') = true).
Proof.
  unfold seek_gt. intros S H.
  pose proof (first_In _ _ H) as Hin. apply filter_keys_In in Hin as [Hin Hge].
  repeat split; auto. intros e' Hin' Hge'.
  eapply first_least; [apply filter_keys_sorted; exact S | exact H |].
  apply filter_keys_In. auto.
Qed.

Lemma seek_gt_none k m : seek_gt k m = None ->
  forall e, In e m -> bleb (fst e) k = true.
Proof.
  unfold seek_gt. rewrite first_None. intros H e Hin.
  rewrite bleb_nbltb. destruct (bltb k (fst e)) eqn:E; [|reflexivity].
  assert (In e (filter_keys (fun k' => bltb k k') m)) by (apply filter_keys_In; auto).
  rewrite H in H0. destruct H0.
Qed.

(** [seek_le] returns the greatest key <= k *)
Lemma seek_le_spec k m e : sorted m -> seek_le k m = Some e ->
  In e m /\ bleb (fst e) k = true /\
  (forall e', In e' m -> bleb (fst e') k = true -> bleb (fst e') (fst e) = true).
Proof.
  unfold seek_le. intros S H.
  pose proof (last_In _ _ H) as Hin. apply filter_keys_In in Hin as [Hin Hle].
  repeat split; auto. intros e' Hin' Hle'.
  eapply last_greatest; [apply filter_keys_sorted; exact S | exact H |].
  apply filter_keys_In. auto.
Qed.

Lemma seek_le_none k m : seek_le k m = None ->
  forall e, In e m -> bltb k (fst e) = true.
Proof.
  unfold seek_le. rewrite last_None. intros H e Hin.
  rewrite bltb_nbleb. destruct (bleb (fst e) k) eqn:E; [|reflexivity].
  assert (In e (filter_keys (fun k' => bleb k' k) m)) by (apply filter_keys_In; auto).
  rewrite H in H0. destruct H0.
Qed.

Lemma seek_lt_spec k m e : sorted m -> seek_lt k m = Some e ->
  In e m /\ bltb (fst e) k = true /\
  (forall e', In e' m -> bltb (fst e') k = true -> bleb (fst e') (fst e) = true).
Proof.
  unfold seek_lt. intros S H.
  pose proof (last_In _ _ H) as Hin. apply filter_keys_In in Hin as [Hin Hle].
  repeat split; auto. intros e' Hin' Hle'.
  eapply last_greatest; [apply filter_keys_sorted; exact S | exact H |].
  apply filter_keys_In. auto.
Qed.

Lemma seek_lt_none k m : seek_lt k m = None ->
  forall e, In e m -> bleb k (fst e) = true.
Proof.
  unfold seek_lt. rewrite last_None. intros H e Hin.
  rewrite bleb_nbltb. destruct (bltb (fst e) k) eqn:E; [|reflexivity].
  assert (In e (filter_keys (fun k' => bltb k' k) m)) by (apply filter_keys_In; auto).
  rewrite H in H0. destruct H0.
Qed.

End OMap.

Arguments empty {V}.
