(** Byte strings as [list N] (every element < 256 when [wf_bytes]),
    Go's [bytes.Compare] as [bcmp] (a strict total order), prefixes and the
    prefix upper bound [succ_prefix] (= goleveldb [util.BytesPrefix].Limit =
    chain33 [bytesPrefix]).  Stdlib only, axiom-free. *)
From Coq Require Import List NArith Bool Lia.
Import ListNotations.

Definition bytes : Type := list N.

Definition wf_bytes (b : list N) : Prop := Forall (fun x => (x < 256)%N) b.
Definition wf_bytesb (b : list N) : bool := forallb (fun x => (x <? 256)%N) b.

Lemma wf_bytesb_iff b : wf_bytesb b = true <-> wf_bytes b.
Proof.
  unfold wf_bytesb, wf_bytes. rewrite forallb_forall, Forall_forall.
  split; intros H x Hx; apply N.ltb_lt; auto.
Qed.

Lemma wf_bytes_cons x b : wf_bytes (x :: b) <-> (x < 256)%N /\ wf_bytes b.
Proof. unfold wf_bytes. split; intro H; [inversion H; auto | constructor; tauto]. Qed.

Lemma wf_bytes_app a b : wf_bytes (a ++ b) <-> wf_bytes a /\ wf_bytes b.
Proof. unfold wf_bytes. apply Forall_app. Qed.

(** * Lexicographic comparison = Go [bytes.Compare] *)
Fixpoint bcmp (a b : list N) : comparison :=
  match a, b with
  | [], [] => Eq
  | [], _ :: _ => Lt
  | _ :: _, [] => Gt
  | x :: a', y :: b' =>
      match (x ?= y)%N with Eq => bcmp a' b' | Lt => Lt | Gt => Gt end
  end.

Definition beqb (a b : list N) : bool := match bcmp a b with Eq => true | _ => false end.
Definition bltb (a b : list N) : bool := match bcmp a b with Lt => true | _ => false end.
Definition bleb (a b : list N) : bool := match bcmp a b with Gt => false | _ => true end.

Lemma bcmp_refl a : bcmp a a = Eq.
Proof. induction a as [|x a IH]; simpl; [reflexivity|]. rewrite N.compare_refl. exact IH. Qed.

Lemma bcmp_eq a b : bcmp a b = Eq -> a = b.
Proof.
  revert b; induction a as [|x a IH]; intros [|y b]; simpl; try discriminate; auto.
  destruct (N.compare_spec x y) as [E|L|G]; try discriminate.
  intro H. subst. f_equal. auto.
Qed.

Lemma bcmp_eq_iff a b : bcmp a b = Eq <-> a = b.
Proof. split; [apply bcmp_eq | intros ->; apply bcmp_refl]. Qed.

Lemma bcmp_antisym a b : bcmp a b = CompOpp (bcmp b a).
Proof.
  revert b; induction a as [|x a IH]; intros [|y b]; simpl; auto.
  rewrite (N.compare_antisym y x). destruct (y ?= x)%N; simpl; auto.
Qed.

Lemma bcmp_gt_lt a b : bcmp a b = Gt <-> bcmp b a = Lt.
Proof. rewrite (bcmp_antisym a b). destruct (bcmp b a); simpl; split; congruence. Qed.

Lemma bcmp_lt_gt a b : bcmp a b = Lt <-> bcmp b a = Gt.
Proof. rewrite (bcmp_antisym a b). destruct (bcmp b a); simpl; split; congruence. Qed.

Lemma bcmp_lt_trans a b c : bcmp a b = Lt -> bcmp b c = Lt -> bcmp a c = Lt.
Proof.
  revert b c; induction a as [|x a IH]; intros [|y b] [|z c]; simpl;
    try discriminate; auto.
  destruct (N.compare_spec x y) as [E1|L1|G1]; try discriminate;
    destruct (N.compare_spec y z) as [E2|L2|G2]; try discriminate;
    intros H1 H2; destruct (N.compare_spec x z) as [E3|L3|G3];
    subst; first [lia | reflexivity | eauto].
Qed.

Lemma bcmp_lt_irrefl a : bcmp a a <> Lt.
Proof. rewrite bcmp_refl. discriminate. Qed.

Lemma bcmp_le_lt_trans a b c : bcmp a b <> Gt -> bcmp b c = Lt -> bcmp a c = Lt.
Proof.
  intros H1 H2. destruct (bcmp a b) eqn:E; [| |congruence].
  - apply bcmp_eq in E. subst. exact H2.
  - eapply bcmp_lt_trans; eauto.
Qed.

Lemma bcmp_lt_le_trans a b c : bcmp a b = Lt -> bcmp b c <> Gt -> bcmp a c = Lt.
Proof.
  intros H1 H2. destruct (bcmp b c) eqn:E; [| |congruence].
  - apply bcmp_eq in E. subst. exact H1.
  - eapply bcmp_lt_trans; eauto.
Qed.

Lemma bcmp_le_trans a b c : bcmp a b <> Gt -> bcmp b c <> Gt -> bcmp a c <> Gt.
Proof.
  intros H1 H2. destruct (bcmp b c) eqn:E; [| |congruence].
  - apply bcmp_eq in E. subst. exact H1.
  - rewrite (bcmp_le_lt_trans a b c H1 E). discriminate.
Qed.

(** boolean views *)
Lemma beqb_eq a b : beqb a b = true <-> a = b.
Proof.
  unfold beqb. rewrite <- bcmp_eq_iff. destruct (bcmp a b); split; congruence.
Qed.

Lemma beqb_refl a : beqb a a = true.
Proof. apply beqb_eq. reflexivity. Qed.

Lemma beqb_neq a b : beqb a b = false <-> a <> b.
Proof.
  rewrite <- beqb_eq. destruct (beqb a b); split; congruence.
Qed.

Lemma beqb_sym a b : beqb a b = beqb b a.
Proof. unfold beqb. rewrite (bcmp_antisym a b). destruct (bcmp b a); reflexivity. Qed.

Lemma bltb_lt a b : bltb a b = true <-> bcmp a b = Lt.
Proof. unfold bltb. destruct (bcmp a b); split; congruence. Qed.

Lemma bleb_le a b : bleb a b = true <-> bcmp a b <> Gt.
Proof. unfold bleb. destruct (bcmp a b); split; congruence. Qed.

Lemma bleb_refl a : bleb a a = true.
Proof. unfold bleb. rewrite bcmp_refl. reflexivity. Qed.

Lemma bltb_irrefl a : bltb a a = false.
Proof. unfold bltb. rewrite bcmp_refl. reflexivity. Qed.

Lemma bleb_nbltb a b : bleb a b = negb (bltb b a).
Proof. unfold bleb, bltb. rewrite (bcmp_antisym a b). destruct (bcmp b a); reflexivity. Qed.

Lemma bltb_nbleb a b : bltb a b = negb (bleb b a).
Proof. unfold bleb, bltb. rewrite (bcmp_antisym a b). destruct (bcmp b a); reflexivity. Qed.

Lemma bleb_lt_or_eq a b : bleb a b = bltb a b || beqb a b.
Proof. unfold bleb, bltb, beqb. destruct (bcmp a b); reflexivity. Qed.

Lemma bltb_bleb a b : bltb a b = true -> bleb a b = true.
Proof. unfold bleb, bltb. destruct (bcmp a b); congruence. Qed.

Lemma bleb_total a b : bleb a b = true \/ bleb b a = true.
Proof. unfold bleb. rewrite (bcmp_antisym a b). destruct (bcmp b a); simpl; auto. Qed.

Lemma bleb_antisym a b : bleb a b = true -> bleb b a = true -> a = b.
Proof.
  unfold bleb. rewrite (bcmp_antisym a b). destruct (bcmp b a) eqn:E; simpl; try discriminate.
  intros _ _. symmetry. apply bcmp_eq. exact E.
Qed.

Lemma bltb_trans a b c : bltb a b = true -> bltb b c = true -> bltb a c = true.
Proof. rewrite !bltb_lt. apply bcmp_lt_trans. Qed.

Lemma bleb_trans a b c : bleb a b = true -> bleb b c = true -> bleb a c = true.
Proof. rewrite !bleb_le. apply bcmp_le_trans. Qed.

Lemma bleb_bltb_trans a b c : bleb a b = true -> bltb b c = true -> bltb a c = true.
Proof. rewrite bleb_le, !bltb_lt. apply bcmp_le_lt_trans. Qed.

Lemma bltb_bleb_trans a b c : bltb a b = true -> bleb b c = true -> bltb a c = true.
Proof. rewrite bleb_le, !bltb_lt. apply bcmp_lt_le_trans. Qed.

Lemma bcmp_nil_l b : bcmp [] b <> Gt.
Proof. destruct b; simpl; discriminate. Qed.

Lemma bleb_nil_l b : bleb [] b = true.
Proof. apply bleb_le, bcmp_nil_l. Qed.

Lemma bcmp_cons_same x a b : bcmp (x :: a) (x :: b) = bcmp a b.
Proof. simpl. rewrite N.compare_refl. reflexivity. Qed.

Lemma bytes_eq_dec (a b : list N) : {a = b} + {a <> b}.
Proof. apply (list_eq_dec N.eq_dec). Defined.

(** * Prefixes *)
Fixpoint is_prefix (p k : list N) : bool :=
  match p, k with
  | [], _ => true
  | _ :: _, [] => false
  | x :: p', y :: k' => (x =? y)%N && is_prefix p' k'
  end.

Lemma is_prefix_nil k : is_prefix [] k = true.
Proof. reflexivity. Qed.

Lemma is_prefix_refl p : is_prefix p p = true.
Proof. induction p as [|x p IH]; simpl; [reflexivity|]. rewrite N.eqb_refl. exact IH. Qed.

Lemma is_prefix_app p s : is_prefix p (p ++ s) = true.
Proof. induction p as [|x p IH]; simpl; [reflexivity|]. rewrite N.eqb_refl. exact IH. Qed.

Lemma is_prefix_iff p k : is_prefix p k = true <-> exists s, k = p ++ s.
Proof.
  split.
  - revert k; induction p as [|x p IH]; intros k H.
    + exists k. reflexivity.
    + destruct k as [|y k]; simpl in H; [discriminate|].
      apply andb_true_iff in H as [H1 H2]. apply N.eqb_eq in H1. subst.
      destruct (IH _ H2) as [s ->]. exists s. reflexivity.
  - intros [s ->]. apply is_prefix_app.
Qed.

Lemma is_prefix_trans a b c : is_prefix a b = true -> is_prefix b c = true -> is_prefix a c = true.
Proof.
  rewrite !is_prefix_iff. intros [s ->] [t ->]. exists (s ++ t). rewrite app_assoc. reflexivity.
Qed.

Lemma is_prefix_length p k : is_prefix p k = true -> (length p <= length k)%nat.
Proof. rewrite is_prefix_iff. intros [s ->]. rewrite app_length. lia. Qed.

Lemma is_prefix_le p k : is_prefix p k = true -> bcmp p k <> Gt.
Proof.
  revert k; induction p as [|x p IH]; intros k H.
  - apply bcmp_nil_l.
  - destruct k as [|y k]; simpl in H; [discriminate|].
    apply andb_true_iff in H as [H1 H2]. apply N.eqb_eq in H1. subst.
    rewrite bcmp_cons_same. auto.
Qed.

Lemma is_prefix_bleb p k : is_prefix p k = true -> bleb p k = true.
Proof. intro H. apply bleb_le, is_prefix_le, H. Qed.

(** * Prefix upper bound: strip trailing 0xff bytes and increment the last
      remaining byte; [None] when there is none (empty or all 0xff). *)
Fixpoint succ_prefix (p : list N) : option (list N) :=
  match p with
  | [] => None
  | x :: p' =>
      match succ_prefix p' with
      | Some u => Some (x :: u)
      | None => if (x <? 255)%N then Some [(x + 1)%N] else None
      end
  end.

Definition below_succ (p k : list N) : Prop :=
  match succ_prefix p with Some u => bcmp k u = Lt | None => True end.

Definition below_succb (p k : list N) : bool :=
  match succ_prefix p with Some u => bltb k u | None => true end.

Lemma below_succb_iff p k : below_succb p k = true <-> below_succ p k.
Proof.
  unfold below_succb, below_succ. destruct (succ_prefix p); [apply bltb_lt | tauto].
Qed.

(** "->" needs no well-formedness. *)
Lemma is_prefix_bounds p k :
  is_prefix p k = true -> bcmp p k <> Gt /\ below_succ p k.
Proof.
  intro H. split; [apply is_prefix_le, H|].
  unfold below_succ. revert k H; induction p as [|x p IH]; intros k H; simpl; [exact I|].
  destruct k as [|y k]; simpl in H; [discriminate|].
  apply andb_true_iff in H as [H1 H2]. apply N.eqb_eq in H1. subst y.
  specialize (IH _ H2).
  destruct (succ_prefix p) as [u|].
  - rewrite bcmp_cons_same. exact IH.
  - destruct (x <? 255)%N; [|exact I].
    simpl. replace (x ?= x + 1)%N with Lt; [reflexivity|].
    symmetry. apply N.compare_lt_iff. lia.
Qed.

(** "<-" for well-formed keys (a key byte above 0xff would escape the bound). *)
Lemma bounds_is_prefix p k :
  wf_bytes p -> wf_bytes k ->
  bcmp p k <> Gt -> below_succ p k -> is_prefix p k = true.
Proof.
  unfold below_succ.
  revert k; induction p as [|x p IH]; intros k Wp Wk Hle Hub; [reflexivity|].
  apply wf_bytes_cons in Wp as [Wx Wp].
  destruct k as [|y k]; simpl in Hle; [congruence|].
  apply wf_bytes_cons in Wk as [Wy Wk].
  cbn [succ_prefix] in Hub. simpl.
  destruct (N.compare_spec x y) as [E|L|G]; [|exfalso|congruence].
  - subst y. rewrite N.eqb_refl. simpl. apply IH; auto.
    destruct (succ_prefix p) as [u|]; [|exact I].
    rewrite bcmp_cons_same in Hub. exact Hub.
  - destruct (succ_prefix p) as [u|].
    + simpl in Hub. destruct (N.compare_spec y x); subst; try lia; discriminate.
    + destruct (x <? 255)%N eqn:E255.
      * simpl in Hub. destruct (N.compare_spec y (x + 1)%N) as [E|L2|G2];
          try lia; try discriminate.
        destruct k; discriminate.
      * apply N.ltb_ge in E255. lia.
Qed.

Theorem is_prefix_char p k :
  wf_bytes p -> wf_bytes k ->
  (is_prefix p k = true <-> bcmp p k <> Gt /\ below_succ p k).
Proof.
  intros Wp Wk. split; [apply is_prefix_bounds|].
  intros [H1 H2]. apply bounds_is_prefix; auto.
Qed.

Corollary is_prefix_charb p k :
  wf_bytes p -> wf_bytes k -> is_prefix p k = bleb p k && below_succb p k.
Proof.
  intros Wp Wk. apply eq_true_iff_eq.
  rewrite andb_true_iff, bleb_le, below_succb_iff. apply is_prefix_char; auto.
Qed.

Lemma succ_prefix_gt p u : succ_prefix p = Some u -> bcmp p u = Lt.
Proof.
  intro H. pose proof (is_prefix_bounds p p (is_prefix_refl p)) as [_ B].
  unfold below_succ in B. rewrite H in B. exact B.
Qed.

Lemma succ_prefix_wf p u : wf_bytes p -> succ_prefix p = Some u -> wf_bytes u.
Proof.
  revert u; induction p as [|x p IH]; intros u W H; simpl in H; [discriminate|].
  apply wf_bytes_cons in W as [Wx Wp].
  destruct (succ_prefix p) as [u'|].
  - inversion H; subst. apply wf_bytes_cons. auto.
  - destruct (x <? 255)%N eqn:E; [|discriminate]. inversion H; subst.
    apply N.ltb_lt in E. apply wf_bytes_cons. split; [lia|constructor].
Qed.

Lemma succ_prefix_none p : wf_bytes p -> (succ_prefix p = None <-> Forall (fun x => x = 255%N) p).
Proof.
  induction p as [|x p IH]; intro W; simpl.
  - split; auto.
  - apply wf_bytes_cons in W as [Wx Wp]. specialize (IH Wp).
    destruct (succ_prefix p) as [u|].
    + split; [discriminate|]. intro F. inversion F; subst. destruct IH as [_ IH]. discriminate (IH H2).
    + destruct (x <? 255)%N eqn:E.
      * apply N.ltb_lt in E. split; [discriminate|]. intro F. inversion F; subst. lia.
      * apply N.ltb_ge in E. split; [|reflexivity]. intros _. constructor; [lia|]. apply IH. reflexivity.
Qed.

Example succ_prefix_ex1 : succ_prefix [97; 255; 255]%N = Some [98]%N. Proof. reflexivity. Qed.
Example succ_prefix_ex2 : succ_prefix [255; 255]%N = None. Proof. reflexivity. Qed.
Example succ_prefix_ex3 : succ_prefix [97; 0]%N = Some [97; 1]%N. Proof. reflexivity. Qed.
