(** Shared glue for the correspondence check (no proofs needed by it).

    A property's [Check.v] defines a type [case] (one input or operation
    history together with the observables the Go implementation returned on
    it) and a function [check_case : case -> verdict].  The harness writes a
    file of cases; one [vm_compute] evaluates [bad_cases] over it and the
    Python driver parses the printed list. *)
From Coq Require Import List NArith ZArith String Ascii Bool.
Import ListNotations.

(** verdict = (impl agrees with model, impl satisfies spec, known-finding code).
    The code is [0] unless the first impl/spec divergence of the case matches
    the narrow signature of a finding listed in KNOWN_FINDINGS.json (field
    "code"); it is only looked at when the spec flag is [false]. *)
Definition verdict : Type := (bool * bool * N)%type.

Definition ok_verdict : verdict := (true, true, 0%N).
Definition mk_verdict (m s : bool) : verdict := (m, s, 0%N).

Definition verdict_ok (v : verdict) : bool :=
  match v with (m, s, _) => andb m s end.

Fixpoint bad_cases {A : Type} (chk : A -> verdict) (cs : list (N * A))
  : list (N * verdict) :=
  match cs with
  | [] => []
  | (i, c) :: tl =>
      let v := chk c in
      if verdict_ok v then bad_cases chk tl else (i, v) :: bad_cases chk tl
  end.

(** Hex strings to byte lists ([list N], every element < 256). *)
Definition hexval (c : ascii) : N :=
  let n := N_of_ascii c in
  if (48 <=? n)%N && (n <=? 57)%N then n - 48
  else if (97 <=? n)%N && (n <=? 102)%N then n - 87
  else if (65 <=? n)%N && (n <=? 70)%N then n - 55
  else 0.

Fixpoint hx (s : string) : list N :=
  match s with
  | String a (String b tl) => (16 * hexval a + hexval b)%N :: hx tl
  | _ => []
  end.

(** Big integers from hex strings (decimal number notations of several hundred
    digits are interpreted very slowly by Coq; strings are not). *)
Fixpoint zx_aux (s : string) (acc : N) : N :=
  match s with
  | EmptyString => acc
  | String a tl => zx_aux tl (16 * acc + hexval a)%N
  end.
Definition nx (s : string) : N := zx_aux s 0%N.
Definition zx (s : string) : Z := Z.of_N (nx s).
Definition zxn (s : string) : Z := Z.opp (Z.of_N (nx s)).

(** ASCII text to byte list. *)
Fixpoint bs (s : string) : list N :=
  match s with
  | EmptyString => []
  | String a tl => N_of_ascii a :: bs tl
  end.

Fixpoint list_eqb {A} (eqb : A -> A -> bool) (a b : list A) : bool :=
  match a, b with
  | [], [] => true
  | x :: a', y :: b' => eqb x y && list_eqb eqb a' b'
  | _, _ => false
  end.

Definition bytes_eqb : list N -> list N -> bool := list_eqb N.eqb.

Definition option_eqb {A} (eqb : A -> A -> bool) (a b : option A) : bool :=
  match a, b with
  | None, None => true
  | Some x, Some y => eqb x y
  | _, _ => false
  end.

Lemma list_eqb_spec {A} (eqb : A -> A -> bool) :
  (forall x y, eqb x y = true <-> x = y) ->
  forall a b, list_eqb eqb a b = true <-> a = b.
Proof.
  intros H a; induction a as [|x a IH]; intros [|y b]; simpl; split; intro E;
    try reflexivity; try discriminate.
  - apply andb_true_iff in E as [E1 E2]. apply H in E1. apply IH in E2. congruence.
  - inversion E; subst. apply andb_true_iff. split; [apply H|apply IH]; reflexivity.
Qed.
