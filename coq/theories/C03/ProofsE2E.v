(** C03 — composition with C01's store theorem: for every history of committed
    write batches, at every committed root (seen from any later database),
    every pair of the abstract state has a verifying proof, absent keys have
    none, and only pairs of the abstract state verify (no condition on the state). *)
From Coq Require Import List ZArith NArith Bool Lia.
From C33 Require Import C01.Keys C01.KeysFacts C01.Model C01.Spec C01.Store C01.Inv C01.Proofs
                        C01.ProofsStore C03.Model C03.Spec C03.Proofs C03.ProofsTop.
Import ListNotations.
Local Open Scope Z_scope.

Lemma sget_in : forall (m : smap) k v, sget m k = Some v -> In (k, v) m.
Proof.
  induction m as [|[k' v'] m IH]; intros k v E; simpl in E; [discriminate|].
  destruct (beq k k') eqn:B.
  - apply beq_iff in B. inversion E; subst. left; reflexivity.
  - right. apply IH. exact E.
Qed.

Lemma sget_none_notin : forall (m : smap) k, sget m k = None -> ~ In k (map fst m).
Proof.
  induction m as [|[k' v'] m IH]; intros k E I; simpl in *; [exact I|].
  destruct (beq k k') eqn:B; [discriminate|].
  destruct I as [<-|I]; [rewrite beq_refl in B; discriminate|]. eapply IH; eauto.
Qed.

Section WithHash.
  Variable H : hashfn.
  Hypothesis H_len : len32 H.

  (** the state root as bytes: nil for the empty state *)
  Definition byte_root (r : root) : bytes :=
    match r with None => [] | Some h => interp H h end.

  Lemma in_elements_sget : forall t k v, ordered t -> In (k, v) (elements t) -> sget (elements t) k = Some v.
  Proof.
    intros t k v Ho I.
    destruct (construct_present H t Ho no_pfx k v I) as (lh & pi & C).
    apply construct_get in C. rewrite <- (get_elements t k Ho). exact C.
  Qed.

  Lemma verify_empty_root : forall k v pi, verify_kv H [] k v pi = false.
  Proof.
    intros. rewrite (verify_kv_char H H_len).
    destruct (beq [] (chain H (leaf_hash H k v) pi)) eqn:B; [|apply andb_false_r].
    apply beq_iff in B. apply (f_equal (@length N)) in B.
    rewrite (chain_len H H_len) in B by apply (leaf_hash_len H H_len). discriminate.
  Qed.

  Theorem state_proofs : forall bs i j, (i <= j)%nat ->
    exists di ri dj rj oi,
      history (firstn i bs) = Some (di, ri) /\
      history (firstn j bs) = Some (dj, rj) /\
      load_tree dj ri = Some oi /\
      (forall pf k v, sget (state (firstn i bs)) k = Some v ->
         exists pi, get_kv_pair_proof H pf oi k = Some pi /\
                    verify_kv H (byte_root ri) k v pi = true) /\
      (forall pf k, sget (state (firstn i bs)) k = None -> get_kv_pair_proof H pf oi k = None) /\
      (forall k v pi, verify_kv H (byte_root ri) k v pi = true ->
         sget (state (firstn i bs)) k = Some v \/ collision H).
  Proof.
    intros bs i j Hij.
    destruct (history_versions bs i j Hij) as [di [dj [oi [oj [Ei [Ej [Gi [STi HEi]]]]]]]].
    exists di, (tree_root oi), dj, (tree_root oj), oi.
    split; [exact Ei|]. split; [exact Ej|]. split; [apply load_tree_stored; assumption|].
    rewrite <- HEi. destruct oi as [t|]; simpl in *.
    - destruct Gi as [Ho Hs]. split; [|split].
      + intros pf k v G. apply sget_in in G.
        destruct (complete_present H H_len pf t k v Ho Hs G) as (p & C & V).
        exists (pf_inner p). unfold get_kv_pair_proof. rewrite C. split; [reflexivity|].
        unfold root_hash in V. rewrite (digest_of_symbolic H H_len) in V. exact V.
      + intros pf k G. apply absent_no_proof. apply sget_none_notin. exact G.
      + intros k v pi V. rewrite <- (digest_of_symbolic H H_len t no_pfx) in V.
        destruct (sound H H_len _ _ _ _ _ Hs V) as [I|C]; [left|right; exact C].
        apply in_elements_sget; assumption.
    - split; [|split].
      + intros pf k v G. discriminate.
      + intros pf k _. reflexivity.
      + intros k v pi V. rewrite verify_empty_root in V. discriminate.
  Qed.
End WithHash.

(** non-vacuity of [state_proofs]: a two-batch history whose state holds a leaf
    of the shape the fixed finding needed (short key, 32-byte value) *)
Example ex_history :
  let bs := [[([97%N], [1%N]); ([98%N], repeat 9%N 32)]; [([97%N], [3%N]); ([99%N], [4%N])]] in
  length (state bs) = 3%nat /\ sget (state bs) [97%N] = Some [3%N] /\
  sget (state bs) [98%N] = Some (repeat 9%N 32).
Proof. vm_compute. repeat split. Qed.
