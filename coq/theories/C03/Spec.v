(** C03 — the abstract specification (the violation oracle).  It does not mention
    hashes at all: a committed state is the list of its (key, value) leaves.

    - completeness: for a key of the state the store returns a proof and that
      proof verifies together with the stored value; for an absent key it
      returns no proof;
    - soundness: whatever proof bytes are supplied, an accepted (root, key,
      value) has root = the state's root and (key, value) in the state
      (no condition on the state);
    - robustness: malformed proof bytes are rejected, nothing panics. *)
From Coq Require Import List ZArith NArith Bool.
From C33 Require Import C01.Keys C01.Spec C03.Model.
Import ListNotations.
Local Open Scope Z_scope.

Definition kv_mem (els : smap) (k v : bytes) : bool :=
  existsb (fun kv => beq (fst kv) k && beq (snd kv) v) els.

(** GetKVPairProof(root, k) returned [res] (None = no proof) and, when it
    returned one, VerifyKVPairProof(root, (k, stored value), proof) = [selfok]. *)
Definition spec_prove {A} (els : smap) (k : bytes) (res : option A) (selfok : bool) : bool :=
  match sget els k, res with
  | Some _, Some _ => selfok
  | None, None => true
  | _, _ => false
  end.

(** VerifyKVPairProof(root, (k, v), bytes) = [acc] at a state with root [troot]. *)
Definition spec_verify (els : smap) (troot root k v : bytes) (acc : bool) : bool :=
  implb acc (beq root troot && kv_mem els k v).

(** Bytes that do not decode are never accepted. *)
Definition spec_malformed (acc : bool) : bool := negb acc.
