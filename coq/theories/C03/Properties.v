(** C03 — State proofs are complete, sound and crash-free: the theorems.
    [H] is the hash of the 4-field node message (SHA-256 over its protobuf
    encoding); [hashfn] / [len32] / [collision] / [injective4] / [heights_ok]
    are in Proofs.v / ProofsTop.v, the model in Model.v.  The model is the verifier
    as repaired by chain33 commit c3a108e (Proof.Verify rejects supplied nodes with
    Height < 1; finding C03-leaf-inner-confusion). *)
From Coq Require Import List ZArith NArith Bool.
From C33 Require Import C01.Keys C01.Model C01.Spec C01.Store C01.Inv
                        C03.Model C03.Spec C03.Proofs C03.Ideal C03.ProofsTop C03.ProofsE2E.
Import ListNotations.
Local Open Scope Z_scope.

(** Completeness: what ConstructProof returns verifies, through both entry
    points, against the root of the tree, with the stored value. *)
Theorem C03_complete : forall (H : hashfn), len32 H ->
  forall pf t k v p, sized t ->
    t_construct H pf (Some t) k = Some (v, p) ->
    In (k, v) (elements t) /\
    pf_root p = root_hash H pf t /\
    verify H p k v (root_hash H pf t) = true /\
    verify_kv H (root_hash H pf t) k v (pf_inner p) = true.
Proof. exact complete_tree. Qed.
Print Assumptions C03_complete.

(** ... and every key of an ordered tree gets one; an absent key gets none. *)
Theorem C03_complete_present : forall (H : hashfn), len32 H ->
  forall pf t k v, ordered t -> sized t -> In (k, v) (elements t) ->
    exists p, t_construct H pf (Some t) k = Some (v, p) /\
              verify_kv H (root_hash H pf t) k v (pf_inner p) = true.
Proof. exact complete_present. Qed.
Print Assumptions C03_complete_present.

Theorem C03_absent_no_proof : forall (H : hashfn) pf t k,
  ~ In k (keys t) -> get_kv_pair_proof H pf (Some t) k = None.
Proof. exact absent_no_proof. Qed.
Print Assumptions C03_absent_no_proof.

(** Soundness, for every sized tree and every supplied list of nodes (for
    SHA-256 itself: either the pair is in the tree or the proof exhibits a
    collision). *)
Theorem C03_sound : forall (H : hashfn), len32 H ->
  forall t pf k v pi, sized t ->
    verify_kv H (digest H pf t) k v pi = true ->
    In (k, v) (elements t) \/ collision H.
Proof. exact sound. Qed.
Print Assumptions C03_sound.

Theorem C03_sound_struct : forall (H : hashfn), len32 H ->
  forall t pf p k v, sized t ->
    verify H p k v (digest H pf t) = true ->
    In (k, v) (elements t) \/ collision H.
Proof. exact sound_struct. Qed.
Print Assumptions C03_sound_struct.

Theorem C03_sound_injective : forall (H : hashfn), len32 H -> injective4 H ->
  forall pf t k v pi, sized t ->
    verify_kv H (root_hash H pf t) k v pi = true -> In (k, v) (elements t).
Proof. exact sound_inj. Qed.
Print Assumptions C03_sound_injective.

(** The test added by the repair costs nothing: every node of an honest proof
    passes it (inner nodes of a sized tree have height >= 1) ... *)
Theorem C03_honest_heights_ok : forall (H : hashfn) t, sized t -> forall pf k v lh pi,
  construct H pf t k = Some (v, lh, pi) -> heights_ok pi = true.
Proof. exact construct_heights_ok. Qed.
Print Assumptions C03_honest_heights_ok.

(** ... and a supplied node with height < 1, in any position, for any root,
    is rejected; in particular both forgeries of the fixed finding (a node
    {height 0, size 1} that makes a stored leaf hash like an inner node). *)
Theorem C03_bad_height_rejected : forall (H : hashfn), len32 H ->
  forall root k v pi,
    existsb (fun n => pn_height n <? 1) pi = true -> verify_kv H root k v pi = false.
Proof. exact bad_height_rejected. Qed.
Print Assumptions C03_bad_height_rejected.

Theorem C03_leaf_inner_confusion_rejected : forall (H : hashfn), len32 H ->
  forall pf k v front back,
    (forall k0, verify_kv H (digest H pf (Leaf k0 (leaf_hash H k v))) k v
                  (front ++ mk_pnode 0 1 k0 [] :: back) = false) /\
    (forall v0, verify_kv H (digest H pf (Leaf (leaf_hash H k v) v0)) k v
                  (front ++ mk_pnode 0 1 [] v0 :: back) = false).
Proof. exact confusion_rejected. Qed.
Print Assumptions C03_leaf_inner_confusion_rejected.

(** Another value fails: an accepted value is the one the tree holds. *)
Theorem C03_sound_value : forall (H : hashfn), len32 H ->
  forall t pf k v v' pi,
    ordered t -> sized t ->
    snd (get t k) = Some v ->
    verify_kv H (digest H pf t) k v' pi = true ->
    v' = v \/ collision H.
Proof. exact sound_value. Qed.
Print Assumptions C03_sound_value.

(** Another key fails: the proof produced for k accepts no other pair. *)
Theorem C03_proof_binds : forall (H : hashfn), len32 H ->
  forall pf t k v lh pi k' v',
    construct H pf t k = Some (v, lh, pi) ->
    verify_kv H (digest H pf t) k' v' pi = true ->
    (k' = k /\ v' = v) \/ collision H.
Proof. exact proof_binds. Qed.
Print Assumptions C03_proof_binds.

(** Another root fails. *)
Theorem C03_root_unique : forall (H : hashfn), len32 H ->
  forall r r' k v pi,
    verify_kv H r k v pi = true -> verify_kv H r' k v pi = true -> r = r'.
Proof. exact root_unique. Qed.
Print Assumptions C03_root_unique.

(** Verify is total on every list of records and decides exactly
    "every height >= 1 and root = recomputed chain" (nothing else of the list matters). *)
Theorem C03_verify_total : forall (H : hashfn), len32 H ->
  forall root k v pi,
    verify_kv H root k v pi = heights_ok pi && beq root (chain H (leaf_hash H k v) pi).
Proof. exact verify_kv_char. Qed.
Print Assumptions C03_verify_total.

Theorem C03_verify_struct_total : forall (H : hashfn) p k v root,
  verify H p k v root =
  beq (pf_root p) root && beq (leaf_hash H k v) (trim32 (pf_leaf p)) &&
  heights_ok (pf_inner p) &&
  beq (pf_root p) (chain H (leaf_hash H k v) (pf_inner p)).
Proof. exact verify_char. Qed.
Print Assumptions C03_verify_struct_total.

(** The byte root is the interpretation of C01's symbolic root; stored-hash
    prefixes (EnableMavlPrefix) never influence it. *)
Theorem C03_root_of_symbolic : forall (H : hashfn), len32 H ->
  forall t pf, digest H pf t = interp H (thash t).
Proof. exact digest_of_symbolic. Qed.
Print Assumptions C03_root_of_symbolic.

(** End to end with C01's store theorem: for every history of committed write
    batches [bs] and every committed version i seen from a later database j,
    every pair of the abstract state [state (firstn i bs)] has a proof that
    verifies against the version's root, absent keys get no proof, and
    whatever verifies against that root is a pair of the abstract state. *)
Theorem C03_state_proofs : forall (H : hashfn), len32 H ->
  forall bs i j, (i <= j)%nat ->
    exists di ri dj rj oi,
      history (firstn i bs) = Some (di, ri) /\
      history (firstn j bs) = Some (dj, rj) /\
      load_tree dj ri = Some oi /\
      (forall pf k v, sget (state (firstn i bs)) k = Some v ->
         exists pi, get_kv_pair_proof H pf oi k = Some pi /\
                    verify_kv H (byte_root H ri) k v pi = true) /\
      (forall pf k, sget (state (firstn i bs)) k = None -> get_kv_pair_proof H pf oi k = None) /\
      (forall k v pi, verify_kv H (byte_root H ri) k v pi = true ->
         sget (state (firstn i bs)) k = Some v \/ collision H).
Proof. exact state_proofs. Qed.
Print Assumptions C03_state_proofs.

(** The hypotheses on [H] are satisfiable. *)
Theorem C03_ideal_hash : len32 H_ideal /\ injective4 H_ideal.
Proof. split; [exact H_ideal_len|exact H_ideal_inj]. Qed.
Print Assumptions C03_ideal_hash.
