(** C03 — executable model of chain33's state proofs
    (system/store/mavl/db/proof.go: constructProof / ConstructProof,
    InnerNodeProofHash, Proof.Verify, ReadProof; tree.go: Proof / GetKVPairProof /
    VerifyKVPairProof; types/types.go: LeafNode.Hash / InnerNode.Hash), transcribed
    function by function.  No proofs here.

    The tree is C01's [tree] (fully materialised version of a root).

    HASHES ARE BYTE STRINGS.  What Go hashes is
      LeafNode {key, value, height, size}            (types.LeafNode.Hash)
      InnerNode{leftHash, rightHash, height, size}   (types.InnerNode.Hash, after
                                                      trimming both hashes to their
                                                      last 32 bytes)
    and the two protobuf messages have the SAME layout (db.proto: fields 1, 2 are
    bytes, fields 3, 4 are int32), so both go through one function
      [H f1 f2 height size] = SHA-256 (protobuf encoding of the four fields).
    The model is parametric in [H]; the theorems assume (or extract a violation
    of) injectivity of [H] and the digest length 32; the correspondence check
    instantiates [H] by a table of SHA-256 values that the harness computed
    with crypto/sha256 and its own encoder.

    Unlike C01's symbolic hash (constructors HLeaf / HInner), this does NOT
    separate leaf digests from inner digests by construction.  The Go verifier
    separates them by the height field: a leaf is hashed with height 0, and
    Proof.Verify rejects every supplied node whose height is < 1.

    With EnableMavlPrefix the hash stored for a non-root node is
    [prefix ++ digest] (prefix = "_mlb-%010d-" / "_mh-%010d-" of the block height at
    which the node was first hashed).  The prefix of a node is modelled as an
    arbitrary function of its POSITION (path from the root, [false] = left):
    [pfx = list bool -> bytes]; without the option it is [fun _ => []]. *)
From Coq Require Import List ZArith NArith Bool.
From C33 Require Import C01.Keys C01.Model.
Import ListNotations.
Local Open Scope Z_scope.

(** [x[len(x)-32:]] when [len(x) > 32] (types.go InnerNode.Hash, proof.go Verify). *)
Definition trim32 (b : bytes) : bytes :=
  if Nat.ltb 32 (length b) then skipn (length b - 32) b else b.

(** One element of MAVLProof.InnerNodes after decoding. *)
Record pnode := mk_pnode {
  pn_height : Z;
  pn_size : Z;
  pn_left : bytes;
  pn_right : bytes }.

(** proof.go: type Proof *)
Record proof := mk_proof {
  pf_leaf : bytes;
  pf_inner : list pnode;
  pf_root : bytes }.

Definition pfx := list bool -> bytes.
Definition sub (pf : pfx) (b : bool) : pfx := fun p => pf (b :: p).
Definition no_pfx : pfx := fun _ => [].
(** the root node's hash never carries a prefix *)
Definition at_root (pf : pfx) : pfx :=
  fun p => match p with [] => [] | _ => pf p end.

Section WithHash.
  Variable H : bytes -> bytes -> Z -> Z -> bytes.

  (** types.LeafNode.Hash on LeafNode{key, value, 0, 1} *)
  Definition leaf_hash (k v : bytes) : bytes := H k v 0 1.

  (** types.InnerNode.Hash *)
  Definition inner_hash (l r : bytes) (h s : Z) : bytes := H (trim32 l) (trim32 r) h s.

  (** InnerNodeProofHash: the side is chosen by len(branch.LeftHash) == 0. *)
  Definition inner_proof_hash (child : bytes) (b : pnode) : bytes :=
    match pn_left b with
    | [] => inner_hash child (pn_right b) (pn_height b) (pn_size b)
    | _ :: _ => inner_hash (pn_left b) child (pn_height b) (pn_size b)
    end.

  (** the digests along a supplied path, without any test on the nodes (used by
      the statements and by the table check of Check.v; not a Go function) *)
  Definition chain (start : bytes) (pi : list pnode) : bytes :=
    fold_left inner_proof_hash pi start.

  (** The loop of Proof.Verify (proof.go, repaired in chain33 commit c3a108e):
      [for _, branch := range proof.InnerNodes { if branch.Height < 1 { return false };
       hash = InnerNodeProofHash(hash, branch) }].  [None] = the early [return false]. *)
  Fixpoint chain_chk (cur : bytes) (pi : list pnode) : option bytes :=
    match pi with
    | [] => Some cur
    | b :: tl =>
        if pn_height b <? 1 then None else chain_chk (inner_proof_hash cur b) tl
    end.

  (** Proof.Verify(key, value, root) *)
  Definition verify (p : proof) (k v root : bytes) : bool :=
    if negb (beq (pf_root p) root) then false else
    let lh := leaf_hash k v in
    if negb (beq lh (trim32 (pf_leaf p))) then false else
    match chain_chk lh (pf_inner p) with
    | None => false
    | Some h => beq (pf_root p) h
    end.

  (** ReadProof(roothash, leafhash, data) after decoding [data] to [pi], and
      VerifyKVPairProof(db, roothash, {k, v}, data). *)
  Definition read_proof (root leafhash : bytes) (pi : list pnode) : proof :=
    mk_proof leafhash pi root.

  Definition verify_kv (root k v : bytes) (pi : list pnode) : bool :=
    verify (read_proof root (leaf_hash k v) pi) k v root.

  (** Node.Hash: the 32-byte digest of a node, and the [hash] field the node
      carries ([prefix ++ digest]). *)
  Fixpoint digest (pf : pfx) (t : tree) : bytes :=
    match t with
    | Leaf k v => leaf_hash k v
    | Node _ h s l r =>
        inner_hash (pf [false] ++ digest (sub pf false) l)
                   (pf [true] ++ digest (sub pf true) r) h s
    end.

  Definition stored_hash (pf : pfx) (t : tree) : bytes := pf [] ++ digest pf t.

  (** node.constructProof: (value, proof.LeafHash, proof.InnerNodes) *)
  Fixpoint construct (pf : pfx) (t : tree) (k : bytes) : option (bytes * bytes * list pnode) :=
    match t with
    | Leaf lk lv => if beq lk k then Some (lv, stored_hash pf t, []) else None
    | Node nk h s l r =>
        if blt k nk then
          match construct (sub pf false) l k with
          | None => None
          | Some (v, lh, pi) =>
              Some (v, lh, pi ++ [mk_pnode h s [] (stored_hash (sub pf true) r)])
          end
        else
          match construct (sub pf true) r k with
          | None => None
          | Some (v, lh, pi) =>
              Some (v, lh, pi ++ [mk_pnode h s (stored_hash (sub pf false) l) []])
          end
    end.

  (** Tree.Hash / the state root of a version *)
  Definition root_hash (pf : pfx) (t : tree) : bytes := digest (at_root pf) t.

  (** Tree.ConstructProof: [None] = (nil, nil). *)
  Definition t_construct (pf : pfx) (o : otree) (k : bytes) : option (bytes * proof) :=
    match o with
    | None => None
    | Some t =>
        match construct (at_root pf) t k with
        | None => None
        | Some (v, lh, pi) => Some (v, mk_proof lh pi (root_hash pf t))
        end
    end.

  (** Tree.Proof / GetKVPairProof: only the inner nodes are serialised. *)
  Definition get_kv_pair_proof (pf : pfx) (o : otree) (k : bytes) : option (list pnode) :=
    match t_construct pf o k with
    | None => None
    | Some (_, p) => Some (pf_inner p)
    end.
End WithHash.
