(** C03 — proofs about the state-proof model, for an arbitrary hash function
    [H] with 32-byte digests.  Injectivity of [H] is NOT assumed here: every
    statement that needs it concludes "... or [H] has a collision" (with the
    colliding inputs), so the theorems say something about SHA-256 itself. *)
From Coq Require Import List ZArith NArith Bool Lia.
From C33 Require Import C01.Keys C01.KeysFacts C01.Model C01.Spec C01.Store C01.Inv C01.Proofs
                        C03.Model C03.Spec.
Import ListNotations.
Local Open Scope Z_scope.

(** ---- trimming ---- *)

Lemma skipn_length_app : forall (p d : bytes), skipn (length p) (p ++ d) = d.
Proof. induction p as [|x p IH]; intro d; simpl; auto. Qed.

Lemma trim32_short : forall b, (length b <= 32)%nat -> trim32 b = b.
Proof.
  intros b L. unfold trim32. destruct (Nat.ltb 32 (length b)) eqn:E; auto.
  apply Nat.ltb_lt in E. lia.
Qed.

Lemma trim32_app : forall p d, length d = 32%nat -> trim32 (p ++ d) = d.
Proof.
  intros p d L. unfold trim32. rewrite app_length, L.
  destruct (Nat.ltb 32 (length p + 32)) eqn:E.
  - replace (length p + 32 - 32)%nat with (length p) by lia. apply skipn_length_app.
  - apply Nat.ltb_ge in E. destruct p; simpl in *; [reflexivity|lia].
Qed.

Lemma trim32_length : forall b, length (trim32 b) = Nat.min (length b) 32.
Proof.
  intro b. unfold trim32. destruct (Nat.ltb 32 (length b)) eqn:E.
  - apply Nat.ltb_lt in E. rewrite skipn_length. lia.
  - apply Nat.ltb_ge in E. lia.
Qed.

Lemma trim32_nonempty : forall b, b <> [] -> trim32 b <> [].
Proof.
  intros b Hb E. apply (f_equal (@length N)) in E. rewrite trim32_length in E.
  destruct b; [congruence|simpl in E; lia].
Qed.

(** ---- small list facts ---- *)

Lemma list_rev_case : forall {A} (l : list A), l = [] \/ exists l' x, l = l' ++ [x].
Proof.
  intros A l. destruct l as [|a l]; [left; reflexivity|right].
  destruct (@exists_last A (a :: l)) as [l' [x E]]; [discriminate|]. eauto.
Qed.

Lemma sized_node_inv : forall k h s l r, sized (Node k h s l r) -> sized l /\ sized r /\ 1 <= h.
Proof.
  intros k h s l r Hs. pose proof (sized_node_height_pos _ _ _ _ _ Hs).
  simpl in Hs. tauto.
Qed.

Section WithHash.
  Variable H : bytes -> bytes -> Z -> Z -> bytes.
  Hypothesis H_len : forall a b h s, length (H a b h s) = 32%nat.

  (** two different inputs with the same digest *)
  Definition collision : Prop :=
    exists a b h s a' b' h' s',
      (a, b, h, s) <> (a', b', h', s') /\ H a b h s = H a' b' h' s'.

  Lemma H_cases : forall a b h s a' b' h' s',
    H a b h s = H a' b' h' s' ->
    (a = a' /\ b = b' /\ h = h' /\ s = s') \/ collision.
  Proof.
    intros a b h s a' b' h' s' E.
    destruct (bytes_eq_dec a a') as [Ea|Na]; [|right; exists a, b, h, s, a', b', h', s'; split; [congruence|exact E]].
    destruct (bytes_eq_dec b b') as [Eb|Nb]; [|right; exists a, b, h, s, a', b', h', s'; split; [congruence|exact E]].
    destruct (Z.eq_dec h h') as [Eh|Nh]; [|right; exists a, b, h, s, a', b', h', s'; split; [congruence|exact E]].
    destruct (Z.eq_dec s s') as [Es|Ns]; [|right; exists a, b, h, s, a', b', h', s'; split; [congruence|exact E]].
    left; auto.
  Qed.

  (** ---- digests ---- *)

  Lemma leaf_hash_len : forall k v, length (leaf_hash H k v) = 32%nat.
  Proof. intros; apply H_len. Qed.

  Lemma inner_hash_len : forall l r h s, length (inner_hash H l r h s) = 32%nat.
  Proof. intros; apply H_len. Qed.

  Lemma digest_len : forall pf t, length (digest H pf t) = 32%nat.
  Proof. intros pf [k v|k h s l r]; simpl; [apply leaf_hash_len|apply inner_hash_len]. Qed.

  Lemma digest_node : forall pf k h s l r,
    digest H pf (Node k h s l r) = H (digest H (sub pf false) l) (digest H (sub pf true) r) h s.
  Proof.
    intros. simpl. unfold inner_hash. rewrite !trim32_app by apply digest_len. reflexivity.
  Qed.

  (** the digest does not depend on the stored-hash prefixes *)
  Lemma digest_pfx_irrelevant : forall t pf pf', digest H pf t = digest H pf' t.
  Proof.
    induction t as [k v|k h s l IHl r IHr]; intros pf pf'; [reflexivity|].
    rewrite !digest_node. rewrite (IHl _ (sub pf' false)), (IHr _ (sub pf' true)). reflexivity.
  Qed.

  Lemma stored_hash_nonempty : forall pf t, stored_hash H pf t <> [].
  Proof.
    intros pf t E. apply (f_equal (@length N)) in E. unfold stored_hash in E.
    rewrite app_length, digest_len in E. simpl in E. lia.
  Qed.

  Lemma trim_stored_hash : forall pf t, trim32 (stored_hash H pf t) = digest H pf t.
  Proof. intros. unfold stored_hash. apply trim32_app, digest_len. Qed.

  (** ---- InnerNodeProofHash / chain ---- *)

  Lemma iph_left : forall child h s r,
    inner_proof_hash H child (mk_pnode h s [] r) = inner_hash H child r h s.
  Proof. reflexivity. Qed.

  Lemma iph_right : forall child h s l r, l <> [] ->
    inner_proof_hash H child (mk_pnode h s l r) = inner_hash H l child h s.
  Proof. intros child h s [|x l] r Hl; [congruence|reflexivity]. Qed.

  Lemma iph_len : forall c n, length (inner_proof_hash H c n) = 32%nat.
  Proof. intros c [h s [|x l] r]; apply H_len. Qed.

  Lemma chain_app : forall x a b, chain H x (a ++ b) = chain H (chain H x a) b.
  Proof. intros. unfold chain. apply fold_left_app. Qed.

  Lemma chain_snoc : forall x a n, chain H x (a ++ [n]) = inner_proof_hash H (chain H x a) n.
  Proof. intros. rewrite chain_app. reflexivity. Qed.

  Lemma chain_len : forall pi x, length x = 32%nat -> length (chain H x pi) = 32%nat.
  Proof.
    induction pi as [|n pi IH]; intros x Lx; simpl; auto.
    apply IH, iph_len.
  Qed.

  (** ---- Verify, characterised: total on every list of records, and its
      answer is exactly "root = the recomputed chain" ---- *)

  (** the test the verifier makes on every supplied node: Height >= 1 *)
  Definition heights_ok (pi : list pnode) : bool :=
    forallb (fun n => 1 <=? pn_height n) pi.

  Lemma chain_chk_char : forall pi x,
    chain_chk H x pi = if heights_ok pi then Some (chain H x pi) else None.
  Proof.
    induction pi as [|n pi IH]; intro x; [reflexivity|].
    cbn [chain_chk heights_ok forallb]. fold (heights_ok pi).
    rewrite Z.ltb_antisym. destruct (1 <=? pn_height n); simpl; [|reflexivity].
    rewrite IH. reflexivity.
  Qed.

  Lemma verify_kv_char : forall root k v pi,
    verify_kv H root k v pi = heights_ok pi && beq root (chain H (leaf_hash H k v) pi).
  Proof.
    intros. unfold verify_kv, read_proof, verify. simpl.
    rewrite beq_refl. simpl.
    rewrite (trim32_short (leaf_hash H k v)) by (rewrite leaf_hash_len; lia).
    rewrite beq_refl. simpl. rewrite chain_chk_char.
    destruct (heights_ok pi); reflexivity.
  Qed.

  Lemma verify_char : forall p k v root,
    verify H p k v root =
    beq (pf_root p) root && beq (leaf_hash H k v) (trim32 (pf_leaf p)) &&
    heights_ok (pf_inner p) &&
    beq (pf_root p) (chain H (leaf_hash H k v) (pf_inner p)).
  Proof.
    intros. unfold verify.
    destruct (beq (pf_root p) root); simpl; [|reflexivity].
    destruct (beq (leaf_hash H k v) (trim32 (pf_leaf p))); simpl; [|reflexivity].
    rewrite chain_chk_char. destruct (heights_ok (pf_inner p)); reflexivity.
  Qed.

  Lemma verify_kv_true : forall root k v pi,
    verify_kv H root k v pi = true <->
    heights_ok pi = true /\ root = chain H (leaf_hash H k v) pi.
  Proof.
    intros. rewrite verify_kv_char, andb_true_iff.
    split; intros [A B]; (split; [exact A|apply beq_iff; exact B]).
  Qed.

  (** a supplied node of height < 1 anywhere in the list: rejected, whatever the rest *)
  Lemma bad_height_rejected : forall root k v pi,
    existsb (fun n => pn_height n <? 1) pi = true -> verify_kv H root k v pi = false.
  Proof.
    intros root k v pi E. rewrite verify_kv_char.
    replace (heights_ok pi) with false; [reflexivity|].
    symmetry. apply not_true_is_false. intro Hh. unfold heights_ok in Hh.
    apply existsb_exists in E as (n & In_n & Hn).
    rewrite forallb_forall in Hh. specialize (Hh n In_n).
    rewrite Z.ltb_antisym, Hh in Hn. discriminate.
  Qed.

  Lemma heights_ok_snoc : forall pi n,
    heights_ok (pi ++ [n]) = true -> heights_ok pi = true /\ 1 <= pn_height n.
  Proof.
    intros pi n E. unfold heights_ok in *. rewrite forallb_app in E.
    apply andb_true_iff in E as [E1 E2]. split; [exact E1|].
    simpl in E2. rewrite andb_true_r in E2. apply Z.leb_le in E2. exact E2.
  Qed.

  (** honest proofs pass the test: every inner node of a sized tree has height >= 1 *)
  Lemma construct_heights_ok : forall t, sized t -> forall pf k v lh pi,
    construct H pf t k = Some (v, lh, pi) -> heights_ok pi = true.
  Proof.
    induction t as [lk lv|nk h s l IHl r IHr]; intros Hs pf k v lh pi C.
    - simpl in C. destruct (beq lk k); [|discriminate]. inversion C; reflexivity.
    - destruct (sized_node_inv _ _ _ _ _ Hs) as (Hsl & Hsr & Hpos).
      cbn [construct] in C. destruct (blt k nk).
      + destruct (construct H (sub pf false) l k) as [[[v0 lh0] pi0]|] eqn:Cl; [|discriminate].
        inversion C; subst. pose proof (IHl Hsl _ _ _ _ _ Cl) as Hi.
        unfold heights_ok in *. rewrite forallb_app, Hi. simpl. rewrite andb_true_r.
        apply Z.leb_le. exact Hpos.
      + destruct (construct H (sub pf true) r k) as [[[v0 lh0] pi0]|] eqn:Cr; [|discriminate].
        inversion C; subst. pose proof (IHr Hsr _ _ _ _ _ Cr) as Hi.
        unfold heights_ok in *. rewrite forallb_app, Hi. simpl. rewrite andb_true_r.
        apply Z.leb_le. exact Hpos.
  Qed.

  (** ---- completeness ---- *)

  Lemma construct_chain : forall t pf k v lh pi,
    construct H pf t k = Some (v, lh, pi) ->
    chain H (leaf_hash H k v) pi = digest H pf t /\ trim32 lh = leaf_hash H k v.
  Proof.
    induction t as [lk lv|nk h s l IHl r IHr]; intros pf k v lh pi C.
    - simpl in C. destruct (beq lk k) eqn:E; [|discriminate].
      apply beq_iff in E. subst lk. inversion C; subst. split; [reflexivity|].
      unfold stored_hash. apply trim32_app. apply (digest_len pf (Leaf k v)).
    - cbn [construct] in C. destruct (blt k nk).
      + destruct (construct H (sub pf false) l k) as [[[v0 lh0] pi0]|] eqn:Cl; [|discriminate].
        inversion C; subst. destruct (IHl _ _ _ _ _ Cl) as [Ch Tl]. split; [|exact Tl].
        rewrite chain_snoc, Ch, iph_left, digest_node. unfold inner_hash.
        rewrite trim_stored_hash. rewrite trim32_short by (rewrite digest_len; lia). reflexivity.
      + destruct (construct H (sub pf true) r k) as [[[v0 lh0] pi0]|] eqn:Cr; [|discriminate].
        inversion C; subst. destruct (IHr _ _ _ _ _ Cr) as [Ch Tl]. split; [|exact Tl].
        rewrite chain_snoc, Ch, iph_right by apply stored_hash_nonempty.
        rewrite digest_node. unfold inner_hash.
        rewrite trim_stored_hash. rewrite trim32_short by (rewrite digest_len; lia). reflexivity.
  Qed.

  Theorem complete : forall pf t k v lh pi,
    sized t ->
    construct H pf t k = Some (v, lh, pi) ->
    verify_kv H (digest H pf t) k v pi = true /\
    verify H (mk_proof lh pi (digest H pf t)) k v (digest H pf t) = true.
  Proof.
    intros pf t k v lh pi Hs C. destruct (construct_chain _ _ _ _ _ _ C) as [Ch Tl].
    pose proof (construct_heights_ok _ Hs _ _ _ _ _ C) as Hh. split.
    - apply verify_kv_true. split; [exact Hh|]. symmetry. exact Ch.
    - rewrite verify_char. simpl. rewrite Tl, Ch, Hh, !beq_refl. reflexivity.
  Qed.

  (** the proof search finds exactly the leaves *)
  Lemma construct_in : forall t pf k v lh pi,
    construct H pf t k = Some (v, lh, pi) -> In (k, v) (elements t).
  Proof.
    induction t as [lk lv|nk h s l IHl r IHr]; intros pf k v lh pi C.
    - simpl in C. destruct (beq lk k) eqn:E; [|discriminate]. apply beq_iff in E.
      inversion C; subst. left; reflexivity.
    - cbn [construct] in C. simpl. apply in_or_app. destruct (blt k nk).
      + destruct (construct H (sub pf false) l k) as [[[v0 lh0] pi0]|] eqn:Cl; [|discriminate].
        inversion C; subst. left. eapply IHl; eauto.
      + destruct (construct H (sub pf true) r k) as [[[v0 lh0] pi0]|] eqn:Cr; [|discriminate].
        inversion C; subst. right. eapply IHr; eauto.
  Qed.

  Lemma in_keys : forall (k v : bytes) l, In (k, v) l -> In k (map fst l).
  Proof. intros k v l I. apply (in_map fst) in I. exact I. Qed.

  Lemma construct_present : forall t, ordered t -> forall pf k v,
    In (k, v) (elements t) -> exists lh pi, construct H pf t k = Some (v, lh, pi).
  Proof.
    induction t as [lk lv|nk h s l IHl r IHr]; intros Ho pf k v I.
    - simpl in I. destruct I as [E|[]]. inversion E; subst. simpl. rewrite beq_refl. eauto.
    - simpl in Ho. destruct Ho as (Hol & Hor & Hl & Hr & _).
      simpl in I. apply in_app_or in I. cbn [construct]. destruct I as [I|I].
      + rewrite (Hl k) by (eapply in_keys; eauto).
        destruct (IHl Hol (sub pf false) k v I) as (lh & pi & C). rewrite C. eauto.
      + rewrite (Hr k) by (eapply in_keys; eauto).
        destruct (IHr Hor (sub pf true) k v I) as (lh & pi & C). rewrite C. eauto.
  Qed.

  Lemma construct_get : forall t pf k v lh pi,
    construct H pf t k = Some (v, lh, pi) -> snd (get t k) = Some v.
  Proof.
    induction t as [lk lv|nk h s l IHl r IHr]; intros pf k v lh pi C.
    - simpl in C. simpl. unfold beq in C. destruct (bcmp lk k); try discriminate.
      inversion C; subst. reflexivity.
    - cbn [construct] in C. cbn [get]. destruct (blt k nk).
      + destruct (construct H (sub pf false) l k) as [[[v0 lh0] pi0]|] eqn:Cl; [|discriminate].
        inversion C; subst. eapply IHl; eauto.
      + destruct (construct H (sub pf true) r k) as [[[v0 lh0] pi0]|] eqn:Cr; [|discriminate].
        inversion C; subst. specialize (IHr _ _ _ _ _ Cr). destruct (get r k). simpl in *. exact IHr.
  Qed.

  (** ---- soundness ---- *)

  Lemma iph_unfold : forall c n,
    inner_proof_hash H c n =
    match pn_left n with
    | [] => H (trim32 c) (trim32 (pn_right n)) (pn_height n) (pn_size n)
    | _ :: _ => H (trim32 (pn_left n)) (trim32 c) (pn_height n) (pn_size n)
    end.
  Proof. intros c n. unfold inner_proof_hash, inner_hash. destruct (pn_left n); reflexivity. Qed.

  Lemma step_eq : forall c n a b h s,
    inner_proof_hash H c n = H a b h s ->
    ((match pn_left n with
      | [] => (trim32 c, trim32 (pn_right n))
      | _ :: _ => (trim32 (pn_left n), trim32 c)
      end) = (a, b) /\ pn_height n = h /\ pn_size n = s) \/ collision.
  Proof.
    intros c n a b h s E. rewrite iph_unfold in E.
    destruct (pn_left n) as [|x l'];
      (destruct (H_cases _ _ _ _ _ _ _ _ E) as [(-> & -> & -> & ->)|C]; [left; auto|right; exact C]).
  Qed.

  (** A chain of accepted nodes (all heights >= 1) that ends in the digest of a
      sized tree starts at one of its leaves - or exhibits a collision.  The last
      node of the chain has height >= 1, so it cannot be the hash input of a
      leaf (height 0): no condition on the stored keys and values is needed. *)
  Lemma sound_aux : forall t, sized t ->
    forall pf k v pi, heights_ok pi = true ->
      chain H (leaf_hash H k v) pi = digest H pf t ->
      In (k, v) (elements t) \/ collision.
  Proof.
    induction t as [k0 v0|nk h s l IHl r IHr]; intros Hs pf k v pi Hh E.
    - change (digest H pf (Leaf k0 v0)) with (H k0 v0 0 1) in E.
      destruct (list_rev_case pi) as [->|[pi' [n ->]]].
      + simpl in E. unfold leaf_hash in E.
        destruct (H_cases _ _ _ _ _ _ _ _ E) as [(-> & -> & _)|C]; [left; left; reflexivity|right; exact C].
      + rewrite chain_snoc in E. destruct (heights_ok_snoc _ _ Hh) as [_ Hn].
        destruct (step_eq _ _ _ _ _ _ E) as [(_ & Eh & _)|C]; [lia|right; exact C].
    - destruct (sized_node_inv _ _ _ _ _ Hs) as (Hsl & Hsr & Hpos).
      rewrite digest_node in E.
      destruct (list_rev_case pi) as [->|[pi' [n ->]]].
      + simpl in E. unfold leaf_hash in E.
        destruct (H_cases _ _ _ _ _ _ _ _ E) as [(_ & _ & Eh & _)|C]; [lia|right; exact C].
      + rewrite chain_snoc in E. destruct (heights_ok_snoc _ _ Hh) as [Hh' _].
        assert (Lc : length (chain H (leaf_hash H k v) pi') = 32%nat) by (apply chain_len, leaf_hash_len).
        destruct (step_eq _ _ _ _ _ _ E) as [(P & _ & _)|C]; [|right; exact C].
        simpl. destruct (pn_left n) as [|x l']; inversion P as [[P1 P2]]; clear P.
        * rewrite trim32_short in P1 by lia.
          destruct (IHl Hsl _ _ _ _ Hh' P1) as [I|C]; [left; apply in_or_app; left; exact I|right; exact C].
        * rewrite trim32_short in P2 by lia.
          destruct (IHr Hsr _ _ _ _ Hh' P2) as [I|C]; [left; apply in_or_app; right; exact I|right; exact C].
  Qed.

  Theorem sound : forall t pf k v pi,
    sized t ->
    verify_kv H (digest H pf t) k v pi = true ->
    In (k, v) (elements t) \/ collision.
  Proof.
    intros t pf k v pi Hs V. apply verify_kv_true in V as [Hh V].
    eapply sound_aux; eauto.
  Qed.

  (** the same through Proof.Verify with arbitrary LeafHash / RootHash fields *)
  Theorem sound_struct : forall t pf p k v,
    sized t ->
    verify H p k v (digest H pf t) = true ->
    In (k, v) (elements t) \/ collision.
  Proof.
    intros t pf p k v Hs V. rewrite verify_char in V.
    apply andb_true_iff in V as [V V3]. apply andb_true_iff in V as [V Vh].
    apply andb_true_iff in V as [V1 V2].
    apply beq_iff in V1. apply beq_iff in V3. rewrite V1 in V3.
    eapply sound_aux; eauto.
  Qed.

  (** ---- a proof is bound to its key and value ---- *)

  Lemma chain_inj : forall pi x y,
    length x = 32%nat -> length y = 32%nat ->
    chain H x pi = chain H y pi -> x = y \/ collision.
  Proof.
    induction pi as [|n pi IH]; intros x y Lx Ly E; [left; exact E|].
    simpl in E. destruct (IH _ _ (iph_len x n) (iph_len y n) E) as [E1|C]; [|right; exact C].
    rewrite (iph_unfold x), (iph_unfold y) in E1.
    destruct (pn_left n) as [|b l'];
      (destruct (H_cases _ _ _ _ _ _ _ _ E1) as [(A & B & _)|C]; [|right; exact C]);
      rewrite !trim32_short in * by lia; left; congruence.
  Qed.

  Theorem proof_binds : forall pf t k v lh pi k' v',
    construct H pf t k = Some (v, lh, pi) ->
    verify_kv H (digest H pf t) k' v' pi = true ->
    (k' = k /\ v' = v) \/ collision.
  Proof.
    intros pf t k v lh pi k' v' C V. apply verify_kv_true in V as [_ V].
    destruct (construct_chain _ _ _ _ _ _ C) as [Ch _]. rewrite <- Ch in V.
    destruct (chain_inj _ _ _ (leaf_hash_len k v) (leaf_hash_len k' v') V) as [E|Cl]; [|right; exact Cl].
    unfold leaf_hash in E.
    destruct (H_cases _ _ _ _ _ _ _ _ E) as [(-> & -> & _)|Cl]; [left; auto|right; exact Cl].
  Qed.

  (** ---- another root fails ---- *)

  Theorem root_unique : forall r r' k v pi,
    verify_kv H r k v pi = true -> verify_kv H r' k v pi = true -> r = r'.
  Proof.
    intros r r' k v pi V V'. apply verify_kv_true in V as [_ V]. apply verify_kv_true in V' as [_ V'].
    congruence.
  Qed.

  (** ---- value bound by the tree: for an ordered tree an accepted value is
      the one [get] returns ---- *)

  Theorem sound_value : forall t pf k v v' pi,
    ordered t -> sized t ->
    snd (get t k) = Some v ->
    verify_kv H (digest H pf t) k v' pi = true ->
    v' = v \/ collision.
  Proof.
    intros t pf k v v' pi Ho Hs G V.
    destruct (sound _ _ _ _ _ Hs V) as [I|C]; [left|right; exact C].
    destruct (construct_present _ Ho pf _ _ I) as (lh & pi0 & Cn).
    apply construct_get in Cn. congruence.
  Qed.

  (** ---- the leaf / inner-node confusion (finding C03-leaf-inner-confusion,
      fixed): a tree holding a leaf (k0, d) - or (d, v0) - with d the leaf digest
      of a pair (k, v) used to accept (k, v) with the one-node proof
      {height 0, size 1, k0 / v0}, because that node makes the chain hash the
      stored leaf's own message.  The chain still ends in the root ... ---- *)

  Lemma confusion_chain_value : forall pf k v k0,
    k0 <> [] -> (length k0 <= 32)%nat ->
    chain H (leaf_hash H k v) [mk_pnode 0 1 k0 []] = digest H pf (Leaf k0 (leaf_hash H k v)).
  Proof.
    intros pf k v k0 Hne Hl. simpl.
    rewrite iph_right by exact Hne. unfold inner_hash, leaf_hash.
    rewrite (trim32_short k0) by exact Hl.
    rewrite trim32_short by (rewrite H_len; lia). reflexivity.
  Qed.

  Lemma confusion_chain_key : forall pf k v v0,
    (length v0 <= 32)%nat ->
    chain H (leaf_hash H k v) [mk_pnode 0 1 [] v0] = digest H pf (Leaf (leaf_hash H k v) v0).
  Proof.
    intros pf k v v0 Hl. simpl.
    rewrite iph_left. unfold inner_hash, leaf_hash.
    rewrite (trim32_short v0) by exact Hl.
    rewrite trim32_short by (rewrite H_len; lia). reflexivity.
  Qed.

  (** ... but the verifier now rejects both forgeries (and every proof that
      contains such a node, in any position, for any root). *)
  Theorem confusion_rejected_value : forall pf k v k0 front back,
    verify_kv H (digest H pf (Leaf k0 (leaf_hash H k v))) k v
              (front ++ mk_pnode 0 1 k0 [] :: back) = false.
  Proof.
    intros. apply bad_height_rejected. rewrite existsb_app. simpl. apply orb_true_r.
  Qed.

  Theorem confusion_rejected_key : forall pf k v v0 front back,
    verify_kv H (digest H pf (Leaf (leaf_hash H k v) v0)) k v
              (front ++ mk_pnode 0 1 [] v0 :: back) = false.
  Proof.
    intros. apply bad_height_rejected. rewrite existsb_app. simpl. apply orb_true_r.
  Qed.

  (** ---- link with C01's symbolic hash: the byte root is a function of the
      symbolic root ---- *)

  Fixpoint interp (x : hash) : bytes :=
    match x with
    | HLeaf k v => H k v 0 1
    | HInner h s l r => H (interp l) (interp r) h s
    end.

  Theorem digest_of_symbolic : forall t pf, digest H pf t = interp (thash t).
  Proof.
    induction t as [k v|k h s l IHl r IHr]; intro pf; [reflexivity|].
    rewrite digest_node, IHl, IHr. reflexivity.
  Qed.

  (** [H] injective: no collision *)
  Definition injective4 : Prop :=
    forall a b h s a' b' h' s',
      H a b h s = H a' b' h' s' -> a = a' /\ b = b' /\ h = h' /\ s = s'.

  Lemma injective_no_collision : injective4 -> ~ collision.
  Proof.
    intros Inj (a & b & h & s & a' & b' & h' & s' & Ne & E).
    destruct (Inj _ _ _ _ _ _ _ _ E) as (-> & -> & -> & ->). congruence.
  Qed.
End WithHash.
