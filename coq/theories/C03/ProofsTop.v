(** C03 — top-level statements: user-facing forms over [root_hash] /
    [t_construct], the injective-hash corollaries, the refutation of unguarded
    soundness, non-vacuity examples on the ideal hash. *)
From Coq Require Import List ZArith NArith Bool Lia.
From C33 Require Import C01.Keys C01.KeysFacts C01.Model C01.Spec C01.Store C01.Inv C01.Proofs
                        C03.Model C03.Spec C03.Proofs C03.Ideal.
Import ListNotations.
Local Open Scope Z_scope.

Definition hashfn := bytes -> bytes -> Z -> Z -> bytes.
Definition len32 (H : hashfn) : Prop := forall a b h s, length (H a b h s) = 32%nat.

(** ---- completeness ---- *)

Theorem complete_tree : forall (H : hashfn), len32 H ->
  forall pf t k v p, sized t ->
    t_construct H pf (Some t) k = Some (v, p) ->
    In (k, v) (elements t) /\
    pf_root p = root_hash H pf t /\
    verify H p k v (root_hash H pf t) = true /\
    verify_kv H (root_hash H pf t) k v (pf_inner p) = true.
Proof.
  intros H HL pf t k v p Hs C. unfold t_construct in C.
  destruct (construct H (at_root pf) t k) as [[[v0 lh] pi]|] eqn:Cn; [|discriminate].
  inversion C; subst; clear C. simpl.
  destruct (complete H HL _ _ _ _ _ _ Hs Cn) as [V1 V2].
  split; [eapply construct_in; eauto|]. split; [reflexivity|]. split; assumption.
Qed.

Theorem complete_present : forall (H : hashfn), len32 H ->
  forall pf t k v, ordered t -> sized t -> In (k, v) (elements t) ->
    exists p, t_construct H pf (Some t) k = Some (v, p) /\
              verify_kv H (root_hash H pf t) k v (pf_inner p) = true.
Proof.
  intros H HL pf t k v Ho Hs I.
  destruct (construct_present H t Ho (at_root pf) k v I) as (lh & pi & C).
  exists (mk_proof lh pi (root_hash H pf t)). unfold t_construct. rewrite C. split; [reflexivity|].
  simpl. apply (complete H HL _ _ _ _ _ _ Hs C).
Qed.

Theorem absent_no_proof : forall (H : hashfn) pf t k,
  ~ In k (keys t) -> get_kv_pair_proof H pf (Some t) k = None.
Proof.
  intros H pf t k NI. unfold get_kv_pair_proof, t_construct.
  destruct (construct H (at_root pf) t k) as [[[v lh] pi]|] eqn:C; [|reflexivity].
  exfalso. apply NI. apply construct_in in C. apply (in_map fst) in C. exact C.
Qed.

(** ---- soundness, injective form ---- *)

Theorem sound_inj : forall (H : hashfn), len32 H -> injective4 H ->
  forall pf t k v pi, sized t ->
    verify_kv H (root_hash H pf t) k v pi = true -> In (k, v) (elements t).
Proof.
  intros H HL Inj pf t k v pi Hs V.
  destruct (sound H HL _ _ _ _ _ Hs V) as [I|C]; [exact I|].
  exfalso. eapply injective_no_collision; eauto.
Qed.

(** both forgeries of the fixed finding C03-leaf-inner-confusion, in any
    position of a supplied proof: rejected *)
Theorem confusion_rejected : forall (H : hashfn), len32 H ->
  forall pf k v front back,
    (forall k0, verify_kv H (digest H pf (Leaf k0 (leaf_hash H k v))) k v
                  (front ++ mk_pnode 0 1 k0 [] :: back) = false) /\
    (forall v0, verify_kv H (digest H pf (Leaf (leaf_hash H k v) v0)) k v
                  (front ++ mk_pnode 0 1 [] v0 :: back) = false).
Proof.
  intros H HL pf k v front back. split; intros.
  - apply confusion_rejected_value; assumption.
  - apply confusion_rejected_key; assumption.
Qed.

(** ---- examples: the hypotheses are satisfiable by non-trivial states ---- *)

Definition ex_tree : tree :=
  Node [98%N] 2 3 (Leaf [97%N] [1%N])
       (Node [99%N] 1 2 (Leaf [98%N] [2%N]) (Leaf [99%N] [3%N; 4%N])).

Example ex_tree_good : ordered ex_tree /\ sized ex_tree.
Proof.
  split.
  - cbn [ordered ex_tree keys elements map app fst leftmost].
    split; [exact I|]. split.
    { split; [exact I|]. split; [exact I|]. split.
      { intros x [<-|[]]. reflexivity. }
      split; [|reflexivity]. intros x [<-|[]]. reflexivity. }
    split. { intros x [<-|[]]. reflexivity. }
    split; [|reflexivity]. intros x [<-|[<-|[]]]; reflexivity.
  - cbn [sized ex_tree height size]. repeat split; try exact I; reflexivity.
Qed.

Definition ex_pfx : pfx := fun p => match p with [] => [] | _ => [95%N; 109%N; 104%N; 45%N] end.

Example ex_proof_verifies :
  match t_construct H_ideal ex_pfx (Some ex_tree) [98%N] with
  | Some (v, p) =>
      beq v [2%N] && Nat.eqb (length (pf_inner p)) 2 &&
      verify H_ideal p [98%N] [2%N] (root_hash H_ideal ex_pfx ex_tree) &&
      verify_kv H_ideal (root_hash H_ideal ex_pfx ex_tree) [98%N] [2%N] (pf_inner p) &&
      negb (verify_kv H_ideal (root_hash H_ideal ex_pfx ex_tree) [98%N] [3%N] (pf_inner p)) &&
      negb (verify_kv H_ideal (root_hash H_ideal ex_pfx ex_tree) [97%N] [2%N] (pf_inner p))
  | None => false
  end = true.
Proof. vm_compute. reflexivity. Qed.

(** the former witness of the finding: the single leaf ("cfg-hash"-like short
    key, value = leaf digest of the forged pair) is a sized tree, the forged
    chain does end in its root, and the verifier rejects the forged proof *)
Example ex_confusion_rejected :
  let k := [1%N] in let v := [2%N] in let k0 := [3%N] in
  let t := Leaf k0 (leaf_hash H_ideal k v) in
  sized t /\ ~ In (k, v) (elements t) /\
  chain H_ideal (leaf_hash H_ideal k v) [mk_pnode 0 1 k0 []] = root_hash H_ideal no_pfx t /\
  verify_kv H_ideal (root_hash H_ideal no_pfx t) k v [mk_pnode 0 1 k0 []] = false.
Proof.
  cbv zeta. split; [exact I|]. split.
  { simpl. intros [E|[]]. inversion E. }
  split.
  - apply (confusion_chain_value H_ideal H_ideal_len); [discriminate|simpl; lia].
  - apply (confusion_rejected_value H_ideal H_ideal_len no_pfx [1%N] [2%N] [3%N] [] []).
Qed.
