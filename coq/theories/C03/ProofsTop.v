(** C03 — top-level statements: user-facing forms over [root_hash] /
    [t_construct], the injective-hash corollaries, the refutation of unguarded
    soundness, non-vacuity examples on the ideal hash. *)
From Coq Require Import List ZArith NArith Bool Lia.
From C33 Require Import C01.Keys C01.KeysFacts C01.Model C01.Spec C01.Store C01.Inv C01.Proofs
                        C03.Model C03.Spec C03.Proofs C03.Ideal.
Import ListNotations.
Local Open Scope Z_scope.

Definition hashfn := bytes -> bytes -> Z -> Z -> bytes.
Definition len32 (H : hashfn) : Prop := forall a b h s, length (H a b h s) = 32%nat.

(** ---- completeness ---- *)

Theorem complete_tree : forall (H : hashfn), len32 H ->
  forall pf t k v p,
    t_construct H pf (Some t) k = Some (v, p) ->
    In (k, v) (elements t) /\
    pf_root p = root_hash H pf t /\
    verify H p k v (root_hash H pf t) = true /\
    verify_kv H (root_hash H pf t) k v (pf_inner p) = true.
Proof.
  intros H HL pf t k v p C. unfold t_construct in C.
  destruct (construct H (at_root pf) t k) as [[[v0 lh] pi]|] eqn:Cn; [|discriminate].
  inversion C; subst; clear C. simpl.
  destruct (complete H HL _ _ _ _ _ _ Cn) as [V1 V2].
  split; [eapply construct_in; eauto|]. split; [reflexivity|]. split; assumption.
Qed.

Theorem complete_present : forall (H : hashfn), len32 H ->
  forall pf t k v, ordered t -> In (k, v) (elements t) ->
    exists p, t_construct H pf (Some t) k = Some (v, p) /\
              verify_kv H (root_hash H pf t) k v (pf_inner p) = true.
Proof.
  intros H HL pf t k v Ho I.
  destruct (construct_present H t Ho (at_root pf) k v I) as (lh & pi & C).
  exists (mk_proof lh pi (root_hash H pf t)). unfold t_construct. rewrite C. split; [reflexivity|].
  simpl. apply (complete H HL _ _ _ _ _ _ C).
Qed.

Theorem absent_no_proof : forall (H : hashfn) pf t k,
  ~ In k (keys t) -> get_kv_pair_proof H pf (Some t) k = None.
Proof.
  intros H pf t k NI. unfold get_kv_pair_proof, t_construct.
  destruct (construct H (at_root pf) t k) as [[[v lh] pi]|] eqn:C; [|reflexivity].
  exfalso. apply NI. apply construct_in in C. apply (in_map fst) in C. exact C.
Qed.

(** ---- soundness, injective form ---- *)

Theorem sound_inj : forall (H : hashfn), len32 H -> injective4 H ->
  forall pf t k v pi, sized t -> no_confusable (elements t) = true ->
    verify_kv H (root_hash H pf t) k v pi = true -> In (k, v) (elements t).
Proof.
  intros H HL Inj pf t k v pi Hs Hg V.
  destruct (sound H HL _ _ _ _ _ Hs Hg V) as [I|C]; [exact I|].
  exfalso. eapply injective_no_collision; eauto.
Qed.

(** the statement without the guard *)
Definition sound_full : Prop :=
  forall (H : hashfn), len32 H -> injective4 H ->
  forall pf t k v pi, sized t ->
    verify_kv H (root_hash H pf t) k v pi = true -> In (k, v) (elements t).

Theorem sound_full_refuted : ~ sound_full.
Proof.
  intro F.
  pose (k := [1%N]). pose (v := [2%N]). pose (k0 := [3%N]).
  assert (V : verify_kv H_ideal (root_hash H_ideal no_pfx (Leaf k0 (leaf_hash H_ideal k v))) k v
                [mk_pnode 0 1 k0 []] = true).
  { apply (leaf_inner_confusion_value H_ideal H_ideal_len); [discriminate|simpl; lia]. }
  apply (F H_ideal H_ideal_len H_ideal_inj) in V; [|exact I].
  simpl in V. destruct V as [E|[]]. inversion E.
Qed.

(** ---- examples: the hypotheses are satisfiable by non-trivial states ---- *)

Definition ex_tree : tree :=
  Node [98%N] 2 3 (Leaf [97%N] [1%N])
       (Node [99%N] 1 2 (Leaf [98%N] [2%N]) (Leaf [99%N] [3%N; 4%N])).

Example ex_tree_good :
  ordered ex_tree /\ sized ex_tree /\ no_confusable (elements ex_tree) = true.
Proof.
  split; [|split; [|reflexivity]].
  - cbn [ordered ex_tree keys elements map app fst leftmost].
    split; [exact I|]. split.
    { split; [exact I|]. split; [exact I|]. split.
      { intros x [<-|[]]. reflexivity. }
      split; [|reflexivity]. intros x [<-|[]]. reflexivity. }
    split. { intros x [<-|[]]. reflexivity. }
    split; [|reflexivity]. intros x [<-|[<-|[]]]; reflexivity.
  - cbn [sized ex_tree height size]. repeat split; try exact I; reflexivity.
Qed.

Definition ex_pfx : pfx := fun p => match p with [] => [] | _ => [95%N; 109%N; 104%N; 45%N] end.

Example ex_proof_verifies :
  match t_construct H_ideal ex_pfx (Some ex_tree) [98%N] with
  | Some (v, p) =>
      beq v [2%N] && Nat.eqb (length (pf_inner p)) 2 &&
      verify H_ideal p [98%N] [2%N] (root_hash H_ideal ex_pfx ex_tree) &&
      verify_kv H_ideal (root_hash H_ideal ex_pfx ex_tree) [98%N] [2%N] (pf_inner p) &&
      negb (verify_kv H_ideal (root_hash H_ideal ex_pfx ex_tree) [98%N] [3%N] (pf_inner p)) &&
      negb (verify_kv H_ideal (root_hash H_ideal ex_pfx ex_tree) [97%N] [2%N] (pf_inner p))
  | None => false
  end = true.
Proof. vm_compute. reflexivity. Qed.

(** a guarded state with a hash-sized value (not confusable: the key is long) *)
Example ex_guard_hash_value :
  no_confusable [(repeat 7%N 40, repeat 9%N 32)] = true /\
  confusable [3%N] (repeat 9%N 32) = true /\ confusable (repeat 9%N 32) [1%N] = true /\
  confusable (repeat 7%N 33) (repeat 9%N 32) = false /\ confusable [] (repeat 9%N 32) = false.
Proof. repeat split. Qed.
