(** C03 — an injective "ideal hash" with 32-element digests exists in the model
    (byte strings are [list N] and [N] is infinite): the hypotheses of the
    injective-hash theorems are satisfiable, and the unguarded soundness
    statement can be refuted on it.

    [H_ideal a b h s] = the Goedel number of (a, b, h, s) (stdpp's [encode])
    followed by 31 zeros. *)
From stdpp Require Import countable list numbers.
From Coq Require Import List ZArith NArith.
From C33 Require Import C01.Keys.
Import ListNotations.

Definition H_ideal (a b : bytes) (h s : Z) : bytes :=
  Npos (encode (a, b, h, s)) :: repeat 0%N 31.

Lemma H_ideal_len : forall a b h s, length (H_ideal a b h s) = 32%nat.
Proof. reflexivity. Qed.

Lemma H_ideal_inj : forall a b h s a' b' h' s',
  H_ideal a b h s = H_ideal a' b' h' s' -> a = a' /\ b = b' /\ h = h' /\ s = s'.
Proof.
  intros a b h s a' b' h' s' E. unfold H_ideal in E.
  inversion E as [E1]. apply encode_inj in E1. inversion E1. auto.
Qed.
