(** C03 — correspondence check.

    One case = one committed tree (read by the harness from the raw node
    database: structure, keys, values, stored-hash prefixes) + a list of probes
    with the observables the Go code returned.

    Coq cannot run SHA-256: the model's [H] is instantiated by the table [ht]
    of the case.  The harness computes every entry with crypto/sha256 over its
    own protobuf encoder (independent of proof.go / types.go) for exactly the
    nodes the model needs: all nodes of the tree, and for each verification
    probe the digests along the supplied path.  A lookup that is not in the
    table yields the sentinel [missing] (not a byte string), which makes the
    case fail ([model_agrees = false]) instead of silently agreeing.

    All byte strings are in the per-case table [tbl] and all proof nodes in
    [pns]; probes refer to them by index. *)
From Coq Require Import List ZArith NArith Bool.
From C33 Require Import Lib.Harness C01.Keys C01.Model C01.Spec C03.Model C03.Spec.
Import ListNotations.
Local Open Scope Z_scope.

Inductive pn := P (h s : Z) (l r : N).
Inductive hent := E (a b : N) (h s : Z) (c : N).
Inductive snode :=
| SL (k v p : N)                (* leaf: key, value, prefix of its stored hash *)
| SN (k : N) (h s : Z) (p : N).  (* inner node (pre-order: node, left, right) *)

(** value, LeafHash, RootHash, InnerNodes *)
Inductive cres := CR (v lh r : N) (pi : list N).

Inductive probe :=
(** GetKVPairProof(db, root, k): decoded inner nodes (None = nil proof, nil error);
    selfok = VerifyKVPairProof(db, root, {k, value stored for k}, those bytes). *)
| PProve (k : N) (res : option (list N)) (selfok : bool)
(** Tree.ConstructProof(k) on the loaded tree: (value, LeafHash, RootHash, InnerNodes);
    selfok = proof.Verify(k, value, root). *)
| PCons (k : N) (res : option cres) (selfok : bool)
(** VerifyKVPairProof(db, root, {k, v}, bytes); [pi] = the bytes decoded by
    proto.Unmarshal into MAVLProof (None = undecodable). *)
| PVerify (root k v : N) (pi : option (list N)) (acc : bool)
(** Proof{LeafHash, InnerNodes, RootHash}.Verify(k, v, root) *)
| PStruct (lh proot : N) (pi : list N) (k v root : N) (acc : bool)
(** the implementation panicked on tbl[what] *)
| PPanic (what : N).

Inductive case :=
| Case (tbl : list bytes) (pns : list pn) (ht : list hent) (shape : list snode)
       (root : N) (probes : list probe).

Definition missing : bytes := [999%N].

(** Byte strings are written [X len 0xHEX] in the case files (hexadecimal [N]
    literals elaborate several times faster than string literals):
    the big-endian bytes of the number, padded to [len] bytes. *)
Fixpoint nb_aux (fuel : nat) (n : N) (acc : bytes) : bytes :=
  match fuel with
  | O => acc
  | S f => nb_aux f (N.shiftr n 8) (N.land n 255 :: acc)
  end.
Definition X (len n : N) : bytes := nb_aux (N.to_nat len) n [].

Section Resolve.
  Variable tbl : list bytes.
  Definition B (i : N) : bytes := nth (N.to_nat i) tbl [998%N].

  Definition hentry := (bytes * bytes * Z * Z * bytes)%type.
  Definition res_hent (e : hent) : hentry :=
    match e with E a b h s c => (B a, B b, h, s, B c) end.

  Definition res_pn (p : pn) : pnode :=
    match p with P h s l r => mk_pnode h s (B l) (B r) end.
End Resolve.

Fixpoint h_lookup (rt : list hentry) (l r : bytes) (h s : Z) : bytes :=
  match rt with
  | [] => missing
  | (a, b, h', s', c) :: tl =>
      if (h =? h') && (s =? s') && beq a l && beq b r then c else h_lookup tl l r h s
  end.

Inductive ptree := PL (p : bytes) | PN (p : bytes) (l r : ptree).

Fixpoint pf_of (pt : ptree) (path : list bool) : bytes :=
  match path with
  | [] => match pt with PL p => p | PN p _ _ => p end
  | b :: tl => match pt with
               | PL _ => []
               | PN _ l r => pf_of (if b then r else l) tl
               end
  end.

Fixpoint parse (tbl : list bytes) (fuel : nat) (sh : list snode)
  : option (tree * ptree * list snode) :=
  match fuel with
  | O => None
  | S f =>
      match sh with
      | [] => None
      | SL k v p :: tl => Some (Leaf (B tbl k) (B tbl v), PL (B tbl p), tl)
      | SN k h s p :: tl =>
          match parse tbl f tl with
          | None => None
          | Some (l, pl, tl1) =>
              match parse tbl f tl1 with
              | None => None
              | Some (r, pr, tl2) => Some (Node (B tbl k) h s l r, PN (B tbl p) pl pr, tl2)
              end
          end
      end
  end.

Definition pnode_eqb (a b : pnode) : bool :=
  (pn_height a =? pn_height b) && (pn_size a =? pn_size b) &&
  beq (pn_left a) (pn_left b) && beq (pn_right a) (pn_right b).

Definition pi_eqb := list_eqb pnode_eqb.

(** verdict of one probe: (model agrees, spec holds).  No known finding is
    classified any more (C03-leaf-inner-confusion is fixed in chain33 c3a108e):
    every accepted pair that is not in the state is a violation. *)
Definition probe_verdict := (bool * bool)%type.

Section Probes.
  Variable tbl : list bytes.
  Variable pnt : list pnode.
  Variable Ht : bytes -> bytes -> Z -> Z -> bytes.
  Variable o : otree.
  Variable pf : pfx.
  Variable troot : bytes.

  Definition PI (ix : list N) : list pnode :=
    map (fun i => nth (N.to_nat i) pnt (mk_pnode 0 0 missing missing)) ix.

  Definition els : smap := match o with None => [] | Some t => elements t end.

  (** every digest along the supplied path is in the table (a superset of what
      the model's verification needs: it stops at the first node of height < 1) *)
  Definition chain_known (k v : bytes) (pi : list pnode) : bool :=
    negb (beq (chain Ht (leaf_hash Ht k v) pi) missing).

  Definition check_probe (p : probe) : probe_verdict :=
    match p with
    | PProve k res selfok =>
        let k := B tbl k in
        let res := option_map PI res in
        let m_res := get_kv_pair_proof Ht pf o k in
        let m :=
          option_eqb pi_eqb m_res res &&
          match res, sget els k with
          | Some pi, Some v => Bool.eqb selfok (verify_kv Ht troot k v pi) && chain_known k v pi
          | Some _, None => false
          | None, _ => true
          end in
        (m, spec_prove els k res selfok)
    | PCons k res selfok =>
        let k := B tbl k in
        let m :=
          match t_construct Ht pf o k, res with
          | None, None => true
          | Some (v, p), Some (CR v' lh' r' pi') =>
              beq v (B tbl v') && beq (pf_leaf p) (B tbl lh') && beq (pf_root p) (B tbl r') &&
              pi_eqb (pf_inner p) (PI pi') &&
              Bool.eqb selfok (verify Ht (mk_proof (B tbl lh') (PI pi') (B tbl r')) k (B tbl v') (B tbl r'))
          | _, _ => false
          end in
        let s :=
          match res with
          | Some (CR v' _ r' _) =>
              spec_prove els k res selfok && kv_mem els k (B tbl v') && beq (B tbl r') troot
          | None => spec_prove els k res selfok
          end in
        (m, s)
    | PVerify root k v pi acc =>
        let root := B tbl root in
        let k := B tbl k in
        let v := B tbl v in
        match pi with
        | None => (negb acc, spec_malformed acc)
        | Some ix =>
            let pi := PI ix in
            (Bool.eqb acc (verify_kv Ht root k v pi) && chain_known k v pi,
             spec_verify els troot root k v acc)
        end
    | PStruct lh proot ix k v root acc =>
        let pi := PI ix in
        let k := B tbl k in
        let v := B tbl v in
        let root := B tbl root in
        (Bool.eqb acc (verify Ht (mk_proof (B tbl lh) pi (B tbl proot)) k v root) && chain_known k v pi,
         spec_verify els troot root k v acc)
    | PPanic _ => (false, false)
    end.
End Probes.

Definition combine_verdicts (vs : list probe_verdict) : verdict :=
  let m := forallb (fun v => fst v) vs in
  let s := forallb (fun v => snd v) vs in
  (m, s, 0%N).

Definition check_case (c : case) : verdict :=
  match c with
  | Case tbl pns ht shape root probes =>
      let rt := map (res_hent tbl) ht in
      let Ht := h_lookup rt in
      let pnt := map (res_pn tbl) pns in
      let troot := B tbl root in
      let parsed :=
        match shape with
        | [] => Some (None, PL [])
        | _ => match parse tbl (S (length shape)) shape with
               | Some (t, pt, []) => Some (Some t, pt)
               | _ => None
               end
        end in
      match parsed with
      | None => (false, false, 0%N)
      | Some (o, pt) =>
          let pf := pf_of pt in
          (** the root the store returned is the model's root of the dumped tree
              (Go: nil root for the empty tree) *)
          let root_ok :=
            match o with
            | None => beq troot []
            | Some t => beq (root_hash Ht pf t) troot
            end in
          let '(m, s, k) := combine_verdicts (map (check_probe tbl pnt Ht o pf troot) probes) in
          (m && root_ok, s, k)
      end
  end.
