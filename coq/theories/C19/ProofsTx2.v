(** C19 — TransactionCache: one step keeps the invariant and answers the sticky verdict. *)
From Coq Require Import List ZArith NArith Bool Lia.
From C33 Require Import Lib.Harness C19.Model C19.ModelTx C19.SpecTx C19.ProofsTx.
Import ListNotations.
Open Scope Z_scope.

Lemma step_check : forall tc prev st x h mi ma st' a,
  inv tc prev st -> tstep tc st (TCheck x h mi ma) = (st', a) ->
  a = sticky tc prev (TCheck x h mi ma) /\ inv tc (TCheck x h mi ma :: prev) st'.
Proof.
  intros tc prev st x h mi ma st' a I S.
  set (o := TCheck x h mi ma) in *.
  assert (K : tkey o = Some (0%N, x)) by reflexivity.
  pose proof (I x) as Ix. unfold inv_x in Ix. destruct Ix as (A & B & C & D).
  cbn [tstep o] in S. fold o in S.
  destruct (t_checked (tget x st)) eqn:CK.
  - (* memo hit *)
    injection S as <- <-. split.
    + unfold sticky. rewrite K. symmetry. apply B; reflexivity.
    + intro x'. destruct (N.eq_dec x' x) as [->|NE].
      * unfold inv_x. rewrite !has_key_cons, K, tkey_eqb_some_refl, k10. cbn [orb].
        repeat split.
        -- exact CK.
        -- intros _ d. rewrite fs_cons, K, tkey_eqb_some_refl. apply B; reflexivity.
        -- exact C.
        -- intros H d. rewrite fs_cons, K, k10. apply D; exact H.
      * eapply inv_other_same_state; [exact K|exact NE|apply I].
  - (* first Check of this wrapper *)
    injection S as <- <-.
    assert (NK : has_key (Some (0%N, x)) prev = false) by (rewrite <- A; reflexivity).
    split.
    + unfold sticky. rewrite K, fs_nokey by exact NK. reflexivity.
    + intro x'. destruct (N.eq_dec x' x) as [->|NE].
      * unfold inv_x. rewrite tget_tset_same. cbn [t_checked t_checkok t_signok].
        rewrite !has_key_cons, K, tkey_eqb_some_refl, k10. cbn [orb].
        repeat split.
        -- intros _ d. rewrite fs_cons, K, tkey_eqb_some_refl, fs_nokey by exact NK. reflexivity.
        -- exact C.
        -- intros H d. rewrite fs_cons, K, k10. apply D; exact H.
      * eapply inv_other; [exact K|exact NE|apply I].
Qed.

Lemma step_sign : forall tc prev st x h st' a,
  inv tc prev st -> tstep tc st (TSign x h) = (st', a) ->
  a = sticky tc prev (TSign x h) /\ inv tc (TSign x h :: prev) st'.
Proof.
  intros tc prev st x h st' a I S.
  set (o := TSign x h) in *.
  assert (K : tkey o = Some (1%N, x)) by reflexivity.
  pose proof (I x) as Ix. unfold inv_x in Ix. destruct Ix as (A & B & C & D).
  cbn [tstep o] in S. fold o in S.
  destruct (N.eqb (t_signok (tget x st)) 0) eqn:SK.
  - (* first CheckSign of this wrapper *)
    injection S as <- <-.
    assert (NK : has_key (Some (1%N, x)) prev = false).
    { destruct (has_key (Some (1%N, x)) prev); [discriminate C|reflexivity]. }
    split.
    + unfold sticky. rewrite K, fs_nokey by exact NK. reflexivity.
    + intro x'. destruct (N.eq_dec x' x) as [->|NE].
      * unfold inv_x. rewrite tget_tset_same. cbn [t_checked t_checkok t_signok].
        rewrite !has_key_cons, K, tkey_eqb_some_refl, k01. cbn [orb negb].
        repeat split.
        -- exact A.
        -- intros H d. rewrite fs_cons, K, k01. apply B; exact H.
        -- destruct (tx_sign tc (oshape tc x) h); reflexivity.
        -- intros _ d. rewrite fs_cons, K, tkey_eqb_some_refl, fs_nokey by exact NK.
           cbn [tspec o]. destruct (tx_sign tc (oshape tc x) h); reflexivity.
      * eapply inv_other; [exact K|exact NE|apply I].
  - (* memo hit *)
    injection S as <- <-.
    assert (HK : has_key (Some (1%N, x)) prev = true).
    { destruct (has_key (Some (1%N, x)) prev); [reflexivity|discriminate C]. }
    split.
    + unfold sticky. rewrite K. symmetry. apply D; exact HK.
    + intro x'. destruct (N.eq_dec x' x) as [->|NE].
      * unfold inv_x. rewrite !has_key_cons, K, tkey_eqb_some_refl, k01. cbn [orb negb].
        repeat split.
        -- exact A.
        -- intros H d. rewrite fs_cons, K, k01. apply B; exact H.
        -- exact SK.
        -- intros _ d. rewrite fs_cons, K, tkey_eqb_some_refl. apply D; exact HK.
      * eapply inv_other_same_state; [exact K|exact NE|apply I].
Qed.

Lemma has_key_none : forall prev, has_key None prev = false.
Proof. induction prev as [|p tl IH]; [reflexivity|]. cbn [has_key existsb]. exact IH. Qed.

Lemma sticky_nokey : forall tc prev o, tkey o = None -> sticky tc prev o = tspec tc o.
Proof.
  intros tc prev o K. unfold sticky. rewrite K, fs_nokey; [reflexivity|apply has_key_none].
Qed.

(** GetTotalFee may overwrite [checkok], but only with the verdict every Check
    of that wrapper has anyway (GetTxGroup failed) *)
Lemma step_fee : forall tc prev st x mi st' a,
  inv tc prev st -> tstep tc st (TFee x mi) = (st', a) ->
  a = sticky tc prev (TFee x mi) /\ inv tc (TFee x mi :: prev) st'.
Proof.
  intros tc prev st x mi st' a I S.
  set (o := TFee x mi) in *.
  assert (K : tkey o = None) by reflexivity.
  assert (ST : sticky tc prev o = tspec tc o) by (apply sticky_nokey; exact K).
  cbn [tstep o] in S. fold o in S.
  destruct (oshape tc x) as [e|m|ms stc] eqn:SH.
  - (* GetTxGroup fails: checkok := e *)
    cbn [tx_total_fee] in S. injection S as <- <-. split.
    + rewrite ST. cbn [tspec o]. rewrite SH. reflexivity.
    + intro x'. destruct (N.eq_dec x' x) as [->|NE].
      * pose proof (I x) as Ix. unfold inv_x in Ix. destruct Ix as (A & B & C & D).
        unfold inv_x. rewrite tget_tset_same. cbn [t_checked t_checkok t_signok].
        rewrite !has_key_cons, K, !tkey_eqb_none_r. cbn [orb].
        repeat split.
        -- exact A.
        -- intros H d. rewrite fs_cons, K, tkey_eqb_none_r.
           assert (HK : has_key (Some (0%N, x)) prev = true) by (rewrite <- A; exact H).
           pose proof (fs_key _ _ d HK) as FK.
           destruct (first_same (Some (0%N, x)) prev d) as [y h' mi' ma'|y h'|y mi'|t h' mi' ma'|t h'];
             cbn [tkey] in FK; try discriminate FK.
           injection FK as ->. cbn [tspec]. rewrite SH. reflexivity.
        -- exact C.
        -- intros H d. rewrite fs_cons, K, tkey_eqb_none_r. apply D; exact H.
      * pose proof (I x') as Ix. unfold inv_x in *. rewrite tget_tset_other by exact NE.
        rewrite !has_key_cons, K, !tkey_eqb_none_r. cbn [orb].
        destruct Ix as (A & B & C & D). repeat split; assumption.
  - destruct (tx_total_fee (SSingle m) mi) as [e v] eqn:TF. injection S as <- <-. split.
    + rewrite ST. cbn [tspec o]. rewrite SH, TF. reflexivity.
    + apply inv_nokey; [exact K|exact I].
  - destruct (tx_total_fee (SGroup ms stc) mi) as [e v] eqn:TF. injection S as <- <-. split.
    + rewrite ST. cbn [tspec o]. rewrite SH, TF. reflexivity.
    + apply inv_nokey; [exact K|exact I].
Qed.

Lemma step_sticky : forall tc prev st o st' a,
  inv tc prev st -> tstep tc st o = (st', a) ->
  a = sticky tc prev o /\ inv tc (o :: prev) st'.
Proof.
  intros tc prev st o st' a I S. destruct o as [x h mi ma|x h|x mi|t h mi ma|t h].
  - eapply step_check; eassumption.
  - eapply step_sign; eassumption.
  - eapply step_fee; eassumption.
  - cbn [tstep] in S. injection S as <- <-. split.
    + rewrite sticky_nokey by reflexivity. reflexivity.
    + apply inv_nokey; [reflexivity|exact I].
  - cbn [tstep] in S. injection S as <- <-. split.
    + rewrite sticky_nokey by reflexivity. reflexivity.
    + apply inv_nokey; [reflexivity|exact I].
Qed.

Lemma run_sticky : forall tc ops prev st,
  inv tc prev st -> trun tc st ops = sticky_run tc prev ops.
Proof.
  intros tc ops; induction ops as [|o tl IH]; intros prev st I; [reflexivity|].
  cbn [trun sticky_run]. destruct (tstep tc st o) as [st' a] eqn:S.
  destruct (step_sticky _ _ _ _ _ _ I S) as [-> I']. f_equal. apply IH; exact I'.
Qed.

(** the exact characterisation: every answer is the verdict of the first call
    of the same method on the same wrapper *)
Lemma first_verdict_sticks : forall tc ops, trun tc [] ops = sticky_run tc [] ops.
Proof. intros; apply run_sticky; apply inv_init. Qed.
