(** C19 — model of [types.TransactionCache] (types/tx.go), the wrapper the
    mempool creates around a submitted transaction, and of the checks it
    memoises.

    Go code modelled (as it is):
    - TransactionCache.Check(cfg, height, minfee, maxFee): the FIRST call sets
      [checked] and stores the verdict in [checkok]; every later call returns
      [checkok] whatever its arguments are;
    - TransactionCache.CheckSign(height): the FIRST call moves [signok] from 0
      to 1 (ok) or 2 (bad); later calls return [signok == 1];
    - TransactionCache.GetTotalFee(minFee): writes [checkok] (not [checked])
      when GetTxGroup fails;
    - the memoised functions themselves: Transaction.GetTxGroup (shape of the
      wrapped transaction), Transaction.check (chain id under
      ForkTxChainIDStrict, minfee = 0 early return, GetRealFee with int64
      wrap-around, fee too low, fee too high under ForkBlockCheck, chain id),
      Transactions.Check / CheckWithFork (member checks with minfee 0, the
      para rules under ForkTxGroupPara, member fees zero, total fee of the
      head, then the structural header/count/next loop), Transaction.checkSign
      / Transactions.CheckSign -> types.CheckSign -> crypto.Load(name, height)
      with the sign type reduced by ExtractCryptoID.

    Abstracted (oracle data supplied with every case; the theorems quantify
    over it): per member transaction its ChainID and Fee fields, its size in
    fee units ([Size/1000+1], [None] = larger than MaxTxSize), its signature
    (number of a signed payload: raw sign type + "verifies when the driver is
    loaded"), its para title; per group the verdict of the structural loop
    (hash comparisons; independent of the call's arguments).
    Proto decoding never yields a nil group member, so ErrTxGroupEmpty is
    unreachable through a TransactionCache and not modelled. *)
From Coq Require Import List ZArith NArith Bool.
From C33 Require Import Lib.Harness C19.Model.
Import ListNotations.
Open Scope Z_scope.

(** ** error classes of Check *)
Inductive terr :=
| TNil | TGroupCount | TDecode | TNormalTx | TChainID | TFeeLow | TFeeHigh | TTooBig
| TLessThanTwo | TParaCount | TParaMixed | TFeeNotZero | TGroupHeader | TCountBig
| TGroupNext | TOther.

Definition terr_code (e : terr) : N :=
  match e with
  | TNil => 0 | TGroupCount => 1 | TDecode => 2 | TNormalTx => 3 | TChainID => 4 | TFeeLow => 5
  | TFeeHigh => 6 | TTooBig => 7 | TLessThanTwo => 8 | TParaCount => 9 | TParaMixed => 10
  | TFeeNotZero => 11 | TGroupHeader => 12 | TCountBig => 13 | TGroupNext => 14 | TOther => 15
  end%N.
Definition terr_eqb (a b : terr) : bool := N.eqb (terr_code a) (terr_code b).
Definition tnil (e : terr) : bool := terr_eqb e TNil.

(** ** one (member) transaction *)
Record mtx := mkM {
  m_chain : Z;            (* ChainID field *)
  m_fee   : Z;            (* Fee field *)
  m_units : option Z;     (* Size/1000+1 (300 bytes added when unsigned); None = ErrTxMsgSizeTooBig *)
  m_sig   : option N;     (* None = no Signature; Some k = signed payload number k *)
  m_title : option N;     (* GetParaExecTitleName: Some title number *)
  m_para  : bool          (* IsParaExecName *)
}.

(** Transaction.GetTxGroup of the wrapped transaction *)
Inductive shape :=
| SErr (e : terr)                        (* ErrTxGroupCount / ErrNomalTx / proto decode error (harness class TOther) *)
| SSingle (m : mtx)
| SGroup (ms : list mtx) (st : terr).    (* decoded members; verdict of the structural loop *)

(** ** configuration *)
Record tconfig := mkTc {
  tc_cry    : list (N * (bool * Z));     (* crypto drivers: type id, (enabled, enable height) *)
  tc_sig    : N -> option (Z * bool);    (* signed payload -> raw sign type, verifies when loaded *)
  tc_fok    : N -> bool;                 (* signed payload -> a sender address can be derived (Transaction.fromAddr,
                                            909acb0: address id of the sign type registered, driver converts the key) *)
  tc_chain  : Z;                         (* cfg.GetChainID() *)
  tc_strict : Z;                         (* ForkTxChainIDStrict *)
  tc_bcheck : Z;                         (* ForkBlockCheck *)
  tc_gpara  : Z;                         (* ForkTxGroupPara *)
  tc_tx     : N -> shape;                (* transaction number -> shape *)
  tc_obj    : N -> N                     (* wrapper object -> transaction number *)
}.

(** ** int64 arithmetic *)
Definition two63 : Z := 9223372036854775808.
Definition wrap64 (z : Z) : Z := (z + two63) mod (2 * two63) - two63.

(** ** signature check *)

(** types.ExtractCryptoID: signID & 0x3fff8fff *)
Definition crypto_id (ty : Z) : N := Z.to_N (Z.land ty 1073713151).

(** crypto.Load(name, h): ErrUnknownDriver / WithLoadOptionEnableCheck *)
Definition load_ok (tc : tconfig) (d : N) (h : Z) : bool :=
  match assocC d (tc_cry tc) with
  | None => false
  | Some (en, eh) => if h <? 0 then true else en && (0 <=? eh) && (eh <=? h)
  end.

(** Transaction.checkSign *)
Definition msign (tc : tconfig) (h : Z) (m : mtx) : bool :=
  match m_sig m with
  | None => false
  | Some k => match tc_sig tc k with
              | None => false
              | Some (ty, okv) => tc_fok tc k && (load_ok tc (crypto_id ty) h && okv)
              end
  end.

(** TransactionCache.CheckSign on a fresh wrapper *)
Definition tx_sign (tc : tconfig) (s : shape) (h : Z) : bool :=
  match s with
  | SErr _ => false
  | SSingle m => msign tc h m
  | SGroup ms _ => forallb (msign tc h) ms
  end.

(** ** Transaction.check *)
Definition real_fee (m : mtx) (minfee : Z) : option Z :=
  match m_units m with
  | None => None
  | Some u => Some (wrap64 (u * minfee))
  end.

Definition check1 (tc : tconfig) (m : mtx) (h minfee maxfee : Z) : terr :=
  if is_fork h (tc_strict tc) && negb (m_chain m =? tc_chain tc) then TChainID
  else if minfee =? 0 then TNil
  else match real_fee m minfee with
       | None => TTooBig
       | Some rf =>
           if m_fee m <? rf then TFeeLow
           else if (maxfee <? m_fee m) && (0 <? maxfee) && is_fork h (tc_bcheck tc) then TFeeHigh
           else if negb (m_chain m =? tc_chain tc) then TChainID
           else TNil
       end.

(** ** Transactions.CheckWithFork *)
Fixpoint first_err (l : list terr) : terr :=
  match l with
  | [] => TNil
  | e :: tl => if tnil e then first_err tl else e
  end.

Fixpoint titles (ms : list mtx) (acc : list N) : list N :=
  match ms with
  | [] => acc
  | m :: tl => match m_title m with
               | Some t => if existsb (N.eqb t) acc then titles tl acc else titles tl (t :: acc)
               | None => titles tl acc
               end
  end.

(** the running int64 sum of the members' real fees; None = a member is too big *)
Fixpoint total_fee (ms : list mtx) (minfee acc : Z) : option Z :=
  match ms with
  | [] => Some acc
  | m :: tl => match real_fee m minfee with
               | None => None
               | Some f => total_fee tl minfee (wrap64 (acc + f))
               end
  end.

Definition group_check (tc : tconfig) (ms : list mtx) (st : terr) (h minfee maxfee : Z) : terr :=
  if (Z.of_nat (length ms) <? 2) then TLessThanTwo
  else
    let e1 := first_err (map (fun m => check1 tc m h 0 maxfee) ms) in
    if negb (tnil e1) then e1
    else
      let ts := titles ms [] in
      if is_fork h (tc_gpara tc) && (1 <? Z.of_nat (length ts)) then TParaCount
      else if is_fork h (tc_gpara tc) && (0 <? Z.of_nat (length ts))
              && existsb (fun m => negb (m_para m)) ms then TParaMixed
      else if existsb (fun m => negb (m_fee m =? 0)) (tl ms) then TFeeNotZero
      else match total_fee ms minfee 0 with
           | None => TTooBig
           | Some tot =>
               let f0 := match ms with m :: _ => m_fee m | [] => 0 end in
               if f0 <? tot then TFeeLow
               else if (maxfee <? f0) && (0 <? maxfee) && is_fork h (tc_bcheck tc) then TFeeHigh
               else st
           end.

(** Transaction.Check = what a fresh wrapper's Check computes *)
Definition tx_check (tc : tconfig) (s : shape) (h minfee maxfee : Z) : terr :=
  match s with
  | SErr e => e
  | SSingle m => check1 tc m h minfee maxfee
  | SGroup ms st => group_check tc ms st h minfee maxfee
  end.

(** TransactionCache.GetTotalFee: error class and value *)
Definition tx_total_fee (s : shape) (minfee : Z) : terr * Z :=
  match s with
  | SErr e => (e, 0)
  | SSingle m => match real_fee m minfee with None => (TTooBig, 0) | Some f => (TNil, f) end
  | SGroup ms _ => match total_fee ms minfee 0 with None => (TTooBig, 0) | Some f => (TNil, f) end
  end.

(** ** the wrapper's memo fields *)
Record tcs := mkTcs { t_signok : N; t_checked : bool; t_checkok : terr }.
Definition tcs0 : tcs := mkTcs 0 false TNil.

Definition tstate := list (N * tcs).

Fixpoint tget (x : N) (st : tstate) : tcs :=
  match st with
  | [] => tcs0
  | (y, s) :: tl => if N.eqb x y then s else tget x tl
  end.

Fixpoint tset (x : N) (s : tcs) (st : tstate) : tstate :=
  match st with
  | [] => [(x, s)]
  | (y, s') :: tl => if N.eqb x y then (y, s) :: tl else (y, s') :: tset x s tl
  end.

(** ** operations *)
Inductive top :=
| TCheck (x : N) (h minfee maxfee : Z)   (* TransactionCache.Check on wrapper x *)
| TSign (x : N) (h : Z)                  (* TransactionCache.CheckSign on wrapper x *)
| TFee (x : N) (minfee : Z)              (* TransactionCache.GetTotalFee on wrapper x *)
| XCheck (t : N) (h minfee maxfee : Z)   (* Transaction.Check on the bare transaction t *)
| XSign (t : N) (h : Z).                 (* bare signature check: Transaction.CheckSign of a
                                            single transaction / Transactions.CheckSign of the
                                            decoded group / false when GetTxGroup fails *)

Inductive tans :=
| TAErr (e : terr)
| TABool (b : bool)
| TAFee (e : terr) (v : Z).

Definition tans_eqb (a b : tans) : bool :=
  match a, b with
  | TAErr x, TAErr y => terr_eqb x y
  | TABool x, TABool y => Bool.eqb x y
  | TAFee e v, TAFee e' v' => terr_eqb e e' && (v =? v')
  | _, _ => false
  end.

Definition oshape (tc : tconfig) (x : N) : shape := tc_tx tc (tc_obj tc x).

Definition tstep (tc : tconfig) (st : tstate) (o : top) : tstate * tans :=
  match o with
  | TCheck x h mi ma =>
      let s := tget x st in
      if t_checked s then (st, TAErr (t_checkok s))
      else let v := tx_check tc (oshape tc x) h mi ma in
           (tset x (mkTcs (t_signok s) true v) st, TAErr v)
  | TSign x h =>
      let s := tget x st in
      if N.eqb (t_signok s) 0 then
        let b := tx_sign tc (oshape tc x) h in
        (tset x (mkTcs (if b then 1%N else 2%N) (t_checked s) (t_checkok s)) st, TABool b)
      else (st, TABool (N.eqb (t_signok s) 1))
  | TFee x mi =>
      let s := tget x st in
      let (e, v) := tx_total_fee (oshape tc x) mi in
      match oshape tc x with
      | SErr _ => (tset x (mkTcs (t_signok s) (t_checked s) e) st, TAFee e v)
      | _ => (st, TAFee e v)
      end
  | XCheck t h mi ma => (st, TAErr (tx_check tc (tc_tx tc t) h mi ma))
  | XSign t h => (st, TABool (tx_sign tc (tc_tx tc t) h))
  end.

Fixpoint trun (tc : tconfig) (st : tstate) (ops : list top) : list tans :=
  match ops with
  | [] => []
  | o :: tl => let (st', a) := tstep tc st o in a :: trun tc st' tl
  end.
