(** C19 — specification for the TransactionCache operations: every answer is
    a pure function of (wrapped transaction, call arguments, configuration).
    No memo field. *)
From Coq Require Import List ZArith NArith Bool.
From C33 Require Import Lib.Harness C19.Model C19.ModelTx.
Import ListNotations.
Open Scope Z_scope.

Definition tspec (tc : tconfig) (o : top) : tans :=
  match o with
  | TCheck x h mi ma => TAErr (tx_check tc (oshape tc x) h mi ma)
  | TSign x h => TABool (tx_sign tc (oshape tc x) h)
  | TFee x mi => let (e, v) := tx_total_fee (oshape tc x) mi in TAFee e v
  | XCheck t h mi ma => TAErr (tx_check tc (tc_tx tc t) h mi ma)
  | XSign t h => TABool (tx_sign tc (tc_tx tc t) h)
  end.

(** memo field an operation reads: (0, x) = checked/checkok of wrapper x,
    (1, x) = signok of wrapper x *)
Definition tkey (o : top) : option (N * N) :=
  match o with
  | TCheck x _ _ _ => Some (0%N, x)
  | TSign x _ => Some (1%N, x)
  | _ => None
  end.

Definition tkey_eqb (a b : option (N * N)) : bool :=
  match a, b with
  | Some (x1, x2), Some (y1, y2) => N.eqb x1 y1 && N.eqb x2 y2
  | _, _ => false
  end.

(** ** the guard: all checks of one wrapper by one method use arguments with
    the same spec verdict.  [prev] = the earlier operations, latest first. *)
Definition tconsistent (tc : tconfig) (prev : list top) (o : top) : bool :=
  forallb (fun o' => negb (tkey_eqb (tkey o) (tkey o')) || tans_eqb (tspec tc o) (tspec tc o')) prev.

Fixpoint tguard_from (tc : tconfig) (prev ops : list top) : bool :=
  match ops with
  | [] => true
  | o :: tl => tconsistent tc prev o && tguard_from tc (o :: prev) tl
  end.

Definition tguard_b (tc : tconfig) (ops : list top) : bool := tguard_from tc [] ops.

(** ** what the code really answers: the verdict of the FIRST call of the same
    method on the same wrapper ([prev] latest first) *)
Fixpoint first_same (k : option (N * N)) (prev : list top) (dflt : top) : top :=
  match prev with
  | [] => dflt
  | o' :: tl => if tkey_eqb k (tkey o') then first_same k tl o' else first_same k tl dflt
  end.

Definition sticky (tc : tconfig) (prev : list top) (o : top) : tans :=
  tspec tc (first_same (tkey o) prev o).

Fixpoint sticky_run (tc : tconfig) (prev ops : list top) : list tans :=
  match ops with
  | [] => []
  | o :: tl => sticky tc prev o :: sticky_run tc (o :: prev) tl
  end.

(** ** the use the mempool makes of a wrapper: no memo field is read twice *)
Fixpoint single_use_from (prev ops : list top) : bool :=
  match ops with
  | [] => true
  | o :: tl => forallb (fun o' => negb (tkey_eqb (tkey o) (tkey o'))) prev
               && single_use_from (o :: prev) tl
  end.

Definition single_use_b (ops : list top) : bool := single_use_from [] ops.
