(** C19 — model of the validity checks that sit behind process-wide caches.

    Go code modelled (as it is):
    - common/address/address.go  CheckAddress: an LRU cache keyed by the address
      string only, then a loop over the driver *map* (iteration order = the
      [perm] argument) that skips drivers not enabled at the block height,
      stops at the first accepting driver and otherwise keeps the error of the
      last enabled driver visited; the result (also [nil]) is stored in the cache;
    - common/address/driver.go   isEnable;
    - system/dapp/driver.go      CheckAddress: IsDriverAddress short cut, then the
      pre-fork exceptions that compare the returned error by identity;
    - common/address/address.go  PubKeyToAddr (negative id = default driver,
      unknown id panics) and system/address/{btc,eth}: a per-driver LRU cache
      keyed by the public key only, in front of the formatting; the eth
      formatting lower-cases when the crypto context has no API or
      ForkFormatAddressKey is active at the context's current height;
    - types.CheckSign / crypto.Load: crypto driver enabled at the height;
    - Transaction.From / fromAddr (repaired in 909acb0): "" instead of a panic
      when the address id of the sign type has no registered driver or the
      driver cannot convert the key; Transaction.checkSign refuses such a
      signature, and converts the public key (through the driver's cache) as
      a side effect.

    Abstracted (oracle tables supplied with every case; function arguments of
    the model, the theorems quantify over them): the per-driver ValidateAddr
    result of an address string, the unformatted address of a public key,
    whether a signature verifies when the driver is loaded.  Address strings,
    public keys and signed payloads are named by small numbers (distinct
    strings get distinct numbers). *)
From Coq Require Import List ZArith NArith Bool.
From C33 Require Import Lib.Harness.
Import ListNotations.
Open Scope Z_scope.

Definition bytes := list N.

(** ** error classes *)
Inductive err :=
| ENil            (* nil *)
| EDecode         (* address.ErrDecodeBase58 *)
| ELength         (* address.ErrAddressLength *)
| EVersion        (* address.ErrCheckVersion *)
| ECheckChecksum  (* address.ErrCheckChecksum *)
| EAddrChecksum   (* address.ErrAddressChecksum *)
| EInvalidEth     (* eth.ErrInvalidEthAddr *)
| EAddrType       (* btc.errAddressType (utxo driver) *)
| EOther.         (* anything else *)

Definition err_code (e : err) : N :=
  match e with
  | ENil => 0 | EDecode => 1 | ELength => 2 | EVersion => 3 | ECheckChecksum => 4
  | EAddrChecksum => 5 | EInvalidEth => 6 | EAddrType => 7 | EOther => 8
  end%N.
Definition err_eqb (a b : err) : bool := N.eqb (err_code a) (err_code b).
Definition is_nil (e : err) : bool := err_eqb e ENil.

(** ** answers of the observed calls *)
Inductive ans :=
| AErr (e : err)        (* CheckAddress *)
| AStr (s : bytes)      (* PubKeyToAddr / Transaction.From *)
| ABool (b : bool)      (* CheckSign *)
| APanic.

Definition ans_eqb (a b : ans) : bool :=
  match a, b with
  | AErr x, AErr y => err_eqb x y
  | AStr x, AStr y => bytes_eqb x y
  | ABool x, ABool y => Bool.eqb x y
  | APanic, APanic => true
  | _, _ => false
  end.

(** ** configuration (node configuration + oracle tables) *)
Record config := mkCfg {
  c_drv    : list (N * Z);        (* address drivers: id, enable height (registration order) *)
  c_val    : N -> N -> err;       (* ValidateAddr of driver id on address number *)
  c_fmulti : Z;                   (* ForkMultiSignAddress *)
  c_fb58   : Z;                   (* ForkBase58AddressCheck *)
  c_ffmt   : Z;                   (* ForkFormatAddressKey *)
  c_api    : bool;                (* the crypto context has a queue API *)
  c_exec   : list (N * Z);        (* registered exec-driver addresses: address number, height *)
  c_cap    : N;                   (* capacity of checkAddressCache *)
  c_pcap   : N -> N;              (* capacity of a driver's pubkey cache *)
  c_def    : N;                   (* default address driver id *)
  c_raw    : N -> N -> option bytes; (* unformatted address of driver id for pubkey number; None = panics *)
  c_eth    : N;                   (* id of the driver whose formatting depends on the fork *)
  c_cry    : list (N * (bool * Z));  (* crypto drivers: id, (enabled, enable height) *)
  c_sig    : N -> option (N * bool); (* signed payload number -> crypto driver id, verifies *)
  c_sfrom  : N -> option (N * N)     (* signed payload number -> address id of the sign type, public key number *)
}.

(** ** LRU cache (hashicorp/golang-lru simplelru): most recent first *)
Section LRU.
  Context {V : Type}.
  Definition lru := list (N * V).

  Fixpoint lru_find (k : N) (l : lru) : option V :=
    match l with
    | [] => None
    | (k', v) :: tl => if N.eqb k k' then Some v else lru_find k tl
    end.

  Fixpoint lru_remove (k : N) (l : lru) : lru :=
    match l with
    | [] => []
    | (k', v) :: tl => if N.eqb k k' then tl else (k', v) :: lru_remove k tl
    end.

  (* Get: a hit moves the entry to the front *)
  Definition lru_get (k : N) (l : lru) : option (V * lru) :=
    match lru_find k l with
    | Some v => Some (v, (k, v) :: lru_remove k l)
    | None => None
    end.

  (* Add: update + move to front, or push front and evict the oldest when over capacity *)
  Definition lru_add (cap : N) (k : N) (v : V) (l : lru) : lru :=
    match lru_find k l with
    | Some _ => (k, v) :: lru_remove k l
    | None =>
        let l' := (k, v) :: l in
        if N.ltb cap (N.of_nat (length l')) then removelast l' else l'
    end.
End LRU.
Arguments lru V : clear implicits.

(** ** driver enablement (driver.go isEnable) *)
Definition is_enable (h en : Z) : bool :=
  if h <? 0 then true
  else if (en <? 0) || (h <? en) then false
  else true.

(** types.Forks.IsFork *)
Definition is_fork (h fk : Z) : bool := (h =? -1) || (fk <=? h).

(** ** the driver loop of CheckAddress; [ds] is the iteration order, [e] the
    value of the named result so far *)
Fixpoint loop (val : N -> err) (h : Z) (ds : list (N * Z)) (e : err) : err :=
  match ds with
  | [] => e
  | (d, en) :: tl =>
      if is_enable h en then
        let e' := val d in
        if is_nil e' then ENil else loop val h tl e'
      else loop val h tl e
  end.

Definition miss_result (c : config) (perm : list (N * Z)) (a : N) (h : Z) : err :=
  loop (fun d => c_val c d a) h perm ENil.

(** ** process state: the caches *)
Record state := mkSt {
  s_chk : lru err;                 (* checkAddressCache *)
  s_pub : list (N * lru bytes)     (* per-driver pubkey caches *)
}.
Definition st0 : state := mkSt [] [].

(** address.CheckAddress; [e] is what the driver loop returns if it runs (cache miss) *)
Definition check_address_v (c : config) (st : state) (a : N) (e : err) : state * err :=
  match lru_get a (s_chk st) with
  | Some (v, l') => (mkSt l' (s_pub st), v)
  | None => (mkSt (lru_add (c_cap c) a e (s_chk st)) (s_pub st), e)
  end.

Definition check_address (c : config) (st : state) (perm : list (N * Z)) (a : N) (h : Z)
  : state * err :=
  check_address_v c st a (miss_result c perm a h).

Fixpoint assocZ (k : N) (l : list (N * Z)) : option Z :=
  match l with
  | [] => None
  | (k', v) :: tl => if N.eqb k k' then Some v else assocZ k tl
  end.

(** dapp.IsDriverAddress *)
Definition is_drv_addr (c : config) (a : N) (h : Z) : bool :=
  match assocZ a (c_exec c) with
  | None => false
  | Some ch => (ch <=? h) || (h =? -1)
  end.

(** the error-identity dependent exceptions of dapp.CheckAddress *)
Definition dapp_post (c : config) (h : Z) (e : err) : err :=
  if negb (is_fork h (c_fmulti c)) && err_eqb e EVersion then ENil
  else if negb (is_fork h (c_fb58 c)) && err_eqb e EAddrChecksum then ENil
  else e.

Definition dapp_check_v (c : config) (st : state) (a : N) (h : Z) (e : err) : state * err :=
  if is_drv_addr c a h then (st, ENil)
  else let (st', e') := check_address_v c st a e in (st', dapp_post c h e').

Definition dapp_check (c : config) (st : state) (perm : list (N * Z)) (a : N) (h : Z)
  : state * err :=
  dapp_check_v c st a h (miss_result c perm a h).

(** ** PubKeyToAddr *)
Definition lower_byte (b : N) : N :=
  if (65 <=? b)%N && (b <=? 90)%N then (b + 32)%N else b.
Definition lower (s : bytes) : bytes := map lower_byte s.

(** formatting applied on a cache miss; only the eth driver's depends on the context height *)
Definition fmt (c : config) (d : N) (h : Z) (raw : bytes) : bytes :=
  if N.eqb d (c_eth c) then
    if negb (c_api c) || is_fork h (c_ffmt c) then lower raw else raw
  else raw.

Fixpoint pc_find (d : N) (l : list (N * lru bytes)) : lru bytes :=
  match l with
  | [] => []
  | (d', x) :: tl => if N.eqb d d' then x else pc_find d tl
  end.
Fixpoint pc_set (d : N) (x : lru bytes) (l : list (N * lru bytes)) : list (N * lru bytes) :=
  match l with
  | [] => [(d, x)]
  | (d', y) :: tl => if N.eqb d d' then (d, x) :: tl else (d', y) :: pc_set d x tl
  end.

Definition has_drv (c : config) (d : N) : bool :=
  existsb (fun p => N.eqb (fst p) d) (c_drv c).

Definition resolve_drv (c : config) (d : Z) : N := if d <? 0 then c_def c else Z.to_N d.

(** the driver [id] converting public key [p] with the crypto context at height [h] *)
Definition pub_to_addr_id (c : config) (st : state) (id : N) (p : N) (h : Z) : state * ans :=
  if negb (has_drv c id) then (st, APanic)            (* MustLoadDriver *)
  else match c_raw c id p with
  | None => (st, APanic)                              (* "implement me" *)
  | Some raw =>
      let l := pc_find id (s_pub st) in
      match lru_get p l with
      | Some (v, l') => (mkSt (s_chk st) (pc_set id l' (s_pub st)), AStr v)
      | None =>
          let v := fmt c id h raw in
          (mkSt (s_chk st) (pc_set id (lru_add (c_pcap c id) p v l) (s_pub st)), AStr v)
      end
  end.

(** address.PubKeyToAddr(d, pub) with the crypto context at height [h] *)
Definition pub_to_addr (c : config) (st : state) (d : Z) (p : N) (h : Z) : state * ans :=
  pub_to_addr_id c st (resolve_drv c d) p h.

(** Transaction.fromAddr (since 909acb0): address.LoadDriver(id, -1) and the
    driver's PubKeyToAddr with a panic confined; [None] = no sender address.
    The conversion goes through the driver's cache like any other. *)
Definition from_addr (c : config) (st : state) (d : N) (p : N) (h : Z) : state * option bytes :=
  let (st', a) := pub_to_addr_id c st d p h in
  (st', match a with AStr s => Some s | _ => None end).

(** whether a sender address can be derived at all (independent of caches and heights) *)
Definition from_ok (c : config) (d p : N) : bool :=
  has_drv c d && match c_raw c d p with Some _ => true | None => false end.

(** ** types.CheckSign: crypto.Load with WithLoadOptionEnableCheck *)
Fixpoint assocC (k : N) (l : list (N * (bool * Z))) : option (bool * Z) :=
  match l with
  | [] => None
  | (k', v) :: tl => if N.eqb k k' then Some v else assocC k tl
  end.

Definition crypto_enabled (c : config) (d : N) (h : Z) : bool :=
  match assocC d (c_cry c) with
  | None => false                                     (* ErrUnknownDriver *)
  | Some (en, eh) => if h <? 0 then true else en && (0 <=? eh) && (eh <=? h)
  end.

Definition check_sign (c : config) (k : N) (h : Z) : bool :=
  match c_sig c k with
  | None => false
  | Some (d, okv) => crypto_enabled c d h && okv
  end.

(** ** operations and histories *)
Inductive op :=
| OCheck (a : N) (h : Z)              (* address.CheckAddress(a, h) *)
| ODapp (a : N) (h : Z)               (* dapp.CheckAddress(cfg, a, h) *)
| OPub (d : Z) (p : N) (h : Z)        (* address.PubKeyToAddr with the context at h *)
| OSign (k : N) (h : Z)               (* Transaction.CheckSign(h) with the context at h *)
| OFrom (d : N) (p : N) (h : Z).      (* Transaction.From(), address id d, with the context at h *)

(** one step, given the value [e] the driver loop yields should it run *)
Definition step_v (c : config) (st : state) (o : op) (e : err) : state * ans :=
  match o with
  | OCheck a h => let (st', e') := check_address_v c st a e in (st', AErr e')
  | ODapp a h => let (st', e') := dapp_check_v c st a h e in (st', AErr e')
  | OPub d p h => pub_to_addr c st d p h
  | OSign k h =>
      (* Signature nil -> false; fromAddr fails -> false; types.CheckSign *)
      match c_sfrom c k with
      | None => (st, ABool false)
      | Some (d, p) =>
          let (st', r) := from_addr c st d p h in
          (st', ABool (match r with None => false | Some _ => check_sign c k h end))
      end
  | OFrom d p h =>
      let (st', r) := from_addr c st d p h in
      (st', AStr (match r with None => [] | Some s => s end))
  end.

Definition op_miss (c : config) (o : op) (perm : list (N * Z)) : err :=
  match o with
  | OCheck a h | ODapp a h => miss_result c perm a h
  | _ => ENil
  end.

(** one step; [perm] is the map iteration order this call happens to see *)
Definition step (c : config) (st : state) (o : op) (perm : list (N * Z)) : state * ans :=
  step_v c st o (op_miss c o perm).

Fixpoint run (c : config) (st : state) (hist : list (op * list (N * Z))) : list ans :=
  match hist with
  | [] => []
  | (o, perm) :: tl => let (st', a) := step c st o perm in a :: run c st' tl
  end.

(** ** the closed form of what a cache miss can return over all iteration orders *)
Definition enabled_drivers (c : config) (h : Z) : list (N * Z) :=
  filter (fun p => is_enable h (snd p)) (c_drv c).

Definition possible (c : config) (a : N) (h : Z) : list err :=
  let en := enabled_drivers c h in
  if existsb (fun p => is_nil (c_val c (fst p) a)) en then [ENil]
  else match en with
       | [] => [ENil]
       | _ => map (fun p => c_val c (fst p) a) en
       end.
