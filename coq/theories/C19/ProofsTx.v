(** C19 — proofs about the TransactionCache model: the answers are exactly the
    verdicts of the first call per (wrapper, method); history independence holds
    iff the guard holds. *)
From Coq Require Import List ZArith NArith Bool Lia.
From C33 Require Import Lib.Harness C19.Model C19.ModelTx C19.SpecTx.
Import ListNotations.
Open Scope Z_scope.

(** ** equality tests *)
Lemma terr_eqb_eq : forall a b, terr_eqb a b = true -> a = b.
Proof. intros a b; destruct a, b; cbv; congruence. Qed.

Lemma terr_eqb_refl : forall a, terr_eqb a a = true.
Proof. destruct a; reflexivity. Qed.

Lemma tans_eqb_eq : forall a b, tans_eqb a b = true -> a = b.
Proof.
  intros a b; destruct a as [e|x|e v], b as [e'|y|e' v']; cbn [tans_eqb]; try discriminate; intro H.
  - apply terr_eqb_eq in H; congruence.
  - apply Bool.eqb_prop in H; congruence.
  - apply andb_true_iff in H as [H1 H2]. apply terr_eqb_eq in H1. apply Z.eqb_eq in H2. congruence.
Qed.

Lemma tans_eqb_refl : forall a, tans_eqb a a = true.
Proof.
  destruct a as [e|x|e v]; cbn [tans_eqb].
  - apply terr_eqb_refl.
  - apply Bool.eqb_reflx.
  - rewrite terr_eqb_refl, Z.eqb_refl; reflexivity.
Qed.

Lemma tkey_eqb_eq : forall a b, tkey_eqb a b = true -> a = b.
Proof.
  intros [[a1 a2]|] [[b1 b2]|]; cbn [tkey_eqb]; try discriminate; intro H.
  apply andb_true_iff in H as [H1 H2]. apply N.eqb_eq in H1. apply N.eqb_eq in H2. congruence.
Qed.

Lemma tkey_eqb_some_refl : forall p, tkey_eqb (Some p) (Some p) = true.
Proof. intros [a b]; cbn [tkey_eqb]; rewrite !N.eqb_refl; reflexivity. Qed.

Lemma tkey_eqb_none_l : forall b, tkey_eqb None b = false.
Proof. reflexivity. Qed.

Lemma tkey_eqb_none_r : forall a, tkey_eqb a None = false.
Proof. intros [[a1 a2]|]; reflexivity. Qed.

(** ** the memo store *)
Lemma tget_tset_same : forall x s st, tget x (tset x s st) = s.
Proof.
  intros x s st; induction st as [|[y s'] tl IH]; cbn [tset tget].
  - rewrite N.eqb_refl; reflexivity.
  - destruct (N.eqb x y) eqn:E; cbn [tget]; rewrite E; [reflexivity|exact IH].
Qed.

Lemma tget_tset_other : forall x x' s st, x' <> x -> tget x' (tset x s st) = tget x' st.
Proof.
  intros x x' s st NE; induction st as [|[y s'] tl IH]; cbn [tset tget].
  - destruct (N.eqb x' x) eqn:E; [apply N.eqb_eq in E; contradiction|reflexivity].
  - destruct (N.eqb x y) eqn:E; cbn [tget].
    + apply N.eqb_eq in E; subst y.
      destruct (N.eqb x' x) eqn:E'; [apply N.eqb_eq in E'; contradiction|reflexivity].
    + destruct (N.eqb x' y); [reflexivity|exact IH].
Qed.

(** ** first_same *)
Definition has_key (k : option (N * N)) (prev : list top) : bool :=
  existsb (fun o' => tkey_eqb k (tkey o')) prev.

Lemma fs_nokey : forall k prev d, has_key k prev = false -> first_same k prev d = d.
Proof.
  intros k prev; induction prev as [|o' tl IH]; intros d H; cbn [first_same]; [reflexivity|].
  cbn [has_key existsb] in H. apply orb_false_iff in H as [H1 H2].
  rewrite H1. apply IH; exact H2.
Qed.

Lemma fs_haskey : forall k prev d1 d2, has_key k prev = true ->
  first_same k prev d1 = first_same k prev d2.
Proof.
  intros k prev; induction prev as [|o' tl IH]; intros d1 d2 H; [discriminate|].
  cbn [first_same]. cbn [has_key existsb] in H.
  destruct (tkey_eqb k (tkey o')) eqn:E; [reflexivity|].
  apply IH; exact H.
Qed.

Lemma fs_key : forall k prev d, has_key k prev = true -> tkey (first_same k prev d) = k.
Proof.
  intros k prev; induction prev as [|o' tl IH]; intros d H; [discriminate|].
  cbn [first_same]. cbn [has_key existsb] in H.
  destruct (tkey_eqb k (tkey o')) eqn:E.
  - destruct (has_key k tl) eqn:HK.
    + apply IH; reflexivity.
    + rewrite fs_nokey by exact HK. symmetry; apply tkey_eqb_eq; exact E.
  - apply IH; exact H.
Qed.

Lemma fs_cons : forall k o prev d,
  first_same k (o :: prev) d = if tkey_eqb k (tkey o) then first_same k prev o else first_same k prev d.
Proof. reflexivity. Qed.

Lemma has_key_cons : forall k o prev, has_key k (o :: prev) = tkey_eqb k (tkey o) || has_key k prev.
Proof. reflexivity. Qed.

(** ** the invariant tying the memo fields to the operations done so far *)
Definition inv_x (tc : tconfig) (prev : list top) (st : tstate) (x : N) : Prop :=
  let s := tget x st in
  t_checked s = has_key (Some (0%N, x)) prev
  /\ (t_checked s = true -> forall d, tspec tc (first_same (Some (0%N, x)) prev d) = TAErr (t_checkok s))
  /\ N.eqb (t_signok s) 0 = negb (has_key (Some (1%N, x)) prev)
  /\ (has_key (Some (1%N, x)) prev = true ->
      forall d, tspec tc (first_same (Some (1%N, x)) prev d) = TABool (N.eqb (t_signok s) 1)).

Definition inv (tc : tconfig) (prev : list top) (st : tstate) : Prop := forall x, inv_x tc prev st x.

Lemma inv_init : forall tc, inv tc [] [].
Proof.
  intros tc x; unfold inv_x; cbn. repeat split; intros; discriminate.
Qed.

(** an operation that reads no memo field and leaves the fields alone *)
Lemma inv_nokey : forall tc prev st o, tkey o = None -> inv tc prev st -> inv tc (o :: prev) st.
Proof.
  intros tc prev st o K I x. specialize (I x). unfold inv_x in *.
  rewrite !has_key_cons, K, !tkey_eqb_none_r. cbn [orb].
  destruct I as (A & B & C & D). repeat split; try assumption.
  - intros H d. rewrite fs_cons, K, tkey_eqb_none_r. apply B; exact H.
  - intros H d. rewrite fs_cons, K, tkey_eqb_none_r. apply D; exact H.
Qed.

Lemma key_ne : forall a x x', x' <> x -> tkey_eqb (Some (a, x')) (Some (a, x)) = false.
Proof.
  intros a x x' NE; cbn [tkey_eqb]. destruct (N.eqb x' x) eqn:E.
  - apply N.eqb_eq in E; contradiction.
  - apply andb_false_r.
Qed.

(** an operation on wrapper [x] leaves the other wrappers' part of the invariant alone *)
Lemma inv_other : forall tc prev st o x x' s' a,
  tkey o = Some (a, x) -> x' <> x -> inv_x tc prev st x' ->
  inv_x tc (o :: prev) (tset x s' st) x'.
Proof.
  intros tc prev st o x x' s' a K NE I. unfold inv_x in *.
  rewrite tget_tset_other by exact NE.
  rewrite !has_key_cons, K.
  assert (E0 : tkey_eqb (Some (0%N, x')) (Some (a, x)) = false).
  { cbn [tkey_eqb]. destruct (N.eqb x' x) eqn:E; [apply N.eqb_eq in E; contradiction|apply andb_false_r]. }
  assert (E1 : tkey_eqb (Some (1%N, x')) (Some (a, x)) = false).
  { cbn [tkey_eqb]. destruct (N.eqb x' x) eqn:E; [apply N.eqb_eq in E; contradiction|apply andb_false_r]. }
  rewrite E0, E1. cbn [orb].
  destruct I as (A & B & C & D). repeat split; try assumption.
  - intros H d. rewrite fs_cons, K, E0. apply B; exact H.
  - intros H d. rewrite fs_cons, K, E1. apply D; exact H.
Qed.

Lemma inv_other_same_state : forall tc prev st o x x' a,
  tkey o = Some (a, x) -> x' <> x -> inv_x tc prev st x' -> inv_x tc (o :: prev) st x'.
Proof.
  intros tc prev st o x x' a K NE I. unfold inv_x in *.
  rewrite !has_key_cons, K.
  assert (E0 : tkey_eqb (Some (0%N, x')) (Some (a, x)) = false).
  { cbn [tkey_eqb]. destruct (N.eqb x' x) eqn:E; [apply N.eqb_eq in E; contradiction|apply andb_false_r]. }
  assert (E1 : tkey_eqb (Some (1%N, x')) (Some (a, x)) = false).
  { cbn [tkey_eqb]. destruct (N.eqb x' x) eqn:E; [apply N.eqb_eq in E; contradiction|apply andb_false_r]. }
  rewrite E0, E1. cbn [orb].
  destruct I as (A & B & C & D). repeat split; try assumption.
  - intros H d. rewrite fs_cons, K, E0. apply B; exact H.
  - intros H d. rewrite fs_cons, K, E1. apply D; exact H.
Qed.

Lemma k01 : forall x y, tkey_eqb (Some (0%N, x)) (Some (1%N, y)) = false.
Proof. reflexivity. Qed.
Lemma k10 : forall x y, tkey_eqb (Some (1%N, x)) (Some (0%N, y)) = false.
Proof. reflexivity. Qed.
