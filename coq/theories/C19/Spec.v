(** C19 — the specification: every answer is a pure function of
    (input, height, configuration).  No cache, no iteration order. *)
From Coq Require Import List ZArith NArith Bool.
From C33 Require Import Lib.Harness C19.Model.
Import ListNotations.
Open Scope Z_scope.

(** an address is valid at [h] iff an enabled driver accepts it (or no driver is enabled) *)
Definition spec_valid (c : config) (a : N) (h : Z) : bool :=
  let en := enabled_drivers c h in
  existsb (fun p => is_nil (c_val c (fst p) a)) en || Nat.eqb (length en) 0.

(** the error of an invalid address: the one of the lowest-id enabled driver
    (first in registration order) — one fixed choice among the drivers' errors.
    For the built-in drivers this is the btc driver's base58 error, i.e. what
    CheckAddress returned when btc was the only address format; the pre-fork
    exceptions of dapp.CheckAddress were written against that error. *)
Definition spec_under (c : config) (a : N) (h : Z) : err :=
  if spec_valid c a h then ENil
  else hd ENil (map (fun p => c_val c (fst p) a) (enabled_drivers c h)).

Definition spec_answer (c : config) (o : op) : ans :=
  match o with
  | OCheck a h => AErr (spec_under c a h)
  | ODapp a h =>
      AErr (if is_drv_addr c a h then ENil else dapp_post c h (spec_under c a h))
  | OPub d p h =>
      let id := resolve_drv c d in
      if negb (has_drv c id) then APanic
      else match c_raw c id p with
           | None => APanic
           | Some raw => AStr (fmt c id h raw)
           end
  | OSign k h =>
      ABool (match c_sfrom c k with
             | None => false
             | Some (d, p) => from_ok c d p && check_sign c k h
             end)
  | OFrom d p h =>
      if negb (has_drv c d) then AStr []
      else match c_raw c d p with
           | None => AStr []
           | Some raw => AStr (fmt c d h raw)
           end
  end.

(** ** guards of the partial theorems (boolean) *)

(** cache consulted by an operation: 0 = checkAddressCache, 1+id = pubkey cache of driver id *)
Definition op_key (c : config) (o : op) : option (N * N) :=
  match o with
  | OCheck a _ => Some (0%N, a)
  | ODapp a h => if is_drv_addr c a h then None else Some (0%N, a)
  | OPub d p _ =>
      let id := resolve_drv c d in
      if negb (has_drv c id) then None
      else match c_raw c id p with None => None | Some _ => Some ((1 + id)%N, p) end
  | OSign k _ =>
      match c_sfrom c k with
      | None => None
      | Some (d, p) => if negb (has_drv c d) then None
                       else match c_raw c d p with None => None | Some _ => Some ((1 + d)%N, p) end
      end
  | OFrom d p _ =>
      if negb (has_drv c d) then None
      else match c_raw c d p with None => None | Some _ => Some ((1 + d)%N, p) end
  end.

(** the value a cache miss of this operation stores, according to the spec *)
Definition op_under (c : config) (o : op) : ans :=
  match o with
  | OCheck a h | ODapp a h => AErr (spec_under c a h)
  | OSign k h =>
      match c_sfrom c k with
      | None => spec_answer c o
      | Some (d, p) => match c_raw c d p with
                       | None => spec_answer c o
                       | Some raw => AStr (fmt c d h raw)
                       end
      end
  | _ => spec_answer c o
  end.

Definition key_eqb (a b : option (N * N)) : bool :=
  match a, b with
  | Some (x1, x2), Some (y1, y2) => N.eqb x1 y1 && N.eqb x2 y2
  | _, _ => false
  end.

(** all enabled drivers that reject the address agree on the error *)
Definition unambiguous (c : config) (a : N) (h : Z) : bool :=
  forallb (fun e => err_eqb e (spec_under c a h)) (possible c a h).

Definition op_unambiguous (c : config) (o : op) : bool :=
  match o with
  | OCheck a h => unambiguous c a h
  | ODapp a h => is_drv_addr c a h || unambiguous c a h
  | _ => true
  end.

(** same cache key => same stored value *)
Definition consistent_with (c : config) (prev : list op) (o : op) : bool :=
  forallb (fun o' => negb (key_eqb (op_key c o) (op_key c o'))
                     || ans_eqb (op_under c o) (op_under c o')) prev.

Fixpoint guard_from (c : config) (prev ops : list op) : bool :=
  match ops with
  | [] => true
  | o :: tl => op_unambiguous c o && consistent_with c prev o && guard_from c (o :: prev) tl
  end.

(** guard of the exact theorem *)
Definition guard_b (c : config) (ops : list op) : bool := guard_from c [] ops.

(** validity level: nil / non-nil of an answer *)
Definition ans_valid (a : ans) : bool :=
  match a with AErr e => is_nil e | _ => false end.

(** operations whose validity the validity-level theorem speaks about:
    address.CheckAddress always; dapp.CheckAddress at heights where both
    error-identity exceptions are switched off *)
Definition vclaim (c : config) (o : op) : bool :=
  match o with
  | OCheck _ _ => true
  | ODapp _ h => is_fork h (c_fmulti c) && is_fork h (c_fb58 c)
  | _ => false
  end.

Definition vconsistent_with (c : config) (prev : list op) (o : op) : bool :=
  forallb (fun o' =>
    match o, o' with
    | (OCheck a h | ODapp a h), (OCheck a' h' | ODapp a' h') =>
        negb (N.eqb a a') || Bool.eqb (spec_valid c a h) (spec_valid c a' h')
    | _, _ => true
    end) prev.

Fixpoint vguard_from (c : config) (prev ops : list op) : bool :=
  match ops with
  | [] => true
  | o :: tl => vconsistent_with c prev o && vguard_from c (o :: prev) tl
  end.

(** guard of the validity-level theorem: no ambiguity condition *)
Definition vguard_b (c : config) (ops : list op) : bool := vguard_from c [] ops.

(** default configuration: every address driver enabled from height 0 *)
Definition all_zero (c : config) : bool := forallb (fun p => snd p =? 0) (c_drv c).


(** the guard in the shape of the property text: the heights of the pubkey
    conversions stay on one side of the formatting fork *)
Definition fmt_side_b (c : config) (side : bool) (ops : list op) : bool :=
  forallb (fun o => match o with
                    | OPub _ _ h | OFrom _ _ h | OSign _ h => Bool.eqb (is_fork h (c_ffmt c)) side
                    | _ => true
                    end) ops.

Definition all_unambiguous (c : config) (ops : list op) : bool := forallb (op_unambiguous c) ops.
