(** C19 — histories: under the guards every answer is the spec's pure function. *)
From Coq Require Import List ZArith NArith Bool Permutation Lia.
From C33 Require Import Lib.Harness C19.Model C19.Spec C19.ProofsLoop C19.ProofsLru.
Import ListNotations.
Open Scope Z_scope.

Lemma bytes_eqb_eq : forall a b, bytes_eqb a b = true <-> a = b.
Proof. apply list_eqb_spec. intros x y. apply N.eqb_eq. Qed.

Lemma ans_eqb_eq : forall a b, ans_eqb a b = true -> a = b.
Proof.
  intros [x|x|x|] [y|y|y|]; simpl; intro H; try discriminate; try reflexivity.
  - apply err_eqb_eq in H. congruence.
  - apply bytes_eqb_eq in H. congruence.
  - apply Bool.eqb_prop in H. congruence.
Qed.

Lemma key_eqb_refl_pair : forall x y, key_eqb (Some (x, y)) (Some (x, y)) = true.
Proof. intros. simpl. rewrite !N.eqb_refl. reflexivity. Qed.

Definition perms_ok (c : config) (hist : list (op * list (N * Z))) : Prop :=
  Forall (fun x => Permutation (snd x) (c_drv c)) hist.

(** ** the exact invariant: every cached value is the spec value of an earlier
    operation with the same cache key *)
Definition chk_ok (c : config) (prev : list op) (l : lru err) : Prop :=
  forall a v, lru_find a l = Some v ->
    exists o, In o prev /\ op_key c o = Some (0%N, a) /\ op_under c o = AErr v.

Definition pub_ok (c : config) (prev : list op) (pc : list (N * lru bytes)) : Prop :=
  forall id p v, lru_find p (pc_find id pc) = Some v ->
    exists o, In o prev /\ op_key c o = Some ((1 + id)%N, p) /\ op_under c o = AStr v.

Definition inv (c : config) (prev : list op) (st : state) : Prop :=
  chk_ok c prev (s_chk st) /\ pub_ok c prev (s_pub st).

Lemma chk_ok_mono : forall c prev o l, chk_ok c prev l -> chk_ok c (o :: prev) l.
Proof.
  intros c prev o l H a v F. destruct (H a v F) as [o' [Hin Hk]].
  exists o'. split; [right; exact Hin|exact Hk].
Qed.

Lemma pub_ok_mono : forall c prev o pc, pub_ok c prev pc -> pub_ok c (o :: prev) pc.
Proof.
  intros c prev o pc H id p v F. destruct (H id p v F) as [o' [Hin Hk]].
  exists o'. split; [right; exact Hin|exact Hk].
Qed.

Lemma inv_init : forall c, inv c [] st0.
Proof.
  intro c. split.
  - intros a v F. discriminate F.
  - intros id p v F. discriminate F.
Qed.

(** what [consistent_with] gives for one earlier operation with the same key *)
Lemma consistent_use : forall c prev o o',
  consistent_with c prev o = true -> In o' prev ->
  key_eqb (op_key c o) (op_key c o') = true -> op_under c o = op_under c o'.
Proof.
  intros c prev o o' H Hin Hk. unfold consistent_with in H.
  rewrite forallb_forall in H. specialize (H o' Hin). rewrite Hk in H. simpl in H.
  apply ans_eqb_eq; exact H.
Qed.

(** the cache part of CheckAddress, with a miss value equal to the spec's *)
Lemma check_v_exact : forall c prev st o a h,
  op_key c o = Some (0%N, a) -> op_under c o = AErr (spec_under c a h) ->
  inv c prev st -> consistent_with c prev o = true ->
  let r := check_address_v c st a (spec_under c a h) in
  snd r = spec_under c a h /\ inv c (o :: prev) (fst r).
Proof.
  intros c prev st o a h Hk Hu [Hc Hp] Hcons. unfold check_address_v.
  destruct (lru_get a (s_chk st)) as [[v l']|] eqn:G; simpl.
  - apply get_some in G as [F Hsub].
    destruct (Hc a v F) as [o' [Hin [Hk' Hu']]].
    assert (E : op_under c o = op_under c o').
    { apply (consistent_use c prev); [exact Hcons|exact Hin|].
      rewrite Hk, Hk'. apply key_eqb_refl_pair. }
    split.
    + rewrite Hu, Hu' in E. congruence.
    + split; simpl.
      * intros a2 v2 F2. apply Hsub in F2. exact (chk_ok_mono _ _ _ _ Hc _ _ F2).
      * apply pub_ok_mono; exact Hp.
  - split; [reflexivity|]. split; simpl.
    + intros a2 v2 F2. apply find_add in F2. destruct F2 as [[-> ->]|F2].
      * exists o. split; [left; reflexivity|]. split; [exact Hk|exact Hu].
      * exact (chk_ok_mono _ _ _ _ Hc _ _ F2).
    + apply pub_ok_mono; exact Hp.
Qed.

Lemma inv_mono : forall c prev o st, inv c prev st -> inv c (o :: prev) st.
Proof.
  intros c prev o st [Hc Hp]. split; [apply chk_ok_mono; exact Hc|apply pub_ok_mono; exact Hp].
Qed.

(** the cache part of a public-key conversion by driver [id] *)
Lemma pub_id_exact : forall c prev st o id p h raw,
  has_drv c id = true -> c_raw c id p = Some raw ->
  op_key c o = Some ((1 + id)%N, p) -> op_under c o = AStr (fmt c id h raw) ->
  inv c prev st -> consistent_with c prev o = true ->
  let r := pub_to_addr_id c st id p h in
  snd r = AStr (fmt c id h raw) /\ inv c (o :: prev) (fst r).
Proof.
  intros c prev st o id p h raw Hh Hr Hk Hu [Hc Hp] Hcons. unfold pub_to_addr_id.
  rewrite Hh, Hr. simpl negb. cbv iota.
  destruct (lru_get p (pc_find id (s_pub st))) as [[v l']|] eqn:G; simpl.
  - apply get_some in G as [F Hsub].
    destruct (Hp id p v F) as [o' [Hin [Hk' Hu']]].
    assert (E : op_under c o = op_under c o').
    { apply (consistent_use c prev); [exact Hcons|exact Hin|].
      rewrite Hk, Hk'. apply key_eqb_refl_pair. }
    split; [rewrite Hu, Hu' in E; congruence|].
    split; simpl; [apply chk_ok_mono; exact Hc|].
    intros id2 p2 v2 F2. destruct (N.eq_dec id2 id) as [->|Hne].
    + rewrite pc_find_set_same in F2. apply Hsub in F2.
      exact (pub_ok_mono _ _ _ _ Hp _ _ _ F2).
    + rewrite pc_find_set_other in F2 by exact Hne.
      exact (pub_ok_mono _ _ _ _ Hp _ _ _ F2).
  - split; [reflexivity|].
    split; simpl; [apply chk_ok_mono; exact Hc|].
    intros id2 p2 v2 F2. destruct (N.eq_dec id2 id) as [->|Hne].
    + rewrite pc_find_set_same in F2. apply find_add in F2.
      destruct F2 as [[-> ->]|F2].
      * exists o. split; [left; reflexivity|]. split; [exact Hk|exact Hu].
      * exact (pub_ok_mono _ _ _ _ Hp _ _ _ F2).
    + rewrite pc_find_set_other in F2 by exact Hne.
      exact (pub_ok_mono _ _ _ _ Hp _ _ _ F2).
Qed.

Lemma step_exact : forall c prev st o perm,
  Permutation perm (c_drv c) -> inv c prev st ->
  op_unambiguous c o = true -> consistent_with c prev o = true ->
  snd (step c st o perm) = spec_answer c o /\ inv c (o :: prev) (fst (step c st o perm)).
Proof.
  intros c prev st o perm P Hinv Hun Hcons. unfold step.
  destruct o as [a h|a h|d p h|k h|d p h]; simpl op_miss.
  - (* OCheck *)
    simpl in Hun. rewrite (miss_unambiguous c perm a h P Hun).
    pose proof (check_v_exact c prev st (OCheck a h) a h eq_refl eq_refl Hinv Hcons) as [H1 H2].
    unfold step_v. destruct (check_address_v c st a (spec_under c a h)) as [st' e'].
    simpl in *. split; [congruence|exact H2].
  - (* ODapp *)
    unfold step_v, dapp_check_v. simpl spec_answer.
    destruct (is_drv_addr c a h) eqn:Hd.
    + simpl. split; [reflexivity|]. destruct Hinv as [Hc Hp].
      split; [apply chk_ok_mono; exact Hc|apply pub_ok_mono; exact Hp].
    + simpl in Hun. rewrite Hd in Hun. simpl in Hun.
      rewrite (miss_unambiguous c perm a h P Hun).
      assert (Hk : op_key c (ODapp a h) = Some (0%N, a)) by (simpl; rewrite Hd; reflexivity).
      pose proof (check_v_exact c prev st (ODapp a h) a h Hk eq_refl Hinv Hcons) as [H1 H2].
      destruct (check_address_v c st a (spec_under c a h)) as [st' e'].
      simpl in *. split; [congruence|exact H2].
  - (* OPub *)
    unfold step_v, pub_to_addr. simpl spec_answer.
    set (id := resolve_drv c d) in *.
    destruct (has_drv c id) eqn:Hh.
    2:{ unfold pub_to_addr_id. rewrite Hh. simpl. split; [reflexivity|apply inv_mono; exact Hinv]. }
    destruct (c_raw c id p) as [raw|] eqn:Hr.
    2:{ unfold pub_to_addr_id. rewrite Hh, Hr. simpl. split; [reflexivity|apply inv_mono; exact Hinv]. }
    simpl negb. cbv iota.
    apply (pub_id_exact c prev st (OPub d p h) id p h raw Hh Hr); try assumption.
    + simpl. fold id. rewrite Hh, Hr. reflexivity.
    + simpl. fold id. rewrite Hh, Hr. reflexivity.
  - (* OSign *)
    unfold step_v. simpl spec_answer.
    destruct (c_sfrom c k) as [[d p]|] eqn:Hs.
    2:{ simpl. split; [reflexivity|apply inv_mono; exact Hinv]. }
    unfold from_addr, from_ok.
    destruct (has_drv c d) eqn:Hh.
    2:{ unfold pub_to_addr_id. rewrite Hh. simpl. split; [reflexivity|apply inv_mono; exact Hinv]. }
    destruct (c_raw c d p) as [raw|] eqn:Hr.
    2:{ unfold pub_to_addr_id. rewrite Hh, Hr. simpl. split; [reflexivity|apply inv_mono; exact Hinv]. }
    assert (Hk : op_key c (OSign k h) = Some ((1 + d)%N, p)).
    { simpl. rewrite Hs, Hh, Hr. reflexivity. }
    assert (Hu : op_under c (OSign k h) = AStr (fmt c d h raw)).
    { simpl. rewrite Hs, Hr. reflexivity. }
    pose proof (pub_id_exact c prev st (OSign k h) d p h raw Hh Hr Hk Hu Hinv Hcons) as [H1 H2].
    destruct (pub_to_addr_id c st d p h) as [st' a]. simpl in H1, H2. subst a.
    simpl. split; [reflexivity|exact H2].
  - (* OFrom *)
    unfold step_v. simpl spec_answer. unfold from_addr.
    destruct (has_drv c d) eqn:Hh.
    2:{ unfold pub_to_addr_id. rewrite Hh. simpl. split; [reflexivity|apply inv_mono; exact Hinv]. }
    destruct (c_raw c d p) as [raw|] eqn:Hr.
    2:{ unfold pub_to_addr_id. rewrite Hh, Hr. simpl. split; [reflexivity|apply inv_mono; exact Hinv]. }
    assert (Hk : op_key c (OFrom d p h) = Some ((1 + d)%N, p)).
    { simpl. rewrite Hh, Hr. reflexivity. }
    assert (Hu : op_under c (OFrom d p h) = AStr (fmt c d h raw)).
    { simpl. rewrite Hh, Hr. reflexivity. }
    pose proof (pub_id_exact c prev st (OFrom d p h) d p h raw Hh Hr Hk Hu Hinv Hcons) as [H1 H2].
    destruct (pub_to_addr_id c st d p h) as [st' a]. simpl in H1, H2. subst a.
    simpl. split; [reflexivity|exact H2].
Qed.

Lemma run_exact_gen : forall c hist prev st,
  perms_ok c hist -> inv c prev st -> guard_from c prev (map fst hist) = true ->
  run c st hist = map (spec_answer c) (map fst hist).
Proof.
  intros c hist. induction hist as [|[o perm] tl IH]; intros prev st Hp Hinv Hg.
  - reflexivity.
  - simpl in Hg. apply andb_true_iff in Hg as [Hg Hg3]. apply andb_true_iff in Hg as [Hg1 Hg2].
    inversion Hp as [|x l Hperm Hp']; subst. simpl in Hperm.
    pose proof (step_exact c prev st o perm Hperm Hinv Hg1 Hg2) as [H1 H2].
    simpl. destruct (step c st o perm) as [st' a]. simpl in *.
    rewrite H1. f_equal. apply (IH (o :: prev) st'); assumption.
Qed.

Theorem history_independent_partial : forall c hist,
  perms_ok c hist -> guard_b c (map fst hist) = true ->
  run c st0 hist = map (spec_answer c) (map fst hist).
Proof.
  intros c hist Hp Hg. apply (run_exact_gen c hist [] st0); [exact Hp|apply inv_init|exact Hg].
Qed.

(** ** validity level: nil / non-nil needs no condition on the errors *)

Definition addr_query (o : op) : option (N * Z) :=
  match o with
  | OCheck a h | ODapp a h => Some (a, h)
  | _ => None
  end.

Definition chk_okv (c : config) (prev : list op) (l : lru err) : Prop :=
  forall a v, lru_find a l = Some v ->
    exists o h0, In o prev /\ addr_query o = Some (a, h0) /\ is_nil v = spec_valid c a h0.

Lemma chk_okv_mono : forall c prev o l, chk_okv c prev l -> chk_okv c (o :: prev) l.
Proof.
  intros c prev o l H a v F. destruct (H a v F) as [o' [h0 [Hin Hk]]].
  exists o', h0. split; [right; exact Hin|exact Hk].
Qed.

Lemma vconsistent_use : forall c prev o o' a h h0,
  vconsistent_with c prev o = true -> In o' prev ->
  addr_query o = Some (a, h) -> addr_query o' = Some (a, h0) ->
  spec_valid c a h = spec_valid c a h0.
Proof.
  intros c prev o o' a h h0 H Hin Hq Hq'. unfold vconsistent_with in H.
  rewrite forallb_forall in H. specialize (H o' Hin).
  destruct o as [a1 h1|a1 h1| | |]; try discriminate Hq;
  destruct o' as [a2 h2|a2 h2| | |]; try discriminate Hq';
  simpl in Hq, Hq'; inversion Hq; inversion Hq'; subst;
  rewrite N.eqb_refl in H; simpl in H; apply Bool.eqb_prop in H; exact H.
Qed.

Lemma check_v_valid : forall c prev st o a h e,
  addr_query o = Some (a, h) -> is_nil e = spec_valid c a h ->
  chk_okv c prev (s_chk st) -> vconsistent_with c prev o = true ->
  let r := check_address_v c st a e in
  is_nil (snd r) = spec_valid c a h /\ chk_okv c (o :: prev) (s_chk (fst r)).
Proof.
  intros c prev st o a h e Hq He Hc Hcons. unfold check_address_v.
  destruct (lru_get a (s_chk st)) as [[v l']|] eqn:G; simpl.
  - apply get_some in G as [F Hsub].
    destruct (Hc a v F) as [o' [h0 [Hin [Hq' Hv]]]].
    split.
    + rewrite Hv. symmetry. apply (vconsistent_use c prev o o'); assumption.
    + intros a2 v2 F2. apply Hsub in F2. exact (chk_okv_mono _ _ _ _ Hc _ _ F2).
  - split; [exact He|].
    intros a2 v2 F2. apply find_add in F2. destruct F2 as [[-> ->]|F2].
    + exists o, h. split; [left; reflexivity|]. split; [exact Hq|exact He].
    + exact (chk_okv_mono _ _ _ _ Hc _ _ F2).
Qed.

Lemma dapp_post_forked : forall c h e,
  is_fork h (c_fmulti c) && is_fork h (c_fb58 c) = true -> dapp_post c h e = e.
Proof.
  intros c h e H. apply andb_true_iff in H as [H1 H2].
  unfold dapp_post. rewrite H1, H2. reflexivity.
Qed.

Lemma pub_id_chk : forall c st id p h, s_chk (fst (pub_to_addr_id c st id p h)) = s_chk st.
Proof.
  intros c st id p h. unfold pub_to_addr_id.
  destruct (negb (has_drv c id)); [reflexivity|].
  destruct (c_raw c id p); [|reflexivity].
  destruct (lru_get p (pc_find id (s_pub st))) as [[v l']|]; reflexivity.
Qed.

Lemma step_valid : forall c prev st o perm,
  Permutation perm (c_drv c) -> chk_okv c prev (s_chk st) ->
  vconsistent_with c prev o = true ->
  (vclaim c o = true ->
     ans_valid (snd (step c st o perm)) = ans_valid (spec_answer c o))
  /\ chk_okv c (o :: prev) (s_chk (fst (step c st o perm))).
Proof.
  intros c prev st o perm P Hc Hcons. unfold step.
  destruct o as [a h|a h|d p h|k h|d p h]; simpl op_miss.
  - pose proof (check_v_valid c prev st (OCheck a h) a h (miss_result c perm a h)
                  eq_refl (miss_valid c perm a h P) Hc Hcons) as [H1 H2].
    unfold step_v. destruct (check_address_v c st a (miss_result c perm a h)) as [st' e'].
    simpl in *. split; [|exact H2]. intros _. rewrite H1. symmetry. apply spec_under_valid.
  - unfold step_v, dapp_check_v. simpl spec_answer.
    destruct (is_drv_addr c a h) eqn:Hd.
    + simpl. split; [reflexivity|apply chk_okv_mono; exact Hc].
    + pose proof (check_v_valid c prev st (ODapp a h) a h (miss_result c perm a h)
                    eq_refl (miss_valid c perm a h P) Hc Hcons) as [H1 H2].
      destruct (check_address_v c st a (miss_result c perm a h)) as [st' e'].
      simpl in *. split; [|exact H2]. intro Hv.
      rewrite !(dapp_post_forked c h _ Hv). rewrite H1. symmetry. apply spec_under_valid.
  - split; [intro Hv; discriminate Hv|].
    unfold step_v, pub_to_addr. rewrite pub_id_chk. apply chk_okv_mono; exact Hc.
  - split; [intro Hv; discriminate Hv|].
    unfold step_v. destruct (c_sfrom c k) as [[d p]|]; [|apply chk_okv_mono; exact Hc].
    unfold from_addr. pose proof (pub_id_chk c st d p h) as E.
    destruct (pub_to_addr_id c st d p h) as [st' a]. simpl in *. rewrite E. apply chk_okv_mono; exact Hc.
  - split; [intro Hv; discriminate Hv|].
    unfold step_v, from_addr. pose proof (pub_id_chk c st d p h) as E.
    destruct (pub_to_addr_id c st d p h) as [st' a]. simpl in *. rewrite E. apply chk_okv_mono; exact Hc.
Qed.

Definition valid_agree (c : config) (o : op) (a : ans) : Prop :=
  vclaim c o = true -> ans_valid a = ans_valid (spec_answer c o).

Lemma run_valid_gen : forall c hist prev st,
  perms_ok c hist -> chk_okv c prev (s_chk st) -> vguard_from c prev (map fst hist) = true ->
  Forall2 (valid_agree c) (map fst hist) (run c st hist).
Proof.
  intros c hist. induction hist as [|[o perm] tl IH]; intros prev st Hp Hc Hg.
  - constructor.
  - simpl in Hg. apply andb_true_iff in Hg as [Hg1 Hg2].
    inversion Hp as [|x l Hperm Hp']; subst. simpl in Hperm.
    pose proof (step_valid c prev st o perm Hperm Hc Hg1) as [H1 H2].
    simpl. destruct (step c st o perm) as [st' a]. simpl in *.
    constructor; [exact H1|]. apply (IH (o :: prev) st'); assumption.
Qed.

Theorem validity_history_independent_partial : forall c hist,
  perms_ok c hist -> vguard_b c (map fst hist) = true ->
  Forall2 (valid_agree c) (map fst hist) (run c st0 hist).
Proof.
  intros c hist Hp Hg. apply (run_valid_gen c hist [] st0); [exact Hp| |exact Hg].
  intros a v F. discriminate F.
Qed.

(** ** default configuration: every address driver enabled from height 0 *)
Lemma is_enable_zero : forall h, is_enable h 0 = true.
Proof.
  intro h. unfold is_enable. destruct (h <? 0) eqn:E; [reflexivity|].
  apply Z.ltb_ge in E. simpl. destruct (h <? 0) eqn:E2; [apply Z.ltb_lt in E2; lia|reflexivity].
Qed.

Lemma enabled_all_zero : forall c h, all_zero c = true -> enabled_drivers c h = c_drv c.
Proof.
  intros c h H. unfold all_zero in H. unfold enabled_drivers.
  induction (c_drv c) as [|[d en] tl IH]; [reflexivity|].
  simpl in H. apply andb_true_iff in H as [H1 H2]. apply Z.eqb_eq in H1. subst en.
  simpl. rewrite is_enable_zero. f_equal. apply IH; exact H2.
Qed.

Lemma spec_valid_all_zero : forall c a h h', all_zero c = true -> spec_valid c a h = spec_valid c a h'.
Proof.
  intros c a h h' H. unfold spec_valid. rewrite !(enabled_all_zero c _ H). reflexivity.
Qed.

Lemma vguard_all_zero : forall c ops prev, all_zero c = true -> vguard_from c prev ops = true.
Proof.
  intros c ops. induction ops as [|o tl IH]; intros prev H; [reflexivity|].
  simpl. rewrite (IH (o :: prev) H). rewrite andb_true_r.
  unfold vconsistent_with. apply forallb_forall. intros o' _.
  destruct o as [a h|a h| | |]; try reflexivity;
  destruct o' as [a' h'|a' h'| | |]; try reflexivity;
  (destruct (N.eqb a a') eqn:E; [|reflexivity]);
  apply N.eqb_eq in E; subst a'; simpl;
  rewrite (spec_valid_all_zero c a h h' H); apply eqb_reflx.
Qed.

Theorem default_config_validity : forall c hist,
  all_zero c = true -> perms_ok c hist ->
  Forall2 (valid_agree c) (map fst hist) (run c st0 hist).
Proof.
  intros c hist H Hp. apply validity_history_independent_partial; [exact Hp|].
  apply vguard_all_zero; exact H.
Qed.

(** ** the exact theorem under the guard of the property text: default
    configuration, pubkey conversions on one side of the formatting fork, no
    address rejected with two different errors *)
Lemma spec_under_all_zero : forall c a h h', all_zero c = true -> spec_under c a h = spec_under c a h'.
Proof.
  intros c a h h' H. unfold spec_under.
  rewrite (spec_valid_all_zero c a h h' H). rewrite !(enabled_all_zero c _ H). reflexivity.
Qed.

Lemma fmt_same_side : forall c id h h' raw,
  is_fork h (c_ffmt c) = is_fork h' (c_ffmt c) -> fmt c id h raw = fmt c id h' raw.
Proof. intros c id h h' raw E. unfold fmt. rewrite E. reflexivity. Qed.

Lemma key_eqb_true : forall x1 x2 y1 y2,
  key_eqb (Some (x1, x2)) (Some (y1, y2)) = true -> x1 = y1 /\ x2 = y2.
Proof.
  intros x1 x2 y1 y2 H. unfold key_eqb in H. apply andb_true_iff in H as [H1 H2].
  apply N.eqb_eq in H1, H2. split; assumption.
Qed.

Lemma key_eqb_none_r : forall k, key_eqb k None = false.
Proof. intros [[x y]|]; reflexivity. Qed.

(** what an operation with a cache key stores: an address verdict (key 0) or a
    formatted address of some driver at the operation's context height *)
Lemma key_shape : forall c side o k1 k2,
  op_key c o = Some (k1, k2) ->
  (k1 = 0%N /\ exists h, op_under c o = AErr (spec_under c k2 h))
  \/ (exists id h raw, k1 = (1 + id)%N /\ c_raw c id k2 = Some raw
       /\ op_under c o = AStr (fmt c id h raw)
       /\ (fmt_side_b c side [o] = true -> is_fork h (c_ffmt c) = side)).
Proof.
  intros c side o k1 k2 K.
  destruct o as [a h|a h|d p h|k h|d p h]; cbn [op_key] in K.
  - injection K as <- <-. left. split; [reflexivity|]. exists h. reflexivity.
  - destruct (is_drv_addr c a h); [discriminate K|]. injection K as <- <-.
    left. split; [reflexivity|]. exists h. reflexivity.
  - destruct (negb (has_drv c (resolve_drv c d))) eqn:Hh; [discriminate K|].
    destruct (c_raw c (resolve_drv c d) p) as [raw|] eqn:Hr; [|discriminate K].
    injection K as <- <-. right. exists (resolve_drv c d), h, raw.
    split; [reflexivity|]. split; [exact Hr|]. split.
    + cbn [op_under spec_answer]. rewrite Hh, Hr. reflexivity.
    + cbn [fmt_side_b forallb]. rewrite andb_true_r. intro E. apply Bool.eqb_prop in E. exact E.
  - destruct (c_sfrom c k) as [[d p]|] eqn:Hs; [|discriminate K].
    destruct (negb (has_drv c d)) eqn:Hh; [discriminate K|].
    destruct (c_raw c d p) as [raw|] eqn:Hr; [|discriminate K].
    injection K as <- <-. right. exists d, h, raw.
    split; [reflexivity|]. split; [exact Hr|]. split.
    + cbn [op_under]. rewrite Hs, Hr. reflexivity.
    + cbn [fmt_side_b forallb]. rewrite andb_true_r. intro E. apply Bool.eqb_prop in E. exact E.
  - destruct (negb (has_drv c d)) eqn:Hh; [discriminate K|].
    destruct (c_raw c d p) as [raw|] eqn:Hr; [|discriminate K].
    injection K as <- <-. right. exists d, h, raw.
    split; [reflexivity|]. split; [exact Hr|]. split.
    + cbn [op_under spec_answer]. rewrite Hh, Hr. reflexivity.
    + cbn [fmt_side_b forallb]. rewrite andb_true_r. intro E. apply Bool.eqb_prop in E. exact E.
Qed.

Lemma consistent_default : forall c side prev o,
  all_zero c = true -> fmt_side_b c side prev = true -> fmt_side_b c side [o] = true ->
  consistent_with c prev o = true.
Proof.
  intros c side prev o Hz Hs Ho. unfold consistent_with. apply forallb_forall. intros o' Hin.
  assert (Hs' : fmt_side_b c side [o'] = true).
  { unfold fmt_side_b in *. rewrite forallb_forall in Hs. cbn [forallb]. rewrite (Hs o' Hin). reflexivity. }
  destruct (key_eqb (op_key c o) (op_key c o')) eqn:Hk; [|reflexivity].
  cbn [negb orb].
  destruct (op_key c o) as [[k1 k2]|] eqn:K; [|discriminate Hk].
  destruct (op_key c o') as [[k1' k2']|] eqn:K'; [|discriminate Hk].
  apply key_eqb_true in Hk as [<- <-].
  destruct (key_shape c side o k1 k2 K) as [[E0 [h U]]|(id & h & raw & E1 & R & U & S)];
  destruct (key_shape c side o' k1 k2 K') as [[E0' [h' U']]|(id' & h' & raw' & E1' & R' & U' & S')].
  - rewrite U, U'. cbn [ans_eqb]. rewrite (spec_under_all_zero c k2 h h' Hz). apply err_eqb_refl.
  - exfalso; lia.
  - exfalso; lia.
  - assert (id' = id) by lia. subst id'. rewrite R in R'. injection R' as <-.
    rewrite U, U'. cbn [ans_eqb]. rewrite (fmt_same_side c id h h' raw).
    + apply (proj2 (bytes_eqb_eq _ _)). reflexivity.
    + rewrite (S Ho), (S' Hs'). reflexivity.
Qed.

Lemma guard_default_gen : forall c side ops prev,
  all_zero c = true -> fmt_side_b c side prev = true -> fmt_side_b c side ops = true ->
  all_unambiguous c ops = true -> guard_from c prev ops = true.
Proof.
  intros c side ops. induction ops as [|o tl IH]; intros prev Hz Hp Ho Hu; [reflexivity|].
  simpl in Ho, Hu. apply andb_true_iff in Ho as [Ho1 Ho2]. apply andb_true_iff in Hu as [Hu1 Hu2].
  simpl. rewrite Hu1. simpl.
  rewrite (consistent_default c side prev o Hz Hp); [|simpl; rewrite Ho1; reflexivity]. simpl.
  apply IH; try assumption. simpl. rewrite Ho1. exact Hp.
Qed.

Theorem default_config_exact : forall c side hist,
  all_zero c = true -> fmt_side_b c side (map fst hist) = true ->
  all_unambiguous c (map fst hist) = true -> perms_ok c hist ->
  run c st0 hist = map (spec_answer c) (map fst hist).
Proof.
  intros c side hist Hz Hs Hu Hp. apply history_independent_partial; [exact Hp|].
  apply (guard_default_gen c side); [exact Hz|reflexivity|exact Hs|exact Hu].
Qed.
