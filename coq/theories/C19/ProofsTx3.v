(** C19 — TransactionCache: history independence holds exactly under the guard;
    refutations; the signature gate. *)
From Coq Require Import List ZArith NArith Bool Lia.
From C33 Require Import Lib.Harness C19.Model C19.ModelTx C19.SpecTx C19.ProofsTx C19.ProofsTx2.
Import ListNotations.
Open Scope Z_scope.

(** ** guard => the sticky verdict is the spec verdict *)
Lemma consistent_first : forall tc o prev d,
  tans_eqb (tspec tc o) (tspec tc d) = true ->
  forallb (fun o' => negb (tkey_eqb (tkey o) (tkey o')) || tans_eqb (tspec tc o) (tspec tc o')) prev = true ->
  tans_eqb (tspec tc o) (tspec tc (first_same (tkey o) prev d)) = true.
Proof.
  intros tc o prev; induction prev as [|o' tl IH]; intros d Hd F; [exact Hd|].
  cbn [forallb] in F. apply andb_true_iff in F as [F1 F2]. cbn [first_same].
  destruct (tkey_eqb (tkey o) (tkey o')) eqn:E.
  - cbn [negb orb] in F1. apply IH; assumption.
  - apply IH; assumption.
Qed.

Lemma guard_sticky : forall tc ops prev,
  tguard_from tc prev ops = true -> sticky_run tc prev ops = map (tspec tc) ops.
Proof.
  intros tc ops; induction ops as [|o tl IH]; intros prev G; [reflexivity|].
  cbn [tguard_from] in G. apply andb_true_iff in G as [G1 G2].
  cbn [sticky_run map]. f_equal.
  - unfold sticky. symmetry. apply tans_eqb_eq. apply consistent_first; [apply tans_eqb_refl|exact G1].
  - apply IH; exact G2.
Qed.

Lemma txcache_partial : forall tc ops,
  tguard_b tc ops = true -> trun tc [] ops = map (tspec tc) ops.
Proof.
  intros tc ops G. rewrite first_verdict_sticks. apply guard_sticky; exact G.
Qed.

(** ** ... and the guard is necessary *)

(* every earlier operation agrees with the first one of its key *)
Definition all_first (tc : tconfig) (prev : list top) : Prop :=
  forall o', In o' prev -> forall d, tspec tc (first_same (tkey o') prev d) = tspec tc o' \/ tkey o' = None.

Lemma in_has_key : forall o' prev, In o' prev -> forall p, tkey o' = Some p -> has_key (Some p) prev = true.
Proof.
  intros o' prev; induction prev as [|q tl IH]; intros HIn p K; [contradiction|].
  rewrite has_key_cons. destruct HIn as [->|HIn].
  - rewrite K, tkey_eqb_some_refl. reflexivity.
  - rewrite (IH HIn p K). apply orb_true_r.
Qed.

Lemma sticky_guard : forall tc ops prev,
  all_first tc prev ->
  sticky_run tc prev ops = map (tspec tc) ops -> tguard_from tc prev ops = true.
Proof.
  intros tc ops; induction ops as [|o tl IH]; intros prev AF E; [reflexivity|].
  cbn [sticky_run map] in E. injection E as E1 E2.
  cbn [tguard_from]. apply andb_true_iff; split.
  - (* consistent with every earlier operation of the same key *)
    unfold tconsistent. apply forallb_forall. intros o' HIn.
    destruct (tkey_eqb (tkey o) (tkey o')) eqn:EK; [|reflexivity]. cbn [negb orb].
    pose proof EK as EK0. apply tkey_eqb_eq in EK.
    destruct (tkey o') as [p|] eqn:KO'.
    + destruct (AF o' HIn o) as [AFo|AFo]; [|congruence].
      rewrite KO' in AFo. unfold sticky in E1. rewrite EK in E1.
      rewrite <- E1, AFo. apply tans_eqb_refl.
    + rewrite tkey_eqb_none_r in EK0. discriminate EK0.
  - apply IH; [|exact E2].
    intros o' HIn d. destruct (tkey o') as [p|] eqn:KO'; [left|right; reflexivity].
    rewrite fs_cons. destruct HIn as [<-|HIn].
    + rewrite KO', tkey_eqb_some_refl. unfold sticky in E1. rewrite KO' in E1. exact E1.
    + destruct (tkey_eqb (Some p) (tkey o)) eqn:EK.
      * destruct (AF o' HIn o) as [AFo|AFo]; [|congruence]. rewrite KO' in AFo. exact AFo.
      * destruct (AF o' HIn d) as [AFo|AFo]; [|congruence]. rewrite KO' in AFo. exact AFo.
Qed.

Lemma txcache_iff : forall tc ops,
  trun tc [] ops = map (tspec tc) ops <-> tguard_b tc ops = true.
Proof.
  intros tc ops; split.
  - intro E. rewrite first_verdict_sticks in E. apply sticky_guard; [|exact E].
    intros o' HIn; contradiction.
  - apply txcache_partial.
Qed.

(** ** the mempool's use: no memo field read twice *)
Lemma single_use_guard : forall tc ops prev,
  single_use_from prev ops = true -> tguard_from tc prev ops = true.
Proof.
  intros tc ops; induction ops as [|o tl IH]; intros prev S; [reflexivity|].
  cbn [single_use_from] in S. apply andb_true_iff in S as [S1 S2].
  cbn [tguard_from]. apply andb_true_iff; split; [|apply IH; exact S2].
  unfold tconsistent. apply forallb_forall. intros o' HIn.
  rewrite forallb_forall in S1. rewrite (S1 o' HIn). reflexivity.
Qed.

Lemma txcache_single_use : forall tc ops,
  single_use_b ops = true -> trun tc [] ops = map (tspec tc) ops.
Proof. intros tc ops S. apply txcache_partial. apply single_use_guard; exact S. Qed.

(** ** refutations *)
Definition txcache_history_independent_full : Prop :=
  forall tc ops, trun tc [] ops = map (tspec tc) ops.

Definition txcache_sign_independent_full : Prop :=
  forall tc x h1 h2, trun tc [] [TSign x h1; TSign x h2] = map (tspec tc) [TSign x h1; TSign x h2].

Definition txcache_check_independent_full : Prop :=
  forall tc x a b, trun tc [] [TCheck x (fst (fst a)) (snd (fst a)) (snd a); TCheck x (fst (fst b)) (snd (fst b)) (snd b)]
                   = map (tspec tc) [TCheck x (fst (fst a)) (snd (fst a)) (snd a);
                                     TCheck x (fst (fst b)) (snd (fst b)) (snd b)].

(* secp256k1 (type 1) enabled from height 10; one valid transfer of fee 100000, one fee unit *)
Definition w_member : mtx := mkM 0 100000 (Some 1) (Some 0%N) None false.
Definition tc_w : tconfig :=
  mkTc [(1%N, (true, 10))] (fun _ => Some (1, true)) (fun _ => true) 0 100 18 0 (fun _ => SSingle w_member) (fun x => x).

Lemma txcache_sign_refuted : ~ txcache_sign_independent_full.
Proof. intro H. specialize (H tc_w 0%N 5 20). vm_compute in H. discriminate H. Qed.

Lemma txcache_check_refuted : ~ txcache_check_independent_full.
Proof. intro H. specialize (H tc_w 0%N (20, 0, 0) (20, 200000, 0)). vm_compute in H. discriminate H. Qed.

Lemma txcache_refuted : ~ txcache_history_independent_full.
Proof. intro H. specialize (H tc_w [TSign 0%N 5; TSign 0%N 20]). vm_compute in H. discriminate H. Qed.

(** what the witnesses answer *)
Lemma txcache_witness_answers :
  trun tc_w [] [TSign 0%N 5; TSign 0%N 20] = [TABool false; TABool false]
  /\ map (tspec tc_w) [TSign 0%N 5; TSign 0%N 20] = [TABool false; TABool true]
  /\ trun tc_w [] [TSign 0%N 20; TSign 0%N 5] = [TABool true; TABool true]
  /\ trun tc_w [] [TCheck 0%N 20 0 0; TCheck 0%N 20 200000 0] = [TAErr TNil; TAErr TNil]
  /\ map (tspec tc_w) [TCheck 0%N 20 0 0; TCheck 0%N 20 200000 0] = [TAErr TNil; TAErr TFeeLow]
  /\ trun tc_w [] [TCheck 0%N 5 100000 50000; TCheck 0%N 20 100000 50000] = [TAErr TNil; TAErr TNil]
  /\ map (tspec tc_w) [TCheck 0%N 5 100000 50000; TCheck 0%N 20 100000 50000] = [TAErr TNil; TAErr TFeeHigh].
Proof. vm_compute. repeat split. Qed.

(** ** non-vacuity of the guard: the same wrapper checked repeatedly with
    different arguments on one side of the enable height / fee threshold,
    a second wrapper of the same transaction on the other side *)
Definition guarded_tops : list top :=
  [TSign 0%N 12; TCheck 0%N 12 100000 0; TSign 0%N 30; TCheck 0%N 15 50000 0; TFee 0%N 7;
   TSign 1%N 5; TCheck 1%N 20 200000 0; TSign 1%N 9; XSign 0%N 5; XCheck 0%N 20 200000 0].

Lemma txcache_guard_satisfiable :
  tguard_b tc_w guarded_tops = true
  /\ single_use_b guarded_tops = false
  /\ trun tc_w [] guarded_tops = map (tspec tc_w) guarded_tops
  /\ tspec tc_w (TSign 0%N 12) = TABool true /\ tspec tc_w (TSign 1%N 5) = TABool false
  /\ tspec tc_w (TCheck 1%N 20 200000 0) = TAErr TFeeLow.
Proof. vm_compute. repeat split. Qed.

Definition single_use_tops : list top :=
  [TCheck 0%N 6 100000 0; TSign 0%N 6; TCheck 1%N 21 200000 0; TSign 1%N 21; TFee 0%N 3; TFee 0%N 4].

Lemma txcache_single_use_satisfiable :
  single_use_b single_use_tops = true
  /\ map (tspec tc_w) single_use_tops
     = [TAErr TNil; TABool false; TAErr TFeeLow; TABool true; TAFee TNil 3; TAFee TNil 4].
Proof. vm_compute. repeat split. Qed.

(** ** the signature gate (crypto.Load with the enable check) *)
Lemma load_ok_exact : forall tc d h,
  load_ok tc d h = true <->
  exists en eh, assocC d (tc_cry tc) = Some (en, eh) /\ (h < 0 \/ (en = true /\ 0 <= eh <= h)).
Proof.
  intros tc d h; unfold load_ok; split.
  - destruct (assocC d (tc_cry tc)) as [[en eh]|]; [|discriminate].
    intro H. exists en, eh. split; [reflexivity|].
    destruct (h <? 0) eqn:E; [left; apply Z.ltb_lt; exact E|right].
    apply andb_true_iff in H as [H H3]. apply andb_true_iff in H as [H1 H2].
    apply Z.leb_le in H2. apply Z.leb_le in H3. repeat split; assumption.
  - intros (en & eh & -> & [H|(-> & H1 & H2)]).
    + apply Z.ltb_lt in H. rewrite H. reflexivity.
    + destruct (h <? 0); [reflexivity|].
      apply Z.leb_le in H1. apply Z.leb_le in H2. rewrite H1, H2. reflexivity.
Qed.

Lemma load_ok_mono : forall tc d h h', 0 <= h <= h' -> load_ok tc d h = true -> load_ok tc d h' = true.
Proof.
  intros tc d h h' Hh H. apply load_ok_exact in H as (en & eh & A & [B|(-> & B1 & B2)]); [lia|].
  apply load_ok_exact. exists true, eh. split; [exact A|right]. repeat split; lia.
Qed.

Lemma msign_mono : forall tc h h' m, 0 <= h <= h' -> msign tc h m = true -> msign tc h' m = true.
Proof.
  intros tc h h' m Hh. unfold msign. destruct (m_sig m) as [k|]; [|discriminate].
  destruct (tc_sig tc k) as [[ty okv]|]; [|discriminate].
  intro H. apply andb_true_iff in H as [H0 H]. apply andb_true_iff in H as [H1 H2].
  rewrite H0, (load_ok_mono _ _ _ _ Hh H1), H2. reflexivity.
Qed.

(** a signature valid at a height >= 0 stays valid at every later height *)
Lemma tx_sign_mono : forall tc s h h', 0 <= h <= h' -> tx_sign tc s h = true -> tx_sign tc s h' = true.
Proof.
  intros tc s h h' Hh. destruct s as [e|m|ms st]; cbn [tx_sign].
  - discriminate.
  - apply msign_mono; exact Hh.
  - intro H. apply forallb_forall. intros m HIn. rewrite forallb_forall in H.
    eapply msign_mono; [exact Hh|apply H; exact HIn].
Qed.

(** the enable height is the only height the verdict depends on: two heights on
    the same side of every driver's enable height give the same verdict *)
Definition same_side (tc : tconfig) (h h' : Z) : bool :=
  Bool.eqb (h <? 0) (h' <? 0)
  && forallb (fun p => Bool.eqb (snd (snd p) <=? h) (snd (snd p) <=? h')) (tc_cry tc).

Lemma assocC_in : forall d l v, assocC d l = Some v -> In (d, v) l.
Proof.
  intros d l v; induction l as [|[k w] tl IH]; cbn [assocC]; [discriminate|].
  destruct (N.eqb d k) eqn:E.
  - intro H; injection H as ->. apply N.eqb_eq in E; subst k. left; reflexivity.
  - intro H; right; apply IH; exact H.
Qed.

Lemma load_ok_same_side : forall tc d h h', same_side tc h h' = true -> load_ok tc d h = load_ok tc d h'.
Proof.
  intros tc d h h' S. unfold same_side in S. apply andb_true_iff in S as [S1 S2].
  apply Bool.eqb_prop in S1. unfold load_ok.
  destruct (assocC d (tc_cry tc)) as [[en eh]|] eqn:A; [|reflexivity].
  apply assocC_in in A. rewrite forallb_forall in S2. specialize (S2 _ A). cbn [snd] in S2.
  apply Bool.eqb_prop in S2. rewrite S1, S2. reflexivity.
Qed.

Lemma tx_sign_same_side : forall tc s h h', same_side tc h h' = true -> tx_sign tc s h = tx_sign tc s h'.
Proof.
  intros tc s h h' S.
  assert (M : forall m, msign tc h m = msign tc h' m).
  { intro m. unfold msign. destruct (m_sig m) as [k|]; [|reflexivity].
    destruct (tc_sig tc k) as [[ty okv]|]; [|reflexivity].
    rewrite (load_ok_same_side _ _ _ _ S). reflexivity. }
  destruct s as [e|m|ms st]; cbn [tx_sign]; [reflexivity|apply M|].
  induction ms as [|m tl IH]; [reflexivity|]. cbn [forallb]. rewrite M, IH. reflexivity.
Qed.

(** the new signature model refines the one of Model.v ([check_sign]) when the
    tables agree *)
Lemma msign_refines_check_sign : forall tc c m k ty okv h,
  m_sig m = Some k -> tc_sig tc k = Some (ty, okv) ->
  c_sig c k = Some (crypto_id ty, okv) -> c_cry c = tc_cry tc ->
  msign tc h m = tc_fok tc k && check_sign c k h.
Proof.
  intros tc c m k ty okv h M S CS CC. unfold msign, check_sign, load_ok, crypto_enabled.
  rewrite M, S, CS, CC. reflexivity.
Qed.
