(** C19 — the full-strength statements, their refutations on the faithful
    model (each witness is reproduced on the Go code by the harness's
    "witness" stream), and non-vacuity examples for the guards. *)
From Coq Require Import List ZArith NArith Bool Permutation Lia String.
From C33 Require Import Lib.Harness C19.Model C19.Spec C19.ProofsLoop C19.ProofsHist.
Import ListNotations.
Open Scope Z_scope.

(** ** concrete configurations (the real four drivers, real error classes) *)

(* address numbers: 2 = an eth address, 6 = base58 version 7 with a good
   checksum, 12 = "xyz", 0 = a valid btc address *)
Definition w_val (d a : N) : err :=
  match a, d with
  | 0, 0 => ENil | 0, 1 => EVersion | 0, 2 => EInvalidEth | 0, 3 => EAddrType
  | 2, 0 => ELength | 2, 1 => ELength | 2, 2 => ENil | 2, 3 => EAddrType
  | 6, 0 => EVersion | 6, 1 => EVersion | 6, 2 => EInvalidEth | 6, 3 => EAddrType
  | 12, 0 => ELength | 12, 1 => ELength | 12, 2 => EInvalidEth | 12, 3 => EAddrType
  | _, _ => EOther
  end%N.

Definition w_raw (d p : N) : option bytes :=
  match d with
  | 0 => Some (bs "1BtcStyleAddr"%string)
  | 2 => Some (bs "0x3ef9427070Bda64128fb5630b97B6AB17a8Ff0a8"%string)
  | _ => None
  end%N.

Definition w_cfg (drv : list (N * Z)) (fmulti fb58 ffmt : Z) (cap : N) : config :=
  mkCfg drv w_val fmulti fb58 ffmt true [] cap (fun _ => cap) 0%N w_raw 2%N
        [(1%N, (true, 0))] (fun _ => Some (1%N, true)) (fun k => Some (0%N, k)).

Definition drv_default : list (N * Z) := [(0%N, 0); (1%N, 0); (2%N, 0); (3%N, 0)].
Definition drv_eth10 : list (N * Z) := [(0%N, 0); (1%N, 0); (2%N, 10); (3%N, -1)].

Definition cfg_eth10 := w_cfg drv_eth10 0 0 0 10240.
Definition cfg_default := w_cfg drv_default 0 0 0 10240.
Definition cfg_prefork := w_cfg drv_default 20 25 0 10240.
Definition cfg_fmtfork := w_cfg drv_default 0 0 15 10240.

Definition fixed_order (c : config) (ops : list op) : list (op * list (N * Z)) :=
  map (fun o => (o, c_drv c)) ops.

Lemma fixed_order_ok : forall c ops, perms_ok c (fixed_order c ops).
Proof.
  intros c ops. unfold perms_ok, fixed_order. apply Forall_forall.
  intros x Hin. apply in_map_iff in Hin as [o [<- _]]. apply Permutation_refl.
Qed.

Lemma fixed_order_ops : forall c ops, map fst (fixed_order c ops) = ops.
Proof.
  intros c ops. unfold fixed_order. rewrite map_map. simpl. apply map_id.
Qed.

(** ** full-strength statements *)

(** every answer of every history is the pure function — even when the map
    iteration order never changes *)
Definition history_independent_full : Prop :=
  forall c ops, run c st0 (fixed_order c ops) = map (spec_answer c) ops.

(** same, for address checks only *)
Definition check_history_independent_full : Prop :=
  forall c a h1 h2,
    run c st0 (fixed_order c [OCheck a h1; OCheck a h2])
    = [AErr (spec_under c a h1); AErr (spec_under c a h2)].

(** the exact error of a single fresh query does not depend on the order,
    under the default configuration *)
Definition error_order_independent_full : Prop :=
  forall c perm a h, all_zero c = true -> Permutation perm (c_drv c) ->
    miss_result c perm a h = spec_under c a h.

(** nil / non-nil of a single fresh dapp.CheckAddress does not depend on the
    order, under the default address configuration *)
Definition dapp_validity_order_independent_full : Prop :=
  forall c perm a h, all_zero c = true -> Permutation perm (c_drv c) ->
    is_nil (snd (dapp_check c st0 perm a h)) = is_nil (snd (dapp_check c st0 (c_drv c) a h)).

(** PubKeyToAddr is a function of (driver, key, context height, configuration) *)
Definition pubkey_history_independent_full : Prop :=
  forall c d p h1 h2,
    run c st0 (fixed_order c [OPub d p h1; OPub d p h2])
    = [spec_answer c (OPub d p h1); spec_answer c (OPub d p h2)].

(** ** refutations *)

(* eth enabled at 10: query below poisons the answer above ... *)
Lemma cache_witness_up :
  run cfg_eth10 st0 (fixed_order cfg_eth10 [OCheck 2 5; OCheck 2 20])
  = [AErr ELength; AErr ELength]
  /\ spec_answer cfg_eth10 (OCheck 2 20) = AErr ENil.
Proof. split; vm_compute; reflexivity. Qed.

(* ... and the other way round *)
Lemma cache_witness_down :
  run cfg_eth10 st0 (fixed_order cfg_eth10 [OCheck 2 20; OCheck 2 5])
  = [AErr ENil; AErr ENil]
  /\ spec_answer cfg_eth10 (OCheck 2 5) = AErr ELength.
Proof. split; vm_compute; reflexivity. Qed.

Theorem refuted_cache : ~ check_history_independent_full.
Proof.
  intro H. specialize (H cfg_eth10 2%N 5 20).
  destruct cache_witness_up as [R _]. rewrite R in H. vm_compute in H. discriminate H.
Qed.

Theorem refuted_full : ~ history_independent_full.
Proof.
  intro H. specialize (H cfg_eth10 [OCheck 2 5; OCheck 2 20]).
  destruct cache_witness_up as [R _]. rewrite R in H. vm_compute in H. discriminate H.
Qed.

Definition order_a : list (N * Z) := [(2%N, 0); (3%N, 0); (1%N, 0); (0%N, 0)].
Definition order_b : list (N * Z) := [(0%N, 0); (1%N, 0); (3%N, 0); (2%N, 0)].

Lemma order_a_perm : Permutation order_a drv_default.
Proof.
  unfold order_a, drv_default.
  apply Permutation_sym.
  eapply perm_trans; [apply Permutation_rev|]. simpl.
  eapply perm_trans; [apply perm_swap|]. apply perm_skip.
  apply Permutation_refl.
Qed.

Lemma order_b_perm : Permutation order_b drv_default.
Proof.
  unfold order_b, drv_default. do 2 apply perm_skip. apply perm_swap.
Qed.

Theorem refuted_error_order : ~ error_order_independent_full.
Proof.
  intro H.
  pose proof (H cfg_default order_a 12%N 20 eq_refl order_a_perm) as Ha.
  pose proof (H cfg_default order_b 12%N 20 eq_refl order_b_perm) as Hb.
  rewrite <- Hb in Ha. vm_compute in Ha. discriminate Ha.
Qed.

Theorem refuted_dapp_validity_order : ~ dapp_validity_order_independent_full.
Proof.
  intro H.
  pose proof (H cfg_prefork order_a 6%N 5 eq_refl order_a_perm) as Ha.
  vm_compute in Ha. discriminate Ha.
Qed.

Theorem refuted_pubkey_cache : ~ pubkey_history_independent_full.
Proof.
  intro H. specialize (H cfg_fmtfork 2 0%N 10 20). vm_compute in H. discriminate H.
Qed.

(** ** non-vacuity of the guards *)

(* a history with cache hits, an eviction-free repeat, a pubkey repeat and a
   signature check satisfies the exact guard under a non-default configuration *)
Definition guarded_ops : list op :=
  [OCheck 2 12; OCheck 0 3; ODapp 2 30; OCheck 2 25; OPub 2 0 20; OPub 2 0 31; OPub (-1) 0 1;
   OSign 0 4; OCheck 0 40].

Example guard_satisfiable :
  guard_b cfg_eth10 guarded_ops = true
  /\ all_zero cfg_eth10 = false
  /\ run cfg_eth10 st0 (fixed_order cfg_eth10 guarded_ops) = map (spec_answer cfg_eth10) guarded_ops
  /\ spec_answer cfg_eth10 (OCheck 2 12) = AErr ENil
  /\ spec_answer cfg_eth10 (OCheck 0 3) = AErr ENil.
Proof. repeat split; vm_compute; reflexivity. Qed.

(* the validity guard holds for invalid, ambiguous inputs under the default
   configuration, where the exact guard fails *)
Definition vguarded_ops : list op := [OCheck 12 5; ODapp 12 9; OCheck 6 1; OCheck 12 50; OCheck 0 7].

Example vguard_satisfiable :
  vguard_b cfg_default vguarded_ops = true
  /\ guard_b cfg_default vguarded_ops = false
  /\ all_zero cfg_default = true
  /\ forallb (vclaim cfg_default) vguarded_ops = true.
Proof. repeat split; vm_compute; reflexivity. Qed.

(* a tiny cache: the guard is about keys, not capacity *)
Example guard_satisfiable_small_cache :
  let c := w_cfg drv_eth10 0 0 0 1 in
  let ops := [OCheck 2 12; OCheck 0 3; OCheck 2 25; OCheck 0 11; OCheck 2 10] in
  guard_b c ops = true
  /\ run c st0 (fixed_order c ops) = map (spec_answer c) ops.
Proof. split; vm_compute; reflexivity. Qed.

(* the property-text guard: default enable heights, a non-zero formatting fork
   with all conversions above it, only inputs some driver accepts *)
Definition default_ops : list op :=
  [OCheck 0 5; OCheck 2 50; OPub 2 0 20; OCheck 0 50; OPub 2 0 31; ODapp 2 3; OPub (-1) 1 40].

Example default_guard_satisfiable :
  all_zero cfg_fmtfork = true
  /\ fmt_side_b cfg_fmtfork true default_ops = true
  /\ all_unambiguous cfg_fmtfork default_ops = true
  /\ c_ffmt cfg_fmtfork = 15.
Proof. repeat split; vm_compute; reflexivity. Qed.
