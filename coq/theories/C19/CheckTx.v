(** C19 — correspondence cases for the TransactionCache model: one history of
    calls on fresh wrapper objects under one configuration, every answer next
    to the answers the same call gets from a fresh wrapper, from the bare
    (memo-free) function and, for a sample, from a fresh OS process. *)
From Coq Require Import List ZArith NArith Bool.
From C33 Require Export Lib.Harness C19.Model C19.ModelTx C19.SpecTx.
Import ListNotations.
Open Scope Z_scope.

Inductive sgtI := SGT (k : N) (ty : Z) (okv fok : bool).
Inductive txI := TX (t : N) (s : shape).
Inductive obI := OB (x t : N).
Inductive tcfgI := TCfg (cry : list (N * (bool * Z))) (sigs : list sgtI)
                        (chain strict bcheck gpara : Z) (txs : list txI) (objs : list obI).
Inductive tobsI := TOb (o : top) (hist : tans) (fresh : list tans).

Fixpoint sgt_find (k : N) (l : list sgtI) : option (Z * bool) :=
  match l with
  | [] => None
  | SGT k' ty okv _ :: tl => if N.eqb k k' then Some (ty, okv) else sgt_find k tl
  end.

Fixpoint sgt_fok (k : N) (l : list sgtI) : bool :=
  match l with
  | [] => false
  | SGT k' _ _ fok :: tl => if N.eqb k k' then fok else sgt_fok k tl
  end.

Fixpoint tx_find (t : N) (l : list txI) : shape :=
  match l with
  | [] => SErr TOther
  | TX t' s :: tl => if N.eqb t t' then s else tx_find t tl
  end.

(* a wrapper missing from the table wraps a transaction missing from the table *)
Fixpoint ob_find (x : N) (l : list obI) : N :=
  match l with
  | [] => 4294967295%N
  | OB x' t :: tl => if N.eqb x x' then t else ob_find x tl
  end.

Definition tcfg_of (c : tcfgI) : tconfig :=
  match c with
  | TCfg cry sigs chain strict bcheck gpara txs objs =>
      mkTc cry (fun k => sgt_find k sigs) (fun k => sgt_fok k sigs) chain strict bcheck gpara
           (fun t => tx_find t txs) (fun x => ob_find x objs)
  end.

(** known finding 5 (known_findings/C19.json): the same TransactionCache
    object checked by the same method with arguments whose verdicts differ
    (on different sides of an enable height / fork height / fee threshold):
    the in-history answer is the verdict of the FIRST such call; fresh
    wrappers, the bare function and fresh processes all answer the spec *)
Definition kf_tc (tc : tconfig) (prev : list top) (o : top) (ha : tans) (fresh : list tans) : N :=
  let sp := tspec tc o in
  let stk := sticky tc prev o in
  match tkey o with
  | None => 0%N
  | Some _ =>
      if forallb (tans_eqb sp) fresh
         && existsb (fun o' => tkey_eqb (tkey o) (tkey o')) prev
         && tans_eqb ha stk && negb (tans_eqb stk sp)
      then 5%N else 0%N
  end.

Record tfst := mkTF {
  tf_st : tstate;          (* model memo fields *)
  tf_m : bool;             (* model agreed so far *)
  tf_div : option N;       (* known-finding code of the first spec divergence *)
  tf_prev : list top }.

Definition tfold (tc : tconfig) (f : tfst) (x : tobsI) : tfst :=
  match x with
  | TOb o ha fresh =>
      let (st', ma) := tstep tc (tf_st f) o in
      let sp := tspec tc o in
      let m_hist := tans_eqb ma ha in
      (* the model of a call on a fresh wrapper / of the bare function is the pure verdict *)
      let m_fresh := forallb (tans_eqb sp) fresh in
      let s_ok := tans_eqb ha sp && forallb (tans_eqb sp) fresh in
      let div := match tf_div f with
                 | Some k => Some k
                 | None => if s_ok then None else Some (kf_tc tc (tf_prev f) o ha fresh)
                 end in
      mkTF st' (tf_m f && m_hist && m_fresh) div (o :: tf_prev f)
  end.

(** g: 0 = unrestricted, 2 = guarded ([tguard_b] holds), 3 = guarded and single use *)
Definition check_tc (g : N) (ci : tcfgI) (h : list tobsI) : verdict :=
  let tc := tcfg_of ci in
  let ops := map (fun x => match x with TOb o _ _ => o end) h in
  let f := fold_left (tfold tc) h (mkTF [] true None []) in
  let gen_ok := (if (2 <=? g)%N then tguard_b tc ops else true)
                && (if (3 <=? g)%N then single_use_b ops else true) in
  let m := tf_m f && gen_ok in
  match tf_div f with
  | Some k => (m, false, if (2 <=? g)%N then 0%N else k)
  | None => (m, true, 0%N)
  end.
