(** C19 — property theorems only.
    [run c st0 hist]: the answers of a query history from fresh caches; every
    element of [hist] carries the map iteration order that call sees ([perms_ok]:
    a permutation of the registered drivers).  [spec_answer c o]: the pure
    function of (input, height, configuration).  [guard_b]: operations with the
    same cache key have the same spec value, and no address is rejected by two
    enabled drivers with different errors.  [vguard_b]: queries of one address
    agree on spec validity (true for every history when all enable heights are
    0).  [valid_agree]: nil/non-nil equals the spec's, for CheckAddress and for
    dapp.CheckAddress at heights where both pre-fork exceptions are off.

    TransactionCache part (ModelTx.v / SpecTx.v): [trun tc [] ops] = the answers
    of a history of Check / CheckSign / GetTotalFee calls on fresh wrapper
    objects (plus memo-free calls on bare transactions); [tspec tc o] = the
    pure verdict of (wrapped transaction, arguments, configuration);
    [sticky_run] = the verdict of the first call of the same method on the same
    wrapper; [tguard_b] = all calls of one method on one wrapper have the same
    spec verdict; [single_use_b] = no method is called twice on a wrapper (the
    mempool's use). *)
From Coq Require Import List ZArith NArith Bool Permutation.
From C33 Require Import C19.Model C19.Spec C19.ProofsLoop C19.ProofsLru C19.ProofsHist C19.ProofsRefute.
From C33 Require Import C19.ModelTx C19.SpecTx C19.ProofsTx C19.ProofsTx2 C19.ProofsTx3.
Import ListNotations.
Open Scope Z_scope.

Theorem C19_history_independent_partial : forall c hist,
  perms_ok c hist -> guard_b c (map fst hist) = true ->
  run c st0 hist = map (spec_answer c) (map fst hist).
Proof. exact history_independent_partial. Qed.
Print Assumptions C19_history_independent_partial.

(** the guard in the words of the property text: all enable heights 0, the
    pubkey conversions on one side of the formatting fork, no address rejected
    by two drivers with different errors *)
Theorem C19_default_config_exact : forall c side hist,
  all_zero c = true -> fmt_side_b c side (map fst hist) = true ->
  all_unambiguous c (map fst hist) = true -> perms_ok c hist ->
  run c st0 hist = map (spec_answer c) (map fst hist).
Proof. exact default_config_exact. Qed.
Print Assumptions C19_default_config_exact.

Theorem C19_default_guard_satisfiable :
  all_zero cfg_fmtfork = true
  /\ fmt_side_b cfg_fmtfork true default_ops = true
  /\ all_unambiguous cfg_fmtfork default_ops = true
  /\ c_ffmt cfg_fmtfork = 15.
Proof. exact default_guard_satisfiable. Qed.
Print Assumptions C19_default_guard_satisfiable.

Theorem C19_validity_history_independent_partial : forall c hist,
  perms_ok c hist -> vguard_b c (map fst hist) = true ->
  Forall2 (valid_agree c) (map fst hist) (run c st0 hist).
Proof. exact validity_history_independent_partial. Qed.
Print Assumptions C19_validity_history_independent_partial.

Theorem C19_default_config_validity : forall c hist,
  all_zero c = true -> perms_ok c hist ->
  Forall2 (valid_agree c) (map fst hist) (run c st0 hist).
Proof. exact default_config_validity. Qed.
Print Assumptions C19_default_config_validity.

Theorem C19_validity_order_independent : forall c perm a h,
  Permutation perm (c_drv c) -> is_nil (miss_result c perm a h) = spec_valid c a h.
Proof. exact miss_valid. Qed.
Print Assumptions C19_validity_order_independent.

Theorem C19_possible_results_exact : forall c a h e,
  In e (possible c a h) <->
  exists perm, Permutation perm (c_drv c) /\ miss_result c perm a h = e.
Proof.
  intros c a h e. split.
  - apply possible_reachable.
  - intros [perm [P <-]]. apply miss_in_possible; exact P.
Qed.
Print Assumptions C19_possible_results_exact.

Theorem C19_spec_is_descending_id_order : forall c a h,
  spec_under c a h = miss_result c (rev (c_drv c)) a h.
Proof. exact spec_under_canonical. Qed.
Print Assumptions C19_spec_is_descending_id_order.

Theorem C19_cache_capacity_kept : forall (cap k : N) (v : err) (l : lru err),
  (1 <= cap)%N -> (N.of_nat (length l) <= cap)%N ->
  (N.of_nat (length (lru_add cap k v l)) <= cap)%N.
Proof. intros. apply add_length; assumption. Qed.
Print Assumptions C19_cache_capacity_kept.

Theorem C19_refuted_cache : ~ check_history_independent_full.
Proof. exact refuted_cache. Qed.
Print Assumptions C19_refuted_cache.

Theorem C19_refuted : ~ history_independent_full.
Proof. exact refuted_full. Qed.
Print Assumptions C19_refuted.

Theorem C19_refuted_error_order : ~ error_order_independent_full.
Proof. exact refuted_error_order. Qed.
Print Assumptions C19_refuted_error_order.

Theorem C19_refuted_dapp_validity_order : ~ dapp_validity_order_independent_full.
Proof. exact refuted_dapp_validity_order. Qed.
Print Assumptions C19_refuted_dapp_validity_order.

Theorem C19_refuted_pubkey_cache : ~ pubkey_history_independent_full.
Proof. exact refuted_pubkey_cache. Qed.
Print Assumptions C19_refuted_pubkey_cache.

Theorem C19_guard_satisfiable :
  guard_b cfg_eth10 guarded_ops = true
  /\ all_zero cfg_eth10 = false
  /\ run cfg_eth10 st0 (fixed_order cfg_eth10 guarded_ops) = map (spec_answer cfg_eth10) guarded_ops
  /\ spec_answer cfg_eth10 (OCheck 2 12) = AErr ENil
  /\ spec_answer cfg_eth10 (OCheck 0 3) = AErr ENil.
Proof. exact guard_satisfiable. Qed.
Print Assumptions C19_guard_satisfiable.

Theorem C19_vguard_satisfiable :
  vguard_b cfg_default vguarded_ops = true
  /\ guard_b cfg_default vguarded_ops = false
  /\ all_zero cfg_default = true
  /\ forallb (vclaim cfg_default) vguarded_ops = true.
Proof. exact vguard_satisfiable. Qed.
Print Assumptions C19_vguard_satisfiable.

(** ** types.TransactionCache: the first verdict of Check / CheckSign sticks *)

Theorem C19_txcache_first_verdict_sticks : forall tc ops,
  trun tc [] ops = sticky_run tc [] ops.
Proof. exact first_verdict_sticks. Qed.
Print Assumptions C19_txcache_first_verdict_sticks.

Theorem C19_txcache_history_independent_partial : forall tc ops,
  tguard_b tc ops = true -> trun tc [] ops = map (tspec tc) ops.
Proof. exact txcache_partial. Qed.
Print Assumptions C19_txcache_history_independent_partial.

(** the guard is also necessary: it is exactly the set of histories on which
    the wrappers answer the spec *)
Theorem C19_txcache_guard_is_exact : forall tc ops,
  trun tc [] ops = map (tspec tc) ops <-> tguard_b tc ops = true.
Proof. exact txcache_iff. Qed.
Print Assumptions C19_txcache_guard_is_exact.

Theorem C19_txcache_single_use_exact : forall tc ops,
  single_use_b ops = true -> trun tc [] ops = map (tspec tc) ops.
Proof. exact txcache_single_use. Qed.
Print Assumptions C19_txcache_single_use_exact.

Theorem C19_txcache_refuted : ~ txcache_history_independent_full.
Proof. exact txcache_refuted. Qed.
Print Assumptions C19_txcache_refuted.

Theorem C19_txcache_sign_refuted : ~ txcache_sign_independent_full.
Proof. exact txcache_sign_refuted. Qed.
Print Assumptions C19_txcache_sign_refuted.

Theorem C19_txcache_check_refuted : ~ txcache_check_independent_full.
Proof. exact txcache_check_refuted. Qed.
Print Assumptions C19_txcache_check_refuted.

Theorem C19_txcache_witness_answers :
  trun tc_w [] [TSign 0%N 5; TSign 0%N 20] = [TABool false; TABool false]
  /\ map (tspec tc_w) [TSign 0%N 5; TSign 0%N 20] = [TABool false; TABool true]
  /\ trun tc_w [] [TSign 0%N 20; TSign 0%N 5] = [TABool true; TABool true]
  /\ trun tc_w [] [TCheck 0%N 20 0 0; TCheck 0%N 20 200000 0] = [TAErr TNil; TAErr TNil]
  /\ map (tspec tc_w) [TCheck 0%N 20 0 0; TCheck 0%N 20 200000 0] = [TAErr TNil; TAErr TFeeLow]
  /\ trun tc_w [] [TCheck 0%N 5 100000 50000; TCheck 0%N 20 100000 50000] = [TAErr TNil; TAErr TNil]
  /\ map (tspec tc_w) [TCheck 0%N 5 100000 50000; TCheck 0%N 20 100000 50000] = [TAErr TNil; TAErr TFeeHigh].
Proof. exact txcache_witness_answers. Qed.
Print Assumptions C19_txcache_witness_answers.

Theorem C19_txcache_guard_satisfiable :
  tguard_b tc_w guarded_tops = true
  /\ single_use_b guarded_tops = false
  /\ trun tc_w [] guarded_tops = map (tspec tc_w) guarded_tops
  /\ tspec tc_w (TSign 0%N 12) = TABool true /\ tspec tc_w (TSign 1%N 5) = TABool false
  /\ tspec tc_w (TCheck 1%N 20 200000 0) = TAErr TFeeLow.
Proof. exact txcache_guard_satisfiable. Qed.
Print Assumptions C19_txcache_guard_satisfiable.

Theorem C19_txcache_single_use_satisfiable :
  single_use_b single_use_tops = true
  /\ map (tspec tc_w) single_use_tops
     = [TAErr TNil; TABool false; TAErr TFeeLow; TABool true; TAFee TNil 3; TAFee TNil 4].
Proof. exact txcache_single_use_satisfiable. Qed.
Print Assumptions C19_txcache_single_use_satisfiable.

(** ** the signature gate: crypto.Load(name, height) *)

Theorem C19_sign_gate_exact : forall tc d h,
  load_ok tc d h = true <->
  exists en eh, assocC d (tc_cry tc) = Some (en, eh) /\ (h < 0 \/ (en = true /\ 0 <= eh <= h)).
Proof. exact load_ok_exact. Qed.
Print Assumptions C19_sign_gate_exact.

Theorem C19_sign_valid_monotone : forall tc s h h',
  0 <= h <= h' -> tx_sign tc s h = true -> tx_sign tc s h' = true.
Proof. exact tx_sign_mono. Qed.
Print Assumptions C19_sign_valid_monotone.

Theorem C19_sign_same_side : forall tc s h h',
  same_side tc h h' = true -> tx_sign tc s h = tx_sign tc s h'.
Proof. exact tx_sign_same_side. Qed.
Print Assumptions C19_sign_same_side.

Theorem C19_txsign_refines_check_sign : forall tc c m k ty okv h,
  m_sig m = Some k -> tc_sig tc k = Some (ty, okv) ->
  c_sig c k = Some (crypto_id ty, okv) -> c_cry c = tc_cry tc ->
  msign tc h m = tc_fok tc k && check_sign c k h.
Proof. exact msign_refines_check_sign. Qed.
Print Assumptions C19_txsign_refines_check_sign.
