(** C19 — facts about the LRU model: whatever a lookup finds was put there by
    an earlier add (moves to front and evictions never invent entries). *)
From Coq Require Import List ZArith NArith Bool Lia.
From C33 Require Import Lib.Harness C19.Model.
Import ListNotations.

Section LruFacts.
  Context {V : Type}.
  Implicit Types l : lru V.

  Lemma find_remove_other : forall k k' l,
    k <> k' -> lru_find k (lru_remove k' l) = lru_find k l.
  Proof.
    intros k k' l Hne. induction l as [|[k2 v2] tl IH]; simpl; [reflexivity|].
    destruct (N.eqb k' k2) eqn:E1.
    - apply N.eqb_eq in E1. subst k2.
      destruct (N.eqb k k') eqn:E2; [apply N.eqb_eq in E2; contradiction|reflexivity].
    - simpl. destruct (N.eqb k k2); [reflexivity|exact IH].
  Qed.

  Lemma find_removelast : forall k l w,
    lru_find k (removelast l) = Some w -> lru_find k l = Some w.
  Proof.
    intros k l w. induction l as [|[k2 v2] tl IH]; simpl; [discriminate|].
    destruct tl as [|x tl'].
    - simpl. discriminate.
    - change (lru_find k ((k2, v2) :: removelast (x :: tl')) = Some w ->
              (if N.eqb k k2 then Some v2 else lru_find k (x :: tl')) = Some w).
      simpl lru_find at 1. destruct (N.eqb k k2); [trivial|exact IH].
  Qed.

  (** entries after a move-to-front come from the old list or are the moved one *)
  Lemma find_front : forall k k' v l w,
    lru_find k ((k', v) :: lru_remove k' l) = Some w ->
    (k = k' /\ w = v) \/ lru_find k l = Some w.
  Proof.
    intros k k' v l w H. simpl in H. destruct (N.eqb k k') eqn:E.
    - apply N.eqb_eq in E. left. split; [exact E|congruence].
    - right. apply N.eqb_neq in E. rewrite find_remove_other in H by exact E. exact H.
  Qed.

  Lemma find_add : forall cap k k' v l w,
    lru_find k (lru_add cap k' v l) = Some w ->
    (k = k' /\ w = v) \/ lru_find k l = Some w.
  Proof.
    intros cap k k' v l w H. unfold lru_add in H.
    destruct (lru_find k' l) eqn:F.
    - apply find_front in H. exact H.
    - destruct (N.ltb cap (N.of_nat (length ((k', v) :: l)))).
      + apply find_removelast in H. simpl in H. destruct (N.eqb k k') eqn:E.
        * apply N.eqb_eq in E. left. split; [exact E|congruence].
        * right. exact H.
      + simpl in H. destruct (N.eqb k k') eqn:E.
        * apply N.eqb_eq in E. left. split; [exact E|congruence].
        * right. exact H.
  Qed.

  Lemma get_some : forall k l v l',
    lru_get k l = Some (v, l') ->
    lru_find k l = Some v /\
    forall k2 w, lru_find k2 l' = Some w -> lru_find k2 l = Some w.
  Proof.
    intros k l v l' H. unfold lru_get in H. destruct (lru_find k l) eqn:F; [|discriminate].
    inversion H; subst. split; [reflexivity|].
    intros k2 w Hf. apply find_front in Hf. destruct Hf as [[-> ->]|Hf]; [exact F|exact Hf].
  Qed.

  Lemma get_none : forall k l, lru_get k l = None -> lru_find k l = None.
  Proof.
    intros k l H. unfold lru_get in H. destruct (lru_find k l); [discriminate|reflexivity].
  Qed.

  (** the capacity bound is kept (for capacity >= 1, which lru.New enforces) *)
  Lemma remove_length : forall k l v,
    lru_find k l = Some v -> S (length (lru_remove k l)) = length l.
  Proof.
    intros k l v. induction l as [|[k2 v2] tl IH]; simpl; [discriminate|].
    destruct (N.eqb k k2); [reflexivity|]. intro H. simpl. rewrite IH by exact H. reflexivity.
  Qed.

  Lemma removelast_length : forall (l : lru V), l <> [] -> S (length (removelast l)) = length l.
  Proof.
    induction l as [|x tl IH]; [congruence|]. intros _. destruct tl as [|y tl'].
    - reflexivity.
    - change (S (S (length (removelast (y :: tl')))) = S (length (y :: tl'))).
      rewrite IH by discriminate. reflexivity.
  Qed.

  Lemma add_length : forall cap k v l,
    (1 <= cap)%N -> (N.of_nat (length l) <= cap)%N ->
    (N.of_nat (length (lru_add cap k v l)) <= cap)%N.
  Proof.
    intros cap k v l Hc Hl. unfold lru_add. destruct (lru_find k l) eqn:F.
    - simpl length. rewrite (remove_length _ _ _ F). exact Hl.
    - destruct (N.ltb cap (N.of_nat (length ((k, v) :: l)))) eqn:E.
      + assert (Hs := removelast_length ((k, v) :: l)). simpl length in *.
        specialize (Hs ltac:(discriminate)). lia.
      + apply N.ltb_ge in E. exact E.
  Qed.

  Lemma get_length : forall k l v l',
    lru_get k l = Some (v, l') -> length l' = length l.
  Proof.
    intros k l v l' H. unfold lru_get in H. destruct (lru_find k l) eqn:F; [|discriminate].
    inversion H; subst. simpl. apply (remove_length _ _ _ F).
  Qed.
End LruFacts.

Lemma pc_find_set_same : forall d x l, pc_find d (pc_set d x l) = x.
Proof.
  intros d x l. induction l as [|[d' y] tl IH]; simpl.
  - rewrite N.eqb_refl. reflexivity.
  - destruct (N.eqb d d') eqn:E; simpl.
    + rewrite N.eqb_refl. reflexivity.
    + rewrite E. exact IH.
Qed.

Lemma pc_find_set_other : forall d d' x l, d' <> d -> pc_find d' (pc_set d x l) = pc_find d' l.
Proof.
  intros d d' x l Hne. induction l as [|[d2 y] tl IH]; simpl.
  - destruct (N.eqb d' d) eqn:E; [apply N.eqb_eq in E; contradiction|reflexivity].
  - destruct (N.eqb d d2) eqn:E; simpl.
    + apply N.eqb_eq in E. subst d2.
      destruct (N.eqb d' d) eqn:E2; [apply N.eqb_eq in E2; contradiction|reflexivity].
    + destruct (N.eqb d' d2); [reflexivity|exact IH].
Qed.
