(** C19 — correspondence cases: one query history on fresh caches under one
    configuration, with the answer the Go implementation gave inside the
    history and the answers it gave to the same single query from fresh caches
    (cache reset in the harness process, and for a sample a fresh OS process). *)
From Coq Require Import List ZArith NArith Bool.
From C33 Require Export Lib.Harness C19.Model C19.Spec C19.ModelTx C19.SpecTx C19.CheckTx.
Import ListNotations.
Open Scope Z_scope.

(** monomorphic constructors for the generated files *)
Inductive drvI := DV (id : N) (en : Z).
Inductive valI := VA (a : N) (es : list err).            (* errors per driver, in [drv] order *)
Inductive exI := EX (a : N) (h : Z).
Inductive rawI := RW (d p : N) (r : option bytes).
Inductive cryI := CR (id : N) (en : bool) (eh : Z).
Inductive sigI := SG (k : N) (d : N) (okv : bool) (ad p : N).   (* ad, p: address id of the sign type, public key number *)
Inductive cfgI := Cfg (drv : list drvI) (val : list valI) (fmulti fb58 ffmt : Z) (api : bool)
                      (exec : list exI) (cap pcap : N) (def : N)
                      (raw : list rawI) (cry : list cryI) (sigs : list sigI).
Inductive obsI := Ob (o : op) (hist : ans) (fresh : list ans).
(** g: 0 = unrestricted, 1 = validity-guarded ([vguard_b] holds), 2 = exactly guarded ([guard_b] holds) *)
Inductive case :=
| Hist (g : N) (c : cfgI) (h : list obsI)
(** a history of TransactionCache calls (CheckTx.v); g: 0 = unrestricted, 2 = [tguard_b] holds,
    3 = additionally no memo field is read twice *)
| TcHist (g : N) (c : tcfgI) (h : list tobsI).

Definition eth_id : N := 2%N.
Definition default_cap : N := 10240%N.

Fixpoint index_of (d : N) (l : list drvI) (i : nat) : option nat :=
  match l with
  | [] => None
  | DV d' _ :: tl => if N.eqb d d' then Some i else index_of d tl (S i)
  end.

Fixpoint val_find (a : N) (l : list valI) : option (list err) :=
  match l with
  | [] => None
  | VA a' es :: tl => if N.eqb a a' then Some es else val_find a tl
  end.

Fixpoint raw_find (d p : N) (l : list rawI) : option bytes :=
  match l with
  | [] => None
  | RW d' p' r :: tl => if N.eqb d d' && N.eqb p p' then r else raw_find d p tl
  end.

Fixpoint sig_find (k : N) (l : list sigI) : option (N * bool) :=
  match l with
  | [] => None
  | SG k' d okv _ _ :: tl => if N.eqb k k' then Some (d, okv) else sig_find k tl
  end.

Fixpoint sig_from (k : N) (l : list sigI) : option (N * N) :=
  match l with
  | [] => None
  | SG k' _ _ ad p :: tl => if N.eqb k k' then Some (ad, p) else sig_from k tl
  end.

Definition cfg_of (x : cfgI) : config :=
  match x with
  | Cfg drv val fmulti fb58 ffmt api exec cap pcap def raw cry sigs =>
      mkCfg (map (fun d => match d with DV id en => (id, en) end) drv)
            (fun d a => match index_of d drv 0, val_find a val with
                        | Some i, Some es => nth i es EOther
                        | _, _ => EOther
                        end)
            fmulti fb58 ffmt api
            (map (fun e => match e with EX a h => (a, h) end) exec)
            cap
            (fun d => if N.eqb d eth_id then pcap else default_cap)
            def
            (fun d p => raw_find d p raw)
            eth_id
            (map (fun e => match e with CR id en eh => (id, (en, eh)) end) cry)
            (fun k => sig_find k sigs)
            (fun k => sig_from k sigs)
  end.

(** ** model agreement with an unknown iteration order: follow every cache
    state that is consistent with the answers seen so far *)

Definition lru_eqb {V} (veq : V -> V -> bool) (a b : lru V) : bool :=
  list_eqb (fun x y => N.eqb (fst x) (fst y) && veq (snd x) (snd y)) a b.

Definition state_eqb (a b : state) : bool :=
  lru_eqb err_eqb (s_chk a) (s_chk b)
  && list_eqb (fun x y => N.eqb (fst x) (fst y) && lru_eqb bytes_eqb (snd x) (snd y))
       (s_pub a) (s_pub b).

Fixpoint dedup_err (l : list err) : list err :=
  match l with
  | [] => []
  | e :: tl => if existsb (err_eqb e) tl then dedup_err tl else e :: dedup_err tl
  end.

(** values the driver loop may yield for this operation (closed form, see
    [C19_possible_results_exact]) *)
Definition miss_cands (c : config) (o : op) : list err :=
  match o with
  | OCheck a h | ODapp a h => dedup_err (possible c a h)
  | _ => [ENil]
  end.

Fixpoint add_state (s : state) (l : list state) : list state :=
  match l with
  | [] => [s]
  | x :: tl => if state_eqb s x then l else x :: add_state s tl
  end.

Definition next_states (c : config) (sts : list state) (o : op) (a : ans) : list state :=
  fold_left (fun acc st =>
    fold_left (fun acc' e =>
      let (st', a') := step_v c st o e in
      if ans_eqb a' a then add_state st' acc' else acc') (miss_cands c o) acc) sts [].

Definition fresh_agrees (c : config) (o : op) (fa : ans) : bool :=
  existsb (fun e => ans_eqb (snd (step_v c st0 o e)) fa) (miss_cands c o).

(** ** known-finding signatures (narrow; evaluated on the first divergence only) *)

Definition enabled_vec (c : config) (h : Z) : list bool :=
  map (fun p => is_enable h (snd p)) (c_drv c).

Definition same_addr_query (c : config) (a : N) (o' : op) : option Z :=
  match o' with
  | OCheck a' h' => if N.eqb a a' then Some h' else None
  | ODapp a' h' => if N.eqb a a' && negb (is_drv_addr c a' h') then Some h' else None
  | _ => None
  end.

(* an earlier query of the same address at a height with a different set of enabled drivers *)
Definition other_side (c : config) (prev : list op) (a : N) (h : Z) : bool :=
  existsb (fun o' => match same_addr_query c a o' with
                     | Some h' => negb (list_eqb Bool.eqb (enabled_vec c h) (enabled_vec c h'))
                     | None => false
                     end) prev.

(* >= 2 enabled drivers reject the address with different errors, at the height
   of this query or of an earlier query of the same address *)
Definition ambiguous_somewhere (c : config) (prev : list op) (a : N) (h : Z) : bool :=
  negb (unambiguous c a h)
  || existsb (fun o' => match same_addr_query c a o' with
                        | Some h' => negb (unambiguous c a h')
                        | None => false
                        end) prev.

Definition pre_fork (c : config) (h : Z) : bool :=
  negb (is_fork h (c_fmulti c)) || negb (is_fork h (c_fb58 c)).

(* the public-key conversion an operation performs: driver, key, context height
   (Transaction.CheckSign converts the signer's key since 909acb0) *)
Definition conv_of (c : config) (o : op) : option (N * N * Z) :=
  match o with
  | OPub d p h => Some (resolve_drv c d, p, h)
  | OFrom d p h => Some (d, p, h)
  | OSign k h => match c_sfrom c k with Some (d, p) => Some (d, p, h) | None => None end
  | _ => None
  end.

Definition pub_other_side_id (c : config) (prev : list op) (id : N) (p : N) (h : Z) : bool :=
  N.eqb id (c_eth c)
  && existsb (fun o' => match conv_of c o' with
                        | Some (id', p', h') =>
                            N.eqb id' id && N.eqb p p'
                            && negb (Bool.eqb (is_fork h (c_ffmt c)) (is_fork h' (c_ffmt c)))
                        | None => false
                        end) prev.

Definition pub_other_side (c : config) (prev : list op) (d : Z) (p : N) (h : Z) : bool :=
  pub_other_side_id c prev (resolve_drv c d) p h.

(** codes (known_findings/C19.json):
    1 = same address queried at two heights with different enabled driver sets (cache poisoning)
    2 = >= 2 enabled drivers reject with different errors: error identity depends on map order
    3 = dapp.CheckAddress below ForkMultiSignAddress/ForkBase58AddressCheck: validity depends on map order
    4 = same public key converted by the eth driver on both sides of ForkFormatAddressKey *)
Definition kf_code (c : config) (prev : list op) (o : op) (ha : ans) (fresh : list ans) : N :=
  let sp := spec_answer c o in
  let fresh_bad := existsb (fun fa => negb (ans_eqb fa sp)) fresh in
  match o with
  | OCheck a h | ODapp a h =>
      let is_dapp := match o with ODapp _ _ => true | _ => false end in
      let by_order (amb : bool) (bad : list ans) : N :=
        if negb amb then 0%N
        else if forallb (fun x => Bool.eqb (ans_valid x) (ans_valid sp)) bad then 2%N
        else if is_dapp && pre_fork c h then 3%N else 0%N in
      if fresh_bad then by_order (negb (unambiguous c a h)) fresh
      else if other_side c prev a h then 1%N
      else by_order (ambiguous_somewhere c prev a h) [ha]
  | OPub d p h =>
      if fresh_bad then 0%N else if pub_other_side c prev d p h then 4%N else 0%N
  | OFrom d p h =>
      if fresh_bad then 0%N else if pub_other_side_id c prev d p h then 4%N else 0%N
  | OSign _ _ => 0%N
  end.

(** ** the fold *)
Record fstate := mkF {
  f_sts : list state;      (* model cache states consistent with the answers so far *)
  f_m : bool;              (* model agreed so far *)
  f_div : option N;        (* known-finding code of the first spec divergence *)
  f_vbad : bool;           (* a validity-level divergence on a [vclaim] operation *)
  f_prev : list op }.

Definition fold_obs (c : config) (st : fstate) (x : obsI) : fstate :=
  match x with
  | Ob o ha fresh =>
      let nxt := next_states c (f_sts st) o ha in
      let m_hist := negb (Nat.eqb (length nxt) 0) in
      let m_fresh := forallb (fresh_agrees c o) fresh in
      let sp := spec_answer c o in
      let s_ok := ans_eqb ha sp && forallb (fun fa => ans_eqb fa sp) fresh in
      let v_ok := negb (vclaim c o)
                  || forallb (fun x => Bool.eqb (ans_valid x) (ans_valid sp)) (ha :: fresh) in
      let div := match f_div st with
                 | Some k => Some k
                 | None => if s_ok then None else Some (kf_code c (f_prev st) o ha fresh)
                 end in
      mkF (if m_hist then nxt else f_sts st) (f_m st && m_hist && m_fresh) div
          (f_vbad st || negb v_ok) (o :: f_prev st)
  end.

Definition check_case (x : case) : verdict :=
  match x with
  | Hist g ci h =>
      let c := cfg_of ci in
      let ops := map (fun x => match x with Ob o _ _ => o end) h in
      let st := fold_left (fold_obs c) h (mkF [st0] true None false []) in
      (* the generator's claim about the stream must be true *)
      let gen_ok := (if (1 <=? g)%N then vguard_b c ops else true)
                    && (if (2 <=? g)%N then guard_b c ops else true) in
      let m := f_m st && gen_ok in
      if (1 <=? g)%N && f_vbad st then (m, false, 0%N)
      else match f_div st with
           | Some k => (m, false, if (2 <=? g)%N then 0%N else k)
           | None => (m, true, 0%N)
           end
  | TcHist g ci h => check_tc g ci h
  end.
