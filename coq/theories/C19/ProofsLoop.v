(** C19 — the driver loop of CheckAddress under every iteration order. *)
From Coq Require Import List ZArith NArith Bool Permutation Lia.
From C33 Require Import Lib.Harness C19.Model C19.Spec.
Import ListNotations.
Open Scope Z_scope.

Lemma err_eqb_eq : forall a b, err_eqb a b = true <-> a = b.
Proof.
  intros a b; split; intro H.
  - destruct a, b; try reflexivity; discriminate H.
  - subst b; destruct a; reflexivity.
Qed.

Lemma err_eqb_refl : forall a, err_eqb a a = true.
Proof. intro a; apply err_eqb_eq; reflexivity. Qed.

Lemma is_nil_eq : forall e, is_nil e = true <-> e = ENil.
Proof. intro e; apply err_eqb_eq. Qed.

Lemma last_nonempty_default : forall {A} (l : list A) (d1 d2 : A),
  l <> [] -> last l d1 = last l d2.
Proof.
  induction l as [|x l IH]; intros d1 d2 Hne; [congruence|].
  destruct l as [|y l]; [reflexivity|].
  change (last (y :: l) d1 = last (y :: l) d2). apply IH. discriminate.
Qed.

Lemma last_in : forall {A} (l : list A) (d : A), l <> [] -> In (last l d) l.
Proof.
  induction l as [|x l IH]; intros d Hne; [congruence|].
  destruct l as [|y l]; [left; reflexivity|].
  right. change (In (last (y :: l) d) (y :: l)). apply IH. discriminate.
Qed.

Lemma last_cons_default : forall {A} (l : list A) (x e : A), last (x :: l) e = last l x.
Proof.
  intros A l x e. destruct l as [|y l]; [reflexivity|].
  change (last (y :: l) e = last (y :: l) x). apply last_nonempty_default. discriminate.
Qed.

Section Loop.
  Variable val : N -> err.
  Variable h : Z.

  Definition en_b (p : N * Z) : bool := is_enable h (snd p).
  Definition acc_b (p : N * Z) : bool := is_nil (val (fst p)).

  (** an enabled accepting driver anywhere in the order: nil *)
  Lemma loop_accept : forall ds e,
    existsb acc_b (filter en_b ds) = true -> loop val h ds e = ENil.
  Proof.
    induction ds as [|[d en] tl IH]; intros e Hx; simpl in *.
    - discriminate.
    - unfold en_b in Hx at 1; simpl in Hx.
      destruct (is_enable h en) eqn:He.
      + simpl in Hx. unfold acc_b in Hx at 1; simpl in Hx.
        destruct (is_nil (val d)) eqn:Hn; [reflexivity|].
        simpl in Hx. apply IH; exact Hx.
      + apply IH; exact Hx.
  Qed.

  (** no enabled accepting driver: the error of the last enabled driver visited *)
  Lemma loop_reject : forall ds e,
    existsb acc_b (filter en_b ds) = false ->
    loop val h ds e = last (map (fun p => val (fst p)) (filter en_b ds)) e.
  Proof.
    induction ds as [|[d en] tl IH]; intros e Hx; simpl in *.
    - reflexivity.
    - unfold en_b at 1 2; simpl. unfold en_b in Hx at 1; simpl in Hx.
      destruct (is_enable h en) eqn:He.
      + simpl in Hx. unfold acc_b in Hx at 1; simpl in Hx.
        destruct (is_nil (val d)) eqn:Hn; [discriminate Hx|].
        simpl in Hx. rewrite (IH _ Hx).
        change (map (fun p => val (fst p)) ((d, en) :: filter en_b tl))
          with (val d :: map (fun p => val (fst p)) (filter en_b tl)).
        symmetry. apply last_cons_default.
      + apply IH; exact Hx.
  Qed.
End Loop.

Lemma existsb_perm : forall {A} (f : A -> bool) (l1 l2 : list A),
  Permutation l1 l2 -> existsb f l1 = existsb f l2.
Proof.
  intros A f l1 l2 P; induction P; simpl.
  - reflexivity.
  - rewrite IHP; reflexivity.
  - destruct (f x), (f y); reflexivity.
  - congruence.
Qed.

Lemma filter_perm : forall {A} (f : A -> bool) (l1 l2 : list A),
  Permutation l1 l2 -> Permutation (filter f l1) (filter f l2).
Proof.
  intros A f l1 l2 P; induction P; simpl.
  - constructor.
  - destruct (f x); [constructor|]; assumption.
  - destruct (f x), (f y); try apply Permutation_refl. apply perm_swap.
  - eapply Permutation_trans; eassumption.
Qed.

(** *** the closed form [possible] is exactly the set of loop results over all orders *)

Definition acc_of (c : config) (a : N) (p : N * Z) : bool := is_nil (c_val c (fst p) a).

Lemma miss_in_possible : forall c perm a h,
  Permutation perm (c_drv c) -> In (miss_result c perm a h) (possible c a h).
Proof.
  intros c perm a h P. unfold miss_result, possible, enabled_drivers.
  set (val := fun d => c_val c d a).
  assert (Pf : Permutation (filter (en_b h) perm) (filter (en_b h) (c_drv c)))
    by (apply filter_perm; exact P).
  change (filter (fun p => is_enable h (snd p)) (c_drv c)) with (filter (en_b h) (c_drv c)).
  change (fun p : N * Z => is_nil (c_val c (fst p) a)) with (acc_b val).
  rewrite <- (existsb_perm (acc_b val) _ _ Pf).
  destruct (existsb (acc_b val) (filter (en_b h) perm)) eqn:Hx.
  - rewrite (loop_accept val h perm ENil Hx). left; reflexivity.
  - rewrite (loop_reject val h perm ENil Hx).
    destruct (filter (en_b h) (c_drv c)) as [|q qs] eqn:Hq.
    + apply Permutation_sym in Pf. apply Permutation_nil in Pf. rewrite Pf. left; reflexivity.
    + assert (Hne : filter (en_b h) perm <> []).
      { intro E. rewrite E in Pf. apply Permutation_nil in Pf. discriminate. }
      change (fun p : N * Z => c_val c (fst p) a) with (fun p : N * Z => val (fst p)).
      assert (Hin : In (last (map (fun p => val (fst p)) (filter (en_b h) perm)) ENil)
                       (map (fun p => val (fst p)) (filter (en_b h) perm))).
      { apply last_in. intro E. apply map_eq_nil in E. contradiction. }
      apply in_map_iff in Hin as [p [Hp Hin]].
      rewrite <- Hp. apply in_map_iff. exists p. split; [reflexivity|].
      eapply Permutation_in; eassumption.
Qed.

Lemma possible_reachable : forall c a h e,
  In e (possible c a h) ->
  exists perm, Permutation perm (c_drv c) /\ miss_result c perm a h = e.
Proof.
  intros c a h e Hin. unfold possible, enabled_drivers in Hin.
  set (val := fun d => c_val c d a) in *.
  change (filter (fun p => is_enable h (snd p)) (c_drv c)) with (filter (en_b h) (c_drv c)) in Hin.
  change (fun p : N * Z => is_nil (c_val c (fst p) a)) with (acc_b val) in Hin.
  destruct (existsb (acc_b val) (filter (en_b h) (c_drv c))) eqn:Hx.
  - destruct Hin as [<-|[]]. exists (c_drv c). split; [apply Permutation_refl|].
    unfold miss_result. apply (loop_accept val h); exact Hx.
  - destruct (filter (en_b h) (c_drv c)) as [|q qs] eqn:Hq.
    + destruct Hin as [<-|[]]. exists (c_drv c). split; [apply Permutation_refl|].
      unfold miss_result. fold val. rewrite (loop_reject val h).
      * rewrite Hq. reflexivity.
      * rewrite Hq. reflexivity.
    + change (fun p : N * Z => c_val c (fst p) a) with (fun p : N * Z => val (fst p)) in Hin.
      apply in_map_iff in Hin as [p [Hp Hin]].
      rewrite <- Hq in Hin. apply filter_In in Hin as [Hin Hen].
      apply in_split in Hin as [l1 [l2 Hs]].
      exists (l1 ++ l2 ++ [p]). split.
      * rewrite Hs. apply Permutation_app_head.
        change (p :: l2) with ([p] ++ l2). apply Permutation_app_comm.
      * unfold miss_result. fold val.
        assert (Pm : Permutation (l1 ++ l2 ++ [p]) (c_drv c)).
        { rewrite Hs. apply Permutation_app_head.
          change (p :: l2) with ([p] ++ l2). apply Permutation_app_comm. }
        rewrite (loop_reject val h).
        -- rewrite !filter_app. simpl. rewrite Hen. rewrite !map_app. simpl.
           rewrite app_assoc. rewrite last_last. exact Hp.
        -- rewrite (existsb_perm _ _ _ (filter_perm (en_b h) _ _ Pm)). rewrite Hq. exact Hx.
Qed.

(** *** validity does not depend on the order *)
Lemma miss_valid : forall c perm a h,
  Permutation perm (c_drv c) -> is_nil (miss_result c perm a h) = spec_valid c a h.
Proof.
  intros c perm a h P. unfold miss_result, spec_valid, enabled_drivers.
  set (val := fun d => c_val c d a).
  assert (Pf : Permutation (filter (en_b h) perm) (filter (en_b h) (c_drv c)))
    by (apply filter_perm; exact P).
  change (filter (fun p => is_enable h (snd p)) (c_drv c)) with (filter (en_b h) (c_drv c)).
  change (fun p : N * Z => is_nil (c_val c (fst p) a)) with (acc_b val).
  rewrite <- (existsb_perm (acc_b val) _ _ Pf).
  rewrite <- (Permutation_length Pf).
  destruct (existsb (acc_b val) (filter (en_b h) perm)) eqn:Hx.
  - rewrite (loop_accept val h perm ENil Hx). reflexivity.
  - rewrite (loop_reject val h perm ENil Hx). simpl.
    destruct (filter (en_b h) perm) as [|q qs] eqn:Hq; [reflexivity|].
    simpl length. simpl Nat.eqb.
    assert (Hin : In (last (map (fun p => val (fst p)) (q :: qs)) ENil)
                     (map (fun p => val (fst p)) (q :: qs))).
    { apply last_in. discriminate. }
    apply in_map_iff in Hin as [p [Hp Hin]]. rewrite <- Hp.
    destruct (is_nil (val (fst p))) eqn:Hn; [|reflexivity].
    exfalso. assert (existsb (acc_b val) (q :: qs) = true).
    { apply existsb_exists. exists p. split; [exact Hin|exact Hn]. }
    congruence.
Qed.

Lemma filter_rev_own : forall {A} (f : A -> bool) (l : list A), filter f (rev l) = rev (filter f l).
Proof.
  intros A f l. induction l as [|x l IH]; [reflexivity|].
  simpl. rewrite filter_app, IH. simpl. destruct (f x); simpl; [reflexivity|apply app_nil_r].
Qed.

Lemma last_rev_hd : forall {A} (l : list A) (d : A), last (rev l) d = hd d l.
Proof.
  intros A l d. destruct l as [|x l]; [reflexivity|]. simpl. apply last_last.
Qed.

(** the spec's error is the loop result when the drivers are visited in
    reverse registration order (highest id first, lowest id last) *)
Lemma spec_under_canonical : forall c a h, spec_under c a h = miss_result c (rev (c_drv c)) a h.
Proof.
  intros c a h. unfold spec_under, spec_valid, miss_result, enabled_drivers.
  set (val := fun d => c_val c d a).
  change (filter (fun p => is_enable h (snd p)) (c_drv c)) with (filter (en_b h) (c_drv c)).
  change (fun p : N * Z => is_nil (c_val c (fst p) a)) with (acc_b val).
  change (fun p : N * Z => c_val c (fst p) a) with (fun p : N * Z => val (fst p)).
  assert (Ex : existsb (acc_b val) (filter (en_b h) (rev (c_drv c)))
               = existsb (acc_b val) (filter (en_b h) (c_drv c))).
  { apply existsb_perm. apply filter_perm. apply Permutation_sym. apply Permutation_rev. }
  destruct (existsb (acc_b val) (filter (en_b h) (c_drv c))) eqn:Hx.
  - simpl. symmetry. apply (loop_accept val h). rewrite Ex. reflexivity.
  - rewrite (loop_reject val h _ _ Ex). simpl.
    rewrite filter_rev_own, map_rev, last_rev_hd.
    destruct (filter (en_b h) (c_drv c)); reflexivity.
Qed.

Lemma rev_perm : forall c, Permutation (rev (c_drv c)) (c_drv c).
Proof. intro c. apply Permutation_sym. apply Permutation_rev. Qed.

Lemma spec_under_in_possible : forall c a h, In (spec_under c a h) (possible c a h).
Proof.
  intros. rewrite spec_under_canonical. apply miss_in_possible. apply rev_perm.
Qed.

Lemma spec_under_valid : forall c a h, is_nil (spec_under c a h) = spec_valid c a h.
Proof.
  intros. rewrite spec_under_canonical. apply miss_valid. apply rev_perm.
Qed.

(** under the [unambiguous] guard every order gives the spec's error *)
Lemma miss_unambiguous : forall c perm a h,
  Permutation perm (c_drv c) -> unambiguous c a h = true ->
  miss_result c perm a h = spec_under c a h.
Proof.
  intros c perm a h P U. unfold unambiguous in U.
  rewrite forallb_forall in U. apply err_eqb_eq. apply U.
  apply miss_in_possible; exact P.
Qed.
