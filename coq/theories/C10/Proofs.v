(** C10 — every guarded operation preserves the invariant and answers like
    the abstract map; the main refinement theorem. *)
From Coq Require Import List NArith ZArith Bool Lia.
From C33 Require Import Lib.Bytes Lib.OMap C10.Model C10.Spec C10.ProofsKeys C10.ProofsInv C10.ProofsSave C10.ProofsQuery.
Import ListNotations.

Lemma inv_init : inv init [] [].
Proof.
  constructor; simpl; auto; try exact I; try (intros p d H; discriminate);
    try (intro p; left; auto).
Qed.

Lemma live_set_data p d r : live p (set_data d r) = live p r.
Proof. reflexivity. Qed.

Lemma live_tnone p r : live p (set_ty TNone r) = false.
Proof. unfold live. simpl. apply andb_false_r. Qed.

Lemma live_tdel p r : c_pk r = p -> live p (del_copy r) = true.
Proof. intro P. unfold live. simpl. rewrite P, beqb_refl. auto. Qed.

Lemma crow_ok_set_data d r : crow_ok r -> data_ok d = true -> crow_ok (set_data d r).
Proof. intros [A [B C]] D. unfold crow_ok. simpl. auto. Qed.

Lemma crow_ok_set_ty t r : crow_ok r -> t <> TUpdate -> crow_ok (set_ty t r).
Proof. intros [A [B C]] N. unfold crow_ok. simpl. split; [|split]; auto; congruence. Qed.

Lemma crow_ok_del_copy r : crow_ok r -> crow_ok (del_copy r).
Proof.
  intros [A [B C]]. unfold crow_ok, del_copy. cbn [c_data c_old c_ty].
  split; [|split]; auto; try discriminate.
  destruct (c_old r) as [d0|]; auto.
Qed.

(** ** a new cached row for a key without pending row *)
Lemma inv_append st m0 m p r' :
  inv st m0 m -> c_pk r' = p -> r_pk (c_data r') = p -> crow_ok r' ->
  lives p (rows st) = [] -> get p (rmap st) = None ->
  ((c_ty r' = TAdd /\ get p m0 = None) \/
   (c_ty r' = TUpdate /\ exists d0, c_old r' = Some d0 /\ get p m0 = Some d0)) ->
  inv (add_row_cache st r') m0 (put p (c_data r') m).
Proof.
  intros I P PK CR L R T.
  assert (RM : rmap (add_row_cache st r') = put p (length (rows st)) (rmap st)).
  { unfold add_row_cache. simpl. rewrite P. destruct T as [[-> _]|[-> _]]; auto. }
  constructor.
  - exact (i_kv _ _ _ I).
  - exact (i_s0 _ _ _ I).
  - apply put_sorted, (i_s _ _ _ I).
  - rewrite RM. apply put_sorted, (i_srm _ _ _ I).
  - exact (i_ok0 _ _ _ I).
  - apply rows_ok_put; [exact (i_ok _ _ _ I)|auto|exact (proj1 CR)].
  - simpl. apply Forall_app. split; [exact (i_rows _ _ _ I)|constructor; auto].
  - intro q. rewrite RM. simpl. destruct (bytes_eq_dec q p) as [->|N].
    + rewrite !get_put_same. simpl. exists r'. rewrite lives_app, L. simpl.
      assert (LV : live p r' = true).
      { unfold live. rewrite P, beqb_refl. destruct T as [[-> _]|[-> _]]; auto. }
      rewrite LV. repeat split; auto.
      rewrite nth_error_app2, Nat.sub_diag; auto.
    + rewrite !get_put_other by auto. apply kinv_frame_app; [congruence|apply (i_keys _ _ _ I)].
Qed.

(** ** in-place change of the cached row's data *)
Lemma inv_set_data st m0 m p i r d :
  inv st m0 m -> nth_error (rows st) i = Some r -> c_pk r = p -> lives p (rows st) = [r] ->
  get p (rmap st) = Some i ->
  ((c_ty r = TAdd /\ get p m0 = None) \/
   (c_ty r = TUpdate /\ exists d0, c_old r = Some d0 /\ get p m0 = Some d0)) ->
  data_ok d = true -> r_pk d = p ->
  inv (mkSt (kv st) (set_nth i (set_data d r) (rows st)) (rmap st)) m0 (put p d m).
Proof.
  intros I N P L R T D PK.
  assert (CR : crow_ok r).
  { eapply Forall_forall; [apply (i_rows _ _ _ I)|]. eapply nth_error_In; eauto. }
  constructor; simpl.
  - exact (i_kv _ _ _ I).
  - exact (i_s0 _ _ _ I).
  - apply put_sorted, (i_s _ _ _ I).
  - exact (i_srm _ _ _ I).
  - exact (i_ok0 _ _ _ I).
  - apply rows_ok_put; [exact (i_ok _ _ _ I)|auto|auto].
  - apply Forall_set_nth; [exact (i_rows _ _ _ I)|]. apply crow_ok_set_data; auto.
  - intro q. destruct (bytes_eq_dec q p) as [->|NE].
    + rewrite R, get_put_same. simpl. exists (set_data d r).
      rewrite (lives_set_nth_same p i r _ _ N L (live_of_lives _ _ _ L)).
      rewrite live_set_data, (live_of_lives _ _ _ L).
      repeat split; auto. eapply nth_set_nth_same; eauto.
    + rewrite get_put_other by auto.
      eapply kinv_frame_set; eauto; simpl; try congruence. apply (i_keys _ _ _ I).
Qed.

(** ** Del of a row added in this window *)
Lemma inv_del_added st m0 m p i r :
  inv st m0 m -> nth_error (rows st) i = Some r -> c_pk r = p -> lives p (rows st) = [r] ->
  get p (rmap st) = Some i -> c_ty r = TAdd -> get p m0 = None ->
  inv (mkSt (kv st) (set_nth i (set_ty TNone r) (rows st)) (del p (rmap st))) m0 (del p m).
Proof.
  intros I N P L R T O0.
  assert (CR : crow_ok r).
  { eapply Forall_forall; [apply (i_rows _ _ _ I)|]. eapply nth_error_In; eauto. }
  constructor; simpl.
  - exact (i_kv _ _ _ I).
  - exact (i_s0 _ _ _ I).
  - apply del_sorted, (i_s _ _ _ I).
  - apply del_sorted, (i_srm _ _ _ I).
  - exact (i_ok0 _ _ _ I).
  - apply rows_ok_del; [exact (i_s _ _ _ I)|exact (i_ok _ _ _ I)].
  - apply Forall_set_nth; [exact (i_rows _ _ _ I)|]. apply crow_ok_set_ty; auto. discriminate.
  - intro q. destruct (bytes_eq_dec q p) as [->|NE].
    + rewrite (get_del_same p (rmap st) (i_srm _ _ _ I)), (get_del_same p m (i_s _ _ _ I)). simpl. left.
      rewrite (lives_set_nth_same p i r _ _ N L (live_of_lives _ _ _ L)).
      rewrite live_tnone. auto.
    + rewrite !get_del_other by auto.
      eapply kinv_frame_set; eauto; simpl; try congruence. apply (i_keys _ _ _ I).
Qed.

(** ** Del of a saved row with a pending update: the Del row carries the saved data *)
Lemma inv_del_updated st m0 m p i r d0 :
  inv st m0 m -> nth_error (rows st) i = Some r -> c_pk r = p -> lives p (rows st) = [r] ->
  get p (rmap st) = Some i -> c_ty r = TUpdate -> c_old r = Some d0 -> get p m0 = Some d0 ->
  inv (add_row_cache (mkSt (kv st) (set_nth i (set_ty TNone r) (rows st)) (del p (rmap st)))
         (del_copy r)) m0 (del p m).
Proof.
  intros I N P L R T Old O0.
  assert (CR : crow_ok r).
  { eapply Forall_forall; [apply (i_rows _ _ _ I)|]. eapply nth_error_In; eauto. }
  unfold add_row_cache. simpl. rewrite P.
  constructor; simpl.
  - exact (i_kv _ _ _ I).
  - exact (i_s0 _ _ _ I).
  - apply del_sorted, (i_s _ _ _ I).
  - apply del_sorted, del_sorted, (i_srm _ _ _ I).
  - exact (i_ok0 _ _ _ I).
  - apply rows_ok_del; [exact (i_s _ _ _ I)|exact (i_ok _ _ _ I)].
  - apply Forall_app. split.
    + apply Forall_set_nth; [exact (i_rows _ _ _ I)|]. apply crow_ok_set_ty; auto. discriminate.
    + constructor; auto. apply crow_ok_del_copy; auto.
  - intro q. destruct (bytes_eq_dec q p) as [->|NE].
    + rewrite (get_del_same p _ (del_sorted p _ (i_srm _ _ _ I))), (get_del_same p m (i_s _ _ _ I)). simpl. right.
      exists (del_copy r), d0. rewrite lives_app.
      rewrite (lives_set_nth_same p i r _ _ N L (live_of_lives _ _ _ L)).
      rewrite live_tnone. cbn [lives filter app]. rewrite (live_tdel p r P).
      repeat split; auto. unfold del_copy. rewrite Old. reflexivity.
    + rewrite !get_del_other by auto.
      apply kinv_frame_app; [simpl; congruence|].
      eapply kinv_frame_set; eauto; simpl; try congruence. apply (i_keys _ _ _ I).
Qed.

(** ** Del of a saved row without pending row *)
Lemma inv_del_saved st m0 m p d0 :
  inv st m0 m -> lives p (rows st) = [] -> get p (rmap st) = None -> get p m0 = Some d0 ->
  inv (add_row_cache st (mkC TDel p d0 None)) m0 (del p m).
Proof.
  intros I L R O0. destruct (i_ok0 _ _ _ I _ _ O0) as [_ D0].
  unfold add_row_cache. simpl.
  constructor; simpl.
  - exact (i_kv _ _ _ I).
  - exact (i_s0 _ _ _ I).
  - apply del_sorted, (i_s _ _ _ I).
  - apply del_sorted, (i_srm _ _ _ I).
  - exact (i_ok0 _ _ _ I).
  - apply rows_ok_del; [exact (i_s _ _ _ I)|exact (i_ok _ _ _ I)].
  - apply Forall_app. split; [exact (i_rows _ _ _ I)|]. constructor; auto.
    repeat split; simpl; auto; discriminate.
  - intro q. destruct (bytes_eq_dec q p) as [->|NE].
    + rewrite (get_del_same p (rmap st) (i_srm _ _ _ I)), (get_del_same p m (i_s _ _ _ I)). simpl. right.
      assert (LV : live p (mkC TDel p d0 None) = true)
        by (unfold live; cbn [c_pk c_ty]; rewrite beqb_refl; auto).
      exists (mkC TDel p d0 None), d0. rewrite lives_app, L. cbn [lives filter app]. rewrite LV.
      repeat split; auto.
    + rewrite !get_del_other by auto. apply kinv_frame_app; [simpl; congruence|apply (i_keys _ _ _ I)].
Qed.

(** ** one guarded operation *)
Definition step_refines (st : state) (m0 m : tbl) (o : op) : Prop :=
  exists st', step st o = (fst (s_step m o), st') /\ inv st' m0 (snd (s_step m o)).

Lemma crow_ok_add p d : data_ok d = true -> crow_ok (mkC TAdd p d None).
Proof. intro D. unfold crow_ok. simpl. split; [|split]; auto; discriminate. Qed.

Lemma crow_ok_upd p d d0 : data_ok d = true -> data_ok d0 = true -> crow_ok (mkC TUpdate p d (Some d0)).
Proof.
  intros D D0. unfold crow_ok. simpl. split; [|split]; auto.
  - intros x H. inversion H; subst; auto.
  - discriminate.
Qed.

Lemma step_add st m0 m d :
  inv st m0 m -> data_ok d = true -> deleted_saved m0 m (r_pk d) = false ->
  step_refines st m0 m (OAdd d).
Proof.
  intros I D ND. unfold step_refines. simpl.
  destruct (find_row_spec _ _ _ _ I ND) as [i r R F N P L O T | d0 R L O0 O F | R L O0 O F];
    unfold m_add, mem; rewrite F, O; simpl.
  - eexists; split; eauto.
  - eexists; split; eauto.
  - eexists; split; [reflexivity|].
    apply (inv_append st m0 m (r_pk d) (mkC TAdd (r_pk d) d None)); auto.
    apply crow_ok_add; auto.
Qed.

Lemma step_replace st m0 m d :
  inv st m0 m -> data_ok d = true -> deleted_saved m0 m (r_pk d) = false ->
  step_refines st m0 m (OReplace d).
Proof.
  intros I D ND. unfold step_refines. simpl.
  destruct (find_row_spec _ _ _ _ I ND) as [i r R F N P L O T | d0 R L O0 O F | R L O0 O F];
    unfold m_replace; rewrite F; simpl.
  - eexists; split; [reflexivity|]. eapply inv_set_data; eauto.
  - eexists; split; [reflexivity|].
    apply (inv_append st m0 m (r_pk d) (mkC TUpdate (r_pk d) d (Some d0))); auto.
    + apply crow_ok_upd; auto. apply (i_ok0 _ _ _ I _ _ O0).
    + right. split; auto. exists d0. auto.
  - eexists; split; [reflexivity|].
    apply (inv_append st m0 m (r_pk d) (mkC TAdd (r_pk d) d None)); auto.
    apply crow_ok_add; auto.
Qed.

Lemma step_update st m0 m pk d :
  inv st m0 m -> op_safe m0 m (OUpdate pk d) = true -> step_refines st m0 m (OUpdate pk d).
Proof.
  intros I G. unfold step_refines. simpl in *. unfold m_update.
  destruct (beqb (r_pk d) pk) eqn:B; simpl.
  - apply beqb_eq in B. subst pk. apply andb_true_iff in G. destruct G as [D ND].
    apply negb_true_iff in ND.
    destruct (find_row_spec _ _ _ _ I ND) as [i r R F N P L O T | d0 R L O0 O F | R L O0 O F];
      unfold mem; rewrite F, O; simpl.
    + eexists; split; [reflexivity|]. eapply inv_set_data; eauto.
    + eexists; split; [reflexivity|].
      apply (inv_append st m0 m (r_pk d) (mkC TUpdate (r_pk d) d (Some d0))); auto.
      * apply crow_ok_upd; auto. apply (i_ok0 _ _ _ I _ _ O0).
      * right. split; auto. exists d0. auto.
    + eexists; split; eauto.
  - eexists; split; eauto.
Qed.

Lemma step_del st m0 m p :
  inv st m0 m -> del_safe m0 m p = true ->
  exists st', m_del st p = (fst (s_step m (ODel p)), st') /\ inv st' m0 (snd (s_step m (ODel p))).
Proof.
  intros I ND. unfold del_safe in ND. apply negb_true_iff in ND. simpl.
  destruct (find_row_spec _ _ _ _ I ND) as [i r R F N P L O T | d0 R L O0 O F | R L O0 O F];
    unfold m_del, mem; rewrite F, O; simpl.
  - rewrite P. destruct T as [[Ty O0]|[Ty [d0 [Old O0]]]]; rewrite Ty.
    + eexists; split; [reflexivity|]. eapply inv_del_added; eauto.
    + eexists; split; [reflexivity|]. eapply inv_del_updated; eauto.
  - eexists; split; [reflexivity|]. unfold set_ty. simpl. apply inv_del_saved; auto.
  - eexists; split; eauto.
Qed.

Lemma step_ok st m0 m o :
  inv st m0 m -> op_safe m0 m o = true -> is_save o = false -> step_refines st m0 m o.
Proof.
  intros I G NS. destruct o; simpl in G; try discriminate.
  - apply andb_true_iff in G. destruct G as [D ND]. apply negb_true_iff in ND. apply step_add; auto.
  - apply andb_true_iff in G. destruct G as [D ND]. apply negb_true_iff in ND. apply step_replace; auto.
  - apply step_update; auto.
  - apply step_del; auto.
  - apply (step_del st m0 m (r_pk d)); auto.
Qed.

Lemma save_step st m0 m : inv st m0 m -> exists st', m_save st = (EOk, st') /\ inv st' m m.
Proof.
  intro I. destruct (save_correct _ _ _ I) as [st' [E [K [RW RM]]]].
  exists st'. split; auto. destruct st' as [k rw rm]. simpl in *. subst.
  constructor; simpl; auto; try exact (i_s _ _ _ I); try exact (i_ok _ _ _ I); try exact I;
    try (intro p; left; auto).
Qed.

(** ** histories *)
Lemma run_refines ops : forall st m0 m,
  inv st m0 m -> safe_from m0 m ops = true ->
  fst (run st ops) = fst (s_run m ops) /\
  exists m0', inv (snd (run st ops)) m0' (snd (s_run m ops)).
Proof.
  induction ops as [|o tl IH]; intros st m0 m I G; simpl.
  - split; auto. eauto.
  - simpl in G. apply andb_true_iff in G. destruct G as [G1 G2].
    destruct (is_save o) eqn:SV.
    + destruct o; try discriminate. simpl in *.
      destruct (save_step _ _ _ I) as [st1 [E I1]]. rewrite E.
      destruct (IH st1 m m I1 G2) as [A B].
      destruct (run st1 tl) as [es st2]. destruct (s_run m tl) as [es' m2]. simpl in *.
      split; [congruence|auto].
    + destruct (step_ok _ _ _ _ I G1 SV) as [st1 [E I1]]. rewrite E.
      destruct (s_step m o) as [e m1]. simpl in *.
      destruct (IH st1 m0 m1 I1 G2) as [A B].
      destruct (run st1 tl) as [es st2]. destruct (s_run m1 tl) as [es' m2]. simpl in *.
      split; [congruence|auto].
Qed.

Lemma run_app st a b : snd (run st (a ++ b)) = snd (run (snd (run st a)) b).
Proof.
  revert st; induction a as [|o a IH]; intro st; simpl; auto.
  destruct (step st o) as [e st1]. specialize (IH st1).
  destruct (run st1 (a ++ b)) as [es st2]. destruct (run st1 a) as [es' st3]. simpl in *. auto.
Qed.

Lemma safe_from_app a : forall m0 m b, safe_from m0 m (a ++ b) = true -> safe_from m0 m a = true.
Proof.
  induction a as [|o a IH]; intros m0 m b H; simpl in *; auto.
  apply andb_true_iff in H. destruct H as [H1 H2]. rewrite H1. simpl. eapply IH; eauto.
Qed.

Theorem table_refines_map_partial ops :
  safe_words ops = true -> errs_agree ops /\ saved_agrees ops.
Proof.
  intro G. destruct (run_refines ops init [] [] inv_init G) as [A [m0' I]].
  split; [exact A|]. unfold saved_agrees. rewrite run_app. simpl.
  destruct (save_correct _ _ _ I) as [st' [E [K _]]]. rewrite E. simpl. exact K.
Qed.

(** the same at every Save inside a guarded history *)
Theorem every_save_partial ops1 ops2 :
  safe_words (ops1 ++ OSave :: ops2) = true ->
  errs_agree ops1 /\ saved_agrees ops1.
Proof.
  intro G. apply table_refines_map_partial. unfold safe_words in *. eapply safe_from_app; eauto.
Qed.

(** full listings after the save of a guarded history return exactly the
    matching rows of the abstract map *)
Theorem queries_partial ops q :
  safe_words ops = true ->
  (forall p d, get p (snd (s_run [] ops)) = Some d -> p <> []) ->
  (match q_idx q with QPrimary => True | QIdx _ => sepfree (q_prefix q) = true end) ->
  q_start q = [] -> (q_count q <= 0)%Z ->
  exists rs,
    list_index (kv (snd (run init (ops ++ [OSave])))) q =
      ((match rs with [] => ENotFound | _ => EOk end), rs) /\
    forall p d, In (p, d) rs <-> (get p (snd (s_run [] ops)) = Some d /\ q_match q p d = true).
Proof.
  intros G NE SP ST C.
  destruct (table_refines_map_partial ops G) as [_ K]. unfold saved_agrees in K. rewrite K.
  destruct (run_refines ops init [] [] inv_init G) as [_ [m0' I]].
  apply list_index_full; auto; apply I.
Qed.

(** ** histories without Replace whose answers agree with the map

    Without the guard: if every call of a Replace-free history answered like
    the map, the history is inside the guard — the first operation outside it
    would be an Add/Update/Del on a key whose saved row was deleted in this
    window, and there table.go answers differently from the map (finding 1).
    So for such histories a Save leaves exactly the map's rows and index
    entries, whatever a pending Update changed before a Del. *)
Definition no_replace (ops : list op) : bool := forallb (fun o => negb (is_replace o)) ops.

Lemma find_row_deleted st m0 m p :
  inv st m0 m -> deleted_saved m0 m p = true ->
  exists d0, find_row st p = (EOk, Some (mkC TNone p d0 None), None) /\ get p m = None.
Proof.
  intros I DS. unfold deleted_saved in DS.
  destruct (get p m0) as [d0|] eqn:G0; [|discriminate].
  destruct (get p m) as [d|] eqn:G; [discriminate|].
  pose proof (i_keys _ _ _ I p) as K. unfold kinv in K. rewrite G0, G in K.
  destruct (get p (rmap st)) as [i|] eqn:R.
  - destruct K as [r [_ [_ [_ [O _]]]]]. discriminate.
  - exists d0. split; auto. unfold find_row. rewrite R, (i_kv _ _ _ I).
    rewrite get_data_encode by (apply I). rewrite G0. auto.
Qed.

Lemma run_cons_fst st o tl :
  fst (run st (o :: tl)) = fst (step st o) :: fst (run (snd (step st o)) tl).
Proof. simpl. destruct (step st o) as [e st1]. simpl. destruct (run st1 tl). auto. Qed.

Lemma s_run_cons_fst m o tl :
  fst (s_run m (o :: tl)) = fst (s_step m o) :: fst (s_run (snd (s_step m o)) tl).
Proof. simpl. destruct (s_step m o) as [e m1]. simpl. destruct (s_run m1 tl). auto. Qed.

Lemma agree_op_safe st m0 m o :
  inv st m0 m -> op_keys_ok o = true -> is_replace o = false ->
  fst (step st o) = fst (s_step m o) -> op_safe m0 m o = true.
Proof.
  intros I K NR A. destruct o as [d|d|pk d|pk|d|]; simpl in K, NR; try discriminate; cbn [op_safe].
  - rewrite K. destruct (deleted_saved m0 m (r_pk d)) eqn:DS; auto. exfalso.
    destruct (find_row_deleted _ _ _ _ I DS) as [d0 [F G]].
    simpl in A. unfold m_add, mem in A. rewrite F, G in A. discriminate.
  - destruct (beqb (r_pk d) pk) eqn:B; auto. rewrite K.
    destruct (deleted_saved m0 m pk) eqn:DS; auto. exfalso.
    destruct (find_row_deleted _ _ _ _ I DS) as [d0 [F G]].
    simpl in A. unfold m_update, mem in A. rewrite B, F, G in A. discriminate.
  - unfold del_safe. destruct (deleted_saved m0 m pk) eqn:DS; auto. exfalso.
    destruct (find_row_deleted _ _ _ _ I DS) as [d0 [F G]].
    simpl in A. unfold m_del, mem in A. rewrite F, G in A. discriminate.
  - unfold del_safe. destruct (deleted_saved m0 m (r_pk d)) eqn:DS; auto. exfalso.
    destruct (find_row_deleted _ _ _ _ I DS) as [d0 [F G]].
    simpl in A. unfold m_del, mem in A. rewrite F, G in A. discriminate.
  - reflexivity.
Qed.

Lemma agree_safe ops : forall st m0 m,
  inv st m0 m -> keys_ok ops = true -> no_replace ops = true ->
  fst (run st ops) = fst (s_run m ops) -> safe_from m0 m ops = true.
Proof.
  induction ops as [|o tl IH]; intros st m0 m I K NR A; [reflexivity|].
  unfold keys_ok, no_replace in K, NR. cbn [forallb] in K, NR.
  apply andb_true_iff in K, NR. destruct K as [K1 K2], NR as [NR1 NR2].
  apply negb_true_iff in NR1.
  rewrite run_cons_fst, s_run_cons_fst in A. inversion A as [[A1 A2]].
  pose proof (agree_op_safe _ _ _ _ I K1 NR1 A1) as G1.
  cbn [safe_from]. rewrite G1. cbn [andb].
  destruct (is_save o) eqn:SV.
  - destruct o; try discriminate. cbn [step s_step snd] in *.
    destruct (save_step _ _ _ I) as [st1 [E I1]]. rewrite E in A2. cbn [snd] in A2.
    apply (IH st1 m m I1 K2 NR2 A2).
  - destruct (step_ok _ _ _ _ I G1 SV) as [st1 [E I1]]. rewrite E in A2. cbn [snd] in A2.
    apply (IH st1 m0 _ I1 K2 NR2 A2).
Qed.

Theorem update_del_fixed ops :
  keys_ok ops = true -> forallb (fun o => negb (is_replace o)) ops = true ->
  errs_agree ops -> saved_agrees ops.
Proof.
  intros K NR A. apply table_refines_map_partial.
  exact (agree_safe ops init [] [] inv_init K NR A).
Qed.
