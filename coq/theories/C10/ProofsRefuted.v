(** C10 — refutations of the full statement (witnesses by computation) and
    non-vacuity examples for the guard. *)
From Coq Require Import List NArith ZArith Bool String.
From C33 Require Import Lib.Bytes Lib.OMap Lib.Harness C10.Model C10.Spec.
Import ListNotations.
Open Scope string_scope.

Definition k1 := bs "k1".
Definition k2 := bs "k2".
Definition w_r1 := mkRow k1 (bs "a") (bs "x") 1.
Definition w_r1b := mkRow k1 (bs "b") (bs "x") 1.
Definition w_r2 := mkRow k2 (bs "a") (bs "y") 2.

Definition w_del_add : list op := [OAdd w_r1; OSave; ODel k1; OAdd w_r1].
Definition w_del_replace : list op := [OAdd w_r1; OSave; ODel k1; OReplace w_r1].
Definition w_update_del : list op := [OAdd w_r1; OSave; OUpdate k1 w_r1b; ODel k1].
Definition w_sep : list op :=
  [OAdd (mkRow k1 (bs "a-b") (bs "y") 2); OAdd (mkRow (bs "b-k1") (bs "a") (bs "x") 1)].

(** 1. Del of a saved row, then Add of the same key before the next save:
    ErrDupPrimaryKey although the map says the key is absent. *)
Lemma refuted_del_add :
  ~ (forall ops, keys_ok ops = true -> errs_agree ops).
Proof.
  intro H. specialize (H w_del_add eq_refl). unfold errs_agree in H.
  vm_compute in H. discriminate.
Qed.

(** 2. Del, Replace, Save (no Update involved): every call answers like the
    map, but the row and its index entries are gone after the save. *)
Lemma refuted_del_replace :
  ~ (forall ops, keys_ok ops = true -> forallb (fun o => negb (is_update o)) ops = true ->
       errs_agree ops -> saved_agrees ops).
Proof.
  intro H. specialize (H w_del_replace eq_refl eq_refl eq_refl). unfold saved_agrees in H.
  vm_compute in H. discriminate.
Qed.

(** 3. (repaired in table.go Del) Update that changes an indexed field, then
    Del, then Save: the Del row now carries the saved data, so the saved row's
    index entries are removed.  The history is inside the guard and meets the
    hypotheses of [update_del_fixed]; the store is empty after the save. *)
Example update_del_witness_ok :
  safe_words w_update_del = true /\ keys_ok w_update_del = true /\
  forallb (fun o => negb (is_replace o)) w_update_del = true /\
  fst (run init w_update_del) = fst (s_run [] w_update_del) /\
  kv (snd (run init (w_update_del ++ [OSave]))) = [].
Proof. vm_compute. repeat split; reflexivity. Qed.

(** 4. Only Adds: two rows whose (index value, primary key) pairs are glued to
    the same index key by the "-" separator share one index entry. *)
Lemma refuted_sep_collision :
  ~ (forall ops, forallb is_add_or_save ops = true -> errs_agree ops -> saved_agrees ops).
Proof.
  intro H. specialize (H w_sep eq_refl eq_refl). unfold saved_agrees in H.
  vm_compute in H. discriminate.
Qed.

Lemma refuted_full : ~ C10_table_refines_map_full.
Proof.
  intro H. destruct (H w_del_add) as [E _]. unfold errs_agree in E. vm_compute in E. discriminate.
Qed.

(** the guard rejects the three witnesses of the open findings … *)
Example guard_rejects_witnesses :
  map safe_words [w_del_add; w_del_replace; w_sep] = [false; false; false].
Proof. vm_compute. reflexivity. Qed.

(** … and accepts non-trivial histories: several operations per key between
    saves (Add.Update.Del.Add, Update.Update, Replace chains, Add.Del, an
    Update that changes an indexed field followed by a Replace, a Del of a
    saved row whose pending update changed an indexed field), three saves. *)
Definition w_safe : list op :=
  [OAdd w_r1; OUpdate k1 w_r1b; ODel k1; OAdd w_r1; OAdd w_r2; OAdd w_r2; OSave;
   OUpdate k1 w_r1b; OUpdate k1 w_r1; OReplace w_r2; OReplace (mkRow k2 (bs "b") (bs "") 7); OSave;
   OUpdate k2 (mkRow k2 (bs "a") (bs "z") 9); ODel k2; ODelRow w_r1; ODel (bs "zz"); OUpdate k2 w_r1; OSave].

Example guard_nontrivial :
  safe_words w_safe = true /\
  fst (s_run [] w_safe) =
    [EOk; EOk; EOk; EOk; EOk; EDup; EOk; EOk; EOk; EOk; EOk; EOk; EOk; EOk; EOk; ENotFound; EInvalid; EOk] /\
  List.length (kv (snd (run init (firstn 12 w_safe)))) = 6%nat.
Proof. vm_compute. repeat split; reflexivity. Qed.

(** the hypotheses of the query theorem are met by a history that leaves rows:
    listing index To under prefix "b" after the second save of [w_safe] *)
Example query_nontrivial :
  safe_words (firstn 11 w_safe) = true /\
  list_index (kv (snd (run init (firstn 11 w_safe ++ [OSave])))) (mkQ (QIdx ITo) (bs "b") [] 0 true)
  = (EOk, [(k2, mkRow k2 (bs "b") (bs "") 7)]) /\
  list_index (kv (snd (run init (firstn 11 w_safe ++ [OSave])))) (mkQ QPrimary (bs "k") [] 0 false)
  = (EOk, [(k2, mkRow k2 (bs "b") (bs "") 7); (k1, w_r1)]).
Proof. vm_compute. repeat split; reflexivity. Qed.
