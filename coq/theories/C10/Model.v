(** C10 — executable model of common/db/table (table.go, query.go) as coded.

    Instance: Option{Prefix "p", Name "t", Primary "Cointoken",
    Index ["To","Note"], Join false} over rows of types.AssetsTransfer
    (Cointoken = primary key, To / Note = indexed fields, Amount = payload).

    The KV store is an [omap kvval]; a stored value is abstract:
    [VRow primary data] stands for Row.Encode() (8-byte length, primary,
    protobuf of the data) and [VPrim p] for an index entry's value (the raw
    primary key).  DecodeRow/types.Decode are the inverse by construction.

    The row cache follows the pointer structure of the Go code: [rows] is the
    append-only slice of pending rows, [rmap] maps a primary key to the
    POSITION in [rows] of the row object that table.rowmap points to; an
    in-place mutation [row.Data = d] / [row.Ty = None] is [set_nth]. *)
From Coq Require Import List NArith ZArith Bool.
From C33 Require Import Lib.Bytes Lib.OMap.
Import ListNotations.

Record rowdata := mkRow { r_pk : bytes; r_to : bytes; r_note : bytes; r_amt : Z }.

Definition rowdata_eqb (a b : rowdata) : bool :=
  beqb (r_pk a) (r_pk b) && beqb (r_to a) (r_to b) && beqb (r_note a) (r_note b)
  && Z.eqb (r_amt a) (r_amt b).

Inductive kvval := VRow (primary : bytes) (d : rowdata) | VPrim (p : bytes).

Inductive idx := ITo | INote.
Definition all_idx : list idx := [ITo; INote].       (* opt.Index order *)
Definition idx_val (d : rowdata) (i : idx) : bytes :=
  match i with ITo => r_to d | INote => r_note d end.

(** * key layout *)
Definition sepc : N := 45.                                   (* "-" *)
Definition tp : bytes := [112; 45; 116]%N.                   (* "p-t" = Prefix + sep + Name *)
Definition dtag : bytes := [45; 100; 45]%N.                  (* data = "-d-" *)
Definition mtag : bytes := [45; 109; 45]%N.                  (* meta = "-m-" *)
Definition idx_name (i : idx) : bytes :=
  match i with ITo => [84; 111]%N | INote => [78; 111; 116; 101]%N end.

Definition dataprefix : bytes := tp ++ dtag.
Definition metaprefix : bytes := tp ++ mtag.
Definition dkey (pk : bytes) : bytes := dataprefix ++ pk.                    (* getDataKey *)
Definition iprefix (i : idx) : bytes := metaprefix ++ idx_name i ++ [sepc].  (* indexPrefix *)
Definition ikey (i : idx) (v pk : bytes) : bytes := iprefix i ++ v ++ [sepc] ++ pk.  (* getIndexKey *)

(** * row cache *)
Inductive rty := TNone | TAdd | TUpdate | TDel.
Record crow := mkC { c_ty : rty; c_pk : bytes; c_data : rowdata; c_old : option rowdata }.

Record state := mkSt { kv : omap kvval; rows : list crow; rmap : omap nat }.
Definition init : state := mkSt [] [] [].

Inductive err := EOk | ENotFound | EDup | EInvalid | EOther.

Fixpoint set_nth {A} (i : nat) (x : A) (l : list A) : list A :=
  match l, i with
  | [], _ => []
  | _ :: tl, O => x :: tl
  | h :: tl, S j => h :: set_nth j x tl
  end.

Definition set_ty (t : rty) (r : crow) : crow := mkC t (c_pk r) (c_data r) (c_old r).
Definition set_data (d : rowdata) (r : crow) : crow := mkC (c_ty r) (c_pk r) d (c_old r).

(** GetData: kvdb.Get + getRow *)
Definition get_data (m : omap kvval) (pk : bytes) : err * option crow :=
  match get (dkey pk) m with
  | None => (ENotFound, None)
  | Some (VRow p d) => (EOk, Some (mkC TNone p d None))
  | Some (VPrim _) => (EOther, None)
  end.

(** findRow: (row, position if the row object is the cached one, error) *)
Definition find_row (st : state) (pk : bytes) : err * option crow * option nat :=
  match get pk (rmap st) with
  | Some i =>
      match nth_error (rows st) i with
      | Some r => (EOk, Some r, Some i)
      | None => (EOther, None, None)          (* unreachable: rmap points into rows *)
      end
  | None => let '(e, r) := get_data (kv st) pk in (e, r, None)
  end.

Definition add_row_cache (st : state) (r : crow) : state :=
  let rm := match c_ty r with
            | TDel => del (c_pk r) (rmap st)
            | TAdd | TUpdate => put (c_pk r) (length (rows st)) (rmap st)
            | TNone => rmap st
            end in
  mkSt (kv st) (rows st ++ [r]) rm.

Definition m_add (st : state) (d : rowdata) : err * state :=
  match find_row st (r_pk d) with
  | (ENotFound, _, _) => (EOk, add_row_cache st (mkC TAdd (r_pk d) d None))
  | _ => (EDup, st)
  end.

Definition m_replace (st : state) (d : rowdata) : err * state :=
  match find_row st (r_pk d) with
  | (ENotFound, _, _) => (EOk, add_row_cache st (mkC TAdd (r_pk d) d None))
  | (_, Some r, Some i) => (EOk, mkSt (kv st) (set_nth i (set_data d r) (rows st)) (rmap st))
  | (_, Some r, None) => (EOk, add_row_cache st (mkC TUpdate (r_pk d) d (Some (c_data r))))
  | (_, None, _) => (EOther, st)               (* nil row: the Go code would panic *)
  end.

Definition m_update (st : state) (pk : bytes) (d : rowdata) : err * state :=
  if negb (beqb (r_pk d) pk) then (EInvalid, st) else
  match find_row st pk with
  | (EOk, Some r, Some i) => (EOk, mkSt (kv st) (set_nth i (set_data d r) (rows st)) (rmap st))
  | (EOk, Some r, None) => (EOk, add_row_cache st (mkC TUpdate pk d (Some (c_data r))))
  | (EOk, None, _) => (EOther, st)
  | (e, _, _) => (e, st)
  end.

(** the Del row built from a cached row: a copy of it with Ty = Del; when the
    cached row is a pending update of a saved row ([old] set) the copy carries
    the saved data, whose index entries are the ones in the store *)
Definition del_copy (r : crow) : crow :=
  mkC TDel (c_pk r) (match c_old r with Some d0 => d0 | None => c_data r end) (c_old r).

Definition m_del (st : state) (pk : bytes) : err * state :=
  match find_row st pk with
  | (EOk, Some r, Some i) =>
      (* delRowCache: row.Ty = None; delete(rowmap, primary) *)
      let st1 := mkSt (kv st) (set_nth i (set_ty TNone r) (rows st)) (del (c_pk r) (rmap st)) in
      match c_ty r with
      | TAdd => (EOk, st1)
      | _ => (EOk, add_row_cache st1 (del_copy r))
      end
  | (EOk, Some r, None) => (EOk, add_row_cache st (set_ty TDel r))
  | (EOk, None, _) => (EOther, st)
  | (e, _, _) => (e, st)
  end.

(** * Save *)
Definition kvw : Type := (bytes * option kvval)%type.     (* Value == nil => delete *)

Definition del_row (r : crow) : list kvw :=
  (dkey (c_pk r), None) :: map (fun i => (ikey i (idx_val (c_data r) i) (c_pk r), None)) all_idx.

Definition add_row (r : crow) : list kvw :=
  (dkey (c_pk r), Some (VRow (c_pk r) (c_data r)))
  :: map (fun i => (ikey i (idx_val (c_data r) i) (c_pk r), Some (VPrim (c_pk r)))) all_idx.

Definition upd_idx (r : crow) (old : rowdata) (i : idx) : list kvw :=
  if beqb (idx_val (c_data r) i) (idx_val old i) then []
  else [ (ikey i (idx_val old i) (c_pk r), None);
         (ikey i (idx_val (c_data r) i) (c_pk r), Some (VPrim (c_pk r))) ].

Definition update_row (r : crow) : option (list kvw) :=
  match c_old r with
  | None => None                                  (* ErrNilValue *)
  | Some old =>
      if rowdata_eqb (c_data r) old then Some []
      else Some ((dkey (c_pk r), Some (VRow (c_pk r) (c_data r))) :: flat_map (upd_idx r old) all_idx)
  end.

Definition save_row (r : crow) : option (list kvw) :=
  match c_ty r with
  | TDel => Some (del_row r)
  | TAdd => Some (add_row r)
  | TUpdate => update_row r
  | TNone => Some []
  end.

Fixpoint save_rows (l : list crow) : option (list kvw) :=
  match l with
  | [] => Some []
  | r :: tl =>
      match save_row r, save_rows tl with
      | Some a, Some b => Some (a ++ b)
      | _, _ => None
      end
  end.

Definition apply_kv (m : omap kvval) (w : kvw) : omap kvval :=
  match snd w with Some v => put (fst w) v m | None => del (fst w) m end.

(** Save + util.SaveKVList(db, kvs) (DelDupKey keeps the last write per key,
    which is what applying all writes in order gives). *)
Definition m_save (st : state) : err * state :=
  match save_rows (rows st) with
  | None => (EOther, st)
  | Some kvs => (EOk, mkSt (fold_left apply_kv kvs (kv st)) [] [])
  end.

(** * operations *)
Inductive op :=
| OAdd (d : rowdata) | OReplace (d : rowdata) | OUpdate (pk : bytes) (d : rowdata)
| ODel (pk : bytes) | ODelRow (d : rowdata) | OSave.

Definition step (st : state) (o : op) : err * state :=
  match o with
  | OAdd d => m_add st d
  | OReplace d => m_replace st d
  | OUpdate pk d => m_update st pk d
  | ODel pk => m_del st pk
  | ODelRow d => m_del st (r_pk d)
  | OSave => m_save st
  end.

Fixpoint run (st : state) (ops : list op) : list err * state :=
  match ops with
  | [] => ([], st)
  | o :: tl => let '(e, st1) := step st o in let '(es, st2) := run st1 tl in (e :: es, st2)
  end.

(** * queries (query.go ListIndex over KVDB.List) *)
Definition is_deleted (v : kvval) : bool :=
  match v with VPrim [] => true | _ => false end.            (* len(value) == 0 *)

Fixpoint take_count (count : Z) (l : list (bytes * kvval)) : list (bytes * kvval) :=
  (* collect until i == count; count <= 0 never stops *)
  match l with
  | [] => []
  | e :: tl => if Z.eqb count 1 then [e] else e :: take_count (count - 1) tl
  end.

(** ListHelper.List(prefix, key, count, direction) for direction in {ListDESC, ListASC}:
    values of the entries under [prefix], strictly beyond [key] when [key] is
    non-empty, in iteration order, skipping empty values. *)
Definition list_kv (prefix key : bytes) (count : Z) (asc : bool) (m : omap kvval) : list kvval :=
  let es := filter_keys (is_prefix prefix) m in
  let es := if asc then es else rev es in
  let es := match key with
            | [] => es
            | _ => filter (fun e => if asc then bltb key (fst e) else bltb (fst e) key) es
            end in
  map snd (take_count count (filter (fun e => negb (is_deleted (snd e))) es)).

Inductive qidx := QPrimary | QIdx (i : idx).
Record query := mkQ { q_idx : qidx; q_prefix : bytes; q_start : bytes; q_count : Z; q_asc : bool }.

Definition is_nil (b : bytes) : bool := match b with [] => true | _ => false end.

Fixpoint rows_of_values (vs : list kvval) : err * list (bytes * rowdata) :=
  match vs with
  | [] => (EOk, [])
  | VRow p d :: tl => let '(e, l) := rows_of_values tl in (e, (p, d) :: l)
  | VPrim _ :: tl => (EOther, [])
  end.

Fixpoint rows_by_primary (m : omap kvval) (vs : list kvval) : err * list (bytes * rowdata) :=
  match vs with
  | [] => (EOk, [])
  | VPrim p :: tl =>
      match get_data m p with
      | (EOk, Some r) =>
          match rows_by_primary m tl with
          | (EOk, l) => (EOk, (c_pk r, c_data r) :: l)
          | (e, _) => (e, [])
          end
      | (e, _) => (match e with EOk => EOther | _ => e end, [])
      end
  | VRow _ _ :: tl => (EOther, [])
  end.

Definition nonempty_or_notfound (r : err * list (bytes * rowdata)) : err * list (bytes * rowdata) :=
  match r with
  | (EOk, []) => (ENotFound, [])
  | (EOk, l) => (EOk, l)
  | (e, _) => (e, [])
  end.

Definition list_index (m : omap kvval) (q : query) : err * list (bytes * rowdata) :=
  match q_idx q with
  | QPrimary =>
      if negb (is_nil (q_start q)) && negb (is_prefix (q_prefix q) (q_start q)) then (ENotFound, [])
      else
        let key := if is_nil (q_start q) then [] else dataprefix ++ q_start q in
        nonempty_or_notfound
          (rows_of_values (list_kv (dataprefix ++ q_prefix q) key (q_count q) (q_asc q) m))
  | QIdx i =>
      let go key :=
        nonempty_or_notfound
          (rows_by_primary m (list_kv (iprefix i ++ q_prefix q) key (q_count q) (q_asc q) m)) in
      if is_nil (q_start q) then go []
      else match get_data m (q_start q) with
           | (EOk, Some r) =>
               if negb (is_prefix (q_prefix q) (idx_val (c_data r) i)) then (ENotFound, [])
               else go (ikey i (idx_val (c_data r) i) (c_pk r))
           | (e, _) => (match e with EOk => EOther | _ => e end, [])
           end
  end.
