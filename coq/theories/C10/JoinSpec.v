(** C10 — the abstract joined tables: two maps (left, right) and their
    relational (inner) join on the left rows' foreign key.  Expected contents
    of the join table's index records, join queries, and the boolean guard of
    the partial theorem. *)
From Coq Require Import List NArith ZArith Bool.
From C33 Require Import Lib.Bytes Lib.OMap C10.Model C10.Spec C10.Join.
Import ListNotations.

Definition js_step (L R : tbl) (o : jop) : err * (tbl * tbl) :=
  match o with
  | JL o => let '(e, L1) := s_step L o in (e, (L1, R))
  | JR o => let '(e, R1) := s_step R o in (e, (L, R1))
  | JSave => (EOk, (L, R))
  end.

Fixpoint js_run (L R : tbl) (ops : list jop) : list err * (tbl * tbl) :=
  match ops with
  | [] => ([], (L, R))
  | o :: tl =>
      let '(e, (L1, R1)) := js_step L R o in
      let '(es, x) := js_run L1 R1 tl in (e :: es, x)
  end.

(** ** the relational join: every left row with the right row of its foreign key *)
Definition join_rows (L R : tbl) : list jres :=
  flat_map (fun e => match get (l_gid (snd e)) R with
                     | Some r => [(fst e, snd e, r)]
                     | None => []
                     end) (elements L).

(** the index records of one joined row *)
Definition jentries (x : jres) : list (bytes * kvval) :=
  let '(p, l, r) := x in map (fun i => (jikey i (jval l r i) p, VPrim p)) all_jidx.

Definition jenc (L R : tbl) : omap kvval := of_list (flat_map jentries (join_rows L R)).

(** join index lookup: the joined rows whose join key has the prefix (listed
    in primary-key order); JoinTable.GetData *)
Definition jq_match (q : jquery) (x : jres) : bool :=
  let '(p, l, r) := x in is_prefix (jq_prefix q) (jval l r (jq_idx q)).
Definition js_query (L R : tbl) (q : jquery) : list jres := filter (jq_match q) (join_rows L R).
Definition js_get (L R : tbl) (p : bytes) : option jres :=
  match get p L with
  | Some l => match get (l_gid l) R with Some r => Some (p, l, r) | None => None end
  | None => None
  end.

(** ** the guard *)
Definition pk_ok (p : bytes) : bool := sepfree p && negb (is_nil p).
Definition short (b : bytes) : bool := Nat.ltb (length b) 128.
Definition jrow_ok (d : rowdata) : bool := pk_ok (r_pk d) && short (r_to d) && short (r_note d).
Definition op_rows_ok (o : op) : bool :=
  match o with
  | OAdd d | OReplace d | OUpdate _ d | ODelRow d => jrow_ok d
  | ODel _ | OSave => true
  end.

(** saveRight builds join rows for right key [k] in this window: the row was
    added, deleted, or its status (the right column of the join indexes) changed *)
Definition right_effective (R0 R1 : tbl) (k : bytes) : bool :=
  match get k R0, get k R1 with
  | None, None => false
  | Some r0, Some r1 => negb (beqb (g_st r0) (g_st r1))
  | _, _ => true
  end.

(** the foreign key saveLeft looks up for a left key with row [o0] at the last
    save and [o1] now (an Update that leaves addr unchanged looks nothing up) *)
Definition needs_right (o0 o1 : option rowdata) : option bytes :=
  match o0, o1 with
  | None, Some l1 => Some (l_gid l1)
  | Some l0, None => Some (l_gid l0)
  | Some l0, Some l1 => if beqb (l_addr l0) (l_addr l1) then None else Some (l_gid l1)
  | None, None => None
  end.

(** the four clauses, each can be switched off (the refutations show that each is needed) *)
Record clauses := mkCl { cl_fk : bool; cl_ref : bool; cl_del : bool; cl_pre : bool }.
Definition all_clauses : clauses := mkCl true true true true.

Definition left_key_safe (c : clauses) (L0 R0 L1 R1 : tbl) (p : bytes) : bool :=
  let o0 := get p L0 in
  let o1 := get p L1 in
  (* fk: the foreign key of a stored left row is not changed *)
  (negb (cl_fk c) ||
   match o0, o1 with Some l0, Some l1 => beqb (l_gid l0) (l_gid l1) | _, _ => true end) &&
  (* ref: the right row that saveLeft looks up exists (pending or stored) *)
  (negb (cl_ref c) ||
   match needs_right o0 o1 with Some g => mem g R0 || mem g R1 | None => true end) &&
  (* del: the right row of a left row deleted in this window is not added and
     does not change status in the same window *)
  (negb (cl_del c) ||
   match o0, o1 with
   | Some l0, None =>
       match get (l_gid l0) R1 with
       | Some _ => negb (right_effective R0 R1 (l_gid l0))
       | None => true
       end
   | _, _ => true
   end) &&
  (* pre: no right key with join effect is a proper prefix of a stored left row's foreign key *)
  (negb (cl_pre c) ||
   match o0 with
   | Some l0 =>
       forallb (fun k => negb (right_effective R0 R1 k && is_prefix k (l_gid l0)) || beqb k (l_gid l0))
               (keys R0 ++ keys R1)
   | None => true
   end).

Definition save_safe (c : clauses) (L0 R0 L1 R1 : tbl) : bool :=
  forallb (left_key_safe c L0 R0 L1 R1) (keys L0 ++ keys L1).

Definition jop_safe (c : clauses) (L0 R0 L R : tbl) (o : jop) : bool :=
  match o with
  | JL o => op_safe L0 L o && negb (is_save o) && op_rows_ok o
  | JR o => op_safe R0 R o && negb (is_save o) && op_rows_ok o
  | JSave => save_safe c L0 R0 L R
  end.

Definition is_jsave (o : jop) : bool := match o with JSave => true | _ => false end.

(** [L0 R0] = tables at the last join Save, [L R] = current tables *)
Fixpoint jsafe_from (c : clauses) (L0 R0 L R : tbl) (ops : list jop) : bool :=
  match ops with
  | [] => true
  | o :: tl =>
      jop_safe c L0 R0 L R o &&
      let '(L1, R1) := snd (js_step L R o) in
      if is_jsave o then jsafe_from c L1 R1 L1 R1 tl else jsafe_from c L0 R0 L1 R1 tl
  end.

Definition jsafe_with (c : clauses) (ops : list jop) : bool := jsafe_from c [] [] [] [] ops.
Definition jsafe (ops : list jop) : bool := jsafe_with all_clauses ops.

(** ** the statements *)
Definition jerrs_agree (ops : list jop) : Prop := fst (jrun jinit ops) = fst (js_run [] [] ops).

(** after a final join Save: the left and right stores hold exactly the two
    maps' records and the join table's index records are exactly those of the
    relational join *)
Definition jsaved_agrees (ops : list jop) : Prop :=
  let st := snd (jrun jinit (ops ++ [JSave])) in
  let LR := snd (js_run [] [] ops) in
  kv (lst st) = encode (fst LR) /\ kv (rst st) = encode (snd LR) /\ jkv st = jenc (fst LR) (snd LR).

(** every history inside the guard with clauses [c] (the final join.Save
    included) answers like the maps and leaves exactly the maps' records and the
    relational join's index records *)
Definition jrefines (c : clauses) : Prop :=
  forall ops, jsafe_with c (ops ++ [JSave]) = true ->
    jerrs_agree (ops ++ [JSave]) /\ jsaved_agrees ops.
