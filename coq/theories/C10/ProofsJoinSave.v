(** C10 — JoinTable proofs, part 3: the join rows of one left key produced by
    the two loops of JoinTable.Save. *)
From Coq Require Import List NArith ZArith Bool Lia.
From C33 Require Import Lib.Bytes Lib.OMap C10.Model C10.Spec C10.ProofsKeys C10.ProofsInv
  C10.Join C10.JoinSpec C10.ProofsJoinKeys C10.ProofsJoinRows.
Import ListNotations.

(** * list facts *)
Lemma save_each_flat f rws : forall acc,
  (forall r, In r rws -> c_ty r <> TNone -> fst (f r) = EOk) ->
  save_each f rws acc =
    (EOk, acc ++ flat_map (fun r => if is_tnone (c_ty r) then [] else snd (f r)) rws).
Proof.
  induction rws as [|r tl IH]; intros acc H; simpl.
  - rewrite app_nil_r. auto.
  - assert (Htl : forall r0, In r0 tl -> c_ty r0 <> TNone -> fst (f r0) = EOk) by (intros; apply H; simpl; auto).
    destruct (c_ty r) eqn:T; cbn [is_tnone].
    + rewrite IH by auto. auto.
    + assert (E : fst (f r) = EOk) by (apply H; simpl; auto; congruence).
      destruct (f r) as [e js]. simpl in E. subst e. rewrite IH by auto. rewrite app_assoc. auto.
    + assert (E : fst (f r) = EOk) by (apply H; simpl; auto; congruence).
      destruct (f r) as [e js]. simpl in E. subst e. rewrite IH by auto. rewrite app_assoc. auto.
    + assert (E : fst (f r) = EOk) by (apply H; simpl; auto; congruence).
      destruct (f r) as [e js]. simpl in E. subst e. rewrite IH by auto. rewrite app_assoc. auto.
Qed.

Lemma for_pk_flat_map {A} p (h : A -> list jrow) l :
  for_pk p (flat_map h l) = flat_map (fun x => for_pk p (h x)) l.
Proof. induction l; simpl; auto. unfold for_pk in *. rewrite filter_app, IHl. auto. Qed.

Lemma for_pk_all p l : (forall r, In r l -> j_pk r = p) -> for_pk p l = l.
Proof.
  induction l as [|r l IH]; intro H; simpl; auto.
  rewrite (H r) by (simpl; auto). rewrite beqb_refl. f_equal. apply IH. intros; apply H; simpl; auto.
Qed.

Lemma for_pk_none p l : (forall r, In r l -> j_pk r <> p) -> for_pk p l = [].
Proof.
  induction l as [|r l IH]; intro H; simpl; auto.
  assert (N : beqb (j_pk r) p = false) by (apply beqb_neq; apply H; simpl; auto).
  rewrite N. apply IH. intros; apply H; simpl; auto.
Qed.

Lemma for_pk_map {A} p (f : A -> jrow) (g : A -> bytes) l :
  (forall x, j_pk (f x) = g x) ->
  for_pk p (map f l) = map f (filter (fun x => beqb (g x) p) l).
Proof.
  intro H. induction l as [|x l IH]; simpl; auto. rewrite H.
  destruct (beqb (g x) p); simpl; rewrite IH; auto.
Qed.

Lemma flat_map_lives {B} p (f : crow -> list B) rws :
  (forall r, In r rws -> live p r = false -> f r = []) -> flat_map f rws = flat_map f (lives p rws).
Proof.
  induction rws as [|r tl IH]; intro H; simpl; auto.
  rewrite IH by (intros; apply H; simpl; auto).
  destruct (live p r) eqn:Lv; simpl; auto. rewrite (H r); simpl; auto.
Qed.

Lemma flat_map_all_nil {A B} (f : A -> list B) l : (forall x, In x l -> f x = []) -> flat_map f l = [].
Proof.
  induction l as [|x l IH]; intro H; simpl; auto.
  rewrite (H x) by (simpl; auto). apply IH. intros; apply H; simpl; auto.
Qed.

Lemma lw_all_same k x l :
  l <> [] -> (forall y, In y l -> y = x) -> lw k (flat_map jwr l) = lw k (jwr x).
Proof.
  induction l as [|y tl IH]; intros NE H; [congruence|]. simpl.
  rewrite (H y) by (simpl; auto). rewrite lw_app.
  destruct tl as [|z tl'].
  - simpl. auto.
  - rewrite IH; [|discriminate|intros; apply H; simpl; auto].
    destruct (lw k (jwr x)); auto.
Qed.

Section Loops.
Variables (st : jstate) (L0 R0 L R : tbl).
Hypothesis IL : inv (lst st) L0 L.
Hypothesis IR : inv (rst st) R0 R.
Hypothesis PL0 : pks_ok L0.
Hypothesis PR0 : pks_ok R0.
Hypothesis PR : pks_ok R.

(** ** the left loop *)
Definition hL (r : crow) : list jrow :=
  if is_tnone (c_ty r) then [] else snd (save_left (rst st) r).

Lemma save_left_pk rs r jr : In jr (snd (save_left rs r)) -> j_pk jr = c_pk r.
Proof.
  unfold save_left. destruct (is_tupd (c_ty r) && negb (left_modified r)); [intros []|].
  destruct (find_row rs (l_gid (c_data r))) as [[e o] pos].
  destruct e; simpl; try tauto; destruct o; simpl; try tauto.
  intros [<-|[]]. auto.
Qed.

Lemma for_pk_left p :
  for_pk p (flat_map hL (rows (lst st))) = flat_map hL (lives p (rows (lst st))).
Proof.
  rewrite for_pk_flat_map.
  induction (rows (lst st)) as [|r tl IH]; simpl; auto. rewrite IH.
  destruct (live p r) eqn:Lv; simpl.
  - f_equal. apply for_pk_all. intros jr I. unfold hL in I.
    destruct (is_tnone (c_ty r)); [destruct I|]. rewrite (save_left_pk _ _ _ I). apply live_pk; auto.
  - replace (for_pk p (hL r)) with (@nil jrow); auto. symmetry.
    unfold live in Lv. apply andb_false_iff in Lv. destruct Lv as [Lv|Lv].
    + apply for_pk_none. intros jr I. unfold hL in I.
      destruct (is_tnone (c_ty r)); [destruct I|]. rewrite (save_left_pk _ _ _ I). apply beqb_neq; auto.
    + apply negb_false_iff in Lv. unfold hL. rewrite Lv. auto.
Qed.

(** ** the right loop *)
Definition rj (rr one : crow) : jrow :=
  mkJ (c_ty rr) (c_pk one) (c_data one) (c_data rr)
      (if is_tupd (c_ty rr)
       then Some (if is_tupd (c_ty one) then old_or_data one else c_data one, old_or_data rr)
       else None).

Definition hR (rr : crow) : list jrow :=
  if is_tnone (c_ty rr) then [] else snd (save_right (lst st) rr).

Definition right_skipped (rr : crow) : bool := is_tupd (c_ty rr) && negb (right_modified rr).

Definition one_at (p : bytes) : crow :=
  one_of (lst st) p (match get p L0 with Some l0 => l0 | None => mkRow [] [] [] 0 end).

(** left key [p] is among the rows saveRight works on for right key [k] *)
Definition reached (k p : bytes) : Prop :=
  (exists l0, get p L0 = Some l0 /\ is_prefix k (l_gid l0) = true) \/
  (exists cr, cached_row (lst st) p = Some cr /\ l_gid (c_data cr) = k).

Lemma right_rows_for rr p :
  sepfree (c_pk rr) = true -> is_tnone (c_ty rr) = false ->
  (forall jr, In jr (for_pk p (hR rr)) -> jr = rj rr (one_at p)) /\
  (for_pk p (hR rr) <> [] <-> (right_skipped rr = false /\ reached (c_pk rr) p)).
Proof.
  intros Sk NN. unfold hR. rewrite NN. unfold save_right. fold (right_skipped rr).
  destruct (right_skipped rr) eqn:SK.
  - simpl. split; [intros jr []|]. split; [congruence|]. intros [X _]. discriminate.
  - destruct (fk_scan_spec _ _ _ _ IL PL0 Sk) as [rs [E Q]]. rewrite E. cbn [snd].
    fold (rj rr). rewrite (for_pk_map p (rj rr) c_pk) by reflexivity.
    destruct (merge_cache_for (lst st) L0 L (c_pk rr) rs p IL Q) as [A B].
    split.
    + intros jr I. apply in_map_iff in I. destruct I as [one [<- I]]. f_equal.
      destruct (A one I) as [l0 [-> [G|[G C]]]]; unfold one_at; rewrite G; auto.
      unfold one_of. rewrite C. auto.
    + split.
      * intro NE. split; auto. apply B. intro X. apply NE. rewrite X. auto.
      * intros [_ Rch] X. apply B in Rch. apply Rch. apply map_eq_nil in X. exact X.
Qed.

End Loops.
