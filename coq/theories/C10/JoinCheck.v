(** C10 — correspondence cases for JoinTable: one history of operations on the
    left / right table of a real table.JoinTable and of join.Save calls, with
    what the Go implementation returned: the error class of every call; after
    every join.Save the dump of the whole database under the common prefix
    (given as the difference to the previous dump) and a batch of join queries
    (JoinTable.ListIndex / JoinTable.GetData).  Depends on Model/Spec/Join/JoinSpec only. *)
From Coq Require Import List ZArith NArith Bool.
From C33 Require Import Lib.Bytes Lib.OMap Lib.Harness.
From C33 Require Export C10.Model C10.Spec C10.Join C10.JoinSpec.
Import ListNotations.

(** ** the case as the harness writes it: byte strings and rows are interned *)
Inductive jxop := XAdd (r : N) | XRep (r : N) | XUpd (pk : N) (r : N) | XDel (pk : N) | XDelRow (r : N).
Inductive yop := YL (o : jxop) | YR (o : jxop) | YSave.
Inductive yval := YRow (p : N) (r : N) | YP (p : N).
Inductive yq :=
| YQ (i : jidx) (pre start : N) (count : Z) (asc : bool) (e : N) (rs : list (N * N * N))
| YG (p : N) (e : N) (rs : list (N * N * N)).
Inductive yobs :=
| YErr (e : N)
| YSv (e : N) (dels : list (list N)) (puts : list (list N * yval)) (qs : list yq).
Inductive jcase := JCase (chunks : list bytes) (tab : list rowdata) (steps : list (yop * yobs)).

Section Decode.
Variable chunks : list bytes.
Variable tab : list rowdata.

Definition chunk (i : N) : bytes := nth (N.to_nat i) chunks [].
Definition ykey (ks : list N) : bytes := flat_map chunk ks.
Definition jrow_at (i : N) : rowdata := nth (N.to_nat i) tab (mkRow [] [] [] 0).

Definition op_of_x (o : jxop) : op :=
  match o with
  | XAdd r => OAdd (jrow_at r)
  | XRep r => OReplace (jrow_at r)
  | XUpd pk r => OUpdate (chunk pk) (jrow_at r)
  | XDel pk => ODel (chunk pk)
  | XDelRow r => ODelRow (jrow_at r)
  end.
Definition jop_of (o : yop) : jop :=
  match o with YL o => JL (op_of_x o) | YR o => JR (op_of_x o) | YSave => JSave end.

Definition yval_of (v : yval) : kvval :=
  match v with YRow p r => VRow (chunk p) (jrow_at r) | YP p => VPrim (chunk p) end.
Definition jres_of (x : N * N * N) : jres := let '(p, l, r) := x in (chunk p, jrow_at l, jrow_at r).
End Decode.

Inductive jq :=
| JQList (q : jquery) (e : N) (rs : list jres)
| JQGet (p : bytes) (e : N) (rs : list jres).
Inductive jobs := JErr (e : N) | JSv (e : N) (dump : list (bytes * kvval)) (qs : list jq).

Definition jq_of chunks tab (x : yq) : jq :=
  match x with
  | YQ i pre start count asc e rs =>
      JQList (mkJQ i (chunk chunks pre) (chunk chunks start) count asc) e (map (jres_of chunks tab) rs)
  | YG p e rs => JQGet (chunk chunks p) e (map (jres_of chunks tab) rs)
  end.

Definition jerr_code (e : err) : N :=
  match e with EOk => 0 | ENotFound => 1 | EDup => 2 | EInvalid => 3 | EOther => 4 end%N.

Definition jkvval_eqb (a b : kvval) : bool :=
  match a, b with
  | VRow p d, VRow p' d' => beqb p p' && rowdata_eqb d d'
  | VPrim p, VPrim p' => beqb p p'
  | _, _ => false
  end.
Definition jentry_eqb (a b : bytes * kvval) : bool := beqb (fst a) (fst b) && jkvval_eqb (snd a) (snd b).
Definition jres_eqb (a b : jres) : bool :=
  let '(p, l, r) := a in let '(p', l', r') := b in beqb p p' && rowdata_eqb l l' && rowdata_eqb r r'.

(** the dump after a Save from the previous one *)
Definition apply_diff (prev : list (bytes * kvval)) (dels : list bytes) (puts : list (bytes * kvval))
  : list (bytes * kvval) :=
  filter (fun e => negb (existsb (beqb (fst e)) dels) && negb (existsb (fun p => beqb (fst e) (fst p)) puts)) prev
  ++ puts.

(** equality of two dumps with pairwise different keys, as sets *)
Definition sub_entries (a b : list (bytes * kvval)) : bool := forallb (fun e => existsb (jentry_eqb e) b) a.
Definition dump_seteq (a b : list (bytes * kvval)) : bool :=
  Nat.eqb (length a) (length b) && sub_entries a b && sub_entries b a.

(** ** the flat database from the three model stores: table and index names
    of the left ("a": gameID, addr) and right ("g": status, tag) table put
    into the keys of the base layout ("t": To, Note) *)
Definition rekey (m : list (bytes * bytes)) (k : bytes) : bytes :=
  match find (fun ab => is_prefix (fst ab) k) m with
  | Some ab => snd ab ++ skipn (length (fst ab)) k
  | None => k
  end.
Definition b_data : bytes := [112; 45; 116; 45; 100; 45]%N.                                 (* "p-t-d-" *)
Definition b_to : bytes := [112; 45; 116; 45; 109; 45; 84; 111; 45]%N.                      (* "p-t-m-To-" *)
Definition b_note : bytes := [112; 45; 116; 45; 109; 45; 78; 111; 116; 101; 45]%N.          (* "p-t-m-Note-" *)
Definition names_left : list (bytes * bytes) :=
  [ (b_data, [112; 45; 97; 45; 100; 45]%N);                                                  (* "p-a-d-" *)
    (b_to, [112; 45; 97; 45; 109; 45; 103; 97; 109; 101; 73; 68; 45]%N);                     (* "p-a-m-gameID-" *)
    (b_note, [112; 45; 97; 45; 109; 45; 97; 100; 100; 114; 45]%N) ].                         (* "p-a-m-addr-" *)
Definition names_right : list (bytes * bytes) :=
  [ (b_data, [112; 45; 103; 45; 100; 45]%N);                                                 (* "p-g-d-" *)
    (b_to, [112; 45; 103; 45; 109; 45; 115; 116; 97; 116; 117; 115; 45]%N);                  (* "p-g-m-status-" *)
    (b_note, [112; 45; 103; 45; 109; 45; 116; 97; 103; 45]%N) ].                             (* "p-g-m-tag-" *)
Definition join_region : bytes := [112; 45; 97; 35; 103; 45; 109; 45]%N.                    (* "p-a#g-m-" *)

Definition flat_db (kl kr kj : omap kvval) : list (bytes * kvval) :=
  map (fun e => (rekey names_left (fst e), snd e)) kl ++
  map (fun e => (rekey names_right (fst e), snd e)) kr ++ kj.

(** ** model side *)
Definition jq_model (st : jstate) (x : jq) : bool :=
  match x with
  | JQList q e rs =>
      let '(e', rs') := j_list_index st q in N.eqb (jerr_code e') e && list_eqb jres_eqb rs' rs
  | JQGet p e rs =>
      let '(e', o) := j_get_data st p in
      N.eqb (jerr_code e') e && list_eqb jres_eqb (match o with Some x => [x] | None => [] end) rs
  end.

Definition jobs_model (e : err) (st : jstate) (o : jobs) : bool :=
  match o with
  | JErr n => N.eqb (jerr_code e) n
  | JSv n dump qs =>
      N.eqb (jerr_code e) n && dump_seteq (flat_db (kv (lst st)) (kv (rst st)) (jkv st)) dump
      && forallb (jq_model st) qs
  end.

(** ** spec side *)
Fixpoint insert_jres (x : jres) (l : list jres) : list jres :=
  match l with
  | [] => [x]
  | y :: tl => if bleb (fst (fst x)) (fst (fst y)) then x :: y :: tl else y :: insert_jres x tl
  end.
Definition sort_jres (l : list jres) : list jres := fold_right insert_jres [] l.
Fixpoint nodup_jres (l : list jres) : bool :=
  match l with
  | [] => true
  | x :: tl => negb (existsb (fun y => beqb (fst (fst x)) (fst (fst y))) tl) && nodup_jres tl
  end.
Definition nil_jres (l : list jres) : bool := match l with [] => true | _ => false end.

(** a full listing must be exactly the matching joined rows (with the CURRENT
    left and right data); a page must be a duplicate-free part of them of the
    right size; GetData must be the joined row or ErrNotFound *)
Definition jq_spec (L R : tbl) (x : jq) : bool :=
  match x with
  | JQList q e rs =>
      let want := js_query L R q in
      if is_nil (jq_start q) && (jq_count q <=? 0)%Z then
        list_eqb jres_eqb (sort_jres rs) want && N.eqb e (if nil_jres want then 1 else 0)%N
      else
        forallb (fun r => existsb (jres_eqb r) want) rs && nodup_jres rs &&
        ((jq_count q <=? 0)%Z || (Z.of_nat (length rs) <=? jq_count q)%Z) &&
        (if is_nil (jq_start q) then
           Nat.eqb (length rs) (Nat.min (length want) (Z.to_nat (jq_count q)))
           && N.eqb e (if nil_jres want then 1 else 0)%N
         else (N.eqb e 0 && negb (nil_jres rs)) || (N.eqb e 1 && nil_jres rs))
  | JQGet p e rs =>
      match js_get L R p with
      | Some x => N.eqb e 0 && list_eqb jres_eqb rs [x]
      | None => N.eqb e 1 && nil_jres rs
      end
  end.

Definition want_db (L R : tbl) : list (bytes * kvval) := flat_db (encode L) (encode R) (jenc L R).

Definition jobs_spec (es : err) (L R : tbl) (o : jobs) : bool :=
  match o with
  | JErr n => N.eqb (jerr_code es) n
  | JSv n dump qs => N.eqb (jerr_code es) n && dump_seteq (want_db L R) dump && forallb (jq_spec L R) qs
  end.

(** ** classification of the first divergence (known findings 5-8, all at a join Save) *)
Definition jdiff (a b : list (bytes * kvval)) : list (bytes * kvval) :=
  filter (fun e => negb (existsb (jentry_eqb e) b)) a.

(** finding 5: a right key with join effect in this window is a proper prefix
    of the foreign key of the stored left row [p] *)
Definition kf5_key (L0 R0 R1 : tbl) (p : bytes) : bool :=
  match get p L0 with
  | Some l0 =>
      existsb (fun k => right_effective R0 R1 k && is_prefix k (l_gid l0 ++ sepc :: p) && negb (beqb k (l_gid l0)))
              (keys R0 ++ keys R1)
  | None => false
  end.
(** finding 6: left row [p] deleted in the window in which its right row is
    added or changes status *)
Definition kf6_key (L0 R0 L1 R1 : tbl) (p : bytes) : bool :=
  match get p L0, get p L1 with
  | Some l0, None =>
      match get (l_gid l0) R1 with Some _ => right_effective R0 R1 (l_gid l0) | None => false end
  | _, _ => false
  end.
(** finding 7: the foreign key of the stored left row [p] changed *)
Definition kf7_key (L0 L1 : tbl) (p : bytes) : bool :=
  match get p L0, get p L1 with
  | Some l0, Some l1 => negb (beqb (l_gid l0) (l_gid l1))
  | _, _ => false
  end.
(** finding 8: a pending left row whose right row exists neither pending nor stored *)
Definition kf8_any (L0 R0 L1 R1 : tbl) : bool :=
  existsb (fun p => match needs_right (get p L0) (get p L1) with
                    | Some g => negb (mem g R0 || mem g R1)
                    | None => false
                    end) (keys L0 ++ keys L1).

Definition jclassify (L0 R0 L1 R1 : tbl) (ob : jobs) : N :=
  match ob with
  | JErr _ => 0
  | JSv n dump qs =>
      if N.eqb n 1 then (if kf8_any L0 R0 L1 R1 then 8 else 0)
      else if negb (N.eqb n 0) then 0
      else
        let want := want_db L1 R1 in
        (* every differing record must be a join index record of a left key
           that one of the findings explains *)
        let code (e : bytes * kvval) : N :=
          if negb (is_prefix join_region (fst e)) then 0
          else match snd e with
               | VPrim p =>
                   if kf7_key L0 L1 p then 7
                   else if kf6_key L0 R0 L1 R1 p then 6
                   else if kf5_key L0 R0 R1 p then 5 else 0
               | VRow _ _ => 0
               end in
        let codes := map code (jdiff dump want ++ jdiff want dump) in
        match codes with
        | [] => 0
        | c :: _ => if forallb (fun x => negb (N.eqb x 0)) codes then fold_right N.min c codes else 0
        end
  end%N.

(** ** the fold *)
Record jacc := mkJA {
  ja_st : jstate; ja_L0 : tbl; ja_R0 : tbl; ja_L : tbl; ja_R : tbl;
  ja_dump : list (bytes * kvval); ja_magree : bool; ja_sholds : bool; ja_kf : N }.

Definition jobs_of chunks tab (prev : list (bytes * kvval)) (o : yobs) : jobs :=
  match o with
  | YErr e => JErr e
  | YSv e dels puts qs =>
      JSv e (apply_diff prev (map (ykey chunks) dels)
                        (map (fun kv => (ykey chunks (fst kv), yval_of chunks tab (snd kv))) puts))
          (map (jq_of chunks tab) qs)
  end.

Definition jcheck_step chunks tab (a : jacc) (x : yop * yobs) : jacc :=
  let o := jop_of chunks tab (fst x) in
  let ob := jobs_of chunks tab (ja_dump a) (snd x) in
  let dump1 := match ob with JSv _ d _ => d | JErr _ => ja_dump a end in
  let '(e, st1) := jstep (ja_st a) o in
  let magree := ja_magree a && jobs_model e st1 ob in
  if ja_sholds a then
    let '(es, (L1, R1)) := js_step (ja_L a) (ja_R a) o in
    let ok := jobs_spec es L1 R1 ob in
    let kf := if ok then 0%N else jclassify (ja_L0 a) (ja_R0 a) L1 R1 ob in
    if is_jsave o
    then mkJA st1 L1 R1 L1 R1 dump1 magree ok kf
    else mkJA st1 (ja_L0 a) (ja_R0 a) L1 R1 dump1 magree ok kf
  else mkJA st1 (ja_L0 a) (ja_R0 a) (ja_L a) (ja_R a) dump1 magree false (ja_kf a).

Definition check_jcase (c : jcase) : verdict :=
  let '(JCase chunks tab steps) := c in
  let a := fold_left (jcheck_step chunks tab) steps (mkJA jinit [] [] [] [] [] true true 0%N) in
  (* inside the guard of C10_join_refines_map_partial every divergence is a violation *)
  let kf := if jsafe (map (fun x => jop_of chunks tab (fst x)) steps) then 0%N else ja_kf a in
  (ja_magree a, ja_sholds a, kf).
