(** C10 — the refinement invariant between table.go's cache + KV store and
    the abstract map, and its frame lemmas. *)
From Coq Require Import List NArith ZArith Bool Lia.
From C33 Require Import Lib.Bytes Lib.OMap C10.Model C10.Spec C10.ProofsKeys.
Import ListNotations.

Definition is_tnone (t : rty) : bool := match t with TNone => true | _ => false end.
Definition live (p : bytes) (r : crow) : bool := beqb (c_pk r) p && negb (is_tnone (c_ty r)).
Definition lives (p : bytes) (rws : list crow) : list crow := filter (live p) rws.

Definition crow_ok (r : crow) : Prop :=
  data_ok (c_data r) = true /\
  (forall d0, c_old r = Some d0 -> data_ok d0 = true) /\
  (c_ty r = TUpdate -> c_old r <> None).

(** status of one primary key: [ri] = its rowmap entry, [o0] = row at the last
    save, [o] = row in the abstract map now *)
Definition kinv (rws : list crow) (ri : option nat) (o0 o : option rowdata) (p : bytes) : Prop :=
  match ri with
  | Some i =>
      exists r, nth_error rws i = Some r /\ c_pk r = p /\ lives p rws = [r] /\ o = Some (c_data r) /\
        ((c_ty r = TAdd /\ o0 = None) \/
         (c_ty r = TUpdate /\ exists d0, c_old r = Some d0 /\ o0 = Some d0))
  | None =>
      (lives p rws = [] /\ o = o0) \/
      (exists r d0, lives p rws = [r] /\ c_pk r = p /\ c_ty r = TDel /\ o0 = Some d0 /\
         c_data r = d0 /\ o = None)
  end.

Record inv (st : state) (m0 m : tbl) : Prop := mkInv {
  i_kv : kv st = encode m0;
  i_s0 : sorted m0;
  i_s : sorted m;
  i_srm : sorted (rmap st);
  i_ok0 : rows_ok m0;
  i_ok : rows_ok m;
  i_rows : Forall crow_ok (rows st);
  i_keys : forall p, kinv (rows st) (get p (rmap st)) (get p m0) (get p m) p }.

(** * list facts *)
Lemma set_nth_length {A} i (x : A) l : length (set_nth i x l) = length l.
Proof. revert i; induction l; destruct i; simpl; auto. Qed.

Lemma nth_set_nth_same {A} i (x y : A) l : nth_error l i = Some y -> nth_error (set_nth i x l) i = Some x.
Proof. revert i; induction l; destruct i; simpl; try discriminate; auto. Qed.

Lemma nth_set_nth_other {A} i j (x : A) l : i <> j -> nth_error (set_nth i x l) j = nth_error l j.
Proof.
  revert i j; induction l; destruct i, j; simpl; auto; try congruence.
Qed.

Lemma Forall_set_nth {A} (P : A -> Prop) i x l : Forall P l -> P x -> Forall P (set_nth i x l).
Proof.
  revert i; induction l; destruct i; simpl; intros F Px; auto; inversion F; subst; constructor; auto.
Qed.

Lemma lives_app p a b : lives p (a ++ b) = lives p a ++ lives p b.
Proof. apply filter_app. Qed.

Lemma live_pk p r : live p r = true -> c_pk r = p.
Proof. unfold live. rewrite andb_true_iff. intros [H _]. apply beqb_eq in H; auto. Qed.

Lemma live_other p r : c_pk r <> p -> live p r = false.
Proof. unfold live. intro H. apply beqb_neq in H. rewrite H. auto. Qed.

Lemma lives_set_nth_other p i r r' rws :
  nth_error rws i = Some r -> c_pk r <> p -> c_pk r' <> p ->
  lives p (set_nth i r' rws) = lives p rws.
Proof.
  revert i; induction rws as [|h tl IH]; destruct i; simpl; try discriminate; intros E N N'.
  - inversion E; subst. rewrite !live_other; auto.
  - rewrite (IH i); auto.
Qed.

Lemma lives_set_nth_same p i r r' rws :
  nth_error rws i = Some r -> lives p rws = [r] -> live p r = true ->
  lives p (set_nth i r' rws) = if live p r' then [r'] else [].
Proof.
  revert i; induction rws as [|h tl IH]; destruct i; simpl; try discriminate; intros E L Lr.
  - inversion E; subst. rewrite Lr in L. inversion L as [L']. fold (lives p tl) in *. rewrite L'.
    destruct (live p r'); auto.
  - fold (lives p tl) in *.
    assert (I : In r (lives p tl)).
    { apply filter_In. split; auto. eapply nth_error_In; eauto. }
    destruct (live p h) eqn:Lh.
    + inversion L as [[Eh L']]. rewrite L' in I. destruct I.
    + rewrite (IH i); auto.
Qed.

(** * frames: what happens to the status of another key *)
Lemma kinv_frame_app rws r' ri o0 o q :
  c_pk r' <> q -> kinv rws ri o0 o q -> kinv (rws ++ [r']) ri o0 o q.
Proof.
  intros N K. unfold kinv in *. rewrite lives_app. simpl. rewrite (live_other q r' N), app_nil_r.
  destruct ri as [i|]; auto.
  destruct K as [r [E K]]. exists r. split; auto.
  rewrite nth_error_app1; auto. apply nth_error_Some. congruence.
Qed.

Lemma kinv_frame_set rws i r r' ri o0 o q :
  nth_error rws i = Some r -> c_pk r <> q -> c_pk r' <> q ->
  kinv rws ri o0 o q -> kinv (set_nth i r' rws) ri o0 o q.
Proof.
  intros E N N' K. unfold kinv in *. rewrite (lives_set_nth_other q i r r' rws E N N').
  destruct ri as [j|]; auto.
  destruct K as [rq [Eq [Pq K]]]. exists rq. split; [|split; auto].
  rewrite nth_set_nth_other; auto. intro; subst j. congruence.
Qed.

(** * reading through the cache *)
Lemma get_data_encode m0 p : sorted m0 -> rows_ok m0 ->
  get_data (encode m0) p =
  match get p m0 with
  | Some d0 => (EOk, Some (mkC TNone p d0 None))
  | None => (ENotFound, None)
  end.
Proof.
  intros S OK. unfold get_data. rewrite get_encode_dkey by auto. destruct (get p m0); auto.
Qed.

Lemma deleted_saved_false m0 m p :
  deleted_saved m0 m p = false -> forall d0, get p m0 = Some d0 -> get p m <> None.
Proof. unfold deleted_saved. intros H d0 E. rewrite E in H. destruct (get p m); congruence. Qed.

Inductive found (st : state) (m0 m : tbl) (p : bytes) : Prop :=
| f_cached i r :
    get p (rmap st) = Some i -> find_row st p = (EOk, Some r, Some i) ->
    nth_error (rows st) i = Some r -> c_pk r = p -> lives p (rows st) = [r] ->
    get p m = Some (c_data r) ->
    ((c_ty r = TAdd /\ get p m0 = None) \/
     (c_ty r = TUpdate /\ exists d0, c_old r = Some d0 /\ get p m0 = Some d0)) ->
    found st m0 m p
| f_saved d0 :
    get p (rmap st) = None -> lives p (rows st) = [] -> get p m0 = Some d0 -> get p m = Some d0 ->
    find_row st p = (EOk, Some (mkC TNone p d0 None), None) -> found st m0 m p
| f_absent :
    get p (rmap st) = None -> lives p (rows st) = [] -> get p m0 = None -> get p m = None ->
    find_row st p = (ENotFound, None, None) -> found st m0 m p.

Lemma find_row_spec st m0 m p :
  inv st m0 m -> deleted_saved m0 m p = false -> found st m0 m p.
Proof.
  intros I ND. pose proof (i_keys _ _ _ I p) as K. unfold kinv in K.
  destruct (get p (rmap st)) as [i|] eqn:R.
  - destruct K as [r [E [P [L [O T]]]]].
    eapply f_cached; eauto. unfold find_row. rewrite R, E. auto.
  - assert (F : find_row st p = let '(e, r) := get_data (encode m0) p in (e, r, None)).
    { unfold find_row. rewrite R, (i_kv _ _ _ I). auto. }
    rewrite get_data_encode in F by (apply I).
    destruct K as [[L O]|[r [d0 [L [P [T [O0 [IS O]]]]]]]].
    + destruct (get p m0) as [d0|] eqn:G0.
      * eapply f_saved; eauto.
      * eapply f_absent; eauto.
    + exfalso. eapply deleted_saved_false; eauto.
Qed.

Lemma live_of_lives p r rws : lives p rws = [r] -> live p r = true.
Proof.
  intro L. assert (I : In r (lives p rws)) by (rewrite L; left; auto).
  apply filter_In in I. tauto.
Qed.

Lemma rows_ok_put m p d : rows_ok m -> r_pk d = p -> data_ok d = true -> rows_ok (put p d m).
Proof.
  intros OK E D q dq G. rewrite get_put in G. destruct (beqb q p) eqn:B.
  - apply beqb_eq in B. inversion G; subst. auto.
  - apply OK; auto.
Qed.

Lemma rows_ok_del m p : sorted m -> rows_ok m -> rows_ok (del p m).
Proof.
  intros S OK q dq G. rewrite get_del in G by auto. destruct (beqb q p); [discriminate|]. apply OK; auto.
Qed.
