(** C10 — executable model of common/db/table/join.go (JoinTable) as coded.

    Instance (the harness builds exactly this on a real table.JoinTable):
      left  = Option{Prefix "p", Name "a", Primary "txhash", Index ["gameID","addr"]}
      right = Option{Prefix "p", Name "g", Primary "gameID", Index ["status","tag"]}
      join  = NewJoinTable(left, right, ["addr#status", "#status"])
    Both tables hold rows of the shape of [rowdata] (primary, two indexed
    fields, payload):  left row  = (txhash, gameID = foreign key, addr, amount),
                       right row = (gameID, status, tag, amount).

    The left and the right table are two instances of the base table model
    (Model.v: row cache + Save); each keeps its own store, which holds the
    table's records under the BASE key layout ("p-t-...").  The real database
    is one flat KV store in which the three tables use disjoint key prefixes;
    Check (JoinCheck.v) renders the flat store from the three model stores by
    renaming the table/index names in the keys and compares it with the dump
    of the real database.  The join table's index records are kept under
    their real keys "p-a#g-m-<index>-<JoinKey(left value, right value)>-<txhash>".

    JoinTable.Save = saveLeft for every pending left row, saveRight for every
    pending right row (foreign-key lookup = ListIndex prefix scan of the left
    "gameID" index + mergeCache), join.Table.Save, left.Save, right.Save. *)
From Coq Require Import List NArith ZArith Bool.
From C33 Require Import Lib.Bytes Lib.OMap C10.Model.
Import ListNotations.

Definition l_gid (d : rowdata) : bytes := r_to d.      (* left: foreign key (right primary) *)
Definition l_addr (d : rowdata) : bytes := r_note d.   (* left: addr *)
Definition g_st (d : rowdata) : bytes := r_to d.       (* right: status *)

(** * join index keys *)
Inductive jidx := JAddrSt | JSt.                       (* "addr#status", "#status" *)
Definition all_jidx : list jidx := [JAddrSt; JSt].     (* opt.Index order *)

(** JoinKey = types.Encode(&types.KeyValue{Key: l, Value: r}): proto3, empty
    fields omitted, one length byte (values shorter than 128 bytes) *)
Definition pb_field (tag : N) (b : bytes) : bytes :=
  match b with [] => [] | _ => tag :: N.of_nat (length b) :: b end.
Definition joinkey (l r : bytes) : bytes := pb_field 10 l ++ pb_field 18 r.

(** JoinMeta.Get(index) *)
Definition jval (l r : rowdata) (i : jidx) : bytes :=
  match i with
  | JAddrSt => joinkey (l_addr l) (g_st r)
  | JSt => joinkey [] (g_st r)
  end.

(** indexPrefix of the join table: Prefix-Name-m-index- with Name = "a#g" *)
Definition jpre (i : jidx) : bytes :=
  match i with
  | JAddrSt => [112; 45; 97; 35; 103; 45; 109; 45; 97; 100; 100; 114; 35; 115; 116; 97; 116; 117; 115; 45]%N   (* "p-a#g-m-addr#status-" *)
  | JSt => [112; 45; 97; 35; 103; 45; 109; 45; 35; 115; 116; 97; 116; 117; 115; 45]%N   (* "p-a#g-m-#status-" *)
  end.
Definition jikey (i : jidx) (v pk : bytes) : bytes := jpre i ++ v ++ [sepc] ++ pk.   (* getIndexKey *)

(** * the join table's pending rows (Row with Data = JoinData{Left, Right}) *)
Record jrow := mkJ { j_ty : rty; j_pk : bytes; j_l : rowdata; j_r : rowdata;
                     j_old : option (rowdata * rowdata) }.

Record jstate := mkJS { lst : state; rst : state; jkv : omap kvval; jrows : list jrow }.
Definition jinit : jstate := mkJS init init [] [].

Definition is_tupd (t : rty) : bool := match t with TUpdate => true | _ => false end.
Definition old_or_data (r : crow) : rowdata := match c_old r with Some o => o | None => c_data r end.

(** isLeftModify / isRightModify: some left (right) column of a join index changed *)
Definition left_modified (r : crow) : bool :=
  match c_old r with Some o => negb (beqb (l_addr (c_data r)) (l_addr o)) | None => false end.
Definition right_modified (r : crow) : bool :=
  match c_old r with Some o => negb (beqb (g_st (c_data r)) (g_st o)) | None => false end.

(** saveLeft: the join row of one pending left row; the right row is found
    through right.findRow (cache, then store) with the row's foreign key *)
Definition save_left (rs : state) (r : crow) : err * list jrow :=
  if is_tupd (c_ty r) && negb (left_modified r) then (EOk, [])
  else
    match find_row rs (l_gid (c_data r)) with
    | (EOk, Some rr, pos) =>
        let incache := match pos with Some _ => true | None => false end in
        let oldr := if incache && is_tupd (c_ty rr) then old_or_data rr else c_data rr in
        let old := if is_tupd (c_ty r) then Some (old_or_data r, oldr) else None in
        (EOk, [mkJ (c_ty r) (c_pk r) (c_data r) (c_data rr) old])
    | (EOk, None, _) => (EOther, [])
    | (e, _, _) => (e, [])
    end.

(** q.ListIndex(fk, rightPrimary, nil, 0, ListDESC) on the left table: a PREFIX
    scan of the left "gameID" index; ErrNotFound is tolerated *)
Definition fk_scan (ls : state) (k : bytes) : err * list crow :=
  match list_index (kv ls) (mkQ (QIdx ITo) k [] 0 false) with
  | (EOk, rs) => (EOk, map (fun pr => mkC TNone (fst pr) (snd pr) None) rs)
  | (ENotFound, _) => (EOk, [])
  | (e, _) => (e, [])
  end.

Definition cached_row (ls : state) (p : bytes) : option crow :=
  match get p (rmap ls) with Some i => nth_error (rows ls) i | None => None end.

(** Table.mergeCache: stored rows are replaced by their cached row object; cached
    rows that were not among the stored ones are added when their foreign key
    EQUALS the right key (rowmap is iterated in key order here; the order does
    not influence the saved result) *)
Definition merge_cache (ls : state) (rws : list crow) (k : bytes) : list crow :=
  let rws' := map (fun r => match cached_row ls (c_pk r) with Some cr => cr | None => r end) rws in
  let replaced p := existsb (fun r => beqb (c_pk r) p) rws in
  let cached := flat_map (fun e => match nth_error (rows ls) (snd e) with Some cr => [cr] | None => [] end)
                         (elements (rmap ls)) in
  rws' ++ filter (fun cr => negb (replaced (c_pk cr)) && beqb (l_gid (c_data cr)) k) cached.

(** saveRight: one join row per left row found for the right row's key *)
Definition save_right (ls : state) (r : crow) : err * list jrow :=
  if is_tupd (c_ty r) && negb (right_modified r) then (EOk, [])
  else
    match fk_scan ls (c_pk r) with
    | (EOk, rws) =>
        (EOk, map (fun one =>
                mkJ (c_ty r) (c_pk one) (c_data one) (c_data r)
                    (if is_tupd (c_ty r)
                     then Some (if is_tupd (c_ty one) then old_or_data one else c_data one, old_or_data r)
                     else None))
              (merge_cache ls rws (c_pk r)))
    | (e, _) => (e, [])
    end.

(** the loops of JoinTable.Save over left.rows / right.rows (Ty == None skipped) *)
Fixpoint save_each (f : crow -> err * list jrow) (rws : list crow) (acc : list jrow) : err * list jrow :=
  match rws with
  | [] => (EOk, acc)
  | r :: tl =>
      match c_ty r with
      | TNone => save_each f tl acc
      | _ => match f r with
             | (EOk, js) => save_each f tl (acc ++ js)
             | (e, _) => (e, acc)
             end
      end
  end.

(** * Table.Save of the join table (opt.Join: index records only) *)
Definition j_del_row (r : jrow) : list kvw :=
  map (fun i => (jikey i (jval (j_l r) (j_r r) i) (j_pk r), None)) all_jidx.
Definition j_add_row (r : jrow) : list kvw :=
  map (fun i => (jikey i (jval (j_l r) (j_r r) i) (j_pk r), Some (VPrim (j_pk r)))) all_jidx.
Definition j_upd_idx (r : jrow) (old : rowdata * rowdata) (i : jidx) : list kvw :=
  let nv := jval (j_l r) (j_r r) i in
  let ov := jval (fst old) (snd old) i in
  if beqb nv ov then []
  else [ (jikey i ov (j_pk r), None); (jikey i nv (j_pk r), Some (VPrim (j_pk r))) ].
Definition j_update_row (r : jrow) : option (list kvw) :=
  match j_old r with
  | None => None                                    (* ErrNilValue *)
  | Some old =>
      if rowdata_eqb (j_l r) (fst old) && rowdata_eqb (j_r r) (snd old) then Some []
      else Some (flat_map (j_upd_idx r old) all_jidx)
  end.
Definition j_save_row (r : jrow) : option (list kvw) :=
  match j_ty r with
  | TDel => Some (j_del_row r)
  | TAdd => Some (j_add_row r)
  | TUpdate => j_update_row r
  | TNone => Some []
  end.
Fixpoint j_save_rows (l : list jrow) : option (list kvw) :=
  match l with
  | [] => Some []
  | r :: tl =>
      match j_save_row r, j_save_rows tl with
      | Some a, Some b => Some (a ++ b)
      | _, _ => None
      end
  end.

(** JoinTable.Save + util.SaveKVList.  On an error nothing is written and the
    three caches stay as they are (the join rows built so far included). *)
Definition j_save (st : jstate) : err * jstate :=
  match save_each (save_left (rst st)) (rows (lst st)) (jrows st) with
  | (EOk, j1) =>
      match save_each (save_right (lst st)) (rows (rst st)) j1 with
      | (EOk, j2) =>
          match j_save_rows j2 with
          | None => (EOther, mkJS (lst st) (rst st) (jkv st) j2)
          | Some ws =>
              match m_save (lst st) with
              | (EOk, l') =>
                  match m_save (rst st) with
                  | (EOk, r') => (EOk, mkJS l' r' (fold_left apply_kv ws (jkv st)) [])
                  | (e, _) => (e, mkJS l' (rst st) (jkv st) [])
                  end
              | (e, _) => (e, mkJS (lst st) (rst st) (jkv st) [])
              end
          end
      | (e, j2) => (e, mkJS (lst st) (rst st) (jkv st) j2)
      end
  | (e, j1) => (e, mkJS (lst st) (rst st) (jkv st) j1)
  end.

(** * operations: the base operations on the left / right table, and join.Save *)
Inductive jop := JL (o : op) | JR (o : op) | JSave.

Definition jstep (st : jstate) (o : jop) : err * jstate :=
  match o with
  | JL o => let '(e, s) := step (lst st) o in (e, mkJS s (rst st) (jkv st) (jrows st))
  | JR o => let '(e, s) := step (rst st) o in (e, mkJS (lst st) s (jkv st) (jrows st))
  | JSave => j_save st
  end.

Fixpoint jrun (st : jstate) (ops : list jop) : list err * jstate :=
  match ops with
  | [] => ([], st)
  | o :: tl => let '(e, st1) := jstep st o in let '(es, st2) := jrun st1 tl in (e :: es, st2)
  end.

(** * join queries *)
Definition jres : Type := (bytes * rowdata * rowdata)%type.

(** JoinTable.GetData: left row from the store, right row by its foreign key *)
Definition j_get_data (st : jstate) (p : bytes) : err * option jres :=
  match get_data (kv (lst st)) p with
  | (EOk, Some l) =>
      match get_data (kv (rst st)) (l_gid (c_data l)) with
      | (EOk, Some r) => (EOk, Some (c_pk l, c_data l, c_data r))
      | (EOk, None) => (EOther, None)
      | (e, _) => (e, None)
      end
  | (EOk, None) => (EOther, None)
  | (e, _) => (e, None)
  end.

Fixpoint jrows_by_primary (st : jstate) (vs : list kvval) : err * list jres :=
  match vs with
  | [] => (EOk, [])
  | VPrim p :: tl =>
      match j_get_data st p with
      | (EOk, Some x) =>
          match jrows_by_primary st tl with
          | (EOk, l) => (EOk, x :: l)
          | (e, _) => (e, [])
          end
      | (e, _) => (match e with EOk => EOther | _ => e end, [])
      end
  | VRow _ _ :: tl => (EOther, [])
  end.

Record jquery := mkJQ { jq_idx : jidx; jq_prefix : bytes; jq_start : bytes; jq_count : Z; jq_asc : bool }.

Definition jnonempty (r : err * list jres) : err * list jres :=
  match r with
  | (EOk, []) => (ENotFound, [])
  | (EOk, l) => (EOk, l)
  | (e, _) => (e, [])
  end.

(** JoinTable.ListIndex -> Query.ListIndex with table = the join table *)
Definition j_list_index (st : jstate) (q : jquery) : err * list jres :=
  let go key :=
    jnonempty (jrows_by_primary st
      (list_kv (jpre (jq_idx q) ++ jq_prefix q) key (jq_count q) (jq_asc q) (jkv st))) in
  if is_nil (jq_start q) then go []
  else match j_get_data st (jq_start q) with
       | (EOk, Some (p, l, r)) =>
           let v := jval l r (jq_idx q) in
           if negb (is_prefix (jq_prefix q) v) then (ENotFound, []) else go (jikey (jq_idx q) v p)
       | (e, _) => (match e with EOk => EOther | _ => e end, [])
       end.
