(** C10 — JoinTable proofs, part 4: inside the guard the writes of
    JoinTable.Save that concern one left key come from at most one left row
    (saveLeft) and one right row (saveRight: the row of the left key's foreign key). *)
From Coq Require Import List NArith ZArith Bool Lia.
From C33 Require Import Lib.Bytes Lib.OMap C10.Model C10.Spec C10.ProofsKeys C10.ProofsInv
  C10.Join C10.JoinSpec C10.ProofsJoinKeys C10.ProofsJoinRows C10.ProofsJoinSave.
Import ListNotations.

Lemma live_row_known s m0 m r :
  inv s m0 m -> In r (rows s) -> is_tnone (c_ty r) = false ->
  In r (lives (c_pk r) (rows s)) /\ (get (c_pk r) m0 <> None \/ get (c_pk r) m <> None).
Proof.
  intros I Hin NN.
  assert (Lv : In r (lives (c_pk r) (rows s))).
  { apply filter_In. split; auto. unfold live. rewrite beqb_refl, NN. auto. }
  split; auto.
  destruct (view_of_inv s m0 m (c_pk r) I) as [Rm L0 | r' i Rm N P L0 T O0 O | r' i d0 Rm N P L0 T Old O0 O | r' d0 Rm L0 P T D O0 O];
    rewrite L0 in Lv.
  - destruct Lv.
  - right. congruence.
  - right. congruence.
  - left. congruence.
Qed.

Ltac bool_eqs :=
  repeat match goal with
  | H : beqb _ _ = true |- _ => apply beqb_eq in H
  | H : beqb _ _ = false |- _ => apply beqb_neq in H
  end.

(** decide a goal about the records of one left key: case analysis on every
    comparison of join keys, then congruence *)
Ltac fin :=
  unfold jeff, jent, left_jrow, rj, old_or_data;
  cbn [j_ty j_pk j_l j_r j_old fst snd c_ty c_pk c_data c_old is_tupd jval];
  repeat match goal with |- context [beqb ?a ?b] => destruct (beqb a b) eqn:? end;
  bool_eqs; try reflexivity; try congruence.

Ltac right_view IR g :=
  destruct (view_of_inv _ _ _ g IR)
    as [Rmr Lvr Or Fr | rr nr Rmr Nr Pr Lvr Tr O0r Or Fr | rr nr d0r Rmr Nr Pr Lvr Tr Oldr O0r Or Fr
        | rr d0r Rmr Lvr Pr Tr Dr O0r Or Fr].

Section Key.
Variables (st : jstate) (L0 R0 L R : tbl).
Hypothesis IL : inv (lst st) L0 L.
Hypothesis IR : inv (rst st) R0 R.
Hypothesis PL0 : pks_ok L0.
Hypothesis PL : pks_ok L.
Hypothesis PR0 : pks_ok R0.
Hypothesis PR : pks_ok R.
Hypothesis G : save_safe all_clauses L0 R0 L R = true.

(** ** the guard at one left key *)
Lemma guard_at p :
  (get p L0 <> None \/ get p L <> None) -> left_key_safe all_clauses L0 R0 L R p = true.
Proof.
  intro H. unfold save_safe in G. rewrite forallb_forall in G. apply G. apply in_or_app.
  destruct H as [H|H]; [left|right].
  - destruct (in_dec bytes_eq_dec p (keys L0)) as [I|N]; auto. apply get_None_notin in N. contradiction.
  - destruct (in_dec bytes_eq_dec p (keys L)) as [I|N]; auto. apply get_None_notin in N. contradiction.
Qed.

Lemma key_known k (m : tbl) : get k m <> None -> In k (keys m).
Proof.
  intro H. destruct (in_dec bytes_eq_dec k (keys m)) as [I|N]; auto. apply get_None_notin in N. contradiction.
Qed.

Lemma guard_clauses p :
  left_key_safe all_clauses L0 R0 L R p = true ->
  (forall l0 l1, get p L0 = Some l0 -> get p L = Some l1 -> l_gid l0 = l_gid l1) /\
  (forall g, needs_right (get p L0) (get p L) = Some g -> mem g R0 || mem g R = true) /\
  (forall l0, get p L0 = Some l0 -> get p L = None -> get (l_gid l0) R <> None ->
     right_effective R0 R (l_gid l0) = false) /\
  (forall l0 k, get p L0 = Some l0 -> (get k R0 <> None \/ get k R <> None) ->
     right_effective R0 R k = true -> is_prefix k (l_gid l0) = true -> k = l_gid l0).
Proof.
  unfold left_key_safe, all_clauses. cbn [cl_fk cl_ref cl_del cl_pre negb orb]. intro H.
  apply andb_true_iff in H. destruct H as [H H4]. apply andb_true_iff in H. destruct H as [H H3].
  apply andb_true_iff in H. destruct H as [H1 H2].
  split; [|split; [|split]].
  - intros l0 l1 E0 E1. rewrite E0, E1 in H1. apply beqb_eq. exact H1.
  - intros g E. rewrite E in H2. exact H2.
  - intros l0 E0 E1 NR. rewrite E0, E1 in H3. destruct (get (l_gid l0) R); [|congruence].
    apply negb_true_iff in H3. exact H3.
  - intros l0 k E0 K Ef Pf. rewrite E0 in H4. rewrite forallb_forall in H4.
    assert (Ik : In k (keys R0 ++ keys R)).
    { apply in_or_app. destruct K as [K|K]; [left|right]; apply key_known; auto. }
    specialize (H4 k Ik). rewrite Ef, Pf in H4. simpl in H4. apply beqb_eq. exact H4.
Qed.

(** ** every join row built by the loops belongs to a known left key *)
Lemma sepfree_left_rows :
  Forall (fun r => sepfree (j_pk r) = true) (flat_map (hL st) (rows (lst st))).
Proof.
  apply Forall_forall. intros jr I. apply in_flat_map in I. destruct I as [r [Ir I]].
  unfold hL in I. destruct (is_tnone (c_ty r)) eqn:NN; [destruct I|].
  rewrite (save_left_pk _ _ _ I).
  destruct (live_row_known _ _ _ _ IL Ir NN) as [_ [K|K]].
  - destruct (get (c_pk r) L0) as [d|] eqn:E; [|congruence]. apply pk_ok_sepfree. eapply PL0; eauto.
  - destruct (get (c_pk r) L) as [d|] eqn:E; [|congruence]. apply pk_ok_sepfree. eapply PL; eauto.
Qed.

Lemma right_key_sepfree rr :
  In rr (rows (rst st)) -> is_tnone (c_ty rr) = false -> sepfree (c_pk rr) = true.
Proof.
  intros Ir NN. destruct (live_row_known _ _ _ _ IR Ir NN) as [_ [K|K]].
  - destruct (get (c_pk rr) R0) as [d|] eqn:E; [|congruence]. apply pk_ok_sepfree. eapply PR0; eauto.
  - destruct (get (c_pk rr) R) as [d|] eqn:E; [|congruence]. apply pk_ok_sepfree. eapply PR; eauto.
Qed.

Lemma reached_known k p : reached st L0 k p -> get p L0 <> None \/ get p L <> None.
Proof.
  intros [[l0 [E _]]|[cr [C _]]].
  - left. congruence.
  - right. unfold cached_row in C.
    destruct (view_of_inv _ _ _ p IL) as [Rm | r i Rm N P Lv T O0 O | r i d0 Rm N P Lv T Old O0 O | r d0 Rm];
      rewrite Rm in C; try discriminate; congruence.
Qed.

Lemma sepfree_right_rows :
  Forall (fun r => sepfree (j_pk r) = true) (flat_map (hR st) (rows (rst st))).
Proof.
  apply Forall_forall. intros jr I. apply in_flat_map in I. destruct I as [rr [Ir I]].
  destruct (is_tnone (c_ty rr)) eqn:NN; [unfold hR in I; rewrite NN in I; destruct I|].
  pose proof (right_key_sepfree rr Ir NN) as Sk.
  destruct (right_rows_for st L0 L IL PL0 rr (j_pk jr) Sk NN) as [_ B].
  assert (NE : for_pk (j_pk jr) (hR st rr) <> []).
  { intro X. assert (Y : In jr (for_pk (j_pk jr) (hR st rr))) by (apply filter_In; split; auto; apply beqb_refl).
    rewrite X in Y. destruct Y. }
  apply B in NE. destruct NE as [_ Rch]. apply reached_known in Rch.
  destruct Rch as [K|K].
  - destruct (get (j_pk jr) L0) as [d|] eqn:E; [|congruence]. apply pk_ok_sepfree. eapply PL0; eauto.
  - destruct (get (j_pk jr) L) as [d|] eqn:E; [|congruence]. apply pk_ok_sepfree. eapply PL; eauto.
Qed.

(** ** the writes of the whole Save, restricted to the keys of left key [p] *)
Definition W : list kvw :=
  flat_map jwr (flat_map (hL st) (rows (lst st)) ++ flat_map (hR st) (rows (rst st))).
Definition Wl (p : bytes) : list kvw := flat_map jwr (flat_map (hL st) (lives p (rows (lst st)))).
Definition Wr (p : bytes) : list kvw :=
  flat_map jwr (flat_map (fun rr => for_pk p (hR st rr)) (rows (rst st))).

Lemma lw_W p i v : sepfree p = true ->
  lw (jikey i v p) W =
  match lw (jikey i v p) (Wr p) with Some x => Some x | None => lw (jikey i v p) (Wl p) end.
Proof.
  intro Sp. unfold W. rewrite lw_flat_filter; auto.
  - unfold for_pk at 1. rewrite filter_app. fold (for_pk p (flat_map (hL st) (rows (lst st)))).
    fold (for_pk p (flat_map (hR st) (rows (rst st)))).
    rewrite flat_map_app, lw_app, for_pk_left, for_pk_flat_map. reflexivity.
  - apply Forall_app. split; [apply sepfree_left_rows|apply sepfree_right_rows].
Qed.

(** the foreign key of left key [p] *)
Definition gid_of (p : bytes) : bytes :=
  match get p L with
  | Some l => l_gid l
  | None => match get p L0 with Some l0 => l_gid l0 | None => [] end
  end.

Lemma eff_of_row rr :
  In rr (rows (rst st)) -> is_tnone (c_ty rr) = false -> right_skipped rr = false ->
  right_effective R0 R (c_pk rr) = true /\ (get (c_pk rr) R0 <> None \/ get (c_pk rr) R <> None).
Proof.
  intros Ir NN SK. destruct (live_row_known _ _ _ _ IR Ir NN) as [Lv K]. split; auto.
  unfold right_effective.
  destruct (view_of_inv _ _ _ (c_pk rr) IR) as [Rm Lv0 | r i Rm N P Lv0 T O0 O | r i d0 Rm N P Lv0 T Old O0 O | r d0 Rm Lv0 P T D O0 O];
    rewrite Lv0 in Lv.
  - destruct Lv.
  - rewrite O0, O. auto.
  - destruct Lv as [<-|[]]. rewrite O0, O. unfold right_skipped, right_modified in SK.
    rewrite T, Old in SK. cbn [is_tupd andb] in SK. rewrite negb_involutive in SK.
    rewrite beqb_sym. rewrite SK. auto.
  - rewrite O0, O. auto.
Qed.

Lemma reached_is_gid rr p :
  In rr (rows (rst st)) -> is_tnone (c_ty rr) = false -> right_skipped rr = false ->
  reached st L0 (c_pk rr) p -> c_pk rr = gid_of p.
Proof.
  intros Ir NN SK Rch. destruct (eff_of_row rr Ir NN SK) as [Ef K].
  pose proof (guard_clauses p (guard_at p (reached_known _ _ Rch))) as [C1 [_ [_ C4]]].
  unfold gid_of. destruct Rch as [[l0 [E Pf]]|[cr [C Gk]]].
  - rewrite (C4 l0 (c_pk rr) E K Ef Pf), E. destruct (get p L) as [l1|] eqn:E1; [|reflexivity].
    apply C1; auto.
  - unfold cached_row in C.
    destruct (view_of_inv _ _ _ p IL) as [Rm | r i Rm N P Lv T O0 O | r i d0 Rm N P Lv T Old O0 O | r d0 Rm];
      rewrite Rm in C; try discriminate.
    + rewrite O. congruence.
    + rewrite O. congruence.
Qed.

(** only the right row of the left key's foreign key contributes *)
Lemma Wr_lives p :
  Wr p = flat_map jwr (flat_map (fun rr => for_pk p (hR st rr)) (lives (gid_of p) (rows (rst st)))).
Proof.
  unfold Wr. f_equal. apply flat_map_lives. intros rr Ir Lv.
  destruct (is_tnone (c_ty rr)) eqn:NN; [unfold hR; rewrite NN; auto|].
  pose proof (right_key_sepfree rr Ir NN) as Sk.
  destruct (right_rows_for st L0 L IL PL0 rr p Sk NN) as [_ B].
  destruct (for_pk p (hR st rr)) as [|jr tl] eqn:E; auto. exfalso.
  assert (NE : jr :: tl <> []) by discriminate. apply B in NE. destruct NE as [SK Rch].
  pose proof (reached_is_gid rr p Ir NN SK Rch) as Eg.
  unfold live in Lv. rewrite Eg, beqb_refl, NN in Lv. discriminate.
Qed.

(** ** the two contributions in terms of the rows *)
Lemma Wl_none p : lives p (rows (lst st)) = [] -> Wl p = [].
Proof. intro E. unfold Wl. rewrite E. reflexivity. Qed.

Lemma Wl_skip p r :
  lives p (rows (lst st)) = [r] -> is_tupd (c_ty r) && negb (left_modified r) = true -> Wl p = [].
Proof.
  intros E SK. unfold Wl. rewrite E. cbn [flat_map]. unfold hL, save_left. rewrite SK.
  destruct (is_tnone (c_ty r)); reflexivity.
Qed.

Lemma Wl_one p r i v rc :
  sepfree p = true -> lives p (rows (lst st)) = [r] -> c_pk r = p -> is_tnone (c_ty r) = false ->
  is_tupd (c_ty r) && negb (left_modified r) = false ->
  rcur R0 R (l_gid (c_data r)) = Some rc ->
  exists ro, rold R0 R (l_gid (c_data r)) = Some ro /\
    lw (jikey i v p) (Wl p) = jeff (left_jrow r rc ro) i v.
Proof.
  intros Sp E P NN SK C. destruct (save_left_spec _ _ _ r rc IR C) as [ro [Ro S]].
  exists ro. split; auto.
  unfold Wl. rewrite E. cbn [flat_map]. rewrite app_nil_r. unfold hL. rewrite NN, S, SK.
  cbn [snd flat_map]. rewrite app_nil_r.
  pose proof (lw_jwr (left_jrow r rc ro) i v) as H. cbn [left_jrow j_pk] in H. rewrite P in H.
  apply H. exact Sp.
Qed.

Lemma Wr_none p : lives (gid_of p) (rows (rst st)) = [] -> Wr p = [].
Proof. intro E. rewrite Wr_lives, E. reflexivity. Qed.

Lemma Wr_unknown p : get p L0 = None -> get p L = None -> Wr p = [].
Proof.
  intros E0 E1. unfold Wr.
  replace (flat_map (fun rr => for_pk p (hR st rr)) (rows (rst st))) with (@nil jrow); auto.
  symmetry. apply flat_map_all_nil. intros rr Ir.
  destruct (is_tnone (c_ty rr)) eqn:NN; [unfold hR; rewrite NN; auto|].
  pose proof (right_key_sepfree rr Ir NN) as Sk.
  destruct (right_rows_for st L0 L IL PL0 rr p Sk NN) as [_ B].
  destruct (for_pk p (hR st rr)) as [|jr tl] eqn:F; auto. exfalso.
  assert (NE : jr :: tl <> []) by discriminate. apply B in NE. destruct NE as [_ Rch].
  apply reached_known in Rch. destruct Rch; congruence.
Qed.

Lemma one_at_pk p : c_pk (one_at st L0 p) = p.
Proof.
  unfold one_at, one_of. destruct (cached_row (lst st) p) as [cr|] eqn:C.
  - exact (cached_row_pk _ _ _ _ _ IL C).
  - reflexivity.
Qed.

Lemma Wr_one p rr i v :
  sepfree p = true -> lives (gid_of p) (rows (rst st)) = [rr] -> c_pk rr = gid_of p ->
  is_tnone (c_ty rr) = false -> sepfree (gid_of p) = true -> reached st L0 (gid_of p) p ->
  lw (jikey i v p) (Wr p) = if right_skipped rr then None else jeff (rj rr (one_at st L0 p)) i v.
Proof.
  intros Sp E P NN Sg Rch. rewrite Wr_lives, E. cbn [flat_map]. rewrite app_nil_r.
  assert (Sk : sepfree (c_pk rr) = true) by (rewrite P; auto).
  destruct (right_rows_for st L0 L IL PL0 rr p Sk NN) as [A B].
  destruct (right_skipped rr) eqn:SK.
  - destruct (for_pk p (hR st rr)) as [|jr tl] eqn:F; auto. exfalso.
    assert (NE : jr :: tl <> []) by discriminate. apply B in NE. destruct NE as [X _]. discriminate.
  - assert (NE : for_pk p (hR st rr) <> []) by (apply B; split; auto; rewrite P; auto).
    rewrite (lw_all_same _ (rj rr (one_at st L0 p))); auto.
    pose proof (lw_jwr (rj rr (one_at st L0 p)) i v) as H. cbn [rj j_pk] in H.
    rewrite one_at_pk in H. apply H. exact Sp.
Qed.

Lemma reached_gid p : (get p L0 <> None \/ get p L <> None) -> reached st L0 (gid_of p) p.
Proof.
  intro K. unfold gid_of.
  destruct (view_of_inv _ _ _ p IL) as [Rm Lv O F | r i Rm N P Lv T O0 O F | r i d0 Rm N P Lv T Old O0 O F | r d0 Rm Lv P T D O0 O F].
  - rewrite O. destruct (get p L0) as [l0|] eqn:E0.
    + left. exists l0. split; auto. apply is_prefix_refl.
    + rewrite O in K. destruct K; congruence.
  - rewrite O. right. exists r. split; auto. unfold cached_row. rewrite Rm. auto.
  - rewrite O. right. exists r. split; auto. unfold cached_row. rewrite Rm. auto.
  - rewrite O, O0. left. exists d0. split; auto. apply is_prefix_refl.
Qed.

Lemma rcur_some g : mem g R0 || mem g R = true -> exists rc, rcur R0 R g = Some rc.
Proof.
  unfold rcur, mem. destruct (get g R); eauto. destruct (get g R0); eauto. simpl. discriminate.
Qed.

Lemma gid_sepfree p : (get p L0 <> None \/ get p L <> None) -> sepfree (gid_of p) = true.
Proof.
  intro K. unfold gid_of. destruct (get p L) as [l1|] eqn:E1.
  - destruct (i_ok _ _ _ IL _ _ E1) as [_ D]. unfold data_ok in D. apply andb_true_iff in D. tauto.
  - destruct (get p L0) as [l0|] eqn:E0; [|destruct K; congruence].
    destruct (i_ok0 _ _ _ IL _ _ E0) as [_ D]. unfold data_ok in D. apply andb_true_iff in D. tauto.
Qed.

(** ** the records of one left key after the Save *)
Lemma key_saved_none p i v l0 :
  sepfree p = true -> get p (rmap (lst st)) = None -> lives p (rows (lst st)) = [] ->
  get p L = get p L0 -> get p L0 = Some l0 ->
  match lw (jikey i v p) W with
  | Some x => x
  | None => jent p (get p L0) (right_of R0 (get p L0)) i v
  end = jent p (get p L) (right_of R (get p L)) i v.
Proof.
  intros Sp Rm Lv O E0. rewrite lw_W by auto.
  assert (K : get p L0 <> None \/ get p L <> None) by (left; congruence).
  pose proof (reached_gid p K) as Rch. pose proof (gid_sepfree p K) as Sg.
  assert (Eg : gid_of p = l_gid l0) by (unfold gid_of; rewrite O, E0; auto).
  assert (E1 : one_at st L0 p = mkC TNone p l0 None).
  { unfold one_at, one_of, cached_row. rewrite Rm, E0. auto. }
  rewrite (Wl_none p Lv). cbn [lw]. rewrite O, E0. cbn [right_of].
  right_view IR (gid_of p).
  - rewrite (Wr_none p Lvr). cbn [lw]. rewrite <- Eg, Or. reflexivity.
  - rewrite (Wr_one p rr i v Sp Lvr Pr) by (auto; rewrite Tr; auto).
    rewrite E1, <- Eg, O0r, Or. unfold right_skipped. rewrite Tr. cbn [is_tupd andb].
    destruct rr as [ty k d o]. cbn [c_ty c_pk c_data c_old] in *. subst ty. fin.
  - rewrite (Wr_one p rr i v Sp Lvr Pr) by (auto; rewrite Tr; auto).
    rewrite E1, <- Eg, O0r, Or. unfold right_skipped, right_modified. rewrite Tr, Oldr. cbn [is_tupd andb].
    destruct rr as [ty k d o]. cbn [c_ty c_pk c_data c_old] in *. subst ty o.
    destruct (beqb (g_st d) (g_st d0r)) eqn:B; cbn [negb]; [apply beqb_eq in B|]; destruct i; fin.
  - rewrite (Wr_one p rr i v Sp Lvr Pr) by (auto; rewrite Tr; auto).
    rewrite E1, <- Eg, O0r, Or. unfold right_skipped. rewrite Tr. cbn [is_tupd andb].
    destruct rr as [ty k d o]. cbn [c_ty c_pk c_data c_old] in *. subst ty d. fin.
Qed.

(** evaluate [rcur] / [rold] (hypotheses C, Ro) with the right view's facts *)
Ltac eval_right C Ro Eg Or O0r :=
  unfold rcur, rold in C, Ro; rewrite <- Eg in C; rewrite <- Eg in Ro;
  rewrite ?Or in C; rewrite ?O0r in C; rewrite ?O0r in Ro; rewrite ?Or in Ro.

Lemma key_saved_add p i v r n :
  sepfree p = true -> get p (rmap (lst st)) = Some n -> nth_error (rows (lst st)) n = Some r ->
  c_pk r = p -> lives p (rows (lst st)) = [r] -> c_ty r = TAdd ->
  get p L0 = None -> get p L = Some (c_data r) ->
  match lw (jikey i v p) W with
  | Some x => x
  | None => jent p (get p L0) (right_of R0 (get p L0)) i v
  end = jent p (get p L) (right_of R (get p L)) i v.
Proof.
  intros Sp Rm N P Lv T O0 O. rewrite lw_W by auto.
  assert (K : get p L0 <> None \/ get p L <> None) by (right; congruence).
  pose proof (guard_clauses p (guard_at p K)) as [_ [C2 _]].
  pose proof (reached_gid p K) as Rch. pose proof (gid_sepfree p K) as Sg.
  assert (Eg : gid_of p = l_gid (c_data r)) by (unfold gid_of; rewrite O; auto).
  assert (E1 : one_at st L0 p = r).
  { unfold one_at, one_of, cached_row. rewrite Rm, N. auto. }
  destruct (rcur_some (l_gid (c_data r))) as [rc C].
  { apply C2. rewrite O0, O. reflexivity. }
  destruct (Wl_one p r i v rc Sp Lv P) as [ro [Ro HL]]; auto; try (rewrite T; reflexivity).
  rewrite HL, O0, O. cbn [right_of].
  right_view IR (gid_of p); eval_right C Ro Eg Or O0r.
  - rewrite (Wr_none p Lvr). cbn [lw]. rewrite <- Eg, Or.
    destruct (get (gid_of p) R0) as [x|]; [|discriminate]. inversion C; inversion Ro; subst.
    destruct r as [ty k d o]. cbn [c_ty c_pk c_data c_old] in *. subst ty. fin.
  - rewrite (Wr_one p rr i v Sp Lvr Pr) by (auto; rewrite Tr; auto).
    rewrite E1, <- Eg, Or. unfold right_skipped. rewrite Tr. cbn [is_tupd andb].
    injection C as C; injection Ro as Ro; subst rc ro.
    destruct r as [ty k d o]. destruct rr as [ty' k' d' o']. cbn [c_ty c_pk c_data c_old] in *. subst ty ty'. fin.
  - rewrite (Wr_one p rr i v Sp Lvr Pr) by (auto; rewrite Tr; auto).
    rewrite E1, <- Eg, Or. unfold right_skipped, right_modified. rewrite Tr, Oldr. cbn [is_tupd andb].
    injection C as C; injection Ro as Ro; subst rc ro.
    destruct r as [ty k d o]. destruct rr as [ty' k' d' o']. cbn [c_ty c_pk c_data c_old] in *. subst ty ty' o'.
    destruct (beqb (g_st d') (g_st d0r)) eqn:B; cbn [negb]; [apply beqb_eq in B|]; destruct i; fin.
  - rewrite (Wr_one p rr i v Sp Lvr Pr) by (auto; rewrite Tr; auto).
    rewrite E1, <- Eg, Or. unfold right_skipped. rewrite Tr. cbn [is_tupd andb].
    injection C as C; injection Ro as Ro; subst rc ro.
    destruct r as [ty k d o]. destruct rr as [ty' k' d' o']. cbn [c_ty c_pk c_data c_old] in *. subst ty ty' d'. fin.
Qed.

Lemma key_saved_upd p i v r n d0 :
  sepfree p = true -> get p (rmap (lst st)) = Some n -> nth_error (rows (lst st)) n = Some r ->
  c_pk r = p -> lives p (rows (lst st)) = [r] -> c_ty r = TUpdate -> c_old r = Some d0 ->
  get p L0 = Some d0 -> get p L = Some (c_data r) ->
  match lw (jikey i v p) W with
  | Some x => x
  | None => jent p (get p L0) (right_of R0 (get p L0)) i v
  end = jent p (get p L) (right_of R (get p L)) i v.
Proof.
  intros Sp Rm N P Lv T Old O0 O. rewrite lw_W by auto.
  assert (K : get p L0 <> None \/ get p L <> None) by (right; congruence).
  pose proof (guard_clauses p (guard_at p K)) as [C1 [C2 _]].
  pose proof (reached_gid p K) as Rch. pose proof (gid_sepfree p K) as Sg.
  assert (Eg : gid_of p = l_gid (c_data r)) by (unfold gid_of; rewrite O; auto).
  assert (E1 : one_at st L0 p = r).
  { unfold one_at, one_of, cached_row. rewrite Rm, N. auto. }
  rewrite O0, O. cbn [right_of]. rewrite (C1 _ _ O0 O), <- Eg.
  destruct (left_modified r) eqn:LM.
  - (* addr changed: saveLeft builds an Update join row *)
    destruct (rcur_some (l_gid (c_data r))) as [rc C].
    { apply C2. rewrite O0, O. unfold needs_right. unfold left_modified in LM. rewrite Old in LM.
      apply negb_true_iff in LM. rewrite beqb_sym, LM. reflexivity. }
    destruct (Wl_one p r i v rc Sp Lv P) as [ro [Ro HL]]; auto;
      try (rewrite T; reflexivity); try (rewrite T, LM; reflexivity).
    rewrite HL.
    right_view IR (gid_of p); eval_right C Ro Eg Or O0r.
    + rewrite (Wr_none p Lvr). cbn [lw]. rewrite Or.
      destruct (get (gid_of p) R0) as [x|]; [|discriminate]. injection C as C; injection Ro as Ro; subst rc ro.
      destruct r as [ty k d o]. cbn [c_ty c_pk c_data c_old] in *. subst ty o. fin.
    + rewrite (Wr_one p rr i v Sp Lvr Pr) by (auto; rewrite Tr; auto).
      rewrite E1, O0r, Or. unfold right_skipped. rewrite Tr. cbn [is_tupd andb].
      injection C as C; injection Ro as Ro; subst rc ro.
      destruct r as [ty k d o]. destruct rr as [ty' k' d' o']. cbn [c_ty c_pk c_data c_old] in *. subst ty ty' o. fin.
    + rewrite (Wr_one p rr i v Sp Lvr Pr) by (auto; rewrite Tr; auto).
      rewrite E1, O0r, Or. unfold right_skipped, right_modified. rewrite Tr, Oldr. cbn [is_tupd andb].
      injection C as C; injection Ro as Ro; subst rc ro.
      destruct r as [ty k d o]. destruct rr as [ty' k' d' o']. cbn [c_ty c_pk c_data c_old] in *. subst ty ty' o o'.
      destruct (beqb (g_st d') (g_st d0r)) eqn:B; cbn [negb]; [apply beqb_eq in B|]; destruct i; fin.
    + rewrite (Wr_one p rr i v Sp Lvr Pr) by (auto; rewrite Tr; auto).
      rewrite E1, O0r, Or. unfold right_skipped. rewrite Tr. cbn [is_tupd andb].
      injection C as C; injection Ro as Ro; subst rc ro.
      destruct r as [ty k d o]. destruct rr as [ty' k' d' o']. cbn [c_ty c_pk c_data c_old] in *. subst ty ty' o d'.
      destruct i; fin.
  - (* addr unchanged: saveLeft skips the row *)
    rewrite (Wl_skip p r Lv) by (rewrite T, LM; reflexivity). cbn [lw].
    assert (A : l_addr (c_data r) = l_addr d0).
    { unfold left_modified in LM. rewrite Old in LM. apply negb_false_iff in LM. apply beqb_eq; auto. }
    right_view IR (gid_of p).
    + rewrite (Wr_none p Lvr). cbn [lw]. rewrite Or.
      destruct (get (gid_of p) R0) as [x|]; [|reflexivity].
      destruct r as [ty k d o]. cbn [c_ty c_pk c_data c_old] in *. destruct i; fin.
    + rewrite (Wr_one p rr i v Sp Lvr Pr) by (auto; rewrite Tr; auto).
      rewrite E1, O0r, Or. unfold right_skipped. rewrite Tr. cbn [is_tupd andb].
      destruct r as [ty k d o]. destruct rr as [ty' k' d' o']. cbn [c_ty c_pk c_data c_old] in *. subst ty ty' o.
      destruct i; fin.
    + rewrite (Wr_one p rr i v Sp Lvr Pr) by (auto; rewrite Tr; auto).
      rewrite E1, O0r, Or. unfold right_skipped, right_modified. rewrite Tr, Oldr. cbn [is_tupd andb].
      destruct r as [ty k d o]. destruct rr as [ty' k' d' o']. cbn [c_ty c_pk c_data c_old] in *. subst ty ty' o o'.
      destruct (beqb (g_st d') (g_st d0r)) eqn:B; cbn [negb]; [apply beqb_eq in B|]; destruct i; fin.
    + rewrite (Wr_one p rr i v Sp Lvr Pr) by (auto; rewrite Tr; auto).
      rewrite E1, O0r, Or. unfold right_skipped. rewrite Tr. cbn [is_tupd andb].
      destruct r as [ty k d o]. destruct rr as [ty' k' d' o']. cbn [c_ty c_pk c_data c_old] in *. subst ty ty' o d'.
      destruct i; fin.
Qed.

Lemma key_saved_del p i v r d0 :
  sepfree p = true -> get p (rmap (lst st)) = None -> lives p (rows (lst st)) = [r] ->
  c_pk r = p -> c_ty r = TDel -> c_data r = d0 -> get p L0 = Some d0 -> get p L = None ->
  match lw (jikey i v p) W with
  | Some x => x
  | None => jent p (get p L0) (right_of R0 (get p L0)) i v
  end = jent p (get p L) (right_of R (get p L)) i v.
Proof.
  intros Sp Rm Lv P T D O0 O. rewrite lw_W by auto.
  assert (K : get p L0 <> None \/ get p L <> None) by (left; congruence).
  pose proof (guard_clauses p (guard_at p K)) as [_ [C2 [C3 _]]].
  pose proof (reached_gid p K) as Rch. pose proof (gid_sepfree p K) as Sg.
  assert (Eg : gid_of p = l_gid (c_data r)) by (unfold gid_of; rewrite O, O0, D; auto).
  assert (E1 : one_at st L0 p = mkC TNone p d0 None).
  { unfold one_at, one_of, cached_row. rewrite Rm, O0. auto. }
  destruct (rcur_some (l_gid (c_data r))) as [rc C].
  { apply C2. rewrite O0, O, D. reflexivity. }
  destruct (Wl_one p r i v rc Sp Lv P) as [ro [Ro HL]]; auto; try (rewrite T; reflexivity).
  specialize (C3 d0 O0 O). rewrite <- D, <- Eg in C3.
  rewrite HL, O0, O. cbn [right_of jent]. rewrite <- D, <- Eg.
  right_view IR (gid_of p); eval_right C Ro Eg Or O0r.
  - rewrite (Wr_none p Lvr). cbn [lw].
    destruct (get (gid_of p) R0) as [x|]; [|discriminate]. injection C as C; injection Ro as Ro; subst rc ro.
    destruct r as [ty k d o]. cbn [c_ty c_pk c_data c_old] in *. subst ty. fin.
  - exfalso. assert (X : get (gid_of p) R <> None) by congruence. apply C3 in X.
    unfold right_effective in X. rewrite O0r, Or in X. discriminate.
  - assert (X : get (gid_of p) R <> None) by congruence. apply C3 in X.
    unfold right_effective in X. rewrite O0r, Or in X. apply negb_false_iff in X. apply beqb_eq in X.
    rewrite (Wr_one p rr i v Sp Lvr Pr) by (auto; rewrite Tr; auto).
    unfold right_skipped, right_modified. rewrite Tr, Oldr. cbn [is_tupd andb].
    rewrite <- X, beqb_refl. cbn [negb lw].
    injection C as C; injection Ro as Ro; subst rc ro. rewrite O0r.
    destruct r as [ty k d o]. cbn [c_ty c_pk c_data c_old] in *. subst ty. destruct i; fin.
  - rewrite (Wr_one p rr i v Sp Lvr Pr) by (auto; rewrite Tr; auto).
    rewrite E1, O0r. unfold right_skipped. rewrite Tr. cbn [is_tupd andb].
    injection C as C; injection Ro as Ro; subst rc ro.
    destruct r as [ty k d o]. destruct rr as [ty' k' d' o']. cbn [c_ty c_pk c_data c_old] in *. subst ty ty' d'. fin.
Qed.

(** ** all keys, and the loops do not fail *)
Lemma key_saved p i v :
  sepfree p = true ->
  match lw (jikey i v p) W with
  | Some x => x
  | None => jent p (get p L0) (right_of R0 (get p L0)) i v
  end = jent p (get p L) (right_of R (get p L)) i v.
Proof.
  intro Sp.
  destruct (view_of_inv _ _ _ p IL) as [Rm Lv O F | r n Rm N P Lv T O0 O F | r n d0 Rm N P Lv T Old O0 O F | r d0 Rm Lv P T D O0 O F].
  - assert (E : {l0 | get p L0 = Some l0} + {get p L0 = None}) by (destruct (get p L0); eauto).
    destruct E as [[l0 E0]|E0].
    + eapply (key_saved_none p i v l0); eauto.
    + rewrite lw_W by auto. rewrite Wr_unknown by congruence. rewrite (Wl_none p Lv). cbn [lw]. rewrite O, E0. reflexivity.
  - eapply key_saved_add; eauto.
  - eapply key_saved_upd; eauto.
  - eapply key_saved_del; eauto.
Qed.

Lemma save_left_ok r :
  In r (rows (lst st)) -> c_ty r <> TNone -> fst (save_left (rst st) r) = EOk.
Proof.
  intros Ir NT. assert (NN : is_tnone (c_ty r) = false) by (destruct (c_ty r); auto; congruence).
  destruct (is_tupd (c_ty r) && negb (left_modified r)) eqn:SK.
  { unfold save_left. rewrite SK. reflexivity. }
  destruct (live_row_known _ _ _ _ IL Ir NN) as [Lv K].
  pose proof (guard_clauses _ (guard_at _ K)) as [_ [C2 _]].
  assert (X : exists rc, rcur R0 R (l_gid (c_data r)) = Some rc).
  { apply rcur_some. apply C2.
    destruct (view_of_inv _ _ _ (c_pk r) IL) as [Rm Lv0 O F | r' n Rm N P Lv0 T O0 O F | r' n d0 Rm N P Lv0 T Old O0 O F | r' d0 Rm Lv0 P T D O0 O F];
      rewrite Lv0 in Lv; [destruct Lv| | |]; destruct Lv as [<-|[]].
    - rewrite O0, O. reflexivity.
    - rewrite O0, O. unfold needs_right. rewrite T in SK. cbn [is_tupd andb] in SK.
      apply negb_false_iff in SK. unfold left_modified in SK. rewrite Old in SK.
      apply negb_true_iff in SK. rewrite beqb_sym, SK. reflexivity.
    - rewrite O0, O, D. reflexivity. }
  destruct X as [rc C]. destruct (save_left_spec _ _ _ r rc IR C) as [ro [_ S]].
  rewrite S, SK. reflexivity.
Qed.

Lemma save_right_ok rr :
  In rr (rows (rst st)) -> c_ty rr <> TNone -> fst (save_right (lst st) rr) = EOk.
Proof.
  intros Ir NT. assert (NN : is_tnone (c_ty rr) = false) by (destruct (c_ty rr); auto; congruence).
  unfold save_right. destruct (is_tupd (c_ty rr) && negb (right_modified rr)); [reflexivity|].
  destruct (fk_scan_spec _ _ _ _ IL PL0 (right_key_sepfree rr Ir NN)) as [rs [E _]]. rewrite E. reflexivity.
Qed.

End Key.
