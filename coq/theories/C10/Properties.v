(** C10 — Indexed tables keep rows and indexes consistent: theorems. *)
From Coq Require Import List Bool ZArith.
From C33 Require Import Lib.OMap.
From C33 Require Import C10.Model C10.Spec C10.ProofsRefuted C10.Proofs.
From C33 Require Import C10.Join C10.JoinSpec C10.ProofsJoinRefuted C10.ProofsJoinThm.

Theorem C10_table_refines_map_refuted : ~ C10_table_refines_map_full.
Proof. exact refuted_full. Qed.
Print Assumptions C10_table_refines_map_refuted.

Theorem C10_refuted_del_add :
  ~ (forall ops, keys_ok ops = true -> errs_agree ops).
Proof. exact refuted_del_add. Qed.
Print Assumptions C10_refuted_del_add.

Theorem C10_refuted_del_replace :
  ~ (forall ops, keys_ok ops = true -> forallb (fun o => negb (is_update o)) ops = true ->
       errs_agree ops -> saved_agrees ops).
Proof. exact refuted_del_replace. Qed.
Print Assumptions C10_refuted_del_replace.

(** (finding C10-3 repaired) a history without Replace and without the "-"
    byte in indexed fields whose calls all answered like the map — in particular
    any Update of a saved row that changes indexed fields followed by Del —
    leaves exactly the map's rows and index entries at the next Save *)
Theorem C10_update_del_fixed :
  forall ops, keys_ok ops = true -> forallb (fun o => negb (is_replace o)) ops = true ->
    errs_agree ops -> saved_agrees ops.
Proof. exact update_del_fixed. Qed.
Print Assumptions C10_update_del_fixed.

Theorem C10_refuted_sep_collision :
  ~ (forall ops, forallb is_add_or_save ops = true -> errs_agree ops -> saved_agrees ops).
Proof. exact refuted_sep_collision. Qed.
Print Assumptions C10_refuted_sep_collision.

(** under the guard (per primary key: nothing after the Del of a saved row
    until the next Save; index values without the separator byte) every call answers
    like the map and a Save leaves exactly the map's rows and index entries *)
Theorem C10_table_refines_map_partial :
  forall ops, safe_words ops = true -> errs_agree ops /\ saved_agrees ops.
Proof. exact table_refines_map_partial. Qed.
Print Assumptions C10_table_refines_map_partial.

Theorem C10_every_save_partial :
  forall ops1 ops2, safe_words (ops1 ++ OSave :: ops2) = true ->
    errs_agree ops1 /\ saved_agrees ops1.
Proof. exact every_save_partial. Qed.
Print Assumptions C10_every_save_partial.

(** a full listing (no start key, no count) by primary key or by an index
    after the save of a guarded history returns exactly the present rows whose
    key / indexed field has the prefix (as a set), ErrNotFound iff none *)
Theorem C10_queries_partial :
  forall ops q,
  safe_words ops = true ->
  (forall p d, get p (snd (s_run nil ops)) = Some d -> p <> nil) ->
  (match q_idx q with QPrimary => True | QIdx _ => sepfree (q_prefix q) = true end) ->
  q_start q = nil -> (q_count q <= 0)%Z ->
  exists rs,
    list_index (kv (snd (run init (ops ++ OSave :: nil)))) q =
      ((match rs with nil => ENotFound | _ => EOk end), rs) /\
    forall p d, In (p, d) rs <-> (get p (snd (s_run nil ops)) = Some d /\ q_match q p d = true).
Proof. exact queries_partial. Qed.
Print Assumptions C10_queries_partial.

(** * JoinTable (join.go): left table, right table and the join table's index
    records against two maps and their relational join.  [jrefines c] = every
    history inside the guard with clauses [c] answers like the maps and a final
    join.Save leaves exactly the maps' records and the join's index records.
    Dropping any one clause of the guard allows a counterexample (each is an
    open finding reproduced on the Go code by the harness). *)

(** finding 5: the foreign-key lookup is a prefix scan *)
Theorem C10_join_refuted_prefix_scan : ~ jrefines (mkCl true true true false).
Proof. exact jrefuted_prefix. Qed.
Print Assumptions C10_join_refuted_prefix_scan.

(** finding 6: left Del in the window in which its right row is added / changes status *)
Theorem C10_join_refuted_del_right_change : ~ jrefines (mkCl true true false true).
Proof. exact jrefuted_del. Qed.
Print Assumptions C10_join_refuted_del_right_change.

(** finding 7: the foreign key of a stored left row changes *)
Theorem C10_join_refuted_fk_change : ~ jrefines (mkCl false true true true).
Proof. exact jrefuted_fk. Qed.
Print Assumptions C10_join_refuted_fk_change.

(** finding 8: a pending left row without right row makes join.Save fail *)
Theorem C10_join_refuted_dangling : ~ jrefines (mkCl true false true true).
Proof. exact jrefuted_dangling. Qed.
Print Assumptions C10_join_refuted_dangling.

(** inside the full guard (JoinSpec.save_safe at every join.Save: foreign key of a
    stored left row unchanged, looked-up right row exists, no left Del in the
    window in which its right row is added / changes status, no effective right
    key a proper prefix of a stored foreign key; plus the plain-table guard for
    the left and the right table and separator-free non-empty primary keys):
    every call answers like the two maps, and after the final join.Save the
    left and right stores hold exactly the maps' records and the join table's
    index records are exactly those of the relational join *)
Theorem C10_join_refines_map_partial : jrefines all_clauses.
Proof. exact join_refines_map_partial. Qed.
Print Assumptions C10_join_refines_map_partial.

Theorem C10_join_every_save_partial :
  forall ops1 ops2, jsafe (ops1 ++ JSave :: ops2) = true ->
    jerrs_agree (ops1 ++ JSave :: nil) /\ jsaved_agrees ops1.
Proof. exact join_every_save_partial. Qed.
Print Assumptions C10_join_every_save_partial.
