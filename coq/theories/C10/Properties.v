(** C10 — Indexed tables keep rows and indexes consistent: theorems. *)
From Coq Require Import List Bool.
From C33 Require Import C10.Model C10.Spec C10.ProofsRefuted C10.Proofs.

Theorem C10_table_refines_map_refuted : ~ C10_table_refines_map_full.
Proof. exact refuted_full. Qed.
Print Assumptions C10_table_refines_map_refuted.

Theorem C10_refuted_del_add :
  ~ (forall ops, keys_ok ops = true -> errs_agree ops).
Proof. exact refuted_del_add. Qed.
Print Assumptions C10_refuted_del_add.

Theorem C10_refuted_del_replace :
  ~ (forall ops, keys_ok ops = true -> forallb (fun o => negb (is_update o)) ops = true ->
       errs_agree ops -> saved_agrees ops).
Proof. exact refuted_del_replace. Qed.
Print Assumptions C10_refuted_del_replace.

Theorem C10_refuted_update_del :
  ~ (forall ops, keys_ok ops = true -> forallb (fun o => negb (is_replace o)) ops = true ->
       errs_agree ops -> saved_agrees ops).
Proof. exact refuted_update_del. Qed.
Print Assumptions C10_refuted_update_del.

Theorem C10_refuted_sep_collision :
  ~ (forall ops, forallb is_add_or_save ops = true -> errs_agree ops -> saved_agrees ops).
Proof. exact refuted_sep_collision. Qed.
Print Assumptions C10_refuted_sep_collision.

(** under the guard (per primary key: nothing after the Del of a saved row
    until the next Save, no Del of a saved row whose pending update changed an
    indexed field, index values without the separator byte) every call answers
    like the map and a Save leaves exactly the map's rows and index entries *)
Theorem C10_table_refines_map_partial :
  forall ops, safe_words ops = true -> errs_agree ops /\ saved_agrees ops.
Proof. exact table_refines_map_partial. Qed.
Print Assumptions C10_table_refines_map_partial.

Theorem C10_every_save_partial :
  forall ops1 ops2, safe_words (ops1 ++ OSave :: ops2) = true ->
    errs_agree ops1 /\ saved_agrees ops1.
Proof. exact every_save_partial. Qed.
Print Assumptions C10_every_save_partial.
