(** C10 — Save: under the invariant the batch written by Save turns
    [encode m0] into [encode m]. *)
From Coq Require Import List NArith ZArith Bool Lia.
From C33 Require Import Lib.Bytes Lib.OMap C10.Model C10.Spec C10.ProofsKeys C10.ProofsInv.
Import ListNotations.

Lemma rowdata_eqb_eq a b : rowdata_eqb a b = true -> a = b.
Proof.
  unfold rowdata_eqb. rewrite !andb_true_iff. intros [[[A B] C] D].
  apply beqb_eq in A, B, C. apply Z.eqb_eq in D. destruct a, b; simpl in *; congruence.
Qed.

(** ** keys written by a row belong to its primary key *)
Lemma upd_idx_owned r old i w :
  data_ok (c_data r) = true -> data_ok old = true ->
  In w (upd_idx r old i) -> owned (c_pk r) (fst w).
Proof.
  intros D D0. unfold upd_idx. destruct (beqb _ _); simpl; [tauto|].
  intros [<-|[<-|[]]]; simpl; apply own_i; apply data_ok_idx; auto.
Qed.

Lemma save_row_owned r ws w :
  crow_ok r -> save_row r = Some ws -> In w ws -> owned (c_pk r) (fst w).
Proof.
  intros [D [D0 _]]. unfold save_row. destruct (c_ty r).
  - intro H; inversion H; subst. intros [].
  - intro H; inversion H; subst. unfold add_row, all_idx. simpl.
    intros [<-|[<-|[<-|[]]]]; simpl;
      [apply own_d | apply own_i; exact (data_ok_idx _ ITo D) | apply own_i; exact (data_ok_idx _ INote D)].
  - unfold update_row. destruct (c_old r) as [old|] eqn:O; [|discriminate].
    destruct (rowdata_eqb _ _); intro H; inversion H; subst; [intros []|].
    intros [<-|I]; [apply own_d|]. unfold all_idx in I. simpl in I.
    apply in_app_or in I. destruct I as [I|I]; [exact (upd_idx_owned r old ITo w D (D0 _ eq_refl) I)|].
    apply in_app_or in I. destruct I as [I|[]]. exact (upd_idx_owned r old INote w D (D0 _ eq_refl) I).
  - intro H; inversion H; subst. unfold del_row, all_idx. simpl.
    intros [<-|[<-|[<-|[]]]]; simpl;
      [apply own_d | apply own_i; exact (data_ok_idx _ ITo D) | apply own_i; exact (data_ok_idx _ INote D)].
Qed.

Lemma save_row_some r : crow_ok r -> exists ws, save_row r = Some ws.
Proof.
  intros [_ [_ U]]. unfold save_row. destruct (c_ty r) eqn:T; eauto.
  unfold update_row. destruct (c_old r); [|exfalso; apply U; auto].
  destruct (rowdata_eqb _ _); eauto.
Qed.

Lemma save_rows_some rws : Forall crow_ok rws -> exists kvs, save_rows rws = Some kvs.
Proof.
  induction 1 as [|r tl R F IH]; simpl; eauto.
  destruct (save_row_some r R) as [a ->]. destruct IH as [b ->]. eauto.
Qed.

Lemma save_rows_in rws kvs w :
  save_rows rws = Some kvs -> In w kvs ->
  exists r ws, In r rws /\ save_row r = Some ws /\ In w ws.
Proof.
  revert kvs; induction rws as [|r tl IH]; simpl; intros kvs E I.
  - inversion E; subst. destruct I.
  - destruct (save_row r) as [a|] eqn:A; [|discriminate].
    destruct (save_rows tl) as [b|] eqn:B; [|discriminate]. inversion E; subst.
    apply in_app_or in I. destruct I as [I|I].
    + exists r, a. auto.
    + destruct (IH b eq_refl I) as [r' [ws [? ?]]]. exists r', ws. tauto.
Qed.

Lemma lw_some_in k ws x : lw k ws = Some x -> exists w, In w ws /\ fst w = k.
Proof.
  revert x; induction ws as [|w ws IH]; simpl; intro x; [discriminate|].
  destruct (lw k ws).
  - intros _. destruct (IH _ eq_refl) as [w' [? ?]]. eauto.
  - destruct (beqb k (fst w)) eqn:B; [|discriminate]. apply beqb_eq in B. eauto.
Qed.

(** the last write to a key of [p] is decided by the live rows of [p] *)
Lemma lw_save_rows p k rws kvs :
  Forall crow_ok rws -> owned p k -> save_rows rws = Some kvs ->
  exists kvs', save_rows (lives p rws) = Some kvs' /\ lw k kvs = lw k kvs'.
Proof.
  intros F O. revert kvs. induction F as [|r tl R F IH]; simpl; intros kvs E.
  - inversion E; subst. eauto.
  - destruct (save_row r) as [a|] eqn:A; [|discriminate].
    destruct (save_rows tl) as [b|] eqn:B; [|discriminate]. inversion E; subst.
    destruct (IH b eq_refl) as [b' [B' L]]. rewrite lw_app, L.
    destruct (live p r) eqn:Lr; simpl.
    + rewrite A, B'. eexists; split; eauto. rewrite lw_app. auto.
    + exists b'. split; auto.
      assert (N : lw k a = None).
      { apply lw_none. intros w I Ek. unfold live in Lr. apply andb_false_iff in Lr.
        destruct Lr as [Lr|Lr].
        - apply beqb_neq in Lr. apply Lr. eapply owned_inj; [|exact O].
          rewrite <- Ek. eapply save_row_owned; eauto.
        - unfold save_row in A. destruct (c_ty r); try discriminate.
          inversion A; subst. destruct I. }
      rewrite N. destruct (lw k b'); auto.
Qed.

(** ** key comparisons *)
Lemma beqb_dkey_ikey p i v q : beqb (dkey p) (ikey i v q) = false.
Proof. apply beqb_neq. apply dkey_ikey. Qed.
Lemma beqb_ikey_dkey p i v q : beqb (ikey i v q) (dkey p) = false.
Proof. apply beqb_neq. intro H. symmetry in H. eapply dkey_ikey; eauto. Qed.

Definition idx_eqb (a b : idx) : bool :=
  match a, b with ITo, ITo | INote, INote => true | _, _ => false end.

Lemma beqb_ikey i v i' v' p :
  sepfree v = true -> sepfree v' = true ->
  beqb (ikey i v p) (ikey i' v' p) = idx_eqb i i' && beqb v v'.
Proof.
  intros S S'. destruct (idx_eqb i i' && beqb v v') eqn:E.
  - apply andb_true_iff in E. destruct E as [E1 E2]. apply beqb_eq in E2. subst.
    destruct i, i'; try discriminate; apply beqb_refl.
  - apply beqb_neq. intro H. apply ikey_inj in H; auto. destruct H as [-> [-> _]].
    rewrite beqb_refl in E. destruct i'; discriminate.
Qed.

Local Arguments dkey : simpl never.
Local Arguments ikey : simpl never.
Local Arguments idx_val : simpl never.

(** ** the three kinds of live row *)
Section OneRow.
Variables (p : bytes) (d d0 : rowdata).
Hypothesis (D : data_ok d = true) (D0 : data_ok d0 = true).

Let sv i := data_ok_idx d i D.
Let sv0 i := data_ok_idx d0 i D0.

Definition ent (o : option rowdata) (i : idx) (v : bytes) : option kvval :=
  match o with
  | Some x => if beqb v (idx_val x i) then Some (VPrim p) else None
  | None => None
  end.

Lemma lw_add_d r : c_pk r = p -> c_data r = d ->
  lw (dkey p) (add_row r) = Some (Some (VRow p d)).
Proof.
  intros P E. unfold add_row, all_idx. cbn [lw map fst snd]. rewrite P, E, !beqb_dkey_ikey, beqb_refl. auto.
Qed.

Lemma lw_add_i r i v : c_pk r = p -> c_data r = d -> sepfree v = true ->
  match lw (ikey i v p) (add_row r) with Some x => x | None => None end = ent (Some d) i v.
Proof.
  intros P E S. unfold add_row, all_idx, ent. cbn [lw map fst snd]. rewrite P, E, beqb_ikey_dkey.
  rewrite !beqb_ikey by (auto; apply data_ok_idx; auto).
  destruct i; simpl; destruct (beqb v _); auto.
Qed.

Lemma lw_del_d r : c_pk r = p -> lw (dkey p) (del_row r) = Some None.
Proof.
  intros P. unfold del_row, all_idx. cbn [lw map fst snd]. rewrite P, !beqb_dkey_ikey, beqb_refl. auto.
Qed.

Lemma lw_del_i r i v : c_pk r = p -> c_data r = d0 -> sepfree v = true ->
  match lw (ikey i v p) (del_row r) with Some x => x | None => ent (Some d0) i v end = None.
Proof.
  intros P E S. unfold del_row, all_idx, ent. cbn [lw map fst snd]. rewrite P, E, beqb_ikey_dkey.
  rewrite !beqb_ikey by (auto; apply data_ok_idx; auto).
  destruct i; cbn [idx_eqb andb].
  - destruct (beqb v (idx_val d0 ITo)); auto.
  - destruct (beqb v (idx_val d0 INote)); auto.
Qed.

Lemma lw_upd_d r : c_pk r = p -> c_data r = d -> c_old r = Some d0 ->
  match lw (dkey p) (match update_row r with Some ws => ws | None => [] end) with
  | Some x => x | None => Some (VRow p d0) end = Some (VRow p d).
Proof.
  intros P E O. unfold update_row. rewrite O, E.
  destruct (rowdata_eqb d d0) eqn:Q.
  - apply rowdata_eqb_eq in Q. subst. auto.
  - unfold all_idx, upd_idx. cbn [flat_map]. rewrite E, P.
    destruct (beqb (idx_val d ITo) (idx_val d0 ITo)), (beqb (idx_val d INote) (idx_val d0 INote));
      cbn [lw app fst snd]; rewrite ?beqb_dkey_ikey, beqb_refl; auto.
Qed.

Lemma lw_upd_i r i v : c_pk r = p -> c_data r = d -> c_old r = Some d0 -> sepfree v = true ->
  match lw (ikey i v p) (match update_row r with Some ws => ws | None => [] end) with
  | Some x => x | None => ent (Some d0) i v end = ent (Some d) i v.
Proof.
  intros P E O S. unfold update_row. rewrite O, E.
  destruct (rowdata_eqb d d0) eqn:Q.
  - apply rowdata_eqb_eq in Q. subst. auto.
  - unfold all_idx, upd_idx, ent. cbn [flat_map]. rewrite E, P.
    destruct (beqb (idx_val d ITo) (idx_val d0 ITo)) eqn:B1,
             (beqb (idx_val d INote) (idx_val d0 INote)) eqn:B2;
      cbn [lw app fst snd]; rewrite ?beqb_ikey_dkey;
      rewrite ?beqb_ikey by (auto; apply data_ok_idx; auto);
      destruct i; cbn [idx_eqb andb];
      try (apply beqb_eq in B1; rewrite ?B1); try (apply beqb_eq in B2; rewrite ?B2);
      repeat match goal with |- context [beqb v ?x] => destruct (beqb v x) end; auto.
Qed.
End OneRow.

(** ** Save *)
Lemma save_rows_one r ws : save_row r = Some ws -> save_rows [r] = Some ws.
Proof. intro E. simpl. rewrite E, app_nil_r. auto. Qed.

Lemma owned_key_saved st m0 m kvs p k :
  inv st m0 m -> save_rows (rows st) = Some kvs -> owned p k ->
  match lw k kvs with Some x => x | None => get k (encode m0) end = get k (encode m).
Proof.
  intros I E O.
  pose proof (i_s0 _ _ _ I) as S0. pose proof (i_s _ _ _ I) as S.
  pose proof (i_ok0 _ _ _ I) as OK0. pose proof (i_ok _ _ _ I) as OK.
  destruct (lw_save_rows p k _ _ (i_rows _ _ _ I) O E) as [kvs' [E' L]]. rewrite L. clear L.
  pose proof (i_keys _ _ _ I p) as K. unfold kinv in K.
  destruct (get p (rmap st)) as [i|].
  - destruct K as [r [N [P [Lv [Om T]]]]]. rewrite Lv in E'.
    assert (CR : crow_ok r).
    { eapply Forall_forall; [apply (i_rows _ _ _ I)|]. eapply nth_error_In; eauto. }
    destruct (OK _ _ Om) as [_ Dd].
    destruct T as [[Ty O0]|[Ty [d0 [Old O0]]]].
    + assert (SR : save_row r = Some (add_row r)) by (unfold save_row; rewrite Ty; auto).
      rewrite (save_rows_one _ _ SR) in E'. inversion E'; subst kvs'.
      destruct O as [->|[ix [v [Sv ->]]]].
      * rewrite (lw_add_d p (c_data r) r P eq_refl), get_encode_dkey, Om by auto. auto.
      * rewrite (get_encode_ikey m) by auto. rewrite Om.
        pose proof (lw_add_i p (c_data r) Dd r ix v P eq_refl Sv) as H. unfold ent in H.
        destruct (lw (ikey ix v p) (add_row r)) as [x|] eqn:LW; [exact H|].
        rewrite <- H. rewrite get_encode_ikey by auto. rewrite O0. auto.
    + destruct (OK0 _ _ O0) as [_ Dd0].
      destruct (save_row_some r CR) as [ws SR].
      rewrite (save_rows_one _ _ SR) in E'. inversion E'; subst kvs'.
      assert (UR : update_row r = Some ws) by (unfold save_row in SR; rewrite Ty in SR; auto).
      destruct O as [->|[ix [v [Sv ->]]]].
      * pose proof (lw_upd_d p (c_data r) d0 Dd Dd0 r P eq_refl Old) as H. rewrite UR in H.
        rewrite !get_encode_dkey, Om, O0 by auto. exact H.
      * pose proof (lw_upd_i p (c_data r) d0 Dd Dd0 r ix v P eq_refl Old Sv) as H. rewrite UR in H.
        rewrite !get_encode_ikey, Om, O0 by auto. exact H.
  - destruct K as [[Lv Om]|[r [d0 [Lv [P [Ty [O0 [IS Om]]]]]]]]; rewrite Lv in E'.
    + simpl in E'. inversion E'; subst kvs'. simpl.
      destruct O as [->|[ix [v [Sv ->]]]].
      * rewrite !get_encode_dkey, Om by auto. auto.
      * rewrite !get_encode_ikey, Om by auto. auto.
    + assert (SR : save_row r = Some (del_row r)) by (unfold save_row; rewrite Ty; auto).
      rewrite (save_rows_one _ _ SR) in E'. inversion E'; subst kvs'.
      destruct (OK0 _ _ O0) as [_ Dd0].
      assert (CR : crow_ok r).
      { eapply Forall_forall; [apply (i_rows _ _ _ I)|].
        assert (In r (lives p (rows st))) by (rewrite Lv; left; auto).
        apply filter_In in H. tauto. }
      destruct CR as [Dd _].
      destruct O as [->|[ix [v [Sv ->]]]].
      * rewrite (lw_del_d p r P), get_encode_dkey, Om by auto. auto.
      * pose proof (lw_del_i p d0 Dd0 r ix v P IS Sv) as H.
        rewrite !get_encode_ikey, Om, O0 by auto. exact H.
Qed.

Lemma save_correct st m0 m :
  inv st m0 m ->
  exists st', m_save st = (EOk, st') /\ kv st' = encode m /\ rows st' = [] /\ rmap st' = [].
Proof.
  intro I. destruct (save_rows_some _ (i_rows _ _ _ I)) as [kvs E].
  unfold m_save. rewrite E. eexists. split; [reflexivity|]. simpl. split; auto.
  rewrite (i_kv _ _ _ I).
  apply sorted_ext; [apply fold_apply_sorted, encode_sorted|apply encode_sorted|].
  intro k. rewrite get_fold_apply by apply encode_sorted.
  pose proof (fun p => owned_key_saved st m0 m kvs p k I E) as OW.
  destruct (lw k kvs) as [x|] eqn:LW.
  - destruct (lw_some_in _ _ _ LW) as [w [Iw Ek]].
    destruct (save_rows_in _ _ _ E Iw) as [r [ws [Ir [SR Iws]]]].
    assert (CR : crow_ok r) by (eapply Forall_forall; [apply (i_rows _ _ _ I)|auto]).
    apply (OW (c_pk r)). rewrite <- Ek. eapply save_row_owned; eauto.
  - destruct (get k (encode m0)) as [v0|] eqn:G0.
    + destruct (encode_key_owned _ _ _ (i_s0 _ _ _ I) (i_ok0 _ _ _ I) G0) as [p O].
      apply (OW p O).
    + destruct (get k (encode m)) as [v1|] eqn:G1; auto.
      destruct (encode_key_owned _ _ _ (i_s _ _ _ I) (i_ok _ _ _ I) G1) as [p O].
      apply (OW p O).
Qed.
