(** C10 — full listings (no start key, no count) over a store that holds
    exactly the entries of a table return exactly the matching rows. *)
From Coq Require Import List NArith ZArith Bool Lia.
From C33 Require Import Lib.Bytes Lib.OMap C10.Model C10.Spec C10.ProofsKeys.
Import ListNotations.

Lemma take_count_all c l : (c <= 0)%Z -> take_count c l = l.
Proof.
  revert c; induction l as [|e l IH]; intros c H; simpl; auto.
  destruct (Z.eqb_spec c 1); [lia|]. rewrite IH by lia. auto.
Qed.

Lemma is_prefix_app_same a x y : is_prefix (a ++ x) (a ++ y) = is_prefix x y.
Proof. induction a; simpl; auto. rewrite N.eqb_refl. auto. Qed.

Lemma is_prefix_sepfree x v p :
  sepfree x = true -> sepfree v = true -> is_prefix x (v ++ sepc :: p) = is_prefix x v.
Proof.
  revert v; induction x as [|a x IH]; intros v Sx Sv; auto.
  apply sepfree_cons in Sx. destruct Sx as [Na Sx]. destruct v as [|b v]; simpl.
  - apply N.eqb_neq in Na. rewrite Na. auto.
  - apply sepfree_cons in Sv. destruct Sv as [_ Sv]. rewrite IH; auto.
Qed.

Definition idx_eqb' (a b : idx) : bool :=
  match a, b with ITo, ITo | INote, INote => true | _, _ => false end.

Lemma prefix_idx_dkey i x p : is_prefix (iprefix i ++ x) (dkey p) = false.
Proof. destruct i; reflexivity. Qed.

Lemma prefix_data_ikey x i v p : is_prefix (dataprefix ++ x) (ikey i v p) = false.
Proof. destruct i; reflexivity. Qed.

Lemma prefix_idx_ikey i x i' v p :
  is_prefix (iprefix i ++ x) (ikey i' v p) = idx_eqb' i i' && is_prefix x (v ++ sepc :: p).
Proof.
  destruct i, i'; try reflexivity; unfold ikey; rewrite is_prefix_app_same; reflexivity.
Qed.

Lemma prefix_data_dkey x p : is_prefix (dataprefix ++ x) (dkey p) = is_prefix x p.
Proof. unfold dkey. apply is_prefix_app_same. Qed.

(** values listed under a key prefix *)
Lemma list_kv_full_In pre c asc (E : omap kvval) v : (c <= 0)%Z ->
  In v (list_kv pre [] c asc E) <->
  exists k, In (k, v) E /\ is_prefix pre k = true /\ is_deleted v = false.
Proof.
  intro C. unfold list_kv. rewrite take_count_all by auto. rewrite in_map_iff. split.
  - intros [[k v'] [<- I]]. apply filter_In in I. destruct I as [I ND]. simpl in *.
    assert (I' : In (k, v') (filter_keys (is_prefix pre) E)).
    { destruct asc; auto. apply in_rev; auto. }
    apply filter_keys_In in I'. destruct I' as [I' P]. exists k.
    apply negb_true_iff in ND. auto.
  - intros [k [I [P ND]]]. exists (k, v). split; auto. apply filter_In. split.
    + assert (I' : In (k, v) (filter_keys (is_prefix pre) E)) by (apply filter_keys_In; auto).
      destruct asc; auto. apply in_rev in I'; auto.
    + simpl. rewrite ND. auto.
Qed.

Section Listing.
Variable m : tbl.
Hypothesis (S : sorted m) (OK : rows_ok m).
Hypothesis NE : forall p d, get p m = Some d -> p <> [].

Lemma In_encode k v :
  In (k, v) (encode m) <-> exists p d, get p m = Some d /\ In (k, v) (row_entries p d).
Proof.
  rewrite <- (get_In k v (encode m) (encode_sorted m)), get_encode by auto.
  apply in_all_entries; auto.
Qed.

Lemma rows_of_values_spec vs :
  (forall v, In v vs -> exists p d, v = VRow p d) ->
  exists rs, rows_of_values vs = (EOk, rs) /\
    forall p d, In (p, d) rs <-> In (VRow p d) vs.
Proof.
  induction vs as [|v vs IH]; intro H; simpl.
  - exists []. split; auto. intros; simpl; tauto.
  - destruct (H v (or_introl eq_refl)) as [p [d ->]].
    destruct IH as [rs [E Q]]; [intros; apply H; right; auto|]. rewrite E.
    exists ((p, d) :: rs). split; auto. intros p' d'. simpl. rewrite Q. split.
    + intros [X|X]; [inversion X; auto|auto].
    + intros [X|X]; [inversion X; auto|auto].
Qed.

Lemma rows_by_primary_spec vs :
  (forall v, In v vs -> exists p d, v = VPrim p /\ get p m = Some d) ->
  exists rs, rows_by_primary (encode m) vs = (EOk, rs) /\
    forall p d, In (p, d) rs <-> (In (VPrim p) vs /\ get p m = Some d).
Proof.
  induction vs as [|v vs IH]; intro H; simpl.
  - exists []. split; auto. intros; simpl; tauto.
  - destruct (H v (or_introl eq_refl)) as [p [d [-> G]]].
    destruct IH as [rs [E Q]]; [intros; apply H; right; auto|].
    unfold get_data. rewrite get_encode_dkey, G by auto. rewrite E. simpl.
    exists ((p, d) :: rs). split; auto. intros p' d'. simpl. rewrite Q. split.
    + intros [X|[X Y]]; [inversion X; subst; auto|auto].
    + intros [[X|X] Y]; [inversion X; subst; left; congruence|auto].
Qed.

Theorem list_index_full q :
  (match q_idx q with QPrimary => True | QIdx _ => sepfree (q_prefix q) = true end) ->
  q_start q = [] -> (q_count q <= 0)%Z ->
  exists rs,
    list_index (encode m) q = ((match rs with [] => ENotFound | _ => EOk end), rs) /\
    forall p d, In (p, d) rs <-> (get p m = Some d /\ q_match q p d = true).
Proof.
  intros SP ST C. unfold list_index, q_match. rewrite ST. cbn [is_nil negb andb].
  destruct (q_idx q) as [|i].
  - (* by primary key *)
    destruct (rows_of_values_spec (list_kv (dataprefix ++ q_prefix q) [] (q_count q) (q_asc q) (encode m)))
      as [rs [E Q]].
    { intros v I. apply list_kv_full_In in I; auto. destruct I as [k [I [P _]]].
      apply In_encode in I. destruct I as [p [d [G I]]]. apply in_row_entries in I.
      destruct I as [[-> ->]|[i [-> _]]]; eauto.
      rewrite prefix_data_ikey in P. discriminate. }
    rewrite E. exists rs. split; [destruct rs; auto|].
    intros p d. rewrite Q, list_kv_full_In by auto. split.
    + intros [k [I [P _]]]. apply In_encode in I. destruct I as [p' [d' [G I]]].
      apply in_row_entries in I. destruct I as [[-> X]|[i [_ X]]]; [|discriminate].
      inversion X; subst. rewrite prefix_data_dkey in P. auto.
    + intros [G P]. exists (dkey p). split; [|split; auto].
      apply In_encode. exists p, d. split; auto. apply in_row_entries. auto.
  - (* by index *)
    assert (V : forall v, In v (list_kv (iprefix i ++ q_prefix q) [] (q_count q) (q_asc q) (encode m)) <->
              exists p d, v = VPrim p /\ get p m = Some d /\ is_prefix (q_prefix q) (idx_val d i) = true).
    { intro v. rewrite list_kv_full_In by auto. split.
      - intros [k [I [P _]]]. apply In_encode in I. destruct I as [p [d [G I]]].
        apply in_row_entries in I. destruct I as [[-> _]|[i' [-> ->]]].
        + rewrite prefix_idx_dkey in P. discriminate.
        + rewrite prefix_idx_ikey in P. apply andb_true_iff in P. destruct P as [P1 P2].
          assert (i = i') by (destruct i, i'; auto; discriminate). subst i'.
          rewrite is_prefix_sepfree in P2; auto; [eauto|]. apply data_ok_idx, (OK _ _ G).
      - intros [p [d [-> [G P]]]]. exists (ikey i (idx_val d i) p). split; [|split].
        + apply In_encode. exists p, d. split; auto. apply in_row_entries. eauto.
        + rewrite prefix_idx_ikey. rewrite is_prefix_sepfree; auto.
          * rewrite P. destruct i; auto.
          * apply data_ok_idx, (OK _ _ G).
        + pose proof (NE _ _ G). destruct p; [congruence|auto]. }
    destruct (rows_by_primary_spec (list_kv (iprefix i ++ q_prefix q) [] (q_count q) (q_asc q) (encode m)))
      as [rs [E Q]].
    { intros v I. apply V in I. destruct I as [p [d [-> [G _]]]]. eauto. }
    rewrite E. exists rs. split; [destruct rs; auto|].
    intros p d. rewrite Q, V. split.
    + intros [[p' [d' [X [G' P]]]] G]. inversion X; subst. split; auto. congruence.
    + intros [G P]. split; eauto.
Qed.
End Listing.
