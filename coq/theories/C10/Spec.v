(** C10 — the abstract table: a map from primary key to row.  Index lookups
    filter the rows.  Also the boolean guard of the partial theorem and the
    expected contents of the KV store after a save ([encode]). *)
From Coq Require Import List NArith ZArith Bool.
From C33 Require Import Lib.Bytes Lib.OMap C10.Model.
Import ListNotations.

Definition tbl := omap rowdata.

Definition s_step (m : tbl) (o : op) : err * tbl :=
  match o with
  | OAdd d => if mem (r_pk d) m then (EDup, m) else (EOk, put (r_pk d) d m)
  | OReplace d => (EOk, put (r_pk d) d m)
  | OUpdate pk d =>
      if negb (beqb (r_pk d) pk) then (EInvalid, m)
      else if mem pk m then (EOk, put pk d m) else (ENotFound, m)
  | ODel pk => if mem pk m then (EOk, del pk m) else (ENotFound, m)
  | ODelRow d => if mem (r_pk d) m then (EOk, del (r_pk d) m) else (ENotFound, m)
  | OSave => (EOk, m)
  end.

Fixpoint s_run (m : tbl) (ops : list op) : list err * tbl :=
  match ops with
  | [] => ([], m)
  | o :: tl => let '(e, m1) := s_step m o in let '(es, m2) := s_run m1 tl in (e :: es, m2)
  end.

(** ** what the KV store must contain for a table [m] *)
Definition row_entries (p : bytes) (d : rowdata) : list (bytes * kvval) :=
  (dkey p, VRow p d) :: map (fun i => (ikey i (idx_val d i) p, VPrim p)) all_idx.

Definition encode (m : tbl) : omap kvval :=
  of_list (flat_map (fun e => row_entries (fst e) (snd e)) (elements m)).

(** ** index lookup: the present rows whose indexed field has the prefix,
    as a set (listed in primary-key order) *)
Definition q_match (q : query) (p : bytes) (d : rowdata) : bool :=
  match q_idx q with
  | QPrimary => is_prefix (q_prefix q) p
  | QIdx i => is_prefix (q_prefix q) (idx_val d i)
  end.

Definition s_query (m : tbl) (q : query) : list (bytes * rowdata) :=
  filter (fun e => q_match q (fst e) (snd e)) (elements m).

(** ** the guard of the partial theorem *)
Definition sepfree (b : bytes) : bool := forallb (fun x => negb (N.eqb x sepc)) b.
Definition data_ok (d : rowdata) : bool := sepfree (r_to d) && sepfree (r_note d).

(** the key was present at the last save and has been deleted since *)
Definition deleted_saved (m0 m : tbl) (p : bytes) : bool :=
  match get p m0, get p m with Some _, None => true | _, _ => false end.

(** a second Del of a saved row before the next save is unsafe; a Del of a
    saved row with a pending Update/Replace is safe whatever the update changed *)
Definition del_safe (m0 m : tbl) (p : bytes) : bool := negb (deleted_saved m0 m p).

Definition op_safe (m0 m : tbl) (o : op) : bool :=
  match o with
  | OAdd d | OReplace d => data_ok d && negb (deleted_saved m0 m (r_pk d))
  | OUpdate pk d =>
      if beqb (r_pk d) pk then data_ok d && negb (deleted_saved m0 m pk) else true
  | ODel pk => del_safe m0 m pk
  | ODelRow d => del_safe m0 m (r_pk d)
  | OSave => true
  end.

Definition is_save (o : op) : bool := match o with OSave => true | _ => false end.

(** [m0] = table at the last save, [m] = current table *)
Fixpoint safe_from (m0 m : tbl) (ops : list op) : bool :=
  match ops with
  | [] => true
  | o :: tl =>
      op_safe m0 m o &&
      let m1 := snd (s_step m o) in
      safe_from (if is_save o then m1 else m0) m1 tl
  end.

Definition safe_words (ops : list op) : bool := safe_from [] [] ops.

(** ** the statements *)
Definition errs_agree (ops : list op) : Prop := fst (run init ops) = fst (s_run [] ops).
Definition saved_agrees (ops : list op) : Prop :=
  kv (snd (run init (ops ++ [OSave]))) = encode (snd (s_run [] ops)).

(** index values without the separator byte *)
Definition op_keys_ok (o : op) : bool :=
  match o with
  | OAdd d | OReplace d | OUpdate _ d => data_ok d
  | _ => true
  end.
Definition keys_ok (ops : list op) : bool := forallb op_keys_ok ops.

Definition is_replace (o : op) : bool := match o with OReplace _ => true | _ => false end.
Definition is_update (o : op) : bool := match o with OUpdate _ _ => true | _ => false end.
Definition is_add_or_save (o : op) : bool := match o with OAdd _ | OSave => true | _ => false end.

(** full strength: for every history the table answers like the map and a
    save leaves exactly the map's rows and index entries in the store *)
Definition C10_table_refines_map_full : Prop :=
  forall ops, errs_agree ops /\ saved_agrees ops.
