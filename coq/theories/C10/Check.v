(** C10 — correspondence cases: one operation history on a real table.Table
    with what the Go implementation returned per operation; after every Save
    the full dump of the KV store under the table prefix and a batch of
    ListIndex queries. *)
From Coq Require Import List ZArith NArith Bool.
From C33 Require Import Lib.Bytes Lib.OMap Lib.Harness.
From C33 Require Export C10.Model C10.Spec.
From C33 Require Export C10.Join C10.JoinSpec C10.JoinCheck.
Import ListNotations.

Definition R (pk to note : bytes) (a : Z) : rowdata := mkRow pk to note a.

(** Observables as the harness writes them.  Row contents are interned: the
    case carries a table of the distinct rows and everything else refers to a
    row by its position (keeps the case terms small). *)
Inductive iq := IQ (q : query) (e : N) (rs : list (bytes * rowdata)).
Inductive iobs :=
| IErr (e : N)
| ISave (e : N) (dump : list (bytes * kvval)) (qs : list iq).

Inductive xop := AAdd (r : N) | ARep (r : N) | AUpd (pk : bytes) (r : N) | ADel (pk : bytes)
               | ADelRow (r : N) | ASave.
Inductive xval := XR (primary : bytes) (r : N) | XP (p : bytes).
Inductive xq := XQ (q : query) (e : N) (rs : list (bytes * N)).
Inductive xobs := XErr (e : N) | XSave (e : N) (dump : list (bytes * xval)) (qs : list xq).

(** [CHist]: a history on one plain table; [CJoin]: a history on a JoinTable
    (left table, right table, join.Save) — see JoinCheck.v *)
Inductive case :=
| CHist (tab : list rowdata) (steps : list (xop * xobs))
| CJoin (j : jcase).

Definition row_at (tab : list rowdata) (i : N) : rowdata :=
  nth (N.to_nat i) tab (mkRow [] [] [] 0).

Definition op_of (tab : list rowdata) (o : xop) : op :=
  match o with
  | AAdd r => OAdd (row_at tab r)
  | ARep r => OReplace (row_at tab r)
  | AUpd pk r => OUpdate pk (row_at tab r)
  | ADel pk => ODel pk
  | ADelRow r => ODelRow (row_at tab r)
  | ASave => OSave
  end.

Definition val_of (tab : list rowdata) (v : xval) : kvval :=
  match v with XR p r => VRow p (row_at tab r) | XP p => VPrim p end.

Definition q_of (tab : list rowdata) (x : xq) : iq :=
  let '(XQ q e rs) := x in IQ q e (map (fun pr => (fst pr, row_at tab (snd pr))) rs).

Definition obs_of (tab : list rowdata) (o : xobs) : iobs :=
  match o with
  | XErr e => IErr e
  | XSave e dump qs => ISave e (map (fun kv => (fst kv, val_of tab (snd kv))) dump) (map (q_of tab) qs)
  end.

Definition err_code (e : err) : N :=
  match e with EOk => 0 | ENotFound => 1 | EDup => 2 | EInvalid => 3 | EOther => 4 end%N.

Definition kvval_eqb (a b : kvval) : bool :=
  match a, b with
  | VRow p d, VRow p' d' => beqb p p' && rowdata_eqb d d'
  | VPrim p, VPrim p' => beqb p p'
  | _, _ => false
  end.
Definition entry_eqb (a b : bytes * kvval) : bool := beqb (fst a) (fst b) && kvval_eqb (snd a) (snd b).
Definition res_eqb (a b : bytes * rowdata) : bool := beqb (fst a) (fst b) && rowdata_eqb (snd a) (snd b).
Definition dump_eqb := list_eqb entry_eqb.
Definition rows_eqb := list_eqb res_eqb.

(** ** model side *)
Definition q_model (m : omap kvval) (x : iq) : bool :=
  let '(IQ q e rs) := x in
  let '(e', rs') := list_index m q in
  N.eqb (err_code e') e && rows_eqb rs' rs.

Definition obs_model (e : err) (st : state) (o : iobs) : bool :=
  match o with
  | IErr n => N.eqb (err_code e) n
  | ISave n dump qs => N.eqb (err_code e) n && dump_eqb (kv st) dump && forallb (q_model (kv st)) qs
  end.

(** ** spec side *)
Definition nil_rows (l : list (bytes * rowdata)) : bool := match l with [] => true | _ => false end.
Fixpoint insert_row (x : bytes * rowdata) (l : list (bytes * rowdata)) :=
  match l with
  | [] => [x]
  | y :: tl => if bleb (fst x) (fst y) then x :: y :: tl else y :: insert_row x tl
  end.
Definition sort_rows (l : list (bytes * rowdata)) := fold_right insert_row [] l.

Definition full_listing (q : query) : bool := is_nil (q_start q) && (q_count q <=? 0)%Z.

Fixpoint nodup_pk (l : list (bytes * rowdata)) : bool :=
  match l with
  | [] => true
  | x :: tl => negb (existsb (fun y => beqb (fst x) (fst y)) tl) && nodup_pk tl
  end.

(** a full listing must be exactly the matching rows; a page (start key and/or
    count) must be a duplicate-free part of them of the right size *)
Definition q_spec (m : tbl) (x : iq) : bool :=
  let '(IQ q e rs) := x in
  let want := s_query m q in
  if full_listing q then
    rows_eqb (sort_rows rs) want && N.eqb e (if nil_rows want then 1 else 0)%N
  else
    forallb (fun r => existsb (res_eqb r) want) rs && nodup_pk rs &&
    ((q_count q <=? 0)%Z || (Z.of_nat (length rs) <=? q_count q)%Z) &&
    (if is_nil (q_start q) then
       Nat.eqb (length rs) (Nat.min (length want) (Z.to_nat (q_count q)))
       && N.eqb e (if nil_rows want then 1 else 0)%N
     else (N.eqb e 0 && negb (nil_rows rs)) || (N.eqb e 1 && nil_rows rs)).

Definition obs_err (o : iobs) : N := match o with IErr n => n | ISave n _ _ => n end.

(** ** classification of the first divergence *)
Definition op_target (o : op) : option bytes :=
  match o with
  | OAdd d | OReplace d | ODelRow d => Some (r_pk d)
  | OUpdate pk _ | ODel pk => Some pk
  | OSave => None
  end.

Definition is_del_of (p : bytes) (o : op) : bool :=
  match o with ODel pk => beqb pk p | ODelRow d => beqb (r_pk d) p | _ => false end.
Definition is_replace_of (p : bytes) (o : op) : bool :=
  match o with OReplace d => beqb (r_pk d) p | _ => false end.
(** some [a] then later some [b] in the window *)
Fixpoint then_later (a b : op -> bool) (w : list op) : bool :=
  match w with
  | [] => false
  | o :: tl => (a o && existsb b tl) || then_later a b tl
  end.

Definition keys_of_row (p : bytes) (d : rowdata) : list bytes := map fst (row_entries p d).
Definition mem_key (k : bytes) (l : list bytes) : bool := existsb (beqb k) l.

Definition triple : Type := (idx * bytes * bytes)%type.
Definition idx_eqb (a b : idx) : bool :=
  match a, b with ITo, ITo | INote, INote => true | _, _ => false end.
Definition triple_eqb (a b : triple) : bool :=
  let '(i, v, p) := a in let '(i', v', p') := b in idx_eqb i i' && beqb v v' && beqb p p'.
Definition triples_of (d : rowdata) : list triple := map (fun i => (i, idx_val d i, r_pk d)) all_idx.
Definition op_triples (o : op) : list triple :=
  match o with
  | OAdd d | OReplace d | OUpdate _ d => triples_of d
  | _ => []
  end.
Definition tkey (t : triple) : bytes := let '(i, v, p) := t in ikey i v p.

(** [k] is the index key of two different (index, value, primary) triples *)
Definition colliding (seen : list triple) (k : bytes) : bool :=
  existsb (fun a => beqb (tkey a) k &&
     existsb (fun b => beqb (tkey b) k && negb (triple_eqb a b)) seen) seen.

Definition diff_entries (a b : list (bytes * kvval)) : list (bytes * kvval) :=
  filter (fun e => negb (existsb (entry_eqb e) b)) a.

(** finding 2: Del of a saved row, later Replace on the same key, in one window *)
Definition kf2_explains (win : list op) (m0 m1 : tbl) (k : bytes) : bool :=
  existsb (fun e =>
    let p := fst e in
    then_later (is_del_of p) (is_replace_of p) win &&
    (mem_key k (keys_of_row p (snd e)) ||
     match get p m1 with Some d => mem_key k (keys_of_row p d) | None => false end))
    (elements m0).

(** (finding 3 — a stale index entry of the saved row after Update/Replace then
    Del — is repaired in table.go; such a divergence is no longer classified) *)

Definition classify_dump (win : list op) (seen : list triple) (m0 m1 : tbl)
           (dump : list (bytes * kvval)) : N :=
  let want := encode m1 in
  let extra := diff_entries dump want in       (* in the store, not expected *)
  let missing := diff_entries want dump in     (* expected, not in the store *)
  let code_extra (e : bytes * kvval) : N :=
    if kf2_explains win m0 m1 (fst e) then 2%N
    else if colliding seen (fst e) then 4%N else 0%N in
  let code_missing (e : bytes * kvval) : N :=
    if kf2_explains win m0 m1 (fst e) then 2%N
    else if colliding seen (fst e) then 4%N else 0%N in
  let codes := map code_extra extra ++ map code_missing missing in
  match codes with
  | [] => 0
  | c :: _ => if forallb (fun x => negb (N.eqb x 0)) codes then fold_right N.min c codes else 0
  end%N.

Definition classify (win : list op) (seen : list triple) (m0 m : tbl) (o : op) (ob : iobs) : N :=
  let '(es, m1) := s_step m o in
  match ob with
  | IErr n =>
      (* finding 1: the key was deleted in this window but its saved row is
         still seen: the answer is the one for "key still present" *)
      match op_target o with
      | Some p =>
          match get p m0 with
          | Some d0 =>
              if deleted_saved m0 m p && N.eqb n (err_code (fst (s_step (put p d0 m) o)))
              then 1 else 0
          | None => 0
          end
      | None => 0
      end
  | ISave n dump qs =>
      if negb (N.eqb n (err_code es)) then 0
      else if dump_eqb (encode m1) dump then
        (* only queries differ: explained only by two current rows sharing an index key *)
        let cur := flat_map (fun e => triples_of (snd e)) (elements m1) in
        if existsb (fun t => colliding cur (tkey t)) cur then 4 else 0
      else classify_dump win seen m0 m1 dump
  end%N.

(** ** the fold *)
Record acc := mkAcc {
  a_st : state; a_m0 : tbl; a_m : tbl; a_win : list op; a_seen : list triple;
  a_magree : bool; a_sholds : bool; a_kf : N }.

Definition obs_spec (es : err) (m1 : tbl) (o : iobs) : bool :=
  match o with
  | IErr n => N.eqb (err_code es) n
  | ISave n dump qs => N.eqb (err_code es) n && dump_eqb (encode m1) dump && forallb (q_spec m1) qs
  end.

Definition check_step (a : acc) (x : op * iobs) : acc :=
  let '(o, ob) := x in
  let '(e, st1) := step (a_st a) o in
  let magree := a_magree a && obs_model e st1 ob in
  let seen := op_triples o ++ a_seen a in
  if a_sholds a then
    let '(es, m1) := s_step (a_m a) o in
    let ok := obs_spec es m1 ob in
    let kf := if ok then 0%N else classify (a_win a) seen (a_m0 a) (a_m a) o ob in
    if is_save o
    then mkAcc st1 m1 m1 [] seen magree ok kf
    else mkAcc st1 (a_m0 a) m1 (a_win a ++ [o]) seen magree ok kf
  else mkAcc st1 (a_m0 a) (a_m a) (a_win a) seen magree false (a_kf a).

Definition check_hist (tab : list rowdata) (xsteps : list (xop * xobs)) : verdict :=
  let steps := map (fun x => (op_of tab (fst x), obs_of tab (snd x))) xsteps in
  let a := fold_left check_step steps (mkAcc init [] [] [] [] true true 0%N) in
  (* on the guarded stream every divergence is a violation *)
  let kf := if safe_words (map fst steps) then 0%N else a_kf a in
  (a_magree a, a_sholds a, kf).

Definition check_case (c : case) : verdict :=
  match c with
  | CHist tab xsteps => check_hist tab xsteps
  | CJoin j => check_jcase j
  end.
