(** C10 — JoinTable proofs, part 5: join.Save inside the guard leaves exactly
    the relational join's index records; every guarded operation preserves the
    invariant; the refinement theorem over histories. *)
From Coq Require Import List NArith ZArith Bool Lia.
From C33 Require Import Lib.Bytes Lib.OMap C10.Model C10.Spec C10.ProofsKeys C10.ProofsInv
  C10.ProofsSave C10.ProofsQuery C10.Proofs
  C10.Join C10.JoinSpec C10.ProofsJoinKeys C10.ProofsJoinRows C10.ProofsJoinSave C10.ProofsJoinMain.
Import ListNotations.

Record jinv (st : jstate) (L0 R0 L R : tbl) : Prop := mkJI {
  ji_l : inv (lst st) L0 L;
  ji_r : inv (rst st) R0 R;
  ji_kv : jkv st = jenc L0 R0;
  ji_rows : jrows st = [];
  ji_pl0 : pks_ok L0;
  ji_pl : pks_ok L;
  ji_pr0 : pks_ok R0;
  ji_pr : pks_ok R }.

Lemma jinv_init : jinv jinit [] [] [] [].
Proof.
  constructor; simpl; auto; try apply inv_init; intros p d H; discriminate.
Qed.

(** * join rows always save *)
Lemma save_left_wf rs r jr : In jr (snd (save_left rs r)) -> j_save_row jr <> None.
Proof.
  unfold save_left. destruct (is_tupd (c_ty r) && negb (left_modified r)); [intros []|].
  destruct (find_row rs (l_gid (c_data r))) as [[e o] pos].
  destruct e; simpl; try tauto; destruct o; simpl; try tauto.
  intros [<-|[]]. unfold j_save_row, j_update_row. cbn [j_ty j_old j_l j_r].
  destruct (c_ty r); cbn [is_tupd]; try discriminate.
  destruct (rowdata_eqb _ _ && rowdata_eqb _ _); discriminate.
Qed.

Lemma save_right_wf ls rr jr : In jr (snd (save_right ls rr)) -> j_save_row jr <> None.
Proof.
  unfold save_right. destruct (is_tupd (c_ty rr) && negb (right_modified rr)); [intros []|].
  destruct (fk_scan ls (c_pk rr)) as [e rws]. destruct e; simpl; try tauto.
  intro I. apply in_map_iff in I. destruct I as [one [<- _]].
  unfold j_save_row, j_update_row. cbn [j_ty j_old j_l j_r].
  destruct (c_ty rr); cbn [is_tupd]; try discriminate.
  destruct (rowdata_eqb _ _ && rowdata_eqb _ _); discriminate.
Qed.

(** * join.Save *)
Section SaveCorrect.
Variables (st : jstate) (L0 R0 L R : tbl).
Hypothesis J : jinv st L0 R0 L R.
Hypothesis G : save_safe all_clauses L0 R0 L R = true.

Let IL := ji_l _ _ _ _ _ J.
Let IR := ji_r _ _ _ _ _ J.
Let PL0 := ji_pl0 _ _ _ _ _ J.
Let PL := ji_pl _ _ _ _ _ J.
Let PR0 := ji_pr0 _ _ _ _ _ J.
Let PR := ji_pr _ _ _ _ _ J.

Lemma owned_saved p i v : sepfree p = true ->
  match lw (jikey i v p) (W st) with
  | Some x => x
  | None => get (jikey i v p) (jenc L0 R0)
  end = get (jikey i v p) (jenc L R).
Proof.
  intro Sp. rewrite !get_jenc; auto; try apply IL.
  apply (key_saved st L0 R0 L R IL IR PL0 PL PR0 PR G p i v Sp).
Qed.

Lemma W_key_owned w : In w (W st) -> exists i v p, fst w = jikey i v p /\ sepfree p = true.
Proof.
  unfold W. intro I. apply in_flat_map in I. destruct I as [jr [Ij I]].
  destruct (jwr_owned _ _ I) as [i [v E]]. exists i, v, (j_pk jr). split; auto.
  assert (F : Forall (fun r => sepfree (j_pk r) = true)
                (flat_map (hL st) (rows (lst st)) ++ flat_map (hR st) (rows (rst st)))).
  { apply Forall_app. split.
    - apply (sepfree_left_rows st L0 L IL PL0 PL).
    - apply (sepfree_right_rows st L0 R0 L R IL IR PL0 PL PR0 PR). }
  rewrite Forall_forall in F. apply F; auto.
Qed.

Lemma j_save_correct :
  exists st', j_save st = (EOk, st') /\ jinv st' L R L R.
Proof.
  destruct (save_step _ _ _ IL) as [l' [SL IL']].
  destruct (save_step _ _ _ IR) as [r' [SR IR']].
  unfold j_save. rewrite (ji_rows _ _ _ _ _ J).
  rewrite (save_each_flat (save_left (rst st)))
    by (apply (save_left_ok st L0 R0 L R IL IR G)).
  rewrite (save_each_flat (save_right (lst st)))
    by (apply (save_right_ok st L0 R0 L R IL IR PL0 PR0 PR)).
  cbn [app]. fold (hL st). fold (hR st).
  rewrite j_save_rows_flat.
  2:{ apply Forall_forall. intros jr I. apply in_app_or in I. destruct I as [I|I];
        apply in_flat_map in I; destruct I as [r [_ I]].
      - unfold hL in I. destruct (is_tnone (c_ty r)); [destruct I|]. eapply save_left_wf; eauto.
      - unfold hR in I. destruct (is_tnone (c_ty r)); [destruct I|]. eapply save_right_wf; eauto. }
  fold (W st). rewrite SL, SR. eexists. split; [reflexivity|].
  constructor; cbn [lst rst jkv jrows]; auto.
  rewrite (ji_kv _ _ _ _ _ J).
  apply sorted_ext; [apply fold_apply_sorted, jenc_sorted|apply jenc_sorted|].
  intro k. rewrite get_fold_apply by apply jenc_sorted.
  destruct (lw k (W st)) as [x|] eqn:LW.
  - destruct (lw_some_in _ _ _ LW) as [w [Iw Ek]].
    destruct (W_key_owned w Iw) as [i [v [p [E Sp]]]]. rewrite E in Ek. subst k.
    pose proof (owned_saved p i v Sp) as H. rewrite LW in H. exact H.
  - destruct (get k (jenc L0 R0)) as [x0|] eqn:G0.
    + destruct (jenc_key_owned _ _ _ _ (i_s0 _ _ _ IL) PL0 G0) as [i [v [p [E Sp]]]]. subst k.
      pose proof (owned_saved p i v Sp) as H. rewrite LW, G0 in H. exact H.
    + destruct (get k (jenc L R)) as [x1|] eqn:G1; auto.
      destruct (jenc_key_owned _ _ _ _ (i_s _ _ _ IL) PL G1) as [i [v [p [E Sp]]]]. subst k.
      pose proof (owned_saved p i v Sp) as H. rewrite LW, G0, G1 in H. exact H.
Qed.
End SaveCorrect.

(** * operations on the left / right table *)
Lemma pks_ok_step m o :
  sorted m -> pks_ok m -> op_rows_ok o = true -> pks_ok (snd (s_step m o)).
Proof.
  intros S OK RO. destruct o as [d|d|pk d|pk|d|]; simpl in *.
  - destruct (mem (r_pk d) m); simpl; auto. intros p x H. rewrite get_put in H.
    destruct (beqb p (r_pk d)) eqn:B; [|eapply OK; eauto]. apply beqb_eq in B. subst p.
    unfold jrow_ok in RO. apply andb_true_iff in RO. destruct RO as [RO _].
    apply andb_true_iff in RO. tauto.
  - intros p x H. rewrite get_put in H.
    destruct (beqb p (r_pk d)) eqn:B; [|eapply OK; eauto]. apply beqb_eq in B. subst p.
    unfold jrow_ok in RO. apply andb_true_iff in RO. destruct RO as [RO _].
    apply andb_true_iff in RO. tauto.
  - destruct (negb (beqb (r_pk d) pk)) eqn:NB; simpl; auto.
    destruct (mem pk m); simpl; auto. intros p x H. rewrite get_put in H.
    destruct (beqb p pk) eqn:B; [|eapply OK; eauto]. apply beqb_eq in B. subst p.
    apply negb_false_iff in NB. apply beqb_eq in NB. subst pk.
    unfold jrow_ok in RO. apply andb_true_iff in RO. destruct RO as [RO _].
    apply andb_true_iff in RO. tauto.
  - destruct (mem pk m); simpl; auto. intros p x H. rewrite get_del in H by auto.
    destruct (beqb p pk); [discriminate|]. eapply OK; eauto.
  - destruct (mem (r_pk d) m); simpl; auto. intros p x H. rewrite get_del in H by auto.
    destruct (beqb p (r_pk d)); [discriminate|]. eapply OK; eauto.
  - auto.
Qed.

Definition jstep_refines (st : jstate) (L0 R0 L R : tbl) (o : jop) : Prop :=
  exists st', jstep st o = (fst (js_step L R o), st') /\
    let LR := snd (js_step L R o) in
    if is_jsave o then jinv st' (fst LR) (snd LR) (fst LR) (snd LR)
    else jinv st' L0 R0 (fst LR) (snd LR).

Lemma jstep_ok st L0 R0 L R o :
  jinv st L0 R0 L R -> jop_safe all_clauses L0 R0 L R o = true -> jstep_refines st L0 R0 L R o.
Proof.
  intros J G. unfold jstep_refines. destruct o as [o|o|]; simpl in G.
  - apply andb_true_iff in G. destruct G as [G RO]. apply andb_true_iff in G. destruct G as [G NS].
    apply negb_true_iff in NS.
    destruct (step_ok _ _ _ _ (ji_l _ _ _ _ _ J) G NS) as [s' [E I']].
    simpl. rewrite E. destruct (s_step L o) as [e L1] eqn:SS. simpl in *.
    eexists. split; [reflexivity|]. constructor; simpl; try apply J; auto.
    replace L1 with (snd (s_step L o)) by (rewrite SS; auto).
    apply pks_ok_step; auto; apply J.
  - apply andb_true_iff in G. destruct G as [G RO]. apply andb_true_iff in G. destruct G as [G NS].
    apply negb_true_iff in NS.
    destruct (step_ok _ _ _ _ (ji_r _ _ _ _ _ J) G NS) as [s' [E I']].
    simpl. rewrite E. destruct (s_step R o) as [e R1] eqn:SS. simpl in *.
    eexists. split; [reflexivity|]. constructor; simpl; try apply J; auto.
    replace R1 with (snd (s_step R o)) by (rewrite SS; auto).
    apply pks_ok_step; auto; apply J.
  - destruct (j_save_correct st L0 R0 L R J G) as [st' [E J']]. simpl. rewrite E. eauto.
Qed.

(** * histories *)
Lemma jrun_refines a : forall b st L0 R0 L R,
  jinv st L0 R0 L R -> jsafe_from all_clauses L0 R0 L R (a ++ b) = true ->
  fst (jrun st a) = fst (js_run L R a) /\
  exists L0' R0',
    jinv (snd (jrun st a)) L0' R0' (fst (snd (js_run L R a))) (snd (snd (js_run L R a))) /\
    jsafe_from all_clauses L0' R0' (fst (snd (js_run L R a))) (snd (snd (js_run L R a))) b = true.
Proof.
  induction a as [|o tl IH]; intros b st L0 R0 L R J G.
  - simpl. split; auto. exists L0, R0. auto.
  - cbn [app jsafe_from] in G. apply andb_true_iff in G. destruct G as [G1 G2].
    destruct (jstep_ok _ _ _ _ _ _ J G1) as [st1 [E J1]].
    cbn [jrun js_run]. rewrite E.
    destruct (js_step L R o) as [e [L1 R1]] eqn:SS. cbn [fst snd] in *.
    destruct (is_jsave o).
    + destruct (IH b st1 L1 R1 L1 R1 J1 G2) as [A B].
      destruct (jrun st1 tl) as [es st2]. destruct (js_run L1 R1 tl) as [es' LR2]. cbn [fst snd] in *.
      split; [congruence|auto].
    + destruct (IH b st1 L0 R0 L1 R1 J1 G2) as [A B].
      destruct (jrun st1 tl) as [es st2]. destruct (js_run L1 R1 tl) as [es' LR2]. cbn [fst snd] in *.
      split; [congruence|auto].
Qed.

Lemma jrun_app st a b : snd (jrun st (a ++ b)) = snd (jrun (snd (jrun st a)) b).
Proof.
  revert st; induction a as [|o a IH]; intro st; simpl; auto.
  destruct (jstep st o) as [e st1]. specialize (IH st1).
  destruct (jrun st1 (a ++ b)) as [es st2]. destruct (jrun st1 a) as [es' st3]. simpl in *. auto.
Qed.

Lemma jrun_app_fst st a b :
  fst (jrun st (a ++ b)) = fst (jrun st a) ++ fst (jrun (snd (jrun st a)) b).
Proof.
  revert st; induction a as [|o a IH]; intro st; simpl; auto.
  destruct (jstep st o) as [e st1]. specialize (IH st1).
  destruct (jrun st1 (a ++ b)) as [es st2]. destruct (jrun st1 a) as [es' st3]. simpl in *. congruence.
Qed.

Lemma js_run_app_fst L R a b :
  fst (js_run L R (a ++ b)) =
  fst (js_run L R a) ++ fst (js_run (fst (snd (js_run L R a))) (snd (snd (js_run L R a))) b).
Proof.
  revert L R; induction a as [|o a IH]; intros L R; simpl.
  - destruct (js_run L R b) as [es [L2 R2]]; auto.
  - destruct (js_step L R o) as [e [L1 R1]]. specialize (IH L1 R1).
    destruct (js_run L1 R1 (a ++ b)) as [es x]. destruct (js_run L1 R1 a) as [es' [L3 R3]]. simpl in *. congruence.
Qed.

Lemma jsafe_from_app c a : forall L0 R0 L R b,
  jsafe_from c L0 R0 L R (a ++ b) = true -> jsafe_from c L0 R0 L R a = true.
Proof.
  induction a as [|o a IH]; intros L0 R0 L R b H; simpl in *; auto.
  apply andb_true_iff in H. destruct H as [H1 H2]. rewrite H1. simpl.
  destruct (snd (js_step L R o)) as [L1 R1]. destruct (is_jsave o); eapply IH; eauto.
Qed.

(** inside the guard (final join.Save included) every call answers like the
    two maps, and after the final join.Save the left and right stores hold
    exactly the maps' records and the join table's index records are exactly
    those of the relational join *)
Theorem join_refines_map_partial ops :
  jsafe (ops ++ [JSave]) = true -> jerrs_agree (ops ++ [JSave]) /\ jsaved_agrees ops.
Proof.
  intro G. destruct (jrun_refines ops [JSave] jinit [] [] [] [] jinv_init G) as [A [L0' [R0' [J G2]]]].
  cbn [jsafe_from jop_safe] in G2. apply andb_true_iff in G2. destruct G2 as [Gs _].
  destruct (j_save_correct _ _ _ _ _ J Gs) as [st' [E J']].
  split.
  - unfold jerrs_agree. rewrite jrun_app_fst, js_run_app_fst. f_equal; [exact A|].
    simpl. rewrite E. reflexivity.
  - unfold jsaved_agrees. rewrite jrun_app. simpl. rewrite E. cbn [snd].
    split; [|split].
    + apply (i_kv _ _ _ (ji_l _ _ _ _ _ J')).
    + apply (i_kv _ _ _ (ji_r _ _ _ _ _ J')).
    + apply (ji_kv _ _ _ _ _ J').
Qed.

(** the same at every join.Save inside a guarded history *)
Theorem join_every_save_partial ops1 ops2 :
  jsafe (ops1 ++ JSave :: ops2) = true -> jerrs_agree (ops1 ++ [JSave]) /\ jsaved_agrees ops1.
Proof.
  intro G. apply join_refines_map_partial. unfold jsafe, jsafe_with in *.
  apply (jsafe_from_app _ (ops1 ++ [JSave]) _ _ _ _ ops2). rewrite <- app_assoc. exact G.
Qed.
