(** C10 — key layout facts: data keys and index keys never collide as long as
    index values do not contain the separator byte; last-write semantics of a
    batch of writes; what [encode] contains. *)
From Coq Require Import List NArith ZArith Bool Lia.
From C33 Require Import Lib.Bytes Lib.OMap C10.Model C10.Spec.
Import ListNotations.

Lemma sepfree_cons x v : sepfree (x :: v) = true <-> x <> sepc /\ sepfree v = true.
Proof.
  unfold sepfree; simpl. rewrite andb_true_iff, negb_true_iff, N.eqb_neq. tauto.
Qed.

Lemma sepfree_split v v' p p' :
  sepfree v = true -> sepfree v' = true ->
  v ++ sepc :: p = v' ++ sepc :: p' -> v = v' /\ p = p'.
Proof.
  revert v'. induction v as [|x v IH]; intros [|y v'] S S' E; simpl in E.
  - inversion E; auto.
  - inversion E; subst. apply sepfree_cons in S'. destruct S' as [N _]. congruence.
  - inversion E; subst. apply sepfree_cons in S. destruct S as [N _]. congruence.
  - inversion E; subst. apply sepfree_cons in S. apply sepfree_cons in S'.
    destruct (IH v' (proj2 S) (proj2 S') H1) as [-> ->]. auto.
Qed.

Lemma dkey_inj p p' : dkey p = dkey p' -> p = p'.
Proof. unfold dkey. apply app_inv_head. Qed.

Lemma dkey_ikey p i v p' : dkey p <> ikey i v p'.
Proof. destruct i; unfold dkey, ikey, iprefix, dataprefix, metaprefix; simpl; discriminate. Qed.

Lemma ikey_inj i v p i' v' p' :
  sepfree v = true -> sepfree v' = true ->
  ikey i v p = ikey i' v' p' -> i = i' /\ v = v' /\ p = p'.
Proof.
  intros S S' E. destruct i, i'; unfold ikey, iprefix, metaprefix in E; simpl in E;
    try discriminate.
  - injection E as E. apply (sepfree_split _ _ _ _ S S') in E. tauto.
  - injection E as E. apply (sepfree_split _ _ _ _ S S') in E. tauto.
Qed.

(** * last write to a key in a batch *)
Fixpoint lw (k : bytes) (ws : list kvw) : option (option kvval) :=
  match ws with
  | [] => None
  | w :: tl =>
      match lw k tl with
      | Some x => Some x
      | None => if beqb k (fst w) then Some (snd w) else None
      end
  end.

Lemma lw_app k a b :
  lw k (a ++ b) = match lw k b with Some x => Some x | None => lw k a end.
Proof.
  induction a as [|w a IH]; simpl.
  - destruct (lw k b); auto.
  - rewrite IH. destruct (lw k b); auto.
Qed.

Lemma lw_none k ws : (forall w, In w ws -> fst w <> k) -> lw k ws = None.
Proof.
  induction ws as [|w ws IH]; simpl; auto. intro H.
  rewrite IH by auto. destruct (beqb k (fst w)) eqn:E; auto.
  apply beqb_eq in E. exfalso. apply (H w); auto.
Qed.

Lemma apply_kv_sorted m w : sorted m -> sorted (apply_kv m w).
Proof. intro S. unfold apply_kv. destruct (snd w); [apply put_sorted|apply del_sorted]; auto. Qed.

Lemma fold_apply_sorted ws m : sorted m -> sorted (fold_left apply_kv ws m).
Proof. revert m; induction ws; simpl; auto. intros. apply IHws, apply_kv_sorted; auto. Qed.

Lemma get_apply_kv k m w : sorted m ->
  get k (apply_kv m w) = if beqb k (fst w) then snd w else get k m.
Proof.
  intro S. unfold apply_kv. destruct (snd w).
  - apply get_put.
  - apply get_del; auto.
Qed.

Lemma get_fold_apply k ws m : sorted m ->
  get k (fold_left apply_kv ws m) = match lw k ws with Some x => x | None => get k m end.
Proof.
  revert m; induction ws as [|w ws IH]; simpl; auto. intros m S.
  rewrite IH by (apply apply_kv_sorted; auto).
  destruct (lw k ws); auto. rewrite get_apply_kv by auto.
  destruct (beqb k (fst w)); auto.
Qed.

(** * contents of [encode] *)
Definition all_entries (m : tbl) : list (bytes * kvval) :=
  flat_map (fun e => row_entries (fst e) (snd e)) (elements m).

Definition some_w (e : bytes * kvval) : kvw := (fst e, Some (snd e)).

Lemma of_list_as_fold (l : list (bytes * kvval)) m :
  fold_left (fun m e => put (fst e) (snd e) m) l m =
  fold_left apply_kv (map some_w l) m.
Proof. revert m; induction l; simpl; auto. Qed.

Lemma lw_map_some k l x :
  lw k (map some_w l) = Some x ->
  exists v, x = Some v /\ In (k, v) l.
Proof.
  induction l as [|e l IH]; simpl; [discriminate|].
  destruct (lw k (map some_w l)) eqn:E.
  - intro H; inversion H; subst. destruct (IH eq_refl) as [v [? ?]]. eauto.
  - destruct (beqb k (fst e)) eqn:B; [|discriminate]. intro H; inversion H; subst.
    apply beqb_eq in B. subst. exists (snd e). split; auto. left. destruct e; auto.
Qed.

Lemma lw_map_none k l :
  lw k (map some_w l) = None ->
  forall v, ~ In (k, v) l.
Proof.
  induction l as [|e l IH]; simpl; auto.
  destruct (lw k (map some_w l)) eqn:E; [discriminate|].
  destruct (beqb k (fst e)) eqn:B; [discriminate|]. intros _ v [H|H].
  - subst e. simpl in B. rewrite beqb_refl in B. discriminate.
  - eapply IH; eauto.
Qed.

Definition rows_ok (m : tbl) : Prop :=
  forall p d, get p m = Some d -> r_pk d = p /\ data_ok d = true.

Lemma data_ok_idx d i : data_ok d = true -> sepfree (idx_val d i) = true.
Proof. unfold data_ok. rewrite andb_true_iff. destruct i; simpl; tauto. Qed.

Lemma in_row_entries k v p d :
  In (k, v) (row_entries p d) <->
  (k = dkey p /\ v = VRow p d) \/ exists i, k = ikey i (idx_val d i) p /\ v = VPrim p.
Proof.
  unfold row_entries, all_idx. simpl. split.
  - intros [H|[H|[H|[]]]]; inversion H; subst.
    + left; auto.
    + right. exists ITo. auto.
    + right. exists INote. auto.
  - intros [[-> ->]|[i [-> ->]]]; auto. destruct i; auto.
Qed.

Lemma in_all_entries m k v : sorted m ->
  In (k, v) (all_entries m) <-> exists p d, get p m = Some d /\ In (k, v) (row_entries p d).
Proof.
  intro S. unfold all_entries. rewrite in_flat_map. split.
  - intros [[p d] [I H]]. exists p, d. split; auto. apply get_In; auto.
  - intros [p [d [G H]]]. exists (p, d). split; auto. apply get_In in G; auto.
Qed.

(** two entries of a well-formed table with the same key are the same entry *)
Lemma entries_functional m k v v' : sorted m -> rows_ok m ->
  In (k, v) (all_entries m) -> In (k, v') (all_entries m) -> v = v'.
Proof.
  intros S OK H H'. apply in_all_entries in H; auto. apply in_all_entries in H'; auto.
  destruct H as [p [d [G H]]], H' as [p' [d' [G' H']]].
  apply in_row_entries in H. apply in_row_entries in H'.
  destruct H as [[-> ->]|[i [-> ->]]], H' as [[E ->]|[i' [E ->]]].
  - apply dkey_inj in E. subst. congruence.
  - exfalso. eapply dkey_ikey; eauto.
  - exfalso. eapply dkey_ikey; eauto.
  - apply ikey_inj in E.
    + destruct E as [_ [_ ->]]. auto.
    + apply data_ok_idx. apply (OK _ _ G).
    + apply data_ok_idx. apply (OK _ _ G').
Qed.

Lemma encode_sorted m : sorted (encode m).
Proof. apply of_list_sorted. Qed.

Lemma get_encode m k v : sorted m -> rows_ok m ->
  (get k (encode m) = Some v <-> In (k, v) (all_entries m)).
Proof.
  intros S OK. unfold encode, of_list. fold (all_entries m).
  rewrite of_list_as_fold, get_fold_apply by exact I. simpl.
  destruct (lw k (map some_w (all_entries m))) eqn:E.
  - apply lw_map_some in E. destruct E as [v0 [-> I0]]. split.
    + intro H; inversion H; subst; auto.
    + intro H. f_equal. eapply entries_functional; eauto.
  - split; [discriminate|]. intro H. exfalso. eapply lw_map_none; eauto.
Qed.

(** the entry under a data key / an index key *)
Lemma get_encode_dkey m p : sorted m -> rows_ok m ->
  get (dkey p) (encode m) = match get p m with Some d => Some (VRow p d) | None => None end.
Proof.
  intros S OK. destruct (get p m) as [d|] eqn:G.
  - apply get_encode; auto. apply in_all_entries; auto. exists p, d. split; auto.
    apply in_row_entries. auto.
  - destruct (get (dkey p) (encode m)) as [v|] eqn:E; auto. exfalso.
    apply get_encode in E; auto. apply in_all_entries in E; auto.
    destruct E as [p' [d' [G' H]]]. apply in_row_entries in H.
    destruct H as [[E _]|[i [E _]]].
    + apply dkey_inj in E. congruence.
    + eapply dkey_ikey; eauto.
Qed.

Lemma get_encode_ikey m i v p : sorted m -> rows_ok m -> sepfree v = true ->
  get (ikey i v p) (encode m) =
  match get p m with
  | Some d => if beqb v (idx_val d i) then Some (VPrim p) else None
  | None => None
  end.
Proof.
  intros S OK SV.
  assert (A : forall x, get (ikey i v p) (encode m) = Some x ->
              exists d, get p m = Some d /\ v = idx_val d i /\ x = VPrim p).
  { intros x E. apply get_encode in E; auto. apply in_all_entries in E; auto.
    destruct E as [p' [d' [G' H]]]. apply in_row_entries in H.
    destruct H as [[E _]|[i' [E ->]]].
    - exfalso. symmetry in E. eapply dkey_ikey; eauto.
    - apply ikey_inj in E; auto.
      + destruct E as [-> [-> ->]]. eauto.
      + apply data_ok_idx. apply (OK _ _ G'). }
  destruct (get p m) as [d|] eqn:G.
  - destruct (beqb v (idx_val d i)) eqn:B.
    + apply beqb_eq in B. subst v. apply get_encode; auto. apply in_all_entries; auto.
      exists p, d. split; auto. apply in_row_entries. eauto.
    + destruct (get (ikey i v p) (encode m)) as [x|] eqn:E; auto.
      destruct (A x eq_refl) as [d' [G' [-> _]]]. inversion G'; subst.
      rewrite beqb_refl in B. discriminate.
  - destruct (get (ikey i v p) (encode m)) as [x|] eqn:E; auto.
    destruct (A x eq_refl) as [d' [G' _]]. discriminate.
Qed.

(** every key of [encode m] is a data key or an index key with a separator-free value *)
Definition owned (p k : bytes) : Prop :=
  k = dkey p \/ exists i v, sepfree v = true /\ k = ikey i v p.

Lemma own_d p : owned p (dkey p).
Proof. left; auto. Qed.
Lemma own_i p i v : sepfree v = true -> owned p (ikey i v p).
Proof. right; eauto. Qed.

Lemma owned_inj p p' k : owned p k -> owned p' k -> p = p'.
Proof.
  intros [->|[i [v [S ->]]]] [E|[i' [v' [S' E]]]].
  - apply dkey_inj in E; auto.
  - exfalso. eapply dkey_ikey; eauto.
  - exfalso. symmetry in E. eapply dkey_ikey; eauto.
  - apply ikey_inj in E; auto. tauto.
Qed.

Lemma encode_key_owned m k v : sorted m -> rows_ok m ->
  get k (encode m) = Some v -> exists p, owned p k.
Proof.
  intros S OK E. apply get_encode in E; auto. apply in_all_entries in E; auto.
  destruct E as [p [d [G H]]]. apply in_row_entries in H. exists p.
  destruct H as [[-> _]|[i [-> _]]]; [apply own_d|apply own_i]. apply data_ok_idx, (OK _ _ G).
Qed.
