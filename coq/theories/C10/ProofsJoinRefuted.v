(** C10 — JoinTable: each clause of the guard is needed (refutation witnesses
    by computation; the harness reproduces each on the Go code), and
    non-vacuity examples for the guard. *)
From Coq Require Import List NArith ZArith Bool String.
From C33 Require Import Lib.Bytes Lib.OMap Lib.Harness C10.Model C10.Spec C10.Join C10.JoinSpec.
Import ListNotations.
Open Scope string_scope.

Definition b_h1 := bs "h1". Definition b_h2 := bs "h2". Definition b_a := bs "a". Definition b_2 := bs "2".
Definition lrow (pk gid addr : string) : rowdata := mkRow (bs pk) (bs gid) (bs addr) 0.
Definition grow (k st : string) : rowdata := mkRow (bs k) (bs st) (bs "t") 0.

(** 5. foreign-key lookup by prefix scan: a status change of right key "g1"
    also rewrites the join records of the left row of "g10" *)
Definition wj_prefix : list jop :=
  [JR (OAdd (grow "g1" "1")); JR (OAdd (grow "g10" "5"));
   JL (OAdd (lrow "h1" "g1" "a")); JL (OAdd (lrow "h2" "g10" "b")); JSave;
   JR (OUpdate (bs "g1") (grow "g1" "2"))].

(** 6. a left row is deleted in the window in which its right row changes
    status: the join records of the deleted row come back *)
Definition wj_del : list jop :=
  [JR (OAdd (grow "g1" "1")); JL (OAdd (lrow "h1" "g1" "a")); JL (OAdd (lrow "h2" "g1" "b")); JSave;
   JL (ODel b_h1); JR (OUpdate (bs "g1") (grow "g1" "2"))].

(** 7. the foreign key of a stored left row changes (addr unchanged): ignored *)
Definition wj_fk : list jop :=
  [JR (OAdd (grow "g1" "1")); JR (OAdd (grow "g2" "5")); JL (OAdd (lrow "h1" "g1" "a")); JSave;
   JL (OUpdate b_h1 (lrow "h1" "g2" "a"))].

(** 8. a pending left row without right row: join.Save fails, nothing is written *)
Definition wj_dangling : list jop :=
  [JR (OAdd (grow "g1" "1")); JL (OAdd (lrow "h1" "g1" "a")); JSave;
   JL (OAdd (lrow "h2" "zz" "a"))].

(** the guard accepts non-trivial histories: a right status change with a pending
    left row of another right key, a left addr change together with a right
    status change, a right Del with its left rows, re-Add with a left Del of the
    other key, several operations per key *)
Definition wj_safe : list jop :=
  [JR (OAdd (grow "g1" "1")); JR (OAdd (grow "g2" "5")); JL (OAdd (lrow "h1" "g1" "a")); JSave;
   JR (OUpdate (bs "g1") (grow "g1" "2")); JL (OAdd (lrow "h2" "g2" "b")); JL (OUpdate b_h2 (lrow "h2" "g2" "c")); JSave;
   JL (OUpdate b_h1 (lrow "h1" "g1" "b")); JR (OUpdate (bs "g1") (grow "g1" "1")); JR (ODel (bs "g2")); JSave;
   JR (OAdd (grow "g2" "7")); JL (ODel b_h1); JL (OAdd (lrow "h3" "g2" "")); JL (ODel (bs "h3")); JSave].

Close Scope string_scope.

Ltac refute_with w :=
  let H := fresh "H" in
  intro H; destruct (H w eq_refl) as [_ H2]; unfold jsaved_agrees in H2;
  vm_compute in H2; destruct H2 as [? [? ?]]; discriminate.

Lemma jrefuted_prefix : ~ jrefines (mkCl true true true false).
Proof. refute_with wj_prefix. Qed.

Lemma jrefuted_del : ~ jrefines (mkCl true true false true).
Proof. refute_with wj_del. Qed.

Lemma jrefuted_fk : ~ jrefines (mkCl false true true true).
Proof. refute_with wj_fk. Qed.

Lemma jrefuted_dangling : ~ jrefines (mkCl true false true true).
Proof. refute_with wj_dangling. Qed.

(** the full guard rejects the four witnesses; each is rejected by its own clause only *)
Example jguard_rejects_witnesses :
  map jsafe [wj_prefix ++ [JSave]; wj_del ++ [JSave]; wj_fk ++ [JSave]; wj_dangling ++ [JSave]]
  = [false; false; false; false].
Proof. vm_compute. reflexivity. Qed.

(** what the stores hold after the witnesses (as the harness observes on the Go code) *)
Example wj_prefix_observed :
  fst (jrun jinit wj_prefix) = fst (js_run [] [] wj_prefix) /\
  get (jikey JSt (joinkey [] b_2) b_h2) (jkv (snd (jrun jinit (wj_prefix ++ [JSave])))) = Some (VPrim b_h2).
Proof. vm_compute. repeat split; reflexivity. Qed.

Example wj_del_observed :
  get (jikey JAddrSt (joinkey b_a b_2) b_h1) (jkv (snd (jrun jinit (wj_del ++ [JSave])))) = Some (VPrim b_h1) /\
  get b_h1 (fst (snd (js_run [] [] wj_del))) = None.
Proof. vm_compute. repeat split; reflexivity. Qed.

Example wj_dangling_observed :
  fst (jrun jinit (wj_dangling ++ [JSave])) = [EOk; EOk; EOk; EOk; ENotFound].
Proof. vm_compute. reflexivity. Qed.

Example jguard_nontrivial :
  jsafe wj_safe = true /\
  fst (jrun jinit wj_safe) = fst (js_run [] [] wj_safe) /\
  List.length (jkv (snd (jrun jinit (firstn 8 wj_safe)))) = 4%nat /\
  List.length (jkv (snd (jrun jinit (firstn 12 wj_safe)))) = 2%nat /\
  jkv (snd (jrun jinit wj_safe)) = jenc (fst (snd (js_run [] [] wj_safe))) (snd (snd (js_run [] [] wj_safe))) /\
  List.length (jkv (snd (jrun jinit wj_safe))) = 2%nat.
Proof. vm_compute. repeat split; reflexivity. Qed.
