(** C10 — JoinTable proofs, part 2: what the caches of the left and right
    table look like at a join.Save (from the plain-table invariant), and the
    join rows that saveLeft / saveRight build. *)
From Coq Require Import List NArith ZArith Bool Lia.
From C33 Require Import Lib.Bytes Lib.OMap C10.Model C10.Spec C10.ProofsKeys C10.ProofsInv
  C10.ProofsQuery C10.Join C10.JoinSpec C10.ProofsJoinKeys.
Import ListNotations.

(** * one primary key of a table at Save time *)
Inductive view (s : state) (m0 m : tbl) (p : bytes) : Prop :=
| v_none :
    get p (rmap s) = None -> lives p (rows s) = [] -> get p m = get p m0 ->
    find_row s p = match get p m0 with
                   | Some d0 => (EOk, Some (mkC TNone p d0 None), None)
                   | None => (ENotFound, None, None)
                   end ->
    view s m0 m p
| v_add r i :
    get p (rmap s) = Some i -> nth_error (rows s) i = Some r -> c_pk r = p -> lives p (rows s) = [r] ->
    c_ty r = TAdd -> get p m0 = None -> get p m = Some (c_data r) ->
    find_row s p = (EOk, Some r, Some i) -> view s m0 m p
| v_upd r i d0 :
    get p (rmap s) = Some i -> nth_error (rows s) i = Some r -> c_pk r = p -> lives p (rows s) = [r] ->
    c_ty r = TUpdate -> c_old r = Some d0 -> get p m0 = Some d0 -> get p m = Some (c_data r) ->
    find_row s p = (EOk, Some r, Some i) -> view s m0 m p
| v_del r d0 :
    get p (rmap s) = None -> lives p (rows s) = [r] -> c_pk r = p -> c_ty r = TDel -> c_data r = d0 ->
    get p m0 = Some d0 -> get p m = None ->
    find_row s p = (EOk, Some (mkC TNone p d0 None), None) -> view s m0 m p.

Lemma view_of_inv s m0 m p : inv s m0 m -> view s m0 m p.
Proof.
  intro I. pose proof (i_keys _ _ _ I p) as K. unfold kinv in K.
  destruct (get p (rmap s)) as [i|] eqn:R.
  - destruct K as [r [E [P [L [O T]]]]].
    assert (F : find_row s p = (EOk, Some r, Some i)) by (unfold find_row; rewrite R, E; auto).
    destruct T as [[T O0]|[T [d0 [Old O0]]]].
    + eapply v_add; eauto.
    + eapply v_upd; eauto.
  - assert (F : find_row s p = let '(e, r) := get_data (encode m0) p in (e, r, None)).
    { unfold find_row. rewrite R, (i_kv _ _ _ I). auto. }
    rewrite get_data_encode in F by (apply I).
    destruct K as [[L O]|[r [d0 [L [P [T [O0 [IS O]]]]]]]].
    + eapply v_none; eauto. destruct (get p m0); auto.
    + rewrite O0 in F. eapply v_del; eauto.
Qed.

(** the right row saveLeft pairs a left row with, and the right row it takes
    as the old one of an Update, in terms of the two maps *)
Definition rcur (R0 R : tbl) (g : bytes) : option rowdata :=
  match get g R with Some r => Some r | None => get g R0 end.
Definition rold (R0 R : tbl) (g : bytes) : option rowdata :=
  match get g R0 with Some r0 => Some r0 | None => get g R end.

Definition left_jrow (r : crow) (rc ro : rowdata) : jrow :=
  mkJ (c_ty r) (c_pk r) (c_data r) rc (if is_tupd (c_ty r) then Some (old_or_data r, ro) else None).

Lemma save_left_spec rs R0 R r rc :
  inv rs R0 R -> rcur R0 R (l_gid (c_data r)) = Some rc ->
  exists ro, rold R0 R (l_gid (c_data r)) = Some ro /\
  save_left rs r =
    if is_tupd (c_ty r) && negb (left_modified r) then (EOk, []) else (EOk, [left_jrow r rc ro]).
Proof.
  intros I C. set (g := l_gid (c_data r)) in *. unfold rcur, rold in *.
  unfold save_left. fold g.
  destruct (view_of_inv rs R0 R g I) as [Rm Lv O F | rr i Rm N P Lv T O0 O F | rr i d0 Rm N P Lv T Old O0 O F | rr d0 Rm Lv P T D O0 O F].
  - rewrite O in C. destruct (get g R0) as [d0|] eqn:G0; [|discriminate].
    assert (d0 = rc) by (destruct (get g R); congruence). subst d0.
    exists rc. split; auto. rewrite F. destruct (is_tupd (c_ty r) && negb (left_modified r)); auto.
  - rewrite O in C. inversion C; subst rc. rewrite O0, O. exists (c_data rr). split; auto.
    rewrite F, T. cbn [is_tupd andb]. destruct (is_tupd (c_ty r) && negb (left_modified r)); auto.
  - rewrite O in C. inversion C; subst rc. rewrite O0. exists d0. split; auto.
    rewrite F, T. cbn [is_tupd andb]. unfold old_or_data. rewrite Old.
    destruct (is_tupd (c_ty r) && negb (left_modified r)); auto.
  - rewrite O, O0 in C. inversion C; subst rc. rewrite O0. exists d0. split; auto.
    rewrite F. destruct (is_tupd (c_ty r) && negb (left_modified r)); auto.
Qed.

(** * the foreign-key scan *)
Definition stored_row (pr : bytes * rowdata) : crow := mkC TNone (fst pr) (snd pr) None.

Lemma fk_scan_spec ls L0 L k :
  inv ls L0 L -> pks_ok L0 -> sepfree k = true ->
  exists rs, fk_scan ls k = (EOk, map stored_row rs) /\
    forall p d, In (p, d) rs <-> (get p L0 = Some d /\ is_prefix k (l_gid d) = true).
Proof.
  intros I PK Sk. unfold fk_scan. rewrite (i_kv _ _ _ I).
  destruct (list_index_full L0 (i_s0 _ _ _ I) (i_ok0 _ _ _ I)) with (q := mkQ (QIdx ITo) k [] 0 false)
    as [rs [E Q]]; simpl; auto; try lia.
  - intros p d G Ep. subst p. apply PK in G. discriminate.
  - rewrite E. exists rs. split; [destruct rs; auto|]. exact Q.
Qed.

(** * mergeCache *)
Definition one_of (ls : state) (p : bytes) (l0 : rowdata) : crow :=
  match cached_row ls p with Some cr => cr | None => mkC TNone p l0 None end.

Lemma cached_row_pk ls L0 L p cr : inv ls L0 L -> cached_row ls p = Some cr -> c_pk cr = p.
Proof.
  intros I C. unfold cached_row in C.
  destruct (view_of_inv ls L0 L p I) as [Rm | r i Rm N P | r i d0 Rm N P | r d0 Rm];
    rewrite Rm in C; try discriminate; congruence.
Qed.

Lemma in_cached_list ls L0 L cr : inv ls L0 L ->
  In cr (flat_map (fun e => match nth_error (rows ls) (snd e) with Some cr => [cr] | None => [] end)
                  (elements (rmap ls))) ->
  cached_row ls (c_pk cr) = Some cr.
Proof.
  intros I H. apply in_flat_map in H. destruct H as [[q i] [Hq H]]. simpl in H.
  unfold elements in Hq. apply get_In in Hq; [|apply I].
  destruct (nth_error (rows ls) i) as [cr'|] eqn:N; [|destruct H]. destruct H as [->|[]].
  assert (C : cached_row ls q = Some cr) by (unfold cached_row; rewrite Hq; auto).
  rewrite (cached_row_pk _ _ _ _ _ I C). exact C.
Qed.

Lemma cached_in_list ls L0 L p cr : inv ls L0 L -> cached_row ls p = Some cr ->
  In cr (flat_map (fun e => match nth_error (rows ls) (snd e) with Some cr => [cr] | None => [] end)
                  (elements (rmap ls))).
Proof.
  intros I C. unfold cached_row in C. destruct (get p (rmap ls)) as [i|] eqn:G; [|discriminate].
  apply in_flat_map. exists (p, i). split; [unfold elements; apply get_In; auto; apply I|]. simpl. rewrite C. left; auto.
Qed.

(** the rows of left key [p] among the rows saveRight works on for right key [k] *)
Lemma merge_cache_for ls L0 L k rs p :
  inv ls L0 L ->
  (forall q d, In (q, d) rs <-> (get q L0 = Some d /\ is_prefix k (l_gid d) = true)) ->
  let M := filter (fun one => beqb (c_pk one) p) (merge_cache ls (map stored_row rs) k) in
  (forall one, In one M ->
     exists l0, one = one_of ls p l0 /\
       (get p L0 = Some l0 \/ (get p L0 = None /\ cached_row ls p = Some one))) /\
  (M <> [] <->
     ((exists l0, get p L0 = Some l0 /\ is_prefix k (l_gid l0) = true) \/
      (exists cr, cached_row ls p = Some cr /\ l_gid (c_data cr) = k))).
Proof.
  intros I Q M. split.
  - intros one H. unfold M in H. apply filter_In in H. destruct H as [H Pk]. apply beqb_eq in Pk.
    unfold merge_cache in H. apply in_app_or in H. destruct H as [H|H].
    + apply in_map_iff in H. destruct H as [sr [E H]]. apply in_map_iff in H. destruct H as [[q d] [<- H]].
      simpl in E. apply Q in H. destruct H as [G _].
      assert (q = p).
      { destruct (cached_row ls q) as [cr|] eqn:C.
        - subst one. rewrite <- Pk. symmetry. eapply cached_row_pk; eauto.
        - subst one. auto. }
      subst q. exists d. split; [|auto]. unfold one_of. rewrite <- E. destruct (cached_row ls p); reflexivity.
    + apply filter_In in H. destruct H as [H _].
      pose proof (in_cached_list _ _ _ _ I H) as C. rewrite Pk in C.
      destruct (get p L0) as [l0|] eqn:G0.
      * exists l0. split; auto. unfold one_of. rewrite C. auto.
      * exists (c_data one). split; auto. unfold one_of. rewrite C. auto.
  - split.
    + intro NE. destruct M as [|one M'] eqn:EM; [congruence|].
      assert (H : In one M) by (rewrite EM; left; auto). unfold M in H.
      apply filter_In in H. destruct H as [H Pk]. apply beqb_eq in Pk.
      unfold merge_cache in H. apply in_app_or in H. destruct H as [H|H].
      * left. apply in_map_iff in H. destruct H as [sr [E H]]. apply in_map_iff in H.
        destruct H as [[q d] [<- H]]. simpl in E. apply Q in H. destruct H as [G Pf].
        assert (q = p).
        { destruct (cached_row ls q) as [cr|] eqn:C.
          - subst one. rewrite <- Pk. symmetry. eapply cached_row_pk; eauto.
          - subst one. auto. }
        subst q. eauto.
      * right. apply filter_In in H. destruct H as [H F]. apply andb_true_iff in F. destruct F as [_ F].
        apply beqb_eq in F. pose proof (in_cached_list _ _ _ _ I H) as C. rewrite Pk in C. eauto.
    + intros H NE.
      assert (A : forall one, In one (merge_cache ls (map stored_row rs) k) -> c_pk one = p -> False).
      { intros one Hin Pk. assert (Hm : In one M) by (apply filter_In; split; auto; apply beqb_eq; auto).
        rewrite NE in Hm. destruct Hm. }
      destruct (existsb (fun r => beqb (c_pk r) p) (map stored_row rs)) eqn:EX.
      * apply existsb_exists in EX. destruct EX as [sr [Hin B]]. apply beqb_eq in B.
        apply in_map_iff in Hin. destruct Hin as [[q d] [<- Hin]]. simpl in B. subst q.
        apply (A (match cached_row ls p with Some cr => cr | None => stored_row (p, d) end)).
        -- unfold merge_cache. apply in_or_app. left. apply in_map_iff. exists (stored_row (p, d)). split; auto.
           apply in_map_iff. exists (p, d). auto.
        -- destruct (cached_row ls p) as [cr|] eqn:C; auto. eapply cached_row_pk; eauto.
      * destruct H as [[l0 [G Pf]]|[cr [C Gk]]].
        -- assert (Hin : In (p, l0) rs) by (apply Q; auto).
           assert (X : existsb (fun r => beqb (c_pk r) p) (map stored_row rs) = true).
           { apply existsb_exists. exists (stored_row (p, l0)). split; [apply in_map_iff; eauto|].
             simpl. apply beqb_refl. }
           congruence.
        -- apply (A cr).
           ++ unfold merge_cache. apply in_or_app. right. apply filter_In. split.
              ** eapply cached_in_list; eauto.
              ** rewrite (cached_row_pk _ _ _ _ _ I C), EX, Gk, beqb_refl. auto.
           ++ eapply cached_row_pk; eauto.
Qed.
