(** C10 — JoinTable proofs, part 1: the join table's key layout, the writes
    of one join row, and the contents of [jenc]. *)
From Coq Require Import List NArith ZArith Bool Lia.
From C33 Require Import Lib.Bytes Lib.OMap C10.Model C10.Spec C10.ProofsKeys C10.Join C10.JoinSpec.
Import ListNotations.

(** * keys *)
Lemma sepfree_rev a : sepfree (rev a) = sepfree a.
Proof.
  unfold sepfree. induction a as [|x a IH]; simpl; auto.
  rewrite forallb_app, IH. simpl. rewrite andb_true_r. apply andb_comm.
Qed.

(** splitting at the LAST separator: the primary key has none *)
Lemma last_sep_split v v' p p' :
  sepfree p = true -> sepfree p' = true ->
  v ++ sepc :: p = v' ++ sepc :: p' -> v = v' /\ p = p'.
Proof.
  intros S S' E. apply (f_equal (@rev N)) in E.
  rewrite !rev_app_distr in E. simpl in E. rewrite <- !app_assoc in E. simpl in E.
  apply sepfree_split in E; try (rewrite sepfree_rev; assumption).
  destruct E as [E1 E2]. split.
  - apply (f_equal (@rev N)) in E2. rewrite !rev_involutive in E2. exact E2.
  - apply (f_equal (@rev N)) in E1. rewrite !rev_involutive in E1. exact E1.
Qed.

Lemma jpre_inj i i' x y : jpre i ++ x = jpre i' ++ y -> i = i' /\ x = y.
Proof.
  destruct i, i'; intro H.
  - apply app_inv_head in H. auto.
  - simpl in H. discriminate.
  - simpl in H. discriminate.
  - apply app_inv_head in H. auto.
Qed.

Lemma jikey_inj i v p i' v' p' :
  sepfree p = true -> sepfree p' = true ->
  jikey i v p = jikey i' v' p' -> i = i' /\ v = v' /\ p = p'.
Proof.
  intros S S' E. unfold jikey in E. apply jpre_inj in E. destruct E as [-> E]. simpl in E.
  apply last_sep_split in E; [|assumption|assumption]. destruct E as [-> ->]. auto.
Qed.

Definition jidx_eqb (a b : jidx) : bool :=
  match a, b with JAddrSt, JAddrSt | JSt, JSt => true | _, _ => false end.

Lemma beqb_jikey i v i' v' p : sepfree p = true ->
  beqb (jikey i v p) (jikey i' v' p) = jidx_eqb i i' && beqb v v'.
Proof.
  intro S. destruct (beqb (jikey i v p) (jikey i' v' p)) eqn:B.
  - apply beqb_eq in B. apply jikey_inj in B; auto. destruct B as [-> [-> _]].
    rewrite beqb_refl. destruct i'; auto.
  - symmetry. apply not_true_iff_false. intro H. apply andb_true_iff in H. destruct H as [H1 H2].
    apply beqb_eq in H2. subst v'.
    assert (E : i = i') by (destruct i, i'; simpl in H1; congruence). subst i'.
    rewrite beqb_refl in B. discriminate.
Qed.

(** * the writes of one join row *)
Definition jwr (r : jrow) : list kvw := match j_save_row r with Some w => w | None => [] end.

Lemma jwr_owned r w : In w (jwr r) -> exists i v, fst w = jikey i v (j_pk r).
Proof.
  unfold jwr, j_save_row. destruct (j_ty r).
  - intros [].
  - unfold j_add_row. intro I. apply in_map_iff in I. destruct I as [i [<- _]]. simpl. eauto.
  - unfold j_update_row. destruct (j_old r) as [old|]; [|intros []].
    destruct (rowdata_eqb (j_l r) (fst old) && rowdata_eqb (j_r r) (snd old)); [intros []|].
    intro I. apply in_flat_map in I. destruct I as [i [_ I]]. unfold j_upd_idx in I.
    destruct (beqb _ _); [destruct I|].
    destruct I as [<-|[<-|[]]]; simpl; eauto.
  - unfold j_del_row. intro I. apply in_map_iff in I. destruct I as [i [<- _]]. simpl. eauto.
Qed.

Lemma lw_jwr_other p r i v :
  sepfree p = true -> sepfree (j_pk r) = true -> j_pk r <> p -> lw (jikey i v p) (jwr r) = None.
Proof.
  intros S S' N. apply lw_none. intros w I E.
  destruct (jwr_owned _ _ I) as [i' [v' E']]. rewrite E' in E.
  apply jikey_inj in E; auto. destruct E as [_ [_ E]]. auto.
Qed.

Definition for_pk (p : bytes) (rws : list jrow) : list jrow := filter (fun r => beqb (j_pk r) p) rws.

(** the last write to a key of [p] is decided by the join rows of [p] *)
Lemma lw_flat_filter p i v rws :
  sepfree p = true -> Forall (fun r => sepfree (j_pk r) = true) rws ->
  lw (jikey i v p) (flat_map jwr rws) = lw (jikey i v p) (flat_map jwr (for_pk p rws)).
Proof.
  intros S F. induction F as [|r tl Hr F IH]; simpl; auto.
  rewrite lw_app, IH. destruct (beqb (j_pk r) p) eqn:B; simpl.
  - rewrite lw_app. auto.
  - rewrite lw_jwr_other; auto; [|apply beqb_neq; auto].
    destruct (lw (jikey i v p) (flat_map jwr (for_pk p tl))); auto.
Qed.

Lemma j_save_rows_flat rws :
  Forall (fun r => j_save_row r <> None) rws -> j_save_rows rws = Some (flat_map jwr rws).
Proof.
  intro F. induction F as [|r tl Hr F IH]; simpl; auto.
  rewrite IH. unfold jwr. destruct (j_save_row r); [auto|congruence].
Qed.

(** * contents of [jenc] *)
Definition pks_ok (m : tbl) : Prop := forall p d, get p m = Some d -> pk_ok p = true.

Lemma pk_ok_sepfree p : pk_ok p = true -> sepfree p = true.
Proof. unfold pk_ok. intro H. apply andb_true_iff in H. tauto. Qed.

Definition jall (L R : tbl) : list (bytes * kvval) := flat_map jentries (join_rows L R).

Lemma in_join_rows L R p l r : sorted L ->
  In (p, l, r) (join_rows L R) <-> get p L = Some l /\ get (l_gid l) R = Some r.
Proof.
  intro S. unfold join_rows. rewrite in_flat_map. split.
  - intros [[p' l'] [I H]]. simpl in H. apply get_In in I; auto.
    destruct (get (l_gid l') R) as [r'|] eqn:G; [|destruct H].
    destruct H as [H|[]]. inversion H; subst. auto.
  - intros [G1 G2]. exists (p, l). split; [apply get_In; auto|]. simpl. rewrite G2. left; auto.
Qed.

Lemma in_jall L R k x : sorted L ->
  In (k, x) (jall L R) <->
  exists p l r i, get p L = Some l /\ get (l_gid l) R = Some r /\ k = jikey i (jval l r i) p /\ x = VPrim p.
Proof.
  intro S. unfold jall. rewrite in_flat_map. split.
  - intros [[[p l] r] [I H]]. apply in_join_rows in I; auto. destruct I as [G1 G2].
    unfold jentries in H. apply in_map_iff in H. destruct H as [i [H _]]. inversion H; subst.
    exists p, l, r, i. auto.
  - intros [p [l [r [i [G1 [G2 [-> ->]]]]]]]. exists (p, l, r). split; [apply in_join_rows; auto|].
    unfold jentries. apply in_map_iff. exists i. split; auto. destruct i; simpl; auto.
Qed.

Lemma jall_functional L R k x x' : sorted L -> pks_ok L ->
  In (k, x) (jall L R) -> In (k, x') (jall L R) -> x = x'.
Proof.
  intros S OK H H'. apply in_jall in H; auto. apply in_jall in H'; auto.
  destruct H as [p [l [r [i [G1 [G2 [E ->]]]]]]], H' as [p' [l' [r' [i' [G1' [G2' [E' ->]]]]]]].
  rewrite E in E'. apply jikey_inj in E'.
  - destruct E' as [_ [_ ->]]. auto.
  - apply pk_ok_sepfree. eapply OK; eauto.
  - apply pk_ok_sepfree. eapply OK; eauto.
Qed.

Lemma jenc_sorted L R : sorted (jenc L R).
Proof. apply of_list_sorted. Qed.

Lemma get_jenc_iff L R k x : sorted L -> pks_ok L ->
  (get k (jenc L R) = Some x <-> In (k, x) (jall L R)).
Proof.
  intros S OK. unfold jenc, of_list. fold (jall L R).
  rewrite of_list_as_fold, get_fold_apply by exact I. simpl.
  destruct (lw k (map some_w (jall L R))) eqn:E.
  - apply lw_map_some in E. destruct E as [v0 [-> I0]]. split.
    + intro H; inversion H; subst; auto.
    + intro H. f_equal. eapply jall_functional; eauto.
  - split; [discriminate|]. intro H. exfalso. eapply lw_map_none; eauto.
Qed.

(** the record of left key [p] under join index [i] and value [v], given the
    left row and its right row *)
Definition jent (p : bytes) (ol or : option rowdata) (i : jidx) (v : bytes) : option kvval :=
  match ol, or with
  | Some l, Some r => if beqb v (jval l r i) then Some (VPrim p) else None
  | _, _ => None
  end.

Definition right_of (R : tbl) (ol : option rowdata) : option rowdata :=
  match ol with Some l => get (l_gid l) R | None => None end.

Lemma get_jenc L R i v p : sorted L -> pks_ok L -> sepfree p = true ->
  get (jikey i v p) (jenc L R) = jent p (get p L) (right_of R (get p L)) i v.
Proof.
  intros S OK Sp. destruct (get (jikey i v p) (jenc L R)) as [x|] eqn:G.
  - apply get_jenc_iff in G; auto. apply in_jall in G; auto.
    destruct G as [p' [l [r [i' [G1 [G2 [E ->]]]]]]].
    apply jikey_inj in E; auto; [|apply pk_ok_sepfree; eapply OK; eauto].
    destruct E as [-> [-> ->]]. rewrite G1. simpl. rewrite G2. unfold jent. rewrite beqb_refl. auto.
  - unfold jent, right_of. destruct (get p L) as [l|] eqn:G1; auto.
    destruct (get (l_gid l) R) as [r|] eqn:G2; auto.
    destruct (beqb v (jval l r i)) eqn:B; auto. apply beqb_eq in B. subst v.
    assert (H : In (jikey i (jval l r i) p, VPrim p) (jall L R)).
    { apply in_jall; auto. exists p, l, r, i. auto. }
    apply get_jenc_iff in H; auto. congruence.
Qed.

Lemma jenc_key_owned L R k x : sorted L -> pks_ok L ->
  get k (jenc L R) = Some x -> exists i v p, k = jikey i v p /\ sepfree p = true.
Proof.
  intros S OK G. apply get_jenc_iff in G; auto. apply in_jall in G; auto.
  destruct G as [p [l [r [i [G1 [G2 [E ->]]]]]]]. exists i, (jval l r i), p. split; auto.
  apply pk_ok_sepfree. eapply OK; eauto.
Qed.

(** * what one join row does to the record (i, v) of its left key *)
Definition jeff (r : jrow) (i : jidx) (v : bytes) : option (option kvval) :=
  match j_ty r with
  | TNone => None
  | TAdd => if beqb v (jval (j_l r) (j_r r) i) then Some (Some (VPrim (j_pk r))) else None
  | TDel => if beqb v (jval (j_l r) (j_r r) i) then Some None else None
  | TUpdate =>
      match j_old r with
      | None => None
      | Some old =>
          let nv := jval (j_l r) (j_r r) i in
          let ov := jval (fst old) (snd old) i in
          if beqb nv ov then None
          else if beqb v nv then Some (Some (VPrim (j_pk r)))
          else if beqb v ov then Some None else None
      end
  end.

Lemma rowdata_eqb_true a b : rowdata_eqb a b = true -> a = b.
Proof.
  unfold rowdata_eqb. intro H. repeat (apply andb_true_iff in H; destruct H as [H ?]).
  destruct a, b; simpl in *. f_equal; try (apply beqb_eq; assumption). apply Z.eqb_eq; assumption.
Qed.

Lemma lw_jwr r i v : sepfree (j_pk r) = true ->
  lw (jikey i v (j_pk r)) (jwr r) = jeff r i v.
Proof.
  intro S. unfold jwr, j_save_row, jeff. destruct (j_ty r); auto.
  - unfold j_add_row, all_jidx. cbn [map lw fst snd]. rewrite !beqb_jikey by auto.
    destruct i; cbn [jidx_eqb andb]; destruct (beqb v _); auto.
  - unfold j_update_row. destruct (j_old r) as [old|]; auto.
    destruct (rowdata_eqb (j_l r) (fst old) && rowdata_eqb (j_r r) (snd old)) eqn:Q.
    + apply andb_true_iff in Q. destruct Q as [Q1 Q2].
      apply rowdata_eqb_true in Q1. apply rowdata_eqb_true in Q2. rewrite Q1, Q2, beqb_refl. auto.
    + unfold all_jidx, j_upd_idx. cbn [flat_map].
      destruct (beqb (jval (j_l r) (j_r r) JAddrSt) (jval (fst old) (snd old) JAddrSt)) eqn:B1,
               (beqb (jval (j_l r) (j_r r) JSt) (jval (fst old) (snd old) JSt)) eqn:B2;
        cbn [app lw fst snd]; rewrite ?beqb_jikey by auto;
        destruct i; cbn [jidx_eqb andb]; rewrite ?B1, ?B2;
        repeat match goal with |- context [beqb v ?x] => destruct (beqb v x) end; auto.
  - unfold j_del_row, all_jidx. cbn [map lw fst snd]. rewrite !beqb_jikey by auto.
    destruct i; cbn [jidx_eqb andb]; destruct (beqb v _); auto.
Qed.
