(** C22 — the mempool over a history in which the header moves: EventTx,
    EventAddDelayTx and EventAddBlock messages against one Mempool
    (system/mempool/eventprocess.go eventTx, eventAddDelayTx, eventAddBlock,
    addDelayTx, pushExpiredDelayTx; base.go pushDelayTxRoutine, RemoveTxsOfBlock,
    removeExpired; cache.go delayTxCache, removeExpiredTx; types/fork.go IsFork).

    The configuration of Model.v is the view of a static configuration at one
    header: height, block time and the fork gates are re-evaluated at every
    message.  Not modelled: the pool-age rule of removeExpiredTx (entries older
    than 600 s; Check.v refuses histories whose clock moves that far), and the
    retry list of pushDelayTxRoutine (it is never filled: the error of
    QueueProtocol.SendTx is a fresh fmt.Errorf value, never == ErrMemFull). *)
From Coq Require Import List ZArith NArith Bool.
From C33 Require Import C22.Model.
Import ListNotations.
Open Scope Z_scope.

Record scfg := mkS {
  s_synced : bool;
  s_para : bool;
  f_strict : Z;        (* fork heights: ForkTxChainIDStrict, *)
  f_blockcheck : Z;    (* ForkBlockCheck, *)
  f_txheight : Z;      (* ForkTxHeight, *)
  f_parafork : Z;      (* ForkTxGroupPara *)
  s_txh_on : bool;     (* cfg.IsEnable("TxHeight") *)
  s_minfee : Z;
  s_maxfee : Z;
  s_level : bool;
  s_maxrate : Z;
  s_maxtxnum : Z;
  s_persender : Z;
  s_cap : Z;           (* Mempool.PoolCacheSize: queue capacity; the delay cache holds half of it *)
  s_execcheck : bool;
  s_nonces : list (N * Z)
}.

Record hdr := mkH { h_height : Z; h_bt : Z; h_now : Z }.

(** Forks.IsFork *)
Definition is_fork (H h : Z) : bool := (h =? -1) || (H <=? h).

(** what the admission checks see at header [h] (all fork gates at height+1) *)
Definition view (sc : scfg) (h : hdr) : config :=
  let n := h_height h + 1 in
  mkCfg (s_synced sc) (s_para sc) (is_fork (f_strict sc) n) (is_fork (f_blockcheck sc) n)
        (s_txh_on sc && is_fork (f_txheight sc) n)
        (s_minfee sc) (s_maxfee sc) (s_level sc) (s_maxrate sc) (s_maxtxnum sc) (s_persender sc) (s_cap sc)
        (s_execcheck sc) (h_height h) (h_bt h) (h_now h) (s_nonces sc) (is_fork (f_parafork sc) n).

(** ** the delay cache: (transaction, EndDelayTime) in insertion order *)
Definition dcache := list (sub * Z).

Definition R_DNIL : N := 26.   (* ErrNilTransaction *)
Definition R_DOVER : N := 27.  (* ErrCacheOverFlow *)
Definition R_DPARAM : N := 28. (* ErrInvalidParam: the message does not carry a DelayTx *)

Definition dcap (sc : scfg) : Z := Z.quot (s_cap sc) 2.
Definition d_id (d : sub * Z) : N := t_id (s_outer (fst d)).

(** delayTxCache.addDelayTx *)
Definition dc_add (cap : Z) (dc : dcache) (s : sub) (e : Z) : N * dcache :=
  if cap <=? Z.of_nat (length dc) then (R_DOVER, dc)
  else if existsb (fun d => N.eqb (d_id d) (t_id (s_outer s))) dc then (R_DUP, dc)
  else (R_OK, dc ++ [(s, e)]).

Inductive dmsg :=
| DBad                      (* the message data is not a *types.DelayTx *)
| DNil (e : Z)              (* DelayTx without Tx *)
| DTx (s : sub) (e : Z).

(** mempool checkDelayTxBlocked (both delay entry points): the ungated blacklist check of the
    delayed transaction itself, then, when Transaction.GetTxGroup yields a group, of every member
    (first hit wins) *)
Fixpoint first_blocked (ms : list txf) : option pos :=
  match ms with
  | [] => None
  | t :: tl => match blocked_pos t with Some p => Some p | None => first_blocked tl end
  end.

Definition delay_blocked (s : sub) : option pos :=
  match blocked_pos (s_outer s) with
  | Some p => Some p
  | None => match s_shape s with Group ms _ => first_blocked ms | _ => None end
  end.

(** Mempool.eventAddDelayTx: checkDelayTxBlocked, then the cache *)
Definition delay_step (sc : scfg) (dc : dcache) (d : dmsg) : N * dcache :=
  match d with
  | DBad => (R_DPARAM, dc)
  | DNil _ => (R_DNIL, dc)
  | DTx s e =>
      match delay_blocked s with
      | Some p => (r_blocked p, dc)
      | None => dc_add (dcap sc) dc s e
      end
  end.

(** ** EventAddBlock *)
Record blk := mkB {
  b_height : Z;
  b_bt : Z;
  b_now : Z;                        (* the clock when the block is delivered *)
  b_txs : list N;                   (* hashes of the block's transactions *)
  b_commits : list (sub * Z * Z)    (* well-formed none/CommitDelayTx actions in block order:
                                       delayed transaction, RelativeDelayTime, RelativeDelayHeight *)
}.

Definition hdr_update (h : hdr) (b : blk) : hdr :=
  if (h_height h <? b_height b) || ((b_height b =? 0) && (h_height h =? 0))
  then mkH (b_height b) (b_bt b) (b_now b)
  else mkH (h_height h) (h_bt h) (b_now b).

(** RemoveTxsOfBlock, then removeExpired at the new header *)
Definition block_clean (c : config) (b : blk) (p : pool) : pool :=
  filter (fun e => negb (sweep_expired c e))
         (filter (fun e => negb (existsb (N.eqb (t_id e)) (b_txs b))) p).

Definition commit_end (b : blk) (rt rh : Z) : Z := if rt <=? 0 then rh + b_height b else rt + b_bt b.

(** Mempool.addDelayTx (errors of the cache are only logged) *)
Fixpoint add_commits (cap : Z) (b : blk) (dc : dcache) (cs : list (sub * Z * Z)) : dcache :=
  match cs with
  | [] => dc
  | (s, rt, rh) :: tl =>
      let dc' := match delay_blocked s with
                 | Some _ => dc
                 | None => snd (dc_add cap dc s (commit_end b rt rh))
                 end in
      add_commits cap b dc' tl
  end.

(** delayTxCache.delExpiredTxs(lastBlockTime, currBlockTime, currBlockHeight): block times
    lastBlockTime+1 .. currBlockTime in ascending order, then the key currBlockHeight *)
Definition in_time (lbt cbt e : Z) : bool := (lbt <? e) && (e <=? cbt).

Fixpoint ins_end (x : sub * Z) (l : dcache) : dcache :=
  match l with
  | [] => [x]
  | y :: tl => if snd x <? snd y then x :: l else y :: ins_end x tl
  end.
Definition sort_end (l : dcache) : dcache := fold_left (fun acc x => ins_end x acc) l [].

Definition due (lbt cbt h : Z) (d : sub * Z) : bool := in_time lbt cbt (snd d) || (snd d =? h).

Definition released (lbt cbt h : Z) (dc : dcache) : list sub :=
  map fst (sort_end (filter (fun d => in_time lbt cbt (snd d)) dc)
           ++ filter (fun d => (snd d =? h) && negb (in_time lbt cbt (snd d))) dc).

Definition kept (lbt cbt h : Z) (dc : dcache) : dcache := filter (fun d => negb (due lbt cbt h d)) dc.

(** one admission: the view, the pool before, the submission *)
Definition logT : Type := list (config * pool * sub).

(** pushDelayTxRoutine: QueueProtocol.SendTx one by one; a transaction to be forwarded goes to the
    main chain, every other one is an EventTx message to this pool *)
Fixpoint submit_all (c : config) (p : pool) (l : list sub) : pool * logT :=
  match l with
  | [] => (p, [])
  | s :: tl =>
      if s_forward s then submit_all c p tl
      else match pipeline c p (STx s) with
           | (r, p') =>
               match submit_all c p' tl with
               | (p'', lg) => (p'', if N.eqb r R_OK then (c, p, s) :: lg else lg)
               end
           end
  end.

Record state := mkSt { st_hdr : hdr; st_pool : pool; st_dc : dcache }.

Definition block_step (sc : scfg) (st : state) (b : blk) : state * logT :=
  let last := st_hdr st in
  let h' := hdr_update last b in
  let c := view sc h' in
  let p1 := block_clean c b (st_pool st) in
  let dc1 := add_commits (dcap sc) b (st_dc st) (b_commits b) in
  let rel := released (h_bt last) (b_bt b) (b_height b) dc1 in
  match submit_all c p1 rel with
  | (p2, lg) => (mkSt h' p2 (kept (h_bt last) (b_bt b) (b_height b) dc1), lg)
  end.

Inductive op :=
| OTx (m : submission)
| ODelay (d : dmsg)
| OBlock (b : blk).

(** reply class (0 for a block: EventAddBlock is not answered), next state, admissions *)
Definition hstep (sc : scfg) (st : state) (o : op) : N * state * logT :=
  match o with
  | OTx m =>
      let c := view sc (st_hdr st) in
      match pipeline c (st_pool st) m with
      | (r, p') =>
          (r, mkSt (st_hdr st) p' (st_dc st),
           match m with
           | STx s => if N.eqb r R_OK then [(c, st_pool st, s)] else []
           | SNil => []
           end)
      end
  | ODelay d =>
      match delay_step sc (st_dc st) d with
      | (r, dc') => (r, mkSt (st_hdr st) (st_pool st) dc', [])
      end
  | OBlock b =>
      match block_step sc st b with
      | (st', lg) => (0%N, st', lg)
      end
  end.

Fixpoint hrun (sc : scfg) (st : state) (ops : list op) : state * logT :=
  match ops with
  | [] => (st, [])
  | o :: tl =>
      match hstep sc st o with
      | (_, st', lg) =>
          match hrun sc st' tl with
          | (st'', lg') => (st'', lg ++ lg')
          end
      end
  end.

(** the submissions a history carries: EventTx messages, delayed transactions, block commits *)
Definition subs_of_op (o : op) : list sub :=
  match o with
  | OTx (STx s) => [s]
  | OTx SNil => []
  | ODelay (DTx s _) => [s]
  | ODelay _ => []
  | OBlock b => map (fun x => fst (fst x)) (b_commits b)
  end.
Definition subs_of (ops : list op) : list sub := flat_map subs_of_op ops.
