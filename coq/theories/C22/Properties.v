(** C22 — property theorems only.
    [pipeline c p m] is the model of one EventTx message against pool [p]
    (Model.v); [acceptable c p s] is the conjunction of the property text
    (Spec.v).  Guards (Proofs.v): [g_fwd] not forwarded to the main chain,
    [g_fee] minimum rate non-zero or tiered fee on or Fee >= 0, [g_hdr] no member
    Header parses as an empty group.  [cfg_ok]: MinTxFeeRate >= 0 and
    MaxTxFeeRate >= 0.  [facts_consistent] (Model.v): the facts given for a
    group's wrapper and first member respect what Hash() and the Signature
    message determine (equal hash: equal Nonce and Fee; equal Signature: equal
    sender and sign type); the check evaluates it on every generated case.
    The former guard "the wrapper is the first transaction" is gone: the
    repaired mempool (isGroupHead) enforces it.
    [acceptable] now also holds: no involved account listed at any of the five
    blacklist positions ([listed]: sender, recipient, real recipient, evm contract
    address, evm 20-byte Para), and the carried transactions belong to one chain
    ([cl_para]: ForkTxGroupPara).  Histories (ModelH.v): [hrun sc st ops] runs
    EventTx / EventAddDelayTx / EventAddBlock messages; [view sc h] is the
    configuration the admission checks see at header [h] (height, block time,
    clock and the fork gates re-evaluated); the second component of [hrun] lists
    every admission (view, pool before, submission). *)
From Coq Require Import List ZArith NArith Bool.
From C33 Require Import C22.Model C22.Spec C22.Proofs C22.ProofsRefute C22.ModelH C22.ProofsH C22.ProofsH2
                        C22.ExamplesH C22.Bridge31.
From C33 Require C31.Model.
Import ListNotations.
Open Scope Z_scope.

Theorem C22_accepted_implies_acceptable_partial : forall c p s p',
  cfg_ok c -> facts_consistent s = true -> pipeline c p (STx s) = (R_OK, p') ->
  g_fwd s && g_fee c s && g_hdr s = true ->
  acceptable c p s = true.
Proof. exact accepted_partial. Qed.
Print Assumptions C22_accepted_implies_acceptable_partial.

Theorem C22_group_members_checked : forall c p s ms ok p',
  pipeline c p (STx s) = (R_OK, p') -> s_forward s = false -> s_shape s = Group ms ok ->
  ok = true /\ 2 <= Z.of_nat (length ms) /\ cl_para c ms = true /\
  forall t, In t ms ->
    t_sig_ok t = true /\ t_to_valid t = true /\ t_blocked t = false /\ t_on_chain t = false
    /\ (c_strict_chain c = true -> t_chain_ok t = true)
    /\ count_sender p (t_sender t) < c_persender c
    /\ (t_hdr_empty t = false -> expired_next c t = false).
Proof. exact group_members_checked. Qed.
Print Assumptions C22_group_members_checked.

Theorem C22_rejected_leaves_pool_unchanged : forall c p m r p',
  pipeline c p m = (r, p') -> r <> R_OK -> p' = p.
Proof. exact rejected_unchanged. Qed.
Print Assumptions C22_rejected_leaves_pool_unchanged.

Theorem C22_accepted_appends_one : forall c p m p',
  pipeline c p m = (R_OK, p') ->
  exists s, m = STx s /\ p' = p ++ [s_outer s] /\ c_synced c = true
            /\ count_sender p (t_sender (s_outer s)) < c_persender c /\ pool_size p < c_cap c.
Proof. exact accepted_appends. Qed.
Print Assumptions C22_accepted_appends_one.

(** finding 2 repaired: the wrapper of an accepted group is its first transaction (same hash,
    same Signature message), hence the pool entry [same_entry] of the property ... *)
Theorem C22_group_wrapper_is_head : forall c p s ms ok p',
  pipeline c p (STx s) = (R_OK, p') -> s_forward s = false -> s_shape s = Group ms ok ->
  exists h tl, ms = h :: tl /\ t_id (s_outer s) = t_id h /\ t_sigid (s_outer s) = t_sigid h
               /\ (facts_consistent s = true -> same_entry (s_outer s) h = true).
Proof. exact group_wrapper_is_head. Qed.
Print Assumptions C22_group_wrapper_is_head.

(** ... and any other wrapper is refused without touching the pool *)
Theorem C22_foreign_wrapper_rejected : forall c p s h tl ok,
  c_synced c = true -> s_forward s = false -> s_shape s = Group (h :: tl) ok ->
  is_group_head (s_outer s) h = false ->
  exists r, pipeline c p (STx s) = (r, p) /\ r <> R_OK.
Proof. exact foreign_wrapper_rejected. Qed.
Print Assumptions C22_foreign_wrapper_rejected.

(** the former refutation witness (wrapper with another account's public key, per-sender limit 1):
    refused, the other account's own transaction is accepted, the honest wrapper is accepted *)
Theorem C22_wrapper_witness_rejected :
  let c := wcfg false 100000 1 in
  pipeline c [] (STx w_wrap) = (R_MALFORMED, [])
  /\ pipeline c [] (STx (mkSub (wtx 5 1 100000) Plain false)) = (R_OK, [wtx 5 1 100000])
  /\ pipeline c [] (STx w_wrap_honest) = (R_OK, [s_outer w_wrap_honest])
  /\ facts_consistent w_wrap = true /\ facts_consistent w_wrap_honest = true
  /\ acceptable c [] w_wrap = false /\ acceptable c [] w_wrap_honest = true.
Proof. exact wrapper_witness_rejected. Qed.
Print Assumptions C22_wrapper_witness_rejected.

(** the statement at full strength ([C22_accepted_implies_acceptable_full], ProofsRefute.v:
    no guard), and why each guard is there *)
Theorem C22_accepted_implies_acceptable_refuted : ~ C22_accepted_implies_acceptable_full.
Proof. exact refuted_full. Qed.
Print Assumptions C22_accepted_implies_acceptable_refuted.

Theorem C22_refuted_forward :
  ~ (forall c p s p', cfg_ok c -> facts_consistent s = true -> pipeline c p (STx s) = (R_OK, p') ->
       g_fee c s && g_hdr s = true -> acceptable c p s = true).
Proof. exact refuted_forward. Qed.
Print Assumptions C22_refuted_forward.

Theorem C22_refuted_negfee :
  ~ (forall c p s p', cfg_ok c -> facts_consistent s = true -> pipeline c p (STx s) = (R_OK, p') ->
       g_fwd s && g_hdr s = true -> acceptable c p s = true).
Proof. exact refuted_negfee. Qed.
Print Assumptions C22_refuted_negfee.

Theorem C22_refuted_hdrempty :
  ~ (forall c p s p', cfg_ok c -> facts_consistent s = true -> pipeline c p (STx s) = (R_OK, p') ->
       g_fwd s && g_fee c s = true -> acceptable c p s = true).
Proof. exact refuted_hdrempty. Qed.
Print Assumptions C22_refuted_hdrempty.

Theorem C22_guards_satisfiable :
  exists c p s p', cfg_ok c /\ facts_consistent s = true /\ p <> [] /\ pipeline c p (STx s) = (R_OK, p')
                   /\ g_fwd s && g_fee c s && g_hdr s = true
                   /\ acceptable c p s = true /\ length (members s) = 3%nat.
Proof. exact guards_satisfiable. Qed.
Print Assumptions C22_guards_satisfiable.

(** ** blacklist positions: [blocked_pos] on the facts of a transaction is C31's [core] on the
    transaction itself ([bl_agrees]: each fact is the address-level test of C31's model), and such
    facts satisfy the consistency the main theorem assumes *)
Theorem C22_blacklist_positions_are_C31_core : forall cks set t u,
  bl_agrees cks set t u -> blocked_pos t = C31.Model.core cks set u /\ tx_consistent t = true.
Proof. exact positions_are_core. Qed.
Print Assumptions C22_blacklist_positions_are_C31_core.

(** ** histories in which the header moves and transactions are delayed *)

(** every pool entry of a history from the empty mempool went through the admission pipeline at
    some header [h] (fork gates, height and times of that moment), as an EventTx message or as a
    delayed transaction (EventAddDelayTx / a block's CommitDelayTx) re-submitted by a block; under
    the guards it was acceptable there *)
Theorem C22_history_entries_via_pipeline_partial : forall sc h0 ops st' lg,
  hrun sc (mkSt h0 [] []) ops = (st', lg) ->
  forall e, In e (st_pool st') ->
  exists h p s, e = s_outer s /\ In s (subs_of ops)
    /\ pipeline (view sc h) p (STx s) = (R_OK, p ++ [e])
    /\ (cfg_ok (view sc h) -> facts_consistent s = true ->
        g_fwd s && g_fee (view sc h) s && g_hdr s = true -> acceptable (view sc h) p s = true).
Proof. exact history_entries_via_pipeline. Qed.
Print Assumptions C22_history_entries_via_pipeline_partial.

(** no pool entry is expired for the next block of the CURRENT header, whatever blocks arrived in
    between (the sweep of EventAddBlock and the pipeline use the same rule at the same header);
    guard [good] = not forwarded, no member Header parsing as an empty group, consistent facts *)
Theorem C22_history_pool_unexpired_partial : forall sc h0 ops st' lg,
  hrun sc (mkSt h0 [] []) ops = (st', lg) ->
  forallb good (subs_of ops) = true ->
  forall e, In e (st_pool st') -> sweep_expired (view sc (st_hdr st')) e = false.
Proof. exact history_unexpired. Qed.
Print Assumptions C22_history_pool_unexpired_partial.

(** without the guard (facts still consistent) it fails: finding 4 leaves an expired group in the pool *)
Theorem C22_history_pool_unexpired_refuted : ~ history_unexpired_full.
Proof. exact history_unexpired_refuted. Qed.
Print Assumptions C22_history_pool_unexpired_refuted.

(** the delay cache never holds a transaction that hits the blacklist, and holds only delayed
    transactions the history carried *)
Theorem C22_delay_cache_never_blocked : forall sc h0 ops st' lg,
  hrun sc (mkSt h0 [] []) ops = (st', lg) ->
  forall d, In d (st_dc st') -> t_blocked (s_outer (fst d)) = false /\ In (fst d) (subs_of ops).
Proof. exact history_dc_clean. Qed.
Print Assumptions C22_delay_cache_never_blocked.

(** non-vacuity: the verdict on one transaction changes both ways when the header moves ... *)
Theorem C22_header_moves_verdicts :
  hobs xsc (mkSt (xh 110) [] []) [OTx (STx x_window); OBlock (xblock 111); OTx (STx x_window)]
    = [(R_EXPIRED, []); (0%N, []); (R_OK, [1%N])]
  /\ hobs xsc (mkSt (xh 111) [] []) [OTx (STx x_height); OBlock (xblock 100); OBlock (xblock 112); OTx (STx x_height)]
    = [(R_OK, [2%N]); (0%N, [2%N]); (0%N, []); (R_EXPIRED, [])]
  /\ acceptable (view xsc (xh 110)) [] x_window = false /\ acceptable (view xsc (xh 111)) [] x_window = true
  /\ acceptable (view xsc (xh 111)) [] x_height = true /\ acceptable (view xsc (xh 112)) [] x_height = false.
Proof. exact header_moves_verdicts. Qed.
Print Assumptions C22_header_moves_verdicts.

(** ... a fork gate (ForkTxGroupPara at 120) starts to refuse mixed groups; a title next to an
    execer with the bare "user.p." prefix passes ... *)
Theorem C22_fork_gate_moves_verdict :
  hobs xsc (mkSt (xh 118) [] []) [OTx (STx (x_mixed 3)); OBlock (xblock 119); OTx (STx (x_mixed 5));
                                  OTx (STx x_two_titles); OTx (STx x_title_notitle)]
    = [(R_OK, [3%N]); (0%N, [3%N]); (R_PARAMIX, [3%N]); (R_PARACOUNT, [3%N]); (R_OK, [3%N; 9%N])]
  /\ facts_consistent (x_mixed 3) = true
  /\ acceptable (view xsc (xh 118)) [] (x_mixed 3) = true /\ acceptable (view xsc (xh 119)) [] (x_mixed 5) = false
  /\ acceptable (view xsc (xh 119)) [] x_two_titles = false
  /\ acceptable (view xsc (xh 119)) [] x_title_notitle = true.
Proof. exact fork_gate_moves_verdict. Qed.
Print Assumptions C22_fork_gate_moves_verdict.

(** ... and delayed transactions enter when due, in order of their time, through the pipeline *)
Theorem C22_delayed_enter_through_pipeline :
  hobs xsc (mkSt (xh 111) [] [])
       [ODelay (DTx (xtx 11 0) 1699999985); ODelay (DTx (xtx 12 0) 1699999982); ODelay (DTx (xtx 13 0) 113);
        ODelay (DTx x_blocked_to 1699999983); ODelay (DTx (xtx 11 0) 5); ODelay (DNil 5); ODelay DBad;
        ODelay (DTx x_height 1699999990);
        ODelay (DTx (xtx 14 0) 1699999999);
        OBlock (mkB 112 1699999985 1700000001 [] []);
        OBlock (mkB 113 1699999990 1700000002 [] [(xtx 15 0, 0, 0); (xtx 16 0, 5, 0)]);
        OBlock (mkB 114 1699999995 1700000003 [] [])]
    = [(R_OK, []); (R_OK, []); (R_OK, []); (R_BL_TO, []); (R_DUP, []); (R_DNIL, []); (R_DPARAM, []);
       (R_OK, []); (R_DOVER, []);
       (0%N, [12%N; 11%N]);
       (0%N, [12%N; 11%N; 13%N; 15%N]);
       (0%N, [12%N; 11%N; 13%N; 15%N; 16%N])].
Proof. exact delayed_enter_through_pipeline. Qed.
Print Assumptions C22_delayed_enter_through_pipeline.

Theorem C22_history_guard_satisfiable :
  forallb good (subs_of [OTx (STx x_window); OBlock (xblock 111); OTx (STx x_window); OTx (STx (x_mixed 3));
                         ODelay (DTx (xtx 11 0) 1699999985);
                         OBlock (mkB 113 1699999990 1700000002 [] [(xtx 15 0, 0, 0)])]) = true.
Proof. exact histories_good. Qed.
Print Assumptions C22_history_guard_satisfiable.
