(** C22 — property theorems only.
    [pipeline c p m] is the model of one EventTx message against pool [p]
    (Model.v); [acceptable c p s] is the conjunction of the property text
    (Spec.v).  Guards (Proofs.v): [g_fwd] not forwarded to the main chain,
    [g_fee] minimum rate non-zero or tiered fee on or Fee >= 0, [g_hdr] no member
    Header parses as an empty group.  [cfg_ok]: MinTxFeeRate >= 0 and
    MaxTxFeeRate >= 0.  [facts_consistent] (Model.v): the facts given for a
    group's wrapper and first member respect what Hash() and the Signature
    message determine (equal hash: equal Nonce and Fee; equal Signature: equal
    sender and sign type); the check evaluates it on every generated case.
    The former guard "the wrapper is the first transaction" is gone: the
    repaired mempool (isGroupHead) enforces it. *)
From Coq Require Import List ZArith NArith Bool.
From C33 Require Import C22.Model C22.Spec C22.Proofs C22.ProofsRefute.
Import ListNotations.
Open Scope Z_scope.

Theorem C22_accepted_implies_acceptable_partial : forall c p s p',
  cfg_ok c -> facts_consistent s = true -> pipeline c p (STx s) = (R_OK, p') ->
  g_fwd s && g_fee c s && g_hdr s = true ->
  acceptable c p s = true.
Proof. exact accepted_partial. Qed.
Print Assumptions C22_accepted_implies_acceptable_partial.

Theorem C22_group_members_checked : forall c p s ms ok p',
  pipeline c p (STx s) = (R_OK, p') -> s_forward s = false -> s_shape s = Group ms ok ->
  ok = true /\ 2 <= Z.of_nat (length ms) /\
  forall t, In t ms ->
    t_sig_ok t = true /\ t_to_valid t = true /\ t_blocked t = false /\ t_on_chain t = false
    /\ (c_strict_chain c = true -> t_chain_ok t = true)
    /\ count_sender p (t_sender t) < c_persender c
    /\ (t_hdr_empty t = false -> expired_next c t = false).
Proof. exact group_members_checked. Qed.
Print Assumptions C22_group_members_checked.

Theorem C22_rejected_leaves_pool_unchanged : forall c p m r p',
  pipeline c p m = (r, p') -> r <> R_OK -> p' = p.
Proof. exact rejected_unchanged. Qed.
Print Assumptions C22_rejected_leaves_pool_unchanged.

Theorem C22_accepted_appends_one : forall c p m p',
  pipeline c p m = (R_OK, p') ->
  exists s, m = STx s /\ p' = p ++ [s_outer s] /\ c_synced c = true
            /\ count_sender p (t_sender (s_outer s)) < c_persender c /\ pool_size p < c_cap c.
Proof. exact accepted_appends. Qed.
Print Assumptions C22_accepted_appends_one.

(** finding 2 repaired: the wrapper of an accepted group is its first transaction (same hash,
    same Signature message), hence the pool entry [same_entry] of the property ... *)
Theorem C22_group_wrapper_is_head : forall c p s ms ok p',
  pipeline c p (STx s) = (R_OK, p') -> s_forward s = false -> s_shape s = Group ms ok ->
  exists h tl, ms = h :: tl /\ t_id (s_outer s) = t_id h /\ t_sigid (s_outer s) = t_sigid h
               /\ (facts_consistent s = true -> same_entry (s_outer s) h = true).
Proof. exact group_wrapper_is_head. Qed.
Print Assumptions C22_group_wrapper_is_head.

(** ... and any other wrapper is refused without touching the pool *)
Theorem C22_foreign_wrapper_rejected : forall c p s h tl ok,
  c_synced c = true -> s_forward s = false -> s_shape s = Group (h :: tl) ok ->
  is_group_head (s_outer s) h = false ->
  exists r, pipeline c p (STx s) = (r, p) /\ r <> R_OK.
Proof. exact foreign_wrapper_rejected. Qed.
Print Assumptions C22_foreign_wrapper_rejected.

(** the former refutation witness (wrapper with another account's public key, per-sender limit 1):
    refused, the other account's own transaction is accepted, the honest wrapper is accepted *)
Theorem C22_wrapper_witness_rejected :
  let c := wcfg false 100000 1 in
  pipeline c [] (STx w_wrap) = (R_MALFORMED, [])
  /\ pipeline c [] (STx (mkSub (wtx 5 1 100000) Plain false)) = (R_OK, [wtx 5 1 100000])
  /\ pipeline c [] (STx w_wrap_honest) = (R_OK, [s_outer w_wrap_honest])
  /\ facts_consistent w_wrap = true /\ facts_consistent w_wrap_honest = true
  /\ acceptable c [] w_wrap = false /\ acceptable c [] w_wrap_honest = true.
Proof. exact wrapper_witness_rejected. Qed.
Print Assumptions C22_wrapper_witness_rejected.

(** the statement at full strength ([C22_accepted_implies_acceptable_full], ProofsRefute.v:
    no guard), and why each guard is there *)
Theorem C22_accepted_implies_acceptable_refuted : ~ C22_accepted_implies_acceptable_full.
Proof. exact refuted_full. Qed.
Print Assumptions C22_accepted_implies_acceptable_refuted.

Theorem C22_refuted_forward :
  ~ (forall c p s p', cfg_ok c -> facts_consistent s = true -> pipeline c p (STx s) = (R_OK, p') ->
       g_fee c s && g_hdr s = true -> acceptable c p s = true).
Proof. exact refuted_forward. Qed.
Print Assumptions C22_refuted_forward.

Theorem C22_refuted_negfee :
  ~ (forall c p s p', cfg_ok c -> facts_consistent s = true -> pipeline c p (STx s) = (R_OK, p') ->
       g_fwd s && g_hdr s = true -> acceptable c p s = true).
Proof. exact refuted_negfee. Qed.
Print Assumptions C22_refuted_negfee.

Theorem C22_refuted_hdrempty :
  ~ (forall c p s p', cfg_ok c -> facts_consistent s = true -> pipeline c p (STx s) = (R_OK, p') ->
       g_fwd s && g_fee c s = true -> acceptable c p s = true).
Proof. exact refuted_hdrempty. Qed.
Print Assumptions C22_refuted_hdrempty.

Theorem C22_guards_satisfiable :
  exists c p s p', cfg_ok c /\ facts_consistent s = true /\ p <> [] /\ pipeline c p (STx s) = (R_OK, p')
                   /\ g_fwd s && g_fee c s && g_hdr s = true
                   /\ acceptable c p s = true /\ length (members s) = 3%nat.
Proof. exact guards_satisfiable. Qed.
Print Assumptions C22_guards_satisfiable.
