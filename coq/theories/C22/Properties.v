(** C22 — property theorems only (stub while the correspondence is being set up). *)
From Coq Require Import List ZArith NArith Bool.
From C33 Require Import C22.Model C22.Spec.
Import ListNotations.
Open Scope Z_scope.

Theorem C22_stub : forall c p, pipeline c p SNil = (if c_synced c then R_EMPTY else R_NOTSYNC, p).
Proof. intros c p. unfold pipeline. destruct (c_synced c); reflexivity. Qed.
Print Assumptions C22_stub.
