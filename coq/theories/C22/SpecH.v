(** C22 — the property over a history with blocks and delayed transactions, as
    an executable oracle on the implementation's observables.  The oracle keeps
    the header (a block moves it iff it is higher), the facts of the entries
    the implementation reported as pooled, and the delayed submissions it has
    been given.  An EventTx may add the submitted transaction iff it is
    acceptable at the current header; an EventAddDelayTx adds nothing; an
    EventAddBlock may remove anything, and every entry it adds must be a
    delayed submission that is acceptable at the new header. *)
From Coq Require Import List ZArith NArith Bool.
From C33 Require Import Lib.Harness C22.Model C22.Spec C22.ModelH.
Import ListNotations.
Open Scope Z_scope.

Record sstate := mkSS { ss_hdr : hdr; ss_pool : pool; ss_reg : list sub }.

Definition mem_n (x : N) (l : list N) : bool := existsb (N.eqb x) l.

Definition find_reg (reg : list sub) (id : N) : option sub :=
  find (fun s => N.eqb (t_id (s_outer s)) id) reg.

Fixpoint find_all (reg : list sub) (ids : list N) : option (list sub) :=
  match ids with
  | [] => Some []
  | i :: tl =>
      match find_reg reg i, find_all reg tl with
      | Some s, Some r => Some (s :: r)
      | _, _ => None
      end
  end.

Definition without (id : N) (p : pool) : pool := filter (fun e => negb (N.eqb (t_id e) id)) p.

(** the entries a block step added, with the pools they are judged against: the fee tier of the
    surviving entries (a lower bound of the pool each one met), every other pool-dependent clause
    against all other entries of the resulting pool (an upper bound) *)
Definition block_news (ss : sstate) (b : blk) (present : list N) : option (pool * list sub) :=
  let reg' := ss_reg ss ++ map (fun x => fst (fst x)) (b_commits b) in
  let surv := filter (fun e => mem_n (t_id e) present) (ss_pool ss) in
  let newids := filter (fun i => negb (mem_n i (map t_id (ss_pool ss)))) present in
  match find_all reg' newids with
  | Some news => Some (surv, news)
  | None => None
  end.

Definition block_ok (sc : scfg) (ss : sstate) (b : blk) (present : list N) : bool :=
  let c := view sc (hdr_update (ss_hdr ss) b) in
  match block_news ss b present with
  | Some (surv, news) =>
      let final := surv ++ map s_outer news in
      forallb (fun s => acceptable_at c surv (without (t_id (s_outer s)) final) s) news
  | None => false
  end.

Definition block_next (ss : sstate) (b : blk) (present : list N) : sstate :=
  let reg' := ss_reg ss ++ map (fun x => fst (fst x)) (b_commits b) in
  match block_news ss b present with
  | Some (surv, news) => mkSS (hdr_update (ss_hdr ss) b) (surv ++ map s_outer news) reg'
  | None => mkSS (hdr_update (ss_hdr ss) b) (filter (fun e => mem_n (t_id e) present) (ss_pool ss)) reg'
  end.

(** one step: the oracle's verdict and its next state ([present]: ids in the pool afterwards, ascending) *)
Definition hstep_ok (sc : scfg) (ss : sstate) (o : op) (reply : N) (present : list N) : bool * sstate :=
  let before := sort_n (map t_id (ss_pool ss)) in
  match o with
  | OTx m =>
      (step_ok (view sc (ss_hdr ss)) (ss_pool ss) m reply before present,
       if N.eqb reply R_OK
       then match m with STx s => mkSS (ss_hdr ss) (ss_pool ss ++ [s_outer s]) (ss_reg ss) | SNil => ss end
       else ss)
  | ODelay d =>
      (list_eqb N.eqb present before,
       match d with
       | DTx s _ => if N.eqb reply R_OK then mkSS (ss_hdr ss) (ss_pool ss) (ss_reg ss ++ [s]) else ss
       | _ => ss
       end)
  | OBlock b => (block_ok sc ss b present, block_next ss b present)
  end.
