(** C22 — concrete histories (non-vacuity of the history model): a moving header
    turns the verdict on the same transaction both ways, the expiry sweep
    removes what the new header no longer allows, a fork gate
    (ForkTxGroupPara) starts to refuse a group that mixes a parachain
    transaction with a main-chain one, and delayed transactions enter through
    the pipeline when their time has come. *)
From Coq Require Import List ZArith NArith Bool.
From C33 Require Import Lib.Harness C22.Model C22.Spec C22.Proofs C22.ProofsRefute C22.ModelH C22.ProofsH2.
Import ListNotations.
Open Scope Z_scope.

(** replies and pool ids after every message *)
Fixpoint hobs (sc : scfg) (st : state) (ops : list op) : list (N * list N) :=
  match ops with
  | [] => []
  | o :: tl => match hstep sc st o with
               | (r, st', _) => (r, map t_id (st_pool st')) :: hobs sc st' tl
               end
  end.

(** main chain; ForkTxGroupPara at height 120, every other fork active from the start *)
Definition xsc : scfg :=
  mkS true false 0 0 0 120 true 100000 1000000000 false 10000000 10000 8 8 true [].
Definition xh (height : Z) : hdr := mkH height 1699999980 1700000000.
Definition xblock (height : Z) : blk := mkB height 1699999990 1700000001 [] [].

Definition xtx (id : N) (expire : Z) : sub :=
  mkSub (mkT id 0 true true true false false expire false 100000 130 true false 7 true (100 + id)) Plain false.

(** Expire = TxHeightFlag + 312: may be packed at heights 112 .. 912 *)
Definition x_window : sub := xtx 1 (TxHeightFlag + 312).
(** Expire = height 113 *)
Definition x_height : sub := xtx 2 113.

Lemma header_moves_verdicts :
  (* refused at header 110 (next block 111), let in one block later *)
  hobs xsc (mkSt (xh 110) [] []) [OTx (STx x_window); OBlock (xblock 111); OTx (STx x_window)]
    = [(R_EXPIRED, []); (0%N, []); (R_OK, [1%N])]
  (* let in at header 111; the block at 112 sweeps it out and it is refused from then on;
     a block that is not higher does not move the header *)
  /\ hobs xsc (mkSt (xh 111) [] []) [OTx (STx x_height); OBlock (xblock 100); OBlock (xblock 112); OTx (STx x_height)]
    = [(R_OK, [2%N]); (0%N, [2%N]); (0%N, []); (R_EXPIRED, [])]
  /\ acceptable (view xsc (xh 110)) [] x_window = false /\ acceptable (view xsc (xh 111)) [] x_window = true
  /\ acceptable (view xsc (xh 111)) [] x_height = true /\ acceptable (view xsc (xh 112)) [] x_height = false.
Proof. repeat split; vm_compute; reflexivity. Qed.

(** a group of a parachain transaction (title 2) and a main-chain one *)
Definition x_mixed (id : N) : sub :=
  let h := mkTx id 0 true true true 0 false 0 false 200000 140 true false 3 true (100 + id) 2 None in
  let m := mkTx (id + 1) 1 true true true 0 false 0 false 0 140 true false 4 true (101 + id) 0 None in
  mkSub (wg (mkTx id 0 true true true 0 false 0 false 200000 420 true false 3 true (100 + id) 2 None) [0; 0])
        (Group [h; m] true) false.
(** two parachain titles *)
Definition x_two_titles : sub :=
  let h := mkTx 7 0 true true true 0 false 0 false 200000 140 true false 3 true 107 2 None in
  let m := mkTx 8 1 true true true 0 false 0 false 0 140 true false 4 true 108 3 None in
  mkSub (wg h [0; 0]) (Group [h; m] true) false.
(** one title, the other execer has the prefix but no title *)
Definition x_title_notitle : sub :=
  let h := mkTx 9 0 true true true 0 false 0 false 200000 140 true false 3 true 109 2 None in
  let m := mkTx 10 1 true true true 0 false 0 false 0 140 true false 4 true 110 1 None in
  mkSub (wg h [0; 0]) (Group [h; m] true) false.

Lemma fork_gate_moves_verdict :
  hobs xsc (mkSt (xh 118) [] []) [OTx (STx (x_mixed 3)); OBlock (xblock 119); OTx (STx (x_mixed 5));
                                  OTx (STx x_two_titles); OTx (STx x_title_notitle)]
    = [(R_OK, [3%N]); (0%N, [3%N]); (R_PARAMIX, [3%N]); (R_PARACOUNT, [3%N]); (R_OK, [3%N; 9%N])]
  /\ facts_consistent (x_mixed 3) = true
  /\ acceptable (view xsc (xh 118)) [] (x_mixed 3) = true /\ acceptable (view xsc (xh 119)) [] (x_mixed 5) = false
  /\ acceptable (view xsc (xh 119)) [] x_two_titles = false
  /\ acceptable (view xsc (xh 119)) [] x_title_notitle = true.
Proof. repeat split; vm_compute; reflexivity. Qed.

(** delayed transactions: block times 1699999981 .. are released in order of their time, then the
    entry keyed by the block height; a blacklisted recipient is refused at the door; a delayed
    transaction that has expired by then is refused by the pipeline; the cache holds 4 (half of 8) *)
Definition x_blocked_to : sub :=
  mkSub (mkT 20 0 true true true true false 0 false 100000 130 true false 7 true 120) Plain false.

Lemma delayed_enter_through_pipeline :
  hobs xsc (mkSt (xh 111) [] [])
       [ODelay (DTx (xtx 11 0) 1699999985); ODelay (DTx (xtx 12 0) 1699999982); ODelay (DTx (xtx 13 0) 113);
        ODelay (DTx x_blocked_to 1699999983); ODelay (DTx (xtx 11 0) 5); ODelay (DNil 5); ODelay DBad;
        ODelay (DTx x_height 1699999990);
        ODelay (DTx (xtx 14 0) 1699999999);
        OBlock (mkB 112 1699999985 1700000001 [] []);
        OBlock (mkB 113 1699999990 1700000002 [] [(xtx 15 0, 0, 0); (xtx 16 0, 5, 0)]);
        OBlock (mkB 114 1699999995 1700000003 [] [])]
    = [(R_OK, []); (R_OK, []); (R_OK, []); (R_BL_TO, []); (R_DUP, []); (R_DNIL, []); (R_DPARAM, []);
       (R_OK, []); (R_DOVER, []);
       (0%N, [12%N; 11%N]);
       (0%N, [12%N; 11%N; 13%N; 15%N]);
       (0%N, [12%N; 11%N; 13%N; 15%N; 16%N])].
Proof. vm_compute. reflexivity. Qed.

(** the guarded history theorems are not vacuous: these histories satisfy the guard *)
Lemma histories_good :
  forallb good (subs_of [OTx (STx x_window); OBlock (xblock 111); OTx (STx x_window); OTx (STx (x_mixed 3));
                         ODelay (DTx (xtx 11 0) 1699999985);
                         OBlock (mkB 113 1699999990 1700000002 [] [(xtx 15 0, 0, 0)])]) = true.
Proof. vm_compute. reflexivity. Qed.
