(** C22 — histories, second part: no pool entry is expired for the next block
    whatever the header does (guards: not forwarded, no member Header that
    parses as an empty group), refutation without the guards, and the
    concrete histories in which a moving header changes the verdict. *)
From Coq Require Import List ZArith NArith Bool Lia.
From C33 Require Import Lib.Harness C22.Model C22.Spec C22.Proofs C22.ProofsRefute C22.ModelH C22.ProofsH.
Import ListNotations.
Open Scope Z_scope.

Lemma list_eq_z_eq : forall a b, list_eq_z a b = true -> a = b.
Proof.
  induction a as [|x a IH]; intros [|y b] H; simpl in H; try discriminate; [reflexivity|].
  apply andb_true_iff in H as [H1 H2]. apply Z.eqb_eq in H1. rewrite H1, (IH b H2). reflexivity.
Qed.

Definition good (s : sub) : bool := negb (s_forward s) && g_hdr s && facts_consistent s.

Lemma good_inv : forall s, good s = true -> s_forward s = false /\ g_hdr s = true /\ facts_consistent s = true.
Proof.
  intros s H. unfold good in H. apply andb_true_iff in H as [H H3]. apply andb_true_iff in H as [H1 H2].
  apply negb_true_iff in H1. repeat split; assumption.
Qed.

(** an accepted submission is not expired for the next block, as the sweep of pool entries reads it *)
Lemma accepted_unexpired : forall c p s p', good s = true ->
  pipeline c p (STx s) = (R_OK, p') -> sweep_expired c (s_outer s) = false.
Proof.
  intros c p s p' Hg H. apply good_inv in Hg as (Hf & Hh & Hfc).
  apply pipeline_ok_inv in H as (_ & Ht & Hs & _).
  destruct (s_shape s) as [| |ms ok] eqn:Hsh.
  - (* plain *)
    unfold facts_consistent in Hfc. rewrite Hsh in Hfc. apply andb_true_iff in Hfc as [_ Hge].
    unfold sweep_expired. destruct (t_gexp (s_outer s)); [discriminate|].
    unfold check_txs in Ht. rewrite Hf in Ht. unfold check_tx in Ht. rewrite Hsh in Ht.
    destruct (negb (N.eqb (check_one c (s_outer s) (c_minfee c)) R_OK)) eqn:E1; [rewrite Ht in E1; discriminate|].
    destruct (negb (N.eqb (if c_level c then check_level c p s else R_OK) R_OK)) eqn:E2; [rewrite Ht in E2; discriminate|].
    apply member_ok in Ht as (_ & _ & _ & Hex). unfold expired_chk in Hex. simpl in Hex.
    apply orb_false_iff in Hex as [Hex _]. exact Hex.
  - unfold check_sign in Hs. rewrite Hsh in Hs. discriminate.
  - destruct (fc_group _ _ _ Hsh Hfc) as (_ & _ & (vs & Hv & Hvs)).
    apply list_eq_z_eq in Hvs. subst vs.
    destruct (check_txs_group_inv _ _ _ _ _ Hsh Hf Ht) as (_ & _ & _ & Hm).
    pose proof (first_err_ok _ _ _ Hm) as Hall.
    unfold g_hdr in Hh. rewrite Hsh in Hh. rewrite forallb_forall in Hh.
    unfold sweep_expired. rewrite Hv.
    destruct (existsb (is_expire_v c) (map t_expire ms)) eqn:E; [|reflexivity].
    apply existsb_exists in E as (v & Hv1 & Hv2). apply in_map_iff in Hv1 as (t & <- & Hin).
    destruct (member_ok _ _ _ _ (Hall t Hin)) as (_ & _ & _ & Hex).
    specialize (Hh t Hin). apply negb_true_iff in Hh.
    unfold expired_chk in Hex. rewrite Hh in Hex. simpl in Hex. apply orb_false_iff in Hex as [Hex _].
    unfold is_expire in Hex. congruence.
Qed.

Definition pool_unexpired (sc : scfg) (st : state) : Prop :=
  forall e, In e (st_pool st) -> sweep_expired (view sc (st_hdr st)) e = false.

Definition dc_good (st : state) : Prop := forall s, In s (map fst (st_dc st)) -> good s = true.

Lemma hstep_unexpired : forall sc st o r st' lg, hstep sc st o = (r, st', lg) ->
  (forall s, In s (subs_of_op o) -> good s = true) -> dc_good st -> pool_unexpired sc st ->
  pool_unexpired sc st' /\ dc_good st'.
Proof.
  intros sc st o r st' lg H Hops Hdc Hinv.
  assert (DG : dc_good st').
  { destruct (hstep_sound _ _ _ _ _ _ H) as (_ & _ & D). intros s Hs.
    apply in_map_iff in Hs as (d & <- & Hd). apply D in Hd as [Hd|[Hd _]].
    - apply Hdc. apply in_map. exact Hd.
    - apply Hops. exact Hd. }
  split; [|exact DG]. clear DG.
  destruct o as [m|dm|b]; simpl in H.
  - destruct (pipeline (view sc (st_hdr st)) (st_pool st) m) as [r1 p1] eqn:P.
    inversion H; subst r st' lg. clear H. unfold pool_unexpired. simpl.
    destruct (pipeline_cases _ _ _ _ _ P) as [[_ ->]|[-> (s & -> & ->)]]; [exact Hinv|].
    intros e He. apply in_app_or in He as [He|[<-|[]]]; [apply Hinv; exact He|].
    apply (accepted_unexpired _ _ _ _ (Hops s (or_introl eq_refl)) P).
  - destruct (delay_step sc (st_dc st) dm) as [r1 dc1]. inversion H; subst r st' lg. exact Hinv.
  - destruct (block_step sc st b) as [st1 lg1] eqn:B. inversion H; subst r st' lg. clear H.
    unfold block_step in B.
    destruct (submit_all _ _ _) as [p2 lg2] eqn:S in B. inversion B; subst st1 lg1. clear B.
    unfold pool_unexpired. simpl.
    destruct (submit_all_sound _ _ _ _ _ S) as [A L].
    intros e He. apply A in He as [He|(x & Hx & ->)].
    + unfold block_clean in He. apply filter_In in He as [_ He]. apply negb_true_iff in He. exact He.
    + destruct (L x Hx) as (X1 & X2 & X3 & _).
      apply (accepted_unexpired _ (snd (fst x)) _ (snd (fst x) ++ [s_outer (snd x)])); [|exact X2].
      apply released_in in X3. apply in_map_iff in X3 as (d & Hd1 & Hd2).
      apply add_commits_in in Hd2 as [Hd2|[Hd2 _]].
      * apply Hdc. rewrite <- Hd1. apply in_map. exact Hd2.
      * apply Hops. simpl. rewrite <- Hd1. exact Hd2.
Qed.

Lemma hrun_unexpired : forall sc ops st st' lg, hrun sc st ops = (st', lg) ->
  forallb good (subs_of ops) = true -> dc_good st -> pool_unexpired sc st ->
  pool_unexpired sc st' /\ dc_good st'.
Proof.
  intros sc ops. induction ops as [|o tl IH]; intros st st' lg H Hops Hdc Hinv; simpl in H.
  - inversion H; subst. split; assumption.
  - destruct (hstep sc st o) as [[r st1] lg1] eqn:S.
    destruct (hrun sc st1 tl) as [st2 lg2] eqn:R. inversion H; subst st' lg. clear H.
    simpl in Hops. unfold subs_of in Hops. simpl in Hops. rewrite forallb_app in Hops.
    apply andb_true_iff in Hops as [Ho Htl].
    destruct (hstep_unexpired _ _ _ _ _ _ S) as [I1 D1]; try assumption.
    { rewrite forallb_forall in Ho. exact Ho. }
    apply (IH _ _ _ R); assumption.
Qed.

(** from the empty mempool *)
Lemma history_unexpired : forall sc h0 ops st' lg, hrun sc (mkSt h0 [] []) ops = (st', lg) ->
  forallb good (subs_of ops) = true ->
  forall e, In e (st_pool st') -> sweep_expired (view sc (st_hdr st')) e = false.
Proof.
  intros sc h0 ops st' lg H Hg.
  destruct (hrun_unexpired _ _ _ _ _ H Hg) as [I _]; [intros s []|intros e []|exact I].
Qed.

(** the delay cache never holds a transaction with a blacklisted account *)
Lemma history_dc_clean : forall sc h0 ops st' lg, hrun sc (mkSt h0 [] []) ops = (st', lg) ->
  forall d, In d (st_dc st') -> t_blocked (s_outer (fst d)) = false /\ In (fst d) (subs_of ops).
Proof.
  intros sc h0 ops st' lg H d Hd. destruct (hrun_sound _ _ _ _ _ H) as (_ & _ & D).
  apply D in Hd as [[]|[Hd Hb]]. split; [|exact Hd]. unfold t_blocked. rewrite Hb. reflexivity.
Qed.

(** every pool entry of a history from the empty mempool was accepted by the pipeline at the
    header of its time; it came as an EventTx or out of the delay cache; under the guards it was
    acceptable then *)
Lemma history_entries_via_pipeline : forall sc h0 ops st' lg, hrun sc (mkSt h0 [] []) ops = (st', lg) ->
  forall e, In e (st_pool st') ->
  exists h p s, e = s_outer s /\ In s (subs_of ops)
    /\ pipeline (view sc h) p (STx s) = (R_OK, p ++ [e])
    /\ (cfg_ok (view sc h) -> facts_consistent s = true -> all_guards (view sc h) s = true ->
        acceptable (view sc h) p s = true).
Proof.
  intros sc h0 ops st' lg H e He. destruct (hrun_sound _ _ _ _ _ H) as (A & L & _).
  apply A in He as [[]|(x & Hx & ->)]. destruct (L x Hx) as ((h & Hh) & P & [Src|[]]).
  rewrite Hh in P. exists h, (snd (fst x)), (snd x). split; [reflexivity|]. split; [exact Src|].
  split; [exact P|]. intros Hc Hfc Hg. exact (accepted_partial _ _ _ _ Hc Hfc P Hg).
Qed.

(** ** without the guards *)
Definition wsc (para : bool) (minfee persender : Z) : scfg :=
  mkS true para 0 0 0 0 true minfee 1000000000 false 10000000 10000 persender 8 true [(4%N, 0); (5%N, 3)].
Definition wh0 : hdr := mkH 10 1699999980 1700000000.

Lemma wsc_view : forall para m ps, view (wsc para m ps) wh0 = wcfg para m ps.
Proof. reflexivity. Qed.

Definition history_unexpired_full : Prop :=
  forall sc h0 ops st' lg, hrun sc (mkSt h0 [] []) ops = (st', lg) ->
    forallb facts_consistent (subs_of ops) = true ->
    forall e, In e (st_pool st') -> sweep_expired (view sc (st_hdr st')) e = false.

(** finding 4 (member Header parses as an empty group; member 2 expired at height 6, header at 10) *)
Lemma history_unexpired_refuted : ~ history_unexpired_full.
Proof.
  intro H.
  specialize (H (wsc false 100000 3) wh0 [OTx (STx w_hdr)] (mkSt wh0 [s_outer w_hdr] []) _ eq_refl eq_refl
                (s_outer w_hdr) (or_introl eq_refl)).
  vm_compute in H. discriminate.
Qed.
