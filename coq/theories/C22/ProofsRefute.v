(** C22 — refutation witnesses (each one is reproduced on the Go code by the
    harness streams named witness-... ), the positive witness of the repaired
    wrapper check, and non-vacuity examples.  The last field of a transaction
    is the identity of its Signature message. *)
From Coq Require Import List ZArith NArith Bool Lia.
From C33 Require Import Lib.Harness C22.Model C22.Spec C22.Proofs.
Import ListNotations.
Open Scope Z_scope.

Definition wcfg (para : bool) (minfee persender : Z) : config :=
  mkCfg true para true true true minfee 1000000000 false 10000000 10000 persender 8 true
        10 1699999980 1700000000 [(4%N, 0); (5%N, 3)] true.

(** a transaction with a main-chain execer whose only possible blacklist hit is the recipient;
    [wg]: the same as a group wrapper whose Header carries transactions with the given Expire values *)
Definition mkT (id sender : N) (hs so tv bl oc : bool) (e : Z) (he : bool) (fee sz : Z) (ck eth : bool)
               (n : Z) (ex : bool) (sg : N) : txf :=
  mkTx id sender hs so tv (if bl then 10%N else 0%N) oc e he fee sz ck eth n ex sg 0 None.
Definition wg (t : txf) (vs : list Z) : txf :=
  mkTx (t_id t) (t_sender t) (t_has_sig t) (t_sig_ok t) (t_to_valid t) (t_bl t) (t_on_chain t) (t_expire t)
       (t_hdr_empty t) (t_fee t) (t_size t) (t_chain_ok t) (t_eth t) (t_nonce t) (t_exec_ok t) (t_sigid t)
       (t_para t) (Some vs).

Lemma wcfg_ok : forall para m ps, 0 <= m -> cfg_ok (wcfg para m ps).
Proof. intros. split; simpl; lia. Qed.

(** a well-formed transaction of [sender] *)
Definition wtx (id sender : N) (fee : Z) : txf :=
  mkT id sender true true true false false 0 false fee 130 true false 7 true (100 + id).

(** 1. forwarded on a parachain node: expired (Expire = 10 <= height+1), recipient blacklisted, fee 0 *)
Definition w_fwd : sub :=
  mkSub (mkT 1 0 true true true true false 10 false 0 125 true false 2 true 101) Plain true.

(** 2. group of two of sender 0; the wrapper carries sender 1's public key
    (finding 2, fixed: the pool now refuses it, see [wrapper_witness_rejected]) *)
Definition w_head := mkT 1 0 true true true false false 0 false 200000 140 true false 3 true 101.
Definition w_mem (e : Z) (he : bool) := mkT 2 0 true true true false false e he 0 140 true false 4 true 102.
Definition w_wrap : sub :=
  mkSub (wg (mkT 1 1 true false true false false 0 false 200000 420 true false 3 true 199) [0; 0])
        (Group [w_head; w_mem 0 false] true) false.
(** the same group as Transactions.Tx() builds it *)
Definition w_wrap_honest : sub :=
  mkSub (wg (mkT 1 0 true true true false false 0 false 200000 420 true false 3 true 101) [0; 0])
        (Group [w_head; w_mem 0 false] true) false.

(** 3. negative fee under a zero minimum rate *)
Definition w_neg : sub := mkSub (wtx 1 0 (-1000000)) Plain false.

(** 4. group whose header hash parses as an empty group; member 2 expired at height 6 *)
Definition w_hdr : sub :=
  mkSub (wg (mkT 1 0 true true true false false 0 false 200000 420 true false 3 true 101) [0; 6])
        (Group [mkT 1 0 true true true false false 0 true 200000 140 true false 3 true 101; w_mem 6 true] true) false.

Lemma refuted_forward : ~ accepted_sound (fun c s => g_fee c s && g_hdr s).
Proof.
  intro H.
  specialize (H (wcfg true 100000 3) [] w_fwd [s_outer w_fwd] (wcfg_ok true 100000 3 ltac:(lia)) eq_refl eq_refl eq_refl).
  vm_compute in H. discriminate.
Qed.

(** the former witness of finding 2: the group with the foreign wrapper is refused, the pool
    stays empty and the other account's own transaction is let in; the honestly built
    wrapper of the same group is let in and is acceptable *)
Lemma wrapper_witness_rejected :
  let c := wcfg false 100000 1 in
  pipeline c [] (STx w_wrap) = (R_MALFORMED, [])
  /\ pipeline c [] (STx (mkSub (wtx 5 1 100000) Plain false)) = (R_OK, [wtx 5 1 100000])
  /\ pipeline c [] (STx w_wrap_honest) = (R_OK, [s_outer w_wrap_honest])
  /\ facts_consistent w_wrap = true /\ facts_consistent w_wrap_honest = true
  /\ acceptable c [] w_wrap = false /\ acceptable c [] w_wrap_honest = true.
Proof. repeat split; reflexivity. Qed.

Lemma refuted_negfee : ~ accepted_sound (fun c s => g_fwd s && g_hdr s).
Proof.
  intro H.
  specialize (H (wcfg false 0 3) [] w_neg [s_outer w_neg] (wcfg_ok false 0 3 ltac:(lia)) eq_refl eq_refl eq_refl).
  vm_compute in H. discriminate.
Qed.

Lemma refuted_hdrempty : ~ accepted_sound (fun c s => g_fwd s && g_fee c s).
Proof.
  intro H.
  specialize (H (wcfg false 100000 3) [] w_hdr [s_outer w_hdr] (wcfg_ok false 100000 3 ltac:(lia)) eq_refl eq_refl eq_refl).
  vm_compute in H. discriminate.
Qed.

Definition C22_accepted_implies_acceptable_full : Prop :=
  forall c p s p', cfg_ok c -> facts_consistent s = true -> pipeline c p (STx s) = (R_OK, p') ->
                   acceptable c p s = true.

Lemma refuted_full : ~ C22_accepted_implies_acceptable_full.
Proof.
  intro H. apply refuted_forward. intros c p s p' Hc Hfc Hp _. exact (H c p s p' Hc Hfc Hp).
Qed.

(** non-vacuity: a group of three enters a non-empty pool with all guards satisfied *)
Definition ex_group : sub :=
  mkSub (wg (mkT 10 0 true true true false false 0 false 300000 600 true false 3 true 110) [0; 12; 1700000060])
        (Group [mkT 10 0 true true true false false 0 false 300000 140 true false 3 true 110;
                mkT 11 1 true true true false false 12 false 0 140 true false 4 true 111;
                mkT 12 2 true true true false false 1700000060 false 0 140 true false 5 true 112] true) false.

Lemma guards_satisfiable :
  exists c p s p', cfg_ok c /\ facts_consistent s = true /\ p <> [] /\ pipeline c p (STx s) = (R_OK, p')
                   /\ all_guards c s = true /\ acceptable c p s = true /\ length (members s) = 3%nat.
Proof.
  exists (wcfg false 100000 3), [wtx 1 0 100000], ex_group, [wtx 1 0 100000; s_outer ex_group].
  split; [apply wcfg_ok; lia|]. split; [reflexivity|]. split; [discriminate|]. repeat split; reflexivity.
Qed.

(** the same group is refused as soon as one member violates one clause *)
Lemma member_violation_rejected :
  let bad (t : txf) := mkSub (s_outer ex_group) (Group [mkT 10 0 true true true false false 0 false 300000 140 true false 3 true 110; t; w_mem 0 false] true) false in
  let c := wcfg false 100000 3 in
  fst (pipeline c [] (STx (bad (mkT 11 1 true false true false false 0 false 0 140 true false 4 true 111)))) = R_SIGN
  /\ fst (pipeline c [] (STx (bad (mkT 11 1 true true false false false 0 false 0 140 true false 4 true 111)))) = R_ADDR
  /\ fst (pipeline c [] (STx (bad (mkT 11 1 true true true true false 0 false 0 140 true false 4 true 111)))) = R_BL_TO
  /\ fst (pipeline c [] (STx (bad (mkT 11 1 true true true false true 0 false 0 140 true false 4 true 111)))) = R_DUP
  /\ fst (pipeline c [] (STx (bad (mkT 11 1 true true true false false 11 false 0 140 true false 4 true 111)))) = R_EXPIRED.
Proof. repeat split; reflexivity. Qed.
