(** C22 — proofs: every stage of the pipeline can only reject; an accepting run
    establishes every clause of [acceptable] (under the three guards that the
    refutations show to be necessary). *)
From Coq Require Import List ZArith NArith Bool Lia.
From C33 Require Import Lib.Harness C22.Model C22.Spec.
Import ListNotations.
Open Scope Z_scope.

(** ** small facts *)

Lemma neq_ok_false : forall e, negb (N.eqb e R_OK) = false -> e = R_OK.
Proof. intros e H. apply negb_false_iff in H. apply N.eqb_eq in H. exact H. Qed.

Lemma pair_ok : forall (e : N) (p p' : pool), (e, p) = (R_OK, p') -> e = R_OK /\ p = p'.
Proof. intros e p p' H. inversion H. split; reflexivity. Qed.

Lemma first_err_ok : forall A (f : A -> N) l, first_err f l = R_OK -> forall x, In x l -> f x = R_OK.
Proof.
  intros A f l. induction l as [|y l IH]; intros H x Hin.
  - destruct Hin.
  - simpl in H. destruct (N.eqb (f y) R_OK) eqn:E.
    + destruct Hin as [->|Hin]; [apply N.eqb_eq; exact E|apply IH; assumption].
    + rewrite H in E. discriminate.
Qed.

Lemma total_fee_owed : forall ts r x, total_fee ts r = Some x -> x = owed_all r ts.
Proof.
  induction ts as [|t ts IH]; intros r x H; simpl in H.
  - inversion H. reflexivity.
  - unfold real_fee in H.
    destruct (MaxTxSize <? (if t_has_sig t then t_size t else t_size t + 300)) eqn:E; [discriminate|].
    destruct (total_fee ts r) as [g|] eqn:G; [|discriminate].
    inversion H. subst x. simpl. unfold owed at 1. rewrite (IH r g G). reflexivity.
Qed.

Lemma level_rate_tier : forall c p, level_rate c p = tier_rate c p.
Proof.
  intros c p. unfold level_rate, tier_rate, pool_bytes, pool_size, MaxBlockSize.
  change (20000000 / 20) with 1000000. change (20000000 / 100) with 200000.
  destruct ((1000000 <=? _) || _); [|destruct ((200000 <=? _) || _)];
    match goal with |- (if ?a <? ?b then _ else _) = _ => destruct (Z.ltb_spec a b) end; lia.
Qed.

Lemma is_expire_next : forall c t, is_expire c t = expired_next c t.
Proof.
  intros c t. unfold is_expire, is_expire_v, expired_next, ExpireBound, TxHeightFlag, LowAllowPackHeight, HighAllowPackHeight.
  destruct (t_expire t =? 0); [reflexivity|].
  destruct (t_expire t <=? 1000000000); [reflexivity|].
  destruct (negb (c_para c) && c_txheight c && (4611686018427387904 <? t_expire t)); [|reflexivity].
  cbv zeta.
  destruct (Z.leb_spec (t_expire t - 4611686018427387904 - 200) (c_height c + 1));
    destruct (Z.leb_spec (c_height c + 1) (t_expire t - 4611686018427387904 + 600));
    destruct (Z.ltb_spec (c_height c + 1) (t_expire t - 4611686018427387904 - 200));
    destruct (Z.ltb_spec (t_expire t - 4611686018427387904 + 600) (c_height c + 1));
    simpl; try reflexivity; lia.
Qed.

(** ** what each stage establishes *)

Definition g_fwd (s : sub) : bool := negb (s_forward s).
Definition g_fee (c : config) (s : sub) : bool :=
  negb (c_minfee c =? 0) || c_level c || (0 <=? t_fee (s_outer s)).
Definition g_hdr (s : sub) : bool :=
  match s_shape s with Group ms _ => forallb (fun t => negb (t_hdr_empty t)) ms | _ => true end.

Definition cfg_ok (c : config) : Prop := 0 <= c_minfee c /\ 0 <= c_maxrate c.

Lemma member_ok : forall c p grp t, check_member c p grp t = R_OK ->
  t_to_valid t = true /\ t_blocked t = false /\ count_sender p (t_sender t) < c_persender c
  /\ expired_chk c grp t = false.
Proof.
  intros c p grp t H. unfold check_member in H.
  destruct (t_to_valid t); simpl in H; [|discriminate].
  unfold t_blocked.
  destruct (blocked_pos t) as [q|]; [destruct q; discriminate|].
  destruct (Z.leb_spec (c_persender c) (count_sender p (t_sender t))); [discriminate|].
  destruct (expired_chk c grp t); [discriminate|].
  repeat split; try reflexivity; assumption.
Qed.

Lemma expired_chk_next : forall c grp t, expired_chk c grp t = false ->
  (grp && t_hdr_empty t = false) -> expired_next c t = false.
Proof.
  intros c grp t H G. unfold expired_chk in H. rewrite G in H.
  apply orb_false_iff in H as [H _]. rewrite <- is_expire_next. exact H.
Qed.

Lemma owed_zero : forall ts, owed_all 0 ts = 0.
Proof. induction ts as [|t ts IH]; simpl; [reflexivity|]. unfold owed. rewrite IH. lia. Qed.

(** the blacklist check covers every involved account *)
Lemma not_blocked_not_listed : forall t, tx_consistent t = true -> t_blocked t = false -> listed t = false.
Proof.
  intros t Hc Hb. unfold t_blocked, blocked_pos in Hb. unfold listed. unfold tx_consistent in Hc.
  destruct (bl_from t); [discriminate|].
  destruct (bl_to t); [discriminate|].
  destruct (bl_diff t); simpl in *.
  - destruct (bl_realto t); [discriminate|]. simpl.
    destruct (bl_evm t); [|reflexivity]. destruct (bl_evmaddr t); [discriminate|].
    destruct (bl_evmpara t); [discriminate|reflexivity].
  - apply eqb_prop in Hc. rewrite Hc. simpl.
    destruct (bl_evm t); [|reflexivity]. destruct (bl_evmaddr t); [discriminate|].
    destruct (bl_evmpara t); [discriminate|reflexivity].
Qed.

(** the parachain rules: no two titles, no title next to a main-chain execer *)
Lemma titles_in : forall ms t, In t ms -> (2 <= t_para t)%N -> In (t_para t) (titles ms).
Proof.
  intros ms t Hin Ht. unfold titles. apply filter_In. split; [apply in_map; exact Hin|].
  apply N.leb_le. exact Ht.
Qed.

Lemma single_title : forall ms a b, multi_title ms = false -> In a (titles ms) -> In b (titles ms) -> a = b.
Proof.
  intros ms a b Hm Ha Hb. unfold multi_title in Hm. destruct (titles ms) as [|x tl]; [destruct Ha|].
  assert (K : forall y, In y (x :: tl) -> y = x).
  { intros y [<-|Hy]; [reflexivity|].
    destruct (N.eqb_spec x y) as [->|Hn]; [reflexivity|].
    assert (existsb (fun y0 => negb (N.eqb x y0)) tl = true).
    { apply existsb_exists. exists y. split; [exact Hy|]. apply negb_true_iff. apply N.eqb_neq. exact Hn. }
    congruence. }
  rewrite (K a Ha), (K b Hb). reflexivity.
Qed.

Lemma check_para_one_chain : forall c ms, check_para c ms = R_OK -> cl_para c ms = true.
Proof.
  intros c ms H. unfold check_para in H. unfold cl_para. destruct (c_parafork c); [|reflexivity].
  destruct (multi_title ms) eqn:Hm; [discriminate|].
  destruct (has_title ms && has_main ms) eqn:Hx; [discriminate|].
  unfold one_chain. apply forallb_forall. intros a Ha. apply forallb_forall. intros b Hb.
  apply andb_true_iff. split.
  - destruct (N.ltb_spec (t_para a) 2) as [|La]; [reflexivity|].
    destruct (N.ltb_spec (t_para b) 2) as [|Lb]; [reflexivity|]. simpl.
    apply N.eqb_eq. apply (single_title ms); [exact Hm|apply titles_in; assumption|apply titles_in; assumption].
  - apply negb_true_iff. destruct (N.leb_spec 2 (t_para a)) as [La|]; [|reflexivity].
    destruct (N.eqb_spec (t_para b) 0) as [Eb|]; [|reflexivity]. exfalso.
    assert (has_title ms = true).
    { unfold has_title. pose proof (titles_in ms a Ha La) as Hi. destruct (titles ms); [destruct Hi|reflexivity]. }
    assert (has_main ms = true).
    { unfold has_main. apply existsb_exists. exists b. split; [exact Hb|]. apply N.eqb_eq. exact Eb. }
    rewrite H0, H1 in Hx. discriminate.
Qed.

Lemma one_chain_single : forall t, one_chain [t] = true.
Proof.
  intro t. unfold one_chain. simpl. rewrite N.eqb_refl, !andb_true_r, !orb_true_r. simpl.
  apply negb_true_iff. destruct (N.leb_spec 2 (t_para t)); [|reflexivity].
  destruct (N.eqb_spec (t_para t) 0) as [E|]; [|reflexivity]. rewrite E in H. exfalso. apply (N.nle_succ_0 1). exact H.
Qed.

Lemma cl_para_single : forall c t, cl_para c [t] = true.
Proof. intros c t. unfold cl_para. destruct (c_parafork c); [apply one_chain_single|reflexivity]. Qed.

(** what facts_consistent says *)
Lemma fc_plain : forall s, s_shape s = Plain -> facts_consistent s = true -> tx_consistent (s_outer s) = true.
Proof. intros s Hsh H. unfold facts_consistent in H. rewrite Hsh in H. apply andb_true_iff in H as [H _]. exact H. Qed.

Lemma fc_group : forall s ms ok, s_shape s = Group ms ok -> facts_consistent s = true ->
  match ms with h :: _ => wrap_consistent (s_outer s) h | [] => true end = true
  /\ (forall t, In t ms -> tx_consistent t = true)
  /\ exists vs, t_gexp (s_outer s) = Some vs /\ list_eq_z vs (map t_expire ms) = true.
Proof.
  intros s ms ok Hsh H. unfold facts_consistent in H. rewrite Hsh in H.
  apply andb_true_iff in H as [H Hg]. apply andb_true_iff in H as [Hw Hc].
  split; [exact Hw|]. split; [apply forallb_forall; exact Hc|].
  destruct (t_gexp (s_outer s)) as [vs|]; [|discriminate]. exists vs. split; [reflexivity|exact Hg].
Qed.

(** checkTxs on a group that is not forwarded *)
Lemma check_txs_group_inv : forall c p s ms ok, s_shape s = Group ms ok -> s_forward s = false ->
  check_txs c p s = R_OK ->
  check_group c ms ok = R_OK /\ (if c_level c then check_level c p s else R_OK) = R_OK
  /\ (exists h tl, ms = h :: tl /\ is_group_head (s_outer s) h = true)
  /\ first_err (check_member c p true) ms = R_OK.
Proof.
  intros c p s ms ok Hsh Hf H. unfold check_txs in H. rewrite Hf in H.
  unfold check_tx in H. rewrite Hsh in H.
  destruct (negb (N.eqb (check_group c ms ok) R_OK)) eqn:E1; [rewrite H in E1; discriminate|].
  apply neq_ok_false in E1.
  destruct (negb (N.eqb (if c_level c then check_level c p s else R_OK) R_OK)) eqn:E2; [rewrite H in E2; discriminate|].
  apply neq_ok_false in E2.
  destruct ms as [|h tl]; [discriminate|].
  destruct (is_group_head (s_outer s) h) eqn:Eh; [|discriminate].
  repeat split; try assumption. exists h, tl. split; [reflexivity|exact Eh].
Qed.

(** the wrapper of an accepted group is the pool entry the property asks for *)
Lemma head_entry : forall o h, wrap_consistent o h = true -> is_group_head o h = true -> same_entry o h = true.
Proof.
  intros o h Hc Hh. unfold is_group_head in Hh. apply andb_true_iff in Hh as [Hi Hs].
  unfold wrap_consistent in Hc. rewrite Hi, Hs in Hc. simpl in Hc.
  apply andb_true_iff in Hc as [Hnf Hse]. apply andb_true_iff in Hnf as [Hn Hfe].
  apply andb_true_iff in Hse as [Hse Het].
  unfold same_entry. rewrite Hi, Hn, Hfe, Hse, Het. reflexivity.
Qed.

Lemma group_entry : forall c p s ms ok, s_shape s = Group ms ok -> s_forward s = false ->
  facts_consistent s = true -> check_txs c p s = R_OK -> cl_entry s = true.
Proof.
  intros c p s ms ok Hsh Hf Hc H.
  destruct (check_txs_group_inv _ _ _ _ _ Hsh Hf H) as (_ & _ & (h & tl & -> & Hh) & _).
  destruct (fc_group _ _ _ Hsh Hc) as (Hw & _ & _).
  unfold cl_entry. rewrite Hsh. apply head_entry; assumption.
Qed.

(** early checks, plain transaction *)
Lemma early_plain : forall c p s, cfg_ok c -> s_shape s = Plain -> s_forward s = false ->
  facts_consistent s = true ->
  g_fee c s = true -> check_txs c p s = R_OK ->
  acc_early_but c p s [s_outer s] (fee_meets c p s [s_outer s]) (cl_exp_on c [s_outer s]) = true.
Proof.
  intros c p s [Hmin Hmax] Hsh Hf Hfc Hg H. pose proof (fc_plain _ Hsh Hfc) as Hcons. unfold check_txs in H. rewrite Hf in H.
  unfold check_tx in H. rewrite Hsh in H.
  destruct (negb (N.eqb (check_one c (s_outer s) (c_minfee c)) R_OK)) eqn:E1; [rewrite H in E1; discriminate|].
  apply neq_ok_false in E1.
  destruct (negb (N.eqb (if c_level c then check_level c p s else R_OK) R_OK)) eqn:E2; [rewrite H in E2; discriminate|].
  apply neq_ok_false in E2.
  apply member_ok in H as (Hto & Hbl & _ & Hex).
  unfold acc_early_but. rewrite cl_para_single, andb_true_r.
  unfold cl_to, cl_black, cl_exp_on, fee_meets. simpl.
  rewrite Hto, (not_blocked_not_listed _ Hcons Hbl), (expired_chk_next c false _ Hex eq_refl). simpl.
  rewrite !andb_true_r.
  (* fee *)
  assert (Fb : owed (c_minfee c) (s_outer s) + 0 <= t_fee (s_outer s)
               \/ (c_minfee c = 0)).
  { unfold check_one in E1.
    destruct (c_strict_chain c && negb (t_chain_ok (s_outer s))); [discriminate|].
    destruct (Z.eqb_spec (c_minfee c) 0) as [Z0|NZ]; [right; exact Z0|].
    destruct (real_fee (s_outer s) (c_minfee c)) as [rf|] eqn:RF; [|discriminate].
    destruct (Z.ltb_spec (t_fee (s_outer s)) rf); [discriminate|].
    left. assert (T : total_fee [s_outer s] (c_minfee c) = Some (rf + 0)) by (simpl; rewrite RF; reflexivity).
    apply total_fee_owed in T. simpl in T. lia. }
  assert (Fl : c_level c = true -> owed (tier_rate c p) (s_outer s) + 0 <= t_fee (s_outer s)).
  { intro L. rewrite L in E2. unfold check_level, members in E2. rewrite Hsh in E2.
    destruct (total_fee [s_outer s] (level_rate c p)) as [tot|] eqn:T; [|discriminate].
    destruct (Z.ltb_spec (t_fee (s_outer s)) tot); [discriminate|].
    apply total_fee_owed in T. rewrite level_rate_tier in T. simpl in T. lia. }
  apply andb_true_iff. split.
  - apply Z.leb_le. destruct Fb as [Fb|Z0]; [exact Fb|].
    rewrite Z0. unfold owed. rewrite Z.mul_0_r.
    unfold g_fee in Hg. rewrite Z0 in Hg. simpl in Hg.
    destruct (c_level c) eqn:L.
    + specialize (Fl eq_refl). unfold tier_rate in Fl. rewrite Z0 in Fl.
      rewrite Z.mul_0_r in Fl. rewrite Z.min_l in Fl by lia. unfold owed in Fl. lia.
    + simpl in Hg. apply Z.leb_le in Hg. lia.
  - destruct (c_level c); [apply Z.leb_le; apply Fl; reflexivity|reflexivity].
Qed.

Lemma forallb_from : forall A (f : A -> bool) l, (forall x, In x l -> f x = true) -> forallb f l = true.
Proof. intros. apply forallb_forall. assumption. Qed.

(** early checks, group *)
Lemma check_group_para : forall c ms ok, check_group c ms ok = R_OK -> check_para c ms = R_OK.
Proof.
  intros c ms ok H. unfold check_group in H.
  destruct (Z.of_nat (length ms) <? 2); [discriminate|].
  destruct (negb (N.eqb (first_err (fun t => check_one c t 0) ms) R_OK)) eqn:E0; [rewrite H in E0; discriminate|].
  destruct (negb (N.eqb (check_para c ms) R_OK)) eqn:E1; [rewrite H in E1; discriminate|].
  apply neq_ok_false. exact E1.
Qed.

Lemma early_group : forall c p s ms ok, cfg_ok c -> s_shape s = Group ms ok -> s_forward s = false ->
  facts_consistent s = true ->
  cl_entry s = true -> g_hdr s = true -> check_txs c p s = R_OK ->
  acc_early_but c p s ms (fee_meets c p s ms) (cl_exp_on c ms) = true.
Proof.
  intros c p s ms ok [Hmin Hmax] Hsh Hf Hfc Hent Hh H.
  destruct (fc_group _ _ _ Hsh Hfc) as (_ & Hcons & _).
  destruct (check_txs_group_inv _ _ _ _ _ Hsh Hf H) as (E1 & E2 & _ & H'). clear H.
  pose proof (check_para_one_chain _ _ (check_group_para _ _ _ E1)) as Hpara.
  pose proof (first_err_ok _ _ _ H') as Hm. clear H'.
  unfold g_hdr in Hh. rewrite Hsh in Hh. rewrite forallb_forall in Hh.
  assert (Hall : forall t, In t ms -> t_to_valid t = true /\ listed t = false /\ expired_next c t = false).
  { intros t Hin. destruct (member_ok _ _ _ _ (Hm t Hin)) as (A & B & _ & D).
    split; [exact A|]. split; [apply not_blocked_not_listed; [apply Hcons; exact Hin|exact B]|].
    apply (expired_chk_next c true t D).
    specialize (Hh t Hin). apply negb_true_iff in Hh. rewrite Hh. reflexivity. }
  unfold acc_early_but. rewrite Hpara, andb_true_r. unfold cl_to, cl_black, cl_exp_on.
  assert (F : fee_meets c p s ms = true).
  { unfold cl_entry in Hent. rewrite Hsh in Hent. destruct ms as [|h tl]; [discriminate|].
    unfold same_entry in Hent. apply andb_true_iff in Hent as [_ Hfee]. apply Z.eqb_eq in Hfee.
    unfold fee_meets. rewrite Hfee.
    unfold check_group in E1.
    destruct (Z.of_nat (length (h :: tl)) <? 2); [discriminate|].
    destruct (negb (N.eqb (first_err (fun t => check_one c t 0) (h :: tl)) R_OK)) eqn:E0;
      [rewrite E1 in E0; discriminate|].
    destruct (negb (N.eqb (check_para c (h :: tl)) R_OK)) eqn:Ep; [rewrite E1 in Ep; discriminate|].
    destruct (existsb _ (List.tl (h :: tl))); [discriminate|].
    destruct (total_fee (h :: tl) (c_minfee c)) as [tot|] eqn:T; [|discriminate].
    destruct (Z.ltb_spec (t_fee h) tot); [discriminate|].
    apply total_fee_owed in T. apply andb_true_iff. split; [apply Z.leb_le; lia|].
    destruct (c_level c) eqn:L; [|reflexivity].
    unfold check_level, members in E2. rewrite Hsh in E2.
    destruct (total_fee (h :: tl) (level_rate c p)) as [tot2|] eqn:T2; [|discriminate].
    destruct (Z.ltb_spec (t_fee (s_outer s)) tot2); [discriminate|].
    apply total_fee_owed in T2. rewrite level_rate_tier in T2. apply Z.leb_le. lia. }
  rewrite F. simpl.
  rewrite !forallb_from; [reflexivity| | |]; intros t Hin; destruct (Hall t Hin) as (A & B & D);
    rewrite ?A, ?B, ?D; reflexivity.
Qed.

(** late checks *)
Lemma nonce_ok : forall c p o, nonce_chk c p o = R_OK ->
  existsb (fun e => N.eqb (t_id e) (t_id o)) p = false -> nonce_meets c p o = true.
Proof.
  intros c p o H Hf. unfold nonce_chk in H. unfold nonce_meets.
  destruct (t_eth o); simpl in H; [|reflexivity].
  destruct (Z.ltb_spec (t_nonce o) (nonce_of (c_nonces c) (t_sender o))); [discriminate|].
  destruct (existsb _ p) eqn:E in H; [discriminate|].
  apply andb_true_iff. split; [apply Z.leb_le; lia|].
  apply negb_true_iff. clear H.
  induction p as [|e p IH]; [reflexivity|].
  simpl in *. apply orb_false_iff in E as [E1 E2]. apply orb_false_iff in Hf as [F1 F2].
  rewrite (IH E2 F2), orb_false_r. rewrite F1 in E1. simpl in E1. rewrite andb_true_r in E1. exact E1.
Qed.

Lemma late_ok : forall c p s p' ts, txs_of s = Some ts -> check_sign s = R_OK ->
  check_remote c p s = (R_OK, p') -> acc_late c p s ts = true /\ p' = p ++ [s_outer s].
Proof.
  intros c p s p' ts Hts Hs Hr.
  assert (Hm : members s = ts /\ cl_sig ts = true).
  { unfold txs_of in Hts. unfold members, check_sign in *. unfold cl_sig.
    destruct (s_shape s) as [| |ms ok]; inversion Hts; subst ts.
    - split; [reflexivity|]. simpl. destruct (t_sig_ok (s_outer s)); [reflexivity|discriminate].
    - split; [reflexivity|]. destruct (forallb t_sig_ok ms); [reflexivity|discriminate]. }
  destruct Hm as [Hm Hsig].
  unfold check_remote in Hr. rewrite Hm in Hr.
  assert (Hr' : (if has_dup (map t_id ts) || existsb t_on_chain ts then (R_DUP, p)
                 else if c_execcheck c && negb (t_exec_ok (s_outer s)) then (R_EXEC, p)
                 else let e := nonce_chk c p (s_outer s) in
                      if negb (N.eqb e R_OK) then (e, p) else push c p (s_outer s)) = (R_OK, p')).
  { destruct (s_shape s); try exact Hr. unfold txs_of in Hts. discriminate. }
  clear Hr.
  destruct (has_dup (map t_id ts) || existsb t_on_chain ts) eqn:D; [inversion Hr'|].
  apply orb_false_iff in D as [_ Hch].
  destruct (c_execcheck c && negb (t_exec_ok (s_outer s))); [inversion Hr'|].
  cbv zeta in Hr'.
  destruct (negb (N.eqb (nonce_chk c p (s_outer s)) R_OK)) eqn:En.
  { apply pair_ok in Hr' as [Hr' _]. rewrite Hr' in En. discriminate. }
  apply neq_ok_false in En.
  unfold push in Hr'.
  destruct (Z.leb_spec (c_persender c) (count_sender p (t_sender (s_outer s)))); [inversion Hr'|].
  destruct (existsb (fun e => N.eqb (t_id e) (t_id (s_outer s))) p) eqn:Ex; [inversion Hr'|].
  destruct (c_cap c <=? pool_size p); [inversion Hr'|].
  apply pair_ok in Hr' as [_ Hp]. split; [|symmetry; exact Hp].
  unfold acc_late, cl_fresh, cl_chain, cl_limit.
  rewrite Hsig, Ex, (nonce_ok _ _ _ En Ex). simpl.
  replace (count_sender p (t_sender (s_outer s)) <? c_persender c) with true by (symmetry; apply Z.ltb_lt; assumption).
  rewrite !andb_true_r.
  apply forallb_from. intros t Hin. apply negb_true_iff.
  destruct (t_on_chain t) eqn:O; [|reflexivity].
  assert (existsb t_on_chain ts = true) by (apply existsb_exists; exists t; split; assumption). congruence.
Qed.

Lemma pipeline_ok_inv : forall c p s p', pipeline c p (STx s) = (R_OK, p') ->
  c_synced c = true /\ check_txs c p s = R_OK /\ check_sign s = R_OK /\ check_remote c p s = (R_OK, p').
Proof.
  intros c p s p' H. unfold pipeline in H.
  destruct (c_synced c); simpl in H; [|inversion H].
  destruct (negb (N.eqb (check_txs c p s) R_OK)) eqn:E1.
  { apply pair_ok in H as [H _]. rewrite H in E1. discriminate. }
  apply neq_ok_false in E1.
  destruct (negb (N.eqb (check_sign s) R_OK)) eqn:E2.
  { apply pair_ok in H as [H _]. rewrite H in E2. discriminate. }
  apply neq_ok_false in E2. repeat split; assumption.
Qed.

(** ** main statements *)

Definition accepted_sound (g : config -> sub -> bool) : Prop :=
  forall c p s p', cfg_ok c -> facts_consistent s = true -> pipeline c p (STx s) = (R_OK, p') ->
                   g c s = true -> acceptable c p s = true.

Definition all_guards (c : config) (s : sub) : bool := g_fwd s && g_fee c s && g_hdr s.

Lemma accepted_partial : accepted_sound all_guards.
Proof.
  intros c p s p' Hc Hfc H G. unfold all_guards in G.
  apply andb_true_iff in G as [G Gh]. apply andb_true_iff in G as [Gw Gf].
  unfold g_fwd in Gw. apply negb_true_iff in Gw.
  apply pipeline_ok_inv in H as (_ & Ht & Hs & Hr).
  unfold acceptable, acceptable_at. destruct (txs_of s) as [ts|] eqn:Hts.
  2:{ unfold txs_of in Hts. unfold check_sign in Hs. destruct (s_shape s); try discriminate. }
  destruct (late_ok _ _ _ _ _ Hts Hs Hr) as [Hl _]. rewrite Hl.
  unfold txs_of in Hts. destruct (s_shape s) as [| |ms ok] eqn:Hsh; inversion Hts; subst ts.
  - assert (Ge : cl_entry s = true) by (unfold cl_entry; rewrite Hsh; reflexivity).
    rewrite Ge. simpl. apply early_plain; assumption.
  - pose proof (group_entry c p s ms ok Hsh Gw Hfc Ht) as Ge.
    rewrite Ge. simpl. apply (early_group c p s ms ok); assumption.
Qed.

Lemma rejected_unchanged : forall c p m r p', pipeline c p m = (r, p') -> r <> R_OK -> p' = p.
Proof.
  intros c p m r p' H Hr. unfold pipeline in H.
  destruct (negb (c_synced c)); [inversion H; reflexivity|].
  destruct m as [|s]; [inversion H; reflexivity|].
  cbv zeta in H.
  destruct (negb (N.eqb (check_txs c p s) R_OK)); [inversion H; reflexivity|].
  destruct (negb (N.eqb (check_sign s) R_OK)); [inversion H; reflexivity|].
  unfold check_remote in H.
  assert (K : forall x, (if has_dup (map t_id (members s)) || existsb t_on_chain (members s) then (R_DUP, p)
                 else if c_execcheck c && negb (t_exec_ok (s_outer s)) then (R_EXEC, p)
                 else let e := nonce_chk c p (s_outer s) in
                      if negb (N.eqb e R_OK) then (e, p) else push c p (s_outer s)) = x -> x = (r, p') -> p' = p).
  { intros x Hx Hx'. subst x.
    destruct (has_dup (map t_id (members s)) || existsb t_on_chain (members s)); [inversion Hx'; reflexivity|].
    destruct (c_execcheck c && negb (t_exec_ok (s_outer s))); [inversion Hx'; reflexivity|].
    cbv zeta in Hx'.
    destruct (negb (N.eqb (nonce_chk c p (s_outer s)) R_OK)); [inversion Hx'; reflexivity|].
    unfold push in Hx'.
    destruct (c_persender c <=? count_sender p (t_sender (s_outer s))); [inversion Hx'; reflexivity|].
    destruct (existsb (fun e => N.eqb (t_id e) (t_id (s_outer s))) p); [inversion Hx'; reflexivity|].
    destruct (c_cap c <=? pool_size p); [inversion Hx'; reflexivity|].
    inversion Hx'. subst r. exfalso. apply Hr. reflexivity. }
  destruct (s_shape s); try (eapply K; [reflexivity|exact H]).
  inversion H. reflexivity.
Qed.

Lemma accepted_appends : forall c p m p', pipeline c p m = (R_OK, p') ->
  exists s, m = STx s /\ p' = p ++ [s_outer s] /\ c_synced c = true
            /\ count_sender p (t_sender (s_outer s)) < c_persender c /\ pool_size p < c_cap c.
Proof.
  intros c p m p' H. destruct m as [|s].
  - unfold pipeline in H. destruct (negb (c_synced c)); inversion H.
  - exists s. split; [reflexivity|].
    apply pipeline_ok_inv in H as (Hsy & _ & Hs & Hr).
    assert (exists ts, txs_of s = Some ts) as [ts Hts].
    { unfold txs_of. unfold check_sign in Hs. destruct (s_shape s); try discriminate; eauto. }
    pose proof (late_ok _ _ _ _ _ Hts Hs Hr) as [Hl Hp].
    split; [exact Hp|]. split; [exact Hsy|].
    unfold acc_late, cl_limit in Hl. repeat (apply andb_true_iff in Hl as [Hl ?]).
    split; [apply Z.ltb_lt; assumption|].
    (* capacity *)
    unfold check_remote in Hr. unfold push in Hr.
    destruct (s_shape s); try discriminate;
      (destruct (has_dup _ || existsb _ _); [inversion Hr|];
       destruct (c_execcheck c && _); [inversion Hr|]; cbv zeta in Hr;
       destruct (negb (N.eqb (nonce_chk c p (s_outer s)) R_OK)) eqn:En;
         [apply pair_ok in Hr as [Hr _]; rewrite Hr in En; discriminate|];
       destruct (c_persender c <=? _); [inversion Hr|];
       destruct (existsb _ p); [inversion Hr|];
       destruct (Z.leb_spec (c_cap c) (pool_size p)); [inversion Hr|]; assumption).
Qed.

(** every member of an accepted, not forwarded group has passed the per-transaction checks *)
Lemma group_members_checked : forall c p s ms ok p', pipeline c p (STx s) = (R_OK, p') ->
  s_forward s = false -> s_shape s = Group ms ok ->
  ok = true /\ 2 <= Z.of_nat (length ms) /\ cl_para c ms = true /\
  forall t, In t ms ->
    t_sig_ok t = true /\ t_to_valid t = true /\ t_blocked t = false /\ t_on_chain t = false
    /\ (c_strict_chain c = true -> t_chain_ok t = true)
    /\ count_sender p (t_sender t) < c_persender c
    /\ (t_hdr_empty t = false -> expired_next c t = false).
Proof.
  intros c p s ms ok p' H Hf Hsh.
  apply pipeline_ok_inv in H as (_ & Ht & Hs & Hr).
  destruct (check_txs_group_inv _ _ _ _ _ Hsh Hf Ht) as (E1 & _ & _ & Ht').
  pose proof (first_err_ok _ _ _ Ht') as Hm.
  pose proof (check_para_one_chain _ _ (check_group_para _ _ _ E1)) as Hpara.
  unfold check_group in E1.
  destruct (Z.ltb_spec (Z.of_nat (length ms)) 2); [discriminate|].
  destruct (negb (N.eqb (first_err (fun t => check_one c t 0) ms) R_OK)) eqn:E0; [rewrite E1 in E0; discriminate|].
  apply neq_ok_false in E0. pose proof (first_err_ok _ _ _ E0) as Hc.
  destruct (negb (N.eqb (check_para c ms) R_OK)) eqn:Ep; [rewrite E1 in Ep; discriminate|].
  destruct (existsb _ (List.tl ms)); [discriminate|].
  destruct (total_fee ms (c_minfee c)); [|discriminate].
  destruct (_ <? z); [discriminate|].
  destruct (_ && _ && _); [discriminate|].
  destruct ok; [|discriminate].
  split; [reflexivity|]. split; [assumption|]. split; [exact Hpara|].
  intros t Hin.
  destruct (member_ok _ _ _ _ (Hm t Hin)) as (A & B & C & D).
  unfold check_sign in Hs. rewrite Hsh in Hs.
  destruct (forallb t_sig_ok ms) eqn:Sg; [|discriminate]. rewrite forallb_forall in Sg.
  unfold check_remote in Hr. rewrite Hsh in Hr. unfold members in Hr. rewrite Hsh in Hr.
  destruct (has_dup (map t_id ms) || existsb t_on_chain ms) eqn:Dp; [inversion Hr|].
  apply orb_false_iff in Dp as [_ Dp].
  repeat split; try assumption.
  - apply Sg. exact Hin.
  - destruct (t_on_chain t) eqn:O; [|reflexivity].
    assert (existsb t_on_chain ms = true) by (apply existsb_exists; exists t; split; assumption). congruence.
  - intro St. specialize (Hc t Hin). cbv beta in Hc. unfold check_one in Hc. rewrite St in Hc. simpl in Hc.
    destruct (t_chain_ok t); [reflexivity|discriminate].
  - intro He. apply (expired_chk_next c true t D). rewrite He. reflexivity.
Qed.

(** the wrapper of an accepted, not forwarded group is the group's first transaction:
    same hash, same signature, hence (consistent facts) the same pool entry *)
Lemma group_wrapper_is_head : forall c p s ms ok p', pipeline c p (STx s) = (R_OK, p') ->
  s_forward s = false -> s_shape s = Group ms ok ->
  exists h tl, ms = h :: tl /\ t_id (s_outer s) = t_id h /\ t_sigid (s_outer s) = t_sigid h
               /\ (facts_consistent s = true -> same_entry (s_outer s) h = true).
Proof.
  intros c p s ms ok p' H Hf Hsh.
  apply pipeline_ok_inv in H as (_ & Ht & _ & _).
  destruct (check_txs_group_inv _ _ _ _ _ Hsh Hf Ht) as (_ & _ & (h & tl & -> & Hh) & _).
  exists h, tl. split; [reflexivity|].
  pose proof Hh as Hh'. unfold is_group_head in Hh'. apply andb_true_iff in Hh' as [Hi Hs].
  apply N.eqb_eq in Hi. apply N.eqb_eq in Hs. repeat split; try assumption.
  intro Hc. destruct (fc_group _ _ _ Hsh Hc) as (Hw & _ & _). apply head_entry; assumption.
Qed.

(** a group whose wrapper differs from its first transaction in hash or signature is refused
    with the group-structure error, whatever else holds *)
Lemma foreign_wrapper_rejected : forall c p s h tl ok, c_synced c = true -> s_forward s = false ->
  s_shape s = Group (h :: tl) ok -> is_group_head (s_outer s) h = false ->
  exists r, pipeline c p (STx s) = (r, p) /\ r <> R_OK.
Proof.
  intros c p s h tl ok Hsy Hf Hsh Hh.
  destruct (pipeline c p (STx s)) as [r p'] eqn:E.
  destruct (N.eq_dec r R_OK) as [->|Hr].
  - exfalso. apply pipeline_ok_inv in E as (_ & Ht & _ & _).
    destruct (check_txs_group_inv _ _ _ _ _ Hsh Hf Ht) as (_ & _ & (h' & tl' & Heq & Hh') & _).
    inversion Heq; subst h' tl'. congruence.
  - exists r. split; [|exact Hr]. f_equal. exact (rejected_unchanged _ _ _ _ _ E Hr).
Qed.
