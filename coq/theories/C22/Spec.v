(** C22 — the property as an executable oracle: which submissions may enter the
    pool ("acceptable"), and what an EventTx may do to the pool. *)
From Coq Require Import List ZArith NArith Bool.
From C33 Require Import Lib.Harness C22.Model.
Import ListNotations.
Open Scope Z_scope.

(** expired for the next block (height+1, with the tip's block time) *)
Definition expired_next (c : config) (t : txf) : bool :=
  let v := t_expire t in
  if v =? 0 then false
  else if v <=? 1000000000 then v <=? c_height c + 1
  else if negb (c_para c) && c_txheight c && (4611686018427387904 <? v) then
    let th := v - 4611686018427387904 in
    (c_height c + 1 <? th - 200) || (th + 600 <? c_height c + 1)
  else v <=? c_blocktime c.

(** the fee a transaction of [size] bytes owes at [rate] per started kilobyte *)
Definition owed (rate : Z) (t : txf) : Z :=
  ((if t_has_sig t then t_size t else t_size t + 300) / 1000 + 1) * rate.

Definition owed_all (rate : Z) (ts : list txf) : Z :=
  fold_right (fun t a => owed rate t + a) 0 ts.

(** tiered rate: x100 when the pool holds 1/20 of a block in bytes or half a
    block in count, x10 at 1/100 resp. 1/10, capped by the configured maximum *)
Definition tier_rate (c : config) (p : pool) : Z :=
  let bytes := fold_right (fun t a => t_size t + a) 0 p in
  let n := Z.of_nat (length p) in
  let k := if (1000000 <=? bytes) || (c_maxtxnum c / 2 <=? n) then 100
           else if (200000 <=? bytes) || (c_maxtxnum c / 10 <=? n) then 10 else 1 in
  Z.min (k * c_minfee c) (c_maxrate c).

(** the transactions a submission puts on the chain *)
Definition txs_of (s : sub) : option (list txf) :=
  match s_shape s with
  | Plain => Some [s_outer s]
  | Group ms _ => Some ms
  | BadShape => None
  end.

Definition fee_meets (c : config) (p : pool) (s : sub) (ts : list txf) : bool :=
  (owed_all (c_minfee c) ts <=? t_fee (s_outer s))
  && (if c_level c then owed_all (tier_rate c p) ts <=? t_fee (s_outer s) else true).

Definition nonce_meets (c : config) (p : pool) (o : txf) : bool :=
  if t_eth o then
    (nonce_of (c_nonces c) (t_sender o) <=? t_nonce o)
    && negb (existsb (fun e => N.eqb (t_sender e) (t_sender o) && (t_nonce e =? t_nonce o)) p)
  else true.

(** the pool entry of a group is its first transaction: same hash, same signer
    (the hash does not cover the signature, so the signer is listed separately) *)
Definition same_entry (o h : txf) : bool :=
  N.eqb (t_id o) (t_id h) && N.eqb (t_sender o) (t_sender h) && Bool.eqb (t_eth o) (t_eth h)
  && (t_nonce o =? t_nonce h) && (t_fee o =? t_fee h).

Definition cl_entry (s : sub) : bool :=
  match s_shape s with
  | Plain => true
  | Group (h :: _) _ => same_entry (s_outer s) h
  | _ => false
  end.

(** the clauses of the property text, one by one ([ts]: the carried transactions) *)
Definition cl_sig (ts : list txf) : bool := forallb t_sig_ok ts.
Definition cl_fresh (p : pool) (s : sub) : bool :=
  negb (existsb (fun e => N.eqb (t_id e) (t_id (s_outer s))) p).
Definition cl_chain (ts : list txf) : bool := forallb (fun t => negb (t_on_chain t)) ts.
Definition cl_exp_on (c : config) (ts : list txf) : bool := forallb (fun t => negb (expired_next c t)) ts.
Definition cl_to (ts : list txf) : bool := forallb t_to_valid ts.
Definition cl_limit (c : config) (p : pool) (s : sub) : bool :=
  count_sender p (t_sender (s_outer s)) <? c_persender c.
(** an involved account is on the blacklist: sender, recipient, real recipient, evm targets *)
Definition listed (t : txf) : bool :=
  bl_from t || bl_to t || bl_realto t || (bl_evm t && (bl_evmaddr t || bl_evmpara t)).
Definition cl_black (ts : list txf) : bool := forallb (fun t => negb (listed t)) ts.

(** the carried transactions belong to one chain: no two of them name different parachain titles,
    and none with a title travels with one whose execer is not a parachain execer (ForkTxGroupPara) *)
Definition one_chain (ts : list txf) : bool :=
  forallb (fun a => forallb (fun b =>
     ((t_para a <? 2)%N || (t_para b <? 2)%N || N.eqb (t_para a) (t_para b))
     && negb ((2 <=? t_para a)%N && N.eqb (t_para b) 0)) ts) ts.
Definition cl_para (c : config) (ts : list txf) : bool := if c_parafork c then one_chain ts else true.

(** the clauses that are checked behind the forwarding shortcut *)
Definition acc_late (c : config) (p : pool) (s : sub) (ts : list txf) : bool :=
  cl_sig ts && cl_fresh p s && cl_chain ts && cl_limit c p s && nonce_meets c p (s_outer s).

(** the clauses that are checked before it *)
Definition acc_early_but (c : config) (p : pool) (s : sub) (ts : list txf) (fee exp : bool) : bool :=
  fee && exp && cl_to ts && cl_black ts && cl_para c ts.

(** [pt]: the pool that sets the fee tier; [p]: the pool for the other pool-dependent clauses *)
Definition acceptable_at (c : config) (pt p : pool) (s : sub) : bool :=
  match txs_of s with
  | None => false
  | Some ts =>
      cl_entry s && acc_late c p s ts
      && acc_early_but c p s ts (fee_meets c pt s ts) (cl_exp_on c ts)
  end.

Definition acceptable (c : config) (p : pool) (s : sub) : bool := acceptable_at c p p s.

Fixpoint insert_n (x : N) (l : list N) : list N :=
  match l with
  | [] => [x]
  | y :: tl => if (x <=? y)%N then x :: l else y :: insert_n x tl
  end.
Definition sort_n (l : list N) : list N := fold_right insert_n [] l.

(** what one EventTx may do: an accepting reply only for an acceptable
    submission, which then is the one new entry of the pool; any other reply
    leaves the pool as it was.  [before]/[after]: pool ids in ascending order. *)
Definition step_ok (c : config) (p : pool) (m : submission) (reply : N) (before after : list N) : bool :=
  if N.eqb reply R_OK then
    match m with
    | SNil => false
    | STx s => acceptable c p s && list_eqb N.eqb after (insert_n (t_id (s_outer s)) before)
    end
  else list_eqb N.eqb after before.
