(** C22 — correspondence cases: one history of EventTx submissions against one
    mempool instance, with the reply class and the pool membership the Go
    mempool reported after every submission. *)
From Coq Require Import List ZArith NArith Bool.
From C33 Require Import Lib.Harness C22.Model C22.Spec.
Import ListNotations.
Open Scope Z_scope.

(** step = (submission, reply class, ids present in the pool afterwards
    (ascending, among all hashes of the history), pool size afterwards) *)
Definition stepT : Type := (submission * N * list N * Z)%type.

Inductive case :=
| CHist (c : config) (steps : list stepT).

Definition ids_of (p : pool) : list N := sort_n (map t_id p).

(** known findings (codes of known_findings/C22.json): narrow signatures of an
    accepted submission that is not acceptable *)
Definition kf_code (c : config) (p : pool) (s : sub) : N :=
  match txs_of s with
  | None => 0%N
  | Some ts =>
      let late := acc_late c p s ts in
      let fee := fee_meets c p s ts in
      let ex := cl_exp_on c ts in
      if s_forward s then
        (* 1: forwarded on a parachain node; the checks behind the shortcut still hold *)
        (if c_para c && late then 1%N else 0%N)
      else if negb (cl_entry s) then
        (* a group wrapper that is not the group's first transaction: finding 2 is fixed
           (mempool isGroupHead), an accepted one is a violation *)
        0%N
      else if negb fee then
        (* 3: negative fee of a plain transaction under a zero minimum rate without tiered fee *)
        (match s_shape s with
         | Plain => if (c_minfee c =? 0) && negb (c_level c) && (t_fee (s_outer s) <? 0)
                       && late && acc_early_but c p s ts true ex then 3%N else 0%N
         | _ => 0%N
         end)
      else if negb ex then
        (* 4: group members whose header parses as an empty group are expired; all others are not *)
        (match s_shape s with
         | Group _ _ =>
             if forallb (fun t => t_hdr_empty t || negb (expired_next c t)) ts
                && late && acc_early_but c p s ts fee true then 4%N else 0%N
         | _ => 0%N
         end)
      else 0%N
  end.

(** the measured facts respect the relations the theorems assume ([facts_consistent]) *)
Definition msg_consistent (m : submission) : bool :=
  match m with STx s => facts_consistent s | SNil => true end.

Fixpoint check_steps_model (c : config) (pm : pool) (steps : list stepT) : bool :=
  match steps with
  | [] => true
  | (m, reply, present, size) :: tl =>
      match pipeline c pm m with
      | (rm, pm') =>
          N.eqb rm reply && list_eqb N.eqb (ids_of pm') present && (pool_size pm' =? size)
          && msg_consistent m && check_steps_model c pm' tl
      end
  end.

(** [pm]: model pool; [pi]: the implementation's pool as far as its replies and
    membership answers determine it *)
Fixpoint check_steps (c : config) (pm pi : pool) (steps : list stepT) : verdict :=
  match steps with
  | [] => ok_verdict
  | (m, reply, present, size) :: tl =>
      match pipeline c pm m with
      | (rm, pm') =>
          let agree := N.eqb rm reply && list_eqb N.eqb (ids_of pm') present && (pool_size pm' =? size)
                       && msg_consistent m in
          let pi' := if N.eqb reply R_OK then match m with STx s => pi ++ [s_outer s] | SNil => pi end else pi in
          let spec := step_ok c pi m reply (ids_of pi) present && (size =? Z.of_nat (length present)) in
          if spec then
            match check_steps c pm' pi' tl with
            | (a, s, k) => (agree && a, s, k)
            end
          else
            (* first divergence from the spec: classify it; the model must agree on the whole history *)
            let k := if N.eqb reply R_OK && list_eqb N.eqb present (ids_of pi')
                        && (size =? Z.of_nat (length present)) then
                       match m with STx s => kf_code c pi s | SNil => 0%N end
                     else 0%N in
            (agree && check_steps_model c pm' tl, false, k)
      end
  end.

Definition check_case (x : case) : verdict :=
  match x with
  | CHist c steps => check_steps c [] [] steps
  end.
