(** C22 — correspondence cases: one history of EventTx / EventAddDelayTx /
    EventAddBlock messages against one mempool instance, with the reply class
    and the pool membership the Go mempool reported after every message (for a
    block: after the delayed transactions it released have been answered). *)
From Coq Require Import List ZArith NArith Bool.
From C33 Require Import Lib.Harness C22.Model C22.Spec C22.ModelH C22.SpecH.
Import ListNotations.
Open Scope Z_scope.

(** step = (message, reply class (0 for a block), ids present in the pool afterwards
    (ascending, among all hashes of the history), pool size afterwards) *)
Definition stepT : Type := (op * N * list N * Z)%type.

Inductive case :=
| CHist (sc : scfg) (h0 : hdr) (steps : list stepT).

Definition ids_of (p : pool) : list N := sort_n (map t_id p).

(** known findings (codes of known_findings/C22.json): narrow signatures of an
    accepted submission that is not acceptable; [pt]/[p]: the pools of [acceptable_at] *)
Definition kf_code_at (c : config) (pt p : pool) (s : sub) : N :=
  match txs_of s with
  | None => 0%N
  | Some ts =>
      let late := acc_late c p s ts in
      let fee := fee_meets c pt s ts in
      let ex := cl_exp_on c ts in
      if s_forward s then
        (* 1: forwarded on a parachain node; the checks behind the shortcut still hold *)
        (if c_para c && late then 1%N else 0%N)
      else if negb (cl_entry s) then
        (* a group wrapper that is not the group's first transaction: finding 2 is fixed
           (mempool isGroupHead), an accepted one is a violation *)
        0%N
      else if negb fee then
        (* 3: negative fee of a plain transaction under a zero minimum rate without tiered fee *)
        (match s_shape s with
         | Plain => if (c_minfee c =? 0) && negb (c_level c) && (t_fee (s_outer s) <? 0)
                       && late && acc_early_but c p s ts true ex then 3%N else 0%N
         | _ => 0%N
         end)
      else if negb ex then
        (* 4: group members whose header parses as an empty group are expired; all others are not *)
        (match s_shape s with
         | Group _ _ =>
             if forallb (fun t => t_hdr_empty t || negb (expired_next c t)) ts
                && late && acc_early_but c p s ts fee true then 4%N else 0%N
         | _ => 0%N
         end)
      else 0%N
  end.

Definition kf_code (c : config) (p : pool) (s : sub) : N := kf_code_at c p p s.

(** a block step that fails the oracle: the finding of the first added entry that is not
    acceptable, provided every added entry is a delayed submission the oracle knows *)
Definition block_kf (sc : scfg) (ss : sstate) (b : blk) (present : list N) : N :=
  let c := view sc (hdr_update (ss_hdr ss) b) in
  match block_news ss b present with
  | Some (surv, news) =>
      let final := surv ++ map s_outer news in
      match filter (fun s => negb (acceptable_at c surv (without (t_id (s_outer s)) final) s)) news with
      | s :: _ => kf_code_at c surv (without (t_id (s_outer s)) final) s
      | [] => 0%N
      end
  | None => 0%N
  end.

(** the measured facts respect the relations the theorems assume ([facts_consistent]); delayed
    transactions are never ones to be forwarded (they would leave through a grpc client) *)
Definition op_consistent (o : op) : bool :=
  forallb facts_consistent (subs_of_op o)
  && match o with
     | OTx _ => true
     | _ => forallb (fun s => negb (s_forward s)) (subs_of_op o)
     end.

(** the pool-age rule (600 s) is outside the model: the clock stays inside that window *)
Definition clock_ok (h0 : hdr) (o : op) : bool :=
  match o with
  | OBlock b => (h_now h0 <=? b_now b) && (b_now b <? h_now h0 + 600)
  | _ => true
  end.

Definition step_agrees (sc : scfg) (h0 : hdr) (st : state) (x : stepT) : bool * state :=
  match x with
  | (o, reply, present, size) =>
      match hstep sc st o with
      | (rm, st', _) =>
          (N.eqb rm reply && list_eqb N.eqb (ids_of (st_pool st')) present && (pool_size (st_pool st') =? size)
           && op_consistent o && clock_ok h0 o, st')
      end
  end.

Fixpoint check_steps_model (sc : scfg) (h0 : hdr) (st : state) (steps : list stepT) : bool :=
  match steps with
  | [] => true
  | x :: tl =>
      match step_agrees sc h0 st x with
      | (a, st') => a && check_steps_model sc h0 st' tl
      end
  end.

(** [st]: model state; [ss]: the oracle's state, built from the implementation's answers only *)
Fixpoint check_steps (sc : scfg) (h0 : hdr) (st : state) (ss : sstate) (steps : list stepT) : verdict :=
  match steps with
  | [] => ok_verdict
  | ((o, reply, present, size) as x) :: tl =>
      match step_agrees sc h0 st x with
      | (agree, st') =>
          match hstep_ok sc ss o reply present with
          | (okb, ss') =>
              let spec := okb && (size =? Z.of_nat (length present)) in
              if spec then
                match check_steps sc h0 st' ss' tl with
                | (a, s, k) => (agree && a, s, k)
                end
              else
                (* first divergence from the spec: classify it; the model must agree on the whole history *)
                let k :=
                  if (size =? Z.of_nat (length present)) then
                    match o with
                    | OTx (STx s) =>
                        if N.eqb reply R_OK && list_eqb N.eqb present (ids_of (ss_pool ss'))
                        then kf_code (view sc (ss_hdr ss)) (ss_pool ss) s else 0%N
                    | OBlock b => block_kf sc ss b present
                    | _ => 0%N
                    end
                  else 0%N in
                (agree && check_steps_model sc h0 st' tl, false, k)
          end
      end
  end.

Definition check_case (x : case) : verdict :=
  match x with
  | CHist sc h0 steps => check_steps sc h0 (mkSt h0 [] []) (mkSS h0 [] []) steps
  end.
