(** C22 — proofs over histories (EventTx / EventAddDelayTx / EventAddBlock):
    every pool entry went through the admission pipeline at the header of its
    time, the delay cache holds no blacklisted transaction, and no pool entry
    is expired for the next block, however the header moves. *)
From Coq Require Import List ZArith NArith Bool Lia.
From C33 Require Import Lib.Harness C22.Model C22.Spec C22.Proofs C22.ModelH.
Import ListNotations.
Open Scope Z_scope.

(** ** one pipeline call *)
Lemma pipeline_cases : forall c p m r p', pipeline c p m = (r, p') ->
  (r <> R_OK /\ p' = p) \/ (r = R_OK /\ exists s, m = STx s /\ p' = p ++ [s_outer s]).
Proof.
  intros c p m r p' H. destruct (N.eq_dec r R_OK) as [-> |Hn].
  - right. split; [reflexivity|]. destruct (accepted_appends _ _ _ _ H) as (s & -> & -> & _). exists s. split; reflexivity.
  - left. split; [exact Hn|]. exact (rejected_unchanged _ _ _ _ _ H Hn).
Qed.

(** ** the delay cache *)
Lemma dc_add_in : forall cap dc s e r dc', dc_add cap dc s e = (r, dc') ->
  forall d, In d dc' -> In d dc \/ d = (s, e).
Proof.
  intros cap dc s e r dc' H d Hd. unfold dc_add in H.
  destruct (cap <=? Z.of_nat (length dc)); [inversion H; subst; left; exact Hd|].
  destruct (existsb _ dc); [inversion H; subst; left; exact Hd|].
  inversion H; subst. apply in_app_or in Hd as [Hd|[<-|[]]]; [left; exact Hd|right; reflexivity].
Qed.

Lemma delay_blocked_none_outer : forall s, delay_blocked s = None -> blocked_pos (s_outer s) = None.
Proof. intros s H. unfold delay_blocked in H. destruct (blocked_pos (s_outer s)); [discriminate|reflexivity]. Qed.

Lemma delay_step_in : forall sc dc dm r dc', delay_step sc dc dm = (r, dc') ->
  forall d, In d dc' -> In d dc \/ (In (fst d) (subs_of_op (ODelay dm)) /\ blocked_pos (s_outer (fst d)) = None).
Proof.
  intros sc dc dm r dc' H d Hd. unfold delay_step in H. destruct dm as [|e|s e].
  - inversion H; subst. left; exact Hd.
  - inversion H; subst. left; exact Hd.
  - destruct (delay_blocked s) as [q|] eqn:B; [inversion H; subst; left; exact Hd|].
    destruct (dc_add_in _ _ _ _ _ _ H d Hd) as [Hin| ->]; [left; exact Hin|].
    right. split; [left; reflexivity|exact (delay_blocked_none_outer _ B)].
Qed.

Lemma add_commits_in : forall cap b cs dc d, In d (add_commits cap b dc cs) ->
  In d dc \/ (In (fst d) (map (fun x => fst (fst x)) cs) /\ blocked_pos (s_outer (fst d)) = None).
Proof.
  intros cap b cs. induction cs as [|[[s rt] rh] tl IH]; intros dc d Hd; simpl in Hd.
  - left; exact Hd.
  - apply IH in Hd as [Hd|[Hd Hb]].
    + destruct (delay_blocked s) as [q|] eqn:B; [left; exact Hd|].
      destruct (dc_add cap dc s (commit_end b rt rh)) as [r dc'] eqn:A. simpl in Hd.
      destruct (dc_add_in _ _ _ _ _ _ A d Hd) as [Hin| ->]; [left; exact Hin|].
      right. split; [left; reflexivity|exact (delay_blocked_none_outer _ B)].
    + right. split; [right; exact Hd|exact Hb].
Qed.

Lemma ins_end_in : forall x l d, In d (ins_end x l) -> d = x \/ In d l.
Proof.
  intros x l. induction l as [|y tl IH]; intros d Hd; simpl in Hd.
  - destruct Hd as [<-|[]]. left; reflexivity.
  - destruct (snd x <? snd y).
    + destruct Hd as [<-|Hd]; [left; reflexivity|right; exact Hd].
    + destruct Hd as [<-|Hd]; [right; left; reflexivity|].
      apply IH in Hd as [-> |Hd]; [left; reflexivity|right; right; exact Hd].
Qed.

Lemma sort_end_in : forall l d, In d (sort_end l) -> In d l.
Proof.
  intros l d. unfold sort_end.
  assert (G : forall l acc, In d (fold_left (fun a x => ins_end x a) l acc) -> In d acc \/ In d l).
  { clear l. induction l as [|x tl IH]; intros acc Hd; simpl in Hd; [left; exact Hd|].
    apply IH in Hd as [Hd|Hd]; [|right; right; exact Hd].
    apply ins_end_in in Hd as [-> |Hd]; [right; left; reflexivity|left; exact Hd]. }
  intro Hd. apply G in Hd as [[]|Hd]. exact Hd.
Qed.

Lemma released_in : forall lbt cbt h dc s, In s (released lbt cbt h dc) -> In s (map fst dc).
Proof.
  intros lbt cbt h dc s Hs. unfold released in Hs. apply in_map_iff in Hs as (d & <- & Hd).
  apply in_map. apply in_app_or in Hd as [Hd|Hd].
  - apply sort_end_in in Hd. apply filter_In in Hd as [Hd _]. exact Hd.
  - apply filter_In in Hd as [Hd _]. exact Hd.
Qed.

Lemma kept_in : forall lbt cbt h dc d, In d (kept lbt cbt h dc) -> In d dc.
Proof. intros lbt cbt h dc d Hd. unfold kept in Hd. apply filter_In in Hd as [Hd _]. exact Hd. Qed.

(** ** the release loop *)
Definition log_item_ok (c : config) (srcs : list sub) (x : config * pool * sub) : Prop :=
  fst (fst x) = c /\ pipeline c (snd (fst x)) (STx (snd x)) = (R_OK, snd (fst x) ++ [s_outer (snd x)])
  /\ In (snd x) srcs /\ s_forward (snd x) = false.

Lemma submit_all_sound : forall c l p p' lg, submit_all c p l = (p', lg) ->
  (forall e, In e p' -> In e p \/ exists x, In x lg /\ e = s_outer (snd x))
  /\ (forall x, In x lg -> log_item_ok c l x).
Proof.
  intros c l. induction l as [|s tl IH]; intros p p' lg H; simpl in H.
  - inversion H; subst. split; [intros e He; left; exact He|intros x []].
  - destruct (s_forward s) eqn:Fw.
    + destruct (IH _ _ _ H) as [A B]. split; [exact A|].
      intros x Hx. destruct (B x Hx) as (X1 & X2 & X3 & X4). repeat split; try assumption. right; exact X3.
    + destruct (pipeline c p (STx s)) as [r p1] eqn:P.
      destruct (submit_all c p1 tl) as [p2 lg2] eqn:S. inversion H; subst p' lg. clear H.
      destruct (IH _ _ _ S) as [A B].
      destruct (pipeline_cases _ _ _ _ _ P) as [[Hn ->]|[-> (s0 & Hs0 & ->)]].
      * assert (E : N.eqb r R_OK = false) by (apply N.eqb_neq; exact Hn). rewrite E.
        split; [exact A|]. intros x Hx. destruct (B x Hx) as (X1 & X2 & X3 & X4).
        repeat split; try assumption. right; exact X3.
      * inversion Hs0; subst s0. simpl. split.
        -- intros e He. apply A in He as [He|(x & Hx & ->)].
           ++ apply in_app_or in He as [He|[<-|[]]]; [left; exact He|].
              right. exists (c, p, s). split; [left; reflexivity|reflexivity].
           ++ right. exists x. split; [right; exact Hx|reflexivity].
        -- intros x [<-|Hx].
           ++ repeat split; simpl; try assumption. left; reflexivity.
           ++ destruct (B x Hx) as (X1 & X2 & X3 & X4). repeat split; try assumption. right; exact X3.
Qed.

(** ** one message *)
Definition from_here (st : state) (o : op) (s : sub) : Prop :=
  In s (subs_of_op o) \/ In s (map fst (st_dc st)).

Lemma hstep_sound : forall sc st o r st' lg, hstep sc st o = (r, st', lg) ->
  (forall e, In e (st_pool st') -> In e (st_pool st) \/ exists x, In x lg /\ e = s_outer (snd x))
  /\ (forall x, In x lg -> (exists h, fst (fst x) = view sc h)
                           /\ pipeline (fst (fst x)) (snd (fst x)) (STx (snd x)) = (R_OK, snd (fst x) ++ [s_outer (snd x)])
                           /\ from_here st o (snd x))
  /\ (forall d, In d (st_dc st') ->
        In d (st_dc st) \/ (In (fst d) (subs_of_op o) /\ blocked_pos (s_outer (fst d)) = None)).
Proof.
  intros sc st o r st' lg H. destruct o as [m|dm|b]; simpl in H.
  - destruct (pipeline (view sc (st_hdr st)) (st_pool st) m) as [r1 p1] eqn:P.
    inversion H; subst r st' lg. clear H. simpl.
    destruct (pipeline_cases _ _ _ _ _ P) as [[Hn ->]|[-> (s & -> & ->)]].
    + assert (E : N.eqb r1 R_OK = false) by (apply N.eqb_neq; exact Hn).
      split; [intros e He; left; exact He|]. split; [|intros d Hd; left; exact Hd].
      intros x Hx. destruct m as [|s]; [destruct Hx|]. rewrite E in Hx. destruct Hx.
    + simpl. split.
      * intros e He. apply in_app_or in He as [He|[<-|[]]]; [left; exact He|].
        right. exists (view sc (st_hdr st), st_pool st, s). split; [left; reflexivity|reflexivity].
      * split; [|intros d Hd; left; exact Hd].
        intros x [<-|[]]. simpl. split; [exists (st_hdr st); reflexivity|]. split; [exact P|].
        left. left. reflexivity.
  - destruct (delay_step sc (st_dc st) dm) as [r1 dc1] eqn:D. inversion H; subst r st' lg. clear H. simpl.
    split; [intros e He; left; exact He|]. split; [intros x []|].
    intros d Hd. exact (delay_step_in _ _ _ _ _ D d Hd).
  - destruct (block_step sc st b) as [st1 lg1] eqn:B. inversion H; subst r st' lg. clear H.
    unfold block_step in B.
    destruct (submit_all _ _ _) as [p2 lg2] eqn:S in B. inversion B; subst st1 lg1. clear B. simpl.
    destruct (submit_all_sound _ _ _ _ _ S) as [A L].
    split.
    + intros e He. apply A in He as [He|He]; [|right; exact He].
      left. unfold block_clean in He. apply filter_In in He as [He _]. apply filter_In in He as [He _]. exact He.
    + split.
      * intros x Hx. destruct (L x Hx) as (X1 & X2 & X3 & _).
        split; [eexists; exact X1|]. rewrite X1. split; [exact X2|].
        apply released_in in X3. apply in_map_iff in X3 as (d & Hd1 & Hd2).
        apply add_commits_in in Hd2 as [Hd2|[Hd2 _]].
        -- right. rewrite <- Hd1. apply in_map. exact Hd2.
        -- left. simpl. rewrite <- Hd1. exact Hd2.
      * intros d Hd. apply kept_in in Hd. apply add_commits_in in Hd as [Hd|[Hd Hb]]; [left; exact Hd|].
        right. split; [exact Hd|exact Hb].
Qed.

(** ** whole histories *)
Lemma hrun_sound : forall sc ops st st' lg, hrun sc st ops = (st', lg) ->
  (forall e, In e (st_pool st') -> In e (st_pool st) \/ exists x, In x lg /\ e = s_outer (snd x))
  /\ (forall x, In x lg -> (exists h, fst (fst x) = view sc h)
                           /\ pipeline (fst (fst x)) (snd (fst x)) (STx (snd x)) = (R_OK, snd (fst x) ++ [s_outer (snd x)])
                           /\ (In (snd x) (subs_of ops) \/ In (snd x) (map fst (st_dc st))))
  /\ (forall d, In d (st_dc st') ->
        In d (st_dc st) \/ (In (fst d) (subs_of ops) /\ blocked_pos (s_outer (fst d)) = None)).
Proof.
  intros sc ops. induction ops as [|o tl IH]; intros st st' lg H; simpl in H.
  - inversion H; subst. split; [intros e He; left; exact He|]. split; [intros x []|intros d Hd; left; exact Hd].
  - destruct (hstep sc st o) as [[r st1] lg1] eqn:S.
    destruct (hrun sc st1 tl) as [st2 lg2] eqn:R. inversion H; subst st' lg. clear H.
    destruct (hstep_sound _ _ _ _ _ _ S) as (A1 & L1 & D1).
    destruct (IH _ _ _ R) as (A2 & L2 & D2).
    assert (DC : forall s, In s (map fst (st_dc st1)) -> In s (subs_of_op o) \/ In s (map fst (st_dc st))).
    { intros s Hs. apply in_map_iff in Hs as (d & <- & Hd). apply D1 in Hd as [Hd|[Hd _]].
      - right. apply in_map. exact Hd.
      - left. exact Hd. }
    split.
    + intros e He. apply A2 in He as [He|(x & Hx & ->)].
      * apply A1 in He as [He|(x & Hx & ->)]; [left; exact He|].
        right. exists x. split; [apply in_or_app; left; exact Hx|reflexivity].
      * right. exists x. split; [apply in_or_app; right; exact Hx|reflexivity].
    + split.
      * intros x Hx. apply in_app_or in Hx as [Hx|Hx].
        -- destruct (L1 x Hx) as (X1 & X2 & [X3|X3]); (split; [exact X1|]; split; [exact X2|]).
           ++ left. simpl. apply in_or_app. left. exact X3.
           ++ right. exact X3.
        -- destruct (L2 x Hx) as (X1 & X2 & [X3|X3]); (split; [exact X1|]; split; [exact X2|]).
           ++ left. simpl. apply in_or_app. right. exact X3.
           ++ apply DC in X3 as [X3|X3]; [left; simpl; apply in_or_app; left; exact X3|right; exact X3].
      * intros d Hd. apply D2 in Hd as [Hd|[Hd Hb]].
        -- apply D1 in Hd as [Hd|[Hd Hb]]; [left; exact Hd|].
           right. split; [simpl; apply in_or_app; left; exact Hd|exact Hb].
        -- right. split; [simpl; apply in_or_app; right; exact Hd|exact Hb].
Qed.
