(** C22 — executable model of the mempool admission pipeline, in the order the
    Go code runs it (system/mempool: eventTx, checkTxs, isGroupHead, checkTx, checkLevelFee,
    checkSign, checkTxRemote, evmTxNonceCheck, txCache.Push; types/tx.go: Check,
    CheckWithFork, check, GetRealFee, isExpire).  The model follows the code as
    it is.  Every elementary fact about a transaction is an input. *)
From Coq Require Import List ZArith NArith Bool.
From C33 Require C31.Model.
Import ListNotations.
Open Scope Z_scope.

(** the blacklist positions of types.checkTxBlockedAccountCore, as C31 names them *)
Notation pos := C31.Model.pos.
Notation PFrom := C31.Model.PFrom.       Notation PTo := C31.Model.PTo.
Notation PRealTo := C31.Model.PRealTo.   Notation PEvmAddr := C31.Model.PEvmAddr.
Notation PEvmPara := C31.Model.PEvmPara.

(** ** Elementary facts about one transaction (a plain transaction, the wrapper
    of a group, or a group member) *)
Record txf := mkTx {
  t_id : N;            (* identity of Transaction.Hash() *)
  t_sender : N;        (* identity of Transaction.From() *)
  t_has_sig : bool;    (* Signature != nil (GetRealFee adds 300 bytes otherwise) *)
  t_sig_ok : bool;     (* checkSign(height+1) succeeds *)
  t_to_valid : bool;   (* address.CheckAddress(To, height) = nil *)
  t_bl : N;            (* blacklist facts, one bit each: 0 From() listed, 1 To listed, 2 GetRealToAddr() differs
                          from To, 3 GetRealToAddr() listed, 4 real execer is evm and the payload decodes as an evm
                          action, 5 its ContractAddr is non-empty and listed, 6 its 20-byte Para is listed *)
  t_on_chain : bool;   (* the blockchain module reports the hash as already packed *)
  t_expire : Z;
  t_hdr_empty : bool;  (* Header decodes as a Transactions message without entries
                          (consulted by Transaction.IsExpire for a tx with GroupCount > 1) *)
  t_fee : Z;
  t_size : Z;          (* types.Size(tx) *)
  t_chain_ok : bool;   (* ChainID equals the configured chain id *)
  t_eth : bool;        (* signature type is an eth sign id *)
  t_nonce : Z;
  t_exec_ok : bool;    (* the executor module's CheckTx accepts *)
  t_sigid : N;         (* identity of the Signature message (sign type, public key, signature bytes); 0 = none *)
  t_para : N;          (* execer: 0 no "user.p." prefix, 1 prefix without a title (GetParaExecTitleName fails),
                          k >= 2 identity of the parachain title *)
  t_gexp : option (list Z)  (* GetTxGroup on this transaction yields a group (GroupCount > 1, the Header decodes):
                          the Expire values of the decoded transactions; None otherwise (no group, or an error).
                          Read by the expiry sweep on pool entries *)
}.

Definition bl_from (t : txf) := N.testbit (t_bl t) 0.
Definition bl_to (t : txf) := N.testbit (t_bl t) 1.
Definition bl_diff (t : txf) := N.testbit (t_bl t) 2.
Definition bl_realto (t : txf) := N.testbit (t_bl t) 3.
Definition bl_evm (t : txf) := N.testbit (t_bl t) 4.
Definition bl_evmaddr (t : txf) := N.testbit (t_bl t) 5.
Definition bl_evmpara (t : txf) := N.testbit (t_bl t) 6.

(** types.checkTxBlockedAccountCore / checkEVMTxBlockedTarget: the first position that hits *)
Definition blocked_pos (t : txf) : option pos :=
  if bl_from t then Some PFrom
  else if bl_to t then Some PTo
  else if bl_diff t && bl_realto t then Some PRealTo
  else if bl_evm t then
    (if bl_evmaddr t then Some PEvmAddr else if bl_evmpara t then Some PEvmPara else None)
  else None.

(** CheckTxBlockedAccountImmediate fails *)
Definition t_blocked (t : txf) : bool := match blocked_pos t with Some _ => true | None => false end.

(** shape of the submitted transaction, as Transaction.GetTxGroup sees it *)
Inductive shape :=
| Plain                                   (* GroupCount = 0, no Next / Header *)
| BadShape                                (* GetTxGroup fails: count <0, =1, >20; stray Next/Header; undecodable Header *)
| Group (ms : list txf) (struct_ok : bool).
    (* Header decodes to [ms]; [struct_ok]: header hash, group count and next chain are consistent *)

Record sub := mkSub {
  s_outer : txf;       (* the submitted transaction itself (for a group: Transactions.Tx(), the wrapper) *)
  s_shape : shape;
  s_forward : bool     (* types.IsForward2MainChainTx(cfg, tx) *)
}.

Inductive submission := SNil | STx (s : sub).

Fixpoint list_eq_z (a b : list Z) : bool :=
  match a, b with
  | [], [] => true
  | x :: a', y :: b' => (x =? y) && list_eq_z a' b'
  | _, _ => false
  end.

(** Relations between the facts of a wrapper [o] and of the group's first
    transaction [h] that hold by construction of the real objects: Hash()
    covers Nonce and Fee; From() and the sign type are functions of the
    Signature message. *)
Definition wrap_consistent (o h : txf) : bool :=
  (negb (N.eqb (t_id o) (t_id h)) || ((t_nonce o =? t_nonce h) && (t_fee o =? t_fee h)))
  && (negb (N.eqb (t_sigid o) (t_sigid h))
      || (N.eqb (t_sender o) (t_sender h) && Bool.eqb (t_eth o) (t_eth h))).

(** the real recipient is an address: when it is the recipient, it is listed iff the recipient is *)
Definition tx_consistent (t : txf) : bool := bl_diff t || Bool.eqb (bl_realto t) (bl_to t).

Definition facts_consistent (s : sub) : bool :=
  match s_shape s with
  | Group ms _ =>
      match ms with h :: _ => wrap_consistent (s_outer s) h | [] => true end
      && forallb tx_consistent ms
      && match t_gexp (s_outer s) with     (* the wrapper's Header is the encoded group *)
         | Some vs => list_eq_z vs (map t_expire ms)
         | None => false
         end
  | _ => tx_consistent (s_outer s) && match t_gexp (s_outer s) with None => true | Some _ => false end
  end.

Record config := mkCfg {
  c_synced : bool;
  c_para : bool;
  c_strict_chain : bool;   (* ForkTxChainIDStrict active at height+1 *)
  c_blockcheck : bool;     (* ForkBlockCheck active at height+1 *)
  c_txheight : bool;       (* TxHeight enabled and ForkTxHeight active at height+1 *)
  c_minfee : Z;            (* Mempool.MinTxFeeRate *)
  c_maxfee : Z;            (* GetMaxTxFee(height+1) *)
  c_level : bool;          (* Mempool.IsLevelFee *)
  c_maxrate : Z;           (* Mempool.MaxTxFeeRate *)
  c_maxtxnum : Z;          (* chain parameter MaxTxNumber *)
  c_persender : Z;         (* Mempool.MaxTxNumPerAccount *)
  c_cap : Z;               (* queue capacity *)
  c_execcheck : bool;      (* not DisableExecCheck *)
  c_height : Z;            (* header height *)
  c_blocktime : Z;         (* header block time *)
  c_now : Z;               (* types.Now().Unix() *)
  c_nonces : list (N * Z); (* current evm nonce per sender as reported by the rpc module; default 0 *)
  c_parafork : bool        (* ForkTxGroupPara active at height+1 *)
}.

(** reply classes *)
Definition R_OK : N := 0.          Definition R_NOTSYNC : N := 1.
Definition R_EMPTY : N := 2.       Definition R_MALFORMED : N := 3.
Definition R_CHAINID : N := 4.     Definition R_FEELOW : N := 5.
Definition R_FEEHIGH : N := 6.     Definition R_TOOBIG : N := 7.
Definition R_GRPFEE : N := 8.      Definition R_ADDR : N := 9.
Definition R_BLOCKED : N := 10.    Definition R_MANYTX : N := 11.
Definition R_EXPIRED : N := 12.    Definition R_SIGN : N := 13.
Definition R_DUP : N := 14.        Definition R_EXEC : N := 15.
Definition R_LOWNONCE : N := 16.   Definition R_NONCEPEND : N := 17.
Definition R_EXIST : N := 18.      Definition R_FULL : N := 19.
Definition R_PARACOUNT : N := 20.  Definition R_PARAMIX : N := 21.
Definition R_BL_TO : N := 22.      Definition R_BL_REALTO : N := 23.
Definition R_BL_EVMADDR : N := 24. Definition R_BL_EVMPARA : N := 25.

(** the reply class of ErrBlockedAccount by position (the error text names it) *)
Definition r_blocked (p : pos) : N :=
  match p with
  | PFrom => R_BLOCKED | PTo => R_BL_TO | PRealTo => R_BL_REALTO
  | PEvmAddr => R_BL_EVMADDR | PEvmPara => R_BL_EVMPARA
  end.

Definition pool := list txf.   (* pool entries in arrival order *)

Definition MaxTxSize : Z := 100000.
Definition MaxBlockSize : Z := 20000000.
Definition ExpireBound : Z := 1000000000.
Definition TxHeightFlag : Z := 4611686018427387904.
Definition LowAllowPackHeight : Z := 200.
Definition HighAllowPackHeight : Z := 600.

(** Transaction.GetRealFee *)
Definition real_fee (t : txf) (rate : Z) : option Z :=
  let sz := if t_has_sig t then t_size t else t_size t + 300 in
  if MaxTxSize <? sz then None else Some ((sz / 1000 + 1) * rate).

Fixpoint total_fee (ts : list txf) (rate : Z) : option Z :=
  match ts with
  | [] => Some 0
  | t :: tl =>
      match real_fee t rate with
      | None => None
      | Some f => match total_fee tl rate with None => None | Some g => Some (f + g) end
      end
  end.

(** Transaction.check *)
Definition check_one (c : config) (t : txf) (minfee : Z) : N :=
  if c_strict_chain c && negb (t_chain_ok t) then R_CHAINID
  else if minfee =? 0 then R_OK
  else match real_fee t minfee with
       | None => R_TOOBIG
       | Some rf =>
           if t_fee t <? rf then R_FEELOW
           else if (c_maxfee c <? t_fee t) && (0 <? c_maxfee c) && c_blockcheck c then R_FEEHIGH
           else if negb (t_chain_ok t) then R_CHAINID
           else R_OK
       end.

Fixpoint first_err {A} (f : A -> N) (l : list A) : N :=
  match l with
  | [] => R_OK
  | x :: tl => if N.eqb (f x) R_OK then first_err f tl else f x
  end.

(** the parachain titles named by the members' execers (the keys of the map [para] of CheckWithFork) *)
Definition titles (ms : list txf) : list N := filter (fun k => (2 <=? k)%N) (map t_para ms).
Definition multi_title (ms : list txf) : bool :=
  match titles ms with
  | [] => false
  | x :: tl => existsb (fun y => negb (N.eqb x y)) tl
  end.
Definition has_title (ms : list txf) : bool := match titles ms with [] => false | _ => true end.
(** some execer is not a parachain execer (no "user.p." prefix) *)
Definition has_main (ms : list txf) : bool := existsb (fun t => N.eqb (t_para t) 0) ms.

(** the parachain rules of Transactions.CheckWithFork (ForkTxGroupPara) *)
Definition check_para (c : config) (ms : list txf) : N :=
  if c_parafork c then
    if multi_title ms then R_PARACOUNT
    else if has_title ms && has_main ms then R_PARAMIX
    else R_OK
  else R_OK.

(** Transactions.CheckWithFork *)
Definition check_group (c : config) (ms : list txf) (struct_ok : bool) : N :=
  if (Z.of_nat (length ms) <? 2) then R_MALFORMED
  else
    let e := first_err (fun t => check_one c t 0) ms in
    if negb (N.eqb e R_OK) then e
    else if negb (N.eqb (check_para c ms) R_OK) then check_para c ms
    else if existsb (fun t => negb (t_fee t =? 0)) (tl ms) then R_GRPFEE
    else match total_fee ms (c_minfee c) with
         | None => R_TOOBIG
         | Some tot =>
             let f0 := match ms with t :: _ => t_fee t | [] => 0 end in
             if f0 <? tot then R_FEELOW
             else if (c_maxfee c <? f0) && (0 <? c_maxfee c) && c_blockcheck c then R_FEEHIGH
             else if struct_ok then R_OK else R_MALFORMED
         end.

(** TransactionCache.Check *)
Definition check_tx (c : config) (s : sub) : N :=
  match s_shape s with
  | BadShape => R_MALFORMED
  | Plain => check_one c (s_outer s) (c_minfee c)
  | Group ms ok => check_group c ms ok
  end.

Definition pool_bytes (p : pool) : Z := fold_right (fun t a => t_size t + a) 0 p.
Definition pool_size (p : pool) : Z := Z.of_nat (length p).

(** Mempool.getLevelFeeRate(base, 0, 0) *)
Definition level_rate (c : config) (p : pool) : Z :=
  let base := c_minfee c in
  let r :=
    if (MaxBlockSize / 20 <=? pool_bytes p) || (c_maxtxnum c / 2 <=? pool_size p) then 100 * base
    else if (MaxBlockSize / 100 <=? pool_bytes p) || (c_maxtxnum c / 10 <=? pool_size p) then 10 * base
    else base in
  if c_maxrate c <? r then c_maxrate c else r.

Definition members (s : sub) : list txf :=
  match s_shape s with Group ms _ => ms | _ => [s_outer s] end.

(** Mempool.checkLevelFee *)
Definition check_level (c : config) (p : pool) (s : sub) : N :=
  match total_fee (members s) (level_rate c p) with
  | None => R_TOOBIG
  | Some tot => if t_fee (s_outer s) <? tot then R_FEELOW else R_OK
  end.

Definition count_sender (p : pool) (a : N) : Z :=
  Z.of_nat (length (filter (fun e => N.eqb (t_sender e) a) p)).

(** Transaction.isExpire at the next block, on the Expire value *)
Definition is_expire_v (c : config) (v : Z) : bool :=
  let h := c_height c + 1 in
  if v =? 0 then false
  else if v <=? ExpireBound then v <=? h
  else if negb (c_para c) && c_txheight c && (TxHeightFlag <? v) then
    let th := v - TxHeightFlag in
    negb ((th - LowAllowPackHeight <=? h) && (h <=? th + HighAllowPackHeight))
  else v <=? c_blocktime c.

Definition is_expire (c : config) (t : txf) : bool := is_expire_v c (t_expire t).

(** Transaction.IsExpire on a pool entry (the submitted transaction itself; a group wrapper's
    Header is the encoded group): txCache.removeExpiredTx without the pool-age rule *)
Definition sweep_expired (c : config) (e : txf) : bool :=
  match t_gexp e with
  | None => is_expire c e
  | Some vs => existsb (is_expire_v c) vs
  end.

(** Mempool.checkExpireValid, negated.  [grp]: the transaction has GroupCount > 1,
    so that Transaction.IsExpire first decodes its Header as a group. *)
Definition expired_chk (c : config) (grp : bool) (t : txf) : bool :=
  (if grp && t_hdr_empty t then false else is_expire c t)
  || ((ExpireBound <? t_expire t) && (t_expire t <? c_now c + 60)).

(** Mempool.checkTx *)
Definition check_member (c : config) (p : pool) (grp : bool) (t : txf) : N :=
  if negb (t_to_valid t) then R_ADDR
  else match blocked_pos t with
  | Some p => r_blocked p
  | None =>
  if c_persender c <=? count_sender p (t_sender t) then R_MANYTX
  else if expired_chk c grp t then R_EXPIRED
  else R_OK
  end.

(** mempool isGroupHead: the wrapper is the group's first transaction, same hash and same signature *)
Definition is_group_head (o h : txf) : bool :=
  N.eqb (t_id o) (t_id h) && N.eqb (t_sigid o) (t_sigid h).

(** Mempool.checkTxs after the nil test *)
Definition check_txs (c : config) (p : pool) (s : sub) : N :=
  if s_forward s then R_OK
  else
    let e := check_tx c s in
    if negb (N.eqb e R_OK) then e
    else
      let e2 := if c_level c then check_level c p s else R_OK in
      if negb (N.eqb e2 R_OK) then e2
      else match s_shape s with
           | Group ms _ =>
               match ms with
               | h :: _ => if is_group_head (s_outer s) h then first_err (check_member c p true) ms
                           else R_MALFORMED
               | [] => R_MALFORMED   (* not reached: check_group has refused a group of less than two *)
               end
           | _ => check_member c p false (s_outer s)
           end.

(** Mempool.checkSign; a forwarded transaction reaches it without a shape test *)
Definition check_sign (s : sub) : N :=
  match s_shape s with
  | BadShape => R_SIGN
  | Plain => if t_sig_ok (s_outer s) then R_OK else R_SIGN
  | Group ms _ => if forallb t_sig_ok ms then R_OK else R_SIGN
  end.

Fixpoint has_dup (l : list N) : bool :=
  match l with
  | [] => false
  | x :: tl => existsb (N.eqb x) tl || has_dup tl
  end.

Fixpoint nonce_of (l : list (N * Z)) (a : N) : Z :=
  match l with
  | [] => 0
  | (k, v) :: tl => if N.eqb k a then v else nonce_of tl a
  end.

(** Mempool.evmTxNonceCheck (on the submitted transaction itself) *)
Definition nonce_chk (c : config) (p : pool) (o : txf) : N :=
  if negb (t_eth o) then R_OK
  else if t_nonce o <? nonce_of (c_nonces c) (t_sender o) then R_LOWNONCE
  else if existsb (fun e => N.eqb (t_sender e) (t_sender o) && negb (N.eqb (t_id e) (t_id o))
                            && (t_nonce e =? t_nonce o)) p then R_NONCEPEND
  else R_OK.

(** txCache.Push with a SimpleQueue *)
Definition push (c : config) (p : pool) (o : txf) : N * pool :=
  if c_persender c <=? count_sender p (t_sender o) then (R_MANYTX, p)
  else if existsb (fun e => N.eqb (t_id e) (t_id o)) p then (R_EXIST, p)
  else if c_cap c <=? pool_size p then (R_FULL, p)
  else (R_OK, p ++ [o]).

(** Mempool.checkTxRemote *)
Definition check_remote (c : config) (p : pool) (s : sub) : N * pool :=
  match s_shape s with
  | BadShape => (R_MALFORMED, p)
  | _ =>
    let ms := members s in
    if has_dup (map t_id ms) || existsb t_on_chain ms then (R_DUP, p)
    else if c_execcheck c && negb (t_exec_ok (s_outer s)) then (R_EXEC, p)
    else
      let e := nonce_chk c p (s_outer s) in
      if negb (N.eqb e R_OK) then (e, p) else push c p (s_outer s)
  end.

(** the whole pipeline for one EventTx message *)
Definition pipeline (c : config) (p : pool) (m : submission) : N * pool :=
  if negb (c_synced c) then (R_NOTSYNC, p)
  else match m with
       | SNil => (R_EMPTY, p)
       | STx s =>
           let e := check_txs c p s in
           if negb (N.eqb e R_OK) then (e, p)
           else
             let e2 := check_sign s in
             if negb (N.eqb e2 R_OK) then (e2, p)
             else check_remote c p s
       end.
