(** C22 — the blacklist facts of a transaction are the address-level tests of
    C31's model (types/account_blacklist.go), and [blocked_pos] is C31's
    [core]: the first position that hits. *)
From Coq Require Import List ZArith NArith Bool.
From C33 Require Import Lib.Harness C22.Model.
From C33 Require C31.Model.
Import ListNotations.

Module M31 := C31.Model.

Section Bridge.
  Variable cks : list N -> list N.   (* the 4-byte checksum of base58 addresses, as in C31 *)
  Variable set : list (list N).      (* the parsed blacklist *)

  Definition is_nil_b {A} (l : list A) : bool := match l with [] => true | _ => false end.

  (** the facts of C22's [t_bl], read off a transaction as C31 describes it *)
  Definition bl_agrees (t : txf) (u : M31.txf) : Prop :=
    bl_from t = M31.is_blocked cks set (M31.t_from u)
    /\ bl_to t = M31.is_blocked cks set (M31.t_to u)
    /\ bl_diff t = negb (bytes_eqb (M31.t_realto u) (M31.t_to u))
    /\ bl_realto t = M31.is_blocked cks set (M31.t_realto u)
    /\ bl_evm t = (M31.is_evm u && match M31.t_evm u with Some _ => true | None => false end)
    /\ bl_evmaddr t = match M31.t_evm u with
                      | Some (ca, _) => negb (is_nil_b ca) && M31.is_blocked cks set ca
                      | None => false
                      end
    /\ bl_evmpara t = match M31.t_evm u with
                      | Some (_, para) => M31.is_blocked_raw set para
                      | None => false
                      end.

  Lemma is_blocked_nil : forall s, set = [] -> M31.is_blocked cks set s = false.
  Proof. intros s ->. reflexivity. Qed.

  Lemma blocked_pos_is_core : forall t u, bl_agrees t u -> blocked_pos t = M31.core cks set u.
  Proof.
    intros t u (Hf & Ht & Hd & Hr & He & Ha & Hp).
    unfold blocked_pos, M31.core. rewrite Hf, Ht, Hd, Hr, He.
    destruct set as [|x tl] eqn:Hs.
    - (* empty list: nothing is listed *)
      change (M31.is_nil (@nil M31.bytes)) with true. cbv iota.
      unfold M31.is_blocked. cbn [M31.is_nil]. cbv iota. rewrite andb_false_r.
      destruct (M31.is_evm u); [|reflexivity]. simpl.
      destruct (M31.t_evm u) as [[ca para]|]; [|reflexivity].
      rewrite Ha, Hp. unfold M31.is_blocked, M31.is_blocked_raw. cbn [M31.is_nil].
      rewrite andb_false_r. cbn. rewrite andb_false_r. reflexivity.
    - change (M31.is_nil (x :: tl)) with false. cbv iota.
      destruct (M31.is_blocked cks (x :: tl) (M31.t_from u)); [reflexivity|].
      destruct (M31.is_blocked cks (x :: tl) (M31.t_to u)); [reflexivity|].
      destruct (negb (bytes_eqb (M31.t_realto u) (M31.t_to u)) && M31.is_blocked cks (x :: tl) (M31.t_realto u));
        [reflexivity|].
      unfold M31.evm_target. destruct (M31.is_evm u); [|reflexivity]. simpl.
      destruct (M31.t_evm u) as [[ca para]|]; [|reflexivity].
      rewrite Ha, Hp.
      replace (M31.is_nil ca) with (is_nil_b ca) by (destruct ca; reflexivity).
      destruct (negb (is_nil_b ca) && M31.is_blocked cks (x :: tl) ca); [reflexivity|].
      destruct (M31.is_blocked_raw (x :: tl) para); reflexivity.
  Qed.

  (** facts read off a real transaction are consistent: a real recipient equal to the recipient
      is listed iff the recipient is *)
  Lemma agrees_consistent : forall t u, bl_agrees t u -> tx_consistent t = true.
  Proof.
    intros t u (_ & Ht & Hd & Hr & _). unfold tx_consistent. rewrite Hd, Hr, Ht.
    destruct (bytes_eqb (M31.t_realto u) (M31.t_to u)) eqn:E; [|reflexivity]. simpl.
    apply list_eqb_spec in E; [|intros x y; apply N.eqb_eq]. rewrite E. apply eqb_reflx.
  Qed.

  Lemma positions_are_core : forall t u,
    bl_agrees t u -> blocked_pos t = M31.core cks set u /\ tx_consistent t = true.
  Proof. intros t u H. split; [exact (blocked_pos_is_core t u H)|exact (agrees_consistent t u H)]. Qed.
End Bridge.
