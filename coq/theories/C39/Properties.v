(** C39 — property theorems only. *)
From Coq Require Import List String Bool.
From C33 Require Import C39.Model C39.Spec C39.Proofs.

Theorem C39_jsonrpc_runs_implies_allowed : forall cfg reg remote rq fn,
  jsonrpc_run cfg reg remote rq = Some fn ->
  exists c, remote = Some c /\
            (is_loopback c = false -> may_run cfg EJrpc c fn (jr_auth rq) = true).
Proof. exact jsonrpc_runs_implies_allowed. Qed.
Print Assumptions C39_jsonrpc_runs_implies_allowed.

Theorem C39_jsonrpc_gate_sees_dispatched_method : forall cfg reg remote rq fn,
  jsonrpc_run cfg reg remote rq = Some fn ->
  exists m, jsonrpc_gate cfg remote rq = JPass m /\ fn = last_component dot m.
Proof. exact jsonrpc_gate_sees_dispatched_method. Qed.
Print Assumptions C39_jsonrpc_gate_sees_dispatched_method.

Theorem C39_grpc_runs_implies_allowed_refuted : ~ grpc_runs_implies_allowed_full.
Proof. exact grpc_runs_implies_allowed_refuted. Qed.
Print Assumptions C39_grpc_runs_implies_allowed_refuted.

Theorem C39_grpc_runs_implies_allowed_partial : forall cfg t c full fn,
  grpc_is_stream t full = false ->
  grpc_run cfg t c full = GRan fn -> is_loopback c = false ->
  may_run cfg EGrpc c fn AuthNone = true.
Proof. exact grpc_runs_implies_allowed_partial. Qed.
Print Assumptions C39_grpc_runs_implies_allowed_partial.

Theorem C39_eth_same_clients : forall cfg c,
  ip_list_configured cfg = true -> eth_ip_gate cfg c = ip_gate (init cfg) c.
Proof. exact eth_same_clients. Qed.
Print Assumptions C39_eth_same_clients.

Theorem C39_eth_no_list_serves_all : forall cfg c,
  ip_list_configured cfg = false -> eth_ip_gate cfg c = true.
Proof. exact eth_no_list_serves_all. Qed.
Print Assumptions C39_eth_no_list_serves_all.
