(** C39 — proofs. *)
From Coq Require Import List String Ascii Bool NArith.
From C33 Require Import C39.Model C39.Spec.
Import ListNotations.
Open Scope string_scope.

(** * helpers *)

Lemma mem_app : forall s a b, mem s (a ++ b)%list = mem s a || mem s b.
Proof. intros s a b. unfold mem. apply existsb_app. Qed.

Lemma is_star_eq : forall l, is_star l = true -> l = ["*"].
Proof.
  intros [|s [|t l]] H; simpl in H; try discriminate.
  apply String.eqb_eq in H. now subst.
Qed.

Lemma is_nil_eq : forall (l : list string), is_nil l = true -> l = [].
Proof. intros [|x l] H; [reflexivity|discriminate]. Qed.

Lemma configured_ips_app : forall cfg,
  is_nil (c_whitelist cfg) && is_nil (c_whitlist cfg) = false ->
  configured_ips cfg = (c_whitelist cfg ++ c_whitlist cfg)%list.
Proof.
  intros cfg H. unfold configured_ips.
  destruct (c_whitelist cfg) as [|x wl]; destruct (c_whitlist cfg) as [|y wh];
    simpl in *; try reflexivity. discriminate.
Qed.

(** * the IP gate of the JSON-RPC and gRPC endpoints only lets listed addresses in *)

Lemma ip_gate_allowed : forall cfg c,
  is_loopback c = false -> ip_gate (init cfg) c = true -> ip_allowed cfg c = true.
Proof.
  intros cfg c Hlb Hg. unfold ip_gate in Hg. rewrite Hlb in Hg. simpl in Hg.
  unfold init_ip in Hg. unfold ip_allowed.
  destruct (is_nil (c_whitelist cfg) && is_nil (c_whitlist cfg)) eqn:Hnil.
  - (* nothing configured: 127.0.0.1 only *)
    apply andb_true_iff in Hnil as [H1 H2].
    apply is_nil_eq in H1. apply is_nil_eq in H2.
    unfold configured_ips. rewrite H1, H2. simpl app. cbv iota.
    apply orb_true_iff in Hg as [Hg|Hg].
    + vm_compute in Hg. discriminate.
    + rewrite Hg. now rewrite !orb_true_r.
  - rewrite (configured_ips_app cfg Hnil). rewrite !mem_app.
    destruct (is_star (c_whitelist cfg)) eqn:Hs1.
    { apply is_star_eq in Hs1. rewrite Hs1. reflexivity. }
    destruct (is_star (c_whitlist cfg)) eqn:Hs2.
    { apply is_star_eq in Hs2. rewrite Hs2.
      replace (mem "*" ["*"]) with true by reflexivity.
      now rewrite orb_true_r. }
    destruct (negb (is_nil (c_whitelist cfg))) eqn:Hn1.
    + apply orb_true_iff in Hg as [Hg|Hg]; rewrite Hg;
        rewrite ?orb_true_r; reflexivity.
    + apply orb_true_iff in Hg as [Hg|Hg]; rewrite Hg;
        rewrite ?orb_true_r; reflexivity.
Qed.

(** * function lists *)

Lemma fn_lists_allowed : forall wl bl fn,
  mem fn (init_fb bl) = false ->
  mem "*" (init_fw wl) || mem fn (init_fw wl) = true ->
  fn_allowed wl bl fn = true.
Proof.
  intros wl bl fn Hb Hw. unfold fn_allowed.
  apply andb_true_iff. split.
  - unfold init_fb in Hb. destruct (is_nil bl) eqn:Hn.
    + apply is_nil_eq in Hn. now subst.
    + now rewrite Hb.
  - unfold init_fw in Hw. destruct (is_nil wl) eqn:Hn; [reflexivity|].
    destruct (is_star wl) eqn:Hs.
    + apply is_star_eq in Hs. subst. reflexivity.
    + simpl. exact Hw.
Qed.

(** * JSON-RPC *)

Lemma dispatch_last_component : forall reg rq fn fs m e,
  jr_body rq = BObj fs -> decode_method fs "" false = (m, e) ->
  jsonrpc_dispatch reg rq = Some fn -> fn = last_component dot m.
Proof.
  intros reg rq fn fs m e Hb Hd H. unfold jsonrpc_dispatch in H.
  rewrite Hb, Hd in H. destruct e; [discriminate|].
  unfold last_component. destruct (split_last dot m) as [[svc|] l]; [|discriminate].
  simpl. destruct (_ && _) in H; [|discriminate]. now inversion H.
Qed.

(** gate and dispatcher agree on the method: what runs is the last dot component
    of the method string the gate checked *)
Theorem jsonrpc_gate_sees_dispatched_method : forall cfg reg remote rq fn,
  jsonrpc_run cfg reg remote rq = Some fn ->
  exists m, jsonrpc_gate cfg remote rq = JPass m /\ fn = last_component dot m.
Proof.
  intros cfg reg remote rq fn H. unfold jsonrpc_run in H.
  destruct (jsonrpc_gate cfg remote rq) eqn:Hg; try discriminate.
  exists m. split; [reflexivity|].
  unfold jsonrpc_gate in Hg. destruct remote as [c|]; [|discriminate].
  destruct (negb (ip_gate (init cfg) c)); [discriminate|].
  destruct (negb (auth_gate cfg (jr_auth rq))); [discriminate|].
  destruct (negb (jr_path_root rq)); [discriminate|].
  destruct (jr_body rq) as [fs|] eqn:Hb; [|discriminate].
  destruct (decode_method fs "" false) as [m' e] eqn:Hd.
  destruct (e || gate_other_err fs); [discriminate|].
  destruct (negb (is_loopback c) && _); [discriminate|].
  inversion Hg; subst m'. eapply dispatch_last_component; eauto.
Qed.

Theorem jsonrpc_runs_implies_allowed : forall cfg reg remote rq fn,
  jsonrpc_run cfg reg remote rq = Some fn ->
  exists c, remote = Some c /\
            (is_loopback c = false -> may_run cfg EJrpc c fn (jr_auth rq) = true).
Proof.
  intros cfg reg remote rq fn H.
  destruct (jsonrpc_gate_sees_dispatched_method _ _ _ _ _ H) as [m [Hg Hfn]].
  unfold jsonrpc_gate in Hg. destruct remote as [c|]; [|discriminate].
  exists c. split; [reflexivity|]. intro Hlb.
  destruct (ip_gate (init cfg) c) eqn:Hip; simpl in Hg; [|discriminate].
  destruct (auth_gate cfg (jr_auth rq)) eqn:Hau; simpl in Hg; [|discriminate].
  destruct (negb (jr_path_root rq)); [discriminate|].
  destruct (jr_body rq) as [fs|] eqn:Hb; [|discriminate].
  destruct (decode_method fs "" false) as [m' e] eqn:Hd.
  destruct (e || gate_other_err fs); [discriminate|].
  rewrite Hlb in Hg. simpl negb in Hg. rewrite andb_true_l in Hg.
  destruct (mem (last_component dot m') (init_fb (c_jfb cfg))) eqn:Hbl;
    simpl in Hg; [discriminate|].
  destruct (mem "*" (init_fw (c_jfw cfg)) || mem (last_component dot m') (init_fw (c_jfw cfg))) eqn:Hwl;
    simpl in Hg; [|discriminate].
  inversion Hg; subst m'. subst fn.
  unfold may_run. rewrite (ip_gate_allowed cfg c Hlb Hip).
  rewrite (fn_lists_allowed _ _ _ Hbl Hwl).
  unfold auth_ok. unfold auth_gate in Hau. rewrite Hau. reflexivity.
Qed.

(** * gRPC *)

Lemma split_last_strip : forall s svc m,
  split_last slash (strip_slash s) = (Some svc, m) -> last_component slash s = m.
Proof.
  intros s svc m H. unfold last_component. destruct s as [|c tl]; simpl in *.
  - discriminate.
  - destruct (Ascii.eqb c slash) eqn:Hc.
    + rewrite H. reflexivity.
    + simpl in H. destruct (split_last slash tl) as [[p|] l].
      * inversion H. reflexivity.
      * rewrite Hc in H. discriminate.
Qed.

Lemma glookup_name : forall t svc m x,
  glookup t svc m = GUnary x \/ glookup t svc m = GStream x -> x = m.
Proof.
  induction t as [|[[s n] str] tl IH]; intros svc m x H; simpl in H.
  - destruct H; discriminate.
  - destruct (String.eqb s svc && String.eqb n m).
    + destruct str; destruct H as [H|H]; simpl in H; inversion H; reflexivity.
    + eapply IH; eauto.
Qed.

(** full statement: every gRPC method that runs for a non-loopback client is allowed *)
Definition grpc_runs_implies_allowed_full : Prop :=
  forall cfg t c full fn,
    grpc_run cfg t c full = GRan fn -> is_loopback c = false ->
    may_run cfg EGrpc c fn AuthNone = true.

Definition refute_cfg : config :=
  mkConfig ["10.39.1.1"] [] [] [] [] ["SubEvent"] "" "".
Definition refute_tbl : gtable :=
  [("types.chain33", "Version", false); ("types.chain33", "SubEvent", true)].

(** the unary interceptor is the only gate; a server-streaming method (SubEvent) runs
    for an address that is not on the list, even when the method is blacklisted *)
Theorem grpc_runs_implies_allowed_refuted : ~ grpc_runs_implies_allowed_full.
Proof.
  intro H.
  specialize (H refute_cfg refute_tbl (V4 192 0 2 2) "/types.chain33/SubEvent" "SubEvent"
                eq_refl eq_refl).
  vm_compute in H. discriminate.
Qed.

Theorem grpc_runs_implies_allowed_partial : forall cfg t c full fn,
  grpc_is_stream t full = false ->
  grpc_run cfg t c full = GRan fn -> is_loopback c = false ->
  may_run cfg EGrpc c fn AuthNone = true.
Proof.
  intros cfg t c full fn Hns H Hlb.
  unfold grpc_run in H. unfold grpc_is_stream in Hns.
  destruct (grpc_dispatch t full) as [|x|x] eqn:Hd; try discriminate.
  assert (Hx : x = last_component slash full).
  { unfold grpc_dispatch in Hd.
    destruct (split_last slash (strip_slash full)) as [[svc|] m] eqn:Hs; [|discriminate].
    rewrite (split_last_strip _ _ _ Hs).
    eapply glookup_name. left. exact Hd. }
  unfold grpc_auth, grpc_func_valid in H.
  destruct (ip_gate (init cfg) c) eqn:Hip; cbn [negb] in H; cbv iota in H; [|discriminate].
  destruct (mem (last_component slash full) (s_gb (init cfg))) eqn:Hbl;
    cbn [negb] in H; cbv iota in H; [discriminate|].
  destruct (mem "*" (s_gw (init cfg)) || mem (last_component slash full) (s_gw (init cfg))) eqn:Hwl;
    cbn [negb] in H; cbv iota in H; [|discriminate].
  inversion H; subst fn. subst x.
  unfold may_run. rewrite (ip_gate_allowed cfg c Hlb Hip).
  simpl in Hbl, Hwl. now rewrite (fn_lists_allowed _ _ _ Hbl Hwl).
Qed.

(** * eth gate against the IP gate of the other two endpoints *)

Lemma existsb_eth : forall t l,
  existsb (fun a => String.eqb a "0.0.0.0" || String.eqb a t) l
  = mem "0.0.0.0" l || mem t l.
Proof.
  intros t l. unfold mem. induction l as [|a l IH]; [reflexivity|].
  cbn [existsb]. rewrite IH.
  rewrite (String.eqb_sym "0.0.0.0" a), (String.eqb_sym t a).
  destruct (String.eqb a "0.0.0.0"), (String.eqb a t),
    (existsb (String.eqb "0.0.0.0") l), (existsb (String.eqb t) l); reflexivity.
Qed.

(** for a non-empty IP list under either key the eth gate lets in exactly the
    addresses the JSON-RPC and gRPC gates let in *)
Theorem eth_same_clients : forall cfg c,
  ip_list_configured cfg = true -> eth_ip_gate cfg c = ip_gate (init cfg) c.
Proof.
  intros cfg c Hcfg. unfold ip_list_configured in Hcfg.
  unfold eth_ip_gate, eth_list, ip_gate. simpl s_ip. unfold init_ip.
  rewrite <- orb_assoc. f_equal.
  destruct (is_nil (c_whitelist cfg)) eqn:Hn1;
    destruct (is_nil (c_whitlist cfg)) eqn:Hn2; simpl in Hcfg; try discriminate; clear Hcfg.
  - (* list under "whitlist" only *)
    apply is_nil_eq in Hn1. rewrite Hn1. simpl. rewrite Hn2.
    destruct (is_star (c_whitlist cfg)); [reflexivity|]. simpl. apply existsb_eth.
  - (* list under "whitelist" only *)
    apply is_nil_eq in Hn2. rewrite Hn2. simpl. rewrite Hn1. simpl.
    destruct (is_star (c_whitelist cfg)); [reflexivity|]. apply existsb_eth.
  - (* both keys *)
    simpl. destruct (is_star (c_whitlist cfg)) eqn:Hs2.
    + rewrite Hn2, Hs2. simpl. destruct (is_star (c_whitelist cfg)); reflexivity.
    + rewrite Hn1. simpl.
      destruct (is_star (c_whitelist cfg)); [reflexivity|]. apply existsb_eth.
Qed.

(** the behaviour the eth endpoint keeps: no IP list at all = every address is served
    (the other two endpoints then serve 127.0.0.1 only) *)
Theorem eth_no_list_serves_all : forall cfg c,
  ip_list_configured cfg = false -> eth_ip_gate cfg c = true.
Proof.
  intros cfg c Hcfg. unfold ip_list_configured in Hcfg.
  apply orb_false_iff in Hcfg as [H1 H2].
  apply negb_false_iff in H1. apply negb_false_iff in H2.
  unfold eth_ip_gate, eth_list. rewrite H1. simpl. rewrite H2. simpl.
  apply orb_true_r.
Qed.

(** * non-vacuity *)

Definition ex_cfg : config :=
  mkConfig ["192.0.2.2"; "fd39::1"] [] ["Version"; "IsSync"] ["Version"] ["IsSync"] [] "u" "p".

Definition ex_req : jreq :=
  mkJreq true (AuthCreds "u" "p")
         (BObj [("method", JStr "Chain33.CloseQueue"); ("METHOD", JStr "X.Chain33.Version");
                ("method", JNull); ("params", JArrOk); ("id", JNumU)]).

(** a non-loopback, listed client with credentials runs Version (duplicate keys: last one wins) *)
Example jsonrpc_runs_nonvacuous :
  is_loopback (V4 192 0 2 2) = false /\
  jsonrpc_run ex_cfg ["Version"; "IsSync"; "CloseQueue"] (Some (V4 192 0 2 2))
              (mkJreq true (AuthCreds "u" "p")
                 (BObj [("method", JStr "Chain33.CloseQueue"); ("METHOD", JStr "Chain33.Version");
                        ("method", JNull); ("params", JArrOk); ("id", JNumU)]))
  = Some "Version".
Proof. vm_compute. split; reflexivity. Qed.

(** ... the gate looks at the last component even when the dispatcher will not find the service *)
Example jsonrpc_gate_example :
  jsonrpc_gate ex_cfg (Some (V6 [253;57;0;0;0;0;0;0;0;0;0;0;0;0;0;1]%N "fd39::1")) ex_req
  = JPass "X.Chain33.Version"
  /\ jsonrpc_run ex_cfg ["Version"] (Some (V4 192 0 2 2)) ex_req = None
  /\ jsonrpc_gate ex_cfg (Some (V4 192 0 2 2))
        (mkJreq true (AuthCreds "u" "p") (BObj [("method", JStr "Chain33.IsSync"); ("params", JArrOk)]))
     = JRejMethod
  /\ jsonrpc_gate ex_cfg (Some (V4 192 0 2 2))
        (mkJreq true (AuthCreds "u" "x") (BObj [("method", JStr "Chain33.Version"); ("params", JArrOk)]))
     = JRejAuth
  /\ jsonrpc_gate ex_cfg (Some (V4 10 39 1 1)) ex_req = JRejIP.
Proof. vm_compute. repeat split; reflexivity. Qed.

Example grpc_partial_nonvacuous :
  grpc_is_stream refute_tbl "/types.chain33/Version" = false /\
  grpc_run ex_cfg refute_tbl (V4 192 0 2 2) "/types.chain33/Version" = GRan "Version" /\
  grpc_run ex_cfg refute_tbl (V4 10 39 1 1) "/types.chain33/Version" = GRejIP /\
  grpc_run ex_cfg refute_tbl (V4 192 0 2 2) "/types.chain33/IsSync" = GUnimpl.
Proof. vm_compute. repeat split; reflexivity. Qed.

(** lists under "whitlist" only, and a whitlist star next to a restrictive whitelist:
    the two configurations on which the eth gate used to differ from the other gates *)
Example eth_same_clients_nonvacuous :
  let only_whitlist := mkConfig [] ["10.39.1.1"] [] [] [] [] "" "" in
  let star_beside := mkConfig ["10.39.1.1"] ["*"] [] [] [] [] "" "" in
  ip_list_configured ex_cfg = true /\
  eth_ip_gate ex_cfg (V4 192 0 2 2) = true /\ eth_ip_gate ex_cfg (V4 10 39 1 1) = false /\
  eth_ip_gate ex_cfg (V4Mapped 192 0 2 2) = true /\
  ip_list_configured only_whitlist = true /\
  eth_ip_gate only_whitlist (V4 192 0 2 2) = false /\ eth_ip_gate only_whitlist (V4 10 39 1 1) = true /\
  ip_list_configured star_beside = true /\
  eth_ip_gate star_beside (V4 192 0 2 2) = true.
Proof. vm_compute. repeat split; reflexivity. Qed.
