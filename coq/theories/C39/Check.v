(** C39 — correspondence cases: one generated configuration, one request, and what
    the real servers did with it. *)
From Coq Require Import List String Bool NArith.
From C33 Require Export Lib.Harness C39.Model C39.Spec C39.Dict.
Import ListNotations.
Open Scope string_scope.

Inductive jclass := OJRejIP | OJRejAuth | OJRejMethod | OJRejParse | OJPassed.
Inductive gclass := OGRejIP | OGRejMethod | OGUnimpl | OGPassed.
Inductive eclass := OEOptions | OEForbidden | OEServed.

Inductive case :=
| CJ (cfg : config) (registered : list string) (remote : client) (rq : jreq)
     (cls : jclass) (spy : list string)
     (* JSON-RPC over TCP: response class and the API methods the spy saw *)
| CG (cfg : config) (tbl : gtable) (remote : client) (full : string)
     (cls : gclass) (spy : list string)
| CE (cfg : config) (is_options : bool) (remote : option client)
     (cls : eclass) (ipgate : bool)
     (* eth gate outcome, and rpc.CheckIPWhitelist on the same host string *)
| CI (cfg : config) (c : client) (ipgate : bool)
| CDict (l : list string).
     (* the harness's copy of the string dictionary (cases refer to strings as [d k]) *)

Definition jclass_eqb (a b : jclass) : bool :=
  match a, b with
  | OJRejIP, OJRejIP | OJRejAuth, OJRejAuth | OJRejMethod, OJRejMethod
  | OJRejParse, OJRejParse | OJPassed, OJPassed => true
  | _, _ => false
  end.
Definition gclass_eqb (a b : gclass) : bool :=
  match a, b with
  | OGRejIP, OGRejIP | OGRejMethod, OGRejMethod | OGUnimpl, OGUnimpl | OGPassed, OGPassed => true
  | _, _ => false
  end.
Definition eclass_eqb (a b : eclass) : bool :=
  match a, b with
  | OEOptions, OEOptions | OEForbidden, OEForbidden | OEServed, OEServed => true
  | _, _ => false
  end.

Definition strs_eqb : list string -> list string -> bool := list_eqb String.eqb.

(** model prediction for a JSON-RPC request *)
Definition j_expect (cfg : config) (reg : list string) (c : client) (rq : jreq)
  : jclass * list string :=
  match jsonrpc_gate cfg (Some c) rq with
  | JRejIP => (OJRejIP, [])
  | JRejAuth => (OJRejAuth, [])
  | JRejParse => (OJRejParse, [])
  | JRejMethod => (OJRejMethod, [])
  | JIgnoredPath => (OJPassed, [])
  | JPass _ =>
      (OJPassed, match jsonrpc_dispatch reg rq with Some fn => [fn] | None => [] end)
  end.

Definition g_expect (cfg : config) (t : gtable) (c : client) (full : string)
  : gclass * list string :=
  match grpc_run cfg t c full with
  | GRejIP => (OGRejIP, [])
  | GRejMethod => (OGRejMethod, [])
  | GUnimpl => (OGUnimpl, [])
  | GRan m => (OGPassed, [m])
  end.

(** the spy only sees the types.chain33 service; methods of other services
    (reflection) are observed as "passed" with an empty spy list *)
Definition g_spy_visible (t : gtable) (full : string) (l : list string) : list string :=
  match split_last slash (strip_slash full) with
  | (Some svc, _) => if String.eqb svc "types.chain33" then l else []
  | _ => l
  end.

Definition e_expect (cfg : config) (opt : bool) (remote : option client) : eclass :=
  match eth_serve cfg opt remote with
  | EOptions => OEOptions | EForbidden => OEForbidden | EServed => OEServed
  end.

(** known-finding codes (known_findings/C39.json):
    3  gRPC streaming method ran without passing the gate
    (codes 1 and 2, the eth gate ignoring "whitlist" and its star, are fixed in /repo and
    no longer classified: an eth/other-gate difference is a plain spec failure) *)
Definition check_case (c : case) : verdict :=
  match c with
  | CJ cfg reg cl rq cls spy =>
      let '(ecls, espy) := j_expect cfg reg cl rq in
      let m := jclass_eqb cls ecls && strs_eqb spy espy in
      let s := is_loopback cl
               || forallb (fun fn => may_run cfg EJrpc cl fn (jr_auth rq)) spy in
      mk_verdict m s
  | CG cfg t cl full cls spy =>
      let '(ecls, espy) := g_expect cfg t cl full in
      let m := gclass_eqb cls ecls && strs_eqb spy (g_spy_visible t full espy) in
      (* what ran: the spy's list, or (for services without spy) the dispatched method *)
      let ran := match cls with
                 | OGPassed => match grpc_dispatch t full with
                               | GUnary x | GStream x => [x] | GNone => spy end
                 | _ => spy
                 end in
      let s := is_loopback cl
               || forallb (fun fn => may_run cfg EGrpc cl fn AuthNone) (ran ++ spy) in
      (m, s, if s then 0%N else if grpc_is_stream t full then 3%N else 0%N)
  | CE cfg opt remote cls ipg =>
      let m := eclass_eqb cls (e_expect cfg opt remote)
               && match remote with
                  | Some cl => Bool.eqb ipg (ip_gate (init cfg) cl)
                  | None => negb ipg
                  end in
      let s := match remote with
               | Some cl =>
                   if ip_list_configured cfg && negb opt
                   then Bool.eqb (eclass_eqb cls OEServed) ipg
                   else true
               | None => true
               end in
      mk_verdict m s
  | CI cfg cl ipg =>
      let m := Bool.eqb ipg (ip_gate (init cfg) cl) in
      let s := is_loopback cl || negb ipg || ip_allowed cfg cl in
      mk_verdict m s
  | CDict l => mk_verdict (list_eqb String.eqb l dict) true
  end.
