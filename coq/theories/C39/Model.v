(** C39 — executable model of the RPC access-control decision logic of
    /repo/rpc (http.go, server.go) and /repo/rpc/ethrpc/rpc.go, as coded.

    Oracles (not modelled, observed through the harness): TOML decoding of the
    configuration, net.SplitHostPort / net.ParseIP (the client address arrives
    classified as [client]), HTTP header parsing and base64 (the Authorization
    header arrives classified as [auth_in]), the JSON tokenizer (the body
    arrives as an ordered key/value-class list), protobuf / HTTP2 framing, and
    the method tables of the two dispatchers (net/rpc service "Chain33", the
    grpc.Server service table).  No proofs in this file. *)
From Coq Require Import List String Ascii NArith Bool.
Import ListNotations.
Open Scope string_scope.

(** * Small string helpers *)

Definition mem (s : string) (l : list string) : bool := existsb (String.eqb s) l.

Definition is_nil {A} (l : list A) : bool := match l with [] => true | _ => false end.

(** [len(l) == 1 && l[0] == "*"] *)
Definition is_star (l : list string) : bool :=
  match l with [s] => String.eqb s "*" | _ => false end.

Definition lower_ascii (c : ascii) : ascii :=
  let n := N_of_ascii c in
  if (65 <=? n)%N && (n <=? 90)%N then ascii_of_N (n + 32) else c.

Fixpoint lower (s : string) : string :=
  match s with
  | EmptyString => EmptyString
  | String c tl => String (lower_ascii c) (lower tl)
  end.

(** [split_last sep s = (Some prefix, last)] when [s = prefix ++ sep ++ last]
    with no [sep] in [last] (strings.LastIndex), [(None, s)] when [s] has no [sep]. *)
Fixpoint split_last (sep : ascii) (s : string) : option string * string :=
  match s with
  | EmptyString => (None, EmptyString)
  | String c tl =>
      let (p, l) := split_last sep tl in
      match p with
      | Some p' => (Some (String c p'), l)
      | None => if Ascii.eqb c sep then (Some EmptyString, l) else (None, String c l)
      end
  end.

(** [strings.Split(m, sep)[len-1]] *)
Definition last_component (sep : ascii) (s : string) : string := snd (split_last sep s).

Definition dot : ascii := "."%char.
Definition slash : ascii := "/"%char.

(** decimal rendering of a byte (net.IP.String for IPv4) *)
Definition digit (n : N) : ascii := ascii_of_N (48 + n).
Definition dec_byte (n : N) : string :=
  if (n <? 10)%N then String (digit n) EmptyString
  else if (n <? 100)%N then String (digit (n / 10)) (String (digit (n mod 10)) EmptyString)
  else String (digit (n / 100)) (String (digit ((n / 10) mod 10)) (String (digit (n mod 10)) EmptyString)).
Definition dotted (a b c d : N) : string :=
  dec_byte a ++ "." ++ dec_byte b ++ "." ++ dec_byte c ++ "." ++ dec_byte d.

(** * Configuration (types.RPC) and initialisation (rpc.InitCfg) *)

Record config := mkConfig {
  c_whitelist : list string;   (* key "whitelist" *)
  c_whitlist  : list string;   (* key "whitlist"  *)
  c_jfw : list string;         (* jrpcFuncWhitelist *)
  c_gfw : list string;         (* grpcFuncWhitelist *)
  c_jfb : list string;         (* jrpcFuncBlacklist *)
  c_gfb : list string;         (* grpcFuncBlacklist *)
  c_user : string;             (* jrpcUserName *)
  c_pass : string              (* jrpcUserPasswd *)
}.

(** The package-level maps after one InitCfg on a fresh process (key sets). *)
Record state := mkState {
  s_ip : list string;
  s_jw : list string;
  s_gw : list string;
  s_jb : list string;
  s_gb : list string
}.

(** InitIPWhitelist *)
Definition init_ip (cfg : config) : list string :=
  let wl := c_whitelist cfg in
  let wh := c_whitlist cfg in
  if is_nil wl && is_nil wh then ["127.0.0.1"]
  else if is_star wl then ["0.0.0.0"]
  else if is_star wh then ["0.0.0.0"]
  else if negb (is_nil wl) then wl
  else wh.

(** InitJrpcFuncWhitelist / InitGrpcFuncWhitelist *)
Definition init_fw (l : list string) : list string :=
  if is_nil l then ["*"] else if is_star l then ["*"] else l.

(** InitJrpcFuncBlacklist / InitGrpcFuncBlacklist *)
Definition init_fb (l : list string) : list string :=
  if is_nil l then ["CloseQueue"] else l.

Definition init (cfg : config) : state :=
  mkState (init_ip cfg) (init_fw (c_jfw cfg)) (init_fw (c_gfw cfg))
          (init_fb (c_jfb cfg)) (init_fb (c_gfb cfg)).

(** * Client addresses: the host part of RemoteAddr as net.ParseIP sees it *)

Inductive client :=
| Unparsable (s : string)              (* ParseIP = nil, e.g. "fe80::1%eth0", "" *)
| V4 (a b c d : N)                     (* dotted quad *)
| V4Mapped (a b c d : N)               (* ::ffff:a.b.c.d in any spelling *)
| V6 (bytes : list N) (text : string). (* other IPv6: 16 bytes and the text as received *)

Definition v6_loopback : list N := [0;0;0;0;0;0;0;0;0;0;0;0;0;0;0;1]%N.

Fixpoint bytes_eq (a b : list N) : bool :=
  match a, b with
  | [], [] => true
  | x :: a', y :: b' => N.eqb x y && bytes_eq a' b'
  | _, _ => false
  end.

(** net.IP.IsLoopback (nil receiver gives false) *)
Definition is_loopback (c : client) : bool :=
  match c with
  | Unparsable _ => false
  | V4 a _ _ _ | V4Mapped a _ _ _ => N.eqb a 127
  | V6 bs _ => bytes_eq bs v6_loopback
  end.

(** the map key: [ip.To4().String()] when To4 is non-nil, else the text as received *)
Definition lookup_text (c : client) : string :=
  match c with
  | Unparsable s => s
  | V4 a b c d | V4Mapped a b c d => dotted a b c d
  | V6 _ t => t
  end.

(** rpc.checkIPWhitelist *)
Definition ip_gate (st : state) (c : client) : bool :=
  is_loopback c || mem "0.0.0.0" (s_ip st) || mem (lookup_text c) (s_ip st).

(** * JSON-RPC gate (closure in JSONRPCServer.Listen) *)

Inductive auth_in :=
| AuthNone                      (* no Authorization header *)
| AuthBad                       (* no space / not base64 / no colon *)
| AuthCreds (u p : string).     (* "<word> base64(u:p)" — the scheme word is not looked at *)

(** checkBasicAuth *)
Definition auth_gate (cfg : config) (a : auth_in) : bool :=
  (String.eqb (c_user cfg) "" && String.eqb (c_pass cfg) "")
  || match a with
     | AuthCreds u p => String.eqb u (c_user cfg) && String.eqb p (c_pass cfg)
     | _ => false
     end.

(** JSON value classes of the three fields that matter *)
Inductive jv :=
| JStr (s : string)   (* decoded string *)
| JNull
| JNumU               (* integer in [0, 2^64) *)
| JNumO               (* any other number *)
| JArrEmpty           (* [] *)
| JArrOk              (* first element null or an object *)
| JArrBad             (* first element of another type *)
| JObj
| JBool.

Inductive body :=
| BObj (fields : list (string * jv))  (* one JSON object, keys in order, duplicates kept *)
| BBad.                               (* anything json.Unmarshal into a struct rejects:
                                         array (batch), garbage, empty, trailing data *)

Record jreq := mkJreq {
  jr_path_root : bool;   (* r.URL.Path == "/" *)
  jr_auth : auth_in;
  jr_body : body
}.

(** encoding/json field matching is case-insensitive; later duplicates overwrite;
    null leaves a string untouched; a type error is remembered and decoding goes on.
    The same rule decodes "method" into rpc.clientRequest (gate) and into
    jsonrpc.serverRequest (dispatcher): ONE function, used by both. *)
Fixpoint decode_method (fs : list (string * jv)) (m : string) (err : bool) : string * bool :=
  match fs with
  | [] => (m, err)
  | (k, v) :: tl =>
      if String.eqb (lower k) "method" then
        match v with
        | JStr s => decode_method tl s err
        | JNull => decode_method tl m err
        | _ => decode_method tl m true
        end
      else decode_method tl m err
  end.

(** type errors of the gate's other two fields: Params [1]interface{}, ID uint64 *)
Fixpoint gate_other_err (fs : list (string * jv)) : bool :=
  match fs with
  | [] => false
  | (k, v) :: tl =>
      (if String.eqb (lower k) "params" then
         match v with JArrEmpty | JArrOk | JArrBad | JNull => false | _ => true end
       else if String.eqb (lower k) "id" then
         match v with JNumU | JNull => false | _ => true end
       else false) || gate_other_err tl
  end.

(** dispatcher view of "params" (a pointer to json.RawMessage): last one wins, null resets to nil *)
Fixpoint disp_params (fs : list (string * jv)) (cur : option jv) : option jv :=
  match fs with
  | [] => cur
  | (k, v) :: tl =>
      if String.eqb (lower k) "params" then
        match v with JNull => disp_params tl None | _ => disp_params tl (Some v) end
      else disp_params tl cur
  end.

Inductive joutcome :=
| JRejIP | JRejAuth | JIgnoredPath | JRejParse | JRejMethod
| JPass (m : string).   (* request handed to rpc.Server.ServeRequest; m = decoded method *)

(** [remote = None]: net.SplitHostPort(r.RemoteAddr) failed *)
Definition jsonrpc_gate (cfg : config) (remote : option client) (rq : jreq) : joutcome :=
  let st := init cfg in
  match remote with
  | None => JRejIP
  | Some c =>
      if negb (ip_gate st c) then JRejIP
      else if negb (auth_gate cfg (jr_auth rq)) then JRejAuth
      else if negb (jr_path_root rq) then JIgnoredPath
      else match jr_body rq with
           | BBad => JRejParse
           | BObj fs =>
               let (m, e) := decode_method fs "" false in
               if e || gate_other_err fs then JRejParse
               else
                 let fn := last_component dot m in
                 if negb (is_loopback c)
                    && (mem fn (s_jb st) || negb (mem "*" (s_jw st) || mem fn (s_jw st)))
                 then JRejMethod
                 else JPass m
           end
  end.

(** net/rpc + jsonrpc codec: service "Chain33", method table [registered] *)
Definition jsonrpc_dispatch (registered : list string) (rq : jreq) : option string :=
  match jr_body rq with
  | BBad => None
  | BObj fs =>
      let (m, e) := decode_method fs "" false in
      if e then None
      else match split_last dot m with
           | (None, _) => None                      (* "service/method request ill-formed" *)
           | (Some svc, fn) =>
               if String.eqb svc "Chain33" && mem fn registered
                  && match disp_params fs None with
                     | Some JArrEmpty | Some JArrOk => true
                     | _ => false                   (* missing params / undecodable argument *)
                     end
               then Some fn else None
           end
  end.

(** which API method ends up being invoked *)
Definition jsonrpc_run (cfg : config) (registered : list string)
           (remote : option client) (rq : jreq) : option string :=
  match jsonrpc_gate cfg remote rq with
  | JPass _ => jsonrpc_dispatch registered rq
  | _ => None
  end.

(** * gRPC gate (unary interceptor [auth] + checkGrpcFuncValidity) *)

(** grpc.Server service table: (service, method, is_streaming) *)
Definition gtable := list (string * string * bool).

Inductive gdisp := GNone | GUnary (m : string) | GStream (m : string).

Fixpoint glookup (t : gtable) (svc m : string) : gdisp :=
  match t with
  | [] => GNone
  | (s, n, str) :: tl =>
      if String.eqb s svc && String.eqb n m then (if str then GStream m else GUnary m)
      else glookup tl svc m
  end.

Definition strip_slash (s : string) : string :=
  match s with
  | String c tl => if Ascii.eqb c slash then tl else s
  | EmptyString => s
  end.

(** grpc.Server.handleStream *)
Definition grpc_dispatch (t : gtable) (full : string) : gdisp :=
  match split_last slash (strip_slash full) with
  | (None, _) => GNone
  | (Some svc, m) => glookup t svc m
  end.

(** checkGrpcFuncValidity: blacklist first, then whitelist *)
Definition grpc_func_valid (st : state) (fn : string) : bool :=
  if mem fn (s_gb st) then false else mem "*" (s_gw st) || mem fn (s_gw st).

Inductive goutcome := GRejIP | GRejMethod | GUnimpl | GRan (m : string).

(** [auth]: over TCP the peer address is a *net.TCPAddr, so isLoopBackAddr (which
    only recognises *net.IPNet) is always false and loopback clients take the same
    path as everyone else.  Streaming methods have no interceptor at all. *)
Definition grpc_auth (cfg : config) (c : client) (full : string) : goutcome :=
  let st := init cfg in
  if negb (ip_gate st c) then GRejIP
  else if negb (grpc_func_valid st (last_component slash full)) then GRejMethod
  else GRan (last_component slash full).

Definition grpc_run (cfg : config) (t : gtable) (c : client) (full : string) : goutcome :=
  match grpc_dispatch t full with
  | GNone => GUnimpl
  | GStream m => GRan m
  | GUnary m =>
      match grpc_auth cfg c full with
      | GRan _ => GRan m
      | r => r
      end
  end.

Definition grpc_is_stream (t : gtable) (full : string) : bool :=
  match grpc_dispatch t full with GStream _ => true | _ => false end.

(** * eth JSON-RPC gate (ethrpc.httpServer.ServeHTTP / checkIPWhitelist) *)

(** the list the gate walks: "whitlist" when "whitelist" is empty or when "whitlist" is
    a single star, else "whitelist" (same precedence as InitIPWhitelist) *)
Definition eth_list (cfg : config) : list string :=
  if is_nil (c_whitelist cfg) || is_star (c_whitlist cfg) then c_whitlist cfg
  else c_whitelist cfg.

Definition eth_ip_gate (cfg : config) (c : client) : bool :=
  is_loopback c ||
  let wl := eth_list cfg in
  if is_nil wl || is_star wl then true
  else existsb (fun a => String.eqb a "0.0.0.0" || String.eqb a (lookup_text c)) wl.

Inductive eoutcome := EOptions | EForbidden | EServed.

(** a RemoteAddr that does not split is looked up as the empty host *)
Definition eth_serve (cfg : config) (is_options : bool) (remote : option client) : eoutcome :=
  if is_options then EOptions
  else
    let c := match remote with Some c => c | None => Unparsable "" end in
    if eth_ip_gate cfg c then EServed else EForbidden.
