(** C39 — the abstract access-control policy, stated from the property text:
    a method may run for a non-loopback client only if the client's address is
    on the configured IP whitelist (either key; "*" / "0.0.0.0" = wildcard), the
    method is whitelisted and not blacklisted for that endpoint, and — on the
    JSON-RPC endpoint, the only one that has credentials in the configuration
    (jrpcUserName / jrpcUserPasswd) — basic authentication succeeded. *)
From Coq Require Import List String Bool NArith.
From C33 Require Import C39.Model.
Import ListNotations.
Open Scope string_scope.

Inductive endpoint := EJrpc | EGrpc.

(** the addresses the operator listed, under either key; nothing listed = local only *)
Definition configured_ips (cfg : config) : list string :=
  match (c_whitelist cfg ++ c_whitlist cfg)%list with
  | [] => ["127.0.0.1"]
  | l => l
  end.

Definition ip_allowed (cfg : config) (c : client) : bool :=
  let l := configured_ips cfg in
  mem "*" l || mem "0.0.0.0" l || mem (lookup_text c) l.

Definition fn_allowed (wl bl : list string) (fn : string) : bool :=
  negb (mem fn bl) && (is_nil wl || mem "*" wl || mem fn wl).

Definition auth_ok (cfg : config) (a : auth_in) : bool :=
  (String.eqb (c_user cfg) "" && String.eqb (c_pass cfg) "")
  || match a with
     | AuthCreds u p => String.eqb u (c_user cfg) && String.eqb p (c_pass cfg)
     | _ => false
     end.

Definition may_run (cfg : config) (ep : endpoint) (c : client) (fn : string) (a : auth_in) : bool :=
  ip_allowed cfg c &&
  match ep with
  | EJrpc => fn_allowed (c_jfw cfg) (c_jfb cfg) fn && auth_ok cfg a
  | EGrpc => fn_allowed (c_gfw cfg) (c_gfb cfg) fn
  end.

(** "a non-empty IP whitelist is configured under either accepted key" *)
Definition ip_list_configured (cfg : config) : bool :=
  negb (is_nil (c_whitelist cfg)) || negb (is_nil (c_whitlist cfg)).
