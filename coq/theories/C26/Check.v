(** C26 — correspondence cases: C25's delivery runs plus the sequence log read
    back through the store API. *)
From Coq Require Import List ZArith NArith Bool.
From C33 Require Import Lib.Harness C25.Spec C25.Check C26.Model.
From C33 Require Export C25.Model.   (* case files use [mkB] *)
Import ListNotations.
Open Scope Z_scope.

(** log entry as read: (hash number, type) with type 1 = add, 2 = delete,
    0 = GetBlockSequence failed for that number *)
Inductive case :=
| CSeq (fin : Z) (T : list block) (order : list N) (obs : list stepobs) (fmain : list N)
       (log : list (N * Z))                  (* GetBlockSequence 0 .. last *)
       (last : Z).                           (* LoadBlockLastSequence *)

Definition decode_entry (e : N * Z) : option (N * bool) :=
  if snd e =? 1 then Some (fst e, true) else if snd e =? 2 then Some (fst e, false) else None.

Definition entry_eqb (a b : option (N * bool)) : bool :=
  option_eqb (fun x y => N.eqb (fst x) (fst y) && Bool.eqb (snd x) (snd y)) a b.

Definition check_case (c : case) : verdict :=
  match c with
  | CSeq fin T order obs fmain log last =>
      let ilog := map decode_entry log in
      let m :=
        match model_ok fin T order obs fmain with
        | Some s =>
            let q := seq_state s in
            (lastseq q =? last) && list_eqb entry_eqb (read_log q) ilog
        | None => false
        end in
      (* spec, on the implementation's outputs only: numbered 0..last without
         gaps, and the replay of the log is the best chain *)
      let sp :=
        (Z.of_nat (length log) =? last + 1) &&
        match all_some ilog with
        | Some l => match replay l [] with
                    | Some ch => list_eqb N.eqb ch (rev fmain)
                    | None => false
                    end
        | None => false
        end in
      mk_verdict m sp
  end.
