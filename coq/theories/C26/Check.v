(** C26 — correspondence cases: C25's delivery runs plus the sequence log, the
    hash index and the range queries read back through the store / BlockChain
    API; runs on para-chain nodes driven through ProcAdd/DelParaChainBlockMsg. *)
From Coq Require Import List ZArith NArith Bool.
From C33 Require Import Lib.Harness C25.Spec C25.Check C26.Model C26.ModelKv C26.SpecIdx.
From C33 Require Export C25.Model.   (* case files use [mkB] *)
Import ListNotations.
Open Scope Z_scope.

(** log entry as read: (hash number, type) with type 1 = add, 2 = delete,
    0 = no record.  Replies of the by-hash queries: (value, error class) with
    0 nil, 1 ErrInvalidParam, 2 ErrHashNotExist.  A range query: Start, End,
    (error class, items). *)
Definition rangeobs : Type := (Z * Z * (N * list (N * Z)))%type.

Inductive case :=
| CSeq (fin : Z) (T : list block) (order : list N) (obs : list stepobs) (fmain : list N)
       (log : list (N * Z))                  (* GetBlockSequence 0 .. last *)
       (last : Z)                            (* LoadBlockLastSequence *)
(** the same run on a node with isRecordBlockSequence = [save], with the index and the queries *)
| CSeqX (save : bool) (fin : Z) (T : list block) (order : list N) (obs : list stepobs) (fmain : list N)
        (sobs : list (Z * Z))                (* per delivery: LoadBlockLastSequence, GetSequenceByHash(delivered block) (-1: none) *)
        (log : list (N * Z)) (last : Z)
        (idx midx : list (Z * N))            (* ProcGetSeqByHash / ProcGetMainSeqByHash for T's blocks in order, then for a hash of no block *)
        (nilq : list (Z * N))                (* both with the empty hash *)
        (lastmain : Z)                       (* LoadBlockLastMainSequence *)
        (ranges : list rangeobs)             (* GetBlockSequences *)
        (dels : list (N * N))                (* ProcDelParaChainBlockMsg(block, pid "self") at the end: block, error class (5 ErrNotSupport, 6 ErrBlockHashNoMatch) *)
(** a para-chain node; T's head is its genesis block *)
| CPara (save : bool) (T : list block)
        (ops : list (N * N * Z))             (* 0 add / 1 delete / 2 add without block / 3 delete without block, block, sequence *)
        (pobs : list (N * N * Z * Z))        (* error class, tip, LoadBlockLastMainSequence, LoadBlockLastSequence *)
        (fmain : list N)
        (lo : Z) (n : nat)                   (* GetBlockByMainSequence lo, lo+1, .. (n numbers): *)
        (mlog : list (Z * (N * Z)))          (*   the records found *)
        (olog : list (N * Z)) (olast : Z)    (* own log *)
        (idx midx : list (Z * N)) (nilq : list (Z * N))
        (ranges : list rangeobs).

Definition decode_entry (e : N * Z) : option (N * bool) :=
  if snd e =? 1 then Some (fst e, true) else if snd e =? 2 then Some (fst e, false) else None.

Definition entry_eqb (a b : option (N * bool)) : bool :=
  option_eqb (fun x y => N.eqb (fst x) (fst y) && Bool.eqb (snd x) (snd y)) a b.

Definition reply_eqb (a b : Z * N) : bool := (fst a =? fst b) && N.eqb (snd a) (snd b).
Definition range_eqb (a b : N * list (option (N * bool))) : bool :=
  N.eqb (fst a) (fst b) && list_eqb entry_eqb (snd a) (snd b).
Definition decode_range (r : N * list (N * Z)) : N * list (option (N * bool)) :=
  (fst r, map decode_entry (snd r)).

Definition nohash : N := 999998.

(** the old oracle: numbered 0..last without gaps, and the replay is the best chain *)
Definition log_spec_b (log : list (N * Z)) (last : Z) (fmain : list N) : bool :=
  (Z.of_nat (length log) =? last + 1) &&
  match all_some (map decode_entry log) with
  | Some l => match replay l [] with
              | Some ch => list_eqb N.eqb ch (rev fmain)
              | None => false
              end
  | None => false
  end.

Definition plain_log (log : list (N * Z)) : list (N * bool) :=
  match all_some (map decode_entry log) with Some l => l | None => [] end.

(** fold the model over the order, comparing every observable, and after every
    delivery the last sequence and the index entry of the delivered block *)
Fixpoint agree_x (c : conf) (fin : Z) (T : list block) (s : state) (order : list N)
         (obs : list stepobs) (sobs : list (Z * Z)) : option state :=
  match order, obs, sobs with
  | [], [], [] => Some s
  | h :: order', (im, io, ec, tp, ttd) :: obs', (ls, ix) :: sobs' =>
      match find_block h T with
      | None => None
      | Some b =>
          let '(s', (mm, mo, me)) := deliver fin s b in
          let d := kv_state c s' in
          if Bool.eqb mm im && Bool.eqb mo io && N.eqb (errc_code me) ec
             && N.eqb (tip s') tp && (tip_td s' =? ttd)
             && (load_last c d =? ls)
             && (match get_sequence_by_hash c d h with Some n => n | None => -1 end =? ix)
          then agree_x c fin T s' order' obs' sobs' else None
      end
  | _, _, _ => None
  end.

(** ProcDelParaChainBlockMsg on a node that is not a para chain: pid "self"
    wants the block to be the tip (heights above 0), then ErrNotSupport *)
Definition del_on_main (s : state) (b : block) : N :=
  if (0 <? bht b) && negb (N.eqb (bid b) (tip s)) then 6%N else 5%N.

Definition ranges_model (c : conf) (d : db) (ranges : list rangeobs) : bool :=
  forallb (fun r => match r with
                    | (st, en, o) => range_eqb (get_block_sequences c d st en) (decode_range o)
                    end) ranges.
Definition ranges_spec (last : Z) (l : list (N * bool)) (ranges : list rangeobs) : bool :=
  forallb (fun r => match r with
                    | (st, en, o) => range_eqb (range_spec last l st en) (decode_range o)
                    end) ranges.

Definition hashes_of (T : list block) : list N := map bid T ++ [nohash].

(** the by-hash replies against the implementation's own log and chain *)
Definition index_spec_all (l : list (N * bool)) (m : list N) (T : list block) (idx : list (Z * N)) : bool :=
  (length idx =? length (hashes_of T))%nat &&
  forallb (fun p => index_spec_b l m (fst p) (snd p)) (combine (hashes_of T) idx).

Definition nil_reply (r : Z * N) : bool := reply_eqb r (-1, 1%N).
Definition nohash_reply (r : Z * N) : bool := reply_eqb r (-1, 2%N).

Fixpoint nondecreasing (l : list Z) : bool :=
  match l with
  | a :: ((b :: _) as tl) => (a <=? b) && nondecreasing tl
  | _ => true
  end.

Definition check_seqx (save : bool) (fin : Z) (T : list block) (order : list N) (obs : list stepobs)
           (fmain : list N) (sobs : list (Z * Z)) (log : list (N * Z)) (last : Z)
           (idx midx nilq : list (Z * N)) (lastmain : Z) (ranges : list rangeobs)
           (dels : list (N * N)) : verdict :=
  let c := mkConf save false in
  let ilog := map decode_entry log in
  let m :=
    match T with
    | [] => false
    | g :: _ =>
        match agree_x c fin T (init g) order obs sobs with
        | None => false
        | Some s =>
            let d := kv_state c s in
            list_eqb N.eqb (rev (main s)) fmain
            && (load_last c d =? last)
            && list_eqb entry_eqb (map (get_block_sequence c d) (zseq 0 (Z.to_nat (last + 1)))) ilog
            && (if save then (lastseq (seq_state s) =? last) && list_eqb entry_eqb (read_log (seq_state s)) ilog
                else true)
            && list_eqb reply_eqb (map (fun h => proc_get_seq_by_hash c d (Some h)) (hashes_of T)) idx
            && list_eqb reply_eqb (map (fun h => proc_get_main_seq_by_hash d (Some h)) (hashes_of T)) midx
            && list_eqb reply_eqb [proc_get_seq_by_hash c d None; proc_get_main_seq_by_hash d None] nilq
            && (load_last_main d =? lastmain)
            && ranges_model c d ranges
            && forallb (fun p => match find_block (fst p) T with
                                 | Some b => N.eqb (del_on_main s b) (snd p)
                                 | None => false
                                 end) dels
        end
    end in
  (* the oracle, on the implementation's outputs only *)
  let l := plain_log log in
  let sp :=
    (if save then log_spec_b log last fmain
     else (last =? -1) && match log with [] => true | _ => false end)
    && (if save then index_spec_all l (rev fmain) T idx else forallb nohash_reply idx)
    && list_eqb reply_eqb idx midx              (* one key serves both queries here *)
    && forallb nil_reply nilq
    && (lastmain =? last)
    && ranges_spec last l ranges
    && nondecreasing (map fst sobs)
    && forallb (fun p => (snd p <=? fst p) && (-1 <=? snd p)) sobs
    && forallb (fun p => negb (N.eqb (snd p) 0)) dels in
  mk_verdict m sp.

(** * para-chain runs *)

Definition decode_op (T : list block) (o : N * N * Z) : option pop :=
  match o with
  | (k, id, ms) =>
      if N.eqb k 2 then Some (PNil true) else if N.eqb k 3 then Some (PNil false)
      else match find_block id T with
           | None => None
           | Some b => if N.eqb k 0 then Some (PAdd b ms) else Some (PDel b ms)
           end
  end.

(** the fold; the flag is the known finding's signature: an executed operation
    whose sequence number is not above LastSequence at that time *)
Fixpoint agree_p (c : conf) (T : list block) (s : pstate) (notinc : bool)
         (ops : list (N * N * Z)) (pobs : list (N * N * Z * Z)) : option (pstate * bool) :=
  match ops, pobs with
  | [], [] => Some (s, notinc)
  | o :: ops', (ec, tp, lm, ls) :: pobs' =>
      match decode_op T o with
      | None => None
      | Some p =>
          let '(s', e) := pstep c s p in
          let ni := notinc || (N.eqb e 0 && (snd o <=? load_last_main (pdb s))) in
          if N.eqb e ec && N.eqb (ptip_id s') tp && (load_last_main (pdb s') =? lm)
             && (load_last c (pdb s') =? ls)
          then agree_p c T s' ni ops' pobs' else None
      end
  | _, _ => None
  end.

Definition mrec_eqb (a b : Z * (N * bool)) : bool :=
  (fst a =? fst b) && N.eqb (fst (snd a)) (fst (snd b)) && Bool.eqb (snd (snd a)) (snd (snd b)).

Definition present (d : db) (lo : Z) (n : nat) : list (Z * (N * bool)) :=
  somes (map (fun k => match get_block_by_main_sequence d k with
                       | Some r => Some (k, r)
                       | None => None
                       end) (zseq lo n)).

Definition decode_mrecs (mlog : list (Z * (N * Z))) : option (list (Z * (N * bool))) :=
  all_some (map (fun r => match decode_entry (snd r) with
                          | Some e => Some (fst r, e)
                          | None => None
                          end) mlog).

(** by-hash reply against the main-sequence records *)
Definition mindex_spec_b (mrecs : list (Z * (N * bool))) (m : list N) (h : N) (reply : Z * N) : bool :=
  match last_add_key h mrecs None with
  | None => nohash_reply reply && negb (memN h m)
  | Some k =>
      reply_eqb reply (k, 0%N) &&
      let later := map snd (filter (fun r => k <? fst r) mrecs) in
      let upto := map snd (filter (fun r => fst r <=? k) mrecs) in
      if memN h m
      then negb (existsb (is_del h) later) && chain_eqb (replay upto []) (Some (drop_until h m))
      else existsb (is_del h) later
  end.

Definition executed_seqs (ops : list (N * N * Z)) (pobs : list (N * N * Z * Z)) : list Z :=
  map (fun p => snd (fst p)) (filter (fun p => N.eqb (fst (fst (fst (snd p)))) 0) (combine ops pobs)).

Definition check_para (save : bool) (T : list block) (ops : list (N * N * Z)) (pobs : list (N * N * Z * Z))
           (fmain : list N) (lo : Z) (n : nat) (mlog : list (Z * (N * Z)))
           (olog : list (N * Z)) (olast : Z) (idx midx nilq : list (Z * N))
           (ranges : list rangeobs) : verdict :=
  let c := mkConf save true in
  let mrecs := match decode_mrecs mlog with Some l => l | None => [] end in
  let mres :=
    match T with
    | [] => None
    | g :: _ =>
        match agree_p c T (pinit c g) false ops pobs with
        | None => None
        | Some (s, ni) =>
            let d := pdb s in
            Some (list_eqb N.eqb (rev (map bid (pchain s))) fmain
                  && (match decode_mrecs mlog with
                      | Some l => list_eqb mrec_eqb (present d lo n) l
                      | None => false
                      end)
                  && (load_last c d =? olast)
                  && list_eqb entry_eqb (map (get_block_sequence c d) (zseq 0 (Z.to_nat (olast + 1))))
                                        (map decode_entry olog)
                  && list_eqb reply_eqb (map (fun h => proc_get_seq_by_hash c d (Some h)) (hashes_of T)) idx
                  && list_eqb reply_eqb (map (fun h => proc_get_main_seq_by_hash d (Some h)) (hashes_of T)) midx
                  && list_eqb reply_eqb [proc_get_seq_by_hash c d None; proc_get_main_seq_by_hash d None] nilq
                  && ranges_model c d ranges, ni)
        end
    end in
  let m := match mres with Some (b, _) => b | None => false end in
  let notinc := match mres with Some (_, ni) => ni | None => false end in
  let ch := rev fmain in
  let ol := plain_log olog in
  (* own log: as on any node *)
  let sp_own :=
    (if save then log_spec_b olog olast fmain
     else (olast =? -1) && match olog with [] => true | _ => false end)
    && (if save then index_spec_all ol ch T idx else forallb nohash_reply idx)
    && ranges_spec olast ol ranges
    && forallb nil_reply nilq in
  (* the main-sequence records, read in key order, replay to the best chain; the
     by-hash entry names the latest add; LastSequence is the highest key *)
  let lastmain := match rev pobs with (_, _, lm, _) :: _ => lm | [] => -1 end in
  let sp_main :=
    match decode_mrecs mlog with
    | None => false
    | Some l =>
        ascending (map fst l)
        && chain_eqb (replay (map snd l) []) (Some ch)
        && (match rev l with (k, _) :: _ => k =? lastmain | [] => false end)
        && (length midx =? length (hashes_of T))%nat
        && forallb (fun p => mindex_spec_b l ch (fst p) (snd p)) (combine (hashes_of T) midx)
    end in
  let guard := increasing_from (-1) (executed_seqs ops pobs) in
  if sp_own && sp_main then (m, true, 0%N)
  else if sp_own && negb guard && notinc && m then (m, false, 1%N)
  else (m, false, 0%N).

Definition check_case (c : case) : verdict :=
  match c with
  | CSeq fin T order obs fmain log last =>
      let ilog := map decode_entry log in
      let m :=
        match model_ok fin T order obs fmain with
        | Some s =>
            let q := seq_state s in
            (lastseq q =? last) && list_eqb entry_eqb (read_log q) ilog
        | None => false
        end in
      mk_verdict m (log_spec_b log last fmain)
  | CSeqX save fin T order obs fmain sobs log last idx midx nilq lastmain ranges dels =>
      check_seqx save fin T order obs fmain sobs log last idx midx nilq lastmain ranges dels
  | CPara save T ops pobs fmain lo n mlog olog olast idx midx nilq ranges =>
      check_para save T ops pobs fmain lo n mlog olog olast idx midx nilq ranges
  end.
