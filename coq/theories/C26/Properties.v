(** C26 — property theorems only. *)
From Coq Require Import List ZArith NArith.
From C33 Require Import C25.Model C26.Model C26.Proofs.
From C33 Require Import C26.ModelKv C26.SpecIdx C26.ProofsIdx C26.ProofsRun C26.ProofsKv C26.ProofsPara C26.ProofsTop.
Import ListNotations.
Open Scope Z_scope.

(** After every delivery history (any blocks, any order, any [fin]): a record
    exists for sequence number [i] exactly when 0 <= i <= last sequence. *)
Theorem C26_sequence_gapfree : forall fin g order i,
  let q := seq_state (run fin g order) in
  get_seq q i <> None <-> 0 <= i <= lastseq q.
Proof. exact seq_gapfree. Qed.
Print Assumptions C26_sequence_gapfree.

(** No sequence number is written twice. *)
Theorem C26_sequence_no_reuse : forall fin g order,
  NoDup (map fst (recs (seq_state (run fin g order)))).
Proof. exact seq_no_reuse. Qed.
Print Assumptions C26_sequence_no_reuse.

(** Reading the log back in sequence order and replaying it (push on add, pop
    on delete with matching hash) from the empty chain yields the best chain. *)
Theorem C26_replay_is_best_chain : forall fin g order,
  let s := run fin g order in
  exists l, all_some (read_log (seq_state s)) = Some l /\ replay l [] = Some (main s)
            /\ Z.of_nat (length l) = lastseq (seq_state s) + 1.
Proof. exact seq_replay. Qed.
Print Assumptions C26_replay_is_best_chain.

(** Non-vacuity: a history with a reorganisation; sequence 3 is a delete record. *)
Theorem C26_nonvacuous :
  let g := mkB 0 99 0 1 in
  let s := run (-12) g [mkB 1 0 1 1; mkB 2 1 2 1; mkB 4 3 2 1; mkB 5 4 3 1; mkB 3 0 1 1] in
  main s = [5; 4; 3; 0]%N /\ lastseq (seq_state s) = 7 /\
  get_seq (seq_state s) 3 = Some (2%N, false).
Proof. exact seq_example. Qed.
Print Assumptions C26_nonvacuous.

(** * The key-level store (ModelKv.v): hash index, range query, para chain *)

(** With saveSequence on (main chain or para chain), the node's own records at
    key level are the numbered log of Model.v: so the three theorems above
    speak about what GetBlockSequence / LoadBlockLastSequence read. *)
Theorem C26_kv_refines_log : forall c es, c_save c = true ->
  load_last c (kv_of c es) = lastseq (store_of (map ev_of es)) /\
  forall i, get_block_sequence c (kv_of c es) i = get_seq (store_of (map ev_of es)) i.
Proof. exact kv_refines_log. Qed.
Print Assumptions C26_kv_refines_log.

Theorem C26_kv_refines_log_run : forall fin g order,
  let s := run fin g order in
  lastseq (seq_state s) = load_last main_conf (kv_state main_conf s) /\
  forall i, get_block_sequence main_conf (kv_state main_conf s) i = get_seq (seq_state s) i.
Proof. exact run_kv_refines. Qed.
Print Assumptions C26_kv_refines_log_run.

(** After every delivery history no block occurs twice on the best chain. *)
Theorem C26_best_chain_no_repeat : forall fin g order, NoDup (main (run fin g order)).
Proof. exact run_main_nodup. Qed.
Print Assumptions C26_best_chain_no_repeat.

(** GetSequenceByHash: no entry exactly for the blocks that were never
    connected (such a block is not on the best chain); otherwise the entry is
    a recorded number whose record is an ADD of that block, and no later
    record adds it again: the entry of a block that was added, deleted and
    added again names the last add. *)
Theorem C26_seq_by_hash_names_latest_add : forall fin g order h,
  let s := run fin g order in
  let d := kv_state main_conf s in
  match get_sequence_by_hash main_conf d h with
  | None => ~ In h (main s) /\ forall j, get_block_sequence main_conf d j <> Some (h, true)
  | Some i => 0 <= i <= lastseq (seq_state s) /\
              get_block_sequence main_conf d i = Some (h, true) /\
              forall j, i < j -> get_block_sequence main_conf d j <> Some (h, true)
  end.
Proof. exact run_names_latest_add. Qed.
Print Assumptions C26_seq_by_hash_names_latest_add.

(** A block of the best chain has an entry; no delete record of it follows;
    replaying the log up to and including that record gives the best chain
    from that block down ([log] is what C26_replay_is_best_chain reads). *)
Theorem C26_seq_by_hash_on_best_chain : forall fin g order h,
  let s := run fin g order in
  let d := kv_state main_conf s in
  In h (main s) ->
  exists log, all_some (read_log (seq_state s)) = Some log /\
  exists i above below,
    get_sequence_by_hash main_conf d h = Some (Z.of_nat i) /\
    main s = above ++ h :: below /\ ~ In h above /\
    replay (firstn (S i) log) [] = Some (h :: below) /\
    forall j, Z.of_nat i < j -> get_block_sequence main_conf d j <> Some (h, false).
Proof. exact on_best_chain_log. Qed.
Print Assumptions C26_seq_by_hash_on_best_chain.

(** The entry is never removed on delete: a block with an entry is on the best
    chain exactly when no delete record of it follows the entry. *)
Theorem C26_seq_by_hash_off_chain_iff : forall fin g order h i,
  let s := run fin g order in
  let d := kv_state main_conf s in
  get_sequence_by_hash main_conf d h = Some i ->
  (In h (main s) <-> forall j, i < j -> get_block_sequence main_conf d j <> Some (h, false)).
Proof. exact run_off_chain_iff. Qed.
Print Assumptions C26_seq_by_hash_off_chain_iff.

(** The entry of a hash is never removed and never goes down (any node that records). *)
Theorem C26_index_entry_monotone : forall c es e h i, c_save c = true ->
  get_sequence_by_hash c (kv_of c es) h = Some i ->
  exists j, get_sequence_by_hash c (kv_of c (e :: es)) h = Some j /\ i <= j.
Proof. exact index_monotone. Qed.
Print Assumptions C26_index_entry_monotone.

(** The oracle that Check.v evaluates on the node's replies is satisfied by
    the model's reply for every history and every hash. *)
Theorem C26_index_oracle_holds : forall fin g order h,
  let s := run fin g order in
  index_spec_b (rev (evs s)) (main s) h
    (proc_get_seq_by_hash main_conf (kv_state main_conf s) (Some h)) = true.
Proof. exact run_oracle. Qed.
Print Assumptions C26_index_oracle_holds.

(** GetBlockSequences against the log: every reply (errors, clipping at the
    last sequence, nil items below 0, the int64 difference) is [range_spec]
    of the log; a request inside 0..last for fewer than 1000 records returns
    exactly that segment of the log, so pages put together give the log that
    replays to the best chain. *)
Theorem C26_range_query_is_log_segment : forall fin g order,
  let s := run fin g order in
  let d := kv_state main_conf s in
  exists log, all_some (read_log (seq_state s)) = Some log /\
  (forall st en, get_block_sequences main_conf d st en = range_spec (lastseq (seq_state s)) log st en) /\
  (forall a n, (a + S n <= length log)%nat -> (n < 1000)%nat ->
     get_block_sequences main_conf d (Z.of_nat a) (Z.of_nat (a + n)) =
     (0%N, map Some (firstn (S n) (skipn a log)))).
Proof. exact range_log_segment. Qed.
Print Assumptions C26_range_query_is_log_segment.

(** On a node that is not a para chain the "main sequence" queries read the same keys. *)
Theorem C26_main_queries_alias : forall c d h n, c_para c = false ->
  get_main_sequence_by_hash d h = get_sequence_by_hash c d h /\
  get_block_by_main_sequence d n = get_block_sequence c d n /\
  load_last_main d = load_last c d.
Proof. exact main_alias. Qed.
Print Assumptions C26_main_queries_alias.

(** isRecordBlockSequence = false (not a para chain): nothing is written, every
    read finds nothing, every range request from 0 up is ErrStartHeight. *)
Theorem C26_no_recording_no_log : forall fin g order n h st en,
  let d := kv_state norec_conf (run fin g order) in
  d = [] /\ load_last norec_conf d = -1 /\ get_block_sequence norec_conf d n = None /\
  get_sequence_by_hash norec_conf d h = None /\
  (0 <= st -> get_block_sequences norec_conf d st en = (1%N, [])).
Proof. exact norec_nothing. Qed.
Print Assumptions C26_no_recording_no_log.

(** X -> Y -> X: block 1 is connected (sequence 1), disconnected (24) and
    connected again (51): its entry names 51; block 13 left the chain and keeps
    its entry. *)
Theorem C26_readd_nonvacuous :
  let g := mkB 0 99 0 1 in
  let order := chain_blocks 1 0 12 1 ++ chain_blocks 13 0 13 1 ++ chain_blocks 26 12 2 13 in
  let s := run 0 g order in
  let d := kv_state main_conf s in
  hd 0%N (main s) = 27%N /\ In 1%N (main s) /\
  get_block_sequence main_conf d 1 = Some (1%N, true) /\
  get_block_sequence main_conf d 24 = Some (1%N, false) /\
  get_sequence_by_hash main_conf d 1 = Some 51 /\
  get_sequence_by_hash main_conf d 13 = Some 25 /\ ~ In 13%N (main s) /\
  load_last main_conf d = 64.
Proof. exact readd_example. Qed.
Print Assumptions C26_readd_nonvacuous.

(** * Para-chain nodes (ProcAdd/DelParaChainBlockMsg, pid "self") *)

(** With isRecordBlockSequence on, the para-chain node's own log ("ParaSeq:")
    has every property of a main-chain node's: numbered 0..last, replays to the
    best chain, by-hash entry = latest add with the same facts, range query =
    [range_spec] — whatever sequence numbers the caller hands in. *)
Theorem C26_para_own_log : forall g ops,
  let c := mkConf true true in
  let s := prun c g ops in
  let d := pdb s in
  let ch := map bid (pchain s) in
  exists log,
    load_last c d = Z.of_nat (length log) - 1 /\
    (forall i, get_block_sequence c d i = log_at log i) /\
    replay log [] = Some ch /\
    (forall h, get_sequence_by_hash c d h = idx_of h (rev log) /\ idx_fact (rev log) ch h) /\
    (forall st en, get_block_sequences c d st en = range_spec (Z.of_nat (length log) - 1) log st en).
Proof. exact para_own_log. Qed.
Print Assumptions C26_para_own_log.

(** Without it a para-chain node has no log of its own. *)
Theorem C26_para_norec_no_own_log : forall c, c_para c = true -> c_save c = false ->
  forall tr n h,
  load_last c (kv_of c tr) = -1 /\ get_block_sequence c (kv_of c tr) n = None /\
  get_sequence_by_hash c (kv_of c tr) h = None.
Proof. exact para_norec_own. Qed.
Print Assumptions C26_para_norec_no_own_log.

(** The records kept under the caller's sequence numbers are NOT allocated by
    the store: numbers may have gaps, and a number handed in twice overwrites.
    Full statement (reading them in key order replays to the best chain) ... *)
Definition C26_para_main_seq_replay_full : Prop :=
  forall c g ops, c_para c = true ->
    let s := prun c g ops in
    replay (scan_main (pdb s) (-1) (Z.to_nat (load_last_main (pdb s) + 2))) [] = Some (map bid (pchain s)).

(** ... is false: a delete handed in with the number of the add record
    (BlockChain.Rollback does this on a para chain) replaces the add record. *)
Theorem C26_para_main_seq_replay_refuted : ~ C26_para_main_seq_replay_full.
Proof. exact para_main_refuted. Qed.
Print Assumptions C26_para_main_seq_replay_refuted.

(** It holds when the numbers of the executed operations increase
    ([para_guard_b], computed from the run): then LastSequence is the highest
    number, the records read in key order from the genesis record's -1 up to it
    replay to the best chain, and GetMainSequenceByHash is the number handed in
    with the latest add of the block. *)
Theorem C26_para_main_seq_replay_partial : forall c g ops, c_para c = true ->
  para_guard_b c g ops = true ->
  let s := prun c g ops in
  let d := pdb s in
  let tr := ptrace c g ops in
  replay (scan_main d (-1) (Z.to_nat (load_last_main d + 2))) [] = Some (map bid (pchain s)) /\
  (forall e, In e tr -> sev_seq e <= load_last_main d) /\
  (forall h, get_main_sequence_by_hash d h = midx_of h tr).
Proof. exact para_main_partial. Qed.
Print Assumptions C26_para_main_seq_replay_partial.

Theorem C26_para_nonvacuous :
  let c := mkConf true true in
  let g := mkB 0 99 0 1 in
  let b1 := mkB 1 0 1 1 in let b2 := mkB 2 1 2 1 in let b3 := mkB 3 1 2 1 in
  let ops := [PAdd b1 0; PAdd b2 3; PDel b2 4; PAdd b3 9; PDel b3 10; PAdd b2 11; PNil true; PDel b1 12] in
  let s := prun c g ops in
  para_guard_b c g ops = true /\ map bid (pchain s) = [2; 1; 0]%N /\
  load_last_main (pdb s) = 11 /\ get_main_sequence_by_hash (pdb s) 2 = Some 11 /\
  get_sequence_by_hash c (pdb s) 2 = Some 6 /\ get_block_by_main_sequence (pdb s) 5 = None /\
  get_block_by_main_sequence (pdb s) 4 = Some (2%N, false).
Proof. exact para_example. Qed.
Print Assumptions C26_para_nonvacuous.
