(** C26 — property theorems only. *)
From Coq Require Import List ZArith NArith.
From C33 Require Import C25.Model C26.Model C26.Proofs.
Import ListNotations.
Open Scope Z_scope.

(** After every delivery history (any blocks, any order, any [fin]): a record
    exists for sequence number [i] exactly when 0 <= i <= last sequence. *)
Theorem C26_sequence_gapfree : forall fin g order i,
  let q := seq_state (run fin g order) in
  get_seq q i <> None <-> 0 <= i <= lastseq q.
Proof. exact seq_gapfree. Qed.
Print Assumptions C26_sequence_gapfree.

(** No sequence number is written twice. *)
Theorem C26_sequence_no_reuse : forall fin g order,
  NoDup (map fst (recs (seq_state (run fin g order)))).
Proof. exact seq_no_reuse. Qed.
Print Assumptions C26_sequence_no_reuse.

(** Reading the log back in sequence order and replaying it (push on add, pop
    on delete with matching hash) from the empty chain yields the best chain. *)
Theorem C26_replay_is_best_chain : forall fin g order,
  let s := run fin g order in
  exists l, all_some (read_log (seq_state s)) = Some l /\ replay l [] = Some (main s)
            /\ Z.of_nat (length l) = lastseq (seq_state s) + 1.
Proof. exact seq_replay. Qed.
Print Assumptions C26_replay_is_best_chain.

(** Non-vacuity: a history with a reorganisation; sequence 3 is a delete record. *)
Theorem C26_nonvacuous :
  let g := mkB 0 99 0 1 in
  let s := run (-12) g [mkB 1 0 1 1; mkB 2 1 2 1; mkB 4 3 2 1; mkB 5 4 3 1; mkB 3 0 1 1] in
  main s = [5; 4; 3; 0]%N /\ lastseq (seq_state s) = 7 /\
  get_seq (seq_state s) 3 = Some (2%N, false).
Proof. exact seq_example. Qed.
Print Assumptions C26_nonvacuous.
