(** C26 — proofs, part 2: logs in which no block is added while it is on the
    chain ([replay_s]); what the latest add record of a hash says about the
    chain (pure list facts, used for C25's runs and for para-chain runs). *)
From Coq Require Import List ZArith NArith Bool Lia.
From C33 Require Import C25.Model C26.Model C26.ModelKv C26.SpecIdx C26.Proofs.
Import ListNotations.
Open Scope Z_scope.

(** * strict replay: an add of a hash that is on the chain fails *)

Fixpoint replay_s (log : list (N * bool)) (chain : list N) : option (list N) :=
  match log with
  | [] => Some chain
  | (h, true) :: tl => if memN h chain then None else replay_s tl (h :: chain)
  | (h, false) :: tl =>
      match chain with
      | t :: c' => if N.eqb t h then replay_s tl c' else None
      | [] => None
      end
  end.

Lemma memN_In : forall h l, memN h l = true <-> In h l.
Proof.
  intros h l. unfold memN. rewrite existsb_exists. split.
  - intros (x & Hx & E). apply N.eqb_eq in E. subst. exact Hx.
  - intros H. exists h. split; [exact H|apply N.eqb_refl].
Qed.

Lemma memN_false : forall h l, memN h l = false <-> ~ In h l.
Proof.
  intros h l. rewrite <- memN_In. destruct (memN h l); split; intros; congruence.
Qed.

Lemma replay_s_app : forall l1 l2 c,
  replay_s (l1 ++ l2) c = match replay_s l1 c with Some c' => replay_s l2 c' | None => None end.
Proof.
  induction l1 as [|[h [|]] l1 IH]; intros l2 c; cbn [replay_s app].
  - reflexivity.
  - destruct (memN h c); [reflexivity|apply IH].
  - destruct c as [|t c']; [reflexivity|]. destruct (N.eqb t h); [apply IH|reflexivity].
Qed.

Lemma replay_s_replay : forall l c m, replay_s l c = Some m -> replay l c = Some m.
Proof.
  induction l as [|[h [|]] l IH]; intros c m H; cbn [replay_s replay] in *.
  - exact H.
  - destruct (memN h c); [discriminate|]. apply IH. exact H.
  - destruct c as [|t c']; [discriminate|]. destruct (N.eqb t h); [apply IH; exact H|discriminate].
Qed.

Lemma replay_s_nodup : forall l c m, NoDup c -> replay_s l c = Some m -> NoDup m.
Proof.
  induction l as [|[h [|]] l IH]; intros c m ND H; cbn [replay_s] in H.
  - inversion H; subst. exact ND.
  - destruct (memN h c) eqn:E; [discriminate|]. apply (IH (h :: c)); [|exact H].
    constructor; [apply memN_false; exact E|exact ND].
  - destruct c as [|t c']; [discriminate|]. destruct (N.eqb t h); [|discriminate].
    apply (IH c'); [|exact H]. inversion ND; assumption.
Qed.

Lemma replay_s_adds : forall l c, NoDup (rev l ++ c) ->
  replay_s (map (fun h => (h, true)) l) c = Some (rev l ++ c).
Proof.
  induction l as [|h l IH]; intros c ND; cbn [map replay_s rev app].
  - reflexivity.
  - cbn [rev] in ND. rewrite <- app_assoc in ND. cbn [app] in ND.
    assert (X : memN h c = false).
    { apply memN_false. intros Hc. apply NoDup_remove_2 in ND. apply ND.
      apply in_or_app. right. exact Hc. }
    rewrite X. rewrite IH by exact ND. rewrite <- app_assoc. reflexivity.
Qed.

Lemma replay_s_dels : forall fk l,
  replay_s (map (fun h => (h, false)) (take_until fk l)) l = Some (drop_until fk l).
Proof.
  intros fk; induction l as [|h l IH]; cbn [take_until drop_until map replay_s].
  - reflexivity.
  - destruct (N.eqb h fk) eqn:E; cbn [map replay_s].
    + reflexivity.
    + rewrite N.eqb_refl. exact IH.
Qed.

(** * the latest add record *)

(** position (from the oldest record) of the latest add record of [h] *)
Fixpoint idxn (h : N) (evs : list (N * bool)) : option nat :=
  match evs with
  | [] => None
  | (x, a) :: tl => if a && N.eqb x h then Some (length tl) else idxn h tl
  end.

Lemma idx_of_idxn : forall h evs, idx_of h evs = option_map Z.of_nat (idxn h evs).
Proof.
  induction evs as [|[x a] tl IH]; cbn [idx_of idxn]; [reflexivity|].
  destruct (a && N.eqb x h); [reflexivity|exact IH].
Qed.

Lemma idxn_lt : forall h evs i, idxn h evs = Some i -> (i < length evs)%nat.
Proof.
  induction evs as [|[x a] tl IH]; intros i H; cbn [idxn] in H; [discriminate|].
  cbn [length]. destruct (a && N.eqb x h).
  - inversion H; subst. lia.
  - specialize (IH _ H). lia.
Qed.

Definition log_at_n (evs : list (N * bool)) (j : nat) : option (N * bool) := nth_error (rev evs) j.

Lemma log_at_old : forall e tl j, (j < length tl)%nat -> log_at_n (e :: tl) j = log_at_n tl j.
Proof.
  intros e tl j L. unfold log_at_n. cbn [rev]. apply nth_error_app1. rewrite rev_length. exact L.
Qed.

Lemma log_at_new : forall e tl, log_at_n (e :: tl) (length tl) = Some e.
Proof.
  intros e tl. unfold log_at_n. cbn [rev]. rewrite nth_error_app2 by (rewrite rev_length; lia).
  rewrite rev_length, Nat.sub_diag. reflexivity.
Qed.

Lemma log_at_beyond : forall evs j, (length evs <= j)%nat -> log_at_n evs j = None.
Proof. intros evs j L. unfold log_at_n. apply nth_error_None. rewrite rev_length. exact L. Qed.

Lemma log_at_cons_cases : forall e tl j,
  log_at_n (e :: tl) j = if (j <? length tl)%nat then log_at_n tl j
                         else if (j =? length tl)%nat then Some e else None.
Proof.
  intros e tl j. destruct (j <? length tl)%nat eqn:L.
  - apply Nat.ltb_lt in L. apply log_at_old. exact L.
  - apply Nat.ltb_ge in L. destruct (j =? length tl)%nat eqn:E.
    + apply Nat.eqb_eq in E. subst. apply log_at_new.
    + apply Nat.eqb_neq in E. apply log_at_beyond. cbn [length]. lia.
Qed.

Lemma firstn_log_old : forall (e : N * bool) tl i, (i <= length tl)%nat ->
  firstn i (rev (e :: tl)) = firstn i (rev tl).
Proof.
  intros e tl i L. cbn [rev]. rewrite firstn_app.
  replace (i - length (rev tl))%nat with O by (rewrite rev_length; lia).
  cbn [firstn]. apply app_nil_r.
Qed.

(** what the index says about [h], given the log [evs] (newest first) and the chain [m] *)
Definition idx_fact (evs : list (N * bool)) (m : list N) (h : N) : Prop :=
  match idxn h evs with
  | None => ~ In h m /\ forall j, log_at_n evs j <> Some (h, true)
  | Some i =>
      log_at_n evs i = Some (h, true) /\
      (forall j, (i < j)%nat -> log_at_n evs j <> Some (h, true)) /\
      ((In h m /\ (forall j, (i < j)%nat -> log_at_n evs j <> Some (h, false)) /\
        exists above below, m = above ++ h :: below /\
                            replay (firstn (S i) (rev evs)) [] = Some (h :: below))
       \/ (~ In h m /\ exists j, (i < j)%nat /\ log_at_n evs j = Some (h, false)))
  end.

Lemma idx_fact_holds : forall evs m, replay_s (rev evs) [] = Some m -> forall h, idx_fact evs m h.
Proof.
  induction evs as [|[x a] tl IH]; intros m R h.
  - cbn in R. inversion R; subst. unfold idx_fact. cbn [idxn]. split; [intros []|].
    intros j. unfold log_at_n. cbn. destruct j; discriminate.
  - cbn [rev] in R. rewrite replay_s_app in R.
    destruct (replay_s (rev tl) []) as [m'|] eqn:R'; [|discriminate].
    assert (ND' : NoDup m') by (eapply replay_s_nodup; [constructor|exact R']).
    specialize (IH m' eq_refl h). unfold idx_fact in *. cbn [idxn].
    destruct a; cbn [replay_s] in R.
    + (* add x *)
      destruct (memN x m') eqn:Mx; [discriminate|]. inversion R; subst m; clear R.
      apply memN_false in Mx. cbn [andb].
      destruct (N.eqb x h) eqn:E.
      * apply N.eqb_eq in E. subst x.
        split; [apply log_at_new|]. split.
        { intros j L. rewrite log_at_beyond; [discriminate|cbn [length]; lia]. }
        left. split; [left; reflexivity|]. split.
        { intros j L. rewrite log_at_beyond; [discriminate|cbn [length]; lia]. }
        exists [], m'. split; [reflexivity|].
        rewrite firstn_all2 by (rewrite rev_length; cbn [length]; lia).
        cbn [rev]. rewrite replay_app. rewrite (replay_s_replay _ _ _ R'). reflexivity.
      * apply N.eqb_neq in E.
        destruct (idxn h tl) as [i|] eqn:I.
        -- pose proof (idxn_lt _ _ _ I) as Li.
           destruct IH as (A & B & C). split; [rewrite log_at_old by exact Li; exact A|]. split.
           { intros j L. rewrite log_at_cons_cases.
             destruct (j <? length tl)%nat; [apply B; exact L|].
             destruct (j =? length tl)%nat; [|discriminate]. intros Q. inversion Q. congruence. }
           destruct C as [(C1 & C2 & ab & bl & C3 & C4)|(C1 & j & C2 & C3)].
           ++ left. split; [right; exact C1|]. split.
              { intros j L. rewrite log_at_cons_cases.
                destruct (j <? length tl)%nat; [apply C2; exact L|].
                destruct (j =? length tl)%nat; discriminate. }
              exists (x :: ab), bl. split; [rewrite C3; reflexivity|].
              rewrite firstn_log_old by lia. exact C4.
           ++ right. split; [intros [Q|Q]; [congruence|exact (C1 Q)]|].
              exists j. split; [exact C2|].
              assert (j < length tl)%nat.
              { destruct (Nat.lt_ge_cases j (length tl)) as [L|L]; [exact L|].
                rewrite log_at_beyond in C3 by exact L. discriminate. }
              rewrite log_at_old by assumption. exact C3.
        -- destruct IH as (A & B). split; [intros [Q|Q]; [congruence|exact (A Q)]|].
           intros j. rewrite log_at_cons_cases.
           destruct (j <? length tl)%nat; [apply B|].
           destruct (j =? length tl)%nat; [|discriminate]. intros Q. inversion Q. congruence.
    + (* delete x: it is the tip *)
      destruct m' as [|t m'']; [discriminate|].
      destruct (N.eqb t x) eqn:Et; [|discriminate]. apply N.eqb_eq in Et. subst t.
      inversion R; subst m''; clear R. cbn [andb].
      inversion ND' as [|? ? Nx NDm]; subst.
      destruct (idxn h tl) as [i|] eqn:I.
      * pose proof (idxn_lt _ _ _ I) as Li.
        destruct IH as (A & B & C). split; [rewrite log_at_old by exact Li; exact A|]. split.
        { intros j L. rewrite log_at_cons_cases.
          destruct (j <? length tl)%nat; [apply B; exact L|].
          destruct (j =? length tl)%nat; discriminate. }
        destruct (N.eq_dec x h) as [->|Nxh].
        -- (* the deleted block itself *)
           right. split; [exact Nx|]. exists (length tl). split; [exact Li|apply log_at_new].
        -- destruct C as [(C1 & C2 & ab & bl & C3 & C4)|(C1 & j & C2 & C3)].
           ++ left. split; [destruct C1 as [Q|Q]; [congruence|exact Q]|]. split.
              { intros j L. rewrite log_at_cons_cases.
                destruct (j <? length tl)%nat; [apply C2; exact L|].
                destruct (j =? length tl)%nat; [|discriminate]. intros Q. inversion Q. congruence. }
              destruct ab as [|y ab']; cbn [app] in C3; inversion C3; subst; [congruence|].
              exists ab', bl. split; [reflexivity|].
              rewrite firstn_log_old by lia. exact C4.
           ++ right. split; [intros Q; apply C1; right; exact Q|].
              exists j. split; [exact C2|].
              assert (j < length tl)%nat.
              { destruct (Nat.lt_ge_cases j (length tl)) as [L|L]; [exact L|].
                rewrite log_at_beyond in C3 by exact L. discriminate. }
              rewrite log_at_old by assumption. exact C3.
      * destruct IH as (A & B). split; [intros Q; apply A; right; exact Q|].
        intros j. rewrite log_at_cons_cases.
        destruct (j <? length tl)%nat; [apply B|].
        destruct (j =? length tl)%nat; discriminate.
Qed.
