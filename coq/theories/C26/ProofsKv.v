(** C26 — proofs, part 4: the key-level store.  With saveSequence on, the
    node's own records are the numbered log of Model.v, the by-hash entry is
    the number of the latest add record, the range query returns log segments;
    without it (and not a para chain) nothing is ever written. *)
From Coq Require Import List ZArith NArith Bool Lia.
From C33 Require Import C25.Model C26.Model C26.ModelKv C26.SpecIdx C26.Proofs C26.ProofsIdx.
Import ListNotations.
Open Scope Z_scope.

Definition ev_of (e : sev) : N * bool := (fst (fst e), snd (fst e)).

Lemma dget_cons : forall k v d k0,
  dget ((k, v) :: d) k0 = if key_eqb k k0 then Some v else dget d k0.
Proof. intros. unfold dget. cbn [find fst snd]. destruct (key_eqb k k0); reflexivity. Qed.

Lemma num_at_cons : forall k v d k0,
  num_at ((k, v) :: d) k0 = if key_eqb k k0 then match v with VNum n => Some n | _ => None end
                            else num_at d k0.
Proof. intros. unfold num_at. rewrite dget_cons. destruct (key_eqb k k0); reflexivity. Qed.

Lemma rec_at_cons : forall k v d k0,
  rec_at ((k, v) :: d) k0 = if key_eqb k k0 then match v with VRec h a => Some (h, a) | _ => None end
                            else rec_at d k0.
Proof. intros. unfold rec_at. rewrite dget_cons. destruct (key_eqb k k0); reflexivity. Qed.

Lemma kv_of_cons : forall c e es, kv_of c (e :: es) = store_event c (kv_of c es) e.
Proof. reflexivity. Qed.

Ltac kv_step :=
  rewrite kv_of_cons; unfold store_event, save_block_sequence, save_own, save_main, dset.

(** ** the own log of a recording node (main chain or para chain) *)

Section Own.
Variable c : conf.
Hypothesis Hsave : c_save c = true.

Lemma own_last : forall es,
  num_at (kv_of c es) (last_key (c_para c)) =
  match es with [] => None | _ => Some (Z.of_nat (length es) - 1) end.
Proof.
  induction es as [|[[h a] ms] es IH]; [reflexivity|].
  kv_step. rewrite Hsave. cbn [orb]. unfold load_last. rewrite IH.
  assert (E : match es with [] => -1 | _ => Z.of_nat (length es) - 1 end + 1 = Z.of_nat (length (((h, a), ms) :: es)) - 1).
  { destruct es; cbn [length]; try unfold sev in *; lia. }
  destruct (c_para c); cbn [last_key seq_key hash_key];
    destruct a; repeat (rewrite num_at_cons; cbn [key_eqb]);
    (destruct es; [reflexivity|f_equal; cbn [length] in *; try unfold sev in *; lia]).
Qed.

Lemma own_load_last : forall es, load_last c (kv_of c es) = Z.of_nat (length es) - 1.
Proof.
  intros es. unfold load_last. rewrite own_last. destruct es; cbn [length]; lia.
Qed.

Lemma own_load_last_store : forall es,
  load_last c (kv_of c es) = lastseq (store_of (map ev_of es)).
Proof. intros. rewrite own_load_last, lastseq_store_of, map_length. reflexivity. Qed.

Lemma own_rec : forall es i,
  get_block_sequence c (kv_of c es) i = get_seq (store_of (map ev_of es)) i.
Proof.
  induction es as [|[[h a] ms] es IH]; intros i; [reflexivity|].
  cbn [map]. rewrite store_of_cons. unfold save_seq, get_seq. cbn [recs find fst snd].
  rewrite lastseq_store_of, map_length.
  unfold get_block_sequence in *. kv_step. rewrite Hsave. cbn [orb].
  rewrite own_load_last. specialize (IH i). unfold get_seq in IH.
  replace (Z.of_nat (length es) - 1 + 1) with (Z.of_nat (length es)) by lia.
  destruct (c_para c); cbn [last_key seq_key hash_key] in *;
    destruct a; repeat (rewrite rec_at_cons; cbn [key_eqb]);
    (destruct (Z.of_nat (length es) =? i); [reflexivity|exact IH]).
Qed.

Lemma own_idx : forall es h,
  get_sequence_by_hash c (kv_of c es) h = idx_of h (map ev_of es).
Proof.
  induction es as [|[[x a] ms] es IH]; intros h; [reflexivity|].
  cbn [map idx_of]. unfold ev_of at 1. cbn [fst snd]. rewrite map_length.
  unfold get_sequence_by_hash in *. kv_step. rewrite Hsave. cbn [orb].
  rewrite own_load_last. specialize (IH h).
  replace (Z.of_nat (length es) - 1 + 1) with (Z.of_nat (length es)) by lia.
  destruct (c_para c); cbn [last_key seq_key hash_key] in *;
    destruct a; cbn [andb]; repeat (rewrite num_at_cons; cbn [key_eqb]);
    try exact IH; (destruct (N.eqb x h); [reflexivity|exact IH]).
Qed.

(** the range query against the log *)
Lemma get_seq_log_at : forall evs i,
  get_seq (store_of evs) i = log_at (rev evs) i.
Proof.
  intros evs i. unfold log_at. destruct (i <? 0) eqn:E.
  - apply Z.ltb_lt in E. apply get_seq_neg. exact E.
  - apply Z.ltb_ge in E. apply get_seq_store_of. exact E.
Qed.

Lemma own_range : forall es st en,
  get_block_sequences c (kv_of c es) st en =
  range_spec (Z.of_nat (length es) - 1) (rev (map ev_of es)) st en.
Proof.
  intros es st en. unfold get_block_sequences, range_spec. rewrite own_load_last.
  set (last := Z.of_nat (length es) - 1).
  destruct (last <? st); [reflexivity|]. destruct (en <? st); [reflexivity|].
  destruct ((max_block_count <=? wrap64 (en - st)) || (wrap64 (en - st) <? 0)); [reflexivity|].
  assert (E : (if last <? en then last else en) = Z.min en last).
  { destruct (last <? en) eqn:L; [apply Z.ltb_lt in L|apply Z.ltb_ge in L]; lia. }
  rewrite E. f_equal. apply map_ext. intros i. rewrite own_rec. apply get_seq_log_at.
Qed.

End Own.

(** ** a node that is not a para chain: the "main sequence" queries read the same keys *)

Lemma main_alias : forall c d h n, c_para c = false ->
  get_main_sequence_by_hash d h = get_sequence_by_hash c d h /\
  get_block_by_main_sequence d n = get_block_sequence c d n /\
  load_last_main d = load_last c d.
Proof.
  intros c d h n P. unfold get_main_sequence_by_hash, get_sequence_by_hash,
    get_block_by_main_sequence, get_block_sequence, load_last_main, load_last.
  rewrite P. repeat split.
Qed.

(** ** no recording, no para chain: the database stays empty *)

Lemma norec_empty : forall es, kv_of norec_conf es = [].
Proof.
  induction es as [|[[h a] ms] es IH]; [reflexivity|].
  rewrite kv_of_cons, IH. reflexivity.
Qed.

(** ** in-range requests: the segment of the log *)

Lemma zseq_map_nth : forall (log : list (N * bool)) n a, (a + n <= length log)%nat ->
  map (log_at log) (zseq (Z.of_nat a) n) = map Some (firstn n (skipn a log)).
Proof.
  intros log n. induction n as [|n IH]; intros a L; [reflexivity|].
  cbn [zseq map]. replace (Z.of_nat a + 1) with (Z.of_nat (S a)) by lia.
  rewrite IH by lia. unfold log_at at 1.
  assert (Z.of_nat a <? 0 = false) as -> by (apply Z.ltb_ge; lia).
  rewrite Nat2Z.id.
  destruct (nth_error log a) as [x|] eqn:E.
  - rewrite (skipn_nth _ _ _ _ E). reflexivity.
  - apply nth_error_None in E. lia.
Qed.

Lemma range_in_bounds : forall (log : list (N * bool)) a n,
  (a + S n <= length log)%nat -> (n < 1000)%nat ->
  range_spec (Z.of_nat (length log) - 1) log (Z.of_nat a) (Z.of_nat (a + n)) =
  (0%N, map Some (firstn (S n) (skipn a log))).
Proof.
  intros log a n L K. unfold range_spec.
  assert (Z.of_nat (length log) - 1 <? Z.of_nat a = false) as -> by (apply Z.ltb_ge; lia).
  assert (Z.of_nat (a + n) <? Z.of_nat a = false) as -> by (apply Z.ltb_ge; lia).
  assert (W : wrap64 (Z.of_nat (a + n) - Z.of_nat a) = Z.of_nat n).
  { unfold wrap64, two63. replace (Z.of_nat (a + n) - Z.of_nat a) with (Z.of_nat n) by lia.
    rewrite Z.mod_small; lia. }
  rewrite W. unfold max_block_count.
  assert (1000 <=? Z.of_nat n = false) as -> by (apply Z.leb_gt; lia).
  assert (Z.of_nat n <? 0 = false) as -> by (apply Z.ltb_ge; lia).
  cbn [orb]. f_equal.
  replace (Z.to_nat (Z.min (Z.of_nat (a + n)) (Z.of_nat (length log) - 1) - Z.of_nat a + 1)) with (S n) by lia.
  apply zseq_map_nth. lia.
Qed.
