(** C26 — the block sequence log (blockstore.go saveBlockSequence, called from
    SaveBlock with AddBlock on every connectBlock and from DelBlock with DelBlock
    on every disconnectBlock, inside the block's batch), on top of C25's model
    of block acceptance, whose state carries the trace [evs] of connect /
    disconnect calls. *)
From Coq Require Import List ZArith NArith Bool.
From C33 Require Import C25.Model.
Import ListNotations.
Open Scope Z_scope.

(** the sequence part of the store: seq -> (hash, type) records and the
    "last sequence" key ([-1] when absent: LoadBlockLastSequence's error value) *)
Record seqstore := mkQ { recs : list (Z * (N * bool)); lastseq : Z }.

Definition empty_store : seqstore := mkQ [] (-1).

(** saveBlockSequence: newSequence = LoadBlockLastSequence() + 1 *)
Definition save_seq (q : seqstore) (e : N * bool) : seqstore :=
  let n := lastseq q + 1 in mkQ ((n, e) :: recs q) n.

(** the store after the calls [evs] (newest first) *)
Definition store_of (evs : list (N * bool)) : seqstore :=
  fold_right (fun e q => save_seq q e) empty_store evs.

(** GetBlockSequence *)
Definition get_seq (q : seqstore) (i : Z) : option (N * bool) :=
  match find (fun r => fst r =? i) (recs q) with Some r => Some (snd r) | None => None end.

(** reading the log back: sequences 0, 1, ..., n-1 *)
Fixpoint read_from (q : seqstore) (i : Z) (n : nat) : list (option (N * bool)) :=
  match n with
  | O => []
  | S k => get_seq q i :: read_from q (i + 1) k
  end.
Definition read_log (q : seqstore) : list (option (N * bool)) :=
  read_from q 0 (Z.to_nat (lastseq q + 1)).

(** replaying a log (oldest first) on a chain (tip first): push on add, pop on
    delete — the deleted hash must be the tip *)
Fixpoint replay (log : list (N * bool)) (chain : list N) : option (list N) :=
  match log with
  | [] => Some chain
  | (h, true) :: tl => replay tl (h :: chain)
  | (h, false) :: tl =>
      match chain with
      | t :: c' => if N.eqb t h then replay tl c' else None
      | [] => None
      end
  end.

(** all records present *)
Fixpoint all_some {A} (l : list (option A)) : option (list A) :=
  match l with
  | [] => Some []
  | Some x :: tl => match all_some tl with Some r => Some (x :: r) | None => None end
  | None :: _ => None
  end.

Definition seq_state (s : state) : seqstore := store_of (evs s).
