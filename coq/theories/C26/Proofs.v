(** C26 — proofs: the sequence store is numbered 0..last without gaps or reuse,
    and its replay is the best chain, after every delivery history. *)
From Coq Require Import List ZArith NArith Bool Lia FinFun.
From C33 Require Import C25.Model C26.Model.
Import ListNotations.
Open Scope Z_scope.

(** * replay *)

Lemma replay_app : forall l1 l2 c,
  replay (l1 ++ l2) c = match replay l1 c with Some c' => replay l2 c' | None => None end.
Proof.
  induction l1 as [|[h [|]] l1 IH]; intros l2 c; cbn [replay app].
  - reflexivity.
  - apply IH.
  - destruct c as [|t c']; [reflexivity|]. destruct (N.eqb t h); [apply IH|reflexivity].
Qed.

Lemma replay_adds : forall l c, replay (map (fun h => (h, true)) l) c = Some (rev l ++ c).
Proof.
  induction l as [|h l IH]; intros c; cbn [map replay rev app].
  - reflexivity.
  - rewrite IH. rewrite <- app_assoc. reflexivity.
Qed.

Lemma replay_dels : forall fk l,
  replay (map (fun h => (h, false)) (take_until fk l)) l = Some (drop_until fk l).
Proof.
  intros fk; induction l as [|h l IH]; cbn [take_until drop_until map replay].
  - reflexivity.
  - destruct (N.eqb h fk) eqn:E; cbn [map replay].
    + reflexivity.
    + rewrite N.eqb_refl. exact IH.
Qed.

(** * the invariant: replaying the trace of connect/disconnect calls gives the view *)

Definition inv (s : state) : Prop := replay (rev (evs s)) [] = Some (main s).

Lemma inv_init : forall g, inv (init g).
Proof. intros g. reflexivity. Qed.

Lemma inv_same : forall s s', evs s' = evs s -> main s' = main s -> inv s -> inv s'.
Proof. unfold inv; intros s s' E M H. rewrite E, M. exact H. Qed.

Lemma connect_best_inv : forall fin s b td s' m e,
  connect_best fin s b td = (s', m, e) -> inv s -> inv s'.
Proof.
  unfold connect_best; intros fin s b td s' m e H I.
  destruct (N.eqb (bpar b) (tip s)).
  - inversion H; subst; clear H. unfold inv in *; cbn [evs main rev].
    rewrite replay_app, I. reflexivity.
  - destruct (find_node (tip s) (idx s)) as [t|]; [|inversion H; subst; exact I].
    destruct ((td <=? ntd t) || (bht b <? fin + margin)); [inversion H; subst; exact I|].
    destruct (branch (S (Z.to_nat (bht b))) (idx s) (main s) (bid b)) as [[p fk]|];
      [|inversion H; subst; exact I].
    inversion H; subst; clear H. unfold inv in *; cbn [evs main].
    rewrite !rev_app_distr, rev_involutive, <- map_rev.
    rewrite <- app_assoc.
    rewrite replay_app, I, replay_app, replay_dels, replay_adds, rev_involutive.
    reflexivity.
Qed.

Lemma accept_inv : forall fin s b s' m e,
  accept fin s b = (s', m, e) -> inv s -> inv s'.
Proof.
  unfold accept; intros fin s b s' m e H I.
  destruct (find_node (bpar b) (idx s)) as [p|]; [|inversion H; subst; exact I].
  destruct (negb (bht b =? bht (nblk p) + 1)); [inversion H; subst; exact I|].
  eapply connect_best_inv; [exact H|]. exact I.
Qed.

Lemma porph_inv : forall fuel fin q s s' e,
  porph fuel fin q s = (s', e) -> inv s -> inv s'.
Proof.
  induction fuel as [|f IH]; intros fin q s s' e H I; cbn [porph] in H.
  - inversion H; subst; exact I.
  - destruct q as [|p q']; [inversion H; subst; exact I|].
    destruct (first_child p (orph s)) as [c|]; [|eapply IH; eauto].
    destruct (accept fin _ c) as [[s1 m1] e1] eqn:A.
    assert (I1 : inv s1) by (eapply accept_inv; [exact A|exact I]).
    destruct e1; try (inversion H; subst; exact I1).
    eapply IH; eauto.
Qed.

Lemma deliver_inv : forall fin s b, inv s -> inv (step fin s b).
Proof.
  unfold step, deliver; intros fin s b I.
  destruct (in_idx (bid b) (idx s)); [exact I|].
  destruct (in_orph (bid b) (orph s) && negb (in_idx (bpar b) (idx s))); [exact I|].
  set (s1 := if in_orph (bid b) (orph s) then _ else s).
  assert (I1 : inv s1) by (subst s1; destruct (in_orph (bid b) (orph s)); exact I).
  clearbody s1.
  destruct (negb (in_idx (bpar b) (idx s1))); [exact I1|].
  destruct (accept fin s1 b) as [[s2 m2] e2] eqn:A.
  assert (I2 : inv s2) by (eapply accept_inv; eauto).
  destruct e2; try exact I2.
  destruct (porph (porph_fuel s2) fin [bid b] s2) as [s3 e3] eqn:P.
  assert (I3 : inv s3) by (eapply porph_inv; eauto).
  destruct e3; exact I3.
Qed.

Lemma run_inv : forall fin g order, inv (run fin g order).
Proof.
  intros fin g order. unfold run.
  assert (G : forall s, inv s -> inv (fold_left (step fin) order s)).
  { induction order as [|b order IH]; intros s I; cbn [fold_left]; [exact I|].
    apply IH. apply deliver_inv. exact I. }
  apply G. apply inv_init.
Qed.

(** * the store *)

Lemma store_of_cons : forall e evs, store_of (e :: evs) = save_seq (store_of evs) e.
Proof. reflexivity. Qed.

Lemma lastseq_store_of : forall evs, lastseq (store_of evs) = Z.of_nat (length evs) - 1.
Proof.
  induction evs as [|e evs IH].
  - reflexivity.
  - rewrite store_of_cons. unfold save_seq; cbn [lastseq length]. rewrite IH. lia.
Qed.

Lemma get_seq_store_of : forall evs i, 0 <= i ->
  get_seq (store_of evs) i = nth_error (rev evs) (Z.to_nat i).
Proof.
  induction evs as [|e evs IH]; intros i Hi.
  - cbn. destruct (Z.to_nat i); reflexivity.
  - rewrite store_of_cons. unfold save_seq, get_seq.
    cbn [recs find fst snd]. rewrite lastseq_store_of.
    destruct (Z.of_nat (length evs) - 1 + 1 =? i) eqn:E.
    + apply Z.eqb_eq in E. cbn [rev].
      rewrite nth_error_app2 by (rewrite rev_length; lia).
      rewrite rev_length. replace (Z.to_nat i - length evs)%nat with O by lia. reflexivity.
    + apply Z.eqb_neq in E. fold (get_seq (store_of evs) i). rewrite IH by exact Hi.
      cbn [rev]. destruct (Z_lt_le_dec i (Z.of_nat (length evs))) as [L|L].
      * rewrite nth_error_app1 by (rewrite rev_length; lia). reflexivity.
      * assert (N1 : nth_error (rev evs) (Z.to_nat i) = None)
          by (apply nth_error_None; rewrite rev_length; lia).
        assert (N2 : nth_error (rev evs ++ [e]) (Z.to_nat i) = None)
          by (apply nth_error_None; rewrite app_length, rev_length; cbn; lia).
        rewrite N1, N2. reflexivity.
Qed.

Lemma get_seq_neg : forall evs i, i < 0 -> get_seq (store_of evs) i = None.
Proof.
  induction evs as [|e evs IH]; intros i Hi; [reflexivity|].
  rewrite store_of_cons. unfold save_seq, get_seq.
  cbn [recs find fst snd]. rewrite lastseq_store_of.
  destruct (Z.of_nat (length evs) - 1 + 1 =? i) eqn:E; [apply Z.eqb_eq in E; lia|].
  apply IH. exact Hi.
Qed.

Lemma keys_store_of : forall evs,
  map fst (recs (store_of evs)) = rev (map Z.of_nat (seq 0 (length evs))).
Proof.
  induction evs as [|e evs IH]; [reflexivity|].
  rewrite store_of_cons. unfold save_seq. cbn [recs map fst].
  rewrite IH, lastseq_store_of. cbn [length]. rewrite seq_S, map_app, rev_app_distr.
  cbn [map rev app]. f_equal. lia.
Qed.

Lemma skipn_nth : forall A (l : list A) i x,
  nth_error l i = Some x -> skipn i l = x :: skipn (S i) l.
Proof.
  induction l as [|y l IH]; intros [|i] x H; cbn in H; try discriminate.
  - inversion H; subst. reflexivity.
  - cbn [skipn]. rewrite (IH _ _ H). reflexivity.
Qed.

Lemma read_from_spec : forall evs k i, (i + k = length evs)%nat ->
  read_from (store_of evs) (Z.of_nat i) k = map Some (skipn i (rev evs)).
Proof.
  intros evs; induction k as [|k IH]; intros i H; cbn [read_from].
  - rewrite skipn_all2 by (rewrite rev_length; lia). reflexivity.
  - rewrite get_seq_store_of by lia. rewrite Nat2Z.id.
    replace (Z.of_nat i + 1) with (Z.of_nat (S i)) by lia.
    rewrite IH by lia.
    destruct (nth_error (rev evs) i) as [x|] eqn:E.
    + rewrite (skipn_nth _ _ _ _ E). reflexivity.
    + apply nth_error_None in E. rewrite rev_length in E. lia.
Qed.

Lemma read_log_spec : forall evs, read_log (store_of evs) = map Some (rev evs).
Proof.
  intros evs. unfold read_log. rewrite lastseq_store_of.
  replace (Z.to_nat (Z.of_nat (length evs) - 1 + 1)) with (length evs) by lia.
  apply (read_from_spec evs (length evs) 0). lia.
Qed.

Lemma all_some_map : forall A (l : list A), all_some (map Some l) = Some l.
Proof. induction l as [|x l IH]; cbn; [reflexivity|rewrite IH; reflexivity]. Qed.

(** * the theorems *)

Lemma seq_gapfree : forall fin g order i,
  let q := seq_state (run fin g order) in
  get_seq q i <> None <-> 0 <= i <= lastseq q.
Proof.
  intros fin g order i q. subst q. unfold seq_state.
  set (ev := evs (run fin g order)). rewrite lastseq_store_of.
  destruct (Z_lt_le_dec i 0) as [L|L].
  - rewrite get_seq_neg by exact L. split; [congruence|lia].
  - rewrite get_seq_store_of by exact L. split; intro H.
    + apply nth_error_Some in H. rewrite rev_length in H. lia.
    + apply nth_error_Some. rewrite rev_length. lia.
Qed.

Lemma seq_no_reuse : forall fin g order,
  NoDup (map fst (recs (seq_state (run fin g order)))).
Proof.
  intros. unfold seq_state. rewrite keys_store_of.
  apply NoDup_rev. apply Injective_map_NoDup; [|apply seq_NoDup].
  intros a b H. lia.
Qed.

Lemma seq_replay : forall fin g order,
  let s := run fin g order in
  exists l, all_some (read_log (seq_state s)) = Some l /\ replay l [] = Some (main s)
            /\ Z.of_nat (length l) = lastseq (seq_state s) + 1.
Proof.
  intros fin g order s. exists (rev (evs s)). unfold seq_state.
  rewrite read_log_spec, all_some_map, lastseq_store_of, rev_length.
  split; [reflexivity|]. split; [apply run_inv|lia].
Qed.

(** non-vacuity: a history with a reorganisation (blocks 1,2 then 3,4,5 from the root with fin = -12) *)
Example seq_example :
  let g := mkB 0 99 0 1 in
  let s := run (-12) g [mkB 1 0 1 1; mkB 2 1 2 1; mkB 4 3 2 1; mkB 5 4 3 1; mkB 3 0 1 1] in
  main s = [5; 4; 3; 0]%N /\ lastseq (seq_state s) = 7 /\
  get_seq (seq_state s) 3 = Some (2%N, false).
Proof. vm_compute. repeat split. Qed.
