(** C26 — proofs, part 5: para-chain nodes.  The database of a run is the
    database of its trace of store calls; the trace replays strictly to the
    best chain; the records kept under the caller's sequence numbers, read in
    key order, are the trace when the numbers increase. *)
From Coq Require Import List ZArith NArith Bool Lia.
From C33 Require Import C25.Model C26.Model C26.ModelKv C26.SpecIdx C26.Proofs C26.ProofsIdx C26.ProofsKv.
Import ListNotations.
Open Scope Z_scope.

Definition sev_seq (e : sev) : Z := snd e.

(** * the records under the caller's numbers *)

Fixpoint massoc (n : Z) (tr : list sev) : option (N * bool) :=
  match tr with
  | [] => None
  | (h, a, ms) :: tl => if ms =? n then Some (h, a) else massoc n tl
  end.

Section ParaKeys.
Variable c : conf.
Hypothesis Hpara : c_para c = true.

Lemma para_main_rec : forall tr n, get_block_by_main_sequence (kv_of c tr) n = massoc n tr.
Proof.
  induction tr as [|[[h a] ms] tr IH]; intros n; [reflexivity|].
  unfold get_block_by_main_sequence in *. kv_step. rewrite Hpara, orb_true_r.
  cbn [massoc last_key seq_key hash_key]. specialize (IH n).
  destruct (c_save c); destruct a; repeat (rewrite rec_at_cons; cbn [key_eqb]);
    (destruct (ms =? n); [reflexivity|exact IH]).
Qed.

Lemma para_main_idx : forall tr h, get_main_sequence_by_hash (kv_of c tr) h = midx_of h tr.
Proof.
  induction tr as [|[[x a] ms] tr IH]; intros h; [reflexivity|].
  unfold get_main_sequence_by_hash in *. kv_step. rewrite Hpara, orb_true_r.
  cbn [midx_of last_key seq_key hash_key]. specialize (IH h).
  destruct (c_save c); destruct a; cbn [andb]; repeat (rewrite num_at_cons; cbn [key_eqb]);
    try exact IH; (destruct (N.eqb x h); [reflexivity|exact IH]).
Qed.

Lemma para_main_last : forall tr,
  load_last_main (kv_of c tr) = match tr with [] => -1 | e :: _ => sev_seq e end.
Proof.
  destruct tr as [|[[x a] ms] tr]; [reflexivity|].
  unfold load_last_main. kv_step. rewrite Hpara, orb_true_r.
  cbn [last_key seq_key hash_key].
  destruct (c_save c); destruct a; repeat (rewrite num_at_cons; cbn [key_eqb]); reflexivity.
Qed.

(** without isRecordBlockSequence a para-chain node has no log of its own *)
Lemma para_norec_own : c_save c = false -> forall tr n h,
  load_last c (kv_of c tr) = -1 /\ get_block_sequence c (kv_of c tr) n = None /\
  get_sequence_by_hash c (kv_of c tr) h = None.
Proof.
  intros Hs tr n h. unfold load_last, get_block_sequence, get_sequence_by_hash.
  rewrite Hpara. cbn [last_key seq_key hash_key].
  induction tr as [|[[x a] ms] tr IH]; [repeat split|].
  kv_step. rewrite Hpara, Hs. cbn [orb].
  destruct a; repeat (rewrite num_at_cons; cbn [key_eqb]); repeat (rewrite rec_at_cons; cbn [key_eqb]);
    exact IH.
Qed.

End ParaKeys.

(** * reading sparse keys in order *)

Lemma zseq_app : forall n1 n2 a, zseq a (n1 + n2) = zseq a n1 ++ zseq (a + Z.of_nat n1) n2.
Proof.
  induction n1 as [|n1 IH]; intros n2 a.
  - cbn [plus zseq app]. f_equal. lia.
  - cbn [plus zseq app]. rewrite IH. f_equal. f_equal. f_equal. lia.
Qed.

Lemma zseq_in : forall n a x, In x (zseq a n) -> a <= x < a + Z.of_nat n.
Proof.
  induction n as [|n IH]; intros a x H; [destruct H|].
  cbn [zseq] in H. destruct H as [<-|H]; [lia|]. apply IH in H. lia.
Qed.

Lemma somes_app : forall A (l1 l2 : list (option A)), somes (l1 ++ l2) = somes l1 ++ somes l2.
Proof.
  induction l1 as [|[x|] l1 IH]; intros l2; cbn [somes app]; [reflexivity| |apply IH].
  rewrite IH. reflexivity.
Qed.

Lemma somes_none : forall A B (f : B -> option A) l,
  (forall x, In x l -> f x = None) -> somes (map f l) = [].
Proof.
  induction l as [|x l IH]; intros H; [reflexivity|]. cbn [map somes].
  rewrite (H x) by (left; reflexivity). apply IH. intros y Hy. apply H. right; exact Hy.
Qed.

Lemma massoc_none : forall tr n, (forall e, In e tr -> sev_seq e <> n) -> massoc n tr = None.
Proof.
  induction tr as [|[[h a] ms] tr IH]; intros n H; [reflexivity|]. cbn [massoc].
  destruct (ms =? n) eqn:E.
  - apply Z.eqb_eq in E. exfalso. apply (H ((h, a), ms)); [left; reflexivity|exact E].
  - apply IH. intros e He. apply H. right; exact He.
Qed.

Lemma mono_b_cons2 : forall h a k h2 a2 k2 tl,
  mono_b ((h, a, k) :: (h2, a2, k2) :: tl) = (k2 <? k) && mono_b ((h2, a2, k2) :: tl).
Proof. reflexivity. Qed.

Lemma mono_below : forall tr e, mono_b (e :: tr) = true ->
  mono_b tr = true /\ forall e', In e' tr -> sev_seq e' < sev_seq e.
Proof.
  induction tr as [|[[h2 a2] k2] tr IH]; intros [[h a] k] M.
  - split; [reflexivity|intros e' []].
  - rewrite mono_b_cons2 in M. apply andb_true_iff in M as [L M]. apply Z.ltb_lt in L.
    split; [exact M|]. destruct (IH _ M) as [_ B].
    intros e' [<-|He]; [exact L|]. specialize (B e' He). unfold sev_seq in *. cbn [snd] in *. lia.
Qed.

Lemma scan_sorted : forall tr lo n, mono_b tr = true ->
  (forall e, In e tr -> lo <= sev_seq e < lo + Z.of_nat n) ->
  somes (map (fun k => massoc k tr) (zseq lo n)) = rev (map ev_of tr).
Proof.
  induction tr as [|e tr IH]; intros lo n M R.
  - apply somes_none. intros x _. reflexivity.
  - destruct (mono_below _ _ M) as [M' Below].
    destruct e as [[h a] k]. assert (Rk := R _ (or_introl eq_refl)). unfold sev_seq in Rk; cbn [snd] in Rk.
    set (n1 := Z.to_nat (k - lo)). set (n2 := (n - n1 - 1)%nat).
    replace n with (n1 + (1 + n2))%nat by lia.
    rewrite zseq_app, map_app, somes_app. rewrite (zseq_app 1 n2), map_app, somes_app.
    replace (lo + Z.of_nat n1) with k by lia.
    match goal with |- context [massoc _ ?l] => set (trx := l) end.
    (* below k: the older records *)
    assert (P1 : somes (map (fun k0 => massoc k0 trx) (zseq lo n1)) = rev (map ev_of tr)).
    { subst trx. rewrite <- (IH lo n1 M').
      - f_equal. apply map_ext_in. intros x Hx. apply zseq_in in Hx. cbn [massoc].
        assert (k =? x = false) as -> by (apply Z.eqb_neq; lia). reflexivity.
      - intros e He. specialize (Below e He). specialize (R e (or_intror He)).
        unfold sev_seq in *. cbn [snd] in *. lia. }
    (* above k: nothing *)
    assert (P3 : somes (map (fun k0 => massoc k0 trx) (zseq (k + Z.of_nat 1) n2)) = []).
    { subst trx. apply somes_none. intros x Hx. apply zseq_in in Hx. cbn [massoc].
      assert (k =? x = false) as -> by (apply Z.eqb_neq; lia).
      apply massoc_none. intros e He. specialize (Below e He). unfold sev_seq in *. cbn [snd] in *. lia. }
    rewrite P1, P3. subst trx. cbn [zseq map somes massoc].
    rewrite Z.eqb_refl. cbn [somes app rev map]. unfold ev_of at 2. cbn [fst snd].
    reflexivity.
Qed.

(** * runs *)

Definition pinv (c : conf) (s : pstate) (tr : list sev) : Prop :=
  pdb s = kv_of c tr /\
  replay_s (rev (map ev_of tr)) [] = Some (map bid (pchain s)) /\
  pchain s <> [].

Lemma memN_chain : forall (b : block) ch,
  existsb (fun x => N.eqb (bid x) (bid b)) ch = memN (bid b) (map bid ch).
Proof.
  intros b ch. unfold memN. induction ch as [|x ch IH]; [reflexivity|].
  cbn [existsb map]. rewrite IH, (N.eqb_sym (bid x)). reflexivity.
Qed.

Lemma pstep_pinv : forall c s tr o s' e, pinv c s tr -> pstep c s o = (s', e) ->
  pinv c s' (if N.eqb e 0 then op_event o :: tr else tr).
Proof.
  intros c s tr o s' e (D & R & NE) H. destruct o as [b ms|b ms|a]; cbn [pstep] in H.
  - destruct (bht b <=? 0); [inversion H; subst; repeat split; assumption|].
    destruct (negb (N.eqb (bpar b) (ptip_id s))); [inversion H; subst; repeat split; assumption|].
    destruct (existsb (fun x => N.eqb (bid x) (bid b)) (pchain s)) eqn:X;
      [inversion H; subst; repeat split; assumption|].
    destruct (negb (bht b =? ptip_ht s + 1)); [inversion H; subst; repeat split; assumption|].
    inversion H; subst; clear H. cbn [N.eqb op_event]. split; [|split].
    + cbn [pdb]. rewrite D. reflexivity.
    + cbn [map rev pchain]. rewrite replay_s_app, R. unfold ev_of at 1. cbn [fst snd replay_s].
      rewrite memN_chain in X. rewrite X. reflexivity.
    + cbn [pchain]. discriminate.
  - destruct (bht b <=? 0); [inversion H; subst; repeat split; assumption|].
    destruct (negb (N.eqb (bid b) (ptip_id s))) eqn:T; [inversion H; subst; repeat split; assumption|].
    destruct (pchain s) as [|t [|t2 rest]] eqn:C;
      try (inversion H; subst; cbn [N.eqb]; repeat split; try assumption; congruence).
    inversion H; subst; clear H. cbn [N.eqb op_event]. split; [|split].
    + cbn [pdb]. rewrite D. reflexivity.
    + cbn [map rev pchain]. rewrite replay_s_app, R. unfold ev_of at 1. cbn [fst snd replay_s map].
      apply negb_false_iff in T. unfold ptip_id in T. rewrite C in T. rewrite N.eqb_sym in T.
      rewrite T. reflexivity.
    + cbn [pchain]. discriminate.
  - inversion H; subst. repeat split; assumption.
Qed.

Lemma pinit_pinv : forall c g, pinv c (pinit c g) [(bid g, true, -1)].
Proof. intros c g. split; [reflexivity|]. split; [reflexivity|discriminate]. Qed.

Lemma prun_from_pinv : forall c ops s tr, pinv c s tr ->
  pinv c (fold_left (fun s o => fst (pstep c s o)) ops s) (ptrace_from c s ops tr).
Proof.
  induction ops as [|o ops IH]; intros s tr I; cbn [fold_left ptrace_from]; [exact I|].
  destruct (pstep c s o) as [s' e] eqn:P. cbn [fst]. apply IH.
  eapply pstep_pinv; eauto.
Qed.

Lemma prun_pinv : forall c g ops, pinv c (prun c g ops) (ptrace c g ops).
Proof. intros. unfold prun, ptrace. apply prun_from_pinv. apply pinit_pinv. Qed.

(** the trace is never empty and ends with the genesis record *)
Lemma ptrace_from_last : forall c ops s tr e0, last tr e0 = e0 -> tr <> [] ->
  last (ptrace_from c s ops tr) e0 = e0 /\ ptrace_from c s ops tr <> [].
Proof.
  induction ops as [|o ops IH]; intros s tr e0 L NE; cbn [ptrace_from]; [split; assumption|].
  destruct (pstep c s o) as [s' e]. apply IH.
  - destruct (N.eqb e 0); [|exact L]. destruct tr; [congruence|]. cbn [last] in *. exact L.
  - destruct (N.eqb e 0); [discriminate|exact NE].
Qed.

Lemma mono_last_min : forall tr e0, mono_b tr = true -> last tr e0 = e0 -> tr <> [] ->
  forall e, In e tr -> sev_seq e0 <= sev_seq e.
Proof.
  induction tr as [|x tr IH]; intros e0 M L NE e He; [congruence|].
  destruct (mono_below _ _ M) as [M' B]. destruct tr as [|y tr].
  - cbn [last] in L. destruct He as [<-|[]]. subst. lia.
  - assert (L' : last (y :: tr) e0 = e0) by exact L.
    destruct He as [<-|He].
    + assert (sev_seq e0 <= sev_seq y) by (apply (IH e0 M' L'); [discriminate|left; reflexivity]).
      specialize (B y (or_introl eq_refl)). lia.
    + apply (IH e0 M' L'); [discriminate|exact He].
Qed.

(** * the statements *)

(** own log of a recording para-chain node: as on any node *)
Lemma para_own_log : forall g ops,
  let c := mkConf true true in
  let s := prun c g ops in
  let d := pdb s in
  let ch := map bid (pchain s) in
  exists log,
    load_last c d = Z.of_nat (length log) - 1 /\
    (forall i, get_block_sequence c d i = log_at log i) /\
    replay log [] = Some ch /\
    (forall h, get_sequence_by_hash c d h = idx_of h (rev log) /\ idx_fact (rev log) ch h) /\
    (forall st en, get_block_sequences c d st en = range_spec (Z.of_nat (length log) - 1) log st en).
Proof.
  intros g ops c s d ch. destruct (prun_pinv c g ops) as (D & R & _).
  fold s in D, R. fold ch in R. subst d. rewrite D.
  exists (rev (map ev_of (ptrace c g ops))).
  rewrite rev_length, map_length, rev_involutive.
  split; [apply own_load_last; reflexivity|]. split.
  { intros i. rewrite own_rec by reflexivity. apply get_seq_log_at. }
  split; [apply replay_s_replay; exact R|]. split.
  { intros h. split; [apply own_idx; reflexivity|]. apply idx_fact_holds. exact R. }
  intros st en. rewrite own_range by reflexivity. reflexivity.
Qed.

(** the main-sequence records under increasing numbers *)
Lemma para_main_partial : forall c g ops, c_para c = true -> para_guard_b c g ops = true ->
  let s := prun c g ops in
  let d := pdb s in
  let tr := ptrace c g ops in
  replay (scan_main d (-1) (Z.to_nat (load_last_main d + 2))) [] = Some (map bid (pchain s)) /\
  (forall e, In e tr -> sev_seq e <= load_last_main d) /\
  (forall h, get_main_sequence_by_hash d h = midx_of h tr).
Proof.
  intros c g ops P G s d tr. destruct (prun_pinv c g ops) as (D & R & _).
  fold s in D, R. fold tr in D, R. subst d. rewrite D. unfold para_guard_b in G. fold tr in G.
  destruct (ptrace_from_last c ops (pinit c g) [(bid g, true, -1)] (bid g, true, -1) eq_refl) as [L NE];
    [discriminate|]. fold (ptrace c g ops) in L, NE. fold tr in L, NE.
  rewrite (para_main_last c P).
  assert (Top : forall e, In e tr -> sev_seq e <= match tr with [] => -1 | e0 :: _ => sev_seq e0 end).
  { destruct tr as [|e0 tr']; [intros e []|]. destruct (mono_below _ _ G) as [_ B].
    intros e [<-|He]; [lia|]. specialize (B e He). lia. }
  pose proof (mono_last_min tr _ G L NE) as Bot. unfold sev_seq at 1 in Bot. cbn [snd] in Bot.
  split; [|split; [exact Top|intros h; apply (para_main_idx c P)]].
  unfold scan_main.
  rewrite (map_ext _ (fun k => massoc k tr)) by (intros k; apply (para_main_rec c P)).
  rewrite scan_sorted; [apply replay_s_replay; exact R|exact G|].
  intros e He. specialize (Top e He). specialize (Bot e He). lia.
Qed.

Lemma para_main_refuted :
  ~ (forall c g ops, c_para c = true ->
       let s := prun c g ops in
       replay (scan_main (pdb s) (-1) (Z.to_nat (load_last_main (pdb s) + 2))) [] = Some (map bid (pchain s))).
Proof.
  intros H.
  specialize (H (mkConf false true) (mkB 0 99 0 1) [PAdd (mkB 1 0 1 1) 5; PDel (mkB 1 0 1 1) 5] eq_refl).
  vm_compute in H. discriminate.
Qed.

(** the guard is satisfiable by a run with deletes and a block that comes back *)
Example para_example :
  let c := mkConf true true in
  let g := mkB 0 99 0 1 in
  let b1 := mkB 1 0 1 1 in let b2 := mkB 2 1 2 1 in let b3 := mkB 3 1 2 1 in
  let ops := [PAdd b1 0; PAdd b2 3; PDel b2 4; PAdd b3 9; PDel b3 10; PAdd b2 11; PNil true; PDel b1 12] in
  let s := prun c g ops in
  para_guard_b c g ops = true /\ map bid (pchain s) = [2; 1; 0]%N /\
  load_last_main (pdb s) = 11 /\ get_main_sequence_by_hash (pdb s) 2 = Some 11 /\
  get_sequence_by_hash c (pdb s) 2 = Some 6 /\ get_block_by_main_sequence (pdb s) 5 = None /\
  get_block_by_main_sequence (pdb s) 4 = Some (2%N, false).
Proof. vm_compute. repeat split. Qed.
