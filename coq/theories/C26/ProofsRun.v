(** C26 — proofs, part 3: in C25's runs no block is connected while it is on
    the best chain (the connect/disconnect trace replays strictly), for every
    root block and every delivery order.  Needs three facts about the model of
    process.go: the fork-point walk never repeats a block, the best chain is
    indexed, and an orphan is not indexed. *)
From Coq Require Import List ZArith NArith Bool Lia.
From C33 Require Import C25.Model C26.Model C26.Proofs C26.ProofsIdx.
Import ListNotations.
Open Scope Z_scope.

(** * the fork-point walk *)

Lemma branch_indep : forall f1 f2 ix mn h r1 r2,
  branch f1 ix mn h = Some r1 -> branch f2 ix mn h = Some r2 -> r1 = r2.
Proof.
  induction f1 as [|f1 IH]; intros f2 ix mn h r1 r2 H1 H2; [discriminate|].
  destruct f2 as [|f2]; [discriminate|]. cbn [branch] in H1, H2.
  destruct (memN h mn); [congruence|].
  destruct (find_node h ix) as [n|]; [|discriminate].
  destruct (branch f1 ix mn (bpar (nblk n))) as [[p1 k1]|] eqn:B1; [|discriminate].
  destruct (branch f2 ix mn (bpar (nblk n))) as [[p2 k2]|] eqn:B2; [|discriminate].
  pose proof (IH _ _ _ _ _ _ B1 B2) as E. inversion E; subst. congruence.
Qed.

Lemma branch_sub : forall f ix mn h p fk x,
  branch f ix mn h = Some (p, fk) -> In x p ->
  exists f' p', branch f' ix mn x = Some (p', fk) /\ (length p' <= length p)%nat.
Proof.
  induction f as [|f IH]; intros ix mn h p fk x H Hx; [discriminate|].
  pose proof H as H0. cbn [branch] in H.
  destruct (memN h mn); [inversion H; subst; destruct Hx|].
  destruct (find_node h ix) as [n|]; [|discriminate].
  destruct (branch f ix mn (bpar (nblk n))) as [[p1 k1]|] eqn:B1; [|discriminate].
  inversion H; subst; clear H. destruct Hx as [<-|Hx].
  - exists (S f), (h :: p1). split; [exact H0|lia].
  - destruct (IH _ _ _ _ _ _ B1 Hx) as (f' & p' & A & L).
    exists f', p'. split; [exact A|cbn [length]; lia].
Qed.

Lemma branch_nodup : forall f ix mn h p fk, branch f ix mn h = Some (p, fk) -> NoDup p.
Proof.
  induction f as [|f IH]; intros ix mn h p fk H; [discriminate|].
  pose proof H as H0. cbn [branch] in H.
  destruct (memN h mn); [inversion H; subst; constructor|].
  destruct (find_node h ix) as [n|]; [|discriminate].
  destruct (branch f ix mn (bpar (nblk n))) as [[p1 k1]|] eqn:B1; [|discriminate].
  inversion H; subst; clear H. constructor; [|eapply IH; exact B1].
  intros Hin. destruct (branch_sub _ _ _ _ _ _ _ B1 Hin) as (f' & p' & A & L).
  pose proof (branch_indep _ _ _ _ _ _ _ A H0) as E. inversion E; subst. cbn [length] in L. lia.
Qed.

Lemma branch_props : forall f ix mn h p fk, branch f ix mn h = Some (p, fk) ->
  memN fk mn = true /\ forall x, In x p -> memN x mn = false /\ in_idx x ix = true.
Proof.
  induction f as [|f IH]; intros ix mn h p fk H; [discriminate|]. cbn [branch] in H.
  destruct (memN h mn) eqn:M.
  - inversion H; subst. split; [exact M|intros x []].
  - destruct (find_node h ix) as [n|] eqn:F; [|discriminate].
    destruct (branch f ix mn (bpar (nblk n))) as [[p1 k1]|] eqn:B1; [|discriminate].
    inversion H; subst; clear H. destruct (IH _ _ _ _ _ B1) as [A B]. split; [exact A|].
    intros x [<-|Hx]; [|apply B; exact Hx]. split; [exact M|]. unfold in_idx. rewrite F. reflexivity.
Qed.

(** * lists *)

Lemma drop_until_incl : forall fk l x, In x (drop_until fk l) -> In x l.
Proof.
  intros fk; induction l as [|h l IH]; intros x H; cbn [drop_until] in H; [exact H|].
  destruct (N.eqb h fk); [exact H|right; apply IH; exact H].
Qed.

Lemma drop_until_nodup : forall fk l, NoDup l -> NoDup (drop_until fk l).
Proof.
  intros fk; induction l as [|h l IH]; intros ND; cbn [drop_until]; [constructor|].
  destruct (N.eqb h fk); [exact ND|]. apply IH. inversion ND; assumption.
Qed.

Lemma nodup_app : forall A (l1 l2 : list A),
  NoDup l1 -> NoDup l2 -> (forall x, In x l1 -> ~ In x l2) -> NoDup (l1 ++ l2).
Proof.
  induction l1 as [|a l1 IH]; intros l2 N1 N2 D; cbn [app]; [exact N2|].
  inversion N1; subst. constructor.
  - intros H. apply in_app_or in H as [H|H]; [contradiction|]. apply (D a); [left; reflexivity|exact H].
  - apply IH; [assumption|exact N2|]. intros x Hx. apply D. right; exact Hx.
Qed.

Lemma in_idx_cons : forall h n ix,
  in_idx h (n :: ix) = N.eqb (bid (nblk n)) h || in_idx h ix.
Proof.
  intros h n ix. unfold in_idx, find_node. cbn [find].
  destruct (N.eqb (bid (nblk n)) h); reflexivity.
Qed.

(** * the invariant *)

Definition sinv (s : state) : Prop :=
  replay_s (rev (evs s)) [] = Some (main s) /\
  (forall h, In h (main s) -> in_idx h (idx s) = true) /\
  (forall c, In c (orph s) -> in_idx (bid c) (idx s) = false).

Lemma sinv_init : forall g, sinv (init g).
Proof.
  intros g. split; [reflexivity|]. split; [|intros c []].
  intros h [<-|[]]. unfold init; cbn [idx]. rewrite in_idx_cons. cbn [nblk]. rewrite N.eqb_refl. reflexivity.
Qed.

Lemma sinv_nodup : forall s, sinv s -> NoDup (main s).
Proof. intros s (R & _). eapply replay_s_nodup; [constructor|exact R]. Qed.

Lemma connect_best_sinv : forall fin s b td s' m e,
  connect_best fin s b td = (s', m, e) -> sinv s ->
  in_idx (bid b) (idx s) = true -> ~ In (bid b) (main s) -> sinv s'.
Proof.
  unfold connect_best; intros fin s b td s' m e H I Ib Nb.
  pose proof (sinv_nodup _ I) as ND. destruct I as (R & Mi & Oi).
  destruct (N.eqb (bpar b) (tip s)).
  - inversion H; subst; clear H. split; [|split].
    + cbn [evs main rev]. rewrite replay_s_app, R. cbn [replay_s].
      apply memN_false in Nb. rewrite Nb. reflexivity.
    + cbn [main idx]. intros h [<-|Hh]; [exact Ib|apply Mi; exact Hh].
    + exact Oi.
  - destruct (find_node (tip s) (idx s)) as [t|]; [|inversion H; subst; repeat split; assumption].
    destruct ((td <=? ntd t) || (bht b <? fin + margin)); [inversion H; subst; repeat split; assumption|].
    destruct (branch (S (Z.to_nat (bht b))) (idx s) (main s) (bid b)) as [[p fk]|] eqn:B;
      [|inversion H; subst; repeat split; assumption].
    inversion H; subst; clear H.
    pose proof (branch_nodup _ _ _ _ _ _ B) as NDp.
    destruct (branch_props _ _ _ _ _ _ B) as [Fk Pp].
    assert (NDall : NoDup (p ++ drop_until fk (main s))).
    { apply nodup_app; [exact NDp|apply drop_until_nodup; exact ND|].
      intros x Hx Hd. destruct (Pp x Hx) as [Mx _]. apply memN_false in Mx. apply Mx.
      eapply drop_until_incl. exact Hd. }
    split; [|split].
    + cbn [evs main].
      rewrite !rev_app_distr, rev_involutive, <- map_rev.
      rewrite <- app_assoc.
      rewrite replay_s_app, R, replay_s_app, replay_s_dels, replay_s_adds;
        rewrite rev_involutive; [reflexivity|exact NDall].
    + cbn [main idx]. intros h Hh. apply in_app_or in Hh as [Hh|Hh].
      * apply Pp. exact Hh.
      * apply Mi. eapply drop_until_incl. exact Hh.
    + exact Oi.
Qed.

Lemma accept_sinv : forall fin s b s' m e,
  accept fin s b = (s', m, e) -> sinv s ->
  in_idx (bid b) (idx s) = false -> (forall c, In c (orph s) -> bid c <> bid b) -> sinv s'.
Proof.
  unfold accept; intros fin s b s' m e H I Nb No.
  destruct (find_node (bpar b) (idx s)) as [p|]; [|inversion H; subst; exact I].
  destruct (negb (bht b =? bht (nblk p) + 1)); [inversion H; subst; exact I|].
  destruct I as (R & Mi & Oi).
  eapply connect_best_sinv; [exact H| | |].
  - split; [exact R|]. split.
    + cbn [main idx]. intros h Hh. rewrite in_idx_cons, (Mi h Hh). apply orb_true_r.
    + cbn [orph idx]. intros c Hc. rewrite in_idx_cons, (Oi c Hc). cbn [nblk].
      rewrite orb_false_r. apply N.eqb_neq. intros E. apply (No c Hc). symmetry. exact E.
  - cbn [idx]. rewrite in_idx_cons. cbn [nblk]. rewrite N.eqb_refl. reflexivity.
  - cbn [main]. intros Hm. rewrite (Mi _ Hm) in Nb. discriminate.
Qed.

Lemma remove_orph_in : forall h o c, In c (remove_orph h o) -> In c o /\ bid c <> h.
Proof.
  intros h o c H. unfold remove_orph in H. apply filter_In in H as [A B]. split; [exact A|].
  apply negb_true_iff in B. apply N.eqb_neq in B. exact B.
Qed.

Lemma first_child_in : forall p o c, first_child p o = Some c -> In c o.
Proof. intros p o c H. unfold first_child in H. apply find_some in H. apply H. Qed.

Lemma porph_sinv : forall fuel fin q s s' e,
  porph fuel fin q s = (s', e) -> sinv s -> sinv s'.
Proof.
  induction fuel as [|f IH]; intros fin q s s' e H I; cbn [porph] in H.
  - inversion H; subst; exact I.
  - destruct q as [|p q']; [inversion H; subst; exact I|].
    destruct (first_child p (orph s)) as [c|] eqn:FC; [|eapply IH; eauto].
    apply first_child_in in FC.
    destruct (accept fin _ c) as [[s1 m1] e1] eqn:A.
    assert (I1 : sinv s1).
    { destruct I as (R & Mi & Oi). eapply accept_sinv; [exact A| | |].
      - split; [exact R|]. split; [exact Mi|]. cbn [orph idx]. intros c' Hc'.
        apply remove_orph_in in Hc' as [Hc' _]. apply Oi. exact Hc'.
      - cbn [idx]. apply Oi. exact FC.
      - cbn [orph]. intros c' Hc'. apply remove_orph_in in Hc' as [_ Hc']. exact Hc'. }
    destruct e1; try (inversion H; subst; exact I1).
    eapply IH; eauto.
Qed.

Lemma in_orph_false : forall h o c, in_orph h o = false -> In c o -> bid c <> h.
Proof.
  intros h o c H Hc E. unfold in_orph in H.
  assert (X : existsb (fun b => N.eqb (bid b) h) o = true)
    by (apply existsb_exists; exists c; split; [exact Hc|apply N.eqb_eq; exact E]).
  congruence.
Qed.

Lemma deliver_sinv : forall fin s b, sinv s -> sinv (step fin s b).
Proof.
  unfold step, deliver; intros fin s b I.
  destruct (in_idx (bid b) (idx s)) eqn:Eb; [exact I|].
  destruct (in_orph (bid b) (orph s) && negb (in_idx (bpar b) (idx s))); [exact I|].
  set (s1 := if in_orph (bid b) (orph s) then _ else s).
  assert (I1 : sinv s1 /\ idx s1 = idx s /\ forall c, In c (orph s1) -> bid c <> bid b).
  { subst s1. destruct (in_orph (bid b) (orph s)) eqn:K.
    - destruct I as (R & Mi & Oi). split; [|split; [reflexivity|]].
      + split; [exact R|]. split; [exact Mi|]. cbn [orph idx]. intros c Hc.
        apply remove_orph_in in Hc as [Hc _]. apply Oi. exact Hc.
      + cbn [orph]. intros c Hc. apply remove_orph_in in Hc as [_ Hc]. exact Hc.
    - split; [exact I|split; [reflexivity|]]. intros c Hc. eapply in_orph_false; eauto. }
  clearbody s1. destruct I1 as (I1 & Ix & No).
  destruct (negb (in_idx (bpar b) (idx s1))).
  - cbn [fst]. destruct I1 as (R & Mi & Oi). split; [exact R|]. split; [exact Mi|].
    cbn [orph idx]. intros c Hc. apply in_app_or in Hc as [Hc|[<-|[]]]; [apply Oi; exact Hc|].
    rewrite Ix. exact Eb.
  - destruct (accept fin s1 b) as [[s2 m2] e2] eqn:A.
    assert (I2 : sinv s2) by (eapply accept_sinv; [exact A|exact I1|rewrite Ix; exact Eb|exact No]).
    destruct e2; try exact I2.
    destruct (porph (porph_fuel s2) fin [bid b] s2) as [s3 e3] eqn:P.
    assert (I3 : sinv s3) by (eapply porph_sinv; eauto).
    destruct e3; exact I3.
Qed.

Lemma run_sinv : forall fin g order, sinv (run fin g order).
Proof.
  intros fin g order. unfold run.
  assert (G : forall s, sinv s -> sinv (fold_left (step fin) order s)).
  { induction order as [|b order IH]; intros s I; cbn [fold_left]; [exact I|].
    apply IH. apply deliver_sinv. exact I. }
  apply G. apply sinv_init.
Qed.

(** the best chain has no repeated block, after every history *)
Lemma run_main_nodup : forall fin g order, NoDup (main (run fin g order)).
Proof. intros. apply sinv_nodup. apply run_sinv. Qed.

Lemma run_idx_fact : forall fin g order h,
  let s := run fin g order in idx_fact (evs s) (main s) h.
Proof. intros fin g order h s. apply idx_fact_holds. apply (run_sinv fin g order). Qed.
