(** C26 — proofs, part 6: the statements about the index and the range query
    for C25's runs on a recording node that is not a para chain. *)
From Coq Require Import List ZArith NArith Bool Lia.
From C33 Require Import C25.Model C26.Model C26.ModelKv C26.SpecIdx C26.Proofs C26.ProofsIdx
  C26.ProofsRun C26.ProofsKv.
Import ListNotations.
Open Scope Z_scope.

Lemma ev_of_lift : forall evs, map ev_of (lift evs) = evs.
Proof.
  induction evs as [|[h a] evs IH]; [reflexivity|]. cbn [lift map]. unfold ev_of at 1. cbn [fst snd].
  f_equal. exact IH.
Qed.

Lemma lift_length : forall evs, length (lift evs) = length evs.
Proof. intros. unfold lift. apply map_length. Qed.

Section Run.
Variables (fin : Z) (g : block) (order : list block).
Let s := run fin g order.
Let d := kv_state main_conf s.
Let q := seq_state s.
Let log := rev (evs s).

Lemma run_kv_refines : lastseq q = load_last main_conf d /\
  forall i, get_block_sequence main_conf d i = get_seq q i.
Proof.
  subst d q. unfold kv_state, seq_state. split.
  - rewrite own_load_last_store by reflexivity. rewrite ev_of_lift. reflexivity.
  - intros i. rewrite own_rec by reflexivity. rewrite ev_of_lift. reflexivity.
Qed.

Lemma run_log_read : all_some (read_log q) = Some log /\ Z.of_nat (length log) = lastseq q + 1.
Proof.
  subst q log. unfold seq_state. rewrite read_log_spec, all_some_map, lastseq_store_of, rev_length.
  split; [reflexivity|lia].
Qed.

Lemma run_rec_at : forall i, get_block_sequence main_conf d i = log_at log i.
Proof.
  intros i. destruct run_kv_refines as [_ E]. rewrite E. subst q log. unfold seq_state.
  apply get_seq_log_at.
Qed.

Lemma run_idx : forall h, get_sequence_by_hash main_conf d h = option_map Z.of_nat (idxn h (evs s)).
Proof.
  intros h. subst d. unfold kv_state. rewrite own_idx by reflexivity.
  rewrite ev_of_lift. apply idx_of_idxn.
Qed.

Lemma log_at_nat : forall j, log_at log (Z.of_nat j) = log_at_n (evs s) j.
Proof.
  intros j. unfold log_at, log_at_n. subst log.
  assert (Z.of_nat j <? 0 = false) as -> by (apply Z.ltb_ge; lia). rewrite Nat2Z.id. reflexivity.
Qed.

(** the index entry names the latest add record; none when the block was never connected *)
Lemma run_names_latest_add : forall h,
  match get_sequence_by_hash main_conf d h with
  | None => ~ In h (main s) /\ forall j, get_block_sequence main_conf d j <> Some (h, true)
  | Some i => 0 <= i <= lastseq q /\
              get_block_sequence main_conf d i = Some (h, true) /\
              forall j, i < j -> get_block_sequence main_conf d j <> Some (h, true)
  end.
Proof.
  intros h. rewrite run_idx. pose proof (run_idx_fact fin g order h) as F. cbn zeta in F.
  fold s in F. unfold idx_fact in F.
  destruct (idxn h (evs s)) as [i|] eqn:I; cbn [option_map].
  - destruct F as (A & B & _). pose proof (idxn_lt _ _ _ I) as Li.
    split; [subst q; unfold seq_state; rewrite lastseq_store_of; lia|]. split.
    + rewrite run_rec_at, log_at_nat. exact A.
    + intros j L. rewrite run_rec_at. replace j with (Z.of_nat (Z.to_nat j)) by lia.
      rewrite log_at_nat. apply B. lia.
  - destruct F as (A & B). split; [exact A|]. intros j. rewrite run_rec_at.
    unfold log_at. destruct (j <? 0); [discriminate|]. apply B.
Qed.

(** a block of the best chain: no delete record after its index entry, and the
    log up to that entry replays to the chain from that block down *)
Lemma run_on_best_chain : forall h, In h (main s) ->
  exists i above below,
    get_sequence_by_hash main_conf d h = Some (Z.of_nat i) /\
    main s = above ++ h :: below /\ ~ In h above /\
    replay (firstn (S i) log) [] = Some (h :: below) /\
    forall j, Z.of_nat i < j -> get_block_sequence main_conf d j <> Some (h, false).
Proof.
  intros h Hin. pose proof (run_idx_fact fin g order h) as F. cbn zeta in F. fold s in F.
  unfold idx_fact in F. rewrite run_idx.
  destruct (idxn h (evs s)) as [i|] eqn:I; [|destruct F as [A _]; contradiction].
  destruct F as (_ & _ & [(_ & C2 & ab & bl & C3 & C4)|(C1 & _)]); [|contradiction].
  exists i, ab, bl. split; [reflexivity|]. split; [exact C3|]. split.
  - pose proof (run_main_nodup fin g order) as ND. fold s in ND. rewrite C3 in ND.
    apply NoDup_remove_2 in ND. intros Hab. apply ND. apply in_or_app. left. exact Hab.
  - split; [exact C4|]. intros j L. rewrite run_rec_at. replace j with (Z.of_nat (Z.to_nat j)) by lia.
    rewrite log_at_nat. apply C2. lia.
Qed.

(** with an index entry: on the best chain exactly when no delete record follows it *)
Lemma run_off_chain_iff : forall h i, get_sequence_by_hash main_conf d h = Some i ->
  (In h (main s) <-> forall j, i < j -> get_block_sequence main_conf d j <> Some (h, false)).
Proof.
  intros h i0 E. pose proof (run_idx_fact fin g order h) as F. cbn zeta in F. fold s in F.
  unfold idx_fact in F. rewrite run_idx in E.
  destruct (idxn h (evs s)) as [i|] eqn:I; [|discriminate]. cbn [option_map] in E. inversion E; subst i0.
  destruct F as (_ & _ & [(C1 & C2 & _)|(C1 & j & C2 & C3)]).
  - split; [|intros _; exact C1]. intros _ j L. rewrite run_rec_at.
    replace j with (Z.of_nat (Z.to_nat j)) by lia. rewrite log_at_nat. apply C2. lia.
  - split; [contradiction|]. intros H. exfalso. apply (H (Z.of_nat j)); [lia|].
    rewrite run_rec_at, log_at_nat. exact C3.
Qed.

(** the range query *)
Lemma run_range : forall st en,
  get_block_sequences main_conf d st en = range_spec (lastseq q) log st en.
Proof.
  intros st en. subst d q log. unfold kv_state, seq_state.
  rewrite own_range by reflexivity. rewrite ev_of_lift, lift_length, lastseq_store_of. reflexivity.
Qed.

Lemma run_range_segment : forall a n, (a + S n <= length log)%nat -> (n < 1000)%nat ->
  get_block_sequences main_conf d (Z.of_nat a) (Z.of_nat (a + n)) =
  (0%N, map Some (firstn (S n) (skipn a log))).
Proof.
  intros a n L K. rewrite run_range. destruct run_log_read as [_ E].
  replace (lastseq q) with (Z.of_nat (length log) - 1) by lia.
  apply range_in_bounds; assumption.
Qed.

End Run.

(** the same with the log named as the list that [read_log] returns *)
Lemma kv_refines_log : forall c es, c_save c = true ->
  load_last c (kv_of c es) = lastseq (store_of (map ev_of es)) /\
  forall i, get_block_sequence c (kv_of c es) i = get_seq (store_of (map ev_of es)) i.
Proof. intros c es H. split; [apply own_load_last_store; exact H|intros i; apply own_rec; exact H]. Qed.

Lemma on_best_chain_log : forall fin g order h,
  let s := run fin g order in
  let d := kv_state main_conf s in
  In h (main s) ->
  exists log, all_some (read_log (seq_state s)) = Some log /\
  exists i above below,
    get_sequence_by_hash main_conf d h = Some (Z.of_nat i) /\
    main s = above ++ h :: below /\ ~ In h above /\
    replay (firstn (S i) log) [] = Some (h :: below) /\
    forall j, Z.of_nat i < j -> get_block_sequence main_conf d j <> Some (h, false).
Proof.
  intros fin g order h s d Hin. exists (rev (evs s)).
  split; [apply (run_log_read fin g order)|]. apply (run_on_best_chain fin g order h Hin).
Qed.

Lemma range_log_segment : forall fin g order,
  let s := run fin g order in
  let d := kv_state main_conf s in
  exists log, all_some (read_log (seq_state s)) = Some log /\
  (forall st en, get_block_sequences main_conf d st en = range_spec (lastseq (seq_state s)) log st en) /\
  (forall a n, (a + S n <= length log)%nat -> (n < 1000)%nat ->
     get_block_sequences main_conf d (Z.of_nat a) (Z.of_nat (a + n)) =
     (0%N, map Some (firstn (S n) (skipn a log)))).
Proof.
  intros fin g order s d. exists (rev (evs s)). split; [apply (run_log_read fin g order)|].
  split; [apply (run_range fin g order)|apply (run_range_segment fin g order)].
Qed.

(** * the boolean oracle of Check.v is what the theorems say *)

Lemma existsb_skipn_nth : forall (f : N * bool -> bool) k l,
  existsb f (skipn k l) = true <-> exists j x, (k <= j)%nat /\ nth_error l j = Some x /\ f x = true.
Proof.
  intros f k. induction k as [|k IH]; intros l.
  - cbn [skipn]. rewrite existsb_exists. split.
    + intros (x & Hx & Fx). apply In_nth_error in Hx as [j Hj]. exists j, x. split; [lia|auto].
    + intros (j & x & _ & Hj & Fx). exists x. split; [eapply nth_error_In; eauto|exact Fx].
  - destruct l as [|y l]; cbn [skipn].
    + cbn [existsb]. split; [discriminate|]. intros (j & x & _ & Hj & _). destruct j; discriminate.
    + rewrite IH. split.
      * intros (j & x & L & Hj & Fx). exists (S j), x. split; [lia|]. split; [exact Hj|exact Fx].
      * intros (j & x & L & Hj & Fx). destruct j as [|j]; [lia|]. exists j, x. split; [lia|]. split; [exact Hj|exact Fx].
Qed.

Lemma is_del_true : forall h x, is_del h x = true <-> x = (h, false).
Proof.
  intros h [y a]. unfold is_del. cbn [fst snd]. rewrite andb_true_iff, N.eqb_eq, negb_true_iff.
  split; [intros [-> ->]; reflexivity|intros E; inversion E; auto].
Qed.

Lemma chain_eqb_refl : forall x, chain_eqb (Some x) (Some x) = true.
Proof.
  intros x. cbn [chain_eqb]. induction x as [|p x IH]; [reflexivity|].
  rewrite N.eqb_refl. exact IH.
Qed.

Lemma drop_until_split : forall h ab bl, ~ In h ab -> drop_until h (ab ++ h :: bl) = h :: bl.
Proof.
  intros h ab bl. induction ab as [|y ab IH]; intros Nin; cbn [app drop_until].
  - rewrite N.eqb_refl. reflexivity.
  - assert (N.eqb y h = false) as -> by (apply N.eqb_neq; intros ->; apply Nin; left; reflexivity).
    apply IH. intros H. apply Nin. right; exact H.
Qed.

Lemma run_oracle : forall fin g order h,
  let s := run fin g order in
  index_spec_b (rev (evs s)) (main s) h
    (proc_get_seq_by_hash main_conf (kv_state main_conf s) (Some h)) = true.
Proof.
  intros fin g order h s. unfold index_spec_b, proc_get_seq_by_hash. subst s.
  rewrite (run_idx fin g order h). set (s := run fin g order). rewrite rev_involutive, idx_of_idxn.
  pose proof (run_idx_fact fin g order h) as F. cbn zeta in F. fold s in F. unfold idx_fact in F.
  destruct (idxn h (evs s)) as [i|] eqn:I; cbn [option_map by_hash_reply fst snd].
  - rewrite Z.eqb_refl. cbn [andb N.eqb]. rewrite Nat2Z.id.
    destruct F as (_ & _ & [(C1 & C2 & ab & bl & C3 & C4)|(C1 & j & C2 & C3)]).
    + assert (M : memN h (main s) = true) by (apply memN_In; exact C1). rewrite M.
      assert (LD : later_del_b h (Z.of_nat i) (rev (evs s)) = false).
      { unfold later_del_b. rewrite Nat2Z.id. destruct (existsb _ _) eqn:X; [|reflexivity].
        apply existsb_skipn_nth in X as (j & x & L & Hj & Fx). apply is_del_true in Fx. subst x.
        exfalso. apply (C2 j); [lia|exact Hj]. }
      rewrite LD. cbn [negb andb]. rewrite C4.
      assert (Nab : ~ In h ab).
      { pose proof (run_main_nodup fin g order) as ND. fold s in ND. rewrite C3 in ND.
        apply NoDup_remove_2 in ND. intros Hab. apply ND. apply in_or_app. left. exact Hab. }
      rewrite C3, drop_until_split by exact Nab. apply chain_eqb_refl.
    + assert (M : memN h (main s) = false) by (apply memN_false; exact C1). rewrite M.
      unfold later_del_b. rewrite Nat2Z.id. apply existsb_skipn_nth.
      exists j, (h, false). split; [lia|]. split; [exact C3|apply is_del_true; reflexivity].
  - destruct F as (A & _). cbn. apply memN_false in A. rewrite A. reflexivity.
Qed.

(** * the index entry of a hash is never removed and never goes down *)
Lemma index_monotone : forall c es e h i, c_save c = true ->
  get_sequence_by_hash c (kv_of c es) h = Some i ->
  exists j, get_sequence_by_hash c (kv_of c (e :: es)) h = Some j /\ i <= j.
Proof.
  intros c es [[x a] ms] h i Hs E. rewrite own_idx in * by exact Hs.
  cbn [map idx_of]. unfold ev_of at 1. cbn [fst snd].
  destruct (a && N.eqb x h).
  - eexists. split; [reflexivity|]. rewrite idx_of_idxn in E.
    destruct (idxn h (map ev_of es)) as [k|] eqn:I; [|discriminate]. cbn in E. inversion E; subst.
    apply idxn_lt in I. lia.
  - exists i. split; [exact E|lia].
Qed.

(** * no recording *)
Lemma norec_nothing : forall fin g order n h st en,
  let d := kv_state norec_conf (run fin g order) in
  d = [] /\ load_last norec_conf d = -1 /\ get_block_sequence norec_conf d n = None /\
  get_sequence_by_hash norec_conf d h = None /\
  (0 <= st -> get_block_sequences norec_conf d st en = (1%N, [])).
Proof.
  intros fin g order n h st en d. subst d. unfold kv_state. rewrite norec_empty.
  repeat split. intros L. unfold get_block_sequences. cbn.
  assert (-1 <? st = true) as -> by (apply Z.ltb_lt; lia). reflexivity.
Qed.

(** * non-vacuity: X -> Y -> X.  Blocks 1..12 (branch X), then 13..25 (branch Y,
      one longer), then 26, 27 on X: block 1 is connected, disconnected and
      connected again; its index entry names the second add record *)
Definition chain_blocks (first : N) (par : N) (n : nat) (h0 : Z) : list block :=
  (fix go (k : nat) (id par : N) (ht : Z) : list block :=
     match k with
     | O => []
     | S k' => mkB id par ht 1 :: go k' (id + 1)%N id (ht + 1)
     end) n first par h0.

Example readd_example :
  let g := mkB 0 99 0 1 in
  let order := chain_blocks 1 0 12 1 ++ chain_blocks 13 0 13 1 ++ chain_blocks 26 12 2 13 in
  let s := run 0 g order in
  let d := kv_state main_conf s in
  hd 0%N (main s) = 27%N /\ In 1%N (main s) /\
  get_block_sequence main_conf d 1 = Some (1%N, true) /\
  get_block_sequence main_conf d 24 = Some (1%N, false) /\
  get_sequence_by_hash main_conf d 1 = Some 51 /\
  get_sequence_by_hash main_conf d 13 = Some 25 /\ ~ In 13%N (main s) /\
  load_last main_conf d = 64.
Proof.
  vm_compute. repeat split; [auto 20|].
  intros H. repeat (destruct H as [H|H]; [discriminate|]). exact H.
Qed.
