(** C26 — the sequence part of the block store at key level
    (blockchain/blockstore.go saveBlockSequence, SaveBlock, DelBlock,
    LoadBlockLastSequence, LoadBlockLastMainSequence, GetBlockSequence,
    GetBlockByMainSequence, GetSequenceByHash, GetMainSequenceByHash;
    blockchain/sequences.go GetBlockSequences, ProcGetSeqByHash,
    ProcGetMainSeqByHash, ProcAddParaChainBlockMsg, ProcDelParaChainBlockMsg;
    blockchain/process.go ProcessBlock (pid "self") / ProcessDelParaChainBlock),
    as coded, for the four settings of isRecordBlockSequence x isParaChain.

    Six kinds of keys are involved.  A node that is not a para chain keeps its
    own log under "Seq:<n>", "HashToSeq:<hash>", "LastSequence".  A para-chain
    node keeps its own log (only when isRecordBlockSequence is on) under
    "ParaSeq:<n>", "HashToParaSeq:<hash>", "LastParaSequence" and records every
    add/delete under the sequence number handed in by the caller (the main
    chain's sequence) at "Seq:<n>", "HashToSeq:<hash>", "LastSequence".

    Not modelled: the start-up rule (panic when the first record is not for
    height 0; CheckSequenceStatus / CreateSequences); int64 overflow of
    LastSequence + 1. *)
From Coq Require Import List ZArith NArith Bool.
From C33 Require Import C25.Model C26.Model.
Import ListNotations.
Open Scope Z_scope.

Inductive key :=
| KSeq (n : Z) | KPSeq (n : Z)          (* "Seq:n", "ParaSeq:n" *)
| KHash (h : N) | KPHash (h : N)        (* "HashToSeq:h", "HashToParaSeq:h" *)
| KLast | KPLast.                       (* "LastSequence", "LastParaSequence" *)

Definition key_eqb (a b : key) : bool :=
  match a, b with
  | KSeq x, KSeq y | KPSeq x, KPSeq y => x =? y
  | KHash x, KHash y | KPHash x, KPHash y => N.eqb x y
  | KLast, KLast | KPLast, KPLast => true
  | _, _ => false
  end.

(** values: an encoded BlockSequence{Hash, Type} or an encoded Int64 *)
Inductive val := VRec (h : N) (add : bool) | VNum (n : Z).

(** the database: writes newest first, a read takes the newest *)
Definition db := list (key * val).
Definition dget (d : db) (k : key) : option val :=
  match find (fun kv => key_eqb (fst kv) k) d with Some kv => Some (snd kv) | None => None end.
Definition dset (d : db) (k : key) (v : val) : db := (k, v) :: d.

Record conf := mkConf { c_save : bool; c_para : bool }.   (* saveSequence, isParaChain *)

Definition seq_key (para : bool) (n : Z) : key := if para then KPSeq n else KSeq n.
Definition hash_key (para : bool) (h : N) : key := if para then KPHash h else KHash h.
Definition last_key (para : bool) : key := if para then KPLast else KLast.

Definition num_at (d : db) (k : key) : option Z :=
  match dget d k with Some (VNum n) => Some n | _ => None end.
Definition rec_at (d : db) (k : key) : option (N * bool) :=
  match dget d k with Some (VRec h a) => Some (h, a) | _ => None end.

(** LoadBlockLastSequence / LoadBlockLastMainSequence: -1 (with an error) when absent *)
Definition load_last (c : conf) (d : db) : Z :=
  match num_at d (last_key (c_para c)) with Some n => n | None => -1 end.
Definition load_last_main (d : db) : Z :=
  match num_at d KLast with Some n => n | None => -1 end.

(** saveBlockSequence, first half: the node's own numbering *)
Definition save_own (c : conf) (d : db) (h : N) (add : bool) : db :=
  let p := c_para c in
  let n := load_last c d + 1 in
  let d1 := dset d (seq_key p n) (VRec h add) in
  let d2 := if add then dset d1 (hash_key p h) (VNum n) else d1 in
  dset d2 (last_key p) (VNum n).

(** second half (para chain only): the caller's sequence number *)
Definition save_main (d : db) (h : N) (add : bool) (ms : Z) : db :=
  let d1 := dset d (KSeq ms) (VRec h add) in
  let d2 := if add then dset d1 (KHash h) (VNum ms) else d1 in
  dset d2 KLast (VNum ms).

Definition save_block_sequence (c : conf) (d : db) (h : N) (add : bool) (ms : Z) : db :=
  let d1 := if c_save c then save_own c d h add else d in
  if c_para c then save_main d1 h add ms else d1.

(** one SaveBlock (add = true) / DelBlock (add = false) call with the sequence
    argument [ms]: both call saveBlockSequence when saveSequence || isParaChain *)
Definition sev : Type := (N * bool * Z)%type.
Definition store_event (c : conf) (d : db) (e : sev) : db :=
  match e with
  | (h, add, ms) => if c_save c || c_para c then save_block_sequence c d h add ms else d
  end.

(** the database after the calls [es] (newest first) *)
Definition kv_of (c : conf) (es : list sev) : db :=
  fold_right (fun e d => store_event c d e) [] es.

(** * reads *)

Definition get_block_sequence (c : conf) (d : db) (n : Z) : option (N * bool) :=
  rec_at d (seq_key (c_para c) n).
Definition get_block_by_main_sequence (d : db) (n : Z) : option (N * bool) := rec_at d (KSeq n).
Definition get_sequence_by_hash (c : conf) (d : db) (h : N) : option Z :=
  num_at d (hash_key (c_para c) h).
Definition get_main_sequence_by_hash (d : db) (h : N) : option Z := num_at d (KHash h).

(** ProcGetSeqByHash / ProcGetMainSeqByHash: (value, error class) with
    0 = nil, 1 = ErrInvalidParam (empty hash), 2 = ErrHashNotExist *)
Definition by_hash_reply (r : option Z) : Z * N :=
  match r with Some n => (n, 0%N) | None => (-1, 2%N) end.
Definition proc_get_seq_by_hash (c : conf) (d : db) (h : option N) : Z * N :=
  match h with
  | None => (-1, 1%N)
  | Some x => by_hash_reply (get_sequence_by_hash c d x)
  end.
Definition proc_get_main_seq_by_hash (d : db) (h : option N) : Z * N :=
  match h with
  | None => (-1, 1%N)
  | Some x => by_hash_reply (get_main_sequence_by_hash d x)
  end.

(** GetBlockSequences(Start, End): error class 1 = ErrStartHeight,
    2 = ErrEndLessThanStartHeight, 3 = ErrMaxCountPerTime; the items are the
    records Start .. min(End, last), nil where there is none *)
Definition two63 : Z := 9223372036854775808.
Definition wrap64 (z : Z) : Z := (z + two63) mod (2 * two63) - two63.
Definition max_block_count : Z := 1000.

Fixpoint zseq (a : Z) (n : nat) : list Z :=
  match n with O => [] | S k => a :: zseq (a + 1) k end.

Definition get_block_sequences (c : conf) (d : db) (st en : Z) : N * list (option (N * bool)) :=
  let last := load_last c d in
  if last <? st then (1%N, [])
  else if en <? st then (2%N, [])
  else if (max_block_count <=? wrap64 (en - st)) || (wrap64 (en - st) <? 0) then (3%N, [])
  else
    let e := if last <? en then last else en in
    (0%N, map (get_block_sequence c d) (zseq st (Z.to_nat (e - st + 1)))).

(** * a node that is not a para chain: the calls are C25's connect/disconnect
      trace; the sequence argument (the block node's, 0 or -1 for peer and
      download blocks) is not used *)
Definition lift (evs : list (N * bool)) : list sev := map (fun e => (fst e, snd e, 0)) evs.
Definition kv_state (c : conf) (s : state) : db := kv_of c (lift (evs s)).

Definition main_conf : conf := mkConf true false.      (* isRecordBlockSequence, main chain *)
Definition norec_conf : conf := mkConf false false.

(** * a para-chain node: blocks arrive only from its consensus module
      (EventAddParaChainBlockDetail / EventDelParaChainBlockDetail, pid "self"),
      each with the main chain's sequence number *)

Inductive pop :=
| PAdd (b : block) (ms : Z)      (* ProcAddParaChainBlockMsg *)
| PDel (b : block) (ms : Z)      (* ProcDelParaChainBlockMsg *)
| PNil (add : bool).             (* either, without a block *)

(** error classes: 0 nil, 1 ErrBlockExist, 3 ErrBlockHeightNoMatch,
    6 ErrBlockHashNoMatch, 7 ErrInvalidParam, 8 outside the model (a block of
    height <= 0: the genesis block is never offered again or deleted) *)
Record pstate := mkP { pchain : list block; pdb : db }.   (* best chain, tip first *)

Definition ptip_id (s : pstate) : N := match pchain s with t :: _ => bid t | [] => 0%N end.
Definition ptip_ht (s : pstate) : Z := match pchain s with t :: _ => bht t | [] => -1 end.

(** the genesis block comes from the consensus module through ProcAddBlockMsg:
    sequence argument -1 *)
Definition pinit (c : conf) (g : block) : pstate :=
  mkP [g] (store_event c [] (bid g, true, -1)).

Definition pstep (c : conf) (s : pstate) (o : pop) : pstate * N :=
  match o with
  | PNil _ => (s, 7%N)
  | PAdd b ms =>
      if bht b <=? 0 then (s, 8%N)
      else if negb (N.eqb (bpar b) (ptip_id s)) then (s, 6%N)       (* pid "self": the parent must be the tip *)
      else if existsb (fun x => N.eqb (bid x) (bid b)) (pchain s) then (s, 1%N)   (* blockExists *)
      else if negb (bht b =? ptip_ht s + 1) then (s, 3%N)           (* maybeAcceptBlock *)
      else (mkP (b :: pchain s) (store_event c (pdb s) (bid b, true, ms)), 0%N)
  | PDel b ms =>
      if bht b <=? 0 then (s, 8%N)
      else if negb (N.eqb (bid b) (ptip_id s)) then (s, 6%N)
      else match pchain s with
           | _ :: ((_ :: _) as rest) => (mkP rest (store_event c (pdb s) (bid b, false, ms)), 0%N)
           | _ => (s, 8%N)                (* the hash of the genesis block at a height above 0 *)
           end
  end.

Definition prun (c : conf) (g : block) (ops : list pop) : pstate :=
  fold_left (fun s o => fst (pstep c s o)) ops (pinit c g).

(** the SaveBlock / DelBlock calls of a run, newest first (the genesis block's last) *)
Definition op_event (o : pop) : sev :=
  match o with
  | PAdd b ms => (bid b, true, ms)
  | PDel b ms => (bid b, false, ms)
  | PNil a => (0%N, a, 0)
  end.
Fixpoint ptrace_from (c : conf) (s : pstate) (ops : list pop) (tr : list sev) : list sev :=
  match ops with
  | [] => tr
  | o :: ops' =>
      match pstep c s o with
      | (s', e) => ptrace_from c s' ops' (if N.eqb e 0 then op_event o :: tr else tr)
      end
  end.
Definition ptrace (c : conf) (g : block) (ops : list pop) : list sev :=
  ptrace_from c (pinit c g) ops [(bid g, true, -1)].

(** reading the main-sequence records lo, lo+1, ... (n of them): the present ones in order *)
Fixpoint somes {A} (l : list (option A)) : list A :=
  match l with
  | [] => []
  | Some x :: tl => x :: somes tl
  | None :: tl => somes tl
  end.
Definition scan_main (d : db) (lo : Z) (n : nat) : list (N * bool) :=
  somes (map (get_block_by_main_sequence d) (zseq lo n)).
