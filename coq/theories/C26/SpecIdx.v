(** C26 — what the index, the range query and the para chain's main-sequence
    records must say, stated on the log alone (executable: the violation oracle
    for the implementation's observables, and the vocabulary of the theorems). *)
From Coq Require Import List ZArith NArith Bool.
From C33 Require Import C25.Model C26.Model C26.ModelKv.
Import ListNotations.
Open Scope Z_scope.

(** number of the latest add record of [h]; [evs] is the log newest first, so
    the head record has number [length tl] *)
Fixpoint idx_of (h : N) (evs : list (N * bool)) : option Z :=
  match evs with
  | [] => None
  | (x, a) :: tl => if a && N.eqb x h then Some (Z.of_nat (length tl)) else idx_of h tl
  end.

(** is there a delete record of [h] with a number above [i]; [log] oldest first *)
Definition is_del (h : N) (e : N * bool) : bool := N.eqb (fst e) h && negb (snd e).
Definition later_del_b (h : N) (i : Z) (log : list (N * bool)) : bool :=
  existsb (is_del h) (skipn (S (Z.to_nat i)) log).

Definition chain_eqb (a b : option (list N)) : bool :=
  match a, b with
  | Some x, Some y => (fix eqb (x y : list N) : bool :=
                         match x, y with
                         | [], [] => true
                         | p :: x', q :: y' => N.eqb p q && eqb x' y'
                         | _, _ => false
                         end) x y
  | None, None => true
  | _, _ => false
  end.

(** the reply (value, error class) of ProcGetSeqByHash for [h], given the whole
    log (oldest first) and the best chain [m] (tip first):
    - no add record of [h]: ErrHashNotExist, and [h] is not on the chain;
    - otherwise the number of the latest add record of [h]; [h] is on the best
      chain exactly when no delete record of [h] follows it, and then the
      replay of the log up to that record is the chain from [h] down. *)
Definition index_spec_b (log : list (N * bool)) (m : list N) (h : N) (reply : Z * N) : bool :=
  match idx_of h (rev log) with
  | None => (fst reply =? -1) && N.eqb (snd reply) 2 && negb (memN h m)
  | Some i =>
      (fst reply =? i) && N.eqb (snd reply) 0 &&
      (if memN h m
       then negb (later_del_b h i log) &&
            chain_eqb (replay (firstn (S (Z.to_nat i)) log) []) (Some (drop_until h m))
       else later_del_b h i log)
  end.

(** GetBlockSequences on a log numbered 0 .. last *)
Definition log_at (log : list (N * bool)) (i : Z) : option (N * bool) :=
  if i <? 0 then None else nth_error log (Z.to_nat i).

Definition range_spec (last : Z) (log : list (N * bool)) (st en : Z) : N * list (option (N * bool)) :=
  if last <? st then (1%N, [])
  else if en <? st then (2%N, [])
  else if (max_block_count <=? wrap64 (en - st)) || (wrap64 (en - st) <? 0) then (3%N, [])
  else
    let e := Z.min en last in
    (0%N, map (log_at log) (zseq st (Z.to_nat (e - st + 1)))).

(** * para chain: the records kept under the caller's sequence numbers *)

(** [mrecs]: the present records in ascending key order, (sequence, (hash, add)) *)
Fixpoint ascending (l : list Z) : bool :=
  match l with
  | a :: ((b :: _) as tl) => (a <? b) && ascending tl
  | _ => true
  end.

(** sequence of the add record of [h] with the highest key *)
Fixpoint last_add_key (h : N) (mrecs : list (Z * (N * bool))) (acc : option Z) : option Z :=
  match mrecs with
  | [] => acc
  | (k, (x, a)) :: tl => last_add_key h tl (if a && N.eqb x h then Some k else acc)
  end.

(** the sequence numbers handed in with the executed operations are strictly
    increasing and above the genesis record's (-1) *)
Fixpoint increasing_from (lo : Z) (l : list Z) : bool :=
  match l with
  | [] => true
  | a :: tl => (lo <? a) && increasing_from a tl
  end.

(** the same on a trace of store calls (newest first): every call's sequence
    number is above the one before it *)
Fixpoint mono_b (tr : list sev) : bool :=
  match tr with
  | (_, _, k) :: (((_, _, k2) :: _) as tl) => (k2 <? k) && mono_b tl
  | _ => true
  end.
Definition para_guard_b (c : conf) (g : block) (ops : list pop) : bool := mono_b (ptrace c g ops).

(** main-sequence number of the latest add of [h] in a trace (newest first) *)
Fixpoint midx_of (h : N) (tr : list sev) : option Z :=
  match tr with
  | [] => None
  | (x, a, ms) :: tl => if a && N.eqb x h then Some ms else midx_of h tl
  end.
