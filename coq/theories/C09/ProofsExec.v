(** C09 — block histories over the plain KVDB layer: connect / disconnect never
    panic on node-shaped histories with fresh safe state hashes, the store stays
    in the [agree] relation with [db_of chain], hence StateDB reads are right. *)
From Coq Require Import String List NArith ZArith Bool Lia.
From C33 Require Import Lib.Harness Lib.Bytes Lib.OMap C09.Model C09.Spec C09.ModelExec C09.SpecExec
     C09.ProofsKeys C09.ProofsDb C09.ProofsMain C09.ProofsExecKeys C09.ProofsExecDb.
Import ListNotations.
Open Scope Z_scope.

Lemma lget_raw key d : lget false key d = get key d.
Proof. unfold lget. destruct (get key d); reflexivity. Qed.

(** * the invariant *)
Definition flag_inv (d : db) (flag : Z) (h : hist) : Prop :=
  (flag = 0 \/ flag = 1) /\
  (get flag_key d = Some (VVer 1) \/ (get flag_key d = None /\ h = [])).

Definition inv (st : nstate) (h : hist) : Prop :=
  agree (fst st) h /\ flag_inv (fst st) (snd st) h /\ hist_ok h /\ hashes_ok h.

Lemma inv_init : inv ([], 0) [].
Proof.
  unfold inv. cbn [fst snd]. split; [|split; [|split]].
  - split; [exact I|]. intros key _. reflexivity.
  - split; [left; reflexivity|]. right. split; reflexivity.
  - unfold hist_ok. reflexivity.
  - split; constructor.
Qed.

(** * meta reads of a store in the relation *)
Lemma get_version_agree d h i hs ws : agree d h -> hist_ok h -> hashes_ok h ->
  block_at h i = Some (hs, ws) -> get_version_l false d hs = Ok i.
Proof.
  intros [S A] OK HO B. unfold get_version_l. rewrite lget_raw.
  rewrite A by (apply not_stale_hash; eapply hashes_ok_safe; eauto).
  destruct (db_of_meta_get h i hs ws OK HO B) as [G _]. rewrite G.
  pose proof (block_at_range _ _ _ B) as R.
  destruct (i <? 0) eqn:E; [apply Z.ltb_lt in E; lia|reflexivity].
Qed.

Lemma get_version_hash_agree d h i hs ws : agree d h -> hist_ok h -> hashes_ok h ->
  block_at h i = Some (hs, ws) -> get_version_hash_l false d i = Ok hs.
Proof.
  intros [S A] OK HO B. unfold get_version_hash_l. rewrite lget_raw.
  rewrite A by apply not_stale_ver.
  destruct (db_of_meta_get h i hs ws OK HO B) as [_ [G _]]. rewrite G. reflexivity.
Qed.

Lemma get_del_kvlist_agree d h i hs ws : agree d h -> hist_ok h -> hashes_ok h ->
  block_at h i = Some (hs, ws) -> get_del_kvlist_l false d i = Ok (map fst ws).
Proof.
  intros [S A] OK HO B. unfold get_del_kvlist_l. rewrite lget_raw.
  pose proof (block_at_range _ _ _ B) as R.
  rewrite A by (apply not_stale_kl; unfold vok, hist_ok in *; lia).
  destruct (db_of_meta_get h i hs ws OK HO B) as [_ [_ G]]. rewrite G. reflexivity.
Qed.

Lemma get_max_version_agree d hs ws h : agree d ((hs, ws) :: h) -> hist_ok ((hs, ws) :: h) ->
  hashes_ok ((hs, ws) :: h) -> get_max_version_l false d = Ok (hlen h).
Proof.
  intros AG OK HO. pose proof AG as [S A]. destruct (hist_ok_tail _ _ OK) as [OKh Vn].
  pose proof (block_at_top hs ws h) as B.
  destruct (db_of_meta_get _ _ _ _ OK HO B) as [_ [G _]].
  assert (S0 : hash_safe hs = true) by (eapply hashes_ok_safe; eauto).
  unfold get_max_version_l.
  rewrite (last_filter_max _ d (ver_key (hlen h), VRaw hs)).
  - eapply get_version_agree; eauto.
  - exact S.
  - apply (get_In _ _ _ S). rewrite A by apply not_stale_ver. exact G.
  - cbn [fst snd]. rewrite ver_key_mver. apply hash_safe_nonempty in S0. destruct hs; [congruence|reflexivity].
  - intros [key' x'] Hin F. cbn [fst snd] in F. apply andb_true_iff in F as [M _]. cbn [fst snd].
    apply (get_In _ _ _ S) in Hin. rewrite A in Hin by (apply not_stale_mver, M).
    destruct (db_of_meta_form _ _ _ Hin (mver_not_data _ M)) as [i [hs' [ws' [B' Fm]]]].
    pose proof (block_at_range _ _ _ B') as R. rewrite hlen_cons in R.
    destruct Fm as [E|[[E _]|[E _]]]; subst key'.
    + rewrite hash_key_not_mver in M by (eapply hashes_ok_safe; eauto). discriminate.
    + apply ver_key_le; unfold vok in *; lia.
    + rewrite kl_key_not_mver in M. discriminate.
Qed.

(** * the three stages *)
Lemma check_enable_ok d flag height :
  (flag = 0 \/ flag = 1) ->
  (get flag_key d = Some (VVer 1) \/ (get flag_key d = None /\ height = 0)) ->
  exists fkv, check_enable false d flag height = Done (1, fkv) /\ flag_kvs fkv /\
              (height = 0 -> fkv = [(flag_key, Some (VVer 1))]) /\
              (height <> 0 -> fkv = []).
Proof.
  intros Hf Hd. unfold check_enable, load_flag. rewrite lget_raw.
  destruct (height =? 0) eqn:Eh.
  - apply Z.eqb_eq in Eh. exists [(flag_key, Some (VVer 1))].
    assert (X : exists f1, (if flag =? 0 then match get flag_key d with
                             | Some (VVer z) => Ok z | Some _ => Err EOther | None => Ok 0 end
                            else Ok flag) = Ok f1).
    { destruct Hf as [-> | ->]; simpl; [|eauto]. destruct Hd as [-> |[-> _]]; eauto. }
    destruct X as [f1 ->]. simpl. split; [reflexivity|]. split; [right; reflexivity|].
    split; [auto|intro; congruence].
  - apply Z.eqb_neq in Eh. exists [].
    assert (G : get flag_key d = Some (VVer 1)) by (destruct Hd as [G|[_ E]]; [exact G|congruence]).
    destruct Hf as [-> | ->]; simpl; rewrite ?G; simpl;
      (split; [reflexivity|]; split; [left; reflexivity|]; split; [intro; congruence|auto]).
Qed.

Lemma add_mvcc_ok d h hs ws : agree d h -> hist_ok ((hs, ws) :: h) -> hashes_ok h ->
  add_mvcc_l false d ws hs (top_prev h) (hlen h) = Ok (add_kvlist ws hs (hlen h)).
Proof.
  intros AG OK HO. destruct (hist_ok_tail _ _ OK) as [OKh Vn]. unfold add_mvcc_l.
  assert (NN : (hlen h <? 0) = false) by (apply Z.ltb_ge; unfold vok in Vn; lia).
  destruct h as [|[p wp] older].
  - simpl. reflexivity.
  - rewrite !hlen_cons in *. pose proof (hlen_nonneg older) as NO.
    assert (P : (0 <? hlen older + 1) = true) by (apply Z.ltb_lt; lia).
    rewrite P. cbn [top_prev].
    replace (hlen older + 1 - 1) with (hlen older) by lia.
    rewrite (get_version_hash_agree d _ _ p wp AG OKh HO (block_at_top p wp older)).
    rewrite bytes_eqb_refl, NN. reflexivity.
Qed.

Lemma del_mvcc_ok d h hs ws : agree d ((hs, ws) :: h) -> hist_ok ((hs, ws) :: h) ->
  hashes_ok ((hs, ws) :: h) ->
  del_mvcc_l false d hs (hlen h) = Ok (del_kvlist (map fst ws) hs (hlen h)).
Proof.
  intros AG OK HO. destruct (hist_ok_tail _ _ OK) as [OKh Vn]. unfold del_mvcc_l.
  rewrite (get_del_kvlist_agree d _ _ hs ws AG OK HO (block_at_top hs ws h)).
  rewrite (get_max_version_agree d hs ws h AG OK HO), Z.eqb_refl.
  rewrite (get_version_agree d _ _ hs ws AG OK HO (block_at_top hs ws h)), Z.eqb_refl.
  destruct (hlen h <? 0) eqn:E; [apply Z.ltb_lt in E; unfold vok in Vn; lia|reflexivity].
Qed.

Lemma flag_after d fkv kvs height :
  flag_kvs fkv -> (height = 0 -> fkv = [(flag_key, Some (VVer 1))]) ->
  (get flag_key d = Some (VVer 1) \/ (get flag_key d = None /\ height = 0)) ->
  lookup_last flag_key kvs = None -> sorted d ->
  get flag_key (write_all (fkv ++ kvs) d) = Some (VVer 1).
Proof.
  intros F H0 Hd L S. rewrite get_write_all by exact S. rewrite lookup_last_app, L.
  destruct F as [-> | ->]; simpl.
  - destruct Hd as [G|[_ E]]; [exact G|]. specialize (H0 E). discriminate.
  - reflexivity.
Qed.

Lemma connect_ok sdb d flag h hs ws :
  inv (d, flag) h -> hist_ok ((hs, ws) :: h) -> hash_safe hs = true -> ~ In hs (hashes h) ->
  exists st' ver, connect false sdb (d, flag) (hlen h, hs, top_prev h, ws) = (st', 0%N, ver) /\
                  inv st' ((hs, ws) :: h) /\ (sdb = true -> h <> [] -> ver = hlen h - 1).
Proof.
  intros [AG [[Hf Hd] [OKh HO]]] OK S0 Nin. simpl in AG, Hf, Hd.
  pose proof (hlen_nonneg h) as NN.
  assert (Hd' : get flag_key d = Some (VVer 1) \/ (get flag_key d = None /\ hlen h = 0)).
  { destruct Hd as [G|[G ->]]; [left; exact G|right; split; [exact G|reflexivity]]. }
  destruct (check_enable_ok d flag (hlen h) Hf Hd') as [fkv [CE [F [F0 _]]]].
  assert (EN : exists ver, (if sdb then sdb_enable false d (match top_prev h with Some p => p | None => hs end) (hlen h)
                            else Done (-2)) = Done ver /\ (sdb = true -> h <> [] -> ver = hlen h - 1)).
  { destruct sdb; [|exists (-2); split; [reflexivity|discriminate]]. unfold sdb_enable.
    destruct h as [|[p wp] older].
    - simpl. destruct (get_version_l false d hs); eexists; (split; [reflexivity|congruence]).
    - cbn [top_prev]. rewrite (get_version_agree d _ _ p wp AG OKh HO (block_at_top p wp older)).
      exists (hlen older). split; [reflexivity|]. intros _ _. rewrite hlen_cons. lia. }
  destruct EN as [ver [EN Ever]].
  exists (write_all (fkv ++ add_kvlist ws hs (hlen h)) d, 1), ver. split; [|split; [|exact Ever]].
  - unfold connect. cbn [b_prev b_hash b_height b_kvs fst snd]. rewrite EN, CE.
    unfold exec_add. cbn [b_prev b_hash b_height b_kvs fst snd].
    rewrite (add_mvcc_ok d h hs ws AG OK HO). reflexivity.
  - split; [|split; [|split]]; cbn [fst snd].
    + apply agree_connect; assumption.
    + split; [right; reflexivity|]. left.
      apply (flag_after d fkv _ (hlen h) F F0 Hd' (lookup_last_flag_add ws hs (hlen h)) (proj1 AG)).
    + exact OK.
    + destruct HO as [N Fo]. split; [constructor; assumption|constructor; assumption].
Qed.

Lemma disconnect_ok sdb d flag h hs ws :
  inv (d, flag) ((hs, ws) :: h) ->
  exists st' ver, disconnect false sdb (d, flag) (hlen h, hs, top_prev h, ws) = (st', 0%N, ver) /\
                  inv st' h /\ (sdb = true -> ver = hlen h).
Proof.
  intros [AG [[Hf Hd] [OK HO]]]. simpl in AG, Hf, Hd.
  destruct (hist_ok_tail _ _ OK) as [OKh Vn].
  assert (Hd' : get flag_key d = Some (VVer 1) \/ (get flag_key d = None /\ hlen h = 0)).
  { destruct Hd as [G|[_ E]]; [left; exact G|discriminate]. }
  destruct (check_enable_ok d flag (hlen h) Hf Hd') as [fkv [CE [F [F0 _]]]].
  assert (EN : exists ver, (if sdb then sdb_enable false d hs (hlen h) else Done (-2)) = Done ver /\
                           (sdb = true -> ver = hlen h)).
  { destruct sdb; [|exists (-2); split; [reflexivity|discriminate]]. unfold sdb_enable.
    rewrite (get_version_agree d _ _ hs ws AG OK HO (block_at_top hs ws h)). eauto. }
  destruct EN as [ver [EN Ever]].
  exists (write_all (fkv ++ del_kvlist (map fst ws) hs (hlen h)) d, 1), ver. split; [|split; [|exact Ever]].
  - unfold disconnect. cbn [b_prev b_hash b_height b_kvs fst snd]. rewrite EN, CE.
    unfold exec_del. cbn [b_prev b_hash b_height b_kvs fst snd].
    rewrite (del_mvcc_ok d h hs ws AG OK HO). reflexivity.
  - split; [|split; [|split]]; cbn [fst snd].
    + apply agree_disconnect; assumption.
    + split; [right; reflexivity|]. left.
      apply (flag_after d fkv _ (hlen h) F F0 Hd' (lookup_last_flag_del (map fst ws) hs (hlen h)) (proj1 AG)).
    + exact OKh.
    + eapply hashes_ok_tail; eauto.
Qed.

(** * whole histories *)
Lemma existsb_beqb_In x l : existsb (beqb x) l = false -> ~ In x l.
Proof.
  intros E Hin. assert (existsb (beqb x) l = true); [|congruence].
  apply existsb_exists. exists x. split; [exact Hin|apply beqb_refl].
Qed.

Lemma srun_inv sdb ops : forall st c,
  inv st c -> hlen c + Z.of_nat (length ops) < two63 -> ops_okb_from (hashes c) ops = true ->
  exists st', srun false sdb (st, c) ops = Done (st', chain_from c ops) /\ inv st' (chain_from c ops).
Proof.
  induction ops as [|o ops IH]; intros [d flag] c I Bd G.
  - exists (d, flag). split; [reflexivity|exact I].
  - assert (Bd' : hlen c + 1 + Z.of_nat (length ops) < two63) by (simpl length in Bd; lia).
    destruct o as [hs ws| |].
    + cbn [ops_okb_from] in G. apply andb_true_iff in G as [G G3]. apply andb_true_iff in G as [G1 G2].
      apply negb_true_iff, existsb_beqb_In in G2.
      assert (OK : hist_ok ((hs, ws) :: c)) by (unfold hist_ok; rewrite hlen_cons; lia).
      destruct (connect_ok sdb d flag c hs ws I OK G1 G2) as [st' [ver [E [I' _]]]].
      destruct (IH st' ((hs, ws) :: c) I') as [st2 [R I2]].
      * rewrite hlen_cons. lia.
      * exact G3.
      * exists st2. split; [|exact I2]. cbn [srun sstep chain_from].
        match goal with |- context [connect ?a ?b ?x ?y] =>
          destruct (connect a b x y) as [[st'' stage] ver'] eqn:E' end.
        assert (Q : (st', 0%N, ver) = (st'', stage, ver')) by (rewrite <- E; exact E').
        injection Q as <- <- <-. exact R.
    + cbn [ops_okb_from] in G. destruct c as [|[hs ws] older].
      * destruct (IH (d, flag) [] I) as [st2 [R I2]]; [lia|exact G|].
        exists st2. split; [|exact I2]. cbn [srun sstep chain_from List.tl]. exact R.
      * destruct (disconnect_ok sdb d flag older hs ws I) as [st' [ver [E [I' _]]]].
        destruct (IH st' older I') as [st2 [R I2]].
        -- rewrite hlen_cons in Bd'. lia.
        -- exact G.
        -- exists st2. split; [|exact I2]. cbn [srun sstep chain_from List.tl].
           match goal with |- context [disconnect ?a ?b ?x ?y] =>
             destruct (disconnect a b x y) as [[st'' stage] ver'] eqn:E' end.
           assert (Q : (st', 0%N, ver) = (st'', stage, ver')) by (rewrite <- E; exact E').
           injection Q as <- <- <-. exact R.
    + cbn [ops_okb_from] in G.
      assert (I' : inv (d, 0) c).
      { destruct I as [AG [[_ Hd] [OK HO]]]. split; [exact AG|].
        split; [split; [left; reflexivity|exact Hd]|]. split; assumption. }
      destruct (IH (d, 0) c I') as [st2 [R I2]]; [lia|exact G|].
      exists st2. split; [|exact I2]. cbn [srun sstep chain_from fst]. exact R.
Qed.

Lemma srun_app L sdb a b s :
  srun L sdb s (a ++ b) = match srun L sdb s a with Done s' => srun L sdb s' b | Panic x => Panic x end.
Proof.
  revert s; induction a as [|o a IH]; intro s; simpl; [reflexivity|].
  destruct (sstep L sdb s o); [apply IH|reflexivity].
Qed.

Lemma srun_app_done L sdb a b s s' :
  srun L sdb s a = Done s' -> srun L sdb s (a ++ b) = srun L sdb s' b.
Proof. intro H. rewrite srun_app, H. reflexivity. Qed.

Lemma chain_from_app c a b : chain_from c (a ++ b) = chain_from (chain_from c a) b.
Proof. revert c; induction a as [|o a IH]; intro c; simpl; [reflexivity|]. destruct o; apply IH. Qed.

Lemma hashes_tl (c : hist) : hashes (List.tl c) = List.tl (hashes c).
Proof. destruct c; reflexivity. Qed.

Lemma ops_okb_app a : forall c b, ops_okb_from (hashes c) (a ++ b) = true ->
  ops_okb_from (hashes c) a = true /\ ops_okb_from (hashes (chain_from c a)) b = true.
Proof.
  induction a as [|o a IH]; intros c b G; simpl app in G.
  - split; [reflexivity|exact G].
  - destruct o as [hs ws| |]; cbn [ops_okb_from chain_from] in *.
    + apply andb_true_iff in G as [G1 G2].
      destruct (IH ((hs, ws) :: c) b G2) as [A B]. split; [rewrite G1; exact A|exact B].
    + rewrite <- hashes_tl in *. apply IH. exact G.
    + apply IH. exact G.
Qed.

Lemma hlen_tl (c : hist) : hlen (List.tl c) <= hlen c.
Proof. destruct c as [|b c]; [simpl; lia|]. rewrite hlen_cons. simpl List.tl. lia. Qed.

Lemma chain_from_len ops : forall c, hlen (chain_from c ops) <= hlen c + Z.of_nat (length ops).
Proof.
  induction ops as [|o ops IH]; intro c.
  - simpl. lia.
  - change (length (o :: ops)) with (S (length ops)). rewrite Nat2Z.inj_succ.
    destruct o as [hs ws| |]; cbn [chain_from].
    + specialize (IH ((hs, ws) :: c)). rewrite hlen_cons in IH. lia.
    + specialize (IH (List.tl c)). pose proof (hlen_tl c). lia.
    + specialize (IH c). lia.
Qed.

Lemma chain_of_len ops : hlen (chain_from [] ops) <= Z.of_nat (length ops).
Proof. pose proof (chain_from_len ops []) as X. change (hlen []) with 0 in X. lia. Qed.

(** * reads *)
Lemma sdb_read_agree d1 d2 h hash height k : agree d1 h -> agree d2 h -> hash_safe hash = true ->
  sdb_read false d1 hash height k = sdb_read false d2 hash height k.
Proof.
  intros A1 A2 S. unfold sdb_read, sdb_enable, get_version_l. rewrite !lget_raw.
  rewrite (proj2 A1), (proj2 A2) by (apply not_stale_hash, S).
  assert (X : forall v, sdb_get d1 [] v k = sdb_get d2 [] v k).
  { intro v. unfold sdb_get. simpl.
    rewrite (agree_getv d1 h), (agree_getv d2 h) by assumption. reflexivity. }
  match goal with |- match ?e with _ => _ end = _ => destruct e as [v|s] end;
    [rewrite X|]; reflexivity.
Qed.

Lemma cache_get_last_write k ws : cache_get k ws = last_write k ws.
Proof. induction ws as [|w ws IH]; simpl; [reflexivity|]. rewrite IH. reflexivity. Qed.

Lemma block_reads_correct sdb ops i hs ws k :
  ops_okb ops = true -> Z.of_nat (length ops) < two63 ->
  nonempty_values (chain_of ops) = true -> Safe1 (k :: keys_of (chain_of ops)) = true ->
  block_at (chain_of ops) i = Some (hs, ws) ->
  exists st, srun false sdb sinit ops = Done (st, chain_of ops) /\
             sdb_read false (fst st) hs (i + 1) k = Done (i, spec_getv (chain_of ops) k i).
Proof.
  intros G Bd NE S1 B. unfold chain_of in *.
  destruct (srun_inv sdb ops ([], 0) [] inv_init) as [st [R [AG [_ [OK HO]]]]]; [simpl; lia|exact G|].
  exists st. split; [exact R|].
  pose proof (block_at_range _ _ _ B) as Ri.
  unfold sdb_read, sdb_enable. rewrite (get_version_agree _ _ _ _ _ AG OK HO B).
  unfold sdb_get. simpl cache_get. cbv iota.
  destruct (0 <=? i) eqn:E; [|apply Z.leb_gt in E; lia].
  rewrite (agree_getv _ _ k i AG).
  rewrite getv_partial; [reflexivity|exact OK|exact NE|exact S1|unfold vok, hist_ok in *; lia].
Qed.

Lemma disconnect_restores sdb ops hs ws st1 c1 :
  ops_okb (ops ++ [SConnect hs ws; SDisconnect]) = true ->
  Z.of_nat (length ops) + 2 < two63 ->
  srun false sdb sinit ops = Done (st1, c1) ->
  exists st2, srun false sdb sinit (ops ++ [SConnect hs ws; SDisconnect]) = Done (st2, c1) /\
    forall hash height k, hash_safe hash = true ->
      sdb_read false (fst st2) hash height k = sdb_read false (fst st1) hash height k.
Proof.
  intros G Bd R1. unfold ops_okb in G. change (@nil (list N)) with (hashes []) in G.
  destruct (ops_okb_app ops [] _ G) as [Ga Gb].
  destruct (srun_inv sdb ops ([], 0) [] inv_init) as [st [R I]]; [simpl; lia|exact Ga|].
  assert (Q : Done (st, chain_from [] ops) = Done (st1, c1)) by (rewrite <- R; exact R1).
  injection Q as <- <-.
  destruct (srun_inv sdb [SConnect hs ws; SDisconnect] st (chain_from [] ops) I) as [st2 [R2 I2]].
  - pose proof (chain_of_len ops) as L.
    simpl length. lia.
  - exact Gb.
  - exists st2. split.
    + transitivity (srun false sdb (st, chain_from [] ops) [SConnect hs ws; SDisconnect]); [|exact R2].
      apply srun_app_done. exact R.
    + intros hash height k S. cbn [chain_from List.tl] in I2.
      apply (sdb_read_agree _ _ (chain_from [] ops)); [exact (proj1 I2)|exact (proj1 I)|exact S].
Qed.

Lemma inblock_reads sdb ops hs ws k st :
  ops_okb (ops ++ [SConnect hs ws]) = true -> Z.of_nat (length ops) + 1 < two63 ->
  srun false sdb sinit ops = Done (st, chain_of ops) -> chain_of ops <> [] ->
  nonempty_values (chain_of ops) = true -> Safe1 (k :: keys_of (chain_of ops)) = true ->
  let b := (hlen (chain_of ops), hs, top_prev (chain_of ops), ws) in
  exists st', connect false true st b = (st', 0%N, hlen (chain_of ops) - 1) /\
              inblock_read (fst st) b (hlen (chain_of ops) - 1) k = spec_inblock_read (chain_of ops) ws k.
Proof.
  intros G Bd R NE NV S1 b. unfold ops_okb in G. change (@nil (list N)) with (hashes []) in G.
  destruct (ops_okb_app ops [] _ G) as [Ga Gb].
  destruct (srun_inv sdb ops ([], 0) [] inv_init) as [st0 [R0 I]]; [simpl; lia|exact Ga|].
  assert (Q : Done (st0, chain_from [] ops) = Done (st, chain_of ops)) by (rewrite <- R0; exact R).
  injection Q as <-. fold (chain_of ops) in *.
  cbn [ops_okb_from] in Gb. apply andb_true_iff in Gb as [Gb _]. apply andb_true_iff in Gb as [G1 G2].
  apply negb_true_iff, existsb_beqb_In in G2.
  pose proof (chain_of_len ops) as L. fold (chain_of ops) in L.
  assert (OK : hist_ok ((hs, ws) :: chain_of ops)) by (unfold hist_ok; rewrite hlen_cons; lia).
  destruct st0 as [d flag].
  destruct (connect_ok true d flag (chain_of ops) hs ws I OK G1 G2) as [st' [ver [E [_ Ev]]]].
  specialize (Ev eq_refl NE). subst ver. exists st'. split; [exact E|].
  unfold inblock_read, sdb_get, spec_inblock_read. subst b. unfold b_kvs. cbn [snd fst].
  rewrite cache_get_last_write. destruct (last_write k ws) as [[v|]|]; try reflexivity.
  destruct I as [AG [_ [OKh _]]]. cbn [fst] in AG.
  assert (P : 0 <= hlen (chain_of ops) - 1).
  { destruct (chain_of ops) as [|b0 c0]; [congruence|]. rewrite hlen_cons. pose proof (hlen_nonneg c0). lia. }
  destruct (0 <=? hlen (chain_of ops) - 1) eqn:E0; [|apply Z.leb_gt in E0; lia].
  rewrite (agree_getv _ _ k _ AG).
  apply getv_partial; [exact OKh|exact NV|exact S1|unfold vok, hist_ok in *; lia].
Qed.
