(** C09 — what the store contains after a history, and the spec's search. *)
From Coq Require Import List NArith ZArith Bool Lia.
From C33 Require Import Lib.Harness Lib.Bytes Lib.OMap C09.Model C09.Spec C09.ProofsKeys.
Import ListNotations.
Open Scope Z_scope.

(** * greatest filtered entry of a sorted map *)
Lemma last_filter_max {V} (f : list N * V -> bool) (m : omap V) e :
  sorted m -> In e m -> f e = true ->
  (forall e', In e' m -> f e' = true -> bleb (fst e') (fst e) = true) ->
  last (filter f m) = Some e.
Proof.
  intros S Hin Hf Hmax.
  assert (Sf : sorted (filter f m)) by (apply sorted_filter; exact S).
  assert (Hin' : In e (filter f m)) by (apply filter_In; auto).
  destruct (last (filter f m)) as [e1|] eqn:L.
  - pose proof (last_In _ _ L) as H1. apply filter_In in H1 as [H1 F1].
    pose proof (last_greatest _ _ Sf L e Hin') as G.
    pose proof (Hmax e1 H1 F1) as G'.
    pose proof (bleb_antisym _ _ G G') as E.
    destruct e as [k v], e1 as [k1 v1]. simpl in E. subst k1.
    apply (get_In k v m S) in Hin. apply (get_In k v1 m S) in H1. congruence.
  - apply last_None in L. rewrite L in Hin'. destruct Hin'.
Qed.

Lemma last_filter_none {V} (f : list N * V -> bool) (m : omap V) :
  (forall e, In e m -> f e = false) -> last (filter f m) = None.
Proof.
  intro H. apply last_None. destruct (filter f m) as [|e tl] eqn:E; [reflexivity|].
  assert (Hin : In e (filter f m)) by (rewrite E; left; reflexivity).
  apply filter_In in Hin as [Hin Hf]. rewrite (H e Hin) in Hf. discriminate.
Qed.

(** * writing a kv list: the last entry for a key decides *)
Fixpoint lookup_last (key : list N) (kvs : list kvw) : option (option val) :=
  match kvs with
  | [] => None
  | kv :: tl =>
      match lookup_last key tl with
      | Some x => Some x
      | None => if beqb key (fst kv) then Some (snd kv) else None
      end
  end.

Lemma write_kv_sorted d kv : sorted d -> sorted (write_kv d kv).
Proof. intro S. unfold write_kv. destruct (snd kv); [apply put_sorted|apply del_sorted]; exact S. Qed.

Lemma write_all_sorted kvs d : sorted d -> sorted (write_all kvs d).
Proof.
  revert d; induction kvs as [|kv kvs IH]; intros d S; simpl; [exact S|].
  apply IH, write_kv_sorted, S.
Qed.

Lemma get_write_kv key d kv : sorted d ->
  get key (write_kv d kv) = if beqb key (fst kv) then snd kv else get key d.
Proof.
  intro S. unfold write_kv. destruct (snd kv) as [v|]; [apply get_put|apply get_del; exact S].
Qed.

Lemma get_write_all key kvs d : sorted d ->
  get key (write_all kvs d) =
  match lookup_last key kvs with Some x => x | None => get key d end.
Proof.
  revert d; induction kvs as [|kv kvs IH]; intros d S; simpl; [reflexivity|].
  rewrite IH by (apply write_kv_sorted; exact S).
  destruct (lookup_last key kvs); [reflexivity|]. rewrite get_write_kv by exact S.
  destruct (beqb key (fst kv)); reflexivity.
Qed.

Lemma lookup_last_app key a b :
  lookup_last key (a ++ b) = match lookup_last key b with Some x => Some x | None => lookup_last key a end.
Proof.
  induction a as [|kv a IH]; simpl.
  - destruct (lookup_last key b); reflexivity.
  - rewrite IH. destruct (lookup_last key b); reflexivity.
Qed.

Lemma lookup_last_none key kvs :
  (forall kv, In kv kvs -> fst kv <> key) -> lookup_last key kvs = None.
Proof.
  induction kvs as [|kv kvs IH]; intro H; simpl; [reflexivity|].
  rewrite IH by (intros; apply H; right; assumption).
  assert (N : key <> fst kv) by (intro E; apply (H kv); [left; reflexivity|auto]).
  apply beqb_neq in N. rewrite N. reflexivity.
Qed.

(** data part of an AddMVCC list *)
Lemma lookup_last_data k n ws :
  lookup_last (gkey k n) (data_kvs ws n) = option_map (option_map VRaw) (last_write k ws).
Proof.
  induction ws as [|w ws IH]; simpl; [reflexivity|].
  rewrite IH. destruct (last_write k ws); simpl; [reflexivity|].
  destruct (beqb k (fst w)) eqn:E.
  - apply beqb_eq in E. subst. rewrite beqb_refl. reflexivity.
  - replace (beqb (gkey k n) (gkey (fst w) n)) with false; [reflexivity|].
    symmetry. apply beqb_neq. intro G. apply gkey_inj_same in G. apply beqb_neq in E. auto.
Qed.

Lemma lookup_last_data_form key n ws x :
  lookup_last key (data_kvs ws n) = Some x -> exists k, key = gkey k n /\ In k (map fst ws).
Proof.
  revert x; induction ws as [|w ws IH]; intro x; simpl; [discriminate|].
  destruct (lookup_last key (data_kvs ws n)) as [y|].
  - intro H. destruct (IH y eq_refl) as [k [E I]]. exists k. auto.
  - destruct (beqb key (gkey (fst w) n)) eqn:E; [|discriminate].
    apply beqb_eq in E. intros _. exists (fst w). auto.
Qed.

Lemma not_data_neq key key' : is_prefix P_data key = true -> is_prefix P_data key' = false -> beqb key key' = false.
Proof. intros H1 H2. apply beqb_neq. intro E. subst. congruence. Qed.

Lemma lookup_last_add key ws h n : is_prefix P_data key = true ->
  lookup_last key (add_kvlist ws h n) = lookup_last key (data_kvs ws n).
Proof.
  intro D. unfold add_kvlist.
  change ([(hash_key h, Some (VVer n)); (ver_key n, Some (VRaw h))] ++ data_kvs ws n ++ [(kl_key n, Some (VKeys (map fst ws)))])
    with ([(hash_key h, Some (VVer n)); (ver_key n, Some (VRaw h))] ++ (data_kvs ws n ++ [(kl_key n, Some (VKeys (map fst ws)))])).
  rewrite lookup_last_app, lookup_last_app. simpl.
  rewrite (not_data_neq key (kl_key n) D (kl_key_not_data n)).
  rewrite (not_data_neq key (ver_key n) D (ver_key_not_data n)).
  rewrite (not_data_neq key (hash_key h) D (hash_key_not_data h)).
  destruct (lookup_last key (data_kvs ws n)); reflexivity.
Qed.

(** * the spec's bookkeeping *)
(** [wrote h n k x]: version n of h has x as its last write to k *)
Fixpoint wrote (h : hist) (n : Z) (k : list N) (x : option (list N)) : Prop :=
  match h with
  | [] => False
  | (_, ws) :: older => (n = hlen older /\ last_write k ws = Some x) \/ wrote older n k x
  end.

Lemma hlen_nonneg h : 0 <= hlen h.
Proof. unfold hlen. lia. Qed.

Lemma hlen_cons v h : hlen (v :: h) = hlen h + 1.
Proof. unfold hlen. simpl length. lia. Qed.

Lemma wrote_range h n k x : wrote h n k x -> 0 <= n < hlen h.
Proof.
  induction h as [|[hs ws] older IH]; simpl; [tauto|]. rewrite hlen_cons.
  pose proof (hlen_nonneg older) as NN. intros [[-> _]|H]; [lia|]. specialize (IH H). lia.
Qed.

Lemma wrote_fun h n k x y : wrote h n k x -> wrote h n k y -> x = y.
Proof.
  induction h as [|[hs ws] older IH]; simpl; [tauto|].
  intros [[E1 L1]|H1] [[E2 L2]|H2].
  - congruence.
  - apply wrote_range in H2. lia.
  - apply wrote_range in H1. lia.
  - auto.
Qed.

Lemma last_write_In k ws x : last_write k ws = Some x -> In (k, x) ws.
Proof.
  induction ws as [|w ws IH]; simpl; [discriminate|].
  destruct (last_write k ws) as [y|].
  - intro H. inversion H; subst. right. auto.
  - destruct (beqb k (fst w)) eqn:E; [|discriminate]. apply beqb_eq in E.
    intro H. inversion H; subst. left. destruct w; reflexivity.
Qed.

Lemma wrote_key h n k x : wrote h n k x -> In k (keys_of h).
Proof.
  induction h as [|[hs ws] older IH]; simpl; [tauto|]. intros [[_ L]|H]; apply in_or_app.
  - left. apply last_write_In in L. apply in_map_iff. exists (k, x). auto.
  - right. auto.
Qed.

Lemma wrote_nonempty h n k x : nonempty_values h = true -> wrote h n k x ->
  exists c b, x = Some (c :: b).
Proof.
  induction h as [|[hs ws] older IH]; simpl; [tauto|]. intros NE.
  apply andb_true_iff in NE as [NE1 NE2]. intros [[_ L]|H]; [|auto].
  apply last_write_In in L. rewrite forallb_forall in NE1. specialize (NE1 _ L).
  unfold nonempty_value in NE1. simpl in NE1. destruct x as [[|c b]|]; try discriminate. eauto.
Qed.

Lemma spec_find_some h k v w x : spec_find h k v = Some (w, x) ->
  wrote h w k x /\ w <= v /\ (forall n y, wrote h n k y -> n <= v -> n <= w).
Proof.
  induction h as [|[hs ws] older IH]; simpl; [discriminate|].
  destruct (hlen older <=? v) eqn:Ev.
  - apply Z.leb_le in Ev. destruct (last_write k ws) as [y|] eqn:L.
    + intro H. inversion H; subst. split; [left; auto|]. split; [exact Ev|].
      intros n y' [[-> _]|Hw] _; [lia|]. apply wrote_range in Hw. lia.
    + intro H. destruct (IH H) as [A [B C]]. split; [right; exact A|]. split; [exact B|].
      intros n y' [[_ L']|Hw] Hn; [congruence|eauto].
  - apply Z.leb_gt in Ev. intro H. destruct (IH H) as [A [B C]]. split; [right; exact A|]. split; [exact B|].
    intros n y' [[-> _]|Hw] Hn; [lia|eauto].
Qed.

Lemma spec_find_none h k v : spec_find h k v = None ->
  forall n y, wrote h n k y -> n <= v -> False.
Proof.
  induction h as [|[hs ws] older IH]; simpl; [tauto|].
  destruct (hlen older <=? v) eqn:Ev.
  - destruct (last_write k ws) as [y|] eqn:L; [discriminate|].
    intros H n y' [[_ L']|Hw] Hn; [congruence|eauto].
  - apply Z.leb_gt in Ev. intros H n y' [[-> _]|Hw] Hn; [lia|eauto].
Qed.

(** * the store after a history *)
Lemma db_of_sorted h : sorted (db_of h).
Proof.
  induction h as [|[hs ws] older IH]; cbn [db_of]; [exact I|]. apply write_all_sorted, IH.
Qed.

(** what a data key maps to *)
Lemma db_of_get_wrote h k n x : hist_ok h -> wrote h n k x ->
  get (gkey k n) (db_of h) = option_map VRaw x.
Proof.
  induction h as [|[hs ws] older IH]; cbn [db_of wrote]; [tauto|]. intros OK W.
  unfold hist_ok in *. rewrite hlen_cons in OK. pose proof (hlen_nonneg older) as NN.
  rewrite get_write_all by apply db_of_sorted.
  destruct W as [[-> L]|W].
  - rewrite lookup_last_add by apply gkey_data. rewrite lookup_last_data, L. reflexivity.
  - pose proof (wrote_range _ _ _ _ W) as R.
    rewrite lookup_last_add by apply gkey_data.
    destruct (lookup_last (gkey k n) (data_kvs ws (hlen older))) as [y|] eqn:E.
    + exfalso. apply lookup_last_data_form in E as [k' [E _]].
      apply gkey_inj in E; unfold vok; try lia.
    + apply IH; [lia|exact W].
Qed.

(** every data entry comes from a write *)
Lemma db_of_data_form h key v : hist_ok h ->
  In (key, v) (db_of h) -> is_prefix P_data key = true ->
  exists k n x, key = gkey k n /\ wrote h n k (Some x) /\ v = VRaw x.
Proof.
  induction h as [|[hs ws] older IH]; cbn [db_of wrote]; [simpl; tauto|]. intros OK Hin D.
  unfold hist_ok in *. rewrite hlen_cons in OK.
  apply get_In in Hin; [|apply write_all_sorted, db_of_sorted].
  rewrite get_write_all in Hin by apply db_of_sorted.
  rewrite lookup_last_add in Hin by exact D.
  destruct (lookup_last key (data_kvs ws (hlen older))) as [y|] eqn:E.
  - pose proof E as E'. apply lookup_last_data_form in E' as [k [-> _]].
    rewrite lookup_last_data in E. subst y.
    destruct (last_write k ws) as [[x|]|] eqn:L; simpl in E; try discriminate.
    inversion E; subst. exists k, (hlen older), x. auto.
  - apply get_In in Hin; [|apply db_of_sorted].
    destruct (IH ltac:(lia) Hin D) as [k [n [x [A [B C]]]]]. exists k, n, x. auto.
Qed.

Lemma getv_hit_data k v e : getv_hit (gprefix k) (gkey k v) e = true -> is_prefix P_data (fst e) = true.
Proof.
  unfold getv_hit. intro H. apply andb_true_iff in H as [H _]. apply andb_true_iff in H as [H _].
  eapply gprefix_data; eauto.
Qed.

(** GetV looks at data entries only *)
Lemma getv_ext d d' k v : sorted d -> sorted d' ->
  (forall key, is_prefix P_data key = true -> get key d = get key d') ->
  getv d k v = getv d' k v.
Proof.
  intros S S' H. unfold getv; cbv zeta. replace (filter (getv_hit (gprefix k) (gkey k v)) d') with (filter (getv_hit (gprefix k) (gkey k v)) d); [reflexivity|].
  apply sorted_ext_In; try (apply sorted_filter; assumption).
  intros [key x]. rewrite !filter_In. split; intros [A B]; (split; [|exact B]).
  - apply (get_In key x d' S'). rewrite <- H by (apply (getv_hit_data _ _ _ B)). apply (get_In key x d S), A.
  - apply (get_In key x d S). rewrite H by (apply (getv_hit_data _ _ _ B)). apply (get_In key x d' S'), A.
Qed.
