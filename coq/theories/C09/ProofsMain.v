(** C09 — GetV correctness under Safe1, Trash safety under Safe2, DelMVCC restores. *)
From Coq Require Import String List NArith ZArith Bool Lia.
From C33 Require Import Lib.Harness Lib.Bytes Lib.OMap C09.Model C09.Spec C09.ProofsKeys C09.ProofsDb.
Import ListNotations.
Open Scope Z_scope.

(** * guards on sub-lists *)
Lemma pairwise_tail p k ks : pairwise p (k :: ks) = true -> pairwise p ks = true.
Proof.
  unfold pairwise. rewrite !forallb_forall. intros H x Hx.
  specialize (H x (or_intror Hx)). rewrite forallb_forall in *. intros y Hy. apply H. right. exact Hy.
Qed.

Lemma pairwise_mono (p q : list N -> list N -> bool) ks :
  (forall a b, p a b = true -> q a b = true) -> pairwise p ks = true -> pairwise q ks = true.
Proof.
  unfold pairwise. rewrite !forallb_forall. intros M H x Hx. specialize (H x Hx).
  rewrite forallb_forall in *. intros y Hy. apply M, H, Hy.
Qed.

Lemma Safe2_Safe1 ks : Safe2 ks = true -> Safe1 ks = true.
Proof. apply pairwise_mono. apply safe2_safe1_pair. Qed.

(** * GetV *)
(** every entry GetV may stop at is an entry of the key itself, at a version <= v *)
Lemma hit_is_write h k v e :
  hist_ok h -> Safe1 (k :: keys_of h) = true -> vok v ->
  In e (db_of h) -> getv_hit (gprefix k) (gkey k v) e = true ->
  exists n x, fst e = gkey k n /\ snd e = VRaw x /\ wrote h n k (Some x) /\ n <= v.
Proof.
  intros OK S1 Hv Hin Hit. destruct e as [key val].
  pose proof (getv_hit_data _ _ _ Hit) as D. simpl in D.
  destruct (db_of_data_form h key val OK Hin D) as [k' [n [x [-> [W ->]]]]].
  unfold getv_hit in Hit. simpl in Hit.
  apply andb_true_iff in Hit as [Hit _]. apply andb_true_iff in Hit as [Hp Hle].
  pose proof (wrote_key _ _ _ _ W) as Hk'.
  assert (k = k').
  { apply (safe1_range k k' n); [| |exact Hp]; apply (pairwise_In _ _ _ _ S1); simpl; auto. }
  subst k'. exists n, x. repeat split; auto.
  pose proof (wrote_range _ _ _ _ W) as R. unfold hist_ok in OK.
  apply bleb_le in Hle. rewrite gkey_cmp in Hle by (unfold vok in *; lia).
  destruct (Z.compare_spec n v); try lia. congruence.
Qed.

(** GetV on any sorted sub-store of [db_of h] that still holds the entry the spec points at *)
Lemma getv_sub h k v (d' : db) :
  hist_ok h -> nonempty_values h = true -> Safe1 (k :: keys_of h) = true -> vok v ->
  sorted d' -> (forall e, In e d' -> In e (db_of h)) ->
  match spec_find h k v with
  | Some (w, Some b) => In (gkey k w, VRaw b) d' -> getv d' k v = Ok b
  | Some (_, None) => True
  | None => getv d' k v = Err ENotFound
  end.
Proof.
  intros OK NE S1 Hv Sd Sub. destruct (spec_find h k v) as [[w x]|] eqn:F.
  - apply spec_find_some in F as [W [Hwv Max]].
    destruct (wrote_nonempty _ _ _ _ NE W) as [c [b ->]]. intro Hin.
    pose proof (wrote_range _ _ _ _ W) as R. unfold hist_ok in OK.
    assert (Vw : vok w) by (unfold vok in *; lia).
    unfold getv; cbv zeta. rewrite (last_filter_max (getv_hit (gprefix k) (gkey k v)) d' (gkey k w, VRaw (c :: b))); auto.
    + rewrite key_version_gkey by exact Vw. replace (v <? w) with false; [reflexivity|].
      symmetry. apply Z.ltb_ge. exact Hwv.
    + unfold getv_hit. cbn [fst snd val_empty negb].
      replace (is_prefix (gprefix k) (gkey k w)) with true
        by (symmetry; rewrite gkey_gprefix; apply is_prefix_app).
      rewrite andb_true_r. cbn [andb]. apply bleb_le. rewrite gkey_cmp by assumption.
      destruct (Z.compare_spec w v); try discriminate. lia.
    + intros e' Hin' Hit'. destruct (hit_is_write h k v e' OK S1 Hv (Sub _ Hin') Hit') as [n [x [E [_ [W' Hn]]]]].
      rewrite E. simpl. apply bleb_le.
      pose proof (wrote_range _ _ _ _ W') as R'.
      rewrite gkey_cmp by (unfold vok in *; lia).
      specialize (Max _ _ W' Hn). destruct (Z.compare_spec n w); try discriminate. lia.
  - unfold getv; cbv zeta. rewrite last_filter_none; [reflexivity|].
    intros e Hin. destruct (getv_hit (gprefix k) (gkey k v) e) eqn:Hit; [|reflexivity]. exfalso.
    destruct (hit_is_write h k v e OK S1 Hv (Sub _ Hin) Hit) as [n [x [_ [_ [W' Hn]]]]].
    eapply spec_find_none; eauto.
Qed.

Lemma getv_partial h k v :
  hist_ok h -> nonempty_values h = true -> Safe1 (k :: keys_of h) = true -> vok v ->
  getv (db_of h) k v = spec_getv h k v.
Proof.
  intros OK NE S1 Hv.
  pose proof (getv_sub h k v (db_of h) OK NE S1 Hv (db_of_sorted h) (fun e H => H)) as G.
  unfold spec_getv. destruct (spec_find h k v) as [[w x]|] eqn:F; [|exact G].
  pose proof F as F'. apply spec_find_some in F' as [W _].
  destruct (wrote_nonempty _ _ _ _ NE W) as [c [b ->]]. apply G.
  apply (get_In _ _ _ (db_of_sorted h)). rewrite (db_of_get_wrote h k w _ OK W). reflexivity.
Qed.

(** * Trash *)
Definition form_ok (K : list (list N)) (L : list (list N * val)) : Prop :=
  forall e, In e L -> exists k n, fst e = gkey k n /\ In k K /\ vok n.

Lemma trash_fold_inv K cut L :
  Safe2 K = true -> sorted L -> form_ok K L ->
  let st := fold_right (trash_step cut) (sentinel, []) L in
  (fst st = sentinel \/
   exists k' n', fst st = P_data ++ k' /\ In k' K /\ vok n' /\ In (gkey k' n') (keys L)) /\
  (forall key, In key (snd st) ->
     exists k n n', key = gkey k n /\ vok n /\ vok n' /\ n <= cut /\ n < n' /\ In (gkey k n') (keys L)).
Proof.
  intros S2. induction L as [|e tl IH]; intros Srt Form.
  - simpl. split; [left; reflexivity|]. intros key [].
  - destruct Srt as [LB Srt].
    assert (Form' : form_ok K tl) by (intros x Hx; apply Form; right; exact Hx).
    specialize (IH Srt Form'). cbn [fold_right].
    destruct (fold_right (trash_step cut) (sentinel, []) tl) as [pk dels]. simpl in IH.
    destruct IH as [Ipk Idel].
    destruct (Form e (or_introl eq_refl)) as [k [n [Ek [Hk Vn]]]].
    assert (Weak : forall key, In key dels ->
              exists k0 n0 n', key = gkey k0 n0 /\ vok n0 /\ vok n' /\ n0 <= cut /\ n0 < n' /\
                               In (gkey k0 n') (keys (e :: tl))).
    { intros key Hkey. destruct (Idel key Hkey) as [k0 [n0 [n' [A [B [C [D [E F]]]]]]]].
      exists k0, n0, n'. refine (conj A (conj B (conj C (conj D (conj E _))))). right. exact F. }
    unfold trash_step. rewrite Ek.
    destruct (is_prefix pk (gkey k n)) eqn:Pf; cbn [negb].
    + (* treated as a further version of the current key *)
      destruct Ipk as [->|[k' [n' [-> [Hk' [Vn' Hin']]]]]].
      * rewrite sentinel_not_prefix in Pf. discriminate.
      * assert (Lt' : bcmp (gkey k n) (gkey k' n') = Lt).
        { unfold keys in Hin'. apply in_map_iff in Hin' as [e' [Ee' He']].
          rewrite <- Ee', <- Ek. eapply lb_all_In; eauto. }
        assert (k = k').
        { apply (safe2_prefix k n k' n'); auto; apply (pairwise_In _ _ _ _ S2); auto. }
        subst k'. rewrite key_version_gkey by exact Vn.
        assert (Hpk : exists k'0 n'0, P_data ++ k = P_data ++ k'0 /\ In k'0 K /\ vok n'0 /\
                                       In (gkey k'0 n'0) (keys (e :: tl))).
        { exists k, n'. refine (conj eq_refl (conj Hk (conj Vn' _))). right. exact Hin'. }
        destruct (n <=? cut) eqn:Ec; simpl; (split; [right; exact Hpk|]); [|exact Weak].
        intros key [<-|Hkey]; [|apply Weak; exact Hkey].
        apply Z.leb_le in Ec. exists k, n, n'.
        refine (conj eq_refl (conj Vn (conj Vn' (conj Ec (conj _ _))))).
        -- rewrite gkey_cmp in Lt' by assumption. apply Z.compare_lt_iff in Lt'. exact Lt'.
        -- right. exact Hin'.
    + (* a new key: keep it *)
      rewrite cut_version_gkey by exact Vn. simpl. split; [|exact Weak].
      right. exists k, n. refine (conj eq_refl (conj Hk (conj Vn _))). left. exact Ek.
Qed.

Lemma db_data_form_ok h : hist_ok h ->
  form_ok (keys_of h) (filter (fun e => is_prefix P_data (fst e)) (db_of h)).
Proof.
  intros OK [key v] Hin. apply filter_In in Hin as [Hin D]. simpl in D.
  destruct (db_of_data_form h key v OK Hin D) as [k [n [x [-> [W _]]]]].
  exists k, n. repeat split; auto.
  - eapply wrote_key; eauto.
  - apply wrote_range in W. lia.
  - apply wrote_range in W. unfold hist_ok in OK. lia.
Qed.

(** Trash only deletes versions <= cut that have a newer version of the same key *)
Lemma trash_dels_sound h cut key :
  hist_ok h -> Safe2 (keys_of h) = true -> In key (trash_dels (db_of h) cut) ->
  exists k n n' x', key = gkey k n /\ vok n /\ n <= cut /\ n < n' /\ wrote h n' k (Some x').
Proof.
  intros OK S2 Hin. unfold trash_dels in Hin.
  pose proof (trash_fold_inv (keys_of h) cut _ S2
                (sorted_filter _ _ (db_of_sorted h)) (db_data_form_ok h OK)) as [_ Idel].
  destruct (Idel key Hin) as [k [n [n' [-> [Vn [Vn' [Hc [Hlt Hk]]]]]]]].
  unfold keys in Hk. apply in_map_iff in Hk as [[key' v'] [Ee He]]. simpl in Ee. subst key'.
  apply filter_In in He as [He D]. simpl in D.
  destruct (db_of_data_form h _ v' OK He D) as [k2 [n2 [x [E [W _]]]]].
  pose proof (wrote_range _ _ _ _ W) as R. unfold hist_ok in OK.
  apply gkey_inj in E as [<- <-]; [|exact Vn'|unfold vok; lia].
  exists k, n, n', x. auto.
Qed.

Lemma fold_del_sorted ks (d : db) : sorted d -> sorted (fold_left (fun m k => del k m) ks d).
Proof. revert d; induction ks as [|k ks IH]; intros d S; simpl; [exact S|]. apply IH, del_sorted, S. Qed.

Lemma fold_del_In ks (d : db) e : In e (fold_left (fun m k => del k m) ks d) -> In e d.
Proof.
  revert d; induction ks as [|k ks IH]; intros d H; simpl in *; [exact H|].
  eapply In_del. apply IH. exact H.
Qed.

Lemma get_fold_del key ks (d : db) : sorted d -> ~ In key ks ->
  get key (fold_left (fun m k => del k m) ks d) = get key d.
Proof.
  revert d; induction ks as [|k ks IH]; intros d S N; simpl; [reflexivity|].
  rewrite IH; [|apply del_sorted; exact S|intro; apply N; right; assumption].
  apply get_del_other. intro E. apply N. left. auto.
Qed.

Lemma newest_max h k nw : newest h k = Some nw -> forall n y, wrote h n k y -> n <= nw.
Proof.
  unfold newest. destruct (spec_find h k (hlen h)) as [[w x]|] eqn:F; simpl; [|discriminate].
  intro E. inversion E; subst. apply spec_find_some in F as [_ [_ Max]].
  intros n y W. apply (Max n y W). apply wrote_range in W. lia.
Qed.

Lemma trash_partial h cut k v :
  hist_ok h -> nonempty_values h = true -> Safe2 (k :: keys_of h) = true -> vok v ->
  protected_read h cut k v = true ->
  getv (trash (db_of h) cut) k v = spec_getv h k v.
Proof.
  intros OK NE S2k Hv Prot.
  pose proof (Safe2_Safe1 _ S2k) as S1.
  pose proof (pairwise_tail _ _ _ S2k) as S2.
  assert (Srt : sorted (trash (db_of h) cut)) by (apply fold_del_sorted, db_of_sorted).
  pose proof (getv_sub h k v (trash (db_of h) cut) OK NE S1 Hv Srt
                (fun e H => fold_del_In _ _ _ H)) as G.
  unfold spec_getv. unfold protected_read in Prot.
  destruct (spec_find h k v) as [[w x]|] eqn:F; [|exact G].
  pose proof F as F'. apply spec_find_some in F' as [W _].
  destruct (wrote_nonempty _ _ _ _ NE W) as [c [b ->]]. apply G.
  apply (get_In _ _ _ Srt). unfold trash. rewrite get_fold_del; [| apply db_of_sorted |].
  - rewrite (db_of_get_wrote h k w _ OK W). reflexivity.
  - intro Hd. destruct (trash_dels_sound h cut _ OK S2 Hd) as [k1 [n1 [n' [x' [E [Vn1 [Hc [Hlt W']]]]]]]].
    pose proof (wrote_range _ _ _ _ W) as R. unfold hist_ok in OK.
    apply gkey_inj in E as [<- <-]; [|unfold vok; lia|exact Vn1].
    apply orb_true_iff in Prot as [P|P].
    + apply Z.ltb_lt in P. lia.
    + destruct (newest h k) as [nw|] eqn:Nw; [|discriminate]. apply Z.eqb_eq in P. subst nw.
      pose proof (newest_max h k w Nw _ _ W'). lia.
Qed.

(** * DelMVCC of the top version *)
Lemma lookup_last_dels key ks n :
  lookup_last key (map (fun k => (gkey k n, @None val)) ks) =
  if existsb (fun k => beqb key (gkey k n)) ks then Some None else None.
Proof.
  induction ks as [|k ks IH]; simpl; [reflexivity|]. rewrite IH.
  destruct (existsb (fun k0 => beqb key (gkey k0 n)) ks); [rewrite orb_true_r; reflexivity|].
  rewrite orb_false_r. destruct (beqb key (gkey k n)); reflexivity.
Qed.

Lemma last_write_some_in k ws : In k (map fst ws) -> last_write k ws <> None.
Proof.
  induction ws as [|w ws IH]; simpl; [tauto|]. intros [E|H].
  - destruct (last_write k ws); [discriminate|]. subst k. rewrite beqb_refl. discriminate.
  - specialize (IH H). destruct (last_write k ws); [discriminate|congruence].
Qed.

Lemma del_mvcc_inner_ok d ks h v strict l :
  del_mvcc_inner d ks h v strict = Ok l -> l = del_kvlist ks h v.
Proof.
  unfold del_mvcc_inner.
  destruct strict; [destruct (get_max_version d) as [mv|]; [destruct (mv =? v)|]|];
    try discriminate; (destruct (get_version d h) as [vd|]; [|discriminate]);
    destruct (vd =? v); try discriminate; destruct (v <? 0); try discriminate;
    intro H; inversion H; reflexivity.
Qed.

Lemma delmvcc_restores h hs ws strict kvs :
  hist_ok ((hs, ws) :: h) ->
  del_mvcc (db_of ((hs, ws) :: h)) hs (hlen h) strict = Ok kvs ->
  forall k v, getv (write_all kvs (db_of ((hs, ws) :: h))) k v = getv (db_of h) k v.
Proof.
  intros OK Hdel k v. unfold hist_ok in OK. rewrite hlen_cons in OK.
  pose proof (hlen_nonneg h) as NN.
  assert (OKh : hist_ok h) by (unfold hist_ok; lia).
  set (n := hlen h) in *. set (d1 := db_of ((hs, ws) :: h)) in *.
  assert (S1 : sorted d1) by apply db_of_sorted.
  assert (Ed1 : d1 = write_all (add_kvlist ws hs n) (db_of h)) by reflexivity.
  (* the key list read back is the one just written *)
  assert (KL : get_del_kvlist d1 n = Ok (map fst ws)).
  { unfold get_del_kvlist. rewrite Ed1, get_write_all by apply db_of_sorted.
    unfold add_kvlist. rewrite app_assoc, lookup_last_app. simpl. rewrite beqb_refl. reflexivity. }
  unfold del_mvcc in Hdel. rewrite KL in Hdel. apply del_mvcc_inner_ok in Hdel. subst kvs.
  apply getv_ext; [apply write_all_sorted; exact S1 | apply db_of_sorted |].
  intros key D. rewrite get_write_all by exact S1.
  unfold del_kvlist. rewrite lookup_last_app, lookup_last_dels. simpl.
  destruct (existsb (fun k0 => beqb key (gkey k0 n)) (map fst ws)) eqn:Ex.
  - (* an entry of the removed version: absent before as well *)
    apply existsb_exists in Ex as [k0 [Hk0 E]]. apply beqb_eq in E. subst key.
    destruct (get (gkey k0 n) (db_of h)) as [x|] eqn:G; [|reflexivity]. exfalso.
    apply (get_In _ _ _ (db_of_sorted h)) in G.
    destruct (db_of_data_form h _ x OKh G D) as [k2 [n2 [y [E [W _]]]]].
    pose proof (wrote_range _ _ _ _ W) as R.
    apply gkey_inj in E as [_ E]; unfold vok; lia.
  - rewrite (not_data_neq key (ver_key n) D (ver_key_not_data n)).
    rewrite (not_data_neq key (hash_key hs) D (hash_key_not_data hs)).
    rewrite Ed1, get_write_all by apply db_of_sorted.
    rewrite lookup_last_add by exact D.
    destruct (lookup_last key (data_kvs ws n)) as [y|] eqn:L; [|reflexivity]. exfalso.
    apply lookup_last_data_form in L as [k0 [-> Hk0]].
    assert (existsb (fun k1 => beqb (gkey k0 n) (gkey k1 n)) (map fst ws) = true).
    { apply existsb_exists. exists k0. split; [exact Hk0|apply beqb_refl]. }
    congruence.
Qed.

(** * the unguarded statements are false *)
Definition C09_getv_full : Prop :=
  forall h k v, hist_ok h -> nonempty_values h = true -> vok v ->
    getv (db_of h) k v = spec_getv h k v.

Definition C09_trash_full : Prop :=
  forall h cut k v, hist_ok h -> nonempty_values h = true -> vok v ->
    protected_read h cut k v = true ->
    getv (trash (db_of h) cut) k v = spec_getv h k v.

Definition key_a : list N := Eval compute in bs "a"%string.
Definition key_a5 : list N := Eval compute in bs "a.00000000000000000005"%string.
Definition key_am : list N := Eval compute in bs "a-"%string.
Definition hash0 : list N := Eval compute in bs "H0000000"%string.
Definition hash1 : list N := Eval compute in bs "H0000001"%string.

(** versions 0: a := 01, a.00000000000000000005 := 02;  1: a := 03 *)
Definition witness1 : hist :=
  [(hash1, [(key_a, Some [3%N])]); (hash0, [(key_a, Some [1%N]); (key_a5, Some [2%N])])].

(** versions 0: a := 01, a- := 02;  1: a := 03 *)
Definition witness2 : hist :=
  [(hash1, [(key_a, Some [3%N])]); (hash0, [(key_a, Some [1%N]); (key_am, Some [2%N])])].

Lemma witness1_getv : getv (db_of witness1) key_a 6 = Ok [2%N] /\ spec_getv witness1 key_a 6 = Ok [3%N].
Proof. split; vm_compute; reflexivity. Qed.

Lemma witness2_trash :
  getv (trash (db_of witness2) 1) key_am 0 = Err ENotFound /\ spec_getv witness2 key_am 0 = Ok [2%N]
  /\ protected_read witness2 1 key_am 0 = true.
Proof. repeat split; vm_compute; reflexivity. Qed.

Lemma refuted_getv : ~ C09_getv_full.
Proof.
  intro H. specialize (H witness1 key_a 6).
  destruct witness1_getv as [A B]. rewrite A, B in H.
  assert (Ok [2%N] = Ok [3%N] :> res (list N)); [|discriminate].
  apply H; [vm_compute; reflexivity | vm_compute; reflexivity | unfold vok, two63; lia].
Qed.

Lemma refuted_trash : ~ C09_trash_full.
Proof.
  intro H. specialize (H witness2 1 key_am 0).
  destruct witness2_trash as [A [B C]]. rewrite A, B in H.
  assert (Err ENotFound = Ok [2%N] :> res (list N)); [|discriminate].
  apply H; [vm_compute; reflexivity | vm_compute; reflexivity | unfold vok, two63; lia | exact C].
Qed.

(** * entry-level form of the Trash clause: a key's newest version and every
      version newer than the cut stay in the store *)
Lemma trash_keeps h cut k n x :
  hist_ok h -> Safe2 (keys_of h) = true -> wrote h n k (Some x) ->
  (cut < n \/ newest h k = Some n) ->
  get (gkey k n) (trash (db_of h) cut) = Some (VRaw x).
Proof.
  intros OK S2 W Prot. unfold trash. rewrite get_fold_del; [| apply db_of_sorted |].
  - rewrite (db_of_get_wrote h k n _ OK W). reflexivity.
  - intro Hd. destruct (trash_dels_sound h cut _ OK S2 Hd) as [k1 [n1 [n' [x' [E [Vn1 [Hc [Hlt W']]]]]]]].
    pose proof (wrote_range _ _ _ _ W) as R. unfold hist_ok in OK.
    apply gkey_inj in E as [<- <-]; [|unfold vok; lia|exact Vn1].
    destruct Prot as [P|P]; [lia|]. pose proof (newest_max h k n P _ _ W'). lia.
Qed.

(** * the hypotheses are satisfiable by non-trivial states *)
Definition ex_keys : list (list N) :=
  Eval compute in [bs "a"; bs "a0"; bs "a~x"; bs "ab"; bs "a/"; bs "b"; bs "b5~"; bs "b5"]%string.

Definition ex_hist : hist :=
  Eval compute in
  [ (bs "H0000003", [(bs "a", Some [7%N]); (bs "b5~", Some [8%N])]);
    (bs "H0000002", [(bs "a0", Some [5%N]); (bs "a", Some [6%N]); (bs "a0", Some [9%N])]);
    (bs "H0000001", [(bs "ab", Some [3%N]); (bs "a~x", Some [4%N]); (bs "b5", Some [10%N])]);
    (bs "H0000000", [(bs "a", Some [1%N]); (bs "a/", Some [2%N]); (bs "b", Some [11%N])]) ]%string.

Example guards_satisfiable :
  Safe2 ex_keys = true /\ Safe1 ex_keys = true /\
  hist_okb ex_hist = true /\ nonempty_values ex_hist = true /\
  forallb (fun k => Safe2 (k :: keys_of ex_hist)) ex_keys = true.
Proof. repeat split; vm_compute; reflexivity. Qed.

(** the keys really are prefixes of one another *)
Example ex_keys_nested :
  is_prefix (nth 0 ex_keys []) (nth 1 ex_keys []) = true /\
  is_prefix (nth 0 ex_keys []) (nth 2 ex_keys []) = true /\
  is_prefix (nth 7 ex_keys []) (nth 6 ex_keys []) = true.
Proof. repeat split; reflexivity. Qed.

(** GetV on the example: the second write of version 2 to "a0" wins, later versions do not leak *)
Example ex_getv :
  getv (db_of ex_hist) (nth 1 ex_keys []) 3 = Ok [9%N] /\
  getv (db_of ex_hist) (nth 0 ex_keys []) 1 = Ok [1%N] /\
  getv (db_of ex_hist) (nth 6 ex_keys []) 2 = Err ENotFound.
Proof. repeat split; vm_compute; reflexivity. Qed.

(** Trash(2) on the example removes something, and a protected read exists *)
Example ex_trash :
  (length (trash (db_of ex_hist) 2) <? length (db_of ex_hist))%nat = true /\
  protected_read ex_hist 2 (nth 0 ex_keys []) 3 = true /\
  protected_read ex_hist 2 (nth 4 ex_keys []) 1 = true /\
  protected_read ex_hist 2 (nth 0 ex_keys []) 1 = false.
Proof. repeat split; vm_compute; reflexivity. Qed.

(** DelMVCC of the top version of the example is accepted *)
Example ex_delmvcc :
  exists kvs, del_mvcc (db_of ex_hist) (fst (hd ([], []) ex_hist)) (hlen ex_hist - 1) true = Ok kvs.
Proof. eexists. vm_compute. reflexivity. Qed.
