(** C09 — property theorems only. *)
From Coq Require Import List NArith ZArith Bool.
From C33 Require Import Lib.Bytes Lib.OMap C09.Model C09.Spec C09.ProofsKeys C09.ProofsDb C09.ProofsMain.
From C33 Require Import C09.ModelExec C09.SpecExec C09.ProofsExec C09.ProofsExecWit.
Import ListNotations.
Open Scope Z_scope.

(** GetV returns the most recent write to k at a version <= v (or not-found), never
    another key's value — when no key (the one read included) is another key followed by "." *)
Theorem C09_getv_partial : forall h k v,
  hist_ok h -> nonempty_values h = true -> Safe1 (k :: keys_of h) = true -> 0 <= v < two63 ->
  getv (db_of h) k v = spec_getv h k v.
Proof. exact getv_partial. Qed.
Print Assumptions C09_getv_partial.

(** after Trash(cut) every read whose answer is the key's newest write or a write newer
    than the cut is unchanged — when no key is another key followed by a byte <= '.' *)
Theorem C09_trash_partial : forall h cut k v,
  hist_ok h -> nonempty_values h = true -> Safe2 (k :: keys_of h) = true -> 0 <= v < two63 ->
  protected_read h cut k v = true ->
  getv (trash (db_of h) cut) k v = spec_getv h k v.
Proof. exact trash_partial. Qed.
Print Assumptions C09_trash_partial.

(** entry-level form: Trash never removes a key's newest version nor a version newer than the cut *)
Theorem C09_trash_keeps_partial : forall h cut k n x,
  hist_ok h -> Safe2 (keys_of h) = true -> wrote h n k (Some x) ->
  (cut < n \/ newest h k = Some n) ->
  get (gkey k n) (trash (db_of h) cut) = Some (VRaw x).
Proof. exact trash_keeps. Qed.
Print Assumptions C09_trash_keeps_partial.

(** Trash only deletes versions <= cut that are not the key's newest *)
Theorem C09_trash_deletes_only_old_partial : forall h cut key,
  hist_ok h -> Safe2 (keys_of h) = true -> In key (trash_dels (db_of h) cut) ->
  exists k n n' x', key = gkey k n /\ vok n /\ n <= cut /\ n < n' /\ wrote h n' k (Some x').
Proof. exact trash_dels_sound. Qed.
Print Assumptions C09_trash_deletes_only_old_partial.

(** removing the top version (when DelMVCC accepts) restores every read; no guard needed *)
Theorem C09_delmvcc_restores : forall h hs ws strict kvs,
  hist_ok ((hs, ws) :: h) ->
  del_mvcc (db_of ((hs, ws) :: h)) hs (hlen h) strict = Ok kvs ->
  forall k v, getv (write_all kvs (db_of ((hs, ws) :: h))) k v = getv (db_of h) k v.
Proof. exact delmvcc_restores. Qed.
Print Assumptions C09_delmvcc_restores.

(** the guards are necessary *)
Theorem C09_refuted_getv : ~ C09_getv_full.
Proof. exact refuted_getv. Qed.
Print Assumptions C09_refuted_getv.

Theorem C09_refuted_trash : ~ C09_trash_full.
Proof. exact refuted_trash. Qed.
Print Assumptions C09_refuted_trash.

(** * block execution: kvmvcc plugin + StateDB (ModelExec.v), plain KVDB layer *)

(** after any node-shaped history of connected / disconnected blocks (fresh, safe state
    hashes) nothing panicked, and a StateDB opened at the state hash of the block at height i
    reads at version i and returns the latest write to k at or below height i on the current
    chain — with the GetV guards (non-empty values, Safe1) on the current chain only *)
Theorem C09_block_reads_correct_partial : forall sdb ops i hs ws k,
  ops_okb ops = true -> Z.of_nat (length ops) < two63 ->
  nonempty_values (chain_of ops) = true -> Safe1 (k :: keys_of (chain_of ops)) = true ->
  block_at (chain_of ops) i = Some (hs, ws) ->
  exists st, srun false sdb sinit ops = Done (st, chain_of ops) /\
             sdb_read false (fst st) hs (i + 1) k = Done (i, spec_getv (chain_of ops) k i).
Proof. exact block_reads_correct. Qed.
Print Assumptions C09_block_reads_correct_partial.

(** connecting a block and disconnecting it again restores every StateDB read (any safe state
    hash, any context height, any key; no guard on keys or values) — when state hashes are fresh *)
Theorem C09_disconnect_restores_partial : forall sdb ops hs ws st1 c1,
  ops_okb (ops ++ [SConnect hs ws; SDisconnect]) = true ->
  Z.of_nat (length ops) + 2 < two63 ->
  srun false sdb sinit ops = Done (st1, c1) ->
  exists st2, srun false sdb sinit (ops ++ [SConnect hs ws; SDisconnect]) = Done (st2, c1) /\
    forall hash height k, hash_safe hash = true ->
      sdb_read false (fst st2) hash height k = sdb_read false (fst st1) hash height k.
Proof. exact disconnect_restores. Qed.
Print Assumptions C09_disconnect_restores_partial.

(** reads made while the next block is being connected (procExecAddBlock): enableMVCC(prev hash)
    finds the height of the previous block, the block's own writes win, the rest is the state below *)
Theorem C09_inblock_reads_partial : forall sdb ops hs ws k st,
  ops_okb (ops ++ [SConnect hs ws]) = true -> Z.of_nat (length ops) + 1 < two63 ->
  srun false sdb sinit ops = Done (st, chain_of ops) -> chain_of ops <> [] ->
  nonempty_values (chain_of ops) = true -> Safe1 (k :: keys_of (chain_of ops)) = true ->
  let b := (hlen (chain_of ops), hs, top_prev (chain_of ops), ws) in
  exists st', connect false true st b = (st', 0%N, hlen (chain_of ops) - 1) /\
              inblock_read (fst st) b (hlen (chain_of ops) - 1) k = spec_inblock_read (chain_of ops) ws k.
Proof. exact inblock_reads. Qed.
Print Assumptions C09_inblock_reads_partial.

(** the fresh-hash guard is necessary: an empty block (state hash of its parent) connected and
    removed leaves the parent's state unreadable (finding 3) *)
Theorem C09_refuted_disconnect_restores : ~ C09_disconnect_restores_full.
Proof. exact refuted_disconnect_restores. Qed.
Print Assumptions C09_refuted_disconnect_restores.

(** over the node's local layer (empty value = deleted) the statement fails (finding 4) ... *)
Theorem C09_refuted_block_reads_local : ~ C09_block_reads_full.
Proof. exact refuted_block_reads. Qed.
Print Assumptions C09_refuted_block_reads_local.

(** ... because the state of height 0 can never be opened there: block 1 cannot be connected *)
Theorem C09_local_layer_stuck : forall hs0 ws0 hs1 ws1 rest,
  hash_safe hs0 = true ->
  srun true true sinit (SConnect hs0 ws0 :: SConnect hs1 ws1 :: rest) = Panic 1.
Proof. exact local_layer_stuck. Qed.
Print Assumptions C09_local_layer_stuck.
