(** C09 — property theorems only. *)
From Coq Require Import List NArith ZArith Bool.
From C33 Require Import Lib.Bytes Lib.OMap C09.Model C09.Spec C09.ProofsKeys C09.ProofsDb C09.ProofsMain.
Open Scope Z_scope.

(** GetV returns the most recent write to k at a version <= v (or not-found), never
    another key's value — when no key (the one read included) is another key followed by "." *)
Theorem C09_getv_partial : forall h k v,
  hist_ok h -> nonempty_values h = true -> Safe1 (k :: keys_of h) = true -> 0 <= v < two63 ->
  getv (db_of h) k v = spec_getv h k v.
Proof. exact getv_partial. Qed.
Print Assumptions C09_getv_partial.

(** after Trash(cut) every read whose answer is the key's newest write or a write newer
    than the cut is unchanged — when no key is another key followed by a byte <= '.' *)
Theorem C09_trash_partial : forall h cut k v,
  hist_ok h -> nonempty_values h = true -> Safe2 (k :: keys_of h) = true -> 0 <= v < two63 ->
  protected_read h cut k v = true ->
  getv (trash (db_of h) cut) k v = spec_getv h k v.
Proof. exact trash_partial. Qed.
Print Assumptions C09_trash_partial.

(** entry-level form: Trash never removes a key's newest version nor a version newer than the cut *)
Theorem C09_trash_keeps_partial : forall h cut k n x,
  hist_ok h -> Safe2 (keys_of h) = true -> wrote h n k (Some x) ->
  (cut < n \/ newest h k = Some n) ->
  get (gkey k n) (trash (db_of h) cut) = Some (VRaw x).
Proof. exact trash_keeps. Qed.
Print Assumptions C09_trash_keeps_partial.

(** Trash only deletes versions <= cut that are not the key's newest *)
Theorem C09_trash_deletes_only_old_partial : forall h cut key,
  hist_ok h -> Safe2 (keys_of h) = true -> In key (trash_dels (db_of h) cut) ->
  exists k n n' x', key = gkey k n /\ vok n /\ n <= cut /\ n < n' /\ wrote h n' k (Some x').
Proof. exact trash_dels_sound. Qed.
Print Assumptions C09_trash_deletes_only_old_partial.

(** removing the top version (when DelMVCC accepts) restores every read; no guard needed *)
Theorem C09_delmvcc_restores : forall h hs ws strict kvs,
  hist_ok ((hs, ws) :: h) ->
  del_mvcc (db_of ((hs, ws) :: h)) hs (hlen h) strict = Ok kvs ->
  forall k v, getv (write_all kvs (db_of ((hs, ws) :: h))) k v = getv (db_of h) k v.
Proof. exact delmvcc_restores. Qed.
Print Assumptions C09_delmvcc_restores.

(** the guards are necessary *)
Theorem C09_refuted_getv : ~ C09_getv_full.
Proof. exact refuted_getv. Qed.
Print Assumptions C09_refuted_getv.

Theorem C09_refuted_trash : ~ C09_trash_full.
Proof. exact refuted_trash. Qed.
Print Assumptions C09_refuted_trash.
