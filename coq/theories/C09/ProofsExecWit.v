(** C09 — block histories: the guards are necessary (witnesses), the node's
    local layer cannot read the state of height 0, and Examples. *)
From Coq Require Import String List NArith ZArith Bool Lia.
From C33 Require Import Lib.Harness Lib.Bytes Lib.OMap C09.Model C09.Spec C09.ModelExec C09.SpecExec
     C09.ProofsKeys C09.ProofsDb C09.ProofsMain C09.ProofsExecKeys C09.ProofsExecDb C09.ProofsExec.
Import ListNotations.
Open Scope Z_scope.

(** * the unguarded statements *)
(** disconnect restores every state read — without asking for fresh state hashes *)
Definition C09_disconnect_restores_full : Prop :=
  forall sdb ops hs ws st1 c1,
    ops_safeb (ops ++ [SConnect hs ws; SDisconnect]) = true ->
    Z.of_nat (length ops) + 2 < two63 ->
    srun false sdb sinit ops = Done (st1, c1) ->
    exists st2, srun false sdb sinit (ops ++ [SConnect hs ws; SDisconnect]) = Done (st2, c1) /\
      forall hash height k, hash_safe hash = true ->
        sdb_read false (fst st2) hash height k = sdb_read false (fst st1) hash height k.

(** state reads are right over either local layer *)
Definition C09_block_reads_full : Prop :=
  forall L sdb ops i hs ws k,
    ops_okb ops = true -> Z.of_nat (length ops) < two63 ->
    nonempty_values (chain_of ops) = true -> Safe1 (k :: keys_of (chain_of ops)) = true ->
    block_at (chain_of ops) i = Some (hs, ws) ->
    exists st, srun L sdb sinit ops = Done (st, chain_of ops) /\
               sdb_read L (fst st) hs (i + 1) k = Done (i, spec_getv (chain_of ops) k i).

(** * witness 3: an empty block (same state hash as its parent) is connected and removed *)
Definition key_b : list N := Eval compute in bs "b"%string.

Definition dup_ops : list sop :=
  [SConnect hash0 [(key_a, Some [1%N])]; SConnect hash1 [(key_a, Some [2%N]); (key_b, Some [3%N])]].
Definition dup_tail : list sop := [SConnect hash1 []; SDisconnect].

Definition dup_chain : hist := Eval vm_compute in chain_of dup_ops.

Definition run_state (r : pres sstate) : nstate :=
  match r with Done (s, _) => s | Panic _ => ([], -1) end.

Definition dup_st1 : nstate := Eval vm_compute in run_state (srun false true sinit dup_ops).
Definition dup_st2 : nstate := Eval vm_compute in run_state (srun false true sinit (dup_ops ++ dup_tail)).

Lemma dup_run1 : srun false true sinit dup_ops = Done (dup_st1, dup_chain).
Proof. vm_compute. reflexivity. Qed.
Lemma dup_run2 : srun false true sinit (dup_ops ++ dup_tail) = Done (dup_st2, dup_chain).
Proof. vm_compute. reflexivity. Qed.
Lemma dup_read1 : sdb_read false (fst dup_st1) hash1 2 key_a = Done (1, Ok [2%N]).
Proof. vm_compute. reflexivity. Qed.
Lemma dup_read2 : sdb_read false (fst dup_st2) hash1 2 key_a = Panic 1.
Proof. vm_compute. reflexivity. Qed.

(** the block below cannot be removed any more, nor a new block be connected on it *)
Lemma dup_stuck :
  sstep false true (dup_st2, dup_chain) SDisconnect = Panic 1 /\
  sstep false false (dup_st2, dup_chain) SDisconnect = Panic 3 /\
  sstep false true (dup_st2, dup_chain) (SConnect (bs "H0000002") []) = Panic 1.
Proof. repeat split; vm_compute; reflexivity. Qed.

Lemma refuted_disconnect_restores : ~ C09_disconnect_restores_full.
Proof.
  intro F.
  destruct (F true dup_ops hash1 [] dup_st1 dup_chain) as [st2 [R Q]].
  - vm_compute. reflexivity.
  - vm_compute. reflexivity.
  - exact dup_run1.
  - assert (E : Done (dup_st2, dup_chain) = Done (st2, dup_chain)) by (rewrite <- dup_run2; exact R).
    injection E as <-. specialize (Q hash1 2 key_a eq_refl).
    rewrite dup_read1, dup_read2 in Q. discriminate Q.
Qed.

(** * witness 4: over the node's local layer the second block cannot be connected *)
Lemma local_run : srun true true sinit dup_ops = Panic 1.
Proof. vm_compute. reflexivity. Qed.

Lemma refuted_block_reads : ~ C09_block_reads_full.
Proof.
  intro F.
  destruct (F true true dup_ops 0 hash0 [(key_a, Some [1%N])] key_a) as [st [R _]];
    try (vm_compute; reflexivity).
  rewrite local_run in R. discriminate R.
Qed.

(** ** in general: the hash -> version entry of version 0 is Encode(Int64{0}) =
       zero bytes, which the local layer reads as deleted *)
Lemma lget_local_empty key d v : get key d = Some v -> val_empty v = true -> lget true key d = None.
Proof. intros G E. unfold lget. rewrite G, E. reflexivity. Qed.

Lemma local_version0_unreadable d hs height :
  get (hash_key hs) d = Some (VVer 0) -> 0 < height -> sdb_enable true d hs height = Panic 1.
Proof.
  intros G H. unfold sdb_enable, get_version_l.
  rewrite (lget_local_empty _ _ _ G eq_refl).
  destruct (0 <? height) eqn:E; [reflexivity|apply Z.ltb_ge in E; lia].
Qed.

(** a node with the mvcc plugin enabled stops at height 1, whatever the blocks are *)
Lemma local_layer_stuck hs0 ws0 hs1 ws1 rest :
  hash_safe hs0 = true ->
  srun true true sinit (SConnect hs0 ws0 :: SConnect hs1 ws1 :: rest) = Panic 1.
Proof.
  intro S0.
  assert (E1 : sstep true true sinit (SConnect hs0 ws0) =
               Done ((write_all ([(flag_key, Some (VVer 1))] ++ add_kvlist ws0 hs0 0) [], 1), [(hs0, ws0)])).
  { reflexivity. }
  cbn [srun]. rewrite E1. cbn [srun sstep top_prev].
  set (d1 := write_all ([(flag_key, Some (VVer 1))] ++ add_kvlist ws0 hs0 0) []).
  assert (G : get (hash_key hs0) d1 = Some (VVer 0)).
  { unfold d1. rewrite get_write_all by exact I. rewrite lookup_last_app.
    rewrite lookup_last_add_meta by reflexivity.
    assert (A1 : beqb (hash_key hs0) (kl_key 0) = false) by (apply beqb_neq, hash_key_kl_key, S0).
    assert (A2 : beqb (hash_key hs0) (ver_key 0) = false) by (apply beqb_neq, hash_key_ver_key, S0).
    rewrite A1, A2, beqb_refl. reflexivity. }
  unfold connect. cbn [b_prev b_hash b_height b_kvs fst snd].
  change (clen [(hs0, ws0)]) with 1.
  rewrite (local_version0_unreadable d1 hs0 1 G ltac:(lia)). reflexivity.
Qed.

(** * Examples: the guards are satisfiable by a non-trivial history with a
      re-organisation, and the theorems say something on it *)
Definition ex_ops : list sop :=
  Eval compute in
  [ SConnect (bs "S0") [(bs "a", Some [1%N]); (bs "a/", Some [2%N])];
    SConnect (bs "S1") [(bs "a", Some [3%N]); (bs "b", Some [4%N])];
    SConnect (bs "S2") [(bs "a0", Some [5%N])];
    SRestart;
    SDisconnect; SDisconnect;
    SConnect (bs "S1'") [(bs "a0", Some [6%N]); (bs "a", Some [7%N])];
    SConnect (bs "S2'") [(bs "b", Some [8%N])];
    SDisconnect;
    SConnect (bs "S2") [(bs "a0", Some [5%N])] ]%string.

Example ex_ops_guards :
  ops_okb ex_ops = true /\ nonempty_values (chain_of ex_ops) = true /\
  hlen (chain_of ex_ops) = 3 /\
  forallb (fun k => Safe1 (k :: keys_of (chain_of ex_ops))) ex_keys = true.
Proof. repeat split; vm_compute; reflexivity. Qed.

Example ex_ops_reads :
  exists st, srun false true sinit ex_ops = Done (st, chain_of ex_ops) /\
    sdb_read false (fst st) (bs "S0") 1 (bs "a") = Done (0, Ok [1%N]) /\
    sdb_read false (fst st) (bs "S1'") 2 (bs "a") = Done (1, Ok [7%N]) /\
    sdb_read false (fst st) (bs "S1'") 2 (bs "b") = Done (1, Err ENotFound) /\
    sdb_read false (fst st) (bs "S2") 3 (bs "a0") = Done (2, Ok [5%N]) /\
    sdb_read false (fst st) (bs "S1") 2 (bs "a") = Panic 1.
Proof. eexists. repeat split; vm_compute; reflexivity. Qed.

(** the history of witness 3 fails the fresh-hash guard only *)
Example dup_guard :
  ops_okb (dup_ops ++ dup_tail) = false /\ ops_safeb (dup_ops ++ dup_tail) = true /\ ops_okb dup_ops = true.
Proof. repeat split; vm_compute; reflexivity. Qed.
