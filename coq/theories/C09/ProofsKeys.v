(** C09 — facts about the key encodings: pad, GetKey, getVersion, cutVersion. *)
From Coq Require Import List NArith ZArith Bool Lia.
From C33 Require Import Lib.Harness Lib.Bytes Lib.OMap C09.Model C09.Spec.
Import ListNotations.
Open Scope Z_scope.

Definition vok (n : Z) : Prop := 0 <= n < two63.

(** * generic list / byte-string lemmas *)
Lemma app_eq_len {A} (a b x y : list A) :
  length x = length y -> a ++ x = b ++ y -> a = b /\ x = y.
Proof.
  intros L E.
  assert (La : length a = length b).
  { apply (f_equal (@length A)) in E. rewrite !app_length in E. lia. }
  revert b La E; induction a as [|c a IH]; intros [|d b] La E; simpl in *; try discriminate.
  - auto.
  - inversion E; subst. destruct (IH b) as [-> ->]; auto.
Qed.

Lemma bcmp_app_l p a b : bcmp (p ++ a) (p ++ b) = bcmp a b.
Proof. induction p as [|x p IH]; simpl; [reflexivity|]. rewrite N.compare_refl. exact IH. Qed.

Lemma bcmp_app_eqlen a b x y :
  length a = length b ->
  bcmp (a ++ x) (b ++ y) = match bcmp a b with Eq => bcmp x y | c => c end.
Proof.
  revert b; induction a as [|c a IH]; intros [|d b] L; simpl in *; try discriminate; [reflexivity|].
  destruct (c ?= d)%N; auto.
Qed.

Lemma is_prefix_app_l p a b : is_prefix (p ++ a) (p ++ b) = is_prefix a b.
Proof. induction p as [|x p IH]; simpl; [reflexivity|]. rewrite N.eqb_refl. exact IH. Qed.

(** a prefix of [b ++ c] is a prefix of [b] or reaches into [c] *)
Lemma is_prefix_app_cases a b c :
  is_prefix a (b ++ c) = true ->
  is_prefix a b = true \/ exists s, a = b ++ s /\ s <> [] /\ is_prefix s c = true.
Proof.
  revert a; induction b as [|y b IH]; intros a H.
  - destruct a as [|x a]; [left; reflexivity|]. right. exists (x :: a). repeat split; auto. discriminate.
  - destruct a as [|x a]; [left; reflexivity|]. simpl in H.
    apply andb_true_iff in H as [H1 H2]. apply N.eqb_eq in H1. subst y.
    destruct (IH a H2) as [P|[s [E [Ns Ps]]]].
    + left. simpl. rewrite N.eqb_refl. exact P.
    + right. exists s. subst a. auto.
Qed.

Lemma ext_byte_app k c rest : ext_byte k (k ++ c :: rest) = Some c.
Proof. induction k as [|x k IH]; simpl; [reflexivity|]. rewrite N.eqb_refl. exact IH. Qed.

(** * pad *)
Definition digit (c : N) : Prop := (48 <= c <= 57)%N.

Lemma pad_nonneg n : 0 <= n -> pad n = pad_aux 20 n.
Proof. intro H. unfold pad. destruct (n <? 0) eqn:E; [apply Z.ltb_lt in E; lia|reflexivity]. Qed.

Lemma pad_aux_length i n : length (pad_aux i n) = i.
Proof. revert n; induction i as [|i IH]; intro n; simpl; [reflexivity|]. rewrite app_length, IH. simpl. lia. Qed.

Lemma pad_aux_digits i n : Forall digit (pad_aux i n).
Proof.
  revert n; induction i as [|i IH]; intro n; cbn [pad_aux]; [constructor|].
  apply Forall_app. split; [apply IH|]. constructor; [|constructor].
  unfold digit. pose proof (Z.mod_pos_bound n 10 ltac:(lia)). lia.
Qed.

Lemma pad_aux_cmp i n m :
  0 <= n < 10 ^ Z.of_nat i -> 0 <= m < 10 ^ Z.of_nat i ->
  bcmp (pad_aux i n) (pad_aux i m) = (n ?= m).
Proof.
  revert n m; induction i as [|i IH]; intros n m Hn Hm.
  - simpl in *. assert (n = 0) by lia. assert (m = 0) by lia. subst. reflexivity.
  - rewrite Nat2Z.inj_succ, Z.pow_succ_r in Hn, Hm by lia.
    cbn [pad_aux]. rewrite bcmp_app_eqlen by (rewrite !pad_aux_length; reflexivity).
    assert (Hn' : 0 <= n / 10 < 10 ^ Z.of_nat i).
    { split; [apply Z.div_pos; lia|]. apply Z.div_lt_upper_bound; lia. }
    assert (Hm' : 0 <= m / 10 < 10 ^ Z.of_nat i).
    { split; [apply Z.div_pos; lia|]. apply Z.div_lt_upper_bound; lia. }
    rewrite (IH _ _ Hn' Hm').
    pose proof (Z.div_mod n 10 ltac:(lia)) as En.
    pose proof (Z.div_mod m 10 ltac:(lia)) as Em.
    pose proof (Z.mod_pos_bound n 10 ltac:(lia)) as Bn.
    pose proof (Z.mod_pos_bound m 10 ltac:(lia)) as Bm.
    assert (S1 : forall a b, bcmp [a] [b] = (a ?= b)%N)
      by (intros a b; simpl; destruct (a ?= b)%N; reflexivity).
    rewrite S1, Z2N.inj_compare by lia.
    destruct (Z.compare_spec (n / 10) (m / 10)) as [E|L|G].
    + destruct (Z.compare_spec (48 + n mod 10) (48 + m mod 10)); symmetry;
        [apply Z.compare_eq_iff | apply Z.compare_lt_iff | apply Z.compare_gt_iff]; lia.
    + symmetry. apply Z.compare_lt_iff. lia.
    + symmetry. apply Z.compare_gt_iff. lia.
Qed.

Lemma parse_digits_pad_aux i n acc :
  0 <= n < 10 ^ Z.of_nat i ->
  forall tl, parse_digits (pad_aux i n ++ tl) acc = parse_digits tl (acc * 10 ^ Z.of_nat i + n).
Proof.
  revert n acc; induction i as [|i IH]; intros n acc Hn tl.
  - simpl in *. f_equal. lia.
  - rewrite Nat2Z.inj_succ, Z.pow_succ_r in * by lia.
    cbn [pad_aux]. rewrite <- app_assoc.
    assert (Hn' : 0 <= n / 10 < 10 ^ Z.of_nat i).
    { split; [apply Z.div_pos; lia|]. apply Z.div_lt_upper_bound; lia. }
    rewrite (IH _ _ Hn'). cbn [app parse_digits].
    pose proof (Z.mod_pos_bound n 10 ltac:(lia)) as Bn.
    pose proof (Z.div_mod n 10 ltac:(lia)) as En.
    replace ((48 <=? Z.to_N (48 + n mod 10))%N && (Z.to_N (48 + n mod 10) <=? 57)%N) with true.
    2:{ symmetry. apply andb_true_iff. split; apply N.leb_le; lia. }
    f_equal. rewrite Z2N.id by lia. lia.
Qed.

Lemma two63_lt : two63 < 10 ^ Z.of_nat 20.
Proof. reflexivity. Qed.

Lemma pad_length n : vok n -> length (pad n) = 20%nat.
Proof. intros [H _]. rewrite pad_nonneg by exact H. apply pad_aux_length. Qed.

Lemma pad_digits n : vok n -> Forall digit (pad n).
Proof. intros [H _]. rewrite pad_nonneg by exact H. apply pad_aux_digits. Qed.

Lemma pad_cmp n m : vok n -> vok m -> bcmp (pad n) (pad m) = (n ?= m).
Proof.
  intros Hn Hm. pose proof two63_lt. unfold vok in *.
  rewrite !pad_nonneg by lia. apply pad_aux_cmp; lia.
Qed.

Lemma pad_inj n m : vok n -> vok m -> pad n = pad m -> n = m.
Proof.
  intros Hn Hm E. apply Z.compare_eq. rewrite <- (pad_cmp n m Hn Hm), E. apply bcmp_refl.
Qed.

Lemma parse_int_pad n : vok n -> parse_int (pad n) = Some n.
Proof.
  intros Hn. pose proof (pad_digits n Hn) as D. pose proof (pad_length n Hn) as L.
  assert (P : parse_digits (pad n) 0 = Some n).
  { pose proof two63_lt. unfold vok in Hn. rewrite pad_nonneg by lia.
    rewrite <- (app_nil_r (pad_aux 20 n)), parse_digits_pad_aux by lia. simpl. f_equal. }
  destruct (pad n) as [|c tl] eqn:E; [discriminate|].
  inversion D as [|? ? Dc _]; subst. unfold digit in Dc.
  unfold parse_int.
  replace (c =? 45)%N with false by (symmetry; apply N.eqb_neq; lia).
  replace (c =? 43)%N with false by (symmetry; apply N.eqb_neq; lia).
  rewrite P. destruct Hn as [_ Hn]. apply Z.ltb_lt in Hn. rewrite Hn. reflexivity.
Qed.

Lemma digit_not_dot c : digit c -> (c =? dot)%N = false.
Proof. unfold digit, dot. intro H. apply N.eqb_neq. lia. Qed.

(** * splitting at the last dot *)
Lemma after_last_dot_nodot s : Forall digit s -> after_last_dot s = None.
Proof.
  induction 1 as [|c s Hc _ IH]; simpl; [reflexivity|]. rewrite IH, digit_not_dot by exact Hc. reflexivity.
Qed.

Lemma before_last_dot_nodot s : Forall digit s -> before_last_dot s = None.
Proof.
  induction 1 as [|c s Hc _ IH]; simpl; [reflexivity|]. rewrite IH, digit_not_dot by exact Hc. reflexivity.
Qed.

Lemma after_last_dot_app a s : Forall digit s -> after_last_dot (a ++ dot :: s) = Some s.
Proof.
  intro D. induction a as [|c a IH]; simpl.
  - rewrite after_last_dot_nodot by exact D. reflexivity.
  - rewrite IH. reflexivity.
Qed.

Lemma before_last_dot_app a s : Forall digit s -> before_last_dot (a ++ dot :: s) = Some a.
Proof.
  intro D. induction a as [|c a IH]; simpl.
  - rewrite before_last_dot_nodot by exact D. reflexivity.
  - rewrite IH. reflexivity.
Qed.

(** * GetKey *)
Lemma gkey_split k n : gkey k n = (P_data ++ k) ++ dot :: pad n.
Proof. unfold gkey. rewrite app_assoc. reflexivity. Qed.

Lemma gkey_gprefix k n : gkey k n = gprefix k ++ pad n.
Proof. unfold gkey, gprefix. rewrite <- !app_assoc. reflexivity. Qed.

Lemma key_version_gkey k n : vok n -> key_version (gkey k n) = Ok n.
Proof.
  intro H. unfold key_version. rewrite gkey_split, after_last_dot_app by (apply pad_digits; exact H).
  rewrite parse_int_pad by exact H. reflexivity.
Qed.

Lemma cut_version_gkey k n : vok n -> before_last_dot (gkey k n) = Some (P_data ++ k).
Proof. intro H. rewrite gkey_split. apply before_last_dot_app, pad_digits, H. Qed.

Lemma gkey_inj k n k' n' : vok n -> vok n' -> gkey k n = gkey k' n' -> k = k' /\ n = n'.
Proof.
  intros Hn Hn' E. unfold gkey in E. apply app_inv_head in E.
  apply app_eq_len in E; [|simpl; rewrite !pad_length by assumption; reflexivity].
  destruct E as [-> E]. inversion E as [E']. split; [reflexivity|]. apply pad_inj; assumption.
Qed.

Lemma gkey_inj_same k k' n : gkey k n = gkey k' n -> k = k'.
Proof. unfold gkey. intro E. apply app_inv_head in E. apply app_inv_tail in E. exact E. Qed.

Lemma gkey_cmp k n m : vok n -> vok m -> bcmp (gkey k n) (gkey k m) = (n ?= m).
Proof.
  intros Hn Hm. rewrite !gkey_gprefix, bcmp_app_l. apply pad_cmp; assumption.
Qed.

Lemma gkey_data k n : is_prefix P_data (gkey k n) = true.
Proof. unfold gkey. apply is_prefix_app. Qed.

Lemma gprefix_data k key : is_prefix (gprefix k) key = true -> is_prefix P_data key = true.
Proof. intro H. eapply is_prefix_trans; [|exact H]. unfold gprefix. apply is_prefix_app. Qed.

(** meta keys are outside the data prefix; the sentinel is no prefix of a data key *)
Lemma hash_key_not_data h : is_prefix P_data (hash_key h) = false.
Proof. reflexivity. Qed.
Lemma ver_key_not_data v : is_prefix P_data (ver_key v) = false.
Proof. reflexivity. Qed.
Lemma kl_key_not_data v : is_prefix P_data (kl_key v) = false.
Proof. reflexivity. Qed.
Lemma sentinel_not_prefix k n : is_prefix sentinel (gkey k n) = false.
Proof. reflexivity. Qed.

(** * the two key-shape lemmas *)
(** Safe1: inside the prefix range of k there are only entries of k *)
Lemma safe1_range k k' n' :
  safe1_pair k k' = true -> safe1_pair k' k = true ->
  is_prefix (gprefix k) (gkey k' n') = true -> k = k'.
Proof.
  unfold safe1_pair, gprefix, gkey. intros S1 S2 H.
  rewrite is_prefix_app_l in H.
  apply is_prefix_app_cases in H as [H|[s [E [Ns Ps]]]].
  - apply is_prefix_iff in H as [t ->]. rewrite <- app_assoc in S1. simpl in S1.
    rewrite ext_byte_app in S1. unfold dot in S1. simpl in S1. discriminate.
  - destruct s as [|c s]; [congruence|]. simpl in Ps.
    apply andb_true_iff in Ps as [Pc _]. apply N.eqb_eq in Pc. subst c.
    destruct s as [|x s].
    + apply app_inj_tail in E as [E _]. exact E.
    + exfalso. destruct (exists_last (l := x :: s)) as [s' [y Es]]; [discriminate|].
      rewrite Es in E. change (k ++ [dot] = k' ++ (dot :: s') ++ [y]) in E.
      rewrite app_assoc in E. apply app_inj_tail in E as [E _]. subst k.
      rewrite ext_byte_app in S2. unfold dot in S2. simpl in S2. discriminate.
Qed.

(** Safe2: an entry of another key k, met after the walk took its prefix from an
    entry of k' that sorts above it, never has that prefix *)
Lemma safe2_prefix k n k' n' :
  safe2_pair k k' = true -> safe2_pair k' k = true ->
  is_prefix (P_data ++ k') (gkey k n) = true ->
  bcmp (gkey k n) (gkey k' n') = Lt -> k = k'.
Proof.
  unfold safe2_pair, gkey. intros S1 S2 H L.
  rewrite is_prefix_app_l in H. rewrite bcmp_app_l in L.
  apply is_prefix_app_cases in H as [H|[s [E [Ns Ps]]]].
  - apply is_prefix_iff in H as [t ->]. destruct t as [|c t]; [rewrite app_nil_r; reflexivity|].
    exfalso. rewrite ext_byte_app in S2. apply N.ltb_lt in S2.
    rewrite <- app_assoc, bcmp_app_l in L. simpl in L.
    destruct (N.compare_spec c dot); try discriminate; lia.
  - exfalso. destruct s as [|c s]; [congruence|]. simpl in Ps.
    apply andb_true_iff in Ps as [Pc _]. apply N.eqb_eq in Pc. subst c k'.
    rewrite ext_byte_app in S1. apply N.ltb_lt in S1. lia.
Qed.

Lemma pairwise_In p ks k k' : pairwise p ks = true -> In k ks -> In k' ks -> p k k' = true.
Proof.
  unfold pairwise. rewrite forallb_forall. intros H Hk Hk'.
  specialize (H k Hk). rewrite forallb_forall in H. auto.
Qed.

Lemma safe2_safe1_pair k k' : safe2_pair k k' = true -> safe1_pair k k' = true.
Proof.
  unfold safe2_pair, safe1_pair. destruct (ext_byte k k') as [c|]; [|auto].
  intro H. apply N.ltb_lt in H. apply negb_true_iff, N.eqb_neq. lia.
Qed.
