(** C09 — abstract spec of state reads on a block chain.  The chain is a
    [hist] (Spec.v): newest block first, the block at height i carries its state
    hash and its state KV set.  A state is addressed by its hash; a read of k at
    the state of height i is [spec_getv h k i].  Executable (violation oracle). *)
From Coq Require Import String List NArith ZArith Bool.
From C33 Require Import Lib.Harness Lib.Bytes Lib.OMap C09.Model C09.Spec C09.ModelExec.
Import ListNotations.
Open Scope Z_scope.

(** the block at height i *)
Fixpoint block_at (h : hist) (i : Z) : option version :=
  match h with
  | [] => None
  | b :: older => if i =? hlen older then Some b else block_at older i
  end.

(** the greatest height whose block has state hash [hash] *)
Fixpoint height_of (h : hist) (hash : list N) : option Z :=
  match h with
  | [] => None
  | (hs, _) :: older => if beqb hash hs then Some (hlen older) else height_of older hash
  end.

Definition hashes (h : hist) : list (list N) := map fst h.

(** a read of k at the state [hash]: the height it is read at and the value;
    None = there is no such state on the chain *)
Definition spec_state_read (h : hist) (hash k : list N) : option (Z * res (list N)) :=
  match height_of h hash with
  | Some i => Some (i, spec_getv h k i)
  | None => None
  end.

(** a read while block [ws] is being connected on top of h (the block's own
    writes are visible, the rest is the state of the previous block) *)
Definition spec_inblock_read (h : hist) (ws : list write) (k : list N) : res (list N) :=
  match last_write k ws with
  | Some (Some b) => Ok b
  | Some None => Err ENotFound
  | None => spec_getv h k (hlen h - 1)
  end.

(** * guards on state hashes *)
(** a state hash is not empty and does not start with "version": the meta
    entries hash -> version, version -> hash and version -> key list share the
    prefix ".-mvcc-.m." (real state hashes are 32-byte digests) *)
Definition P_version : list N := Eval compute in bs "version"%string.

Definition hash_safe (hs : list N) : bool :=
  match hs with
  | [] => false
  | _ => negb (is_prefix P_version hs)
  end.

(** every connected block brings a state hash that is safe and not the state
    hash of a block on the chain at that time ([hs]) *)
Fixpoint ops_okb_from (hs : list (list N)) (ops : list sop) : bool :=
  match ops with
  | [] => true
  | SConnect hash _ :: rest =>
      hash_safe hash && negb (existsb (beqb hash) hs) && ops_okb_from (hash :: hs) rest
  | SDisconnect :: rest => ops_okb_from (List.tl hs) rest
  | SRestart :: rest => ops_okb_from hs rest
  end.

Definition ops_okb (ops : list sop) : bool := ops_okb_from [] ops.

(** only the first two conditions (the state hash may repeat) *)
Fixpoint ops_safeb (ops : list sop) : bool :=
  match ops with
  | [] => true
  | SConnect hash _ :: tl => hash_safe hash && ops_safeb tl
  | _ :: tl => ops_safeb tl
  end.

(** the chain a history leads to *)
Fixpoint chain_from (c : hist) (ops : list sop) : hist :=
  match ops with
  | [] => c
  | SConnect hash ws :: tl => chain_from ((hash, ws) :: c) tl
  | SDisconnect :: tl => chain_from (List.tl c) tl
  | SRestart :: tl => chain_from c tl
  end.

Definition chain_of (ops : list sop) : hist := chain_from [] ops.
