(** C09 — the meta entries of the store after a history, and the relation
    between the node's store and [db_of chain] that every connect / disconnect
    preserves ([agree]: equal except for the plugin flag and key lists of
    versions above the chain, which DelMVCC leaves behind). *)
From Coq Require Import String List NArith ZArith Bool Lia.
From C33 Require Import Lib.Harness Lib.Bytes Lib.OMap C09.Model C09.Spec C09.ModelExec C09.SpecExec
     C09.ProofsKeys C09.ProofsDb C09.ProofsMain C09.ProofsExecKeys.
Import ListNotations.
Open Scope Z_scope.

(** * block_at *)
Lemma block_at_range h i b : block_at h i = Some b -> 0 <= i < hlen h.
Proof.
  induction h as [|b0 older IH]; simpl; [discriminate|]. rewrite hlen_cons.
  pose proof (hlen_nonneg older). destruct (i =? hlen older) eqn:E.
  - apply Z.eqb_eq in E. intros _. lia.
  - intro H'. specialize (IH H'). lia.
Qed.

Lemma block_at_In h i b : block_at h i = Some b -> In b h.
Proof.
  induction h as [|b0 older IH]; simpl; [discriminate|].
  destruct (i =? hlen older); intro H; [inversion H; auto|auto].
Qed.

Lemma block_at_top hs ws h : block_at ((hs, ws) :: h) (hlen h) = Some (hs, ws).
Proof. simpl. rewrite Z.eqb_refl. reflexivity. Qed.

Lemma block_at_older b0 h i b : block_at h i = Some b -> block_at (b0 :: h) i = Some b.
Proof.
  intro H. pose proof (block_at_range _ _ _ H) as R. simpl.
  destruct (i =? hlen h) eqn:E; [apply Z.eqb_eq in E; lia|exact H].
Qed.

Definition hashes_ok (h : hist) : Prop :=
  NoDup (hashes h) /\ Forall (fun hs => hash_safe hs = true) (hashes h).

Lemma hashes_ok_tail b h : hashes_ok (b :: h) -> hashes_ok h.
Proof. intros [N F]. inversion N; inversion F; subst. split; assumption. Qed.

Lemma hashes_ok_safe h i hs ws : hashes_ok h -> block_at h i = Some (hs, ws) -> hash_safe hs = true.
Proof.
  intros [_ F] B. apply block_at_In in B. rewrite Forall_forall in F. apply F.
  unfold hashes. apply in_map_iff. exists (hs, ws). auto.
Qed.

Lemma hist_ok_tail b h : hist_ok (b :: h) -> hist_ok h /\ vok (hlen h).
Proof.
  unfold hist_ok, vok. rewrite hlen_cons. pose proof (hlen_nonneg h). lia.
Qed.

(** * what an AddMVCC list holds under a non-data key *)
Lemma lookup_last_data_none key ws n :
  is_prefix P_data key = false -> lookup_last key (data_kvs ws n) = None.
Proof.
  intro H. apply lookup_last_none. intros kv Hin E. unfold data_kvs in Hin.
  apply in_map_iff in Hin as [w [<- _]]. simpl in E. subst key. rewrite gkey_data in H. discriminate.
Qed.

Lemma lookup_last_add_meta key ws hs n : is_prefix P_data key = false ->
  lookup_last key (add_kvlist ws hs n) =
    if beqb key (kl_key n) then Some (Some (VKeys (map fst ws)))
    else if beqb key (ver_key n) then Some (Some (VRaw hs))
    else if beqb key (hash_key hs) then Some (Some (VVer n)) else None.
Proof.
  intro D. unfold add_kvlist. rewrite lookup_last_app, lookup_last_app.
  rewrite (lookup_last_data_none key ws n D). simpl.
  destruct (beqb key (kl_key n)); [reflexivity|].
  destruct (beqb key (ver_key n)); [reflexivity|].
  destruct (beqb key (hash_key hs)); reflexivity.
Qed.

(** every non-data entry of the store belongs to a block of the history *)
Lemma db_of_meta_form h key x :
  get key (db_of h) = Some x -> is_prefix P_data key = false ->
  exists i hs ws, block_at h i = Some (hs, ws) /\
    (key = hash_key hs \/ (key = ver_key i /\ x = VRaw hs) \/ (key = kl_key i /\ x = VKeys (map fst ws))).
Proof.
  induction h as [|[hs0 ws0] older IH]; cbn [db_of]; [simpl; discriminate|]. intros G D.
  rewrite get_write_all in G by apply db_of_sorted. rewrite lookup_last_add_meta in G by exact D.
  destruct (beqb key (kl_key (hlen older))) eqn:E1.
  { apply beqb_eq in E1. inversion G; subst. exists (hlen older), hs0, ws0.
    split; [apply block_at_top|]. right. right. auto. }
  destruct (beqb key (ver_key (hlen older))) eqn:E2.
  { apply beqb_eq in E2. inversion G; subst. exists (hlen older), hs0, ws0.
    split; [apply block_at_top|]. right. left. auto. }
  destruct (beqb key (hash_key hs0)) eqn:E3.
  { apply beqb_eq in E3. exists (hlen older), hs0, ws0. split; [apply block_at_top|]. left. exact E3. }
  destruct (IH G D) as [i [hs [ws [B F]]]]. exists i, hs, ws. split; [apply block_at_older; exact B|exact F].
Qed.

(** the three meta entries of the block at height i *)
Lemma db_of_meta_get h i hs ws : hist_ok h -> hashes_ok h -> block_at h i = Some (hs, ws) ->
  get (hash_key hs) (db_of h) = Some (VVer i) /\
  get (ver_key i) (db_of h) = Some (VRaw hs) /\
  get (kl_key i) (db_of h) = Some (VKeys (map fst ws)).
Proof.
  induction h as [|[hs0 ws0] older IH]; cbn [db_of]; [simpl; discriminate|]. intros OK HO B.
  destruct (hist_ok_tail _ _ OK) as [OKo Vn]. pose proof (hashes_ok_tail _ _ HO) as HOo.
  assert (S0 : hash_safe hs0 = true).
  { destruct HO as [_ F]. inversion F; subst. assumption. }
  rewrite !get_write_all by apply db_of_sorted.
  rewrite !lookup_last_add_meta by reflexivity.
  simpl in B. destruct (i =? hlen older) eqn:Ei.
  - apply Z.eqb_eq in Ei. inversion B; subst i hs0 ws0. clear B.
    assert (A1 : beqb (hash_key hs) (kl_key (hlen older)) = false)
      by (apply beqb_neq, hash_key_kl_key, S0).
    assert (A2 : beqb (hash_key hs) (ver_key (hlen older)) = false)
      by (apply beqb_neq, hash_key_ver_key, S0).
    assert (A3 : beqb (ver_key (hlen older)) (kl_key (hlen older)) = false)
      by (apply beqb_neq, ver_key_kl_key).
    rewrite A1, A2, A3, !beqb_refl. auto.
  - apply Z.eqb_neq in Ei. pose proof (block_at_range _ _ _ B) as R.
    assert (Vi : vok i) by (unfold vok in *; lia).
    destruct (IH OKo HOo B) as [G1 [G2 G3]].
    pose proof (hashes_ok_safe _ _ _ _ HOo B) as Sh.
    assert (Nh : hs <> hs0).
    { intro E. subst hs0. destruct HO as [N _]. inversion N as [|? ? Nin _]; subst. apply Nin.
      apply block_at_In in B. unfold hashes. apply in_map_iff. exists (hs, ws). auto. }
    assert (A1 : beqb (hash_key hs) (kl_key (hlen older)) = false)
      by (apply beqb_neq, hash_key_kl_key, Sh).
    assert (A2 : beqb (hash_key hs) (ver_key (hlen older)) = false)
      by (apply beqb_neq, hash_key_ver_key, Sh).
    assert (A3 : beqb (hash_key hs) (hash_key hs0) = false)
      by (apply beqb_neq; intro E; apply hash_key_inj in E; auto).
    assert (B1 : beqb (ver_key i) (kl_key (hlen older)) = false)
      by (apply beqb_neq, ver_key_kl_key).
    assert (B2 : beqb (ver_key i) (ver_key (hlen older)) = false)
      by (apply beqb_neq; intro E; apply ver_key_inj in E; auto).
    assert (B3 : beqb (ver_key i) (hash_key hs0) = false)
      by (apply beqb_neq; intro E; symmetry in E; revert E; apply hash_key_ver_key, S0).
    assert (C1 : beqb (kl_key i) (kl_key (hlen older)) = false)
      by (apply beqb_neq; intro E; apply kl_key_inj in E; auto).
    assert (C2 : beqb (kl_key i) (ver_key (hlen older)) = false)
      by (apply beqb_neq; intro E; symmetry in E; revert E; apply ver_key_kl_key).
    assert (C3 : beqb (kl_key i) (hash_key hs0) = false)
      by (apply beqb_neq; intro E; symmetry in E; revert E; apply hash_key_kl_key, S0).
    rewrite A1, A2, A3, B1, B2, B3, C1, C2, C3. auto.
Qed.

(** * the store of the node against the store of the chain *)
(** keys the node's store may hold beyond [db_of h] *)
Definition stale (h : hist) (key : list N) : Prop :=
  key = flag_key \/ exists n, hlen h <= n /\ vok n /\ key = kl_key n.

Definition agree (d : db) (h : hist) : Prop :=
  sorted d /\ forall key, ~ stale h key -> get key d = get key (db_of h).

Lemma not_stale_data h key : is_prefix P_data key = true -> ~ stale h key.
Proof.
  intros D [E|[n [_ [_ E]]]]; subst key.
  - discriminate D.
  - rewrite kl_key_not_data in D. discriminate.
Qed.

Lemma not_stale_hash h hs : hash_safe hs = true -> ~ stale h (hash_key hs).
Proof.
  intros S [E|[n [_ [_ E]]]].
  - revert E. apply mvcc_not_flag. reflexivity.
  - revert E. apply hash_key_kl_key, S.
Qed.

Lemma not_stale_ver h n : ~ stale h (ver_key n).
Proof.
  intros [E|[m [_ [_ E]]]].
  - revert E. apply mvcc_not_flag. reflexivity.
  - revert E. apply ver_key_kl_key.
Qed.

Lemma not_stale_kl h n : vok n -> n < hlen h -> ~ stale h (kl_key n).
Proof.
  intros V L [E|[m [Hm [Vm E]]]].
  - revert E. apply mvcc_not_flag. reflexivity.
  - apply kl_key_inj in E; try assumption. lia.
Qed.

Lemma not_stale_mver h key : is_prefix P_mver key = true -> ~ stale h key.
Proof.
  intros M [E|[n [_ [_ E]]]]; subst key.
  - discriminate M.
  - rewrite kl_key_not_mver in M. discriminate.
Qed.

Lemma stale_mono b h key : stale (b :: h) key -> stale h key.
Proof.
  intros [E|[n [Hn [V E]]]]; [left; exact E|]. right. exists n. rewrite hlen_cons in Hn.
  split; [lia|split; assumption].
Qed.

Lemma agree_getv d h k v : agree d h -> getv d k v = getv (db_of h) k v.
Proof.
  intros [S A]. apply getv_ext; [exact S|apply db_of_sorted|].
  intros key D. apply A, not_stale_data, D.
Qed.

(** no key of an AddMVCC / DelMVCC list is the flag key *)
Lemma lookup_last_flag_add ws hs n : lookup_last flag_key (add_kvlist ws hs n) = None.
Proof.
  apply lookup_last_none. intros kv Hin E. unfold add_kvlist in Hin.
  assert (M : is_mvcc_key (fst kv) = true).
  { simpl in Hin. destruct Hin as [<-|[<-|Hin]]; try reflexivity.
    apply in_app_or in Hin as [Hin|[<-|[]]]; [|reflexivity].
    unfold data_kvs in Hin. apply in_map_iff in Hin as [w [<- _]]. reflexivity. }
  rewrite E in M. discriminate M.
Qed.

Lemma lookup_last_flag_del ks hs n : lookup_last flag_key (del_kvlist ks hs n) = None.
Proof.
  apply lookup_last_none. intros kv Hin E. unfold del_kvlist in Hin.
  assert (M : is_mvcc_key (fst kv) = true).
  { simpl in Hin. destruct Hin as [<-|[<-|Hin]]; try reflexivity.
    apply in_map_iff in Hin as [w [<- _]]. reflexivity. }
  rewrite E in M. discriminate M.
Qed.

(** the flag kvs CheckEnable may return *)
Definition flag_kvs (fkv : list kvw) : Prop := fkv = [] \/ fkv = [(flag_key, Some (VVer 1))].

Lemma lookup_last_fkv key fkv : flag_kvs fkv -> key <> flag_key -> lookup_last key fkv = None.
Proof.
  intros [-> | ->] N; simpl; [reflexivity|]. apply beqb_neq in N. rewrite N. reflexivity.
Qed.

(** ** connect keeps the relation *)
Lemma agree_connect d h hs ws fkv : agree d h -> flag_kvs fkv -> hist_ok ((hs, ws) :: h) ->
  agree (write_all (fkv ++ add_kvlist ws hs (hlen h)) d) ((hs, ws) :: h).
Proof.
  intros [S A] F OK. destruct (hist_ok_tail _ _ OK) as [OKh Vn].
  split; [apply write_all_sorted, S|]. intros key NS.
  assert (NF : key <> flag_key) by (intro E; apply NS; left; exact E).
  cbn [db_of]. rewrite !get_write_all by (try apply db_of_sorted; exact S).
  rewrite lookup_last_app, (lookup_last_fkv key fkv F NF).
  destruct (lookup_last key (add_kvlist ws hs (hlen h))) as [x|] eqn:E; [reflexivity|].
  apply A. intros [E'|[n [Hn [V E']]]]; [auto|].
  destruct (Z.eq_dec n (hlen h)) as [->|Ne].
  - subst key. rewrite lookup_last_add_meta in E by reflexivity. rewrite beqb_refl in E. discriminate.
  - apply NS. right. exists n. rewrite hlen_cons. split; [lia|split; assumption].
Qed.

(** what a DelMVCC list holds *)
Lemma lookup_last_del key ks hs n :
  lookup_last key (del_kvlist ks hs n) =
    if existsb (fun k => beqb key (gkey k n)) ks then Some None
    else if beqb key (ver_key n) then Some None
    else if beqb key (hash_key hs) then Some None else None.
Proof.
  unfold del_kvlist. rewrite lookup_last_app, lookup_last_dels. simpl.
  destruct (existsb (fun k => beqb key (gkey k n)) ks); [reflexivity|].
  destruct (beqb key (ver_key n)); [reflexivity|].
  destruct (beqb key (hash_key hs)); reflexivity.
Qed.

(** ** disconnect of the top block keeps the relation *)
Lemma agree_disconnect d h hs ws fkv : agree d ((hs, ws) :: h) -> flag_kvs fkv ->
  hist_ok ((hs, ws) :: h) -> hashes_ok ((hs, ws) :: h) ->
  agree (write_all (fkv ++ del_kvlist (map fst ws) hs (hlen h)) d) h.
Proof.
  intros [S A] F OK HO. destruct (hist_ok_tail _ _ OK) as [OKh Vn].
  pose proof (hashes_ok_tail _ _ HO) as HOh.
  assert (S0 : hash_safe hs = true) by (destruct HO as [_ F0]; inversion F0; subst; assumption).
  assert (Nin : ~ In hs (hashes h)) by (destruct HO as [N _]; inversion N; subst; assumption).
  set (n := hlen h) in *.
  split; [apply write_all_sorted, S|]. intros key NS.
  assert (NF : key <> flag_key) by (intro E; apply NS; left; exact E).
  assert (NK : key <> kl_key n).
  { intro E. apply NS. right. exists n. split; [unfold n; lia|split; assumption]. }
  rewrite get_write_all by exact S.
  rewrite lookup_last_app, (lookup_last_fkv key fkv F NF), lookup_last_del.
  assert (GONE : forall x, get key (db_of h) = Some x -> is_prefix P_data key = false ->
                 (key = ver_key n \/ key = hash_key hs) -> False).
  { intros x G D Hk. destruct (db_of_meta_form h key x G D) as [i [hs' [ws' [B Fm]]]].
    pose proof (block_at_range _ _ _ B) as R. pose proof (hashes_ok_safe _ _ _ _ HOh B) as S'.
    assert (Vi : vok i) by (unfold vok in *; unfold n in *; lia).
    destruct Hk as [-> | ->]; destruct Fm as [E|[[E _]|[E _]]].
    - symmetry in E. revert E. apply hash_key_ver_key, S'.
    - apply ver_key_inj in E; try assumption. unfold n in *. lia.
    - revert E. apply ver_key_kl_key.
    - apply hash_key_inj in E. subst hs'. apply Nin. apply block_at_In in B.
      unfold hashes. apply in_map_iff. exists (hs, ws'). auto.
    - revert E. apply hash_key_ver_key, S0.
    - revert E. apply hash_key_kl_key, S0. }
  destruct (existsb (fun k => beqb key (gkey k n)) (map fst ws)) eqn:Ex.
  { (* a data entry of the removed version: the chain below never had it *)
    apply existsb_exists in Ex as [k0 [_ E]]. apply beqb_eq in E. subst key.
    destruct (get (gkey k0 n) (db_of h)) as [x|] eqn:G; [|reflexivity]. exfalso.
    apply (get_In _ _ _ (db_of_sorted h)) in G.
    destruct (db_of_data_form h _ x OKh G (gkey_data k0 n)) as [k2 [n2 [y [E [W _]]]]].
    pose proof (wrote_range _ _ _ _ W) as R.
    apply gkey_inj in E as [_ E]; unfold vok in *; unfold n in *; lia. }
  destruct (beqb key (ver_key n)) eqn:E2.
  { apply beqb_eq in E2. destruct (get key (db_of h)) as [x|] eqn:G; [|reflexivity]. exfalso.
    apply (GONE x eq_refl); [subst key; reflexivity|left; exact E2]. }
  destruct (beqb key (hash_key hs)) eqn:E3.
  { apply beqb_eq in E3. destruct (get key (db_of h)) as [x|] eqn:G; [|reflexivity]. exfalso.
    apply (GONE x eq_refl); [subst key; reflexivity|right; exact E3]. }
  (* untouched: the store agreed with the longer chain, whose top version did not write it *)
  rewrite A by (intro St; apply NS; apply stale_mono in St; exact St).
  cbn [db_of]. rewrite get_write_all by apply db_of_sorted. fold n.
  destruct (is_prefix P_data key) eqn:D.
  - rewrite lookup_last_add by exact D.
    destruct (lookup_last key (data_kvs ws n)) as [y|] eqn:L; [|reflexivity]. exfalso.
    apply lookup_last_data_form in L as [k0 [-> Hk0]].
    assert (existsb (fun k1 => beqb (gkey k0 n) (gkey k1 n)) (map fst ws) = true).
    { apply existsb_exists. exists k0. split; [exact Hk0|apply beqb_refl]. }
    congruence.
  - rewrite lookup_last_add_meta by exact D.
    apply beqb_neq in NK. rewrite NK, E2, E3. reflexivity.
Qed.
