(** C09 — correspondence cases, part 2: block histories through the kvmvcc
    plugin (executor.AddMVCC / DelMVCC behind mvccPlugin.ExecLocal /
    ExecDelLocal, CheckEnable) and StateDB (enableMVCC + Get).

    One case = one history of connect / disconnect / restart operations on one
    store, over the local layer [L] (false: KVDB straight over the store,
    true: executor.LocalDB over common/db LocalDB), with the StateDB steps of
    procExecAddBlock / procExecDelBlock ([sdb] = true) or the plugin calls only.
    Per operation the implementation's outcome (0 done, else the stage that
    panicked), the version enableMVCC found, the reads made inside the block,
    and afterwards one query per state hash: NewStateDB(hash, ctx height) +
    enableMVCC(nil) (0 = panic, else version + 2) + Get of every query key. *)
From Coq Require Import List NArith ZArith Bool.
From C33 Require Import Lib.Harness Lib.Bytes Lib.OMap C09.Model C09.Spec C09.ModelExec C09.SpecExec
     C09.CheckChain.
Import ListNotations.
Open Scope Z_scope.

Definition kvrec : Type := (N * option (list N))%type.        (* key index, value *)

Inductive bop :=
| BConnect (height : Z) (hash : N) (prev : N) (kvs : list kvrec)     (* prev: 0 = nil, i+1 = hash i *)
| BDisconnect (height : Z) (hash : N) (prev : N) (kvs : list kvrec)
| BRestart.

Definition qobs : Type := (N * Z * N * list N)%type.          (* hash index, ctx height, version code, reads *)
Definition opobs : Type := (N * Z * list N * list qobs)%type. (* outcome, enable version, in-block reads, queries *)

Inductive bcase :=
| BCase (L sdb : bool) (hashes keys : list (list N)) (qkeys : list N)
        (ops : list (bop * opobs)) (final_dump : N * N).

Definition nthb (tbl : list (list N)) (i : N) : list N := nth (N.to_nat i) tbl [].

Definition mk_blk (hashes keys : list (list N)) (height : Z) (hash prev : N) (kvs : list kvrec) : blk :=
  (height, nthb hashes hash,
   (if (prev =? 0)%N then None else Some (nthb hashes (prev - 1))),
   map (fun kv : kvrec => (nthb keys (fst kv), snd kv)) kvs).

Definition opt_bytes_eqb (a b : option (list N)) : bool :=
  match a, b with
  | None, None => true
  | Some x, Some y => beqb x y
  | _, _ => false
  end.

Definition vcode (r : pres Z) : N :=
  match r with Panic _ => 0%N | Done v => Z.to_N (v + 2) end.

(** * one query: model and spec *)
Definition model_query (L : bool) (d : db) (qk : list (list N)) (hash : list N) (cth : Z) : N * list N :=
  match sdb_enable L d hash cth with
  | Panic _ => (0%N, [])
  | Done v => (Z.to_N (v + 2), map (fun k => enc_res (sdb_get d [] v k)) qk)
  end.

(** spec verdict of one observed query: 0 ok, 1 wrong, 2 the state is on the
    chain but the implementation could not find its version (panic or -1) *)
Definition spec_query (c : hist) (qk : list (list N)) (hash : list N) (vc : N) (reads : list N) : N :=
  match height_of c hash with
  | None => if (vc <=? 1)%N then 0%N else 1%N
  | Some i =>
      if (vc <=? 1)%N then 2%N
      else if (vc =? Z.to_N (i + 2))%N && nl_eqb reads (map (fun k => enc_res (spec_getv c k i)) qk)
           then 0%N else 1%N
  end.

(** * the fold *)
Record bst := mkbst {
  b_st : nstate;          (* model: store + plugin flag *)
  b_chain : hist;         (* spec: the chain (by the shape of the operations alone) *)
  b_lost : list (list N); (* state hashes of removed blocks that sat on a block with the same hash *)
  b_m : bool;             (* model agrees so far *)
  b_spec : bool;          (* spec still evaluated (history node-shaped, no divergence yet) *)
  b_div : option N        (* first divergence: known-finding code *)
}.

Definition in_list (x : list N) (l : list (list N)) : bool := existsb (beqb x) l.
Definition remove_hash (x : list N) (l : list (list N)) : list (list N) :=
  filter (fun y => negb (beqb x y)) l.

(** known-finding code of an "unavailable state" divergence for state hash hs *)
Definition kf_unavailable (L : bool) (c : hist) (lost : list (list N)) (hs : list N) : N :=
  if L && match height_of c hs with Some 0 => true | _ => false end then 4%N
  else if in_list hs lost then 3%N
  else 0%N.

Definition check_queries (L : bool) (d : db) (c : hist) (lost : list (list N)) (hashes : list (list N))
           (qk : list (list N)) (spec_on : bool) (qs : list qobs) : bool * option N :=
  fold_left (fun (acc : bool * option N) (q : qobs) =>
    let '(m, dv) := acc in
    let '(hi, cth, vc, reads) := q in
    let hs := nthb hashes hi in
    let '(mvc, mreads) := model_query L d qk hs cth in
    let m' := m && (mvc =? vc)%N && nl_eqb mreads reads in
    let dv' := match dv with
               | Some _ => dv
               | None =>
                   if negb spec_on then None
                   else match spec_query c qk hs vc reads with
                        | 0%N => None
                        | 2%N => Some (kf_unavailable L c lost hs)
                        | _ => Some 0%N
                        end
               end in
    (m', dv')) qs (true, None).

Definition bstep (L sdb : bool) (hashes keys : list (list N)) (qk : list (list N))
           (s : bst) (oo : bop * opobs) : bst :=
  let '(o, (outcome, ever, inreads, qs)) := oo in
  let c := b_chain s in
  let d := fst (b_st s) in
  let spec_on := b_spec s && match b_div s with None => true | Some _ => false end in
  match o with
  | BRestart =>
      let st' := (d, 0) in
      (* like every other operation: silent while a block with an empty / nil value is on the chain *)
      let '(mq, dq) := check_queries L d c (b_lost s) hashes qk
                                     (spec_on && nonempty_values c && hist_okb c) qs in
      mkbst st' c (b_lost s) (b_m s && (outcome =? 0)%N && mq) (b_spec s)
            (match b_div s with Some x => Some x | None => dq end)
  | BConnect height hi pi kvs =>
      let b := mk_blk hashes keys height hi pi kvs in
      let '(st', mout, mver) := connect L sdb (b_st s) b in
      let m_in := if sdb && negb (mver =? -2) then map (fun k => enc_res (inblock_read d b mver k)) qk else [] in
      let m1 := (mout =? outcome)%N && (mver =? ever) && nl_eqb m_in inreads in
      (* shape *)
      let shaped := (height =? hlen c) && opt_bytes_eqb (b_prev b) (top_prev c) in
      let c' := (b_hash b, b_kvs b) :: c in
      let lost' := remove_hash (b_hash b) (b_lost s) in
      let spec_on' := spec_on && shaped && nonempty_values c' && hist_okb c' in
      let d_op :=
        if negb spec_on' then None
        else if negb (outcome =? 0)%N then
               (* the block could not be connected: only enableMVCC(prev) can be a known reason *)
               Some (if (outcome =? 1)%N then kf_unavailable L c (b_lost s) (match b_prev b with Some p => p | None => b_hash b end) else 0%N)
        else if sdb && (0 <? height) && negb (ever =? height - 1) then Some 0%N
        else if sdb && negb (nl_eqb inreads (map (fun k => enc_res (spec_inblock_read c (b_kvs b) k)) qk)) then Some 0%N
        else None in
      let d' := fst st' in
      let '(mq, dq) := check_queries L d' (if shaped then c' else c) lost' hashes qk
                                     (spec_on' && match d_op with None => true | Some _ => false end) qs in
      mkbst st' (if shaped then c' else c) lost' (b_m s && m1 && mq) (b_spec s && shaped)
            (match b_div s with Some x => Some x | None => match d_op with Some x => Some x | None => dq end end)
  | BDisconnect height hi pi kvs =>
      let b := mk_blk hashes keys height hi pi kvs in
      let '(st', mout, mver) := disconnect L sdb (b_st s) b in
      let m1 := (mout =? outcome)%N && (mver =? ever) && nl_eqb [] inreads in
      let '(shaped, c') :=
        match c with
        | (hs, _) :: older => ((height =? hlen older) && beqb (b_hash b) hs, older)
        | [] => (false, c)
        end in
      let lost' := if shaped && in_list (b_hash b) (map fst c') then b_hash b :: b_lost s else b_lost s in
      let spec_on' := spec_on && shaped && nonempty_values c && hist_okb c in
      let d_op :=
        if negb spec_on' then None
        else if negb (outcome =? 0)%N then
               Some (if (outcome =? 1)%N || (outcome =? 3)%N then kf_unavailable L c (b_lost s) (b_hash b) else 0%N)
        else if sdb && negb (ever =? height) then Some 0%N
        else None in
      let d' := fst st' in
      let '(mq, dq) := check_queries L d' (if shaped then c' else c) lost' hashes qk
                                     (spec_on' && match d_op with None => true | Some _ => false end) qs in
      mkbst st' (if shaped then c' else c) lost' (b_m s && m1 && mq) (b_spec s && shaped)
            (match b_div s with Some x => Some x | None => match d_op with Some x => Some x | None => dq end end)
  end.

Definition check_blocks (c : bcase) : verdict :=
  match c with
  | BCase L sdb hashes keys qkeys ops final_dump =>
      let qk := map (nthb keys) qkeys in
      let s := fold_left (bstep L sdb hashes keys qk) ops
                         (mkbst ([], 0) [] [] true true None) in
      let m := b_m s && keys_eqb (OMap.keys (fst (b_st s))) final_dump in
      match b_div s with
      | None => mk_verdict m true
      | Some code => (m, false, code)
      end
  end.
