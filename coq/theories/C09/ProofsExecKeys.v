(** C09 — the meta key namespace (.-mvcc-.m.<hash>, .-mvcc-.m.version.<pad>,
    .-mvcc-.m.versionkl.<pad>) and the plugin flag key: which keys can coincide. *)
From Coq Require Import String List NArith ZArith Bool Lia.
From C33 Require Import Lib.Harness Lib.Bytes Lib.OMap C09.Model C09.Spec C09.ModelExec C09.SpecExec
     C09.ProofsKeys.
Import ListNotations.
Open Scope Z_scope.

Definition S_ver : list N := Eval compute in bs "version."%string.
Definition S_kl : list N := Eval compute in bs "versionkl."%string.

Lemma P_mver_split : P_mver = P_meta ++ S_ver. Proof. reflexivity. Qed.
Lemma P_mkl_split : P_mkl = P_meta ++ S_kl. Proof. reflexivity. Qed.

Lemma ver_key_split v : ver_key v = P_meta ++ (S_ver ++ pad v).
Proof. unfold ver_key. rewrite P_mver_split, <- app_assoc. reflexivity. Qed.
Lemma kl_key_split v : kl_key v = P_meta ++ (S_kl ++ pad v).
Proof. unfold kl_key. rewrite P_mkl_split, <- app_assoc. reflexivity. Qed.

Lemma hash_safe_nonempty hs : hash_safe hs = true -> hs <> [].
Proof. destruct hs; [discriminate|]. intros _. discriminate. Qed.

Lemma hash_safe_noversion hs : hash_safe hs = true -> is_prefix P_version hs = false.
Proof. destruct hs; [reflexivity|]. unfold hash_safe. intro H. apply negb_true_iff in H. exact H. Qed.

Lemma S_ver_version s : is_prefix P_version (S_ver ++ s) = true. Proof. reflexivity. Qed.
Lemma S_kl_version s : is_prefix P_version (S_kl ++ s) = true. Proof. reflexivity. Qed.

(** a safe hash key is no version / key-list key and does not sort into the
    version listing *)
Lemma hash_key_ver_key hs v : hash_safe hs = true -> hash_key hs <> ver_key v.
Proof.
  intros S E. rewrite ver_key_split in E. unfold hash_key in E. apply app_inv_head in E.
  apply hash_safe_noversion in S. subst hs. rewrite S_ver_version in S. discriminate.
Qed.

Lemma hash_key_kl_key hs v : hash_safe hs = true -> hash_key hs <> kl_key v.
Proof.
  intros S E. rewrite kl_key_split in E. unfold hash_key in E. apply app_inv_head in E.
  apply hash_safe_noversion in S. subst hs. rewrite S_kl_version in S. discriminate.
Qed.

Lemma hash_key_not_mver hs : hash_safe hs = true -> is_prefix P_mver (hash_key hs) = false.
Proof.
  intro S. rewrite P_mver_split. unfold hash_key. rewrite is_prefix_app_l.
  destruct (is_prefix S_ver hs) eqn:E; [|reflexivity].
  apply is_prefix_iff in E as [s ->]. apply hash_safe_noversion in S.
  rewrite S_ver_version in S. discriminate.
Qed.

Lemma hash_key_inj a b : hash_key a = hash_key b -> a = b.
Proof. unfold hash_key. apply app_inv_head. Qed.

Lemma ver_key_inj n m : vok n -> vok m -> ver_key n = ver_key m -> n = m.
Proof. intros Hn Hm E. unfold ver_key in E. apply app_inv_head in E. apply pad_inj; assumption. Qed.

Lemma kl_key_inj n m : vok n -> vok m -> kl_key n = kl_key m -> n = m.
Proof. intros Hn Hm E. unfold kl_key in E. apply app_inv_head in E. apply pad_inj; assumption. Qed.

Lemma ver_key_kl_key n m : ver_key n <> kl_key m.
Proof.
  rewrite ver_key_split, kl_key_split. intro E. apply app_inv_head in E.
  unfold S_ver, S_kl in E. simpl in E. discriminate E.
Qed.

Lemma ver_key_mver n : is_prefix P_mver (ver_key n) = true.
Proof. unfold ver_key. apply is_prefix_app. Qed.

Lemma kl_key_not_mver n : is_prefix P_mver (kl_key n) = false.
Proof. reflexivity. Qed.

Lemma ver_key_le n m : vok n -> vok m -> n <= m -> bleb (ver_key n) (ver_key m) = true.
Proof.
  intros Hn Hm L. apply bleb_le. unfold ver_key. rewrite bcmp_app_l, pad_cmp by assumption.
  intro G. apply Z.compare_gt_iff in G. lia.
Qed.

Lemma mver_not_data key : is_prefix P_mver key = true -> is_prefix P_data key = false.
Proof. intro H. apply is_prefix_iff in H as [s ->]. reflexivity. Qed.

(** the flag key is outside the mvcc namespace *)
Definition is_mvcc_key (key : list N) : bool := match key with c :: _ => (c =? dot)%N | [] => false end.

Lemma flag_key_not_mvcc : is_mvcc_key flag_key = false. Proof. reflexivity. Qed.
Lemma hash_key_mvcc hs : is_mvcc_key (hash_key hs) = true. Proof. reflexivity. Qed.
Lemma ver_key_mvcc n : is_mvcc_key (ver_key n) = true. Proof. reflexivity. Qed.
Lemma kl_key_mvcc n : is_mvcc_key (kl_key n) = true. Proof. reflexivity. Qed.
Lemma gkey_mvcc k n : is_mvcc_key (gkey k n) = true. Proof. reflexivity. Qed.

Lemma data_mvcc key : is_prefix P_data key = true -> is_mvcc_key key = true.
Proof. intro H. apply is_prefix_iff in H as [s ->]. reflexivity. Qed.

Lemma mvcc_not_flag key : is_mvcc_key key = true -> key <> flag_key.
Proof. intros H E. subst. discriminate. Qed.

Lemma bytes_eqb_refl a : bytes_eqb a a = true.
Proof. apply (list_eqb_spec N.eqb N.eqb_eq). reflexivity. Qed.
