(** C09 — correspondence cases: version chains through common/db MVCC
    ([CC], CheckChain.v) and block histories through the kvmvcc plugin and
    StateDB ([CB], CheckExec.v).  Depends on the models and specs only. *)
From Coq Require Import List NArith ZArith Bool.
From C33 Require Import Lib.Harness.
From C33 Require Export C09.CheckChain C09.CheckExec.

Inductive case :=
| CC (c : chain_case)
| CB (c : bcase).

Definition check_case (c : case) : verdict :=
  match c with
  | CC x => check_chain x
  | CB x => check_blocks x
  end.
