(** C09 — abstract spec: a history is a list of versions (newest first; the
    version number of an element is the length of the tail behind it), each a
    state hash and a list of writes.  Reading key k at version v gives the value
    of the most recent write to k at a version <= v.  Executable (it is the
    violation oracle of the correspondence check). *)
From Coq Require Import List NArith ZArith Bool.
From C33 Require Import Lib.Harness Lib.Bytes Lib.OMap C09.Model.
Import ListNotations.
Open Scope Z_scope.

Definition write : Type := (list N * option (list N))%type.   (* key, value (None = nil) *)
Definition version : Type := (list N * list write)%type.      (* state hash, writes *)
Definition hist : Type := list version.                       (* newest first *)

Definition hlen (h : hist) : Z := Z.of_nat (length h).

(** the last write to k inside one version *)
Fixpoint last_write (k : list N) (ws : list write) : option (option (list N)) :=
  match ws with
  | [] => None
  | w :: tl =>
      match last_write k tl with
      | Some x => Some x
      | None => if beqb k (fst w) then Some (snd w) else None
      end
  end.

(** most recent write to k at a version <= v: (version, value) *)
Fixpoint spec_find (h : hist) (k : list N) (v : Z) : option (Z * option (list N)) :=
  match h with
  | [] => None
  | (_, ws) :: older =>
      if hlen older <=? v then
        match last_write k ws with
        | Some x => Some (hlen older, x)
        | None => spec_find older k v
        end
      else spec_find older k v
  end.

Definition spec_getv (h : hist) (k : list N) (v : Z) : res (list N) :=
  match spec_find h k v with
  | Some (_, Some b) => Ok b
  | Some (_, None) => Err ENotFound
  | None => Err ENotFound
  end.

(** version of the newest write to k *)
Definition newest (h : hist) (k : list N) : option Z :=
  option_map fst (spec_find h k (hlen h)).

(** a read of k at v must survive Trash(cut) when the write it returns is the
    key's newest one or is newer than the cut *)
Definition protected_read (h : hist) (cut : Z) (k : list N) (v : Z) : bool :=
  match spec_find h k v with
  | None => true
  | Some (w, _) => (cut <? w) || (match newest h k with Some nw => w =? nw | None => false end)
  end.

Definition keys_of (h : hist) : list (list N) :=
  flat_map (fun ver => map fst (snd ver)) h.

(** all written values are non-nil and non-empty (the property text is silent
    about empty values: the store treats them as "deleted" markers) *)
Definition nonempty_value (w : write) : bool :=
  match snd w with Some (_ :: _) => true | _ => false end.

Definition nonempty_values (h : hist) : bool :=
  forallb (fun ver => forallb nonempty_value (snd ver)) h.

(** versions fit int64 *)
Definition hist_ok (h : hist) : Prop := hlen h < two63.
Definition hist_okb (h : hist) : bool := hlen h <? two63.

(** * the guards *)
(** [ext_byte k k' = Some c] iff [k' = k ++ c :: _] *)
Fixpoint ext_byte (k k' : list N) : option N :=
  match k, k' with
  | [], c :: _ => Some c
  | x :: a, y :: b => if (x =? y)%N then ext_byte a b else None
  | _, [] => None
  end.

Definition pairwise (p : list N -> list N -> bool) (ks : list (list N)) : bool :=
  forallb (fun k => forallb (p k) ks) ks.

(** Safe1: no key is another key followed by "." ... *)
Definition safe1_pair (k k' : list N) : bool :=
  match ext_byte k k' with Some c => negb (c =? dot)%N | None => true end.
Definition Safe1 (ks : list (list N)) : bool := pairwise safe1_pair ks.

(** Safe2: no key is another key followed by a byte <= '.' ... (implies Safe1) *)
Definition safe2_pair (k k' : list N) : bool :=
  match ext_byte k k' with Some c => (dot <? c)%N | None => true end.
Definition Safe2 (ks : list (list N)) : bool := pairwise safe2_pair ks.

(** * the database a history produces (every AddMVCC result written to the store) *)
Fixpoint db_of (h : hist) : db :=
  match h with
  | [] => []
  | (hash, ws) :: older => write_all (add_kvlist ws hash (hlen older)) (db_of older)
  end.
