(** C09 — executable model of the path by which block execution uses MVCC:
    executor/plugin_kvmvcc.go (CheckEnable / ExecLocal / ExecDelLocal),
    executor/execenv.go (AddMVCC / DelMVCC: SimpleMVCC at version = block
    height, panic on error), executor/statedb.go (enableMVCC: version of a
    state hash; Get: cache, then GetV(key, version)), as coded.

    The SimpleMVCC meta reads are parameterised by the local layer [L]:
      [false] = a KVDB straight over the store (db.NewKVDB),
      [true]  = the node's layer (executor.LocalDB -> blockchain localGet ->
                common/db LocalDB.Get), which answers not-found for a stored
                value of length 0 ("isdeleted").
    List (hence GetV and GetMaxVersion's listing) skips empty values in both.
    No proofs in this file. *)
From Coq Require Import String List NArith ZArith Bool.
From C33 Require Import Lib.Harness Lib.Bytes Lib.OMap C09.Model.
Import ListNotations.
Open Scope Z_scope.

Definition lget (L : bool) (key : list N) (d : db) : option val :=
  match get key d with
  | Some v => if L && val_empty v then None else Some v
  | None => None
  end.

(** * SimpleMVCC meta reads over the layer *)
Definition get_version_l (L : bool) (d : db) (h : list N) : res Z :=
  match lget L (hash_key h) d with
  | None => Err ENotFound
  | Some (VVer z) => if z <? 0 then Err EVersion else Ok z
  | Some _ => Err EOther
  end.

Definition get_version_hash_l (L : bool) (d : db) (v : Z) : res (list N) :=
  match lget L (ver_key v) d with
  | None => Err ENotFound
  | Some (VRaw h) => Ok h
  | Some _ => Err EOther
  end.

Definition get_max_version_l (L : bool) (d : db) : res Z :=
  match last (filter (fun e => is_prefix P_mver (fst e) && negb (val_empty (snd e))) d) with
  | None => Err ENotFound
  | Some (_, VRaw h) => get_version_l L d h
  | Some _ => Err EOther
  end.

Definition get_del_kvlist_l (L : bool) (d : db) (v : Z) : res (list (list N)) :=
  match lget L (kl_key v) d with
  | None => Err ENotFound
  | Some (VKeys ks) => Ok ks
  | Some _ => Err EOther
  end.

Definition add_mvcc_l (L : bool) (d : db) (kvs : list (list N * option (list N))) (h : list N)
           (prev : option (list N)) (v : Z) : res (list kvw) :=
  let chain :=
    if 0 <? v then
      match prev with
      | None => Err EPrevVersion
      | Some p =>
          match get_version_hash_l L d (v - 1) with
          | Err e => Err e
          | Ok vh => if bytes_eqb vh p then Ok tt else Err EPrevVersion
          end
      end
    else Ok tt in
  match chain with
  | Err e => Err e
  | Ok _ => if v <? 0 then Err EVersion else Ok (add_kvlist kvs h v)
  end.

Definition del_mvcc_l (L : bool) (d : db) (h : list N) (v : Z) : res (list kvw) :=
  match get_del_kvlist_l L d v with
  | Err e => Err e
  | Ok ks =>
      match get_max_version_l L d with
      | Err e => Err e
      | Ok mv =>
          if mv =? v then
            match get_version_l L d h with
            | Err e => Err e
            | Ok vdb => if vdb =? v then (if v <? 0 then Err EVersion else Ok (del_kvlist ks h v))
                        else Err EVersion
            end
          else Err EOnlyTop
      end
  end.

(** * results that may be a Go panic; the number is the stage of the block
      procedure that panicked: 1 StateDB.enableMVCC, 2 plugin CheckEnable,
      3 executor.AddMVCC / executor.DelMVCC *)
Inductive pres (A : Type) := Done (a : A) | Panic (stage : N).
Arguments Done {A} a.
Arguments Panic {A} stage.

(** a block as the plugin sees it: Block.Height, Block.StateHash,
    BlockDetail.PrevStatusHash (None = nil), BlockDetail.KV *)
Definition blk : Type := (Z * list N * option (list N) * list (list N * option (list N)))%type.
Definition b_height (b : blk) : Z := fst (fst (fst b)).
Definition b_hash (b : blk) : list N := snd (fst (fst b)).
Definition b_prev (b : blk) : option (list N) := snd (fst b).
Definition b_kvs (b : blk) : list (list N * option (list N)) := snd b.

(** execenv.go AddMVCC / DelMVCC (strict) *)
Definition exec_add (L : bool) (d : db) (b : blk) : pres (list kvw) :=
  match add_mvcc_l L d (b_kvs b) (b_hash b) (b_prev b) (b_height b) with
  | Ok l => Done l
  | Err _ => Panic 3
  end.

Definition exec_del (L : bool) (d : db) (b : blk) : pres (list kvw) :=
  match del_mvcc_l L d (b_hash b) (b_height b) with
  | Ok l => Done l
  | Err _ => Panic 3
  end.

(** * plugin.go checkFlag as used by mvccPlugin.CheckEnable (enable = true) *)
Definition flag_key : list N := Eval compute in bs "FLAG:keyMVCCFlag"%string.

Definition load_flag (L : bool) (d : db) : res Z :=
  match lget L flag_key d with
  | None => Ok 0
  | Some (VVer z) => Ok z
  | Some _ => Err EOther
  end.

(** result: new cached flag, kvs *)
Definition check_enable (L : bool) (d : db) (flag : Z) (height : Z) : pres (Z * list kvw) :=
  match (if flag =? 0 then load_flag L d else Ok flag) with
  | Err _ => Panic 2
  | Ok f1 =>
      if negb (height =? 0) && (f1 =? 0) then Panic 2
      else if height =? 0 then Done (1, [(flag_key, Some (VVer 1))])
      else Done (f1, [])
  end.

(** * StateDB *)
(** enableMVCC(hash) with opt.EnableMVCC = true: the version, -1 = not in use *)
Definition sdb_enable (L : bool) (d : db) (hash : list N) (height : Z) : pres Z :=
  match get_version_l L d hash with
  | Ok v => Done v
  | Err _ => if 0 <? height then Panic 1 else Done (-1)
  end.

(** the cache after Set of a kv list in order: the last Set of a key decides *)
Fixpoint cache_get (k : list N) (c : list (list N * option (list N))) : option (option (list N)) :=
  match c with
  | [] => None
  | w :: tl =>
      match cache_get k tl with
      | Some x => Some x
      | None => if beqb k (fst w) then Some (snd w) else None
      end
  end.

(** Get: cache (a nil value is "exists, not found"), then GetV at the version;
    without a version the store is asked (client = nil in the harness: not-found) *)
Definition sdb_get (d : db) (c : list (list N * option (list N))) (version : Z) (k : list N) : res (list N) :=
  match cache_get k c with
  | Some (Some b) => Ok b
  | Some None => Err ENotFound
  | None => if 0 <=? version then getv d k version else Err ENotFound
  end.

(** a read of key k at the state [hash], in the context of height [height]:
    NewStateDB(hash, Height) + enableMVCC(nil) + Get *)
Definition sdb_read (L : bool) (d : db) (hash : list N) (height : Z) (k : list N) : pres (Z * res (list N)) :=
  match sdb_enable L d hash height with
  | Panic s => Panic s
  | Done v => Done (v, sdb_get d [] v k)
  end.

(** * the block procedures (executor.go procExecAddBlock / procExecDelBlock,
      mvcc part); node state = store + the plugin's cached flag.
      [sdb = false]: plugin calls only (no StateDB). *)
Definition nstate : Type := (db * Z)%type.

(** outcome: 0 done, else the panic stage; version seen by enableMVCC (-2 none) *)
Definition connect (L sdb : bool) (st : nstate) (b : blk) : nstate * N * Z :=
  let '(d, flag) := st in
  let en := if sdb then sdb_enable L d (match b_prev b with Some p => p | None => b_hash b end) (b_height b)
            else Done (-2) in
  match en with
  | Panic s => (st, s, -2)
  | Done ver =>
      match check_enable L d flag (b_height b) with
      | Panic s => (st, s, ver)
      | Done (flag', fkv) =>
          match exec_add L d b with
          | Panic s => ((d, flag'), s, ver)
          | Done kvs => ((write_all (fkv ++ kvs) d, flag'), 0%N, ver)
          end
      end
  end.

Definition disconnect (L sdb : bool) (st : nstate) (b : blk) : nstate * N * Z :=
  let '(d, flag) := st in
  let en := if sdb then sdb_enable L d (b_hash b) (b_height b) else Done (-2) in
  match en with
  | Panic s => (st, s, -2)
  | Done ver =>
      match check_enable L d flag (b_height b) with
      | Panic s => (st, s, ver)
      | Done (flag', fkv) =>
          match exec_del L d b with
          | Panic s => ((d, flag'), s, ver)
          | Done kvs => ((write_all (fkv ++ kvs) d, flag'), 0%N, ver)
          end
      end
  end.

(** reads inside procExecAddBlock: the block's KV set is Set into the state db
    (after enableMVCC(prev)), then Get *)
Definition inblock_read (d : db) (b : blk) (ver : Z) (k : list N) : res (list N) :=
  sdb_get d (b_kvs b) ver k.

(** * node-shaped histories: heights, previous hashes and the block removed
      are determined by the chain (newest first: state hash, KV set) *)
Inductive sop :=
| SConnect (hash : list N) (ws : list (list N * option (list N)))
| SDisconnect
| SRestart.                     (* new process: the plugin's flag cache is empty *)

Definition chain : Type := list (list N * list (list N * option (list N))).

Definition top_prev (c : chain) : option (list N) :=
  match c with [] => None | (p, _) :: _ => Some p end.

Definition clen (c : chain) : Z := Z.of_nat (length c).

Definition sstate : Type := (nstate * chain)%type.

Definition sstep (L sdb : bool) (s : sstate) (o : sop) : pres sstate :=
  let '(st, c) := s in
  match o with
  | SConnect hash ws =>
      match connect L sdb st (clen c, hash, top_prev c, ws) with
      | (st', 0%N, _) => Done (st', (hash, ws) :: c)
      | (_, stage, _) => Panic stage
      end
  | SDisconnect =>
      match c with
      | [] => Done s
      | (hash, ws) :: older =>
          match disconnect L sdb st (clen older, hash, top_prev older, ws) with
          | (st', 0%N, _) => Done (st', older)
          | (_, stage, _) => Panic stage
          end
      end
  | SRestart => Done ((fst st, 0), c)
  end.

Fixpoint srun (L sdb : bool) (s : sstate) (ops : list sop) : pres sstate :=
  match ops with
  | [] => Done s
  | o :: tl => match sstep L sdb s o with
               | Done s' => srun L sdb s' tl
               | Panic stage => Panic stage
               end
  end.

Definition sinit : sstate := (([], 0), []).
