(** C09 — correspondence cases, part 1: version chains through common/db MVCC.  One case = one version chain with everything
    the Go implementation answered:
      adds (AddMVCC results, written to the store when ok) ->
      store key dump -> reads of every query key at every query version ->
      for every cut: Trash(cut) on a copy, entry count, all reads again ->
      DelMVCC(top, strict) on a copy, key dump, all reads again ->
      DelMVCC(top-1, strict) result, MVCCIter results.
    Read results are encoded as one number ([enc_res]). *)
From Coq Require Import List NArith ZArith Bool.
From C33 Require Import Lib.Harness Lib.Bytes Lib.OMap C09.Model C09.Spec.
Import ListNotations.
Open Scope Z_scope.

Definition err_code (e : err) : N :=
  match e with ENotFound => 1 | EVersion => 2 | EPrevVersion => 3 | EOnlyTop => 4 | EOther => 9 end%N.

(** ok value b -> 10 + number with base-256 digits (length b :: b) *)
Definition enc_bytes (b : list N) : N :=
  (10 + fold_left (fun acc c => acc * 256 + c) (N.of_nat (length b) :: b) 0)%N.

Definition enc_res (r : res (list N)) : N :=
  match r with Ok b => enc_bytes b | Err e => err_code e end.

Definition res_code {A} (r : res A) : N :=
  match r with Ok _ => 0%N | Err e => err_code e end.

Definition add_rec : Type := (list N * option (list N) * Z * list write)%type.

Inductive chain_case :=
| CChain
    (adds : list add_rec)            (* hash, prevHash, version, writes — execution order *)
    (add_res : list N)               (* 0 = ok, else error class *)
    (dump0 : N * N)                  (* number of keys in the store after the adds, checksum of the ascending key list *)
    (qkeys : list (list N)) (qvers : list Z)
    (reads0 : list N)                (* GetV qkey qver, row-major *)
    (trashes : list (Z * (N * list N)))   (* cut, (entries left in the store, reads) *)
    (del_res : N) (dump_del : N * N) (reads_del : list N)
    (del2_res : N)
    (iter_del_res : N) (iter_list0 iter_list_del : list (list N * list N)).

(** * running the model *)
Definition run_adds (iter : bool) (adds : list add_rec) : db * hist * list N :=
  fold_left (fun (st : db * hist * list N) (a : add_rec) =>
    let '(d, h, rs) := st in
    let '(hash, prev, v, ws) := a in
    match (if iter then iter_add_mvcc d ws hash prev v else add_mvcc d ws hash prev v) with
    | Ok l => (write_all l d, (hash, ws) :: h, rs ++ [0%N])
    | Err e => (d, h, rs ++ [err_code e])
    end) adds ([], [], []).

Definition all_reads (f : list N -> Z -> res (list N)) (qkeys : list (list N)) (qvers : list Z) : list N :=
  flat_map (fun k => map (fun v => enc_res (f k v)) qvers) qkeys.

Definition top_hash (h : hist) : list N := match h with (x, _) :: _ => x | [] => [] end.
Definition second_hash (h : hist) : list N := match h with _ :: (x, _) :: _ => x | _ => [] end.

Definition nl_eqb := list_eqb N.eqb.

(** digest of an ascending key list: (length, polynomial checksum mod 2^32-5);
    the harness computes the same over the keys the store iterator returns *)
Definition csum_mod : N := 4294967291%N.
Definition key_sum (k : list N) : N :=
  fold_left (fun a c => ((a * 257 + c + 1) mod csum_mod)%N) k 7%N.
Definition keys_sum (ks : list (list N)) : N * N :=
  (N.of_nat (length ks), fold_left (fun h k => ((h * 1000003 + key_sum k) mod csum_mod)%N) ks 0%N).
Definition keys_eqb (ks : list (list N)) (d : N * N) : bool :=
  let s := keys_sum ks in (fst s =? fst d)%N && (snd s =? snd d)%N.

Definition val_obs (v : val) : list N := match v with VRaw b => b | _ => [255%N] end.

(** * first divergence between the implementation and the spec *)
(** phase: 0 plain read, 1 read after Trash, 2 read after DelMVCC *)
Fixpoint first_div (l1 l2 : list N) (i : nat) : option nat :=
  match l1, l2 with
  | a :: t1, b :: t2 => if (a =? b)%N then first_div t1 t2 (S i) else Some i
  | [], [] => None
  | _, _ => Some i
  end.

Definition key_at (qkeys : list (list N)) (nv : nat) (i : nat) : list N :=
  nth (Nat.div i nv) qkeys [].

(** all values written to key k' at versions <= v (any version when v is None) *)
Definition written_values (h : hist) (k' : list N) : list (list N) :=
  flat_map (fun ver => flat_map (fun w => if beqb k' (fst w) then match snd w with Some b => [b] | None => [] end else [])
                                (snd ver)) h.

(** finding 1 (version-suffix ambiguity), read form: the store holds a key
    k' = k ++ "." ++ ..., and GetV(k, v) answered with a value written to such a
    k' or with ErrVersion (the entry found belongs to k' at a later version) *)
Definition kf1_read (h : hist) (k : list N) (impl : N) : bool :=
  existsb (fun k' =>
      match ext_byte k k' with
      | Some c => (c =? dot)%N &&
                  ((impl =? err_code EVersion)%N ||
                   existsb (fun b => (impl =? enc_bytes b)%N) (written_values h k'))
      | None => false
      end) (keys_of h).

(** finding 1, Trash form / finding 2: the protected read of k answers not-found
    after Trash and k = k0 ++ c :: ... for a written key k0 with c = '.' (1) or c < '.' (2) *)
Definition kf_trash (h : hist) (k : list N) (impl : N) : N :=
  if negb (impl =? err_code ENotFound)%N then 0%N
  else if existsb (fun k0 => match ext_byte k0 k with Some c => (c <? dot)%N | None => false end) (keys_of h)
       then 2%N
  else if existsb (fun k0 => match ext_byte k0 k with Some c => (c =? dot)%N | None => false end) (keys_of h)
       then 1%N
  else 0%N.

(** spec side of the reads after Trash(cut): only protected reads are demanded *)
Definition trash_spec_reads (h : hist) (cut : Z) (qkeys : list (list N)) (qvers : list Z) (impl : list N) : list N :=
  let want := flat_map (fun k => map (fun v => if protected_read h cut k v then Some (enc_res (spec_getv h k v)) else None) qvers) qkeys in
  (fix go (w : list (option N)) (i : list N) : list N :=
     match w, i with
     | Some x :: w', _ :: i' => x :: go w' i'
     | None :: w', y :: i' => y :: go w' i'
     | _, _ => []
     end) want impl.

Definition check_chain (c : chain_case) : verdict :=
  match c with
  | CChain adds add_res dump0 qkeys qvers reads0 trashes del_res dump_del reads_del del2_res
           iter_del_res iter_list0 iter_list_del =>
      let '(d, h, rs) := run_adds false adds in
      let n := hlen h in
      (* ---- model side *)
      let m_adds := nl_eqb rs add_res in
      let m_dump0 := keys_eqb (keys d) dump0 in
      let m_reads0 := nl_eqb (all_reads (getv d) qkeys qvers) reads0 in
      let m_trash := forallb (fun t : Z * (N * list N) =>
                       let '(cut, (cnt, rds)) := t in
                       let d' := trash d cut in
                       (N.of_nat (length d') =? cnt)%N && nl_eqb (all_reads (getv d') qkeys qvers) rds) trashes in
      let dres := del_mvcc d (top_hash h) (n - 1) true in
      let d_del := match dres with Ok l => write_all l d | Err _ => d end in
      let m_del := (res_code dres =? del_res)%N && keys_eqb (keys d_del) dump_del
                   && nl_eqb (all_reads (getv d_del) qkeys qvers) reads_del in
      let m_del2 := (res_code (del_mvcc d (second_hash h) (n - 2) true) =? del2_res)%N in
      (* MVCCIter *)
      let '(di, _, rsi) := run_adds true adds in
      let ires := iter_del_mvcc di (top_hash h) (n - 1) true in
      let di_del := match ires with Ok l => write_all l di | Err _ => di end in
      let pair_eqb (a b : list N * list N) := bytes_eqb (fst a) (fst b) && bytes_eqb (snd a) (snd b) in
      let obs_list (x : db) := map (fun e => (fst e, val_obs (snd e))) (iter_list x) in
      let m_iter := nl_eqb rsi add_res && (res_code ires =? iter_del_res)%N
                    && list_eqb pair_eqb (obs_list di) iter_list0
                    && list_eqb pair_eqb (obs_list di_del) iter_list_del in
      let m := m_adds && m_dump0 && m_reads0 && m_trash && m_del && m_del2 && m_iter in
      (* ---- spec side (silent when empty / nil values were written) *)
      if negb (nonempty_values h && hist_okb h) then mk_verdict m true
      else
        let nv := length qvers in
        let s_reads0 := all_reads (spec_getv h) qkeys qvers in
        match first_div s_reads0 reads0 O with
        | Some i =>
            let k := key_at qkeys nv i in
            (m, false, if kf1_read h k (nth i reads0 0%N) then 1%N else 0%N)
        | None =>
            (* Trash: first cut with a divergence on a protected read *)
            let tr := fold_left (fun (acc : option N) (t : Z * (N * list N)) =>
                        match acc with
                        | Some _ => acc
                        | None =>
                            let '(cut, (_, rds)) := t in
                            match first_div (trash_spec_reads h cut qkeys qvers rds) rds O with
                            | None => None
                            | Some i => Some (kf_trash h (key_at qkeys nv i) (nth i rds 0%N))
                            end
                        end) trashes None in
            match tr with
            | Some code => (m, false, code)
            | None =>
                (* DelMVCC of the top version: succeeds and restores every read *)
                match h with
                | [] => mk_verdict m true
                | _ :: older =>
                    let s_del := all_reads (spec_getv older) qkeys qvers in
                    if negb (del_res =? 0)%N then (m, false, 0%N)
                    else match first_div s_del reads_del O with
                         | None => mk_verdict m true
                         | Some i => (m, false, if kf1_read older (key_at qkeys nv i) (nth i reads_del 0%N) then 1%N else 0%N)
                         end
                end
            end
        end
  end.
