(** C09 — executable model of chain33 common/db/mvcc.go (+ the list-helper path
    GetV uses, + MVCCIter's last-key maintenance), as coded, over an ordered
    byte-string map ([Lib.OMap]) standing for the underlying key/value store.

    Values are tagged: [VRaw b] raw bytes (data values, version->hash),
    [VVer z] = types.Encode(&types.Int64{Data: z}), [VKeys ks] =
    types.Encode(&types.LocalDBSet{KV: [{Key: k} | k in ks]}); the protobuf
    encoding itself is not modelled (only its emptiness: Int64{0} and an empty
    set encode to zero bytes).  No proofs in this file. *)
From Coq Require Import String List NArith ZArith Bool.
From C33 Require Import Lib.Harness Lib.Bytes Lib.OMap.
Import ListNotations.
Open Scope Z_scope.

Inductive val :=
| VRaw (b : list N)
| VVer (z : Z)
| VKeys (ks : list (list N)).

Definition val_empty (v : val) : bool :=
  match v with
  | VRaw [] => true
  | VVer 0 => true
  | VKeys [] => true
  | _ => false
  end.

(** error classes (the harness maps Go errors to the same numbers) *)
Inductive err := ENotFound | EVersion | EPrevVersion | EOnlyTop | EOther.

Inductive res (A : Type) := Ok (a : A) | Err (e : err).
Arguments Ok {A} a.
Arguments Err {A} e.

Definition db := omap val.

(** * key encodings *)
Definition dot : N := 46%N.
Definition P_meta : list N := Eval compute in bs ".-mvcc-.m."%string.
Definition P_data : list N := Eval compute in bs ".-mvcc-.d."%string.
Definition P_last : list N := Eval compute in bs ".-mvcc-.l."%string.
Definition P_mver : list N := Eval compute in bs ".-mvcc-.m.version."%string.
Definition P_mkl : list N := Eval compute in bs ".-mvcc-.m.versionkl."%string.
Definition sentinel : list N := Eval compute in bs "--.xxx.--"%string.

(** 20 decimal digits, most significant first *)
Fixpoint pad_aux (i : nat) (n : Z) : list N :=
  match i with
  | O => []
  | S j => pad_aux j (n / 10) ++ [Z.to_N (48 + n mod 10)]
  end.

(** strconv.FormatInt of a positive number (fuel 20 covers int64) *)
Fixpoint dec_aux (fuel : nat) (n : Z) : list N :=
  match fuel with
  | O => []
  | S f => if n <? 10 then [Z.to_N (48 + n)]
           else dec_aux f (n / 10) ++ [Z.to_N (48 + n mod 10)]
  end.

(** [pad]: "00000000000000000000" overwritten at the right by FormatInt(version);
    for a negative version the minus sign lands inside the zeros. *)
Definition pad (n : Z) : list N :=
  if n <? 0 then
    let s := 45%N :: dec_aux 20 (- n) in
    repeat 48%N (20 - length s) ++ s
  else pad_aux 20 n.

Definition gprefix (k : list N) : list N := P_data ++ k ++ [dot].          (* GetKeyPerfix *)
Definition gkey (k : list N) (v : Z) : list N := P_data ++ k ++ dot :: pad v. (* GetKey *)
Definition last_key (k : list N) : list N := P_last ++ k.                   (* getLastKey *)
Definition hash_key (h : list N) : list N := P_meta ++ h.                   (* getVersionHashKey *)
Definition ver_key (v : Z) : list N := P_mver ++ pad v.                     (* getVersionKey *)
Definition kl_key (v : Z) : list N := P_mkl ++ pad v.                       (* getVersionKeyListKey *)

(** getVersionString / cutVersion: split at the last '.' *)
Fixpoint after_last_dot (key : list N) : option (list N) :=
  match key with
  | [] => None
  | c :: tl =>
      match after_last_dot tl with
      | Some s => Some s
      | None => if (c =? dot)%N then Some tl else None
      end
  end.

(** cutVersion: make([]byte, i); copy(d, key[0:i+1]) keeps key[0:i] — the dot is dropped *)
Fixpoint before_last_dot (key : list N) : option (list N) :=
  match key with
  | [] => None
  | c :: tl =>
      match before_last_dot tl with
      | Some s => Some (c :: s)
      | None => if (c =? dot)%N then Some [] else None
      end
  end.

(** strconv.ParseInt(s, 10, 64) *)
Fixpoint parse_digits (s : list N) (acc : Z) : option Z :=
  match s with
  | [] => Some acc
  | c :: tl => if ((48 <=? c) && (c <=? 57))%N then parse_digits tl (10 * acc + (Z.of_N c - 48))
               else None
  end.

Definition two63 : Z := 9223372036854775808.

Definition parse_int (s : list N) : option Z :=
  match s with
  | [] => None
  | c :: tl =>
      let '(neg, ds) := if (c =? 45)%N then (true, tl) else if (c =? 43)%N then (false, tl) else (false, s) in
      match ds with
      | [] => None
      | _ => match parse_digits ds 0 with
             | None => None
             | Some z => if neg then (if z <=? two63 then Some (- z) else None)
                         else (if z <? two63 then Some z else None)
             end
      end
  end.

(** getVersion(key) *)
Definition key_version (key : list N) : res Z :=
  match after_last_dot key with
  | None => Err EVersion
  | Some s => match parse_int s with None => Err EOther | Some z => Ok z end
  end.

(** * the store writer: a KeyValue with nil value deletes, anything else (also
      an empty non-nil value) is stored — blockchain/blockstore.go AddTxs/DelTxs *)
Definition kvw : Type := (list N * option val)%type.

Definition write_kv (d : db) (kv : kvw) : db :=
  match snd kv with
  | None => del (fst kv) d
  | Some v => put (fst kv) v d
  end.

Definition write_all (kvs : list kvw) (d : db) : db := fold_left write_kv kvs d.

(** * meta *)
Definition get_version (d : db) (h : list N) : res Z :=
  match get (hash_key h) d with
  | None => Err ENotFound
  | Some (VVer z) => if z <? 0 then Err EVersion else Ok z
  | Some _ => Err EOther
  end.

Definition get_version_hash (d : db) (v : Z) : res (list N) :=
  match get (ver_key v) d with
  | None => Err ENotFound
  | Some (VRaw h) => Ok h
  | Some _ => Err EOther
  end.

(** kvdb.List(mvccMetaVersion, nil, 1, ListDESC): last non-empty value under the prefix *)
Definition get_max_version (d : db) : res Z :=
  match last (filter (fun e => is_prefix P_mver (fst e) && negb (val_empty (snd e))) d) with
  | None => Err ENotFound
  | Some (_, VRaw h) => get_version d h
  | Some _ => Err EOther
  end.

Definition set_version_kv (h : list N) (v : Z) : res (list kvw) :=
  if v <? 0 then Err EVersion
  else Ok [(hash_key h, Some (VVer v)); (ver_key v, Some (VRaw h))].

(** * GetV: reverse seek to the greatest entry <= GetKey(key,version) inside the
      prefix range, skipping empty values (ListHelper.nextKeyValue) *)
Definition getv_hit (prefix search : list N) (e : list N * val) : bool :=
  is_prefix prefix (fst e) && bleb (fst e) search && negb (val_empty (snd e)).

Definition val_bytes (v : val) : list N :=
  match v with VRaw b => b | _ => [] end.

Definition getv (d : db) (k : list N) (ver : Z) : res (list N) :=
  let prefix := gprefix k in          (* GetKeyPerfix(key) *)
  let search := gkey k ver in         (* GetKey(key, version) *)
  match last (filter (getv_hit prefix search) d) with
  | None => Err ENotFound
  | Some (key, v) =>
      match key_version key with
      | Err e => Err e
      | Ok z => if ver <? z then Err EVersion else Ok (val_bytes v)
      end
  end.

(** * AddMVCC / DelMVCC *)
Definition data_kvs (kvs : list (list N * option (list N))) (v : Z) : list kvw :=
  map (fun kv => (gkey (fst kv) v, option_map VRaw (snd kv))) kvs.

Definition add_kvlist (kvs : list (list N * option (list N))) (h : list N) (v : Z) : list kvw :=
  [(hash_key h, Some (VVer v)); (ver_key v, Some (VRaw h))]
  ++ data_kvs kvs v ++ [(kl_key v, Some (VKeys (map fst kvs)))].

Definition add_mvcc (d : db) (kvs : list (list N * option (list N))) (h : list N)
           (prev : option (list N)) (v : Z) : res (list kvw) :=
  let chain :=
    if 0 <? v then
      match prev with
      | None => Err EPrevVersion
      | Some p =>
          match get_version_hash d (v - 1) with
          | Err e => Err e
          | Ok vh => if bytes_eqb vh p then Ok tt else Err EPrevVersion
          end
      end
    else Ok tt in
  match chain with
  | Err e => Err e
  | Ok _ => if v <? 0 then Err EVersion else Ok (add_kvlist kvs h v)
  end.

Definition get_del_kvlist (d : db) (v : Z) : res (list (list N)) :=
  match get (kl_key v) d with
  | None => Err ENotFound
  | Some (VKeys ks) => Ok ks
  | Some _ => Err EOther
  end.

Definition del_kvlist (ks : list (list N)) (h : list N) (v : Z) : list kvw :=
  [(hash_key h, None); (ver_key v, None)] ++ map (fun k => (gkey k v, None)) ks.

Definition del_mvcc_inner (d : db) (ks : list (list N)) (h : list N) (v : Z) (strict : bool)
  : res (list kvw) :=
  let top :=
    if strict then
      match get_max_version d with
      | Err e => Err e
      | Ok mv => if mv =? v then Ok tt else Err EOnlyTop
      end
    else Ok tt in
  match top with
  | Err e => Err e
  | Ok _ =>
      match get_version d h with
      | Err e => Err e
      | Ok vdb => if vdb =? v then (if v <? 0 then Err EVersion else Ok (del_kvlist ks h v))
                  else Err EVersion
      end
  end.

Definition del_mvcc (d : db) (h : list N) (v : Z) (strict : bool) : res (list kvw) :=
  match get_del_kvlist d v with
  | Err e => Err e
  | Ok ks => del_mvcc_inner d ks h v strict
  end.

(** * MVCCIter: last-value keys *)
Definition iter_add_mvcc (d : db) (kvs : list (list N * option (list N))) (h : list N)
           (prev : option (list N)) (v : Z) : res (list kvw) :=
  match add_mvcc d kvs h prev v with
  | Err e => Err e
  | Ok l => Ok (l ++ map (fun kv => (last_key (fst kv), option_map VRaw (snd kv))) kvs)
  end.

Fixpoint iter_del_last (d : db) (ks : list (list N)) (v : Z) : res (list kvw) :=
  match ks with
  | [] => Ok []
  | k :: tl =>
      if 0 <? v then
        match getv d k (v - 1) with
        | Err ENotFound =>
            match iter_del_last d tl v with Err e => Err e | Ok l => Ok ((last_key k, None) :: l) end
        | Err e => Err e
        | Ok b =>
            match iter_del_last d tl v with Err e => Err e | Ok l => Ok ((last_key k, Some (VRaw b)) :: l) end
        end
      else iter_del_last d tl v
  end.

Definition iter_del_mvcc (d : db) (h : list N) (v : Z) (strict : bool) : res (list kvw) :=
  match get_del_kvlist d v with
  | Err e => Err e
  | Ok ks =>
      match del_mvcc_inner d ks h v strict with
      | Err e => Err e
      | Ok l => match iter_del_last d ks v with Err e => Err e | Ok l2 => Ok (l ++ l2) end
      end
  end.

(** MVCCIter.Iterator(nil, nil, false): every last-key entry, prefix stripped *)
Definition iter_list (d : db) : list (list N * val) :=
  map (fun e => (skipn (length P_last) (fst e), snd e))
      (filter (fun e => is_prefix P_last (fst e)) d).

(** * Trash: reverse iteration over the data prefix (fold_right over the
      ascending entry list visits the greatest key first); state = the current
      "perfixkey" and the keys deleted so far.  The iterator works on a
      snapshot, so deletions do not influence the walk. *)
Definition trash_step (cut : Z) (e : list N * val) (st : list N * list (list N))
  : list N * list (list N) :=
  let '(pk, dels) := st in
  let key := fst e in
  if negb (is_prefix pk key) then
    (match before_last_dot key with Some p => p | None => sentinel end, dels)
  else
    match key_version key with
    | Err _ => (pk, dels)
    | Ok v => if v <=? cut then (pk, key :: dels) else (pk, dels)
    end.

Definition trash_dels (d : db) (cut : Z) : list (list N) :=
  snd (fold_right (trash_step cut) (sentinel, []) (filter (fun e => is_prefix P_data (fst e)) d)).

Definition trash (d : db) (cut : Z) : db :=
  fold_left (fun m k => del k m) (trash_dels d cut) d.

(** * SetV / DelV *)
Definition setv (d : db) (k : list N) (value : list N) (v : Z) : db := put (gkey k v) (VRaw value) d.
Definition delv (d : db) (k : list N) (v : Z) : db := del (gkey k v) d.
