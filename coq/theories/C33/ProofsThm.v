(** C33 — the statements behind Properties.v: characterisation of every crash,
    well-formed blocks never panic, refutation witnesses, non-vacuity examples. *)
From Coq Require Import List ZArith NArith Bool Lia.
From C33 Require Import C33.Model C33.ProofsBase C33.ProofsMain C33.ProofsStep.
Import ListNotations.
Open Scope Z_scope.

Lemma run_app : forall c pre post st p,
  run c st p (pre ++ post) =
  match run c st p pre with Some (s, q) => run c s q post | None => None end.
Proof.
  induction pre as [|ev pre IH]; intros post st p; simpl; [reflexivity|].
  destruct (step c st p ev); [apply IH|reflexivity].
Qed.

Lemma run_none_split : forall c evs st p,
  run c st p evs = None ->
  exists pre ev post st1 p1 w,
    evs = pre ++ ev :: post /\ run c st p pre = Some (st1, p1) /\ step c st1 p1 ev = Crashed w.
Proof.
  induction evs as [|ev evs IH]; intros st p H; simpl in H; [discriminate|].
  destruct (step c st p ev) as [s1 p1 e1|w] eqn:E.
  - destruct (IH _ _ H) as [pre [ev0 [post [s2 [p2 [w [A [B C]]]]]]]].
    exists (ev :: pre), ev0, post, s2, p2, w. split; [simpl; congruence|].
    split; [simpl; rewrite E; exact B|exact C].
  - exists [], ev, evs, st, p, w. auto.
Qed.

(** the two ways a step can kill the process *)
Definition group_overrun_in_loop (c : config) (st : state) (p : pool) (ev : event) : Prop :=
  exists now, ev = ETick now /\ step c st p ev = Crashed W_GROUP.
Definition oom_on_arrival (c : config) (st : state) (p : pool) (ev : event) : Prop :=
  under_recover ev = true /\ mem_ok c ev = false /\ step c st p ev = Crashed 0%N.
Definition nil_validator_in_loop (c : config) (st : state) (p : pool) (ev : event) : Prop :=
  exists now, ev = ETick now /\ c_noval c = true /\ step c st p ev = Crashed W_NILVAL.

Lemma step_crash_kind : forall c st p ev w,
  pend_inv QTrue st -> step c st p ev = Crashed w ->
  group_overrun_in_loop c st p ev \/ oom_on_arrival c st p ev \/ nil_validator_in_loop c st p ev.
Proof.
  intros c st p ev w I H. destruct ev; simpl in H.
  - right. left. unfold recv_lt_raw in H. destruct (mem_n (lt_hash lb) (st_filter st)) eqn:Em; [discriminate|].
    match type of H with context [add_lt ?a ?b ?c0 ?d ?e ?f ?g] => destruct (add_lt a b c0 d e f g) as [[s e0]| |] eqn:E end; try discriminate.
    apply add_lt_fatal in E as E'. destruct E' as [h [Eh R]].
    split; [reflexivity|]. split.
    + simpl. rewrite Eh. apply negb_false_iff, andb_true_iff. split; [apply Z.ltb_lt|apply Z.leb_le]; lia.
    + simpl. unfold recv_lt_raw. rewrite Em, E. reflexivity.
  - unfold tick_raw in H. pose proof (scan_not_fatal (c_noval c) p now (c_timeout c) (st_pend st)) as NF.
    destruct (scan (c_noval c) p now (c_timeout c) (st_pend st)) as [[[k t] e0]| |] eqn:Es; try discriminate; [|congruence].
    assert (K : why = W_GROUP \/ (c_noval c = true /\ why = W_NILVAL)).
    { eapply scan_panic_kind; [|exact Es]. eapply Forall_impl; [|exact I]. intros a [A _]; exact A. }
    destruct K as [->|[NV ->]].
    + left. exists now. split; [reflexivity|]. simpl. unfold tick_raw. rewrite Es. reflexivity.
    + right. right. exists now. split; [reflexivity|]. split; [exact NV|]. simpl. unfold tick_raw. rewrite Es. reflexivity.
  - discriminate.
  - discriminate.
  - destruct decodes; [destruct (add_req c st from height)|]; discriminate.
  - destruct (decodes && hasmsg); discriminate.
  - discriminate.
  - destruct (req_scan c st (st_reqs st)); discriminate.
Qed.

Lemma crash_characterisation : forall c p0 evs,
  run c init p0 evs = None ->
  exists pre ev post st p,
    evs = pre ++ ev :: post /\ run c init p0 pre = Some (st, p)
    /\ (group_overrun_in_loop c st p ev \/ oom_on_arrival c st p ev \/ nil_validator_in_loop c st p ev).
Proof.
  intros c p0 evs H.
  destruct (run_none_split _ _ _ _ H) as [pre [ev [post [st [p [w [A [B C]]]]]]]].
  exists pre, ev, post, st, p. split; [exact A|]. split; [exact B|].
  eapply step_crash_kind; [|exact C]. eapply run_inv_true; [apply init_inv|exact B].
Qed.

(** * well-formed light blocks whose groups fit never panic, not even under the recover *)
Definition wellformed (c : config) (lb : ltblock) : bool :=
  match lt_hdr lb with
  | Some h => (0 <? h_txcount h) && (h_txcount h =? Z.of_nat (length (lt_sh lb)))
              && (h_txcount h <=? c_cap c) && (h_txcount h <=? max_len)
  | None => false
  end.

Lemma wellformed_never_panics : forall c p now from pub lb st,
  wellformed c lb = true -> fits p lb = true ->
  exists st' e, add_lt c p now from pub lb st = Ok (st', e).
Proof.
  intros c p now from pub lb st W F. unfold wellformed in W. unfold add_lt.
  destruct (lt_hdr lb) as [h|] eqn:Eh; [|discriminate].
  apply andb_true_iff in W as [W W4]. apply andb_true_iff in W as [W W3].
  apply andb_true_iff in W as [W1 W2].
  apply Z.ltb_lt in W1. apply Z.eqb_eq in W2. apply Z.leb_le in W3. apply Z.leb_le in W4.
  unfold go_make.
  replace (h_txcount h <? 0) with false by (symmetry; apply Z.ltb_ge; lia).
  replace (max_len <? h_txcount h) with false by (symmetry; apply Z.ltb_ge; lia).
  replace (c_cap c <? h_txcount h) with false by (symmetry; apply Z.ltb_ge; lia).
  simpl orb. cbv iota.
  destruct (set_nth_some _ (repeat (@None txid) (Z.to_nat (h_txcount h))) 0%nat (lt_miner lb)) as [txs1 E1].
  { rewrite repeat_length. lia. }
  rewrite E1.
  pose proof (set_nth_length _ _ _ _ _ E1) as L1. rewrite repeat_length in L1.
  match goal with |- context [build p ?pd] => remember pd as pd0 eqn:Epd end.
  destruct (build_fits_ok p pd0) as [pd' [b [e Eb]]].
  - intros j Hj. rewrite Epd in *. simpl in *.
    assert (nth_error txs1 j <> None) as Hn by congruence. apply nth_error_Some in Hn. lia.
  - unfold pd_fits. rewrite Epd. simpl. rewrite L1. apply fits_fits_at; assumption.
  - rewrite Eb. destruct b; eauto.
Qed.

(** * witnesses *)
Definition cfg0 : config := mkCfg 2147483648 3600000 [] false.
Definition cfg_noval : config := mkCfg 2147483648 3600000 [] true.
Definition plain (id : N) : ptx := mkPtx id 0 [].
Definition grp2 : ptx := mkPtx 18%N 2 [16; 17]%N.
Definition lt_w : ltblock := mkLt (Some (mkHdr 3 5 1%N 1%N)) (Some 11%N) [1; 2; 3]%N.

(** 3 slots (miner + 2), slot 2 missing at arrival, later answered with a 2-member group *)
Definition hist_overrun : list event :=
  [ERecvLt 0 1%N 2%N lt_w; ETick 500000000;
   EPool [(2%N, plain 1%N); (3%N, grp2)]; ETick 1500000000].
Definition pool_w : pool := [(2%N, plain 1%N)].

Lemma overrun_crashes : run cfg0 init pool_w hist_overrun = None.
Proof. vm_compute. reflexivity. Qed.
Lemma overrun_mem_ok : forallb (mem_ok cfg0) hist_overrun = true.
Proof. vm_compute. reflexivity. Qed.

(** TxCount = 2^40 *)
Definition ev_oom : event := ERecvLt 0 1%N 2%N (mkLt (Some (mkHdr 1099511627776 5 1%N 1%N)) (Some 11%N) [1; 2; 3]%N).
Lemma oom_crashes : step cfg0 init pool_w ev_oom = Crashed 0%N.
Proof. vm_compute. reflexivity. Qed.

(** the same block, the group arrives where it fits: the block is posted *)
Definition hist_fits : list event :=
  [ERecvLt 0 1%N 2%N lt_w; ETick 500000000;
   EPool [(2%N, grp2)]; ETick 1500000000].
Lemma hist_fits_guard : forallb (mem_ok cfg0) hist_fits = true /\ fits_hist [] hist_fits = true.
Proof. vm_compute. auto. Qed.
Lemma hist_fits_posts :
  match run cfg0 init [] [ERecvLt 0 1%N 2%N lt_w; ETick 500000000] with
  | Some (st, p) =>
      length (st_pend st) = 1%nat /\
      step cfg0 st p (EPool [(2%N, grp2)]) = Alive st [(2%N, grp2)] [] /\
      exists st', step cfg0 st [(2%N, grp2)] (ETick 1500000000)
                  = Alive st' [(2%N, grp2)]
                          [Post 2%N (mkBlk 5 1%N 0%N [Some 11; Some 16; Some 17]%N)]
                  /\ st_pend st' = []
  | None => False
  end.
Proof. vm_compute. repeat split. eexists. split; reflexivity. Qed.

Lemma wellformed_example : wellformed cfg0 lt_w = true /\ fits [(2%N, grp2)] lt_w = true.
Proof. vm_compute. auto. Qed.

(** validation disabled: the same honest history (the group fits) kills the loop
    right after the completed block was handed over *)
Lemma noval_crashes :
  forallb (mem_ok cfg_noval) hist_fits = true /\ fits_hist [] hist_fits = true
  /\ run cfg_noval init [] hist_fits = None.
Proof. vm_compute. auto. Qed.
