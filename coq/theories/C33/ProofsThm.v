(** C33 — the statements behind Properties.v: characterisation of every crash,
    light blocks never panic in addLtBlock, the histories that used to kill the
    node (now survived), non-vacuity examples. *)
From Coq Require Import List ZArith NArith Bool Lia.
From C33 Require Import C33.Model C33.ProofsBase C33.ProofsMain C33.ProofsStep.
Import ListNotations.
Open Scope Z_scope.

Lemma run_app : forall c pre post st p,
  run c st p (pre ++ post) =
  match run c st p pre with Some (s, q) => run c s q post | None => None end.
Proof.
  induction pre as [|ev pre IH]; intros post st p; simpl; [reflexivity|].
  destruct (step c st p ev); [apply IH|reflexivity].
Qed.

Lemma run_none_split : forall c evs st p,
  run c st p evs = None ->
  exists pre ev post st1 p1 w,
    evs = pre ++ ev :: post /\ run c st p pre = Some (st1, p1) /\ step c st1 p1 ev = Crashed w.
Proof.
  induction evs as [|ev evs IH]; intros st p H; simpl in H; [discriminate|].
  destruct (step c st p ev) as [s1 p1 e1|w] eqn:E.
  - destruct (IH _ _ H) as [pre [ev0 [post [s2 [p2 [w [A [B C]]]]]]]].
    exists (ev :: pre), ev0, post, s2, p2, w. split; [simpl; congruence|].
    split; [simpl; rewrite E; exact B|exact C].
  - exists [], ev, evs, st, p, w. auto.
Qed.

(** the one way a step can still end the process: the operating system cannot
    provide a slice as long as the hash list of the light block just received *)
Definition oom_on_arrival (c : config) (st : state) (p : pool) (ev : event) : Prop :=
  under_recover ev = true /\ mem_ok c ev = false /\ step c st p ev = Crashed 0%N.

Lemma step_crash_kind : forall c st p ev w,
  pend_inv QTrue st -> step c st p ev = Crashed w -> oom_on_arrival c st p ev.
Proof.
  intros c st p ev w I H.
  destruct (mem_ok c ev) eqn:M.
  - destruct (step_alive c st p ev I M) as [st' [p' [e E]]]. congruence.
  - destruct ev; simpl in M; try discriminate.
    split; [reflexivity|]. split; [exact M|].
    simpl in H |- *. unfold recv_lt_raw in *. destruct (mem_n (lt_hash lb) (st_filter st)); [discriminate|].
    match type of H with context [add_lt ?a ?b ?c0 ?d ?e ?f ?g] => destruct (add_lt a b c0 d e f g) as [[s e0]| |] end;
      try discriminate. reflexivity.
Qed.

Lemma crash_characterisation : forall c p0 evs,
  run c init p0 evs = None ->
  exists pre ev post st p,
    evs = pre ++ ev :: post /\ run c init p0 pre = Some (st, p) /\ oom_on_arrival c st p ev.
Proof.
  intros c p0 evs H.
  destruct (run_none_split _ _ _ _ H) as [pre [ev [post [st [p [w [A [B C]]]]]]]].
  exists pre, ev, post, st, p. split; [exact A|]. split; [exact B|].
  eapply step_crash_kind; [|exact C]. eapply run_inv_true; [apply init_inv|exact B].
Qed.

(** * addLtBlock itself never panics (recovered or not), whatever the light block
    looks like, when a slice as long as its hash list can be made *)
Lemma add_lt_total : forall c p now from pub lb st,
  Z.of_nat (length (lt_sh lb)) <= c_cap c -> Z.of_nat (length (lt_sh lb)) <= max_len ->
  exists st' e, add_lt c p now from pub lb st = Ok (st', e).
Proof.
  intros c p now from pub lb st HC HM. unfold add_lt.
  destruct ((lt_txcount lb <=? 0) || (Z.of_nat (length (lt_sh lb)) <? lt_txcount lb)) eqn:E0; [eauto|].
  apply orb_false_iff in E0 as [E1 E2]. apply Z.leb_gt in E1. apply Z.ltb_ge in E2.
  unfold lt_txcount in *. destruct (lt_hdr lb) as [h|] eqn:Eh; [|lia].
  unfold go_make.
  replace (h_txcount h <? 0) with false by (symmetry; apply Z.ltb_ge; lia).
  replace (max_len <? h_txcount h) with false by (symmetry; apply Z.ltb_ge; lia).
  replace (c_cap c <? h_txcount h) with false by (symmetry; apply Z.ltb_ge; lia).
  simpl orb. cbv iota.
  destruct (set_nth_some _ (repeat (@None txid) (Z.to_nat (h_txcount h))) 0%nat (lt_miner lb)) as [txs1 E3].
  { rewrite repeat_length. lia. }
  rewrite E3.
  pose proof (set_nth_length _ _ _ _ _ E3) as L1. rewrite repeat_length in L1.
  match goal with |- context [build p ?pd] => remember pd as pd0 eqn:Epd end.
  destruct (build_ok p pd0) as [pd' [b [e Eb]]].
  - intros j Hj. rewrite Epd in *. simpl in *.
    assert (nth_error txs1 j <> None) as Hn by congruence. apply nth_error_Some in Hn. lia.
  - rewrite Eb. destruct b; eauto.
Qed.

(** * examples *)
Definition cfg0 : config := mkCfg 2147483648 3600000 [] false.
Definition cfg_noval : config := mkCfg 2147483648 3600000 [] true.
Definition plain (id : N) : ptx := mkPtx id 0 [].
Definition grp2 : ptx := mkPtx 18%N 2 [16; 17]%N.
Definition lt_w : ltblock := mkLt (Some (mkHdr 3 5 1%N 1%N)) (Some 11%N) [1; 2; 3]%N.

(** (former finding 1) 3 slots (miner + 2), slot 2 missing at arrival, later answered
    with a 2-member group: the group does not fit, the block stays pending *)
Definition hist_overrun : list event :=
  [ERecvLt 0 1%N 2%N lt_w; ETick 500000000;
   EPool [(2%N, plain 1%N); (3%N, grp2)]; ETick 1500000000].
Definition pool_w : pool := [(2%N, plain 1%N)].

Lemma overrun_survives :
  forallb (mem_ok cfg0) hist_overrun = true /\
  match run cfg0 init pool_w hist_overrun with
  | Some (st, _) => map pd_txs (st_pend st) = [[Some 11; Some 1; None]%N]
  | None => False
  end.
Proof. vm_compute. auto. Qed.

(** (former finding 2) TxCount = 2^40 with three short hashes: dropped, only the
    duplicate filter remembers the header hash *)
Definition ev_oom : event := ERecvLt 0 1%N 2%N (mkLt (Some (mkHdr 1099511627776 5 1%N 1%N)) (Some 11%N) [1; 2; 3]%N).
Lemma oom_dropped :
  mem_ok cfg0 ev_oom = true /\ step cfg0 init pool_w ev_oom = Alive (mkSt [1%N] [] [] 0) pool_w [].
Proof. vm_compute. auto. Qed.

(** the same block as in [hist_overrun], the group arrives where it fits: the block is posted *)
Definition hist_fits : list event :=
  [ERecvLt 0 1%N 2%N lt_w; ETick 500000000;
   EPool [(2%N, grp2)]; ETick 1500000000].
Lemma hist_fits_posts : forall c, c = cfg0 \/ c = cfg_noval ->
  match run c init [] [ERecvLt 0 1%N 2%N lt_w; ETick 500000000] with
  | Some (st, p) =>
      length (st_pend st) = 1%nat /\
      step c st p (EPool [(2%N, grp2)]) = Alive st [(2%N, grp2)] [] /\
      exists st', step c st [(2%N, grp2)] (ETick 1500000000)
                  = Alive st' [(2%N, grp2)]
                          [Post 2%N (mkBlk 5 1%N 0%N [Some 11; Some 16; Some 17]%N)]
                  /\ st_pend st' = []
  | None => False
  end.
Proof.
  intros c [->| ->]; vm_compute; repeat split; eexists; split; reflexivity.
Qed.

Lemma add_lt_total_example :
  Z.of_nat (length (lt_sh lt_w)) <= c_cap cfg0 /\ Z.of_nat (length (lt_sh lt_w)) <= max_len
  /\ add_lt cfg0 [(2%N, grp2)] 0 1%N 2%N lt_w init
     = Ok (init, [Post 2%N (mkBlk 5 1%N 0%N [Some 11; Some 16; Some 17]%N)]).
Proof. vm_compute. repeat split; discriminate. Qed.
